(* C03 proof library, part 4: the diff is lossless (ops exact, every known row
   accounted for, entries carry the governing rule and key) at every depth. *)
From Coq Require Import List String Bool Arith Lia Permutation.
From Annet Require Import Base.Str Base.Tree Model.Rulebook Model.Diff Spec.P_C03 Proofs.DiffBasics
  Proofs.DiffProofsLib Proofs.DiffProofsAnnot.
Import ListNotations.
Open Scope list_scope.

(* ---------- the checker, unfolded once ---------- *)
Lemma lossless_n_eq ao an o row mi kids :
  lossless_n ao an (DN o row mi kids) =
  match o, alookup row ao, alookup row an with
  | Added, None, Some (m, s) =>
    mi_eqb mi m && forallb (fun k => op_eqb (d_op k) Added) kids && lossless [] (akids s) kids
  | Removed, Some (m, s), None =>
    mi_eqb mi m && forallb (fun k => op_eqb (d_op k) Removed) kids && lossless (akids s) [] kids
  | (Affected | Moved | Unchanged), Some (m, so), Some (_, sn) =>
    mi_eqb mi m && lossless (akids so) (akids sn) kids &&
    (negb (op_eqb o Unchanged) || forallb (fun k => op_eqb (d_op k) Unchanged) kids)
  | _, _, _ => false
  end.
Proof. reflexivity. Qed.

Lemma forallb_op kids o : forallb (fun k => op_eqb (d_op k) o) kids = true <-> (forall k, In k kids -> d_op k = o).
Proof.
  rewrite forallb_forall. split; intros H k Hk.
  - apply op_eqb_eq. apply H. exact Hk.
  - apply op_eqb_eq. apply H. exact Hk.
Qed.

Lemma lossless_added ao an row mi kids s :
  alookup row ao = None -> alookup row an = Some (mi, s) ->
  (forall k, In k kids -> d_op k = Added) -> lossless [] (akids s) kids = true ->
  lossless_n ao an (DN Added row mi kids) = true.
Proof.
  intros H1 H2 H3 H4. rewrite lossless_n_eq, H1, H2, mi_eqb_refl, H4.
  rewrite (proj2 (forallb_op kids Added) H3). reflexivity.
Qed.

Lemma lossless_removed ao an row mi kids s :
  alookup row ao = Some (mi, s) -> alookup row an = None ->
  (forall k, In k kids -> d_op k = Removed) -> lossless (akids s) [] kids = true ->
  lossless_n ao an (DN Removed row mi kids) = true.
Proof.
  intros H1 H2 H3 H4. rewrite lossless_n_eq, H1, H2, mi_eqb_refl, H4.
  rewrite (proj2 (forallb_op kids Removed) H3). reflexivity.
Qed.

Lemma lossless_both ao an o row mi kids so m' sn :
  o = Affected \/ o = Moved ->
  alookup row ao = Some (mi, so) -> alookup row an = Some (m', sn) ->
  lossless (akids so) (akids sn) kids = true ->
  lossless_n ao an (DN o row mi kids) = true.
Proof.
  intros Ho H1 H2 H4. rewrite lossless_n_eq, H1, H2, mi_eqb_refl, H4.
  destruct Ho; subst o; reflexivity.
Qed.

Definition cov (f : aforest) (unch : bool) (rows : list string) : Prop :=
  forall k, In k f -> In (arow k) rows \/ (mi_dlogic (ami k) = DRewrite /\ unch = true).

Lemma covered_cov f unch rows : covered f unch rows = true <-> cov f unch rows.
Proof.
  unfold covered, cov. rewrite forallb_forall. split; intros H k Hk; specialize (H k Hk).
  - apply orb_true_iff in H as [H|H].
    + left. apply existsb_eqb_In. exact H.
    + right. apply andb_true_iff in H as [H1 H2]. split; [apply dlogic_eqb_eq; exact H1 | exact H2].
  - apply orb_true_iff. destruct H as [H|[H1 H2]].
    + left. apply existsb_eqb_In. exact H.
    + right. apply andb_true_iff. split; [apply dlogic_eqb_eq; exact H1 | exact H2].
Qed.

Lemma lossless_iff ao an d :
  lossless ao an d = true <->
  NoDup (map d_row d) /\ cov ao (rw_unchanged ao an) (map d_row d) /\ cov an (rw_unchanged ao an) (map d_row d) /\
  (forall x, In x d -> lossless_n ao an x = true).
Proof.
  unfold lossless. rewrite !andb_true_iff, nodup_rows_NoDup, !covered_cov, forallb_forall. tauto.
Qed.

(* ---------- transformations that keep rows keep losslessness ---------- *)
Lemma lossless_map (f : dnode -> dnode) ao an kids :
  (forall x, d_row (f x) = d_row x) ->
  Forall (fun x => forall ao an, lossless_n ao an x = true -> lossless_n ao an (f x) = true) kids ->
  lossless ao an kids = true -> lossless ao an (map f kids) = true.
Proof.
  intros Hrow IH H. apply lossless_iff in H as (H1 & H2 & H3 & H4). apply lossless_iff.
  assert (E : map d_row (map f kids) = map d_row kids).
  { rewrite map_map. apply map_ext. exact Hrow. }
  rewrite E. repeat split; try assumption.
  intros x Hx. apply in_map_iff in Hx as (y & Ey & Hy). subst x.
  rewrite Forall_forall in IH. apply IH; [exact Hy|]. apply H4. exact Hy.
Qed.

Lemma aff_to_moved_row d : d_row (aff_to_moved_n d) = d_row d.
Proof. destruct d; reflexivity. Qed.
Lemma aff_to_moved_op d : d_op (aff_to_moved_n d) = if op_eqb (d_op d) Affected then Moved else d_op d.
Proof. destruct d; reflexivity. Qed.
Lemma mark_row d : d_row (mark_unchanged_n d) = d_row d.
Proof. destruct d as [o r m k]. cbn. destruct (op_eqb o Affected); reflexivity. Qed.

Lemma forallb_op_aff kids o : o <> Affected -> o <> Moved ->
  forallb (fun k => op_eqb (d_op k) o) kids = true ->
  forallb (fun k => op_eqb (d_op k) o) (map aff_to_moved_n kids) = true.
Proof.
  intros Ho1 Ho2. rewrite !forallb_op. intros H k Hk. apply in_map_iff in Hk as (y & Ey & Hy). subst k.
  rewrite aff_to_moved_op. specialize (H y Hy). rewrite H.
  destruct o; try reflexivity; congruence.
Qed.

Lemma lossless_aff_to_moved : forall d ao an,
  lossless_n ao an d = true -> lossless_n ao an (aff_to_moved_n d) = true.
Proof.
  induction d as [o row m kids IH] using dnode_ind2. intros ao an H.
  cbn [aff_to_moved_n]. rewrite lossless_n_eq in *.
  assert (HL : forall a b, lossless a b kids = true -> lossless a b (map aff_to_moved_n kids) = true).
  { intros a b Hab. apply lossless_map; [exact aff_to_moved_row | exact IH | exact Hab]. }
  destruct (alookup row ao) as [[mo so]|], (alookup row an) as [[mn sn]|];
    destruct o; cbn [op_eqb negb orb] in *; try discriminate.
  - (* Moved *) apply andb_true_iff in H as [H _]. apply andb_true_iff in H as [H1 H2].
    rewrite H1, (HL _ _ H2). reflexivity.
  - (* Affected *) apply andb_true_iff in H as [H _]. apply andb_true_iff in H as [H1 H2].
    rewrite H1, (HL _ _ H2). reflexivity.
  - (* Unchanged *) apply andb_true_iff in H as [H H3]. apply andb_true_iff in H as [H1 H2].
    rewrite H1, (HL _ _ H2). cbn [andb].
    apply forallb_op_aff; [discriminate | discriminate | exact H3].
  - (* Removed *) apply andb_true_iff in H as [H H3]. apply andb_true_iff in H as [H1 H2].
    rewrite H1, (HL _ _ H3). rewrite forallb_op_aff; [reflexivity | discriminate | discriminate | exact H2].
  - (* Added *) apply andb_true_iff in H as [H H3]. apply andb_true_iff in H as [H1 H2].
    rewrite H1, (HL _ _ H3). rewrite forallb_op_aff; [reflexivity | discriminate | discriminate | exact H2].
Qed.

Lemma lossless_mark : forall d ao an,
  lossless_n ao an d = true -> lossless_n ao an (mark_unchanged_n d) = true.
Proof.
  induction d as [o row m kids IH] using dnode_ind2. intros ao an H.
  cbn [mark_unchanged_n]. destruct (op_eqb o Affected) eqn:Eo; [|exact H].
  apply op_eqb_eq in Eo. subst o. rewrite lossless_n_eq in *.
  destruct (alookup row ao) as [[mo so]|], (alookup row an) as [[mn sn]|]; try discriminate.
  apply andb_true_iff in H as [H _]. apply andb_true_iff in H as [H1 H2].
  assert (H3 : lossless (akids so) (akids sn) (map mark_unchanged_n kids) = true).
  { apply lossless_map; [exact mark_row | exact IH | exact H2]. }
  destruct (forallb (fun x => op_eqb (d_op x) Unchanged) (map mark_unchanged_n kids)) eqn:E.
  - rewrite H1, H3. reflexivity.
  - rewrite H1, H3. reflexivity.
Qed.

Lemma lossless_mark_all ao an d : lossless ao an d = true -> lossless ao an (mark_unchanged d) = true.
Proof.
  intros H. unfold mark_unchanged. apply lossless_map; [exact mark_row| |exact H].
  apply Forall_forall. intros x _. apply lossless_mark.
Qed.

(* ---------- removed subtrees ---------- *)
Lemma map_flat_map_comm {A B C} (g : B -> C) (f : A -> list B) l :
  flat_map (fun x => map g (f x)) l = map g (flat_map f l).
Proof. induction l as [|x l IH]; cbn; [reflexivity|]. rewrite map_app, IH. reflexivity. Qed.

Lemma removed_t_perm nk : Permutation (removed_t (AT nk)) (map mkrem nk).
Proof.
  cbn [removed_t].
  set (all := (fix go (l : aforest) : list (dlogic * dnode) :=
                 match l with
                 | [] => []
                 | (row, mi, sub) :: l' => (mi_dlogic mi, DN Removed row mi (removed_t sub)) :: go l'
                 end) nk).
  assert (E : all = map (fun k => (mi_dlogic (ami k), mkrem k)) nk).
  { subst all. induction nk as [|[[r m] c] nk IH]; [reflexivity|]. cbn [map]. rewrite IH. reflexivity. }
  rewrite map_flat_map_comm.
  replace (map mkrem nk) with (map snd all) by (rewrite E, map_map; reflexivity).
  apply Permutation_map. apply (group_perm fst all).
  - apply uniq_dl_NoDup.
  - intros x Hx. apply uniq_dl_In0. apply in_map. exact Hx.
Qed.

Lemma removed_t_In t x : In x (removed_t t) <-> exists k, In k (akids t) /\ x = mkrem k.
Proof.
  destruct t as [nk]. cbn [akids]. split.
  - intros H. eapply Permutation_in in H; [|apply removed_t_perm].
    apply in_map_iff in H as (k & E & Hk). exists k. auto.
  - intros (k & Hk & E). subst x. eapply Permutation_in; [apply Permutation_sym, removed_t_perm|].
    apply in_map. exact Hk.
Qed.

Lemma removed_t_ops t x : In x (removed_t t) -> d_op x = Removed.
Proof. intros H. apply removed_t_In in H as (k & _ & E). subst x. reflexivity. Qed.

Lemma mkrem_rows nk : map d_row (map mkrem nk) = arows nk.
Proof. rewrite map_map. reflexivity. Qed.

Lemma removed_lossless : forall t, awf (akids t) -> lossless (akids t) [] (removed_t t) = true.
Proof.
  induction t as [nk IH] using atree_ind2. cbn [akids]. intros Hwf.
  pose proof (removed_t_perm nk) as Hp.
  assert (Hrows : Permutation (map d_row (removed_t (AT nk))) (arows nk)).
  { rewrite <- mkrem_rows. apply Permutation_map. exact Hp. }
  apply lossless_iff. repeat split.
  - eapply Permutation_NoDup; [apply Permutation_sym; exact Hrows|]. apply awf_NoDup. exact Hwf.
  - intros k Hk. left. eapply Permutation_in; [apply Permutation_sym; exact Hrows|].
    apply in_map. exact Hk.
  - intros k [].
  - intros x Hx. apply removed_t_In in Hx as (k & Hk & E). subst x. cbn [akids] in Hk.
    destruct k as [[r m] c]. unfold mkrem, arow, ami, asub. cbn [fst snd].
    eapply lossless_removed.
    + apply alookup_In; [apply awf_NoDup; exact Hwf | exact Hk].
    + reflexivity.
    + apply removed_t_ops.
    + rewrite Forall_forall in IH. apply (IH _ Hk). eapply awf_In; [exact Hwf | exact Hk].
Qed.

(* ---------- scan_new ---------- *)
Definition scan_rel (og : aforest) (pop : op) (inrw : bool) (k : string * minfo * atree) (d : dnode) : Prop :=
  match alookup (arow k) og with
  | None => d = DN Added (arow k) (ami k) (diff_t (asub k) [] Added inrw)
  | Some (_, so) => exists o, (o = pop \/ o = Moved) /\
                              d = DN o (arow k) (ami k) (diff_t (asub k) (akids so) o inrw)
  end.

Lemma scan_rows og pop inrw mta : forall l i dis,
  map d_row (scan_new og pop inrw mta (cks l) i dis) = arows l.
Proof.
  induction l as [|[[r m] c] l IH]; intros i dis; [reflexivity|].
  change (cks ((r, m, c) :: l)) with ((r, m, diff_t c) :: cks l). cbn [scan_new].
  destruct (afind r og 0) as [[j so]|].
  - destruct (dis || negb (Nat.eqb i j)); cbn [map d_row]; rewrite IH; reflexivity.
  - cbn [map d_row]. rewrite IH. reflexivity.
Qed.

Lemma scan_In og pop inrw mta : forall l i dis d,
  In d (scan_new og pop inrw mta (cks l) i dis) -> exists k, In k l /\ scan_rel og pop inrw k d.
Proof.
  induction l as [|[[r m] c] l IH]; intros i dis d H; [destruct H|].
  change (cks ((r, m, c) :: l)) with ((r, m, diff_t c) :: cks l) in H. cbn [scan_new] in H.
  assert (Hhead : forall d0 rest, In d (d0 :: rest) -> scan_rel og pop inrw (r, m, c) d0 ->
            (forall i' dis', rest = scan_new og pop inrw mta (cks l) i' dis' -> True) ->
            (In d rest -> exists k, In k l /\ scan_rel og pop inrw k d) ->
            exists k, In k ((r, m, c) :: l) /\ scan_rel og pop inrw k d).
  { intros d0 rest [E|Hin] Hrel _ Hrest.
    - subst d0. exists (r, m, c). split; [now left | exact Hrel].
    - destruct (Hrest Hin) as (k & Hk & Hr). exists k. split; [now right | exact Hr]. }
  destruct (afind r og 0) as [[j so]|] eqn:Ef.
  - apply afind_Some in Ef as (mo & El).
    destruct (dis || negb (Nat.eqb i j)).
    + eapply Hhead; [exact H| |auto|apply IH].
      unfold scan_rel, arow, ami, asub. cbn [fst snd]. rewrite El.
      exists (if mta then pop else Moved). split; [destruct mta; auto | reflexivity].
    + eapply Hhead; [exact H| |auto|apply IH].
      unfold scan_rel, arow, ami, asub. cbn [fst snd]. rewrite El.
      exists pop. split; [auto | reflexivity].
  - apply afind_None in Ef.
    eapply Hhead; [exact H| |auto|apply IH].
    unfold scan_rel, arow, ami, asub. cbn [fst snd]. rewrite Ef. reflexivity.
Qed.

Lemma scan_rel_row og pop inrw k d : scan_rel og pop inrw k d -> d_row d = arow k.
Proof.
  unfold scan_rel. destruct (alookup (arow k) og) as [[mo so]|].
  - intros (o & _ & E). subst d. reflexivity.
  - intros E. subst d. reflexivity.
Qed.

(* ---------- base_diff ---------- *)
Definition notin (rows : list string) (k : string * minfo * atree) : bool :=
  negb (existsb (String.eqb (arow k)) rows).

Lemma base_diff_perm og pop inrw mta ng :
  Permutation (base_diff og pop inrw mta (cks ng))
              (scan_new og pop inrw mta (cks ng) 0 false ++ map mkrem (filter (notin (arows ng)) og)).
Proof.
  unfold base_diff. rewrite cks_rows.
  eapply Permutation_trans; [apply interleave_perm|].
  rewrite removed_rows_spec. apply Permutation_refl.
Qed.

Lemma base_diff_rows_perm og pop inrw mta ng :
  Permutation (map d_row (base_diff og pop inrw mta (cks ng)))
              (arows ng ++ arows (filter (notin (arows ng)) og)).
Proof.
  eapply Permutation_trans; [apply Permutation_map; apply base_diff_perm|].
  rewrite map_app, scan_rows, mkrem_rows. apply Permutation_refl.
Qed.

Lemma base_diff_In og pop inrw mta ng d :
  In d (base_diff og pop inrw mta (cks ng)) ->
  (exists k, In k ng /\ scan_rel og pop inrw k d) \/
  (exists k, In k og /\ ~ In (arow k) (arows ng) /\ d = mkrem k).
Proof.
  intros H. eapply Permutation_in in H; [|apply base_diff_perm].
  apply in_app_iff in H as [H|H].
  - left. eapply scan_In. exact H.
  - right. apply in_map_iff in H as (k & E & Hk). apply filter_In in Hk as [Hk1 Hk2].
    exists k. split; [exact Hk1|]. split; [|auto].
    unfold notin in Hk2. apply negb_true_iff in Hk2. apply existsb_eqb_false. exact Hk2.
Qed.

Lemma base_diff_NoDup og pop inrw mta ng :
  NoDup (arows og) -> NoDup (arows ng) -> NoDup (map d_row (base_diff og pop inrw mta (cks ng))).
Proof.
  intros Ho Hn. eapply Permutation_NoDup; [apply Permutation_sym, base_diff_rows_perm|].
  apply NoDup_app_intro.
  - exact Hn.
  - apply NoDup_arows_filter. exact Ho.
  - intros r H1 H2. unfold arows in H2. apply in_map_iff in H2 as (k & E & Hk).
    apply filter_In in Hk as [_ Hk]. unfold notin in Hk. apply negb_true_iff in Hk.
    apply existsb_eqb_false in Hk. subst r. contradiction.
Qed.

Lemma base_diff_cov_new og pop inrw mta ng k :
  In k ng -> In (arow k) (map d_row (base_diff og pop inrw mta (cks ng))).
Proof.
  intros Hk. eapply Permutation_in; [apply Permutation_sym, base_diff_rows_perm|].
  apply in_or_app. left. apply in_map. exact Hk.
Qed.

Lemma base_diff_cov_old og pop inrw mta ng k :
  In k og -> In (arow k) (map d_row (base_diff og pop inrw mta (cks ng))).
Proof.
  intros Hk. eapply Permutation_in; [apply Permutation_sym, base_diff_rows_perm|].
  apply in_or_app. destruct (existsb (String.eqb (arow k)) (arows ng)) eqn:E.
  - left. apply existsb_eqb_In. exact E.
  - right. apply in_map. apply filter_In. split; [exact Hk|]. unfold notin. rewrite E. reflexivity.
Qed.

(* every entry of an all-AFFECTED base diff is a row present on both sides *)
Lemma base_diff_all_affected og pop inrw mta ng :
  all_affected (base_diff og pop inrw mta (cks ng)) = true ->
  (forall k, In k og -> In (arow k) (arows ng)) /\ (forall k, In k ng -> In (arow k) (arows og)).
Proof.
  intros H. unfold all_affected in H. rewrite forallb_forall in H.
  assert (Hop : forall d, In d (base_diff og pop inrw mta (cks ng)) -> d_op d = Affected).
  { intros d Hd. specialize (H d Hd). destruct d as [o r m kk]. cbn in H.
    apply andb_true_iff in H as [H _]. apply op_eqb_eq in H. exact H. }
  split; intros k Hk.
  - destruct (existsb (String.eqb (arow k)) (arows ng)) eqn:E; [apply existsb_eqb_In; exact E|].
    exfalso. assert (Hin : In (mkrem k) (base_diff og pop inrw mta (cks ng))).
    { eapply Permutation_in; [apply Permutation_sym, base_diff_perm|]. apply in_or_app. right.
      apply in_map. apply filter_In. split; [exact Hk|]. unfold notin. rewrite E. reflexivity. }
    apply Hop in Hin. discriminate.
  - pose proof (base_diff_cov_new og pop inrw mta ng k Hk) as Hr.
    apply in_map_iff in Hr as (d & Ed & Hd). pose proof (Hop d Hd) as Hopd.
    apply base_diff_In in Hd as [(k' & Hk' & Hrel)|(k' & Hk' & Hn & E)].
    + pose proof (scan_rel_row _ _ _ _ _ Hrel) as Er. rewrite Ed in Er.
      unfold scan_rel in Hrel. rewrite <- Er in Hrel.
      destruct (alookup (arow k) og) as [[mo so]|] eqn:El.
      * apply alookup_Some_In in El. eapply In_arows. exact El.
      * subst d. discriminate.
    + subst d. discriminate.
Qed.

(* ---------- diff at an empty old side: everything is ADDED ---------- *)
Lemma diff_t_nil_added : forall nt pop inrw d, In d (diff_t nt [] pop inrw) -> d_op d = Added.
Proof.
  intros [nk] pop inrw d H. rewrite diff_t_unfold, diff_level_unfold in H.
  apply in_flat_map in H as (L & _ & H). cbn [filter] in H.
  assert (HB : forall inrw' mta x, In x (base_diff [] pop inrw' mta (cks (filter (inL L) nk))) -> d_op x = Added).
  { intros inrw' mta x Hx. apply base_diff_In in Hx as [(k & _ & Hrel)|(k & [] & _)].
    unfold scan_rel in Hrel. cbn [alookup] in Hrel. subst x. reflexivity. }
  unfold run_dlogic in H. destruct L; try (eapply HB; exact H).
  destruct inrw; [eapply HB; exact H|].
  destruct (all_affected _); [destruct H|].
  unfold aff_to_moved in H. apply in_map_iff in H as (y & Ey & Hy). subst d.
  rewrite aff_to_moved_op. rewrite (HB _ _ _ Hy). reflexivity.
Qed.

(* ---------- "nothing changed at any depth" (same_f) and the all-AFFECTED test of rewrite_diff ---------- *)
Lemma same_t_f s s' : same_t s s' = same_f (akids s) (akids s').
Proof. destruct s, s'. reflexivity. Qed.

Lemma same_f_unfold a b :
  same_f a b =
  list_str_eqb (ordered_rows_a a) (ordered_rows_a b) && list_str_eqb (rewrite_rows_a a) (rewrite_rows_a b) &&
  forallb (fun k => amem (arow k) a) b &&
  forallb (fun k => match alookup (arow k) b with
                    | Some (m', s') => mi_eqb (ami k) m' && same_f (akids (asub k)) (akids s')
                    | None => false
                    end) a.
Proof.
  unfold same_f at 1. cbn [same_t akids]. f_equal.
  induction a as [|[[r m] s] l IH]; [reflexivity|].
  cbn [forallb]. unfold arow at 1, ami at 1, asub at 1. cbn [fst snd].
  rewrite <- IH. destruct (alookup r b) as [[m' s']|]; [|reflexivity].
  rewrite same_t_f. reflexivity.
Qed.

Lemma same_f_intro a b : NoDup (arows b) ->
  ordered_rows_a a = ordered_rows_a b -> rewrite_rows_a a = rewrite_rows_a b ->
  (forall k, In k b -> In (arow k) (arows a)) ->
  (forall r m s, In (r, m, s) a -> exists s', In (r, m, s') b /\ same_f (akids s) (akids s') = true) ->
  same_f a b = true.
Proof.
  intros Hnd H1 H2 H3 H4. rewrite same_f_unfold, H1, H2, !list_str_eqb_refl. cbn [andb].
  apply andb_true_iff. split.
  - apply forallb_forall. intros k Hk. apply amem_In. apply H3. exact Hk.
  - apply forallb_forall. intros [[r m] s] Hk. unfold arow, ami, asub. cbn [fst snd].
    destruct (H4 r m s Hk) as (s' & Hin & Hs).
    rewrite (alookup_In b r m s' Hnd Hin), mi_eqb_refl, Hs. reflexivity.
Qed.

Lemma aff_to_moved_all_affected d : all_affected (aff_to_moved d) = true -> d = [].
Proof.
  destruct d as [|[o r m k] d]; [reflexivity|]. cbn.
  destruct (op_eqb o Affected) eqn:E; cbn; [discriminate|]. rewrite E. discriminate.
Qed.

Lemma scan_In_conv og pop inrw mta : forall l i dis k, In k l ->
  exists d, In d (scan_new og pop inrw mta (cks l) i dis) /\ scan_rel og pop inrw k d.
Proof.
  induction l as [|[[r m] c] l IH]; intros i dis k Hk; [destruct Hk|].
  change (cks ((r, m, c) :: l)) with ((r, m, diff_t c) :: cks l). cbn [scan_new].
  destruct Hk as [E|Hk].
  - subst k. unfold scan_rel, arow, ami, asub. cbn [fst snd].
    destruct (afind r og 0) as [[j so]|] eqn:Ef.
    + destruct (afind_Some _ _ _ _ _ Ef) as (mo & El). rewrite El.
      destruct (dis || negb (Nat.eqb i j)).
      * eexists. split; [left; reflexivity|]. exists (if mta then pop else Moved).
        split; [destruct mta; auto | reflexivity].
      * eexists. split; [left; reflexivity|]. exists pop. split; [auto | reflexivity].
    + apply afind_None in Ef. rewrite Ef. eexists. split; [left; reflexivity | reflexivity].
  - destruct (afind r og 0) as [[j so]|]; [destruct (dis || negb (Nat.eqb i j))|].
    + destruct (IH (S i) true k Hk) as (d & Hd & Hr). exists d. split; [right; exact Hd | exact Hr].
    + destruct (IH (S i) false k Hk) as (d & Hd & Hr). exists d. split; [right; exact Hd | exact Hr].
    + destruct (IH (S i) true k Hk) as (d & Hd & Hr). exists d. split; [right; exact Hd | exact Hr].
Qed.

(* index-based move detection: if no row of new is MOVED or ADDED, new's rows are a prefix of old's *)
Lemma scan_aff_prefix pop inrw : forall nsuf pre osuf,
  NoDup (arows (pre ++ osuf)) ->
  (forall d, In d (scan_new (pre ++ osuf) pop inrw false (cks nsuf) (List.length pre) false) -> d_op d = Affected) ->
  exists rest, arows osuf = arows nsuf ++ rest.
Proof.
  induction nsuf as [|[[r m] c] ns IH]; intros pre osuf Hnd H.
  - exists (arows osuf). reflexivity.
  - change (cks ((r, m, c) :: ns)) with ((r, m, diff_t c) :: cks ns) in H. cbn [scan_new orb] in H.
    destruct (afind r (pre ++ osuf) 0) as [[j so]|] eqn:Ef.
    + destruct (Nat.eqb (List.length pre) j) eqn:Ej; cbn [negb] in H.
      * apply Nat.eqb_eq in Ej. subst j.
        apply afind_nth in Ef as (_ & m' & Hn). rewrite Nat.sub_0_r in Hn.
        rewrite nth_error_app2 in Hn by lia. rewrite Nat.sub_diag in Hn.
        destruct osuf as [|[[r' mo] so'] osuf']; [discriminate|]. cbn in Hn. injection Hn as E1 E2 E3. subst.
        specialize (IH (pre ++ [(r, m', so)]) osuf').
        rewrite <- app_assoc in IH. cbn [app] in IH. rewrite app_length in IH. cbn [List.length] in IH.
        rewrite Nat.add_1_r in IH.
        destruct (IH Hnd) as (rest & E).
        { intros d Hd. apply H. right. exact Hd. }
        exists rest. change (arows ((r, m', so) :: osuf')) with (r :: arows osuf').
        change (arows ((r, m, c) :: ns)) with (r :: arows ns). cbn [app]. rewrite E. reflexivity.
      * exfalso. specialize (H _ (or_introl eq_refl)). discriminate.
    + exfalso. specialize (H _ (or_introl eq_refl)). discriminate.
Qed.

Lemma awf_filter p f : awf f -> awf (filter p f).
Proof.
  induction 1 as [|r m c f Hr Hc _ _ IH]; cbn [filter]; [constructor|].
  destruct (p (r, m, c)); [|exact IH]. constructor; [|exact Hc|exact IH].
  intro Hin. apply Hr. eapply arows_filter_incl. exact Hin.
Qed.

Lemma ordered_of_rewrite f : ordered_rows_a (filter (inL DRewrite) f) = [].
Proof.
  unfold ordered_rows_a. induction f as [|k f IH]; [reflexivity|]. cbn [filter].
  destruct (inL DRewrite k) eqn:E; [|exact IH]. cbn [filter].
  unfold inL in E. apply dlogic_eqb_eq in E. rewrite E. cbn [dlogic_eqb]. exact IH.
Qed.

Lemma rewrite_of_rewrite f : rewrite_rows_a (filter (inL DRewrite) f) = arows (filter (inL DRewrite) f).
Proof.
  unfold rewrite_rows_a, rewrite_group, arows. f_equal.
  induction f as [|k f IH]; [reflexivity|]. cbn [filter].
  destruct (inL DRewrite k) eqn:E; [|exact IH]. cbn [filter].
  change (dlogic_eqb (mi_dlogic (ami k)) DRewrite) with (inL DRewrite k). rewrite E, IH. reflexivity.
Qed.

Definition AA (t : atree) : Prop :=
  forall ao pop inrw, awf ao -> awf (akids t) -> compat ao (akids t) ->
    all_affected (diff_t t ao pop inrw) = true -> same_f ao (akids t) = true.

Section SameLevel.
  Variables (ao nk : aforest).
  Hypothesis Hwo : awf ao.
  Hypothesis Hwn : awf nk.
  Hypothesis Hc : compat ao nk.
  Hypothesis IHA : Forall (fun k => AA (asub k)) nk.

  Let NDo := awf_NoDup ao Hwo.
  Let NDn := awf_NoDup nk Hwn.

  (* what an all-AFFECTED group says about the rows of one diff logic *)
  Definition gsame (L : dlogic) : Prop :=
    (forall k, In k (filter (inL L) ao) -> In (arow k) (arows (filter (inL L) nk))) /\
    (forall k, In k (filter (inL L) nk) -> In (arow k) (arows (filter (inL L) ao))) /\
    (L <> DDefault -> arows (filter (inL L) ao) = arows (filter (inL L) nk)) /\
    (forall r m c mo so, In (r, m, c) (filter (inL L) nk) -> In (r, mo, so) (filter (inL L) ao) ->
        mo = m /\ same_f (akids so) (akids c) = true).

  Lemma base_gsame L pop inrw' mta : (L <> DDefault -> mta = false) ->
    all_affected (base_diff (filter (inL L) ao) pop inrw' mta (cks (filter (inL L) nk))) = true -> gsame L.
  Proof.
    intros Hmta Hall.
    set (og := filter (inL L) ao) in *. set (ng := filter (inL L) nk) in *.
    assert (NDog : NoDup (arows og)) by (apply NoDup_arows_filter; exact NDo).
    destruct (base_diff_all_affected _ _ _ _ _ Hall) as [Ha Hb].
    assert (Hop : forall d, In d (base_diff og pop inrw' mta (cks ng)) -> all_affected_n d = true).
    { apply forallb_forall. exact Hall. }
    unfold gsame. split; [exact Ha|]. split; [exact Hb|]. split.
    - intros HL. rewrite (Hmta HL) in *.
      destruct (scan_aff_prefix pop inrw' ng [] og NDog) as (rest & E).
      { intros d Hd. cbn [List.length app] in Hd.
        assert (Hin : In d (base_diff og pop inrw' false (cks ng))).
        { eapply Permutation_in; [apply Permutation_sym, base_diff_perm|]. apply in_or_app. left. exact Hd. }
        apply Hop in Hin. destruct d as [o r m kk]. cbn in Hin. apply andb_true_iff in Hin as [Hin _].
        apply op_eqb_eq in Hin. exact Hin. }
      destruct rest as [|x rest]; [rewrite app_nil_r in E; exact E|]. exfalso.
      assert (Hx : In x (arows og)) by (rewrite E; apply in_or_app; right; left; reflexivity).
      unfold arows in Hx. apply in_map_iff in Hx as (k & Ek & Hk). apply Ha in Hk. rewrite Ek in Hk.
      rewrite E in NDog. apply NoDup_remove_2 in NDog. apply NDog. apply in_or_app. left. exact Hk.
    - intros r m c mo so Hk Hko.
      assert (Hknk : In (r, m, c) nk) by (apply filter_In in Hk as [Hk _]; exact Hk).
      assert (Hkao : In (r, mo, so) ao) by (apply filter_In in Hko as [Hko _]; exact Hko).
      assert (Elo : alookup r ao = Some (mo, so)) by (apply alookup_In; assumption).
      destruct (compat_In ao nk Hc r m c mo so Hknk Elo) as [Em Hcs]. split; [exact Em|].
      destruct (scan_In_conv og pop inrw' mta ng 0 false (r, m, c) Hk) as (d & Hd & Hrel).
      assert (Hin : In d (base_diff og pop inrw' mta (cks ng))).
      { eapply Permutation_in; [apply Permutation_sym, base_diff_perm|]. apply in_or_app. left. exact Hd. }
      apply Hop in Hin.
      unfold scan_rel, arow, ami, asub in Hrel. cbn [fst snd] in Hrel.
      rewrite (alookup_In og r mo so NDog Hko) in Hrel. destruct Hrel as (o & _ & Ed). subst d.
      cbn [all_affected_n] in Hin. apply andb_true_iff in Hin as [Ho Hkids]. apply op_eqb_eq in Ho. subst o.
      rewrite Forall_forall in IHA. apply (IHA (r, m, c) Hknk (akids so) Affected inrw').
      + eapply awf_In; [exact Hwo | exact Hkao].
      + eapply awf_In; [exact Hwn | exact Hknk].
      + exact Hcs.
      + exact Hkids.
  Qed.

  Lemma run_gsame L pop inrw :
    all_affected (run_dlogic L (filter (inL L) ao) (cks (filter (inL L) nk)) pop inrw) = true -> gsame L.
  Proof.
    unfold run_dlogic. destruct L.
    - apply base_gsame. intros H. congruence.
    - apply base_gsame. reflexivity.
    - destruct inrw; [apply base_gsame; reflexivity|].
      destruct (all_affected (base_diff _ pop true false _)) eqn:E.
      + intros _. eapply base_gsame; [|exact E]. reflexivity.
      + intros H. apply aff_to_moved_all_affected in H. rewrite H in E. discriminate.
  Qed.

  Lemma gsame_empty L : filter (inL L) ao = [] -> filter (inL L) nk = [] -> gsame L.
  Proof.
    intros E1 E2. unfold gsame. rewrite E1, E2.
    split; [intros k []|]. split; [intros k []|]. split; [reflexivity|]. intros r m c mo so [].
  Qed.

  Lemma level_gsame pop inrw : all_affected (diff_level ao (cks nk) pop inrw) = true -> forall L, gsame L.
  Proof.
    rewrite diff_level_unfold. set (keys := uniq_dl _ []). intros H L.
    destruct (existsb (dlogic_eqb L) keys) eqn:EL.
    - apply existsb_dl_In in EL. apply (run_gsame L pop inrw).
      unfold all_affected in *. apply forallb_forall. intros d Hd.
      rewrite forallb_forall in H. apply H. apply in_flat_map. exists L. split; [exact EL | exact Hd].
    - assert (Hn : ~ In L keys) by (intro Hin; apply existsb_dl_In in Hin; congruence).
      apply gsame_empty.
      + destruct (filter (inL L) ao) as [|k l] eqn:E; [reflexivity|]. exfalso. apply Hn.
        assert (Hk : In k (filter (inL L) ao)) by (rewrite E; left; reflexivity).
        apply filter_In in Hk as [Hk HL]. unfold inL in HL. apply dlogic_eqb_eq in HL. subst L.
        apply uniq_dl_In0. apply in_or_app. left. apply (in_map (fun k => mi_dlogic (ami k))). exact Hk.
      + destruct (filter (inL L) nk) as [|k l] eqn:E; [reflexivity|]. exfalso. apply Hn.
        assert (Hk : In k (filter (inL L) nk)) by (rewrite E; left; reflexivity).
        apply filter_In in Hk as [Hk HL]. unfold inL in HL. apply dlogic_eqb_eq in HL. subst L.
        apply uniq_dl_In0. apply in_or_app. right. apply (in_map (fun k => mi_dlogic (ami k))). exact Hk.
  Qed.

  Lemma gsame_all_same : (forall L, gsame L) -> same_f ao nk = true.
  Proof.
    intros G. apply same_f_intro.
    - exact NDn.
    - destruct (G DOrdered) as (_ & _ & G3 & _). apply G3. discriminate.
    - destruct (G DRewrite) as (_ & _ & G3 & _). apply G3. discriminate.
    - intros k Hk. destruct (G (mi_dlogic (ami k))) as (_ & G2 & _).
      eapply arows_filter_incl. apply G2. apply filter_In. split; [exact Hk|]. unfold inL. apply dlogic_eqb_refl.
    - intros r m s Hk. destruct (G (mi_dlogic m)) as (G1 & _ & _ & G4).
      assert (HkL : In (r, m, s) (filter (inL (mi_dlogic m)) ao)).
      { apply filter_In. split; [exact Hk|]. unfold inL, ami. cbn [fst snd]. apply dlogic_eqb_refl. }
      pose proof (G1 _ HkL) as Hr. unfold arow in Hr. cbn [fst] in Hr.
      unfold arows in Hr. apply in_map_iff in Hr as ([[r' m'] s'] & Er & Hk').
      unfold arow in Er. cbn [fst] in Er. subst r'.
      destruct (G4 r m' s' m s Hk' HkL) as [Em Hs]. subst m'.
      exists s'. split; [|exact Hs]. apply filter_In in Hk' as [Hk' _]. exact Hk'.
  Qed.

  Lemma gsame_rw : gsame DRewrite -> rw_unchanged ao nk = true.
  Proof.
    intros (G1 & G2 & G3 & G4). unfold rw_unchanged.
    change (rewrite_group ao) with (filter (inL DRewrite) ao).
    change (rewrite_group nk) with (filter (inL DRewrite) nk).
    apply same_f_intro.
    - apply NoDup_arows_filter. exact NDn.
    - rewrite !ordered_of_rewrite. reflexivity.
    - rewrite !rewrite_of_rewrite. apply G3. discriminate.
    - exact G2.
    - intros r m s Hk. pose proof (G1 _ Hk) as Hr. unfold arow in Hr. cbn [fst] in Hr.
      unfold arows in Hr. apply in_map_iff in Hr as ([[r' m'] s'] & Er & Hk').
      unfold arow in Er. cbn [fst] in Er. subst r'.
      destruct (G4 r m' s' m s Hk' Hk) as [Em Hs]. subst m'.
      exists s'. split; [exact Hk' | exact Hs].
  Qed.
End SameLevel.

Theorem diff_t_all_affected_same : forall t, AA t.
Proof.
  induction t as [nk IH] using atree_ind2. unfold AA. cbn [akids].
  intros ao pop inrw Hwo Hwn Hc H. rewrite diff_t_unfold in H.
  apply (gsame_all_same ao nk Hwn). eapply level_gsame; eassumption.
Qed.

(* ---------- one level ---------- *)
Definition pop_ok (pop : op) (ao : aforest) : Prop := pop = Affected \/ pop = Moved \/ ao = [].

Definition LL (t : atree) : Prop :=
  forall ao pop inrw, awf ao -> awf (akids t) -> compat ao (akids t) -> pop_ok pop ao ->
  lossless ao (akids t) (diff_t t ao pop inrw) = true.

Section Level.
  Variables (ao nk : aforest) (pop : op).
  Hypothesis Hwo : awf ao.
  Hypothesis Hwn : awf nk.
  Hypothesis Hc : compat ao nk.
  Hypothesis Hpop : pop_ok pop ao.
  Hypothesis IH : Forall (fun k => LL (asub k)) nk.

  Let NDo := awf_NoDup ao Hwo.
  Let NDn := awf_NoDup nk Hwn.

  (* a row of new is in old's group L iff it is in old at all *)
  Lemma old_group_lookup L r m c :
    In (r, m, c) nk -> mi_dlogic m = L ->
    alookup r (filter (inL L) ao) = alookup r ao.
  Proof.
    intros Hk HL. destruct (alookup r ao) as [[mo so]|] eqn:El.
    - destruct (compat_In ao nk Hc r m c mo so Hk El) as [Em _]. subst mo.
      apply alookup_In; [apply NoDup_arows_filter; exact NDo|].
      apply filter_In. split; [apply alookup_Some_In; exact El|].
      unfold inL, ami. cbn [fst snd]. rewrite HL. apply dlogic_eqb_refl.
    - apply alookup_None. intro Hin. apply arows_filter_incl in Hin.
      apply alookup_None in El. contradiction.
  Qed.

  Lemma new_group_absent L r m c :
    In (r, m, c) ao -> mi_dlogic m = L -> ~ In r (arows (filter (inL L) nk)) -> alookup r nk = None.
  Proof.
    intros Hk HL Hn. destruct (alookup r nk) as [[mn sn]|] eqn:El; [|reflexivity].
    exfalso. apply Hn. apply alookup_Some_In in El.
    assert (Elo : alookup r ao = Some (m, c)) by (apply alookup_In; assumption).
    destruct (compat_In ao nk Hc r mn sn m c El Elo) as [Em _]. subst mn.
    apply (In_arows r m sn). apply filter_In. split; [exact El|].
    unfold inL, ami. cbn [fst snd]. rewrite HL. apply dlogic_eqb_refl.
  Qed.

  Lemma entry_scan L inrw' k d :
    In k nk -> inL L k = true -> scan_rel (filter (inL L) ao) pop inrw' k d -> lossless_n ao nk d = true.
  Proof.
    destruct k as [[r m] c]. intros Hk HL Hrel.
    unfold inL, ami in HL. cbn [fst snd] in HL. apply dlogic_eqb_eq in HL.
    assert (Eln : alookup r nk = Some (m, c)) by (apply alookup_In; assumption).
    assert (Hwc : awf (akids c)) by (eapply awf_In; [exact Hwn | exact Hk]).
    rewrite Forall_forall in IH. pose proof (IH _ Hk) as IHk. unfold asub in IHk. cbn [snd] in IHk.
    unfold scan_rel, arow, ami, asub in Hrel. cbn [fst snd] in Hrel.
    rewrite (old_group_lookup L r m c Hk HL) in Hrel.
    destruct (alookup r ao) as [[mo so]|] eqn:Elo.
    - destruct Hrel as (o & Ho & Ed). subst d.
      destruct (compat_In ao nk Hc r m c mo so Hk Elo) as [Em Hcs]. subst mo.
      assert (Hwso : awf (akids so)).
      { eapply awf_In; [exact Hwo|]. apply alookup_Some_In. exact Elo. }
      assert (Ho' : o = Affected \/ o = Moved).
      { destruct Ho as [Ho|Ho]; [|auto]. subst o.
        destruct Hpop as [Hp|[Hp|Hp]]; [auto | auto | rewrite Hp in Elo; discriminate]. }
      eapply lossless_both; [exact Ho' | exact Elo | exact Eln|].
      apply IHk; try assumption. destruct Ho' as [E|E]; subst o; [left | right; left]; reflexivity.
    - subst d. eapply lossless_added; [exact Elo | exact Eln | apply diff_t_nil_added|].
      apply IHk; [constructor | exact Hwc | apply compat_nil_l | right; right; reflexivity].
  Qed.

  Lemma entry_rem L k :
    In k ao -> inL L k = true -> ~ In (arow k) (arows (filter (inL L) nk)) -> lossless_n ao nk (mkrem k) = true.
  Proof.
    destruct k as [[r m] c]. intros Hk HL Hn.
    unfold inL, ami in HL. cbn [fst snd] in HL. apply dlogic_eqb_eq in HL.
    unfold arow in Hn. cbn [fst] in Hn.
    unfold mkrem, arow, ami, asub. cbn [fst snd].
    eapply lossless_removed.
    - apply alookup_In; [exact NDo | exact Hk].
    - eapply new_group_absent; eassumption.
    - apply removed_t_ops.
    - apply removed_lossless. eapply awf_In; [exact Hwo | exact Hk].
  Qed.

  Definition group_ok (L : dlogic) (G : list dnode) : Prop :=
    (forall d, In d G -> lossless_n ao nk d = true) /\
    NoDup (map d_row G) /\
    (forall d, In d G -> In (d_row d) (arows (filter (inL L) ao)) \/ In (d_row d) (arows (filter (inL L) nk))) /\
    (forall k, In k (filter (inL L) ao) ->
               In (arow k) (map d_row G) \/ (L = DRewrite /\ rw_unchanged ao nk = true)) /\
    (forall k, In k (filter (inL L) nk) ->
               In (arow k) (map d_row G) \/ (L = DRewrite /\ rw_unchanged ao nk = true)).

  Lemma base_group_ok L inrw' mta :
    group_ok L (base_diff (filter (inL L) ao) pop inrw' mta (cks (filter (inL L) nk))).
  Proof.
    unfold group_ok. repeat split.
    - intros d Hd. apply base_diff_In in Hd as [(k & Hk & Hrel)|(k & Hk & Hn & E)].
      + apply filter_In in Hk as [Hk1 Hk2]. eapply entry_scan; eassumption.
      + apply filter_In in Hk as [Hk1 Hk2]. subst d. eapply entry_rem; eassumption.
    - apply base_diff_NoDup; apply NoDup_arows_filter; assumption.
    - intros d Hd. apply base_diff_In in Hd as [(k & Hk & Hrel)|(k & Hk & Hn & E)].
      + right. rewrite (scan_rel_row _ _ _ _ _ Hrel). apply in_map. exact Hk.
      + left. subst d. apply (in_map arow) in Hk. exact Hk.
    - intros k Hk. left. apply base_diff_cov_old. exact Hk.
    - intros k Hk. left. apply base_diff_cov_new. exact Hk.
  Qed.

  Lemma aff_to_moved_rows G : map d_row (aff_to_moved G) = map d_row G.
  Proof. unfold aff_to_moved. rewrite map_map. apply map_ext. exact aff_to_moved_row. Qed.

  Lemma run_group_ok L inrw : group_ok L (run_dlogic L (filter (inL L) ao) (cks (filter (inL L) nk)) pop inrw).
  Proof.
    unfold run_dlogic. destruct L; try apply base_group_ok.
    destruct inrw; [apply base_group_ok|].
    pose proof (base_group_ok DRewrite true false) as (G1 & G2 & G3 & G4 & G5).
    destruct (all_affected _) eqn:Eall.
    - assert (Hun : rw_unchanged ao nk = true).
      { eapply gsame_rw; [exact Hwn|].
        eapply (base_gsame ao nk Hwo Hwn Hc); [|intros _; reflexivity|exact Eall].
        apply Forall_forall. intros k _. apply diff_t_all_affected_same. }
      unfold group_ok. repeat split.
      + intros d [].
      + constructor.
      + intros d [].
      + intros k Hk. right. split; [reflexivity | exact Hun].
      + intros k Hk. right. split; [reflexivity | exact Hun].
    - unfold group_ok. rewrite aff_to_moved_rows. repeat split.
      + intros d Hd. unfold aff_to_moved in Hd. apply in_map_iff in Hd as (y & Ey & Hy). subst d.
        apply lossless_aff_to_moved. apply G1. exact Hy.
      + exact G2.
      + intros d Hd. unfold aff_to_moved in Hd. apply in_map_iff in Hd as (y & Ey & Hy). subst d.
        rewrite aff_to_moved_row. apply G3. exact Hy.
      + exact G4.
      + exact G5.
  Qed.

  (* the diff logic a row belongs to *)
  Definition dl_of (row : string) : dlogic :=
    match alookup row ao with
    | Some (m, _) => mi_dlogic m
    | None => match alookup row nk with Some (m, _) => mi_dlogic m | None => DDefault end
    end.

  Lemma dl_of_old L r : In r (arows (filter (inL L) ao)) -> dl_of r = L.
  Proof.
    intros H. unfold arows in H. apply in_map_iff in H as ([[r' m] c] & E & Hk).
    unfold arow in E. cbn [fst] in E. subst r'. apply filter_In in Hk as [Hk HL].
    unfold dl_of. rewrite (alookup_In ao r m c NDo Hk).
    unfold inL, ami in HL. cbn [fst snd] in HL. apply dlogic_eqb_eq. exact HL.
  Qed.

  Lemma dl_of_new L r : In r (arows (filter (inL L) nk)) -> dl_of r = L.
  Proof.
    intros H. unfold arows in H. apply in_map_iff in H as ([[r' m] c] & E & Hk).
    unfold arow in E. cbn [fst] in E. subst r'. apply filter_In in Hk as [Hk HL].
    unfold inL, ami in HL. cbn [fst snd] in HL. apply dlogic_eqb_eq in HL.
    unfold dl_of. destruct (alookup r ao) as [[mo so]|] eqn:El.
    - destruct (compat_In ao nk Hc r m c mo so Hk El) as [Em _]. subst mo. exact HL.
    - rewrite (alookup_In nk r m c NDn Hk). exact HL.
  Qed.

  Lemma level_lossless inrw : lossless ao nk (diff_level ao (cks nk) pop inrw) = true.
  Proof.
    rewrite diff_level_unfold.
    set (keys := uniq_dl _ []).
    set (G := fun L => run_dlogic L (filter (inL L) ao) (cks (filter (inL L) nk)) pop inrw).
    assert (HG : forall L, group_ok L (G L)) by (intros L; apply run_group_ok).
    assert (Hkeys_o : forall k, In k ao -> In (mi_dlogic (ami k)) keys).
    { intros k Hk. apply uniq_dl_In0. apply in_or_app. left.
      apply (in_map (fun k => mi_dlogic (ami k))). exact Hk. }
    assert (Hkeys_n : forall k, In k nk -> In (mi_dlogic (ami k)) keys).
    { intros k Hk. apply uniq_dl_In0. apply in_or_app. right.
      apply (in_map (fun k => mi_dlogic (ami k))). exact Hk. }
    apply lossless_iff. repeat split.
    - apply (NoDup_flat_map_tag d_row dl_of G keys).
      + apply uniq_dl_NoDup.
      + intros L _. apply (HG L).
      + intros L d _ Hd. destruct (HG L) as (_ & _ & G3 & _). destruct (G3 d Hd) as [H|H].
        * apply dl_of_old. exact H.
        * apply dl_of_new. exact H.
    - intros k Hk. set (L := mi_dlogic (ami k)).
      destruct (HG L) as (_ & _ & _ & G4 & _).
      assert (HkL : In k (filter (inL L) ao)).
      { apply filter_In. split; [exact Hk|]. unfold inL. apply dlogic_eqb_refl. }
      destruct (G4 k HkL) as [H|[H1 H2]]; [left | right; auto].
      apply in_map_iff in H as (d & Ed & Hd). apply in_map_iff. exists d. split; [exact Ed|].
      apply in_flat_map. exists L. split; [apply Hkeys_o; exact Hk | exact Hd].
    - intros k Hk. set (L := mi_dlogic (ami k)).
      destruct (HG L) as (_ & _ & _ & _ & G5).
      assert (HkL : In k (filter (inL L) nk)).
      { apply filter_In. split; [exact Hk|]. unfold inL. apply dlogic_eqb_refl. }
      destruct (G5 k HkL) as [H|[H1 H2]]; [left | right; auto].
      apply in_map_iff in H as (d & Ed & Hd). apply in_map_iff. exists d. split; [exact Ed|].
      apply in_flat_map. exists L. split; [apply Hkeys_n; exact Hk | exact Hd].
    - intros x Hx. apply in_flat_map in Hx as (L & _ & Hx).
      destruct (HG L) as (G1 & _). apply G1. exact Hx.
  Qed.
End Level.

Theorem diff_t_lossless : forall t, LL t.
Proof.
  induction t as [nk IH] using atree_ind2. unfold LL. cbn [akids].
  intros ao pop inrw Hwo Hwn Hc Hpop. rewrite diff_t_unfold.
  apply level_lossless; assumption.
Qed.

Section Top.
  Variable rmatch : string -> string -> option (list string).
  Theorem diff_lossless_lib : forall rs old new, wf old -> wf new ->
    lossless (annot_f rmatch rs old) (annot_f rmatch rs new) (make_diff rmatch rs old new) = true.
  Proof.
    intros rs old new Ho Hn. unfold make_diff, raw_diff. apply lossless_mark_all.
    change (annot_f rmatch rs new) with (akids (annot rmatch rs (T new))).
    apply diff_t_lossless.
    - apply annot_awf. exact Ho.
    - apply (annot_awf rmatch new rs Hn).
    - apply (annot_compat rmatch new rs old).
    - left. reflexivity.
  Qed.
End Top.
