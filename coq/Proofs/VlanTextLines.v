(* C11 text level, part 3: configuration lines and command rows of one rule.
   For a rule whose texts satisfy rule_text_ok:
   - annet's _parse_vlancfg on a printed line returns the rule's prefix and the set of the line;
   - the device reader read_line inverts the line printer (so the printer is injective);
   - parse_cmd inverts print_cmd on every command the rule logics can emit. *)
From Coq Require Import List String Ascii Bool Arith NArith Lia Permutation.
From Coq Require Import MSets.
From Annet Require Import Base.Str Model.Vlan Spec.P_C11 Spec.P_C11Text
     Proofs.VlanProofs Proofs.VlanTextLib Proofs.VlanTextRanges.
Import ListNotations.
Open Scope string_scope.
Open Scope list_scope.

Arguments Ascii.eqb : simpl never.
Arguments String.eqb : simpl never.
Arguments is_ws : simpl never.
Arguments is_digit : simpl never.
Arguments isdigit : simpl never.
Arguments str_of_N : simpl never.
Arguments N_of_str : simpl never.
Arguments words : simpl never.

Lemma no_comma_no_char s : no_comma s = no_char comma s.
Proof. induction s as [|c s IH]; cbn; [reflexivity|]. now rewrite IH. Qed.

Lemma last_word_some ws x : last_word ws = Some x -> exists init, ws = init ++ [x].
Proof.
  unfold last_word. destruct (rev ws) as [|y r] eqn:E; [discriminate|]. intro H. injection H as ->.
  exists (rev r). rewrite <- (rev_involutive ws), E. reflexivity.
Qed.

Lemma head_word_neq ws w : opt_str_neq (head_word ws) w = true ->
  exists h t, ws = h :: t /\ String.eqb w h = false.
Proof.
  destruct ws as [|h t]; cbn; [discriminate|]. intro H. apply negb_true_iff in H.
  exists h, t. split; [reflexivity|]. rewrite String.eqb_sym. exact H.
Qed.

Lemma last_word_neq ws w : opt_str_neq (last_word ws) w = true ->
  exists init x, ws = init ++ [x] /\ String.eqb x w = false.
Proof.
  destruct (last_word ws) as [x|] eqn:E; cbn; [|discriminate]. intro H. apply negb_true_iff in H.
  apply last_word_some in E as (init & E). exists init, x. now split.
Qed.

Lemma forallb_rev {A} (f : A -> bool) l : forallb f (rev l) = forallb f l.
Proof.
  induction l as [|x l IH]; [reflexivity|]. cbn. rewrite forallb_app, IH. cbn.
  rewrite andb_true_r. apply andb_comm.
Qed.

Lemma strip_prefix_head_neq h t u x : String.eqb u h = false -> strip_prefix (u :: h :: t) ((h :: t) ++ x) = None.
Proof. intro H. cbn. now rewrite H. Qed.

Lemma is_none_spec {A} (o : option A) : is_none o = true -> o = None.
Proof. destruct o; [discriminate|reflexivity]. Qed.

Section Rule.
  Variable k : rulek.
  Hypothesis TOK : rule_text_ok k = true.

  Let pw := words (rk_prefix k).

  Lemma tok_join : join_with " " pw = rk_prefix k.
  Proof.
    unfold rule_text_ok in TOK. apply andb_true_iff in TOK as [H _]. apply andb_true_iff in H as [H _].
    now apply String.eqb_eq in H.
  Qed.

  Lemma tok_nocomma : no_char comma (rk_prefix k) = true.
  Proof.
    unfold rule_text_ok in TOK. apply andb_true_iff in TOK as [H _]. apply andb_true_iff in H as [_ H].
    now rewrite <- no_comma_no_char.
  Qed.

  Lemma tok_hw_last : is_hw (rk_logic k) = true -> exists init x, pw = init ++ [x] /\ hw_vl_word x = false.
  Proof.
    intro Hh. unfold rule_text_ok in TOK. apply andb_true_iff in TOK as [_ H]. fold pw in H.
    assert (G : match last_word pw with Some x => negb (hw_vl_word x) | None => false end = true).
    { destruct (rk_logic k); try discriminate Hh.
      - apply andb_true_iff in H as [H _]. apply andb_true_iff in H as [H _]. now apply andb_true_iff in H as [H _].
      - now apply andb_true_iff in H as [H _].
      - apply andb_true_iff in H as [H _]. now apply andb_true_iff in H as [H _]. }
    destruct (last_word pw) as [x|] eqn:E; [|discriminate G]. apply negb_true_iff in G.
    apply last_word_some in E as (init & E). exists init, x. now split.
  Qed.

  Lemma tok_hw_head : is_hw (rk_logic k) = true -> exists h t, pw = h :: t /\ String.eqb "undo" h = false.
  Proof.
    intro Hh. unfold rule_text_ok in TOK. apply andb_true_iff in TOK as [_ H]. fold pw in H.
    apply head_word_neq. destruct (rk_logic k); try discriminate Hh.
    - apply andb_true_iff in H as [H _]. apply andb_true_iff in H as [H _]. now apply andb_true_iff in H as [_ H].
    - now apply andb_true_iff in H as [_ H].
    - apply andb_true_iff in H as [H _]. now apply andb_true_iff in H as [_ H].
  Qed.

  Lemma tok_multiall_rev : rk_logic k = HwMultiAll -> words (rk_reverse k) = "undo" :: pw.
  Proof.
    intro E. unfold rule_text_ok in TOK. apply andb_true_iff in TOK as [_ H]. fold pw in H. rewrite E in H.
    apply andb_true_iff in H as [_ H]. now apply list_str_eqb_eq in H.
  Qed.

  Lemma tok_single_rev : rk_logic k = HwSingle ->
    strip_prefix pw (words (rk_reverse k)) = None /\ strip_prefix ("undo" :: pw) (words (rk_reverse k)) = None.
  Proof.
    intro E. unfold rule_text_ok in TOK. apply andb_true_iff in TOK as [_ H]. fold pw in H. rewrite E in H.
    apply andb_true_iff in H as [H H2]. apply andb_true_iff in H as [_ H1].
    split; now apply is_none_spec.
  Qed.

  Lemma tok_cisco_last : is_hw (rk_logic k) = false -> exists init x, pw = init ++ [x] /\ String.eqb x "add" = false.
  Proof.
    intro Hh. unfold rule_text_ok in TOK. apply andb_true_iff in TOK as [_ H]. fold pw in H.
    apply last_word_neq. destruct (rk_logic k); try discriminate Hh; now apply andb_true_iff in H as [H _].
  Qed.

  Lemma tok_cisco_head : is_hw (rk_logic k) = false -> exists h t, pw = h :: t /\ String.eqb "no" h = false.
  Proof.
    intro Hh. unfold rule_text_ok in TOK. apply andb_true_iff in TOK as [_ H]. fold pw in H.
    apply head_word_neq. destruct (rk_logic k); try discriminate Hh; now apply andb_true_iff in H as [_ H].
  Qed.

  (* ---------------------------------------------------------------------------------- *)
  (* words of printed rows *)

  Lemma words_pre x : words (rk_prefix k ++ " " ++ x) = pw ++ words x.
  Proof. apply words_app_sp. Qed.

  Lemma words_undo_pre x : words ("undo " ++ rk_prefix k ++ " " ++ x) = "undo" :: pw ++ words x.
  Proof.
    change ("undo " ++ rk_prefix k ++ " " ++ x)%string with ("undo" ++ " " ++ (rk_prefix k ++ " " ++ x))%string.
    rewrite words_app_sp, words_pre. reflexivity.
  Qed.

  Lemma words_no_pre x : words ("no " ++ rk_prefix k ++ " " ++ x) = "no" :: pw ++ words x.
  Proof.
    change ("no " ++ rk_prefix k ++ " " ++ x)%string with ("no" ++ " " ++ (rk_prefix k ++ " " ++ x))%string.
    rewrite words_app_sp, words_pre. reflexivity.
  Qed.

  Lemma words_cisco_word rs : rs <> [] ->
    words (join_with "," (map cisco_range_str rs)) = [join_with "," (map cisco_range_str rs)].
  Proof.
    intro H. apply words_word; [apply cisco_word_no_ws|].
    destruct (cisco_word_head rs H) as (c & t & E & _). now rewrite E.
  Qed.

  Lemma cisco_word_neq rs (w : string) : rs <> [] ->
    match w with String d _ => is_digit d = false | EmptyString => True end ->
    String.eqb (join_with "," (map cisco_range_str rs)) w = false.
  Proof.
    intros H Hw. destruct (cisco_word_head rs H) as (c & t & E & Hc). rewrite E. now apply digit_head_neq.
  Qed.

  (* ---------------------------------------------------------------------------------- *)
  (* annet's _parse_vlancfg on a printed line *)

  Lemma line_ok_ranges l : line_ok k l = true -> ranges_ok (snd l).
  Proof.
    unfold line_ok. intro H. apply andb_true_iff in H as [H _]. apply andb_true_iff in H as [H _].
    now apply ranges_ok_forallb.
  Qed.

  Lemma hw_parse_line l : is_hw (rk_logic k) = true -> line_ok k l = true ->
    exists s, hw_parse_vlancfg (print_line k l) = Some (rk_prefix k, s) /\ NS.Equal s (line_set l).
  Proof.
    intros Hh Hl. unfold print_line. rewrite Hh. unfold hw_parse_vlancfg.
    rewrite words_pre, words_hw_ranges, rev_app_distr.
    destruct (tok_hw_last Hh) as (init & x & Epw & Hx).
    destruct (takewhile_app hw_vl_word (rev (flat_map hw_range_words (snd l))) (rev pw)) as [E1 E2].
    { rewrite forallb_rev. apply hw_ranges_words_vl. }
    { rewrite Epw, rev_app_distr. cbn. exact Hx. }
    rewrite E1, E2, !rev_involutive.
    destruct (hw_expand_go_words (snd l) None NS.empty (line_ok_ranges l Hl)) as (s & Es & Hs).
    unfold hw_expand_words. rewrite Es, tok_join.
    destruct pw as [|p0 pr] eqn:Ep; [destruct init; discriminate Epw|].
    exists s. split; [reflexivity|]. intro v. rewrite Hs. unfold line_set. rewrite set_of_ranges_spec. split.
    - intros [H|H]; [exfalso; revert H; apply NSF.empty_iff|exact H].
    - intro H. now right.
  Qed.

  Lemma comma_ws_pre m w : no_char comma m = true -> no_ws w = true ->
    comma_ws (rk_prefix k ++ m ++ w) = (rk_prefix k ++ m ++ w)%string.
  Proof.
    intros Hm Hw. rewrite <- sapp_assoc. apply comma_ws_app; [|exact Hw].
    unfold no_char. rewrite allc_app. fold (no_char comma (rk_prefix k)). fold (no_char comma m).
    now rewrite tok_nocomma, Hm.
  Qed.

  Lemma cisco_parse_line l : is_hw (rk_logic k) = false -> line_ok k l = true ->
    exists s, cisco_parse_vlancfg (print_line k l) = Some (rk_prefix k, s) /\ NS.Equal s (line_set l).
  Proof.
    intros Hh Hl. unfold print_line. rewrite Hh. destruct l as [f rs]. cbn [fst snd].
    destruct (tok_cisco_last Hh) as (init & x & Epw & Hx).
    destruct rs as [|r0 rs0] eqn:Ers.
    - (* none *)
      exists NS.empty. split; [|reflexivity]. unfold cisco_parse_vlancfg.
      change (rk_prefix k ++ " none")%string with (rk_prefix k ++ " " ++ "none")%string.
      rewrite (comma_ws_pre " " "none") by reflexivity.
      rewrite words_pre. change (words "none") with ["none"]. rewrite rev_app_distr. cbn [rev app].
      change (String.eqb "none" "none") with true. cbn iota. rewrite rev_involutive, tok_join. reflexivity.
    - rewrite <- Ers. assert (Hne : rs <> []) by (rewrite Ers; discriminate).
      assert (Hok : ranges_ok rs) by exact (line_ok_ranges (f, rs) ltac:(rewrite Ers; exact Hl)).
      destruct (cisco_expand_print rs Hne Hok) as (s & Es & Hs).
      exists s. split; [|exact Hs]. unfold cisco_parse_vlancfg. destruct f.
      + change (rk_prefix k ++ " add " ++ join_with "," (map cisco_range_str rs))%string
          with (rk_prefix k ++ " add " ++ join_with "," (map cisco_range_str rs))%string.
        rewrite (comma_ws_pre " add " _ eq_refl (cisco_word_no_ws rs)).
        change (rk_prefix k ++ " add " ++ join_with "," (map cisco_range_str rs))%string
          with (rk_prefix k ++ " " ++ ("add" ++ " " ++ join_with "," (map cisco_range_str rs)))%string.
        rewrite words_pre, words_app_sp, (words_cisco_word rs Hne).
        change (words "add") with ["add"]. rewrite !rev_app_distr. cbn [rev app].
        rewrite (cisco_word_neq rs "none" Hne eq_refl), cisco_word_vl. cbn [negb].
        change (String.eqb "add" "add") with true. cbn iota. rewrite Es, rev_involutive, tok_join. reflexivity.
      + rewrite (comma_ws_pre " " _ eq_refl (cisco_word_no_ws rs)).
        rewrite words_pre, (words_cisco_word rs Hne). rewrite rev_app_distr. cbn [rev app].
        rewrite (cisco_word_neq rs "none" Hne eq_refl), cisco_word_vl. cbn [negb].
        rewrite Epw, rev_app_distr. cbn [rev app]. rewrite Hx, Es.
        replace (x :: rev init) with (rev pw) by (rewrite Epw, rev_app_distr; reflexivity).
        rewrite rev_involutive, tok_join. reflexivity.
  Qed.

  Definition parse_vlancfg_of := if is_hw (rk_logic k) then hw_parse_vlancfg else cisco_parse_vlancfg.

  Lemma parse_line l : line_ok k l = true ->
    exists s, parse_vlancfg_of (print_line k l) = Some (rk_prefix k, s) /\ NS.Equal s (line_set l).
  Proof.
    intro Hl. unfold parse_vlancfg_of. destruct (is_hw (rk_logic k)) eqn:Hh.
    - now apply hw_parse_line.
    - now apply cisco_parse_line.
  Qed.

  (* ---------------------------------------------------------------------------------- *)
  (* the device reader inverts the line printer *)

  Lemma read_print_line l : line_ok k l = true -> read_line k (print_line k l) = Some l.
  Proof.
    intro Hl. pose proof Hl as Hl0. unfold line_ok in Hl. apply andb_true_iff in Hl as [Hl H3].
    apply andb_true_iff in Hl as [_ H2]. unfold read_line, print_line. destruct l as [f rs]. cbn [fst snd] in *.
    destruct (is_hw (rk_logic k)) eqn:Hh.
    - assert (Hns : logic_eqb (rk_logic k) CiscoSwtrunk = false) by (destruct (rk_logic k); try discriminate Hh; reflexivity).
      rewrite Hns in H2, H3. cbn in H2, H3. rewrite ?andb_false_r, ?orb_false_r in H3.
      apply negb_true_iff in H2. subst f. apply negb_true_iff in H3.
      rewrite words_pre. fold pw. rewrite strip_prefix_app, hw_print_parse_ranges.
      destruct rs; [discriminate H3|reflexivity].
    - destruct rs as [|r0 rs0] eqn:Ers.
      + cbn in H3. apply andb_true_iff in H3 as [_ H3]. apply negb_true_iff in H3. subst f.
        change (rk_prefix k ++ " none")%string with (rk_prefix k ++ " " ++ "none")%string.
        rewrite words_pre. fold pw. rewrite strip_prefix_app. reflexivity.
      + rewrite <- Ers. assert (Hne : rs <> []) by (rewrite Ers; discriminate). destruct f.
        * change (rk_prefix k ++ " add " ++ join_with "," (map cisco_range_str rs))%string
            with (rk_prefix k ++ " " ++ ("add" ++ " " ++ join_with "," (map cisco_range_str rs)))%string.
          rewrite words_pre, words_app_sp, (words_cisco_word rs Hne). fold pw. rewrite strip_prefix_app.
          change (words "add") with ["add"]. cbn [app]. change (String.eqb "add" "add") with true. cbn iota.
          now rewrite (cisco_print_parse_ranges rs Hne).
        * rewrite words_pre, (words_cisco_word rs Hne). fold pw. rewrite strip_prefix_app.
          rewrite (cisco_word_neq rs "none" Hne eq_refl).
          now rewrite (cisco_print_parse_ranges rs Hne).
  Qed.

  Lemma print_line_inj a b : line_ok k a = true -> line_ok k b = true ->
    print_line k a = print_line k b -> a = b.
  Proof.
    intros Ha Hb E. apply read_print_line in Ha. apply read_print_line in Hb. rewrite E in Ha.
    rewrite Ha in Hb. now injection Hb.
  Qed.

  (* ---------------------------------------------------------------------------------- *)
  (* parse_cmd inverts print_cmd *)

  Lemma nonempty_ranges_some (rs : list range) : rs <> [] -> nonempty_ranges (Some rs) = Some rs.
  Proof. destruct rs; [contradiction|reflexivity]. Qed.

  Lemma hw_words_not_all rs : rs <> [] -> list_str_eqb (flat_map hw_range_words rs) ["all"] = false.
  Proof.
    intro H. apply list_str_eqb_neq. intro E. destruct rs as [|r rs]; [contradiction|].
    cbn [flat_map] in E. unfold hw_range_words in E. destruct (N.eqb (fst r) (snd r)); cbn in E.
    - injection E as E _. pose proof (str_of_N_neq (fst r) "all" eq_refl) as G. rewrite E in G. discriminate G.
    - injection E as E _. pose proof (str_of_N_neq (fst r) "all" eq_refl) as G. rewrite E in G. discriminate G.
  Qed.

  Theorem parse_print_cmd c : emittable k c = true ->
    parse_cmd k (print_cmd k (rk_prefix k) (rk_prefix k) c) = Some c.
  Proof.
    intro He. unfold parse_cmd, print_cmd. fold pw.
    destruct (rk_logic k) eqn:EL.
    - (* HwSingle *)
      assert (Hh : is_hw (rk_logic k) = true) by now rewrite EL.
      destruct (tok_hw_head Hh) as (h & t & Ep & Hu). destruct (tok_single_rev EL) as [R1 R2].
      cbn [logic_eqb andb].
      destruct c as [rs|rs| | |rs]; cbn [emittable] in He; rewrite ?EL in He; try discriminate He.
      + apply negb_true_iff in He. assert (Hne : rs <> []) by (destruct rs; [discriminate He|discriminate]).
        rewrite words_pre, words_hw_ranges. fold pw.
        rewrite list_str_eqb_neq.
        2:{ intro E. rewrite <- E, strip_prefix_app in R1. discriminate R1. }
        rewrite Ep. rewrite (strip_prefix_head_neq h t "undo" _ Hu). rewrite <- Ep.
        rewrite strip_prefix_app, hw_parse_ranges_words, (nonempty_ranges_some rs Hne). reflexivity.
      + apply negb_true_iff in He. assert (Hne : rs <> []) by (destruct rs; [discriminate He|discriminate]).
        rewrite words_undo_pre, words_hw_ranges. fold pw.
        rewrite list_str_eqb_neq.
        2:{ intro E. change ("undo" :: pw ++ flat_map hw_range_words rs) with (("undo" :: pw) ++ flat_map hw_range_words rs) in E.
            rewrite <- E, strip_prefix_app in R2. discriminate R2. }
        change ("undo" :: pw ++ flat_map hw_range_words rs) with (("undo" :: pw) ++ flat_map hw_range_words rs).
        rewrite strip_prefix_app, (hw_words_not_all rs Hne), hw_parse_ranges_words, (nonempty_ranges_some rs Hne).
        reflexivity.
      + rewrite list_str_eqb_refl. reflexivity.
    - (* HwMulti *)
      assert (Hh : is_hw (rk_logic k) = true) by now rewrite EL.
      destruct (tok_hw_head Hh) as (h & t & Ep & Hu).
      cbn [logic_eqb andb].
      destruct c as [rs|rs| | |rs]; cbn [emittable] in He; rewrite ?EL in He; try discriminate He.
      + apply negb_true_iff in He. assert (Hne : rs <> []) by (destruct rs; [discriminate He|discriminate]).
        rewrite words_pre, words_hw_ranges. fold pw.
        rewrite Ep. rewrite (strip_prefix_head_neq h t "undo" _ Hu). rewrite <- Ep.
        rewrite strip_prefix_app, hw_parse_ranges_words, (nonempty_ranges_some rs Hne). reflexivity.
      + apply negb_true_iff in He. assert (Hne : rs <> []) by (destruct rs; [discriminate He|discriminate]).
        rewrite words_undo_pre, words_hw_ranges. fold pw.
        change ("undo" :: pw ++ flat_map hw_range_words rs) with (("undo" :: pw) ++ flat_map hw_range_words rs).
        rewrite strip_prefix_app, (hw_words_not_all rs Hne), hw_parse_ranges_words, (nonempty_ranges_some rs Hne).
        reflexivity.
    - (* HwMultiAll *)
      assert (Hh : is_hw (rk_logic k) = true) by now rewrite EL.
      destruct (tok_hw_head Hh) as (h & t & Ep & Hu). pose proof (tok_multiall_rev EL) as ER.
      cbn [logic_eqb andb].
      destruct c as [rs|rs| | |rs]; cbn [emittable] in He; rewrite ?EL in He; try discriminate He.
      + apply negb_true_iff in He. assert (Hne : rs <> []) by (destruct rs; [discriminate He|discriminate]).
        rewrite words_pre, words_hw_ranges. fold pw.
        rewrite Ep. rewrite (strip_prefix_head_neq h t "undo" _ Hu). rewrite <- Ep.
        rewrite strip_prefix_app, hw_parse_ranges_words, (nonempty_ranges_some rs Hne). reflexivity.
      + apply negb_true_iff in He. assert (Hne : rs <> []) by (destruct rs; [discriminate He|discriminate]).
        rewrite words_undo_pre, words_hw_ranges. fold pw.
        change ("undo" :: pw ++ flat_map hw_range_words rs) with (("undo" :: pw) ++ flat_map hw_range_words rs).
        rewrite strip_prefix_app, (hw_words_not_all rs Hne), hw_parse_ranges_words, (nonempty_ranges_some rs Hne).
        reflexivity.
      + change (rk_reverse k ++ " all")%string with (rk_reverse k ++ " " ++ "all")%string.
        rewrite words_app_sp, ER. change (words "all") with ["all"].
        change (("undo" :: pw) ++ ["all"]) with (("undo" :: pw) ++ ["all"]).
        rewrite strip_prefix_app. reflexivity.
    - (* CiscoSimple *)
      assert (Hh : is_hw (rk_logic k) = false) by now rewrite EL.
      destruct (tok_cisco_head Hh) as (h & t & Ep & Hu).
      cbn [logic_eqb].
      destruct c as [rs|rs| | |rs]; cbn [emittable] in He; rewrite ?EL in He; try discriminate He.
      + apply negb_true_iff in He. assert (Hne : rs <> []) by (destruct rs; [discriminate He|discriminate]).
        rewrite words_pre, (words_cisco_word rs Hne). fold pw.
        rewrite Ep. rewrite (strip_prefix_head_neq h t "no" _ Hu). rewrite <- Ep.
        rewrite strip_prefix_app, (cisco_print_parse_ranges rs Hne). reflexivity.
      + apply negb_true_iff in He. assert (Hne : rs <> []) by (destruct rs; [discriminate He|discriminate]).
        rewrite words_no_pre, (words_cisco_word rs Hne). fold pw.
        change ("no" :: pw ++ [join_with "," (map cisco_range_str rs)])
          with (("no" :: pw) ++ [join_with "," (map cisco_range_str rs)]).
        rewrite strip_prefix_app, (cisco_print_parse_ranges rs Hne). reflexivity.
    - (* CiscoSwtrunk *)
      assert (Hh : is_hw (rk_logic k) = false) by now rewrite EL.
      destruct (tok_cisco_head Hh) as (h & t & Ep & Hu).
      cbn [logic_eqb].
      destruct c as [rs|rs| | |rs]; cbn [emittable] in He; rewrite ?EL in He; try discriminate He.
      + apply negb_true_iff in He. assert (Hne : rs <> []) by (destruct rs; [discriminate He|discriminate]).
        change (rk_prefix k ++ " add " ++ join_with "," (map cisco_range_str rs))%string
          with (rk_prefix k ++ " " ++ ("add" ++ " " ++ join_with "," (map cisco_range_str rs)))%string.
        rewrite words_pre, words_app_sp, (words_cisco_word rs Hne). fold pw. change (words "add") with ["add"].
        rewrite Ep. rewrite (strip_prefix_head_neq h t "no" _ Hu). rewrite <- Ep.
        rewrite strip_prefix_app. cbn [app]. change (String.eqb "add" "add") with true. cbn iota.
        rewrite (cisco_print_parse_ranges rs Hne). reflexivity.
      + apply negb_true_iff in He. assert (Hne : rs <> []) by (destruct rs; [discriminate He|discriminate]).
        change ("no " ++ rk_prefix k ++ " remove " ++ join_with "," (map cisco_range_str rs))%string
          with ("no " ++ rk_prefix k ++ " " ++ ("remove" ++ " " ++ join_with "," (map cisco_range_str rs)))%string.
        rewrite words_no_pre, words_app_sp, (words_cisco_word rs Hne). fold pw. change (words "remove") with ["remove"].
        change ("no" :: pw ++ ["remove"] ++ [join_with "," (map cisco_range_str rs)])
          with (("no" :: pw) ++ ["remove"; join_with "," (map cisco_range_str rs)]).
        rewrite strip_prefix_app. change (String.eqb "remove" "remove") with true. cbn iota.
        rewrite (cisco_print_parse_ranges rs Hne). reflexivity.
      + change (rk_prefix k ++ " none")%string with (rk_prefix k ++ " " ++ "none")%string.
        rewrite words_pre. fold pw. change (words "none") with ["none"].
        rewrite Ep. rewrite (strip_prefix_head_neq h t "no" _ Hu). rewrite <- Ep.
        rewrite strip_prefix_app. reflexivity.
  Qed.

  Theorem parse_print_cmds cs : forallb (emittable k) cs = true ->
    parse_cmds k (map (print_cmd k (rk_prefix k) (rk_prefix k)) cs) = Some cs.
  Proof.
    induction cs as [|c cs IH]; [reflexivity|]. cbn [forallb map parse_cmds]. intro H.
    apply andb_true_iff in H as [Hc H]. now rewrite (parse_print_cmd c Hc), (IH H).
  Qed.
End Rule.

(* reading a permutation of the rows gives a permutation of the commands *)
Lemma parse_cmds_perm k rows rows' : Permutation rows' rows ->
  forall cs, parse_cmds k rows = Some cs -> exists cs', parse_cmds k rows' = Some cs' /\ Permutation cs' cs.
Proof.
  intro P. apply Permutation_sym in P. induction P as [|x l l' P IH|x y l|l l' l'' P1 IH1 P2 IH2]; intros cs E.
  - exists cs. split; [exact E|apply Permutation_refl].
  - cbn [parse_cmds] in *. destruct (parse_cmd k x) as [c|]; [|discriminate E].
    destruct (parse_cmds k l) as [cl|]; [|discriminate E]. injection E as <-.
    destruct (IH cl eq_refl) as (cs' & E' & P'). rewrite E'. exists (c :: cs'). split; [reflexivity|].
    now apply perm_skip.
  - cbn [parse_cmds] in *. destruct (parse_cmd k y) as [cy|]; [|discriminate E].
    destruct (parse_cmd k x) as [cx|]; [|discriminate E].
    destruct (parse_cmds k l) as [cl|]; [|discriminate E]. injection E as <-.
    exists (cx :: cy :: cl). split; [reflexivity|apply perm_swap].
  - destruct (IH1 cs E) as (c1 & E1 & Q1). destruct (IH2 c1 E1) as (c2 & E2 & Q2).
    exists c2. split; [exact E2|]. now apply Permutation_trans with c1.
Qed.
