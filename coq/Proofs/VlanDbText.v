(* C11, Huawei VLAN database, text level: the text-level model db_rows (top-level rows in, patch rows
   out: split of the rows between the `vlan batch` rule and the `vlan N` rule, vlan_diff's batch_new
   read by _parse_vlancfg from every `vlan batch` row, `multi` on the batch slot, block commands) IS
   the structured model db_struct composed with the printers, for every database of the domain;
   parse_db / parse_gcmds invert the printers; hence the _db theorems over rows. *)
From Coq Require Import List String Ascii Bool Arith NArith Lia Permutation.
From Coq Require Import MSets.
From Annet Require Import Base.Str Model.Vlan Model.VlanDb Spec.P_C11 Spec.P_C11Text
     Proofs.VlanProofs Proofs.VlanDbProofs Proofs.VlanTextLib Proofs.VlanTextRanges Proofs.VlanTextLines
     Proofs.VlanTextStruct.
Import ListNotations.
Open Scope string_scope.
Open Scope list_scope.

Arguments Ascii.eqb : simpl never.
Arguments String.eqb : simpl never.
Arguments words : simpl never.
Arguments isdigit : simpl never.
Arguments str_of_N : simpl never.
Arguments N_of_str : simpl never.

Lemma tok_batch : rule_text_ok k_batch = true.
Proof. vm_compute. reflexivity. Qed.

Lemma words_batch_prefix : words (rk_prefix k_batch) = ["vlan"; "batch"].
Proof. vm_compute. reflexivity. Qed.

(* ------------------------------------------------------------------------------------ *)
(* words of the printed top-level rows *)

Lemma batch_line_ok l : line_ok k_batch l = true -> fst l = false /\ snd l <> [].
Proof.
  unfold line_ok. cbn [k_batch rk_logic logic_eqb orb andb]. intro H.
  apply andb_true_iff in H as [H H3]. apply andb_true_iff in H as [_ H2].
  rewrite orb_false_r in H3. apply negb_true_iff in H2. apply negb_true_iff in H3.
  split; [exact H2|]. intro E. rewrite E in H3. discriminate H3.
Qed.

Lemma words_batch_line l : line_ok k_batch l = true ->
  exists x r, words (print_line k_batch l) = "vlan" :: "batch" :: x :: r /\
              x :: r = flat_map hw_range_words (snd l).
Proof.
  intro H. destruct (batch_line_ok l H) as [_ Hne]. unfold print_line. cbn [k_batch rk_logic is_hw].
  change (rk_prefix (RK HwMulti "vlan batch" "undo vlan batch" false)) with (rk_prefix k_batch).
  rewrite (words_pre k_batch), words_batch_prefix, words_hw_ranges.
  pose proof (hw_ranges_words_nonempty (snd l) Hne) as G.
  destruct (flat_map hw_range_words (snd l)) as [|x r]; [contradiction|]. exists x, r. now split.
Qed.

Lemma words_vlan_n n : words ("vlan " ++ str_of_N n) = ["vlan"; str_of_N n].
Proof.
  change ("vlan " ++ str_of_N n)%string with ("vlan" ++ " " ++ str_of_N n)%string.
  rewrite words_app_sp, words_num. reflexivity.
Qed.

Lemma words_undo_vlan_n n : words ("undo vlan " ++ str_of_N n) = ["undo"; "vlan"; str_of_N n].
Proof.
  change ("undo vlan " ++ str_of_N n)%string with ("undo" ++ " " ++ ("vlan" ++ " " ++ str_of_N n))%string.
  rewrite !words_app_sp, words_num. reflexivity.
Qed.

(* ------------------------------------------------------------------------------------ *)
(* the rows of a printed database are attributed to the right rule *)

Lemma classify_batch_line l : line_ok k_batch l = true ->
  classify (print_line k_batch l, []) = Some (inl (print_line k_batch l)).
Proof.
  intro H. destruct (words_batch_line l H) as (x & r & E & _). unfold classify. cbn [fst snd]. rewrite E.
  destruct r; reflexivity.
Qed.

Lemma classify_blk b : classify (print_blk b) = Some (inr b).
Proof.
  unfold classify, print_blk. cbn [fst snd]. rewrite words_vlan_n.
  change (String.eqb "vlan" "vlan") with true. rewrite isdigit_str_of_N, N_of_str_of_N. cbn [andb].
  now destruct b.
Qed.

Lemma split_rows_blks bs : split_rows (map print_blk bs) = Some ([], bs).
Proof.
  induction bs as [|b bs IH]; [reflexivity|]. cbn [map split_rows]. now rewrite classify_blk, IH.
Qed.

Lemma split_rows_print c : forallb (line_ok k_batch) (fst c) = true ->
  split_rows (print_db c) = Some (map (print_line k_batch) (fst c), snd c).
Proof.
  unfold print_db. destruct c as [ls bs]. cbn [fst snd]. induction ls as [|l ls IH]; intro H.
  - apply split_rows_blks.
  - cbn in H. apply andb_true_iff in H as [Hl H]. cbn [map app split_rows].
    now rewrite (classify_batch_line l Hl), (IH H).
Qed.

(* ------------------------------------------------------------------------------------ *)
(* vlan_diff only tests membership in batch_new *)

Lemma block_cmds_equal a b ob nb : NS.Equal a b -> block_cmds a ob nb = block_cmds b ob nb.
Proof.
  intro H.
  assert (M : forall x, NS.mem x a = NS.mem x b).
  { intro x. apply eq_true_iff_eq. rewrite !NS.mem_spec. apply H. }
  unfold block_cmds. f_equal. f_equal.
  - apply map_ext. intro x. unfold old_block_cmd. now rewrite (M (fst x)).
  - apply map_ext. intro x. unfold new_block_cmd. now rewrite (M (fst x)).
Qed.

Lemma dbcfg_ok_lines c : dbcfg_ok c = true -> config_ok k_batch (fst c) = true.
Proof. unfold dbcfg_ok. intro H. apply andb_true_iff in H as [H _]. now apply andb_true_iff in H as [H _]. Qed.

Lemma wf_db_batch old new : wf_db (old, new) = true -> wf_C11 (k_batch, fst old, fst new) = true.
Proof.
  unfold wf_db. cbn [fst snd]. intro H. apply andb_true_iff in H as [Ho Hn].
  unfold wf_C11. cbn [in_rule in_old in_new fst snd].
  now rewrite (dbcfg_ok_lines old Ho), (dbcfg_ok_lines new Hn).
Qed.

(* struct_is_text_db, for all inputs *)
Theorem db_struct_is_text old new : wf_db (old, new) = true ->
  db_rows (print_db old) (print_db new) = option_map (map print_gcmd) (db_struct old new).
Proof.
  intro WF. pose proof (wf_db_batch old new WF) as WB.
  unfold wf_db in WF. cbn [fst snd] in WF. apply andb_true_iff in WF as [Ho Hn].
  pose proof (config_ok_lines k_batch _ (dbcfg_ok_lines old Ho)) as Lo.
  pose proof (config_ok_lines k_batch _ (dbcfg_ok_lines new Hn)) as Ln.
  unfold db_rows, db_struct. rewrite (split_rows_print old Lo), (split_rows_print new Ln).
  destruct (parse_actions_print0 k_batch tok_batch (fst new) Ln) as (bn & Eb & Hb).
  change (parse_vlancfg_of k_batch) with hw_parse_vlancfg in Eb. rewrite Eb.
  rewrite (struct_is_text_wf k_batch tok_batch (fst old) (fst new) WB).
  rewrite (block_cmds_equal bn (set_of_lines (fst new)) (snd old) (snd new) Hb).
  destruct (model_struct k_batch (fst old) (fst new)) as [cs|]; [|reflexivity]. cbn [option_map].
  destruct (block_cmds (set_of_lines (fst new)) (snd old) (snd new)) as [bs|]; [|reflexivity].
  cbn [option_map]. rewrite map_app, !map_map. reflexivity.
Qed.

Lemma trows_eqb_eq : forall a b, trows_eqb a b = true <-> a = b.
Proof.
  induction a as [|x a IH]; intros [|y b]; cbn; split; intro H; try reflexivity; try discriminate.
  - apply andb_true_iff in H as [H H3]. apply andb_true_iff in H as [H1 H2].
    apply String.eqb_eq in H1. apply list_str_eqb_eq in H2. apply IH in H3. subst.
    destruct x, y. cbn in *. now subst.
  - injection H as -> ->. rewrite String.eqb_refl, list_str_eqb_refl. cbn. now apply IH.
Qed.

Theorem db_struct_is_text_true old new g y : wf_db (old, new) = true ->
  struct_is_text_db (((old, new), g), y) = true.
Proof.
  intro WF. unfold struct_is_text_db. cbn [fst snd]. rewrite WF. cbn [negb orb].
  rewrite (db_struct_is_text old new WF). destruct (db_struct old new); [|reflexivity]. cbn [option_map].
  now apply trows_eqb_eq.
Qed.

(* ------------------------------------------------------------------------------------ *)
(* reading the printed database back (the reader the case files use on the implementation's input) *)

Lemma parse_db_row_line l : line_ok k_batch l = true -> parse_db_row (print_line k_batch l, []) = Some (inl l).
Proof.
  intro H. unfold parse_db_row. rewrite (classify_batch_line l H).
  destruct (words_batch_line l H) as (x & r & E & Er). rewrite E. cbn [strip_prefix].
  change (String.eqb "vlan" "vlan") with true. change (String.eqb "batch" "batch") with true. cbn iota.
  rewrite Er, hw_parse_ranges_words. destruct (batch_line_ok l H) as [Hf Hne].
  rewrite (nonempty_ranges_some (snd l) Hne). cbn [option_map]. destruct l as [f rs]. cbn in Hf. now subst f.
Qed.

Lemma parse_db_row_blk b : parse_db_row (print_blk b) = Some (inr b).
Proof. unfold parse_db_row. now rewrite classify_blk. Qed.

Theorem parse_print_db c : forallb (line_ok k_batch) (fst c) = true -> parse_db (print_db c) = Some c.
Proof.
  unfold print_db. destruct c as [ls bs]. cbn [fst snd]. induction ls as [|l ls IH]; intro H.
  - cbn [map app]. induction bs as [|b bs IHb]; [reflexivity|]. cbn [map parse_db].
    now rewrite parse_db_row_blk, IHb.
  - cbn in H. apply andb_true_iff in H as [Hl H]. cbn [map app parse_db].
    now rewrite (parse_db_row_line l Hl), (IH H).
Qed.

(* ------------------------------------------------------------------------------------ *)
(* reading the emitted rows back as commands *)

Definition gemittable (g : gcmd) : bool :=
  match g with GBatch c => emittable k_batch c | _ => true end.

Lemma parse_print_gcmd g : gemittable g = true -> parse_gcmd (print_gcmd g) = Some g.
Proof.
  destruct g as [c|n kids|n]; cbn [gemittable]; intro H.
  - pose proof (parse_print_cmd k_batch tok_batch c H) as E.
    change (rk_prefix k_batch) with "vlan batch" in E.
    unfold parse_gcmd, print_gcmd. cbn [fst snd is_nil]. rewrite E. cbn [option_map].
    destruct c as [rs|rs| | |rs]; cbn [emittable k_batch rk_logic logic_eqb orb] in H; try discriminate H.
    + apply negb_true_iff in H. assert (Hne : rs <> []) by (destruct rs; [discriminate H|discriminate]).
      unfold print_cmd. cbn [k_batch rk_logic].
      change ("vlan batch" ++ " " ++ join_with " " (map hw_range_str rs))%string
        with (rk_prefix k_batch ++ " " ++ join_with " " (map hw_range_str rs))%string.
      rewrite (words_pre k_batch), words_batch_prefix, words_hw_ranges.
      pose proof (hw_ranges_words_nonempty rs Hne) as G.
      destruct (flat_map hw_range_words rs) as [|x [|y r]]; [contradiction| |]; reflexivity.
    + apply negb_true_iff in H. assert (Hne : rs <> []) by (destruct rs; [discriminate H|discriminate]).
      unfold print_cmd. cbn [k_batch rk_logic].
      change ("undo " ++ "vlan batch" ++ " " ++ join_with " " (map hw_range_str rs))%string
        with ("undo " ++ rk_prefix k_batch ++ " " ++ join_with " " (map hw_range_str rs))%string.
      rewrite (words_undo_pre k_batch), words_batch_prefix, words_hw_ranges.
      pose proof (hw_ranges_words_nonempty rs Hne) as G.
      destruct (flat_map hw_range_words rs) as [|x r]; [contradiction|]. reflexivity.
  - unfold parse_gcmd, print_gcmd. cbn [fst snd]. rewrite words_vlan_n.
    change (String.eqb "vlan" "vlan") with true. rewrite isdigit_str_of_N, N_of_str_of_N. reflexivity.
  - unfold parse_gcmd, print_gcmd. cbn [fst snd is_nil]. rewrite words_undo_vlan_n.
    change (String.eqb "undo" "undo") with true. change (String.eqb "vlan" "vlan") with true.
    rewrite isdigit_str_of_N, N_of_str_of_N. reflexivity.
Qed.

Lemma parse_print_gcmds gs : forallb gemittable gs = true -> parse_gcmds (map print_gcmd gs) = Some gs.
Proof.
  induction gs as [|g gs IH]; [reflexivity|]. cbn [forallb map parse_gcmds]. intro H.
  apply andb_true_iff in H as [Hg H]. now rewrite (parse_print_gcmd g Hg), (IH H).
Qed.

Lemma parse_gcmds_perm rows rows' : Permutation rows' rows ->
  forall cs, parse_gcmds rows = Some cs -> exists cs', parse_gcmds rows' = Some cs' /\ Permutation cs' cs.
Proof.
  intro P. apply Permutation_sym in P. induction P as [|x l l' P IH|x y l|l l' l'' P1 IH1 P2 IH2]; intros cs E.
  - exists cs. split; [exact E|apply Permutation_refl].
  - cbn [parse_gcmds] in *. destruct (parse_gcmd x) as [c|]; [|discriminate E].
    destruct (parse_gcmds l) as [cl|]; [|discriminate E]. injection E as <-.
    destruct (IH cl eq_refl) as (cs' & E' & P'). rewrite E'. exists (c :: cs'). split; [reflexivity|].
    now apply perm_skip.
  - cbn [parse_gcmds] in *. destruct (parse_gcmd y) as [cy|]; [|discriminate E].
    destruct (parse_gcmd x) as [cx|]; [|discriminate E].
    destruct (parse_gcmds l) as [cl|]; [|discriminate E]. injection E as <-.
    exists (cx :: cy :: cl). split; [reflexivity|apply perm_swap].
  - destruct (IH1 cs E) as (c1 & E1 & Q1). destruct (IH2 c1 E1) as (c2 & E2 & Q2).
    exists c2. split; [exact E2|]. now apply Permutation_trans with c1.
Qed.

Lemma db_struct_emittable old new gs : wf_db (old, new) = true -> db_struct old new = Some gs ->
  forallb gemittable gs = true.
Proof.
  intros WF E. pose proof (wf_db_batch old new WF) as WB. unfold db_struct in E.
  destruct (model_struct k_batch (fst old) (fst new)) as [cs|] eqn:Ec; [|discriminate E].
  destruct (block_cmds (set_of_lines (fst new)) (snd old) (snd new)) as [bs|] eqn:Eb; [|discriminate E].
  injection E as <-. rewrite forallb_app. apply andb_true_iff. split.
  - pose proof (model_cmds_emittable k_batch (fst old) (fst new) WB cs Ec) as G.
    rewrite forallb_forall in *. intros g Hg. apply in_map_iff in Hg as (c & <- & Hc). cbn. now apply G.
  - apply forallb_forall. intros g Hg. destruct g as [c| |]; try reflexivity. exfalso.
    (* block commands are never batch commands *)
    unfold block_cmds in Eb. apply (opt_concat_in _ _ (GBatch c) Eb) in Hg as (l & Hl & Hg).
    apply in_app_or in Hl as [Hl|Hl]; apply in_map_iff in Hl as (b & El & _).
    + destruct (old_block_cmd_in _ _ _ _ _ El Hg) as [_ [[(p & G) _]|[G _]]]; discriminate G.
    + destruct (new_block_cmd_in _ _ _ _ _ El Hg) as (p & G). discriminate G.
Qed.

(* ------------------------------------------------------------------------------------ *)
(* the _db theorems over rows *)

Lemma db_rows_wf_inv ro rn : db_rows_wf ro rn = true ->
  exists o n, parse_db ro = Some o /\ parse_db rn = Some n /\ ro = print_db o /\ rn = print_db n /\
              wf_db (o, n) = true.
Proof.
  unfold db_rows_wf. intro H. destruct (parse_db ro) as [o|]; [|discriminate H].
  destruct (parse_db rn) as [n|]; [|discriminate H].
  apply andb_true_iff in H as [H W]. apply andb_true_iff in H as [H1 H2].
  apply trows_eqb_eq in H1. apply trows_eqb_eq in H2. exists o, n. repeat split; auto.
Qed.

Theorem db_rows_main ro rn : db_rows_wf ro rn = true -> db_rows_guard ro rn = true ->
  exists out, db_rows ro rn = Some out /\
    forall out', Permutation out' out ->
      exists gs', parse_gcmds out' = Some gs' /\
        NS.Equal (gsimulate gs' (db_rows_set ro)) (db_rows_set rn) /\
        forall l1 l2, gs' = l1 ++ l2 ->
          NS.Subset (NS.inter (db_rows_set ro) (db_rows_set rn)) (gsimulate l1 (db_rows_set ro)).
Proof.
  intros H G. destruct (db_rows_wf_inv ro rn H) as (o & n & Po & Pn & Eo & En & W).
  unfold db_rows_guard in G. unfold db_rows_set. rewrite Po, Pn in *. subst ro rn.
  destruct (db_total o n W) as (gs & E).
  exists (map print_gcmd gs). split; [now rewrite (db_struct_is_text o n W), E|].
  intros out' Pm.
  pose proof (parse_print_gcmds gs (db_struct_emittable o n gs W E)) as Ep.
  destruct (parse_gcmds_perm _ out' Pm gs Ep) as (gs' & Ep' & Pc).
  exists gs'. split; [exact Ep'|]. split.
  - exact (db_final o n W G gs gs' E Pc).
  - intros l1 l2 El. exact (db_prefix o n W G gs gs' l1 l2 E Pc El).
Qed.

Theorem db_rows_wf_print old new : wf_db (old, new) = true -> db_rows_wf (print_db old) (print_db new) = true.
Proof.
  intro WF. unfold db_rows_wf. pose proof WF as WF0. unfold wf_db in WF. cbn [fst snd] in WF.
  apply andb_true_iff in WF as [Ho Hn].
  rewrite (parse_print_db old (config_ok_lines k_batch _ (dbcfg_ok_lines old Ho))).
  rewrite (parse_print_db new (config_ok_lines k_batch _ (dbcfg_ok_lines new Hn))).
  rewrite WF0, andb_true_r. apply andb_true_iff. split; now apply trows_eqb_eq.
Qed.

Theorem db_rows_holds old new : wf_db (old, new) = true -> blocks_follow_batch (old, new) = true ->
  P_C11_db (old, new) (db_rows (print_db old) (print_db new)) = true.
Proof.
  intros W G. unfold P_C11_db. rewrite W, (db_struct_is_text old new W).
  destruct (db_total old new W) as (gs & E). rewrite E. cbn [option_map].
  rewrite (parse_print_gcmds gs (db_struct_emittable old new gs W E)). now apply holds_db_struct.
Qed.
