(* Proofs about Model/PoolSession.v: invoke_retry, the extended predicate P_C12x and its relation to P_C12,
   the single-process run with callbacks, independence of the Parallel objects of one process. *)
From Coq Require Import List Bool Arith Lia Permutation.
From Annet Require Import Model.Pool Spec.P_C12 Model.PoolSession Spec.P_C12x Proofs.PoolProofs.
Import ListNotations.

(* ================================================================================================ *)
(* invoke_retry *)

Definition is_net (r : raw) : Prop := exists e, settle r = ANet e.

Lemma retry_from_first_done : forall att n fuel k x,
  (forall j, j < n -> is_net (att (k + j))) -> settle (att (k + n)) = ADone x -> n <= fuel ->
  retry_from fuel k att = x.
Proof.
  intros att. induction n as [|n IH]; intros fuel k x Hnet Hd Hle.
  - rewrite Nat.add_0_r in Hd. destruct fuel; simpl; rewrite Hd; reflexivity.
  - destruct fuel as [|fuel]; [lia|].
    destruct (Hnet 0) as [e He]; [lia|]. rewrite Nat.add_0_r in He.
    simpl. rewrite He. apply IH; try lia.
    + intros j Hj. replace (S k + j) with (k + S j) by lia. apply Hnet. lia.
    + replace (S k + n) with (k + S n) by lia. exact Hd.
Qed.

Lemma retry_from_exhausted : forall att fuel k e,
  (forall j, j < fuel -> is_net (att (k + j))) -> settle (att (k + fuel)) = ANet e ->
  retry_from fuel k att = XFail e.
Proof.
  intros att. induction fuel as [|fuel IH]; intros k e Hnet Hl.
  - rewrite Nat.add_0_r in Hl. simpl. rewrite Hl. reflexivity.
  - destruct (Hnet 0) as [e0 He]; [lia|]. rewrite Nat.add_0_r in He.
    simpl. rewrite He. apply IH.
    + intros j Hj. replace (S k + j) with (k + S j) by lia. apply Hnet. lia.
    + replace (S k + fuel) with (k + S fuel) by lia. exact Hl.
Qed.

(* the first invocation that does not die with a network error decides, if it is among the first
   net_retry + 1 *)
Lemma invoke_retry_done : forall net_retry att n x,
  (forall j, j < n -> is_net (att j)) -> settle (att n) = ADone x -> n <= net_retry ->
  invoke_retry net_retry att = x.
Proof.
  intros net_retry att n x Hnet Hd Hle. unfold invoke_retry.
  apply (retry_from_first_done att n net_retry 0 x); auto.
Qed.

(* net_retry + 1 network errors in a row: the failure is the last of them *)
Lemma invoke_retry_exhausted : forall net_retry att e,
  (forall j, j < net_retry -> is_net (att j)) -> settle (att net_retry) = ANet e ->
  invoke_retry net_retry att = XFail e.
Proof.
  intros net_retry att e Hnet Hl. unfold invoke_retry. apply (retry_from_exhausted att net_retry 0 e); auto.
Qed.

(* there is nothing else: the result is always one of the two *)
Lemma invoke_retry_cases : forall net_retry att,
  (exists n x, n <= net_retry /\ (forall j, j < n -> is_net (att j)) /\ settle (att n) = ADone x /\
               invoke_retry net_retry att = x) \/
  (exists e, (forall j, j <= net_retry -> is_net (att j)) /\ settle (att net_retry) = ANet e /\
             invoke_retry net_retry att = XFail e).
Proof.
  intros net_retry att.
  assert (G : forall fuel k,
    (exists n x, n <= fuel /\ (forall j, j < n -> is_net (att (k + j))) /\ settle (att (k + n)) = ADone x /\
                 retry_from fuel k att = x) \/
    (exists e, (forall j, j <= fuel -> is_net (att (k + j))) /\ settle (att (k + fuel)) = ANet e /\
               retry_from fuel k att = XFail e)).
  { induction fuel as [|fuel IH]; intros k.
    - simpl. destruct (settle (att k)) as [e | x] eqn:E.
      + right. exists e. rewrite Nat.add_0_r. repeat split; auto.
        intros j Hj. replace j with 0 by lia. rewrite Nat.add_0_r. exists e; auto.
      + left. exists 0, x. rewrite Nat.add_0_r. repeat split; auto; try lia; intros j Hj; lia.
    - simpl. destruct (settle (att k)) as [e | x] eqn:E.
      + destruct (IH (S k)) as [(n & x & Hn & Hnet & Hd & Hr) | (e' & Hnet & Hl & Hr)].
        * left. exists (S n), x. repeat split; try lia.
          -- intros j Hj. destruct j as [|j].
             ++ rewrite Nat.add_0_r. exists e; auto.
             ++ replace (k + S j) with (S k + j) by lia. apply Hnet. lia.
          -- replace (k + S n) with (S k + n) by lia. exact Hd.
          -- exact Hr.
        * right. exists e'. repeat split.
          -- intros j Hj. destruct j as [|j].
             ++ rewrite Nat.add_0_r. exists e; auto.
             ++ replace (k + S j) with (S k + j) by lia. apply Hnet. lia.
          -- replace (k + S fuel) with (S k + fuel) by lia. exact Hl.
          -- exact Hr.
      + left. exists 0, x. rewrite Nat.add_0_r. repeat split; auto; try lia; intros j Hj; lia. }
  unfold invoke_retry. destruct (G net_retry 0) as [H | H]; [left | right]; exact H.
Qed.

(* a generator is always consumed: no result of invoke_retry is an unconsumed generator *)
Lemma settle_not_lazy : forall r, settle r <> ADone (XOk PLazy) /\ settle r <> ADone (XOk POther) /\
                                  settle r <> ADone XFailOther.
Proof.
  intros r. destruct r as [[|] e | v | items [[[|] e]|]]; simpl; repeat split; discriminate.
Qed.

Lemma invoke_retry_materialised : forall net_retry att,
  invoke_retry net_retry att <> XOk PLazy /\ invoke_retry net_retry att <> XOk POther /\
  invoke_retry net_retry att <> XFailOther.
Proof.
  intros net_retry att.
  destruct (invoke_retry_cases net_retry att) as [(n & x & _ & _ & Hd & Hr) | (e & _ & _ & Hr)]; rewrite Hr.
  - destruct (settle_not_lazy (att n)) as (A & B & C). clear Hr. repeat split; intros E; rewrite E in Hd; contradiction.
  - repeat split; discriminate.
Qed.

(* the task of the correspondence runs: k leading network errors, then the plain task *)
Lemma std_task_net : forall gen raising flaky i j,
  j < lookup i flaky -> settle (std_task gen raising flaky i j) = ANet (1000 + 11 * i + j).
Proof.
  intros gen raising flaky i j H. unfold std_task. apply Nat.ltb_lt in H. rewrite H.
  destruct gen; reflexivity.
Qed.

Definition std_value (gen : bool) (raising : list nat) (i : nat) : xval :=
  if existsb (Nat.eqb i) raising then XFail (13 * i + 5)
  else if gen then XOk (PList [7 * i + 3; i]) else XOk (PInt (7 * i + 3)).

Lemma std_task_done : forall gen raising flaky i j,
  lookup i flaky <= j -> settle (std_task gen raising flaky i j) = ADone (std_value gen raising i).
Proof.
  intros gen raising flaky i j H. unfold std_task, std_value.
  assert (E : Nat.ltb j (lookup i flaky) = false) by (apply Nat.ltb_ge; exact H). rewrite E.
  destruct (existsb (Nat.eqb i) raising); destruct gen; reflexivity.
Qed.

Lemma std_task_retry : forall gen raising flaky n i,
  eff_f n (std_task gen raising flaky) i =
  if Nat.leb (lookup i flaky) n then std_value gen raising i else XFail (1000 + 11 * i + n).
Proof.
  intros gen raising flaky n i. unfold eff_f. destruct (Nat.leb (lookup i flaky) n) eqn:E.
  - apply Nat.leb_le in E. apply (invoke_retry_done n _ (lookup i flaky)); auto.
    + intros j Hj. exists (1000 + 11 * i + j). apply std_task_net; auto.
    + apply std_task_done. lia.
  - apply Nat.leb_gt in E. apply invoke_retry_exhausted.
    + intros j Hj. exists (1000 + 11 * i + j). apply std_task_net. lia.
    + apply std_task_net. lia.
Qed.

(* ================================================================================================ *)
(* P_C12x and P_C12 *)

Lemma list_eqb_nat_refl : forall l, list_eqb Nat.eqb l l = true.
Proof. induction l as [|x t IH]; simpl; auto. rewrite Nat.eqb_refl. exact IH. Qed.

Lemma xval_eqb_refl : forall x, xval_eqb x x = true.
Proof.
  destruct x as [[v | l | |] | e |]; simpl; auto using Nat.eqb_refl, list_eqb_nat_refl.
Qed.

Lemma list_eqb_nat_eq : forall a b, list_eqb Nat.eqb a b = true -> a = b.
Proof.
  induction a as [|x a IH]; destruct b as [|y b]; simpl; intros H; try discriminate; auto.
  apply andb_true_iff in H. destruct H as [H1 H2]. apply Nat.eqb_eq in H1. f_equal; auto.
Qed.

Lemma xval_eqb_eq : forall a b, xval_eqb a b = true -> a = b.
Proof.
  destruct a as [[v | l | |] | e |]; destruct b as [[v' | l' | |] | e' |]; simpl; intros H;
    try discriminate; auto.
  - apply Nat.eqb_eq in H. congruence.
  - apply list_eqb_nat_eq in H. congruence.
  - apply Nat.eqb_eq in H. congruence.
Qed.

Lemma embed_eqb : forall a b, xval_eqb (embed a) (embed b) = val_eqb a b.
Proof. destruct a, b; reflexivity. Qed.

Lemma is_xfail_embed : forall v, is_xfail (embed v) = is_fail v.
Proof. destruct v; reflexivity. Qed.

Lemma map_fst_embed : forall d, map fst (map embed_r d) = map fst d.
Proof. intros d. rewrite map_map. apply map_ext. intros r; reflexivity. Qed.

Lemma xpayload_embed : forall f d,
  xpayload_ok (fun i => embed (f i)) (map embed_r d) = payload_ok f d.
Proof.
  intros f. induction d as [|r t IH]; simpl; auto. unfold xpayload_ok, payload_ok in *. simpl.
  rewrite embed_eqb. f_equal. exact IH.
Qed.

(* numbers-only payloads: the extended predicate is the old one *)
Lemma P_C12x_conservative : forall ids tol f o,
  P_C12x (ids, tol, fun i => embed (f i)) (embed_outcome o) = P_C12 (ids, tol, f) o.
Proof.
  intros ids tol f o. destruct o as [d | i d | d]; simpl; unfold in_ids, in_tol, in_f; simpl; auto.
  - rewrite map_fst_embed, xpayload_embed. reflexivity.
  - rewrite map_fst_embed, xpayload_embed, is_xfail_embed. reflexivity.
Qed.

Lemma map_fst_lift : forall g d, map fst (map (lift_r g) d) = map fst d.
Proof. intros g d. rewrite map_map. apply map_ext. intros r; reflexivity. Qed.

Lemma xpayload_lift : forall g d, xpayload_ok g (map (lift_r g) d) = true.
Proof.
  intros g d. unfold xpayload_ok. apply forallb_forall. intros r Hr. apply in_map_iff in Hr.
  destruct Hr as (r0 & <- & _). simpl. apply xval_eqb_refl.
Qed.

Lemma is_fail_shadow : forall x, is_fail (shadow x) = is_xfail x.
Proof. intros x. unfold shadow. destruct (is_xfail x); reflexivity. Qed.

(* an outcome of the protocol model run with the success/failure shadow of [g], read with the payloads
   the workers computed *)
Lemma P_C12_lift : forall ids tol f g o,
  (forall i, f i = shadow (g i)) ->
  P_C12 (ids, tol, f) o = true -> P_C12x (ids, tol, g) (lift_outcome g o) = true.
Proof.
  intros ids tol f g o Hf H. destruct o as [d | i d | d]; simpl in *; unfold in_ids, in_tol, in_f in H;
    simpl in H; try discriminate.
  - apply andb_true_iff in H. destruct H as [H1 _]. rewrite map_fst_lift, H1, xpayload_lift. reflexivity.
  - repeat (apply andb_true_iff in H; destruct H as [H ?]).
    rewrite map_fst_lift, xpayload_lift. rewrite Hf, is_fail_shadow in H2.
    rewrite H, H1, H2. reflexivity.
Qed.

Lemma P_C12x_completed_spec : forall ids tol g d,
  P_C12x (ids, tol, g) (XCompleted d) = true -> Permutation d (map (fun i => (i, g i)) ids).
Proof.
  intros ids tol g d H. simpl in H. apply andb_true_iff in H. destruct H as [H1 H2].
  apply ms_eqb_sound in H1.
  assert (E : d = map (fun i => (i, g i)) (map fst d)).
  { unfold xpayload_ok in H2. rewrite forallb_forall in H2. clear H1.
    induction d as [|[i v] t IH]; simpl; auto. f_equal.
    - f_equal. apply xval_eqb_eq. apply (H2 (i, v)). left; auto.
    - apply IH. intros r Hr. apply H2. right; auto. }
  rewrite E at 1. apply Permutation_map. exact H1.
Qed.

(* ================================================================================================ *)
(* the single-process run with callbacks *)

Definition neutral_on (post : xresult -> list xresult) (g : nat -> xval) (ids : list nat) : Prop :=
  forall i, In i ids -> post (i, g i) = [(i, g i)].

Lemma seq_run_x_lift : forall tol g post ids,
  neutral_on post g ids ->
  seq_run_x tol g post ids = lift_outcome g (seq_run tol (fun i => shadow (g i)) ids).
Proof.
  intros tol g post. induction ids as [|i t IH]; intros Hn; simpl; auto.
  rewrite is_fail_shadow. destruct (negb tol && is_xfail (g i)); auto.
  rewrite IH by (intros j Hj; apply Hn; right; exact Hj).
  rewrite (Hn i) by (left; reflexivity).
  destruct (seq_run tol (fun i0 => shadow (g i0)) t); reflexivity.
Qed.

Lemma seq_x_holds : forall tol g post ids,
  neutral_on post g ids -> P_C12x (ids, tol, g) (seq_run_x tol g post ids) = true.
Proof.
  intros tol g post ids Hn. rewrite (seq_run_x_lift tol g post ids Hn).
  apply (P_C12_lift ids tol (fun i => shadow (g i)) g); auto. apply seq_holds.
Qed.

Lemma existsb_eqb_in : forall i t, existsb (Nat.eqb i) t = true <-> In i t.
Proof.
  intros i t. rewrite existsb_exists. split.
  - intros (x & Hx & E). apply Nat.eqb_eq in E. subst; auto.
  - intros H. exists i. split; auto. apply Nat.eqb_refl.
Qed.

Lemma cbs_apply_covered : forall cs ids i x,
  forallb (cb_covers ids) cs = true -> In i ids -> cbs_apply cs (i, x) = [(i, x)].
Proof.
  unfold cbs_apply. induction cs as [|c cs IH]; intros ids i x Hc Hi; simpl; auto.
  simpl in Hc. apply andb_true_iff in Hc. destruct Hc as [Hc1 Hc2].
  destruct c as [t]. simpl in Hc1. rewrite forallb_forall in Hc1. simpl.
  rewrite (Hc1 i Hi). simpl. apply (IH ids); auto.
Qed.

Lemma post_of_covered : forall o ids g, obj_covers ids o = true -> neutral_on (post_of o) g ids.
Proof.
  intros o ids g Hc i Hi. unfold obj_covers in Hc. apply andb_true_iff in Hc. destruct Hc as [H1 H2].
  unfold post_of. rewrite (cbs_apply_covered _ ids i (g i) H1 Hi). simpl.
  rewrite (cbs_apply_covered _ ids i (g i) H2 Hi). reflexivity.
Qed.

Lemma run_obj_holds : forall o ids tol t,
  obj_covers ids o = true -> P_C12x (ids, tol, eff_f (o_retry o) t) (run_obj o ids tol t) = true.
Proof. intros o ids tol t Hc. unfold run_obj. apply seq_x_holds. apply post_of_covered. exact Hc. Qed.

(* ================================================================================================ *)
(* independence of the objects of one process *)

Definition on_obj (p : nat) (x : op) : bool := Nat.eqb (op_obj x) p.
Definition of_obj (p : nat) (l : list (nat * xoutcome)) : list (nat * xoutcome) :=
  filter (fun r => Nat.eqb (fst r) p) l.

Lemma set_obj_same : forall st p o, set_obj st p o p = o.
Proof. intros. unfold set_obj. rewrite Nat.eqb_refl. reflexivity. Qed.

Lemma set_obj_other : forall st p q o, q <> p -> set_obj st p o q = st q.
Proof. intros st p q o H. unfold set_obj. apply Nat.eqb_neq in H. rewrite H. reflexivity. Qed.

(* what object p delivers is determined by the operations on p alone, whatever the other objects of the
   process were told to do before or in between, and whatever state they are in *)
Lemma session_frame : forall p ops st st',
  st p = st' p -> of_obj p (session st ops) = session st' (filter (on_obj p) ops).
Proof.
  intros p. induction ops as [|x t IH]; intros st st' E; simpl; auto.
  destruct x as [q th c | q n | q ids tol tk]; unfold on_obj at 1; simpl.
  - destruct (Nat.eqb q p) eqn:Eq.
    + apply Nat.eqb_eq in Eq. subst q. destruct th; simpl; apply IH; rewrite !set_obj_same, E; reflexivity.
    + apply Nat.eqb_neq in Eq. destruct th; apply IH; rewrite set_obj_other by congruence; exact E.
  - destruct (Nat.eqb q p) eqn:Eq.
    + apply Nat.eqb_eq in Eq. subst q. simpl. apply IH. rewrite !set_obj_same, E. reflexivity.
    + apply Nat.eqb_neq in Eq. apply IH. rewrite set_obj_other by congruence. exact E.
  - unfold of_obj. simpl. destruct (Nat.eqb q p) eqn:Eq.
    + apply Nat.eqb_eq in Eq. subst q. simpl. rewrite E. f_equal. apply IH. exact E.
    + apply IH. exact E.
Qed.

(* the state of an object after a sequence of operations *)
Fixpoint obj_after (o : pobj) (p : nat) (ops : list op) : pobj :=
  match ops with
  | [] => o
  | OAdd q true c :: t =>
    obj_after (if Nat.eqb q p then PObj (o_thread_cbs o ++ [c]) (o_cbs o) (o_retry o) else o) p t
  | OAdd q false c :: t =>
    obj_after (if Nat.eqb q p then PObj (o_thread_cbs o) (o_cbs o ++ [c]) (o_retry o) else o) p t
  | OTune q n :: t => obj_after (if Nat.eqb q p then PObj (o_thread_cbs o) (o_cbs o) n else o) p t
  | ORun _ _ _ _ :: t => obj_after o p t
  end.

Lemma session_app_run : forall pre st p ids tol tk post,
  exists l1 l2, session st (pre ++ ORun p ids tol tk :: post) =
                l1 ++ (p, run_obj (obj_after (st p) p pre) ids tol tk) :: l2.
Proof.
  induction pre as [|x t IH]; intros st p ids tol tk post; simpl.
  - exists [], (session st post). reflexivity.
  - destruct x as [q th c | q n | q ids' tol' tk'].
    + destruct th.
      * destruct (IH (set_obj st q (PObj (o_thread_cbs (st q) ++ [c]) (o_cbs (st q)) (o_retry (st q))))
                     p ids tol tk post) as (l1 & l2 & E).
        exists l1, l2. rewrite E. unfold set_obj at 1. rewrite (Nat.eqb_sym p q).
        destruct (Nat.eqb q p) eqn:Eq; auto. apply Nat.eqb_eq in Eq. subst q. reflexivity.
      * destruct (IH (set_obj st q (PObj (o_thread_cbs (st q)) (o_cbs (st q) ++ [c]) (o_retry (st q))))
                     p ids tol tk post) as (l1 & l2 & E).
        exists l1, l2. rewrite E. unfold set_obj at 1. rewrite (Nat.eqb_sym p q).
        destruct (Nat.eqb q p) eqn:Eq; auto. apply Nat.eqb_eq in Eq. subst q. reflexivity.
    + destruct (IH (set_obj st q (PObj (o_thread_cbs (st q)) (o_cbs (st q)) n)) p ids tol tk post)
        as (l1 & l2 & E).
      exists l1, l2. rewrite E. unfold set_obj at 1. rewrite (Nat.eqb_sym p q).
      destruct (Nat.eqb q p) eqn:Eq; auto. apply Nat.eqb_eq in Eq. subst q. reflexivity.
    + destruct (IH st p ids tol tk post) as (l1 & l2 & E).
      exists ((q, run_obj (st q) ids' tol' tk') :: l1), l2. rewrite E. reflexivity.
Qed.

(* an object nobody registered a callback on or tuned is a new object, whatever happened to others *)
Lemma obj_after_untouched : forall ops o p,
  (forall x, In x ops -> match x with ORun _ _ _ _ => True | _ => op_obj x <> p end) ->
  obj_after o p ops = o.
Proof.
  induction ops as [|x t IH]; intros o p H; simpl; auto.
  assert (Ht : forall y, In y t -> match y with ORun _ _ _ _ => True | _ => op_obj y <> p end)
    by (intros y Hy; apply H; right; exact Hy).
  pose proof (H x (or_introl eq_refl)) as Hx.
  destruct x as [q th c | q n | q ids tol tk]; simpl in Hx.
  - apply Nat.eqb_neq in Hx. destruct th; rewrite Hx; apply IH; exact Ht.
  - apply Nat.eqb_neq in Hx. rewrite Hx. apply IH; exact Ht.
  - apply IH; exact Ht.
Qed.

(* ================================================================================================ *)
(* the protocol model of Model/Pool.v with the payloads the workers computed *)

Lemma pool_holds_x : forall cfg g,
  (forall i, c_f cfg i = shadow (g i)) ->
  (forall out, c_exit cfg out = true -> out = []) -> wf_cfg cfg = true -> brk_safe (c_brk cfg) = true ->
  forall s o, reachable cfg s -> outcome_of_state s = Some o ->
  P_C12x (c_ids cfg, c_tol cfg, g) (lift_outcome g o) = true.
Proof.
  intros cfg g Hf HL HW HB s o HR Ho.
  apply (P_C12_lift (c_ids cfg) (c_tol cfg) (c_f cfg) g o Hf).
  exact (pool_holds cfg HL HW HB s o HR Ho).
Qed.

(* every run of a session satisfies the predicate for what was submitted to its own object *)
Lemma session_run_holds : forall pre p ids tol tk post,
  obj_covers ids (obj_after new_obj p pre) = true ->
  exists l1 l2 o,
    session new_store (pre ++ ORun p ids tol tk :: post) = l1 ++ (p, o) :: l2 /\
    o = run_obj (obj_after new_obj p pre) ids tol tk /\
    P_C12x (ids, tol, eff_f (o_retry (obj_after new_obj p pre)) tk) o = true.
Proof.
  intros pre p ids tol tk post Hc.
  destruct (session_app_run pre new_store p ids tol tk post) as (l1 & l2 & E).
  exists l1, l2, (run_obj (obj_after new_obj p pre) ids tol tk). repeat split; auto.
  apply run_obj_holds. exact Hc.
Qed.

Lemma new_obj_covers : forall ids, obj_covers ids new_obj = true.
Proof. reflexivity. Qed.

Lemma session_fresh_holds : forall pre p ids tol tk post,
  (forall x, In x pre -> match x with ORun _ _ _ _ => True | _ => op_obj x <> p end) ->
  exists l1 l2 o,
    session new_store (pre ++ ORun p ids tol tk :: post) = l1 ++ (p, o) :: l2 /\
    o = run_obj new_obj ids tol tk /\
    P_C12x (ids, tol, eff_f 3 tk) o = true.
Proof.
  intros pre p ids tol tk post H.
  pose proof (obj_after_untouched pre new_obj p H) as E.
  destruct (session_run_holds pre p ids tol tk post) as (l1 & l2 & o & A & B & C).
  { rewrite E. apply new_obj_covers. }
  rewrite E in B, C. exists l1, l2, o. auto.
Qed.
