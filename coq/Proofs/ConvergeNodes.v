(* C01, layer 5c: the diff entries of one (rule, key) slot of a level, for default diff
   logic: at most the entry of the slot's row in new and the REMOVED entry of the slot's
   row in old. *)
From Coq Require Import List String Bool Arith Lia Permutation.
From Annet Require Import Base.Str Base.Tree Model.Rulebook Model.Diff Model.Device Spec.P_C03 Spec.P_C01
     Proofs.DiffBasics Proofs.DiffProofsLib Proofs.DiffProofsAnnot Proofs.DiffProofsLossless
     Proofs.SortProofs Proofs.ConvergeDevice Proofs.ConvergeDiff Proofs.ConvergeSlot Proofs.ConvergeExpected.
Import ListNotations.
Open Scope string_scope.
Open Scope list_scope.

Definition nslot (s : minfo) (n : dnode) : bool := same_slot (d_mi n) s.
Definition aslot (s : minfo) (k : string * minfo * atree) : bool := same_slot (ami k) s.

Lemma mark_mi n : d_mi (mark_unchanged_n n) = d_mi n.
Proof. destruct n as [o row m k]. cbn. destruct (op_eqb o Affected); reflexivity. Qed.

Lemma newnode_mi og pop inrw k : d_mi (newnode og pop inrw k) = ami k.
Proof. unfold newnode. destruct (alookup (arow k) og) as [[mo so]|]; reflexivity. Qed.

Lemma mkrem_mark k : mark_unchanged_n (mkrem k) = mkrem k.
Proof. apply mark_no_aff. unfold mkrem. cbn. apply removed_t_no_aff. Qed.

(* at most one entry of an annotated level is in a given slot *)
Lemma filter_aslot s an : NoDup (akeys an) -> filter (aslot s) an = optl (afind_slot s an).
Proof.
  unfold afind_slot, akeys. induction an as [|k an IH]; intro Hnd; [reflexivity|].
  cbn [map] in Hnd. inversion Hnd as [|x l Hn Hr]; subst. cbn [filter find].
  unfold aslot at 1. change (snd (fst k)) with (ami k).
  destruct (same_slot (ami k) s) eqn:E.
  - cbn [optl]. f_equal. apply filter_none. intros k' Hk'. unfold aslot.
    destruct (same_slot (ami k') s) eqn:E'; [|reflexivity].
    exfalso. apply Hn. apply same_slot_iff in E, E'. rewrite E, <- E'.
    apply (in_map (fun k => key_of (ami k))). exact Hk'.
  - apply IH. exact Hr.
Qed.

Lemma filter_filter {A} (p q : A -> bool) l : filter p (filter q l) = filter (fun x => q x && p x) l.
Proof.
  induction l as [|x l IH]; [reflexivity|]. cbn. destruct (q x); cbn; [destruct (p x)|]; rewrite IH; reflexivity.
Qed.

Lemma filter_comm {A} (p q : A -> bool) l : filter p (filter q l) = filter q (filter p l).
Proof. rewrite !filter_filter. apply filter_ext. intro x. apply andb_comm. Qed.

Lemma filter_map_comm {A B} (g : A -> B) (p : B -> bool) l : filter p (map g l) = map g (filter (fun x => p (g x)) l).
Proof. induction l as [|x l IH]; [reflexivity|]. cbn. destruct (p (g x)); cbn; rewrite IH; reflexivity. Qed.

Section Nodes.
  Variable ao an : aforest.
  Variable pop : op.
  Hypothesis Hdo : all_default ao.
  Hypothesis Hdn : all_default an.
  Hypothesis Hko : NoDup (akeys ao).
  Hypothesis Hkn : NoDup (akeys an).

  Definition lvl_diff : list dnode := mark_unchanged (diff_level ao (cks an) pop false).
  Definition nn (k : string * minfo * atree) : dnode := mark_unchanged_n (newnode ao pop false k).

  Lemma lvl_diff_perm :
    Permutation lvl_diff (map nn an ++ map mkrem (filter (notin (arows an)) ao)).
  Proof.
    unfold lvl_diff. rewrite diff_level_default by assumption. unfold mark_unchanged.
    eapply Permutation_trans; [apply Permutation_map; apply base_diff_default_perm|].
    rewrite map_app, !map_map. apply Permutation_app; [apply Permutation_refl|].
    erewrite map_ext; [apply Permutation_refl|]. intro k. apply mkrem_mark.
  Qed.

  (* the REMOVED entry of the slot: old has a row in the slot whose text new does not have *)
  Definition rem_of (s : minfo) : option (string * minfo * atree) :=
    match afind_slot s ao with
    | Some k => if notin (arows an) k then Some k else None
    | None => None
    end.

  Lemma slot_nodes_perm s :
    Permutation (filter (nslot s) lvl_diff)
                (map nn (optl (afind_slot s an)) ++ map mkrem (optl (rem_of s))).
  Proof.
    eapply Permutation_trans; [apply Permutation_filter; apply lvl_diff_perm|].
    rewrite filter_app, !filter_map_comm.
    assert (E1 : filter (fun x => nslot s (nn x)) an = optl (afind_slot s an)).
    { rewrite <- filter_aslot by exact Hkn. apply filter_ext. intro k. unfold nslot, nn, aslot.
      rewrite mark_mi, newnode_mi. reflexivity. }
    assert (E2 : filter (fun x => nslot s (mkrem x)) (filter (notin (arows an)) ao) = optl (rem_of s)).
    { rewrite filter_comm.
      replace (filter (fun x => nslot s (mkrem x)) ao) with (filter (aslot s) ao) by (apply filter_ext; intro k; reflexivity).
      rewrite filter_aslot by exact Hko. unfold rem_of.
      destruct (afind_slot s ao) as [k|]; [|reflexivity]. cbn [optl filter]. destruct (notin (arows an) k); reflexivity. }
    rewrite E1, E2. apply Permutation_refl.
  Qed.

  Lemma pick_perm o ns ns' : Permutation ns ns' -> Permutation (pick o ns) (pick o ns').
  Proof. apply Permutation_filter. Qed.

  Lemma perm_short {A} (l : list A) (o : option A) : Permutation l (optl o) -> l = optl o.
  Proof.
    destruct o as [x|]; cbn; intro H.
    - apply Permutation_sym in H. apply Permutation_length_1_inv in H. exact H.
    - apply Permutation_sym in H. apply Permutation_nil in H. exact H.
  Qed.
End Nodes.

(* ---------- the entries of a slot, from the two configurations ---------- *)
Section SlotCase.
  Variable rmatch : string -> string -> option (list string).
  Variable rs : rset.
  Variable fo fn : forest.
  Variable pop : op.

  Notation slot := (slot_of rmatch rs).
  Notation ekey := (ekey rmatch rs).
  Notation lkeys := (lkeys rmatch rs).
  Notation lvl_uniq := (lvl_uniq rmatch rs).
  Notation sfind := (sfind rmatch rs).
  Notation annot_f := (annot_f rmatch).
  Notation annot := (annot rmatch).

  Hypothesis Huo : lvl_uniq fo.
  Hypothesis Hun : lvl_uniq fn.
  Hypothesis Hko : NoDup (keys fo).
  Hypothesis Hkn : NoDup (keys fn).
  Let ao := annot_f rs fo.
  Let an := annot_f rs fn.
  Hypothesis Hdo : all_default ao.
  Hypothesis Hdn : all_default an.

  Lemma arows_nodup f : NoDup (keys f) -> NoDup (arows (annot_f rs f)).
  Proof.
    induction f as [|[r t] f IH]; intro H; [constructor|]. cbn in H. inversion H; subst.
    rewrite annot_f_cons. destruct (match_row rmatch r rs) as [[m crs]|]; [|auto].
    cbn. constructor; [|auto]. intro Hin. apply annot_rows_incl in Hin. contradiction.
  Qed.

  Lemma sfind_match s f r t : sfind s f = Some (r, t) ->
    exists m crs, match_row rmatch r rs = Some (m, crs) /\ key_of m = key_of s /\ In (r, t) f.
  Proof.
    intro H. apply sfind_in in H as [Hin Hk]. unfold ConvergeDevice.ekey, slot_of in Hk. cbn [fst] in Hk.
    destruct (match_row rmatch r rs) as [[m crs]|]; [|discriminate]. cbn in Hk.
    exists m, crs. repeat split; [congruence | exact Hin].
  Qed.

  Lemma alookup_entry f r t m crs : NoDup (keys f) -> In (r, t) f -> match_row rmatch r rs = Some (m, crs) ->
    alookup r (annot_f rs f) = Some (m, annot crs t).
  Proof.
    intros Hk Hin Hm. apply alookup_In; [apply arows_nodup; exact Hk|].
    apply annot_in. exists t, crs. auto.
  Qed.

  Lemma alookup_slot_none s f r m crs : sfind s f = None -> match_row rmatch r rs = Some (m, crs) ->
    key_of m = key_of s -> alookup r (annot_f rs f) = None.
  Proof.
    intros Hs Hm Hk. destruct (alookup r (annot_f rs f)) as [[mo so]|] eqn:E; [|reflexivity].
    exfalso. apply alookup_Some_In in E. apply annot_in in E as (t & crs' & Hin & Hm' & _).
    apply sfind_none in Hs. apply Hs. apply lkeys_in. exists (r, t). split; [exact Hin|].
    unfold ConvergeDevice.ekey, slot_of. cbn [fst]. rewrite Hm. cbn. congruence.
  Qed.

  (* two rows of one slot on a level with one row per slot are the same row *)
  Lemma slot_same_row s f r t r' m' crs' t' : lvl_uniq f -> sfind s f = Some (r, t) -> In (r', t') f ->
    match_row rmatch r' rs = Some (m', crs') -> key_of m' = key_of s -> r' = r /\ t' = t.
  Proof.
    intros Hu Hs Hin Hm Hk.
    assert (E : sfind s f = Some (r', t')).
    { apply uniq_sfind; auto. unfold ConvergeDevice.ekey, slot_of. cbn [fst]. rewrite Hm. cbn. congruence. }
    rewrite Hs in E. injection E as -> ->. auto.
  Qed.

  Definition added_node (r' : string) (m' : minfo) (crs' : rset) (t' : tree) : dnode :=
    DN Added r' m' (diff_t (annot crs' t') [] Added false).
  Definition removed_node (r : string) (m : minfo) (crs : rset) (t : tree) : dnode :=
    mkrem (r, m, annot crs t).
  Definition both_node (r : string) (m' : minfo) (crs crs' : rset) (t t' : tree) : dnode :=
    mark_unchanged_n (DN pop r m' (diff_t (annot crs' t') (annot_f crs (kids t)) pop false)).

  Theorem slot_case s :
    let ns := filter (nslot s) (lvl_diff ao an pop) in
    match sfind s fo, sfind s fn with
    | None, None => ns = []
    | None, Some (r', t') =>
      exists m' crs', match_row rmatch r' rs = Some (m', crs') /\ ns = [added_node r' m' crs' t']
    | Some (r, t), None =>
      exists m crs, match_row rmatch r rs = Some (m, crs) /\ ns = [removed_node r m crs t]
    | Some (r, t), Some (r', t') =>
      exists m crs m' crs', match_row rmatch r rs = Some (m, crs) /\ match_row rmatch r' rs = Some (m', crs') /\
        if String.eqb r r' then ns = [both_node r m' crs crs' t t']
        else Permutation ns [added_node r' m' crs' t'; removed_node r m crs t]
    end.
  Proof.
    intro ns.
    assert (Hperm := slot_nodes_perm ao an pop Hdo Hdn
                       ltac:(unfold ao; rewrite akeys_annot; exact Huo)
                       ltac:(unfold an; rewrite akeys_annot; exact Hun) s).
    fold ns in Hperm. unfold rem_of in Hperm. unfold ao, an in Hperm. rewrite !afind_slot_annot in Hperm.
    fold ao an in Hperm.
    destruct (sfind s fo) as [[r t]|] eqn:Eo; destruct (sfind s fn) as [[r' t']|] eqn:En.
    - destruct (sfind_match s fo r t Eo) as (m & crs & Hm & Hk & Hin).
      destruct (sfind_match s fn r' t' En) as (m' & crs' & Hm' & Hk' & Hin').
      exists m, crs, m', crs'. split; [exact Hm|]. split; [exact Hm'|].
      rewrite Hm, Hm' in Hperm. cbn [optl map] in Hperm. unfold nn, newnode in Hperm. cbn [arow ami asub fst snd] in Hperm.
      destruct (String.eqb_spec r r') as [<-|Hne].
      + rewrite Hm in Hm'. injection Hm' as <- <-.
        fold ao in Hperm. unfold ao in Hperm at 1. rewrite (alookup_entry fo r t m crs Hko Hin Hm) in Hperm.
        rewrite annot_akids in Hperm.
        assert (E : notin (arows an) (r, m, annot crs t) = false).
        { unfold notin. cbn [arow fst]. apply negb_false_iff. apply existsb_eqb_In.
          unfold an. apply (in_map arow (annot_f rs fn) (r, m, annot crs t')). apply annot_in. exists t', crs. auto. }
        rewrite E in Hperm. cbn [optl map app] in Hperm.
        apply Permutation_sym, Permutation_length_1_inv in Hperm. exact Hperm.
      + assert (E0 : alookup r' ao = None).
        { destruct (alookup r' ao) as [[mo so]|] eqn:E; [|reflexivity]. exfalso.
          apply alookup_Some_In in E. apply annot_in in E as (t0 & crs0 & Hin0 & Hm0 & _).
          rewrite Hm' in Hm0. injection Hm0 as <- <-.
          destruct (slot_same_row s fo r t r' m' crs' t0 Huo Eo Hin0 Hm' Hk'). congruence. }
        fold ao in Hperm. rewrite E0 in Hperm.
        assert (E : notin (arows an) (r, m, annot crs t) = true).
        { unfold notin. cbn [arow fst]. apply negb_true_iff. apply existsb_eqb_false. intro Hr.
          apply in_map_iff in Hr as ([[r0 m0] s0] & Er & Hr). cbn in Er. subst r0.
          apply annot_in in Hr as (t0 & crs0 & Hin0 & Hm0 & _). rewrite Hm in Hm0. injection Hm0 as <- <-.
          destruct (slot_same_row s fn r' t' r m crs t0 Hun En Hin0 Hm Hk). congruence. }
        rewrite E in Hperm. cbn [optl map app mark_unchanged_n op_eqb] in Hperm. exact Hperm.
    - destruct (sfind_match s fo r t Eo) as (m & crs & Hm & Hk & Hin).
      exists m, crs. split; [exact Hm|]. rewrite Hm in Hperm. cbn [optl map app] in Hperm.
      assert (E : notin (arows an) (r, m, annot crs t) = true).
      { unfold notin. cbn [arow fst]. apply negb_true_iff. apply existsb_eqb_false. intro Hr.
        apply in_map_iff in Hr as ([[r0 m0] s0] & Er & Hr). cbn in Er. subst r0.
        apply annot_in in Hr as (t0 & crs0 & Hin0 & Hm0 & _). rewrite Hm in Hm0. injection Hm0 as <- <-.
        apply sfind_none in En. apply En. apply lkeys_in. exists (r, t0). split; [exact Hin0|].
        unfold ConvergeDevice.ekey, slot_of. cbn [fst]. rewrite Hm. cbn. congruence. }
      rewrite E in Hperm. cbn [optl map] in Hperm.
      apply Permutation_sym, Permutation_length_1_inv in Hperm. exact Hperm.
    - destruct (sfind_match s fn r' t' En) as (m' & crs' & Hm' & Hk' & Hin').
      exists m', crs'. split; [exact Hm'|]. rewrite Hm' in Hperm. cbn [optl map app] in Hperm.
      unfold nn, newnode in Hperm. cbn [arow ami asub fst snd] in Hperm.
      unfold ao in Hperm. rewrite (alookup_slot_none s fo r' m' crs' Eo Hm' Hk') in Hperm.
      cbn [mark_unchanged_n op_eqb] in Hperm.
      apply Permutation_sym, Permutation_length_1_inv in Hperm. exact Hperm.
    - cbn [optl map app] in Hperm. apply Permutation_sym, Permutation_nil in Hperm. exact Hperm.
  Qed.
End SlotCase.
