(* resort_diff without any hypothesis on diff_cmp: diff_cmp is sign-antisymmetric (diff_cmp b a = - diff_cmp a b), hence
   "not greater" is total, hence the stable insertion sort leaves no entry immediately followed by a strictly smaller
   one -- at every depth.  Transitivity on the entries of the level is then the only hypothesis needed for the
   strong form (totality is a theorem), and it cannot be dropped. *)
From Coq Require Import List String Ascii Bool Arith ZArith NArith Lia Permutation Sorted.
From Annet Require Import Base.Str Base.Tree Model.Rulebook Model.Diff Model.Order Model.DiffSort Spec.P_C03Sort
  Proofs.DiffBasics Proofs.SortProofs Proofs.DiffSortProofs.
Import ListNotations.
Open Scope list_scope.

Lemma key3_antisym x y : key3_cmp y x = (- key3_cmp x y)%Z.
Proof.
  destruct x as [[a1 a2] a3], y as [[b1 b2] b3]. unfold key3_cmp.
  rewrite (N.compare_antisym a1 b1), (N.compare_antisym a2 b2), (N.compare_antisym a3 b3).
  destruct (N.compare a1 b1), (N.compare a2 b2), (N.compare a3 b3); reflexivity.
Qed.

Lemma num_cmp_antisym a b : num_cmp b a = option_map Z.opp (num_cmp a b).
Proof.
  unfold num_cmp. destruct (wint a) as [x|], (wint b) as [y|]; cbn [option_map];
    try (f_equal; lia); destruct (wip a) as [p|], (wip b) as [q|]; cbn [option_map]; try reflexivity;
    rewrite key3_antisym; reflexivity.
Qed.

Theorem diff_cmp_antisym a b : diff_cmp b a = (- diff_cmp a b)%Z.
Proof.
  unfold diff_cmp. cbv zeta.
  replace (ops_order (d_op b) - ops_order (d_op a))%Z with (- (ops_order (d_op a) - ops_order (d_op b)))%Z by lia.
  set (c := (ops_order (d_op a) - ops_order (d_op b))%Z).
  rewrite (String.eqb_sym (d_row b) (d_row a)). destruct (String.eqb (d_row a) (d_row b)); [reflexivity|].
  assert (Ez : forall z, Z.eqb (- z) 0 = Z.eqb z 0).
  { intros z. destruct (Z.eqb_spec z 0), (Z.eqb_spec (- z) 0); try reflexivity; lia. }
  rewrite Ez. destruct (Z.eqb c 0); [reflexivity|].
  destruct (split_char " "%char (d_row a)) as [|a0 lt], (split_char " "%char (d_row b)) as [|b0 rt]; try reflexivity.
  rewrite (num_cmp_antisym a0 b0). destruct (num_cmp a0 b0) as [z|]; cbn [option_map].
  - rewrite Ez. destruct (Z.eqb z 0); reflexivity.
  - destruct lt as [|a1 lt], rt as [|b1 rt]; try reflexivity.
    rewrite (num_cmp_antisym a1 b1). destruct (num_cmp a1 b1) as [z|]; cbn [option_map].
    + rewrite Ez. destruct (Z.eqb z 0); reflexivity.
    + rewrite (String.eqb_sym b1 a1). destruct (String.eqb a1 b1); reflexivity.
Qed.

Theorem cmp_leb_total a b : cmp_leb a b = true \/ cmp_leb b a = true.
Proof.
  unfold cmp_leb. rewrite (diff_cmp_antisym a b).
  destruct (Z.ltb_spec (- diff_cmp a b) 0); destruct (Z.ltb_spec (diff_cmp a b) 0); cbn [negb]; auto. lia.
Qed.

Lemma tot_on_cmp l : tot_on cmp_leb l.
Proof. intros a b _ _. apply cmp_leb_total. Qed.

(* ---------- insertion by a total "not greater": no descent between neighbours ---------- *)
Section Adj.
  Context {A : Type}.
  Variable leb : A -> A -> bool.
  Hypothesis leb_total : forall a b, leb a b = true \/ leb b a = true.
  Let le (a b : A) : Prop := leb a b = true.

  Lemma insert_Sorted a : forall l, Sorted le l -> Sorted le (insert_by leb a l).
  Proof.
    induction l as [|y t IH]; intros Hs; cbn [insert_by].
    - constructor; constructor.
    - destruct (leb a y) eqn:E.
      + constructor; [exact Hs | constructor; exact E].
      + assert (Hya : le y a) by (destruct (leb_total a y) as [H|H]; [congruence | exact H]).
        inversion Hs as [|? ? Hst Hhd]; subst. constructor; [apply IH; exact Hst|].
        destruct t as [|z t']; cbn [insert_by]; [constructor; exact Hya|].
        destruct (leb a z); constructor; [exact Hya|]. inversion Hhd; subst. assumption.
  Qed.

  Theorem sort_Sorted l : Sorted le (stable_sort leb l).
  Proof.
    induction l as [|a l IH]; [constructor|]. rewrite stable_sort_cons. apply insert_Sorted. exact IH.
  Qed.
End Adj.

Lemma Sorted_adj_lvl l : Sorted (fun a b => cmp_leb a b = true) l -> adj_lvl l = true.
Proof.
  induction 1 as [|a l _ IH Hhd]; [reflexivity|]. cbn [adj_lvl]. rewrite IH, andb_true_r.
  destruct l as [|b l]; [reflexivity|]. inversion Hhd; subst. assumption.
Qed.

Lemma adj_lvl_Sorted l : adj_lvl l = true -> Sorted (fun a b => cmp_leb a b = true) l.
Proof.
  induction l as [|a l IH]; intros H; [constructor|]. cbn [adj_lvl] in H. apply andb_true_iff in H as [H1 H2].
  constructor; [apply IH; exact H2|]. destruct l as [|b l]; constructor. exact H1.
Qed.

Theorem resort_adjacent d : Sorted (fun a b => cmp_leb a b = true) (resort d).
Proof. unfold resort. apply sort_Sorted. exact cmp_leb_total. Qed.

(* at every depth *)
Lemma resort_n_adj : forall x, adj_all_n (resort_n x) = true.
Proof.
  induction x as [o r m k IH] using dnode_ind2. rewrite resort_n_kids. cbn [adj_all_n].
  rewrite (Sorted_adj_lvl _ (resort_adjacent k)). cbn [andb].
  apply forallb_forall. intros y Hy. unfold resort in Hy. apply sort_in in Hy.
  apply in_map_iff in Hy as (y0 & E & Hy0). subst y. rewrite Forall_forall in IH. apply IH. exact Hy0.
Qed.

Theorem resort_adj_all d : adj_all (resort d) = true.
Proof.
  unfold adj_all. rewrite (Sorted_adj_lvl _ (resort_adjacent d)). cbn [andb].
  apply forallb_forall. intros y Hy. unfold resort in Hy. apply sort_in in Hy.
  apply in_map_iff in Hy as (y0 & E & Hy0). subst y. apply resort_n_adj.
Qed.

(* the strong form needs transitivity only *)
Definition trans_lvl (l : list dnode) : bool :=
  forallb (fun a => forallb (fun b => forallb (fun c => negb (cmp_leb a b && cmp_leb b c) || cmp_leb a c) l) l) l.

Lemma trans_lvl_wo l : trans_lvl l = true -> wo_on l = true.
Proof.
  intros H. unfold wo_on. fold (trans_lvl l). rewrite H, andb_true_r.
  apply forallb_forall. intros a _. apply forallb_forall. intros b _. apply orb_true_iff. apply cmp_leb_total.
Qed.

Theorem resort_sorted_stable_trans d : trans_lvl d = true ->
  StronglySorted (fun a b => cmp_leb a b = true) (resort d) /\
  (forall x, In x d -> filter (eqv_on cmp_leb (resort_n x)) (resort d) = filter (eqv_on cmp_leb (resort_n x)) (map resort_n d)).
Proof. intros H. apply resort_sorted_stable. apply trans_lvl_wo. exact H. Qed.
