(* C01: the ordering hypothesis holds for every ordering rulebook without %order_reverse:
   the removal of a slot carries the key (-o, rule, false), its re-creation (o', rule, true)
   with o, o' >= 0, so the stable sort keeps the removal first. *)
From Coq Require Import List String Bool Arith ZArith Lia Permutation.
From Annet Require Import Base.Str Base.Tree Model.Rulebook Model.Diff Model.Order Model.Patch Model.Blocks
     Model.Device Spec.P_C03 Spec.P_C01
     Proofs.SortProofs Proofs.OrderProofs
     Proofs.ConvergeDevice Proofs.ConvergeRun Proofs.ConvergePre Proofs.ConvergeSlot.
Import ListNotations.
Open Scope string_scope.
Open Scope list_scope.

Lemma no_orev_r_inv r : no_orev_r r = true -> o_rev r = false /\ no_orev (o_kids r) = true.
Proof. destruct r as [raw pat orev glob scope kids]. cbn. intro H. apply andb_true_iff in H as [H1 H2]. apply negb_true_iff in H1. auto. Qed.

Section GetOrder.
  Variable rmatch : string -> string -> option (list string).
  Variable rsrc : string -> string.
  Variable rrev : string -> string.
  Variable block_exit : string.

  Notation gstep := (get_order_step rmatch rsrc rrev block_exit).

  Definition plain_state (cd : bool) (st : gstate) : Prop :=
    g_direct st = cd /\ g_order st <> FInf /\ no_orev (g_children st) = true.

  Lemma no_orev_app a b : no_orev (a ++ b) = no_orev a && no_orev b.
  Proof. apply forallb_app. Qed.

  Lemma gstep_plain row scope cd st ir : no_orev_r (snd ir) = true ->
    (is_empty block_exit = true \/ row <> block_exit) -> plain_state cd st -> plain_state cd (gstep row scope st ir).
  Proof.
    destruct ir as [order r]. cbn [snd]. intros Hr Hx (Hd & Ho & Hc). apply no_orev_r_inv in Hr as [Hrev Hk].
    unfold get_order_step. destruct (negb (in_scope r scope)); [repeat split; assumption|].
    rewrite Hrev. cbn [negb andb].
    set (ch := if o_glob r then g_children st ++ [r] else g_children st).
    assert (Hch : no_orev ch = true).
    { subst ch. destruct (o_glob r); [|exact Hc]. rewrite no_orev_app, Hc. cbn.
      destruct r as [raw pat orev glob sc kids]. cbn in *. rewrite Hrev. cbn. rewrite Hk. reflexivity. }
    destruct (matches rmatch (o_pat r) row || matches rmatch (rrev (o_pat r)) row).
    - repeat split; cbn [g_direct g_order g_children].
      + exact Hd.
      + destruct (match g_order st with FNone => true | _ => Nat.ltb (g_weight st) _ end); [discriminate | exact Ho].
      + rewrite no_orev_app, Hch, Hk. reflexivity.
    - destruct (negb (is_empty block_exit) && String.eqb block_exit row) eqn:Eb.
      + exfalso. apply andb_true_iff in Eb as [E1 E2]. apply negb_true_iff in E1. apply String.eqb_eq in E2.
        destruct Hx as [Hx|Hx]; [congruence | apply Hx; auto].
      + repeat split; cbn [g_direct g_order g_children]; assumption.
  Qed.

  Lemma odict_of_no_orev : forall l acc, no_orev l = true -> no_orev acc = true -> no_orev (odict_of l acc) = true.
  Proof.
    induction l as [|r l IH]; intros acc Hl Ha; [exact Ha|]. cbn [odict_of].
    cbn in Hl. apply andb_true_iff in Hl as [Hr Hl]. apply IH; [exact Hl|].
    destruct (existsb (fun x => String.eqb (o_raw x) (o_raw r)) acc).
    - unfold no_orev in *. rewrite forallb_forall in Ha. apply forallb_forall. intros x Hx.
      apply in_map_iff in Hx as (y & <- & Hy). destruct (String.eqb (o_raw y) (o_raw r)); [exact Hr | apply Ha; exact Hy].
    - rewrite no_orev_app, Ha. cbn. rewrite Hr. reflexivity.
  Qed.

  Lemma enumerate_snd {A} (l : list A) i x : In x (enumerate l i) -> In (snd x) l.
  Proof.
    revert i. induction l as [|a l IH]; intros i H; [destruct H|]. cbn in H. destruct H as [<-|H]; [now left | right; eauto].
  Qed.

  (* the order of a command under an ordering rulebook without %order_reverse *)
  Theorem get_order_plain ordering row cd scope : no_orev ordering = true ->
    (is_empty block_exit = true \/ row <> block_exit) ->
    exists z ord', (0 <= z)%Z /\ no_orev ord' = true /\
                   get_order rmatch rsrc rrev block_exit ordering row cd scope = (ZFin z, cd, ord').
  Proof.
    intros Hn Hx. unfold get_order.
    assert (Hst : plain_state cd (fold_left (gstep row scope) (enumerate ordering 0) (GS FNone 0 cd []))).
    { assert (G : forall l st, (forall x, In x l -> no_orev_r (snd x) = true) -> plain_state cd st ->
                               plain_state cd (fold_left (gstep row scope) l st)).
      { induction l as [|x l IH]; intros st Hl Hs; [exact Hs|]. cbn [fold_left]. apply IH.
        - intros y Hy. apply Hl. now right.
        - apply gstep_plain; auto. apply Hl. now left. }
      apply G.
      - intros x Hx'. apply enumerate_snd in Hx'. unfold no_orev in Hn. rewrite forallb_forall in Hn. auto.
      - split; [reflexivity|]. split; [discriminate | reflexivity]. }
    destruct Hst as (Hd & Ho & Hc). set (st := fold_left _ _ _) in *.
    destruct (g_order st) as [|k|] eqn:Eo; [| |congruence].
    - exists 0%Z, (odict_of (g_children st) []). rewrite Hd. split; [lia|]. split; [apply odict_of_no_orev; auto | reflexivity].
    - exists (Z.of_nat k), (odict_of (g_children st) []). rewrite Hd. split; [lia|].
      split; [apply odict_of_no_orev; auto | reflexivity].
  Qed.
End GetOrder.

(* the removal key is below the re-creation key of the same rule *)
Lemma skey_undo_redo z1 z2 raw : (0 <= z1)%Z -> (0 <= z2)%Z ->
  skey_leb (sk_of (ZFin z1) false raw) (sk_of (ZFin z2) true raw) = true.
Proof.
  intros H1 H2. unfold sk_of, skey_leb, znum_compare.
  destruct (Z.compare_spec (- z1) z2) as [E|L|G]; [|reflexivity|lia].
  rewrite string_compare_refl. reflexivity.
Qed.
