(* C12: invariants of the pool transition system (Model/Pool.v). *)
From Coq Require Import List Bool Arith Lia Permutation.
From Annet Require Import Model.Pool Spec.P_C12.
Import ListNotations.

(* ================================================================================================ *)
(* Relational view of [exec]: one constructor per kind of step, premises named. *)

Definition wset (w : worker) (st : wst) (k : nat) (o : list result) : worker := W st k o (w_in w) (w_ret w).

Inductive step (cfg : config) : state -> label -> state -> Prop :=
| S_take : forall s i w x q,
    nth_error (ws s) i = Some w -> w_st w = Idle -> taskq s = Inv x :: q ->
    step cfg s (LTake i x) (set_w s i (wset w (Busy x) (w_k w) (w_out w)) q (doneq s))
| S_stop : forall s i w q,
    nth_error (ws s) i = Some w -> w_st w = Idle -> taskq s = Stop :: q ->
    step cfg s (LStop i) (set_w s i (wset w (Dying C0) (w_k w) (w_out w)) q (doneq s))
| S_finish : forall s i w x,
    nth_error (ws s) i = Some w -> w_st w = Busy x ->
    step cfg s (LFinish i x)
         (set_w s i (wset w (if retire_now (c_max cfg) (S (w_k w)) then Dying C9 else Idle) (S (w_k w))
                          (w_out w ++ [(x, c_f cfg x)])) (taskq s) (doneq s))
| S_flush : forall s i w r o,
    nth_error (ws s) i = Some w -> w_out w = r :: o ->
    step cfg s (LFlush i) (set_w s i (wset w (w_st w) (w_k w) o) (taskq s) (doneq s ++ [r]))
| S_exit : forall s i w c,
    nth_error (ws s) i = Some w -> w_st w = Dying c -> c_exit cfg (w_out w) = true ->
    step cfg s (LExit i) (set_w s i (wset w (Exited c) (w_k w) (w_out w)) (taskq s) (doneq s))
| S_get : forall s r q,
    ppc s = AtGet -> doneq s = r :: q ->
    step cfg s (LGet (fst r)) (set_p s q (ws s) AtReap (pool_empty (ws s)) false (Some r) (delivered s))
| S_get_empty : forall s,
    ppc s = AtGet -> doneq s = [] ->
    step cfg s LGetEmpty (set_p s [] (ws s) AtReap (pool_empty (ws s)) true None (delivered s))
| S_reap : forall s obs,
    ppc s = AtReap ->
    step cfg s (LReap obs)
         (set_p s (doneq s) (map reap_w (ws s)) AtDeliver (all_reaped s) (qempty s) (got s) (delivered s))
| S_deliver : forall s r,
    ppc s = AtDeliver -> got s = Some r -> c_tol cfg || negb (is_fail (snd r)) = true ->
    step cfg s (LDeliver (fst r))
         (set_p s (doneq s) (ws s) AtBreak (all_reaped s) (qempty s) None (delivered s ++ [r]))
| S_abort : forall s r,
    ppc s = AtDeliver -> got s = Some r -> c_tol cfg = false -> is_fail (snd r) = true ->
    step cfg s (LAbort (fst r))
         (set_p s (doneq s) (ws s) (Aborted (fst r)) (all_reaped s) (qempty s) (got s) (delivered s))
| S_nodeliver : forall s,
    ppc s = AtDeliver -> got s = None ->
    step cfg s LNoDeliver (set_p s (doneq s) (ws s) AtBreak (all_reaped s) (qempty s) None (delivered s))
| S_break : forall s,
    ppc s = AtBreak -> eval_brk (c_brk cfg) (pool_empty (ws s)) (all_reaped s) (qempty s) = true ->
    step cfg s LBreak (set_p s (doneq s) (ws s) Done (all_reaped s) (qempty s) (got s) (delivered s))
| S_loop : forall s,
    ppc s = AtBreak -> eval_brk (c_brk cfg) (pool_empty (ws s)) (all_reaped s) (qempty s) = false ->
    step cfg s LLoop
         (set_p s (doneq s) (map restart_w (ws s)) AtGet (all_reaped s) (qempty s) (got s) (delivered s)).

Ltac exec_inv H :=
  repeat match type of H with
         | context [match ?x with _ => _ end] => destruct x eqn:?; try discriminate H
         end.

Lemma exec_step : forall cfg s l s', exec cfg s l = Some s' -> step cfg s l s'.
Proof.
  intros cfg s l s' H. unfold exec, exec_worker in H.
  destruct l; exec_inv H; injection H as H; subst s';
    repeat match goal with
           | E : Nat.eqb _ _ = true |- _ => apply Nat.eqb_eq in E; subst
           | E : _ && _ = true |- _ => apply andb_true_iff in E; destruct E
           end.
  all: try match goal with
           | A : nth_error (ws ?s0) ?i0 = Some ?w0, B : w_st ?w0 = Busy ?x0, C : retire_now _ _ = _ |- _ =>
             let X := fresh "X" in pose proof (S_finish cfg s0 i0 w0 x0 A B) as X; rewrite C in X; exact X
           end.
  all: try solve [econstructor; eauto].
  match goal with E : got _ = Some _ |- _ => rewrite <- E end.
  eapply S_abort; eauto.
  all: destruct (c_tol cfg); try discriminate; auto.
Qed.

(* ================================================================================================ *)
(* Lists *)

Notation cnt := (count_occ Nat.eq_dec).

Lemma cnt_app : forall (a b : list nat) x, cnt (a ++ b) x = cnt a x + cnt b x.
Proof. intros. apply count_occ_app. Qed.

Lemma upd_length : forall A (l : list A) i x, List.length (upd l i x) = List.length l.
Proof. induction l as [|h t IH]; destruct i; simpl; intros; auto. Qed.

Lemma upd_nil_iff : forall A (l : list A) i x, upd l i x = [] <-> l = [].
Proof. destruct l; destruct i; simpl; split; intros; auto; discriminate. Qed.

Lemma cnt_flat_upd : forall A (g : A -> list nat) (l : list A) i w w' x,
  nth_error l i = Some w ->
  cnt (flat_map g (upd l i w')) x + cnt (g w) x = cnt (flat_map g l) x + cnt (g w') x.
Proof.
  induction l as [|h t IH]; destruct i; simpl; intros w w' x H; try discriminate.
  - injection H as H; subst h. rewrite !cnt_app. lia.
  - rewrite !cnt_app. specialize (IH _ _ w' x H). lia.
Qed.

Lemma Forall_upd : forall A (P : A -> Prop) (l : list A) i x,
  Forall P l -> P x -> Forall P (upd l i x).
Proof.
  induction l as [|h t IH]; destruct i; simpl; intros x HF HP; auto.
  - inversion HF; subst; constructor; auto.
  - inversion HF; subst; constructor; auto.
Qed.

Lemma Forall_nth_error : forall A (P : A -> Prop) (l : list A) i x,
  Forall P l -> nth_error l i = Some x -> P x.
Proof. intros A P l i x HF HN. rewrite Forall_forall in HF. eapply HF, nth_error_In; eauto. Qed.

Lemma Forall_flat_upd : forall A B (P : B -> Prop) (g : A -> list B) (l : list A) i x,
  Forall P (flat_map g l) -> Forall P (g x) -> Forall P (flat_map g (upd l i x)).
Proof.
  intros A B P g l i x H1 H2. rewrite Forall_flat_map in *. apply Forall_upd; auto.
Qed.

Lemma Forall_flat_nth : forall A B (P : B -> Prop) (g : A -> list B) (l : list A) i x,
  Forall P (flat_map g l) -> nth_error l i = Some x -> Forall P (g x).
Proof.
  intros A B P g l i x H1 H2. rewrite Forall_flat_map in H1.
  exact (Forall_nth_error _ _ _ _ _ H1 H2).
Qed.

Lemma flat_map_map_Forall : forall A B (g : A -> list B) (f : A -> A) (l : list A),
  Forall (fun w => g (f w) = g w) l -> flat_map g (map f l) = flat_map g l.
Proof.
  induction l as [|h t IH]; simpl; intros H; auto.
  inversion H; subst. rewrite IH by assumption. congruence.
Qed.

Lemma map_fst_flat : forall (l : list worker),
  map fst (flat_map w_out l) = flat_map (fun w => map fst (w_out w)) l.
Proof. induction l as [|h t IH]; simpl; auto. rewrite map_app. f_equal. exact IH. Qed.

Lemma forallb_upd : forall A (p : A -> bool) (l : list A) i x,
  forallb p l = true -> p x = true -> forallb p (upd l i x) = true.
Proof.
  induction l as [|h t IH]; destruct i; simpl; intros x H1 H2; auto;
    apply andb_true_iff in H1; destruct H1 as [Ha Hb]; apply andb_true_iff; split; auto.
Qed.

Lemma forallb_nth_error : forall A (p : A -> bool) (l : list A) i x,
  forallb p l = true -> nth_error l i = Some x -> p x = true.
Proof. intros A p l i x H1 H2. rewrite forallb_forall in H1. eapply H1, nth_error_In; eauto. Qed.

Lemma forallb_upd_same : forall A (p : A -> bool) (l : list A) i w w',
  nth_error l i = Some w -> p w' = p w -> forallb p (upd l i w') = forallb p l.
Proof.
  induction l as [|h t IH]; destruct i; simpl; intros w w' H1 H2; try discriminate.
  - injection H1 as H1; subst h. rewrite H2. reflexivity.
  - rewrite (IH _ _ _ H1 H2). reflexivity.
Qed.

Lemma forallb_map_same : forall A (p : A -> bool) (f : A -> A) (l : list A),
  (forall w, p (f w) = p w) -> forallb p (map f l) = forallb p l.
Proof. induction l as [|h t IH]; simpl; intros H; auto. rewrite H, IH; auto. Qed.

(* ================================================================================================ *)
(* Stop-token accounting *)

Definition owes (w : worker) : bool :=
  match w_st w with Dying C0 | Exited C0 => false | _ => true end.
Definition owing (l : list worker) : nat := List.length (filter owes l).

Lemma owing_upd : forall l i w w',
  nth_error l i = Some w ->
  owing (upd l i w') + (if owes w then 1 else 0) = owing l + (if owes w' then 1 else 0).
Proof.
  unfold owing. induction l as [|h t IH]; destruct i; simpl; intros w w' H; try discriminate.
  - injection H as H; subst h. destruct (owes w), (owes w'); simpl; lia.
  - specialize (IH _ _ w' H). destruct (owes h); simpl; lia.
Qed.

Lemma owing_map : forall (f : worker -> worker) l,
  Forall (fun w => owes (f w) = owes w) l -> owing (map f l) = owing l.
Proof.
  unfold owing. induction l as [|h t IH]; simpl; intros H; auto.
  inversion H as [|? ? Hh Ht]; subst. rewrite Hh. destruct (owes h); simpl; rewrite IH; auto.
Qed.

Lemma owing_zero : forall l, Forall (fun w => owes w = false) l -> owing l = 0.
Proof.
  unfold owing. induction l as [|h t IH]; simpl; intros H; auto.
  inversion H as [|? ? Hh Ht]; subst. rewrite Hh. auto.
Qed.

Lemma tq_head_inv : forall pend k x q,
  map Inv pend ++ repeat Stop k = Inv x :: q ->
  exists pend', pend = x :: pend' /\ q = map Inv pend' ++ repeat Stop k.
Proof.
  intros [|p pend] k x q H; simpl in H.
  - destruct k; simpl in H; discriminate.
  - injection H as H1 H2. subst. eauto.
Qed.

Lemma tq_head_stop : forall pend k q,
  map Inv pend ++ repeat Stop k = Stop :: q ->
  pend = [] /\ exists k', k = S k' /\ q = repeat Stop k'.
Proof.
  intros [|p pend] k q H; simpl in H.
  - split; auto. destruct k; simpl in H; [discriminate|]. injection H as H. eauto.
  - discriminate.
Qed.

(* ================================================================================================ *)
(* The invariant *)

Definition busy1 (w : worker) : list nat := match w_st w with Busy i => [i] | _ => [] end.
Definition outids (w : worker) : list nat := map fst (w_out w).

Definition total (x : nat) (s : state) : nat :=
  cnt (map fst (delivered s)) x + cnt (map fst (got_list (got s))) x + cnt (map fst (doneq s)) x
  + cnt (flat_map outids (ws s)) x + cnt (flat_map busy1 (ws s)) x + cnt (pending_ids (taskq s)) x.

Lemma cnt_accounted : forall s x, cnt (accounted s) x = total x s.
Proof.
  intros. unfold accounted, in_flight, total, outbox_results, busy_ids.
  repeat (rewrite ?map_app, ?cnt_app). rewrite map_fst_flat. unfold outids, busy1.
  rewrite !Nat.add_assoc. reflexivity.
Qed.

Lemma total_set_w : forall s i w w' tq dq x,
  nth_error (ws s) i = Some w ->
  total x (set_w s i w' tq dq) + cnt (outids w) x + cnt (busy1 w) x
    + cnt (map fst (doneq s)) x + cnt (pending_ids (taskq s)) x
  = total x s + cnt (outids w') x + cnt (busy1 w') x + cnt (map fst dq) x + cnt (pending_ids tq) x.
Proof.
  intros s i w w' tq dq x H. unfold total, set_w; simpl.
  pose proof (cnt_flat_upd _ outids _ _ _ w' x H).
  pose proof (cnt_flat_upd _ busy1 _ _ _ w' x H). lia.
Qed.

(* local facts about a pool slot *)
Definition wok (w : worker) : Prop :=
  (forall c, w_st w = Exited c -> w_out w = []) /\
  (w_in w = false -> w_st w = Exited C0 /\ w_ret w = false) /\
  (w_ret w = true -> w_st w = Exited C9).

Lemma reap_w_st : forall w, w_st (reap_w w) = w_st w.
Proof. intros w. unfold reap_w. destruct (w_in w); auto. destruct (w_st w) as [| | |[|]] eqn:E; simpl; auto. Qed.
Lemma reap_w_out : forall w, w_out (reap_w w) = w_out w.
Proof. intros w. unfold reap_w. destruct (w_in w); auto. destruct (w_st w) as [| | |[|]] eqn:E; simpl; auto. Qed.

Lemma restart_w_outids : forall w, wok w -> outids (restart_w w) = outids w.
Proof.
  intros w (H1 & _ & H3). unfold restart_w. destruct (w_ret w) eqn:E; auto.
  unfold outids. rewrite (H1 C9 (H3 eq_refl)). reflexivity.
Qed.
Lemma restart_w_busy1 : forall w, wok w -> busy1 (restart_w w) = busy1 w.
Proof.
  intros w (_ & _ & H3). unfold restart_w. destruct (w_ret w) eqn:E; auto.
  unfold busy1. rewrite (H3 eq_refl). reflexivity.
Qed.
Lemma restart_w_outres : forall w, wok w -> w_out (restart_w w) = w_out w.
Proof.
  intros w (H1 & _ & H3). unfold restart_w. destruct (w_ret w) eqn:E; auto.
  rewrite (H1 C9 (H3 eq_refl)). reflexivity.
Qed.

Section Invariant.
Variable cfg : config.
Hypothesis put_before_exit : forall out, c_exit cfg out = true -> out = [].

Definition got_ok (s : state) : Prop :=
  match ppc s with
  | AtGet | AtBreak | Done => got s = None
  | AtReap | AtDeliver => True
  | Aborted i => exists r, got s = Some r /\ fst r = i /\ c_tol cfg = false /\ is_fail (snd r) = true
  end.

Definition tq_ok (s : state) : Prop :=
  exists pend, taskq s = map Inv pend ++ repeat Stop (owing (ws s)) /\
               (pend = [] \/ (forallb owes (ws s) = true /\ ws s <> [])).

Definition drain_ok (s : state) : Prop :=
  ppc s <> AtGet -> all_reaped s = true ->
  pool_empty (ws s) = true /\ (qempty s = true -> doneq s = []).

Definition done_ok (s : state) : Prop :=
  ppc s = Done -> eval_brk (c_brk cfg) (pool_empty (ws s)) (all_reaped s) (qempty s) = true.

Definition pay_ok (s : state) : Prop :=
  Forall (fun r => snd r = c_f cfg (fst r)) (delivered s ++ in_flight s).

Record PInv (s : state) : Prop := {
  inv_cnt : forall x, total x s = cnt (c_ids cfg) x;
  inv_pay : pay_ok s;
  inv_tq : tq_ok s;
  inv_w : Forall wok (ws s);
  inv_got : got_ok s;
  inv_drain : drain_ok s;
  inv_done : done_ok s
}.

(* ------------------------------------------------------------------------------------------------ *)

Ltac rlia := unfold result in *; lia.
Ltac fin := unfold result in *; match goal with |- ?a = _ => let A := fresh "A" in set (A := a) in *; clearbody A; lia end.

Lemma step_cnt : forall s l s',
  Forall wok (ws s) -> got_ok s -> step cfg s l s' -> forall x, total x s' = total x s.
Proof.
  intros s l s' HW HG HS x. unfold got_ok in HG.
  destruct HS as [s i w y q Hn Hst Htq | s i w q Hn Hst Htq | s i w y Hn Hst | s i w r o Hn Ho
                 | s i w c Hn Hst Hex | s r q Hpc Hdq | s Hpc Hdq | s obs Hpc | s r Hpc Hg Hok
                 | s r Hpc Hg Htol Hf | s Hpc Hg | s Hpc Hb | s Hpc Hb].
  - pose proof (total_set_w s i w (wset w (Busy y) (w_k w) (w_out w)) q (doneq s) x Hn) as T.
    unfold outids, busy1, wset in *; simpl in T. rewrite Hst, Htq in T. simpl in T.
    destruct (Nat.eq_dec y x); fin.
  - pose proof (total_set_w s i w (wset w (Dying C0) (w_k w) (w_out w)) q (doneq s) x Hn) as T.
    unfold outids, busy1, wset in *; simpl in T. rewrite Hst, Htq in T. simpl in T. fin.
  - match goal with |- total x (set_w s i ?w' ?tq ?dq) = _ =>
                    pose proof (total_set_w s i w w' tq dq x Hn) as T end.
    unfold outids, busy1, wset in *; simpl in T. rewrite Hst in T.
    rewrite map_app, cnt_app in T. simpl in T.
    destruct (retire_now (c_max cfg) (S (w_k w))); simpl in T; destruct (Nat.eq_dec y x); fin.
  - match goal with |- total x (set_w s i ?w' ?tq ?dq) = _ =>
                    pose proof (total_set_w s i w w' tq dq x Hn) as T end.
    unfold outids, busy1, wset in *; simpl in T. rewrite Ho in T.
    rewrite map_app, cnt_app in T. simpl in T. destruct (Nat.eq_dec (fst r) x); fin.
  - match goal with |- total x (set_w s i ?w' ?tq ?dq) = _ =>
                    pose proof (total_set_w s i w w' tq dq x Hn) as T end.
    unfold outids, busy1, wset in *; simpl in T. rewrite Hst in T. simpl in T. fin.
  - rewrite Hpc in HG. unfold total, set_p; simpl. rewrite HG, Hdq. simpl.
    destruct (Nat.eq_dec (fst r) x); rlia.
  - rewrite Hpc in HG. unfold total, set_p; simpl. rewrite HG, Hdq. simpl. rlia.
  - unfold total, set_p; simpl.
    rewrite (flat_map_map_Forall _ _ outids reap_w), (flat_map_map_Forall _ _ busy1 reap_w); auto.
    + apply Forall_forall; intros w _. unfold busy1. rewrite reap_w_st. reflexivity.
    + apply Forall_forall; intros w _. unfold outids. rewrite reap_w_out. reflexivity.
  - unfold total, set_p; simpl. rewrite Hg. rewrite map_app, cnt_app. simpl.
    destruct (Nat.eq_dec (fst r) x); rlia.
  - reflexivity.
  - unfold total, set_p; simpl. rewrite Hg. reflexivity.
  - reflexivity.
  - unfold total, set_p; simpl.
    rewrite (flat_map_map_Forall _ _ outids restart_w), (flat_map_map_Forall _ _ busy1 restart_w); auto.
    + eapply Forall_impl; [|exact HW]. intros w Hw. apply restart_w_busy1; auto.
    + eapply Forall_impl; [|exact HW]. intros w Hw. apply restart_w_outids; auto.
Qed.

Notation payP := (fun r : nat * val => snd r = c_f cfg (fst r)).

Lemma pay_split : forall s,
  pay_ok s <-> Forall payP (delivered s) /\ Forall payP (got_list (got s)) /\
               Forall payP (doneq s) /\ Forall payP (flat_map w_out (ws s)).
Proof.
  intros s. unfold pay_ok, in_flight, outbox_results. rewrite !Forall_app. tauto.
Qed.

Lemma step_pay : forall s l s', Forall wok (ws s) -> pay_ok s -> step cfg s l s' -> pay_ok s'.
Proof.
  intros s l s' HW HP HS. apply pay_split in HP. destruct HP as (Pd & Pg & Pq & Po). apply pay_split.
  destruct HS as [s i w y q Hn Hst Htq | s i w q Hn Hst Htq | s i w y Hn Hst | s i w r o Hn Ho
                 | s i w c Hn Hst Hex | s r q Hpc Hdq | s Hpc Hdq | s obs Hpc | s r Hpc Hg Hok
                 | s r Hpc Hg Htol Hf | s Hpc Hg | s Hpc Hb | s Hpc Hb]; simpl.
  - repeat split; auto. apply Forall_flat_upd; auto. simpl. eapply Forall_flat_nth; eauto.
  - repeat split; auto. apply Forall_flat_upd; auto. simpl. eapply Forall_flat_nth; eauto.
  - repeat split; auto. apply Forall_flat_upd; auto. simpl. apply Forall_app; split.
    + eapply Forall_flat_nth; eauto.
    + constructor; auto.
  - pose proof (Forall_flat_nth _ _ _ _ _ _ _ Po Hn) as Pw. rewrite Ho in Pw. inversion Pw; subst.
    repeat split; auto.
    + apply Forall_app; split; auto.
    + apply Forall_flat_upd; auto.
  - repeat split; auto. apply Forall_flat_upd; auto. simpl. eapply Forall_flat_nth; eauto.
  - rewrite Hdq in Pq. inversion Pq; subst. repeat split; auto.
  - repeat split; auto.
  - repeat split; auto. rewrite (flat_map_map_Forall _ _ w_out reap_w); auto.
    apply Forall_forall; intros w _. apply reap_w_out.
  - rewrite Hg in Pg. simpl in Pg. inversion Pg; subst. repeat split; auto.
    apply Forall_app; split; auto.
  - repeat split; auto.
  - repeat split; auto.
  - repeat split; auto.
  - repeat split; auto. rewrite (flat_map_map_Forall _ _ w_out restart_w); auto.
    eapply Forall_impl; [|exact HW]. intros w Hw. apply restart_w_outres; auto.
Qed.

Lemma wok_reap : forall w, wok w -> wok (reap_w w).
Proof.
  intros w (H1 & H2 & H3). unfold reap_w, wok.
  destruct (w_in w) eqn:Ein; destruct (w_st w) as [| y | c | [|]] eqn:Est; simpl;
    rewrite ?Ein, ?Est; repeat split; intros; try discriminate; try congruence; eauto;
    try (destruct H2 as [E1 E2]; auto; congruence).
Qed.

Lemma wok_restart : forall w, wok w -> wok (restart_w w).
Proof.
  intros w Hw. unfold restart_w. destruct (w_ret w); auto.
  repeat split; simpl; intros; discriminate.
Qed.

Lemma step_w : forall s l s', Forall wok (ws s) -> step cfg s l s' -> Forall wok (ws s').
Proof.
  intros s l s' HW HS.
  destruct HS as [s i w y q Hn Hst Htq | s i w q Hn Hst Htq | s i w y Hn Hst | s i w r o Hn Ho
                 | s i w c Hn Hst Hex | s r q Hpc Hdq | s Hpc Hdq | s obs Hpc | s r Hpc Hg Hok
                 | s r Hpc Hg Htol Hf | s Hpc Hg | s Hpc Hb | s Hpc Hb]; simpl; auto;
    try (pose proof (Forall_nth_error _ _ _ _ _ HW Hn) as (H1 & H2 & H3); apply Forall_upd; auto;
         unfold wok, wset; simpl).
  - repeat split; intros; try discriminate.
    + destruct (H2 H) as [E _]; congruence.
    + destruct (H2 H) as [_ E]; auto.
    + specialize (H3 H); congruence.
  - repeat split; intros; try discriminate.
    + destruct (H2 H) as [E _]; congruence.
    + destruct (H2 H) as [_ E]; auto.
    + specialize (H3 H); congruence.
  - repeat split; intros.
    + destruct (retire_now (c_max cfg) (S (w_k w))); discriminate.
    + destruct (H2 H) as [E _]; congruence.
    + destruct (H2 H) as [_ E]; auto.
    + specialize (H3 H); congruence.
  - repeat split; intros.
    + rewrite (H1 _ H) in Ho. discriminate.
    + destruct (H2 H) as [E _]; auto.
    + destruct (H2 H) as [_ E]; auto.
    + auto.
  - repeat split; intros.
    + apply put_before_exit; auto.
    + destruct (H2 H) as [E _]; congruence.
    + destruct (H2 H) as [_ E]; auto.
    + specialize (H3 H); congruence.
  - apply Forall_map. eapply Forall_impl; [|exact HW]. apply wok_reap.
  - apply Forall_map. eapply Forall_impl; [|exact HW]. apply wok_restart.
Qed.

Lemma step_got : forall s l s', got_ok s -> step cfg s l s' -> got_ok s'.
Proof.
  intros s l s' HG HS. unfold got_ok in *.
  destruct HS as [s i w y q Hn Hst Htq | s i w q Hn Hst Htq | s i w y Hn Hst | s i w r o Hn Ho
                 | s i w c Hn Hst Hex | s r q Hpc Hdq | s Hpc Hdq | s obs Hpc | s r Hpc Hg Hok
                 | s r Hpc Hg Htol Hf | s Hpc Hg | s Hpc Hb | s Hpc Hb]; simpl; auto.
  - exists r. auto.
  - rewrite Hpc in HG. auto.
  - rewrite Hpc in HG. auto.
Qed.

Lemma tq_upd_same : forall l i w w',
  nth_error l i = Some w -> owes w' = owes w ->
  owing (upd l i w') = owing l /\ forallb owes (upd l i w') = forallb owes l.
Proof.
  intros l i w w' Hn E. split.
  - pose proof (owing_upd l i w w' Hn) as H. rewrite E in H. lia.
  - eapply forallb_upd_same; eauto.
Qed.

Lemma forallb_map_Forall : forall A (p : A -> bool) (f : A -> A) (l : list A),
  Forall (fun w => p (f w) = p w) l -> forallb p (map f l) = forallb p l.
Proof.
  induction l as [|h t IH]; simpl; intros H; auto.
  inversion H as [|? ? Hh Ht]; subst. rewrite Hh, IH; auto.
Qed.

Lemma owes_reap : forall w, owes (reap_w w) = owes w.
Proof. intros w. unfold owes. rewrite reap_w_st. reflexivity. Qed.

Lemma owes_restart : forall w, wok w -> owes (restart_w w) = owes w.
Proof.
  intros w (_ & _ & H3). unfold restart_w. destruct (w_ret w) eqn:E; auto.
  unfold owes. rewrite (H3 eq_refl). reflexivity.
Qed.

Lemma map_nil_iff : forall A B (f : A -> B) l, map f l = [] <-> l = [].
Proof. destruct l; simpl; split; intros; auto; discriminate. Qed.

Lemma step_tq : forall s l s', Forall wok (ws s) -> tq_ok s -> step cfg s l s' -> tq_ok s'.
Proof.
  intros s l s' HW (pend & Hq & Hp) HS. unfold tq_ok.
  destruct HS as [s i w y q Hn Hst Htq | s i w q Hn Hst Htq | s i w y Hn Hst | s i w r o Hn Ho
                 | s i w c Hn Hst Hex | s r q Hpc Hdq | s Hpc Hdq | s obs Hpc | s r Hpc Hg Hok
                 | s r Hpc Hg Htol Hf | s Hpc Hg | s Hpc Hb | s Hpc Hb]; simpl;
    try (exists pend; split; [exact Hq | exact Hp]).
  - rewrite Htq in Hq. symmetry in Hq. apply tq_head_inv in Hq. destruct Hq as (pend' & -> & ->).
    destruct (tq_upd_same (ws s) i w (wset w (Busy y) (w_k w) (w_out w)) Hn) as [E1 E2].
    { unfold owes, wset; simpl. rewrite Hst. reflexivity. }
    exists pend'. rewrite E1, E2. split; auto.
    destruct Hp as [Hp | [Hp1 Hp2]]; [discriminate|]. right. split; auto.
    rewrite upd_nil_iff. auto.
  - rewrite Htq in Hq. symmetry in Hq. apply tq_head_stop in Hq.
    destruct Hq as (-> & k' & Hk & ->). exists []. split; auto. simpl. f_equal.
    pose proof (owing_upd (ws s) i w (wset w (Dying C0) (w_k w) (w_out w)) Hn) as H.
    unfold owes at 1 2 in H. unfold wset in H. simpl in H. rewrite Hst in H. unfold wset. lia.
  - match goal with |- context [upd (ws s) i ?w'] =>
                    destruct (tq_upd_same (ws s) i w w' Hn) as [E1 E2] end.
    { unfold owes, wset; simpl. rewrite Hst.
      destruct (retire_now (c_max cfg) (S (w_k w))); reflexivity. }
    exists pend. rewrite E1, E2. split; auto.
    destruct Hp as [Hp | [Hp1 Hp2]]; auto. right. split; auto. rewrite upd_nil_iff. auto.
  - match goal with |- context [upd (ws s) i ?w'] =>
                    destruct (tq_upd_same (ws s) i w w' Hn) as [E1 E2] end.
    { unfold owes, wset; simpl. reflexivity. }
    exists pend. rewrite E1, E2. split; auto.
    destruct Hp as [Hp | [Hp1 Hp2]]; auto. right. split; auto. rewrite upd_nil_iff. auto.
  - match goal with |- context [upd (ws s) i ?w'] =>
                    destruct (tq_upd_same (ws s) i w w' Hn) as [E1 E2] end.
    { unfold owes, wset; simpl. rewrite Hst. destruct c; reflexivity. }
    exists pend. rewrite E1, E2. split; auto.
    destruct Hp as [Hp | [Hp1 Hp2]]; auto. right. split; auto. rewrite upd_nil_iff. auto.
  - exists pend. rewrite owing_map, forallb_map_same, map_nil_iff; auto using owes_reap.
    apply Forall_forall; intros w _. apply owes_reap.
  - exists pend. rewrite owing_map, forallb_map_Forall, map_nil_iff; auto.
    + eapply Forall_impl; [|exact HW]. intros w Hw. apply owes_restart; auto.
    + eapply Forall_impl; [|exact HW]. intros w Hw. apply owes_restart; auto.
Qed.

Lemma pool_empty_nth : forall l i w, pool_empty l = true -> nth_error l i = Some w -> w_in w = false.
Proof.
  intros l i w H Hn. pose proof (forallb_nth_error _ _ _ _ _ H Hn) as E. simpl in E.
  destruct (w_in w); auto; discriminate.
Qed.

Lemma pool_empty_reap : forall l, pool_empty l = true -> pool_empty (map reap_w l) = true.
Proof.
  unfold pool_empty. induction l as [|h t IH]; simpl; intros H; auto.
  apply andb_true_iff in H. destruct H as [Ha Hb]. rewrite IH by assumption.
  unfold reap_w. destruct (w_in h) eqn:E; simpl in *; try discriminate. rewrite E. reflexivity.
Qed.

Lemma pool_empty_upd : forall l i w w',
  nth_error l i = Some w -> w_in w' = w_in w -> pool_empty (upd l i w') = pool_empty l.
Proof.
  intros l i w w' Hn E. unfold pool_empty. eapply forallb_upd_same; eauto. simpl. rewrite E. reflexivity.
Qed.

(* once every slot has left the pool, no worker step is enabled *)
Lemma pool_empty_quiet : forall s i w,
  Forall wok (ws s) -> pool_empty (ws s) = true -> nth_error (ws s) i = Some w ->
  w_st w = Exited C0 /\ w_out w = [].
Proof.
  intros s i w HW HP Hn. pose proof (pool_empty_nth _ _ _ HP Hn) as Ein.
  destruct (Forall_nth_error _ _ _ _ _ HW Hn) as (H1 & H2 & _).
  destruct (H2 Ein) as [E _]. split; auto. eapply H1; eauto.
Qed.

Lemma step_drain : forall s l s', Forall wok (ws s) -> drain_ok s -> step cfg s l s' -> drain_ok s'.
Proof.
  intros s l s' HW HD HS. unfold drain_ok in *.
  destruct HS as [s i w y q Hn Hst Htq | s i w q Hn Hst Htq | s i w y Hn Hst | s i w r o Hn Ho
                 | s i w c Hn Hst Hex | s r q Hpc Hdq | s Hpc Hdq | s obs Hpc | s r Hpc Hg Hok
                 | s r Hpc Hg Htol Hf | s Hpc Hg | s Hpc Hb | s Hpc Hb]; simpl; intros Hne Har;
    try (destruct (HD Hne Har) as [HP HQ];
         destruct (pool_empty_quiet s i w HW HP Hn) as [E1 E2]; congruence);
    try (assert (Hne' : ppc s <> AtGet) by (rewrite Hpc; discriminate);
         destruct (HD Hne' Har) as [HP HQ]).
  - split; auto. intros; discriminate.
  - split; auto.
  - split; auto. apply pool_empty_reap; auto.
  - split; auto.
  - split; auto.
  - split; auto.
  - split; auto.
  - congruence.
Qed.

Lemma step_done : forall s l s', done_ok s -> step cfg s l s' -> done_ok s'.
Proof.
  intros s l s' HD HS. unfold done_ok in *.
  destruct HS as [s i w y q Hn Hst Htq | s i w q Hn Hst Htq | s i w y Hn Hst | s i w r o Hn Ho
                 | s i w c Hn Hst Hex | s r q Hpc Hdq | s Hpc Hdq | s obs Hpc | s r Hpc Hg Hok
                 | s r Hpc Hg Htol Hf | s Hpc Hg | s Hpc Hb | s Hpc Hb]; simpl; intros Hd;
    try discriminate; auto;
    rewrite (pool_empty_upd (ws s) i w _ Hn) by reflexivity; auto.
Qed.

Lemma step_inv : forall s l s', PInv s -> step cfg s l s' -> PInv s'.
Proof.
  intros s l s' [H1 H2 H3 H4 H5 H6 H7] HS. constructor.
  - intros x. rewrite (step_cnt s l s' H4 H5 HS x). apply H1.
  - eapply step_pay; eauto.
  - eapply step_tq; eauto.
  - eapply step_w; eauto.
  - eapply step_got; eauto.
  - eapply step_drain; eauto.
  - eapply step_done; eauto.
Qed.

(* ------------------------------------------------------------------------------------------------ *)
(* Initial state, reachability *)

Lemma flat_map_repeat_nil : forall A B (g : A -> list B) a n, g a = [] -> flat_map g (repeat a n) = [].
Proof. induction n; simpl; intros H; auto. rewrite H, IHn; auto. Qed.

Lemma pending_init : forall ids p, pending_ids (map Inv ids ++ repeat Stop p) = ids.
Proof.
  unfold pending_ids. induction ids as [|h t IH]; simpl; intros p.
  - apply flat_map_repeat_nil. reflexivity.
  - rewrite IH. reflexivity.
Qed.

Lemma owing_repeat_fresh : forall p, owing (repeat fresh_worker p) = p.
Proof. unfold owing. induction p; simpl; auto. Qed.

Lemma forallb_repeat : forall A (f : A -> bool) a n, f a = true -> forallb f (repeat a n) = true.
Proof. induction n; simpl; intros H; auto. rewrite H, IHn; auto. Qed.

Hypothesis wf : wf_cfg cfg = true.

Lemma init_inv : PInv (init cfg).
Proof.
  constructor.
  - intros x. unfold total, init; simpl. rewrite pending_init.
    rewrite !flat_map_repeat_nil by reflexivity. simpl. reflexivity.
  - unfold pay_ok, in_flight, outbox_results, init; simpl.
    rewrite flat_map_repeat_nil by reflexivity. constructor.
  - exists (c_ids cfg). unfold init; simpl. rewrite owing_repeat_fresh. split; auto.
    unfold wf_cfg in wf. destruct (c_ids cfg) as [|a l]; auto. right. split.
    + apply forallb_repeat. reflexivity.
    + destruct (c_pool cfg); simpl in *; discriminate.
  - unfold init; simpl. apply Forall_forall. intros w Hin. apply repeat_spec in Hin. subst w.
    repeat split; simpl; intros; discriminate.
  - unfold got_ok, init; simpl. reflexivity.
  - unfold drain_ok, init; simpl. intros H; congruence.
  - unfold done_ok, init; simpl. discriminate.
Qed.

Lemma reachable_inv : forall s, reachable cfg s -> PInv s.
Proof.
  intros s H. induction H as [|s l s' HR IH HE].
  - apply init_inv.
  - apply (step_inv s l s' IH). apply exec_step. exact HE.
Qed.

(* ------------------------------------------------------------------------------------------------ *)
(* Main results *)

Lemma conservation : forall s, reachable cfg s -> Permutation (accounted s) (c_ids cfg).
Proof.
  intros s H. apply (Permutation_count_occ Nat.eq_dec). intros x. rewrite cnt_accounted.
  apply (inv_cnt s (reachable_inv s H)).
Qed.

Lemma no_id_twice : forall s, reachable cfg s -> NoDup (c_ids cfg) -> NoDup (accounted s).
Proof.
  intros s H ND. eapply Permutation_NoDup; [|exact ND]. apply Permutation_sym, conservation; auto.
Qed.

Lemma payload : forall s, reachable cfg s ->
  Forall (fun r => snd r = c_f cfg (fst r)) (delivered s ++ in_flight s).
Proof. intros s H. apply (inv_pay s (reachable_inv s H)). Qed.

Lemma brk_safe_sound : forall b pe ar qe,
  brk_safe b = true -> eval_brk b pe ar qe = true -> pe = true /\ ar = true /\ qe = true.
Proof.
  intros b pe ar qe H E. unfold brk_safe in H. rewrite forallb_forall in H.
  specialize (H (pe, ar, qe)). simpl in H. rewrite E in H.
  assert (Hin : In (pe, ar, qe) all3) by (destruct pe, ar, qe; simpl; tauto).
  specialize (H Hin). destruct pe, ar, qe; simpl in H; try discriminate; auto.
Qed.

Lemma all_quiet : forall l,
  Forall wok l -> pool_empty l = true -> Forall (fun w => w_st w = Exited C0 /\ w_out w = []) l.
Proof.
  intros l HW HP. apply Forall_forall. intros w Hin. apply In_nth_error in Hin. destruct Hin as [i Hn].
  pose proof (pool_empty_nth _ _ _ HP Hn) as Ein.
  destruct (Forall_nth_error _ _ _ _ _ HW Hn) as (H1 & H2 & _).
  destruct (H2 Ein) as [E _]. split; auto. eapply H1; eauto.
Qed.

Lemma quiet_facts : forall l,
  Forall (fun w => w_st w = Exited C0 /\ w_out w = []) l ->
  outbox_results l = [] /\ busy_ids l = [] /\ owing l = 0 /\ (l <> [] -> forallb owes l = false).
Proof.
  unfold outbox_results, busy_ids, owing. induction l as [|h t IH]; simpl; intros H.
  - repeat split; auto. intros C; congruence.
  - inversion H as [|? ? [E1 E2] Ht]; subst. destruct (IH Ht) as (A & B & C & D).
    assert (Eo : owes h = false) by (unfold owes; rewrite E1; reflexivity).
    rewrite E2, A, B, Eo, E1. simpl. repeat split; auto.
Qed.

Lemma terminal_state : forall s,
  brk_safe (c_brk cfg) = true -> reachable cfg s -> ppc s = Done ->
  in_flight s = [] /\ busy_ids (ws s) = [] /\ pending_ids (taskq s) = [].
Proof.
  intros s HB HR Hd. destruct (reachable_inv s HR) as [H1 H2 H3 H4 H5 H6 H7].
  destruct (brk_safe_sound _ _ _ _ HB (H7 Hd)) as (Epe & Ear & Eqe).
  assert (Hne : ppc s <> AtGet) by (rewrite Hd; discriminate).
  destruct (H6 Hne Ear) as [_ HQ]. specialize (HQ Eqe).
  unfold got_ok in H5. rewrite Hd in H5.
  destruct (quiet_facts _ (all_quiet _ H4 Epe)) as (A & B & C & D).
  destruct H3 as (pend & Hq & Hp). rewrite C in Hq. simpl in Hq. rewrite app_nil_r in Hq.
  assert (pend = []) as ->.
  { destruct Hp as [Hp | [Hp1 Hp2]]; auto. rewrite (D Hp2) in Hp1. discriminate. }
  unfold in_flight. rewrite H5, HQ, A, Hq. simpl. auto.
Qed.

Lemma terminal_complete : forall s,
  brk_safe (c_brk cfg) = true -> reachable cfg s -> ppc s = Done ->
  Permutation (map fst (delivered s)) (c_ids cfg).
Proof.
  intros s HB HR Hd. pose proof (conservation s HR) as P.
  destruct (terminal_state s HB HR Hd) as (A & B & C).
  unfold accounted in P. rewrite A, B, C in P. simpl in P. rewrite app_nil_r in P. exact P.
Qed.

Lemma abort_sound : forall s i,
  reachable cfg s -> ppc s = Aborted i ->
  c_tol cfg = false /\ is_fail (c_f cfg i) = true /\
  forall x, cnt (i :: map fst (delivered s)) x <= cnt (c_ids cfg) x.
Proof.
  intros s i HR Ha. destruct (reachable_inv s HR) as [H1 H2 H3 H4 H5 H6 H7].
  unfold got_ok in H5. rewrite Ha in H5. destruct H5 as (r & Hg & Hi & Ht & Hf).
  apply pay_split in H2. destruct H2 as (_ & Pg & _). rewrite Hg in Pg. simpl in Pg.
  inversion Pg as [|? ? Hr _]; subst. rewrite Hr in Hf. repeat split; auto.
  intros x. specialize (H1 x). unfold total in H1. rewrite Hg in H1. simpl in H1. simpl.
  destruct (Nat.eq_dec (fst r) x); rlia.
Qed.

End Invariant.

(* ================================================================================================ *)
(* The boolean predicate P_C12 *)

Lemma ms_eqb_true : forall a b, (forall x, cnt a x = cnt b x) -> ms_eqb a b = true.
Proof. intros a b H. unfold ms_eqb. apply forallb_forall. intros x _. apply Nat.eqb_eq. auto. Qed.

Lemma ms_subb_true : forall a b, (forall x, cnt a x <= cnt b x) -> ms_subb a b = true.
Proof. intros a b H. unfold ms_subb. apply forallb_forall. intros x _. apply Nat.leb_le. auto. Qed.

Lemma ms_eqb_sound : forall a b, ms_eqb a b = true -> Permutation a b.
Proof.
  intros a b H. apply (Permutation_count_occ Nat.eq_dec). intros x.
  unfold ms_eqb in H. rewrite forallb_forall in H.
  destruct (in_dec Nat.eq_dec x (a ++ b)) as [Hin | Hout].
  - apply Nat.eqb_eq. auto.
  - rewrite in_app_iff in Hout.
    rewrite (proj1 (count_occ_not_In Nat.eq_dec a x)) by tauto.
    rewrite (proj1 (count_occ_not_In Nat.eq_dec b x)) by tauto. reflexivity.
Qed.

Lemma val_eqb_refl : forall v, val_eqb v v = true.
Proof. destruct v; simpl; apply Nat.eqb_refl. Qed.

Lemma val_eqb_eq : forall a b, val_eqb a b = true -> a = b.
Proof. destruct a, b; simpl; intros H; try discriminate; apply Nat.eqb_eq in H; congruence. Qed.

Lemma payload_ok_true : forall f d, Forall (fun r : nat * val => snd r = f (fst r)) d -> payload_ok f d = true.
Proof.
  intros f d H. unfold payload_ok. apply forallb_forall. intros r Hin.
  rewrite Forall_forall in H. rewrite (H r Hin). apply val_eqb_refl.
Qed.

(* P_C12 on a completed call means: the delivered list is a permutation of the reference *)
Lemma P_C12_completed_spec : forall x d,
  P_C12 x (Completed d) = true -> Permutation d (spec_C12 x).
Proof.
  intros x d H. simpl in H. apply andb_true_iff in H. destruct H as [H1 H2].
  apply ms_eqb_sound in H1. unfold spec_C12.
  assert (E : d = map (fun i => (i, in_f x i)) (map fst d)).
  { unfold payload_ok in H2. rewrite forallb_forall in H2. clear H1.
    induction d as [|[i v] t IH]; simpl; auto. f_equal.
    - f_equal. apply val_eqb_eq. apply (H2 (i, v)). left; auto.
    - apply IH. intros r Hr. apply H2. right; auto. }
  rewrite E at 1. apply Permutation_map. exact H1.
Qed.

Lemma pool_holds : forall cfg,
  (forall out, c_exit cfg out = true -> out = []) -> wf_cfg cfg = true -> brk_safe (c_brk cfg) = true ->
  forall s o, reachable cfg s -> outcome_of_state s = Some o ->
  P_C12 (c_ids cfg, c_tol cfg, c_f cfg) o = true.
Proof.
  intros cfg HL HW HB s o HR Ho. unfold outcome_of_state in Ho.
  pose proof (payload cfg HL HW s HR) as HP. apply Forall_app in HP. destruct HP as [HP _].
  destruct (ppc s) eqn:Epc; try discriminate; injection Ho as Ho; subst o; simpl;
    unfold in_ids, in_tol, in_f; simpl.
  - apply andb_true_iff; split.
    + apply ms_eqb_true. apply (Permutation_count_occ Nat.eq_dec).
      apply (terminal_complete cfg HL HW s HB HR Epc).
    + apply payload_ok_true; auto.
  - destruct (abort_sound cfg HL HW s i HR Epc) as (A & B & C).
    rewrite A, B. simpl. apply andb_true_iff; split.
    + apply ms_subb_true. exact C.
    + apply payload_ok_true; auto.
Qed.

(* "single process way" *)
Lemma seq_run_spec : forall tol f ids,
  match seq_run tol f ids with
  | Completed d => d = map (fun i => (i, f i)) ids
  | Raised j d => tol = false /\ is_fail (f j) = true /\
                  exists rest, ids = map fst d ++ j :: rest /\ d = map (fun i => (i, f i)) (map fst d)
  | Other _ => False
  end.
Proof.
  intros tol f. induction ids as [|i t IH]; simpl; auto.
  destruct (negb tol && is_fail (f i)) eqn:E.
  - apply andb_true_iff in E. destruct E as [E1 E2]. destruct tol; try discriminate.
    repeat split; auto. exists t. auto.
  - destruct (seq_run tol f t) as [d | j d | d]; simpl; auto.
    + congruence.
    + destruct IH as (A & B & rest & C & D). repeat split; auto. exists rest. simpl. split; congruence.
Qed.

Lemma map_fst_spec : forall (f : nat -> val) ids, map fst (map (fun i => (i, f i)) ids) = ids.
Proof. intros. rewrite map_map. simpl. apply map_id. Qed.

Lemma seq_holds : forall tol f ids, P_C12 (ids, tol, f) (seq_run tol f ids) = true.
Proof.
  intros tol f ids. pose proof (seq_run_spec tol f ids) as H.
  destruct (seq_run tol f ids) as [d | j d | d]; simpl; unfold in_ids, in_tol, in_f; simpl.
  - subst d. rewrite map_fst_spec. apply andb_true_iff; split.
    + apply ms_eqb_true; auto.
    + apply payload_ok_true. apply Forall_forall. intros r Hr. apply in_map_iff in Hr.
      destruct Hr as (i & <- & _). reflexivity.
  - destruct H as (A & B & rest & C & D). rewrite A, B. simpl. apply andb_true_iff; split.
    + apply ms_subb_true. intros x. rewrite C. rewrite cnt_app. simpl.
      destruct (Nat.eq_dec j x); lia.
    + apply payload_ok_true. rewrite D. apply Forall_forall. intros r Hr. apply in_map_iff in Hr.
      destruct Hr as (i & <- & _). reflexivity.
  - contradiction.
Qed.

(* ================================================================================================ *)
(* Concrete schedules *)

Lemma run_reachable : forall cfg ls s s', reachable cfg s -> run cfg s ls = Some s' -> reachable cfg s'.
Proof.
  intros cfg. induction ls as [|l t IH]; simpl; intros s s' HR H.
  - injection H as H; subst; auto.
  - destruct (exec cfg s l) as [s1|] eqn:E; try discriminate.
    eapply IH; [|exact H]. eapply R_step; eauto.
Qed.

Definition ex_cfg (ids : list nat) (p m : nat) (raising : list nat) (brk : bexpr)
           (ex : list result -> bool) : config :=
  Cfg ids p m true (std_f raising) brk ex.

(* the loop as written: two ids, two workers, both finish and exit before the parent's first get *)
Definition sched_lost : list label :=
  [LTake 0 0; LTake 1 1; LFinish 0 0; LFinish 1 1; LFlush 0; LFlush 1; LStop 0; LStop 1; LExit 0; LExit 1;
   LGet 0; LReap [(0, C0); (1, C0)]; LDeliver 0; LBreak].

(* the schedule of the real-code reproduction (DESIGN 7, F1): 8 ids, 3 workers, the consumer is slow
   with the first result; the second get is followed by a reaping that empties the pool *)
Definition sched_f1 : list label :=
  [LTake 0 0; LTake 1 1; LTake 2 2; LFinish 0 0; LFlush 0;
   LGet 0; LReap []; LDeliver 0;
   LFinish 1 1; LFlush 1; LFinish 2 2; LFlush 2; LTake 0 3; LTake 1 4; LTake 2 5;
   LFinish 0 3; LFlush 0; LFinish 1 4; LFlush 1; LFinish 2 5; LFlush 2; LTake 0 6; LTake 1 7;
   LStop 2; LExit 2; LFinish 0 6; LFlush 0; LFinish 1 7; LFlush 1; LStop 0; LStop 1; LExit 0; LExit 1;
   LLoop; LGet 1; LReap [(0, C0); (1, C0); (2, C0)]; LDeliver 1; LBreak].

(* `if not pool and queue_empty: break`: the get times out, then both workers put and exit before
   the reaping *)
Definition sched_naive : list label :=
  [LGetEmpty; LTake 0 0; LTake 1 1; LFinish 0 0; LFinish 1 1; LFlush 0; LFlush 1; LStop 0; LStop 1;
   LExit 0; LExit 1; LReap [(0, C0); (1, C0)]; LNoDeliver; LBreak].

(* repaired loop, but exit codes may overtake the feeder thread *)
Definition sched_lawless : list label :=
  [LTake 0 0; LTake 1 1; LFinish 0 0; LFinish 1 1; LStop 0; LStop 1; LExit 0; LExit 1;
   LGetEmpty; LReap [(0, C0); (1, C0)]; LNoDeliver; LLoop; LGetEmpty; LReap []; LNoDeliver; LBreak].

(* repaired loop: three ids, two workers, max_tasks = 1 (every task retires its worker), id 1 fails *)
Definition sched_ok : list label :=
  [LTake 0 0; LTake 1 1; LFinish 0 0; LFlush 0; LExit 0; LFinish 1 1; LFlush 1; LExit 1;
   LGet 0; LReap [(0, C9); (1, C9)]; LDeliver 0; LLoop;
   LTake 0 2; LFinish 0 2; LFlush 0; LExit 0; LStop 1; LExit 1;
   LGet 1; LReap [(0, C9); (1, C0)]; LDeliver 1; LLoop;
   LStop 0; LExit 0;
   LGet 2; LReap [(0, C0)]; LDeliver 2; LLoop;
   LGetEmpty; LReap []; LNoDeliver; LBreak].

Definition final_of (cfg : config) (ls : list label) : option (pc * list result * list result) :=
  match run cfg (init cfg) ls with
  | Some s => Some (ppc s, delivered s, in_flight s)
  | None => None
  end.

Lemma sched_lost_final :
  final_of (ex_cfg [0; 1] 2 25 [] brk_as_written lawful_exit) sched_lost
  = Some (Done, [(0, VOk 3)], [(1, VOk 10)]).
Proof. vm_compute. reflexivity. Qed.

Lemma sched_f1_final :
  final_of (ex_cfg (seq 0 8) 3 25 [] brk_as_written lawful_exit) sched_f1
  = Some (Done, [(0, VOk 3); (1, VOk 10)],
          [(2, VOk 17); (3, VOk 24); (4, VOk 31); (5, VOk 38); (6, VOk 45); (7, VOk 52)]).
Proof. vm_compute. reflexivity. Qed.

Lemma sched_naive_final :
  final_of (ex_cfg [0; 1] 2 25 [] brk_naive lawful_exit) sched_naive
  = Some (Done, [], [(0, VOk 3); (1, VOk 10)]).
Proof. vm_compute. reflexivity. Qed.

Lemma sched_lawless_final :
  final_of (ex_cfg [0; 1] 2 25 [] brk_fixed (fun _ => true)) sched_lawless
  = Some (Done, [], [(0, VOk 3); (1, VOk 10)]).
Proof. vm_compute. reflexivity. Qed.

Lemma sched_ok_final :
  final_of (ex_cfg [0; 1; 2] 2 1 [1] brk_fixed lawful_exit) sched_ok
  = Some (Done, [(0, VOk 3); (1, VFail 18); (2, VOk 17)], []).
Proof. vm_compute. reflexivity. Qed.

(* none of the repaired-loop guarantees is available for these loops: the schedules end in Done *)
Lemma refuted_by : forall cfg ls d fl,
  final_of cfg ls = Some (Done, d, fl) ->
  exists s, reachable cfg s /\ ppc s = Done /\ delivered s = d /\ in_flight s = fl.
Proof.
  intros cfg ls d fl H. unfold final_of in H.
  destruct (run cfg (init cfg) ls) as [s|] eqn:E; try discriminate.
  injection H as H1 H2 H3. exists s. repeat split; auto.
  eapply run_reachable; [apply R_init | exact E].
Qed.
