(* C12: invariants of the pool transition system (Model/Pool.v). *)
From Coq Require Import List Bool Arith Lia Permutation.
From Annet Require Import Model.Pool Spec.P_C12.
Import ListNotations.

(* ================================================================================================ *)
(* Relational view of [exec]: one constructor per kind of step, premises named. *)

Definition wset (w : worker) (st : wst) (k : nat) (o : list result) : worker := W st k o (w_in w) (w_ret w).

Inductive step (cfg : config) : state -> label -> state -> Prop :=
| S_take : forall s i w x q,
    nth_error (ws s) i = Some w -> w_st w = Idle -> taskq s = Inv x :: q ->
    step cfg s (LTake i x) (set_w s i (wset w (Busy x) (w_k w) (w_out w)) q (doneq s))
| S_stop : forall s i w q,
    nth_error (ws s) i = Some w -> w_st w = Idle -> taskq s = Stop :: q ->
    step cfg s (LStop i) (set_w s i (wset w (Dying C0) (w_k w) (w_out w)) q (doneq s))
| S_finish : forall s i w x,
    nth_error (ws s) i = Some w -> w_st w = Busy x ->
    step cfg s (LFinish i x)
         (set_w s i (wset w (if retire_now (c_max cfg) (S (w_k w)) then Dying C9 else Idle) (S (w_k w))
                          (w_out w ++ [(x, c_f cfg x)])) (taskq s) (doneq s))
| S_flush : forall s i w r o,
    nth_error (ws s) i = Some w -> w_out w = r :: o ->
    step cfg s (LFlush i) (set_w s i (wset w (w_st w) (w_k w) o) (taskq s) (doneq s ++ [r]))
| S_exit : forall s i w c,
    nth_error (ws s) i = Some w -> w_st w = Dying c -> c_exit cfg (w_out w) = true ->
    step cfg s (LExit i) (set_w s i (wset w (Exited c) (w_k w) (w_out w)) (taskq s) (doneq s))
| S_get : forall s r q,
    ppc s = AtGet -> doneq s = r :: q ->
    step cfg s (LGet (fst r)) (set_p s q (ws s) AtReap (pool_empty (ws s)) false (Some r) (delivered s))
| S_get_empty : forall s,
    ppc s = AtGet -> doneq s = [] ->
    step cfg s LGetEmpty (set_p s [] (ws s) AtReap (pool_empty (ws s)) true None (delivered s))
| S_reap : forall s obs,
    ppc s = AtReap ->
    step cfg s (LReap obs)
         (set_p s (doneq s) (map reap_w (ws s)) AtDeliver (all_reaped s) (qempty s) (got s) (delivered s))
| S_deliver : forall s r,
    ppc s = AtDeliver -> got s = Some r -> c_tol cfg || negb (is_fail (snd r)) = true ->
    step cfg s (LDeliver (fst r))
         (set_p s (doneq s) (ws s) AtBreak (all_reaped s) (qempty s) None (delivered s ++ [r]))
| S_abort : forall s r,
    ppc s = AtDeliver -> got s = Some r -> c_tol cfg = false -> is_fail (snd r) = true ->
    step cfg s (LAbort (fst r))
         (set_p s (doneq s) (ws s) (Aborted (fst r)) (all_reaped s) (qempty s) (got s) (delivered s))
| S_nodeliver : forall s,
    ppc s = AtDeliver -> got s = None ->
    step cfg s LNoDeliver (set_p s (doneq s) (ws s) AtBreak (all_reaped s) (qempty s) None (delivered s))
| S_break : forall s,
    ppc s = AtBreak -> eval_brk (c_brk cfg) (pool_empty (ws s)) (all_reaped s) (qempty s) = true ->
    step cfg s LBreak (set_p s (doneq s) (ws s) Done (all_reaped s) (qempty s) (got s) (delivered s))
| S_loop : forall s,
    ppc s = AtBreak -> eval_brk (c_brk cfg) (pool_empty (ws s)) (all_reaped s) (qempty s) = false ->
    step cfg s LLoop
         (set_p s (doneq s) (map restart_w (ws s)) AtGet (all_reaped s) (qempty s) (got s) (delivered s)).

Ltac exec_inv H :=
  repeat match type of H with
         | context [match ?x with _ => _ end] => destruct x eqn:?; try discriminate H
         end.

Lemma exec_step : forall cfg s l s', exec cfg s l = Some s' -> step cfg s l s'.
Proof.
  intros cfg s l s' H. unfold exec, exec_worker in H.
  destruct l; exec_inv H; injection H as H; subst s';
    repeat match goal with
           | E : Nat.eqb _ _ = true |- _ => apply Nat.eqb_eq in E; subst
           | E : _ && _ = true |- _ => apply andb_true_iff in E; destruct E
           end.
  all: try match goal with
           | A : nth_error (ws ?s0) ?i0 = Some ?w0, B : w_st ?w0 = Busy ?x0, C : retire_now _ _ = _ |- _ =>
             let X := fresh "X" in pose proof (S_finish cfg s0 i0 w0 x0 A B) as X; rewrite C in X; exact X
           end.
  all: try solve [econstructor; eauto].
  match goal with E : got _ = Some _ |- _ => rewrite <- E end.
  eapply S_abort; eauto.
  all: destruct (c_tol cfg); try discriminate; auto.
Qed.

(* ================================================================================================ *)
(* Lists *)

Notation cnt := (count_occ Nat.eq_dec).

Lemma cnt_app : forall (a b : list nat) x, cnt (a ++ b) x = cnt a x + cnt b x.
Proof. intros. apply count_occ_app. Qed.

Lemma upd_length : forall A (l : list A) i x, List.length (upd l i x) = List.length l.
Proof. induction l as [|h t IH]; destruct i; simpl; intros; auto. Qed.

Lemma upd_nil_iff : forall A (l : list A) i x, upd l i x = [] <-> l = [].
Proof. destruct l; destruct i; simpl; split; intros; auto; discriminate. Qed.

Lemma cnt_flat_upd : forall A (g : A -> list nat) (l : list A) i w w' x,
  nth_error l i = Some w ->
  cnt (flat_map g (upd l i w')) x + cnt (g w) x = cnt (flat_map g l) x + cnt (g w') x.
Proof.
  induction l as [|h t IH]; destruct i; simpl; intros w w' x H; try discriminate.
  - injection H as H; subst h. rewrite !cnt_app. lia.
  - rewrite !cnt_app. specialize (IH _ _ w' x H). lia.
Qed.

Lemma Forall_upd : forall A (P : A -> Prop) (l : list A) i x,
  Forall P l -> P x -> Forall P (upd l i x).
Proof.
  induction l as [|h t IH]; destruct i; simpl; intros x HF HP; auto.
  - inversion HF; subst; constructor; auto.
  - inversion HF; subst; constructor; auto.
Qed.

Lemma Forall_nth_error : forall A (P : A -> Prop) (l : list A) i x,
  Forall P l -> nth_error l i = Some x -> P x.
Proof. intros A P l i x HF HN. rewrite Forall_forall in HF. eapply HF, nth_error_In; eauto. Qed.

Lemma Forall_flat_upd : forall A B (P : B -> Prop) (g : A -> list B) (l : list A) i x,
  Forall P (flat_map g l) -> Forall P (g x) -> Forall P (flat_map g (upd l i x)).
Proof.
  intros A B P g l i x H1 H2. rewrite Forall_flat_map in *. apply Forall_upd; auto.
Qed.

Lemma Forall_flat_nth : forall A B (P : B -> Prop) (g : A -> list B) (l : list A) i x,
  Forall P (flat_map g l) -> nth_error l i = Some x -> Forall P (g x).
Proof.
  intros A B P g l i x H1 H2. rewrite Forall_flat_map in H1.
  exact (Forall_nth_error _ _ _ _ _ H1 H2).
Qed.

Lemma flat_map_map_Forall : forall A B (g : A -> list B) (f : A -> A) (l : list A),
  Forall (fun w => g (f w) = g w) l -> flat_map g (map f l) = flat_map g l.
Proof.
  induction l as [|h t IH]; simpl; intros H; auto.
  inversion H; subst. rewrite IH by assumption. congruence.
Qed.

Lemma map_fst_flat : forall (l : list worker),
  map fst (flat_map w_out l) = flat_map (fun w => map fst (w_out w)) l.
Proof. induction l as [|h t IH]; simpl; auto. rewrite map_app. f_equal. exact IH. Qed.

Lemma forallb_upd : forall A (p : A -> bool) (l : list A) i x,
  forallb p l = true -> p x = true -> forallb p (upd l i x) = true.
Proof.
  induction l as [|h t IH]; destruct i; simpl; intros x H1 H2; auto;
    apply andb_true_iff in H1; destruct H1 as [Ha Hb]; apply andb_true_iff; split; auto.
Qed.

Lemma forallb_nth_error : forall A (p : A -> bool) (l : list A) i x,
  forallb p l = true -> nth_error l i = Some x -> p x = true.
Proof. intros A p l i x H1 H2. rewrite forallb_forall in H1. eapply H1, nth_error_In; eauto. Qed.

Lemma forallb_upd_same : forall A (p : A -> bool) (l : list A) i w w',
  nth_error l i = Some w -> p w' = p w -> forallb p (upd l i w') = forallb p l.
Proof.
  induction l as [|h t IH]; destruct i; simpl; intros w w' H1 H2; try discriminate.
  - injection H1 as H1; subst h. rewrite H2. reflexivity.
  - rewrite (IH _ _ _ H1 H2). reflexivity.
Qed.

Lemma forallb_map_same : forall A (p : A -> bool) (f : A -> A) (l : list A),
  (forall w, p (f w) = p w) -> forallb p (map f l) = forallb p l.
Proof. induction l as [|h t IH]; simpl; intros H; auto. rewrite H, IH; auto. Qed.

(* ================================================================================================ *)
(* Stop-token accounting *)

Definition owes (w : worker) : bool :=
  match w_st w with Dying C0 | Exited C0 => false | _ => true end.
Definition owing (l : list worker) : nat := List.length (filter owes l).

Lemma owing_upd : forall l i w w',
  nth_error l i = Some w ->
  owing (upd l i w') + (if owes w then 1 else 0) = owing l + (if owes w' then 1 else 0).
Proof.
  unfold owing. induction l as [|h t IH]; destruct i; simpl; intros w w' H; try discriminate.
  - injection H as H; subst h. destruct (owes w), (owes w'); simpl; lia.
  - specialize (IH _ _ w' H). destruct (owes h); simpl; lia.
Qed.

Lemma owing_map : forall (f : worker -> worker) l,
  Forall (fun w => owes (f w) = owes w) l -> owing (map f l) = owing l.
Proof.
  unfold owing. induction l as [|h t IH]; simpl; intros H; auto.
  inversion H as [|? ? Hh Ht]; subst. rewrite Hh. destruct (owes h); simpl; rewrite IH; auto.
Qed.

Lemma owing_zero : forall l, Forall (fun w => owes w = false) l -> owing l = 0.
Proof.
  unfold owing. induction l as [|h t IH]; simpl; intros H; auto.
  inversion H as [|? ? Hh Ht]; subst. rewrite Hh. auto.
Qed.

Lemma tq_head_inv : forall pend k x q,
  map Inv pend ++ repeat Stop k = Inv x :: q ->
  exists pend', pend = x :: pend' /\ q = map Inv pend' ++ repeat Stop k.
Proof.
  intros [|p pend] k x q H; simpl in H.
  - destruct k; simpl in H; discriminate.
  - injection H as H1 H2. subst. eauto.
Qed.

Lemma tq_head_stop : forall pend k q,
  map Inv pend ++ repeat Stop k = Stop :: q ->
  pend = [] /\ exists k', k = S k' /\ q = repeat Stop k'.
Proof.
  intros [|p pend] k q H; simpl in H.
  - split; auto. destruct k; simpl in H; [discriminate|]. injection H as H. eauto.
  - discriminate.
Qed.

(* ================================================================================================ *)
(* The invariant *)

Definition busy1 (w : worker) : list nat := match w_st w with Busy i => [i] | _ => [] end.
Definition outids (w : worker) : list nat := map fst (w_out w).

Definition total (x : nat) (s : state) : nat :=
  cnt (map fst (delivered s)) x + cnt (map fst (got_list (got s))) x + cnt (map fst (doneq s)) x
  + cnt (flat_map outids (ws s)) x + cnt (flat_map busy1 (ws s)) x + cnt (pending_ids (taskq s)) x.

Lemma cnt_accounted : forall s x, cnt (accounted s) x = total x s.
Proof.
  intros. unfold accounted, in_flight, total, outbox_results, busy_ids.
  repeat (rewrite ?map_app, ?cnt_app). rewrite map_fst_flat. unfold outids, busy1.
  rewrite !Nat.add_assoc. reflexivity.
Qed.

Lemma total_set_w : forall s i w w' tq dq x,
  nth_error (ws s) i = Some w ->
  total x (set_w s i w' tq dq) + cnt (outids w) x + cnt (busy1 w) x
    + cnt (map fst (doneq s)) x + cnt (pending_ids (taskq s)) x
  = total x s + cnt (outids w') x + cnt (busy1 w') x + cnt (map fst dq) x + cnt (pending_ids tq) x.
Proof.
  intros s i w w' tq dq x H. unfold total, set_w; simpl.
  pose proof (cnt_flat_upd _ outids _ _ _ w' x H).
  pose proof (cnt_flat_upd _ busy1 _ _ _ w' x H). lia.
Qed.

(* local facts about a pool slot *)
Definition wok (w : worker) : Prop :=
  (forall c, w_st w = Exited c -> w_out w = []) /\
  (w_in w = false -> w_st w = Exited C0 /\ w_ret w = false) /\
  (w_ret w = true -> w_st w = Exited C9).

Lemma reap_w_st : forall w, w_st (reap_w w) = w_st w.
Proof. intros w. unfold reap_w. destruct (w_in w); auto. destruct (w_st w) as [| | |[|]] eqn:E; simpl; auto. Qed.
Lemma reap_w_out : forall w, w_out (reap_w w) = w_out w.
Proof. intros w. unfold reap_w. destruct (w_in w); auto. destruct (w_st w) as [| | |[|]] eqn:E; simpl; auto. Qed.

Lemma restart_w_outids : forall w, wok w -> outids (restart_w w) = outids w.
Proof.
  intros w (H1 & _ & H3). unfold restart_w. destruct (w_ret w) eqn:E; auto.
  unfold outids. rewrite (H1 C9 (H3 eq_refl)). reflexivity.
Qed.
Lemma restart_w_busy1 : forall w, wok w -> busy1 (restart_w w) = busy1 w.
Proof.
  intros w (_ & _ & H3). unfold restart_w. destruct (w_ret w) eqn:E; auto.
  unfold busy1. rewrite (H3 eq_refl). reflexivity.
Qed.
Lemma restart_w_outres : forall w, wok w -> w_out (restart_w w) = w_out w.
Proof.
  intros w (H1 & _ & H3). unfold restart_w. destruct (w_ret w) eqn:E; auto.
  rewrite (H1 C9 (H3 eq_refl)). reflexivity.
Qed.

Section Invariant.
Variable cfg : config.
Hypothesis put_before_exit : forall out, c_exit cfg out = true -> out = [].

Definition got_ok (s : state) : Prop :=
  match ppc s with
  | AtGet | AtBreak | Done => got s = None
  | AtReap | AtDeliver => True
  | Aborted i => exists r, got s = Some r /\ fst r = i /\ c_tol cfg = false /\ is_fail (snd r) = true
  end.

Definition tq_ok (s : state) : Prop :=
  exists pend, taskq s = map Inv pend ++ repeat Stop (owing (ws s)) /\
               (pend = [] \/ (forallb owes (ws s) = true /\ ws s <> [])).

Definition drain_ok (s : state) : Prop :=
  ppc s <> AtGet -> all_reaped s = true ->
  pool_empty (ws s) = true /\ (qempty s = true -> doneq s = []).

Definition done_ok (s : state) : Prop :=
  ppc s = Done -> eval_brk (c_brk cfg) (pool_empty (ws s)) (all_reaped s) (qempty s) = true.

Definition pay_ok (s : state) : Prop :=
  Forall (fun r => snd r = c_f cfg (fst r)) (delivered s ++ in_flight s).

Record PInv (s : state) : Prop := {
  inv_cnt : forall x, total x s = cnt (c_ids cfg) x;
  inv_pay : pay_ok s;
  inv_tq : tq_ok s;
  inv_w : Forall wok (ws s);
  inv_got : got_ok s;
  inv_drain : drain_ok s;
  inv_done : done_ok s
}.

(* ------------------------------------------------------------------------------------------------ *)

Lemma step_cnt : forall s l s',
  Forall wok (ws s) -> got_ok s -> step cfg s l s' -> forall x, total x s' = total x s.
Proof.
  intros s l s' HW HG HS x. unfold got_ok in HG.
  destruct HS as [s i w y q Hn Hst Htq | s i w q Hn Hst Htq | s i w y Hn Hst | s i w r o Hn Ho
                 | s i w c Hn Hst Hex | s r q Hpc Hdq | s Hpc Hdq | s obs Hpc | s r Hpc Hg Hok
                 | s r Hpc Hg Htol Hf | s Hpc Hg | s Hpc Hb | s Hpc Hb].
  - pose proof (total_set_w s i w (wset w (Busy y) (w_k w) (w_out w)) q (doneq s) x Hn) as T.
    unfold outids, busy1, wset in *; simpl in T. rewrite Hst, Htq in T. simpl in T.
    destruct (Nat.eq_dec y x); lia.
  - pose proof (total_set_w s i w (wset w (Dying C0) (w_k w) (w_out w)) q (doneq s) x Hn) as T.
    unfold outids, busy1, wset in *; simpl in T. rewrite Hst, Htq in T. simpl in T. lia.
  - match goal with |- total x (set_w s i ?w' ?tq ?dq) = _ =>
                    pose proof (total_set_w s i w w' tq dq x Hn) as T end.
    unfold outids, busy1, wset in *; simpl in T. rewrite Hst in T.
    rewrite map_app, cnt_app in T. simpl in T.
    destruct (retire_now (c_max cfg) (S (w_k w))); simpl in T; destruct (Nat.eq_dec y x); lia.
  - match goal with |- total x (set_w s i ?w' ?tq ?dq) = _ =>
                    pose proof (total_set_w s i w w' tq dq x Hn) as T end.
    unfold outids, busy1, wset in *; simpl in T. rewrite Ho in T.
    rewrite map_app, cnt_app in T. simpl in T. destruct (Nat.eq_dec (fst r) x); lia.
  - match goal with |- total x (set_w s i ?w' ?tq ?dq) = _ =>
                    pose proof (total_set_w s i w w' tq dq x Hn) as T end.
    unfold outids, busy1, wset in *; simpl in T. rewrite Hst in T. lia.
  - rewrite Hpc in HG. unfold total, set_p; simpl. rewrite HG, Hdq. simpl.
    destruct (Nat.eq_dec (fst r) x); lia.
  - rewrite Hpc in HG. unfold total, set_p; simpl. rewrite HG, Hdq. simpl. lia.
  - unfold total, set_p; simpl.
    rewrite (flat_map_map_Forall _ _ outids reap_w), (flat_map_map_Forall _ _ busy1 reap_w); auto.
    + apply Forall_forall; intros w _. unfold busy1. rewrite reap_w_st. reflexivity.
    + apply Forall_forall; intros w _. unfold outids. rewrite reap_w_out. reflexivity.
  - unfold total, set_p; simpl. rewrite Hg. rewrite map_app, cnt_app. simpl.
    destruct (Nat.eq_dec (fst r) x); lia.
  - reflexivity.
  - unfold total, set_p; simpl. rewrite Hg. reflexivity.
  - reflexivity.
  - unfold total, set_p; simpl.
    rewrite (flat_map_map_Forall _ _ outids restart_w), (flat_map_map_Forall _ _ busy1 restart_w); auto.
    + eapply Forall_impl; [|exact HW]. intros w Hw. apply restart_w_busy1; auto.
    + eapply Forall_impl; [|exact HW]. intros w Hw. apply restart_w_outids; auto.
Qed.
