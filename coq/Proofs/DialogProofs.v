(* C09: dialog / ignore messages of a deploy rule (Model/Dialog.v). *)
From Coq Require Import List String Ascii Bool Arith NArith Lia.
From Annet Require Import Base.Str Model.Pattern Model.PatternX Model.Deploy Model.Dialog
     Spec.P_C07 Proofs.PatternProofs Proofs.PatternXProofs.
Import ListNotations.
Open Scope string_scope.
Open Scope list_scope.

(* ------------------------------------------------------------------------------------ *)
(* text helpers *)

Lemma lprefix_spec p : forall s, lprefix p s = true <-> exists v, s = p ++ v.
Proof.
  induction p as [|a p IH]; intros s; cbn [lprefix].
  - split; [intros _; exists s; reflexivity|reflexivity].
  - destruct s as [|b s].
    + split; [discriminate|]. intros [v E]. discriminate.
    + rewrite andb_true_iff, IH. split.
      * intros [Hab [v ->]]. apply Ascii.eqb_eq in Hab. subst. exists v. reflexivity.
      * intros [v E]. cbn in E. injection E as -> ->. split; [apply Ascii.eqb_refl|exists v; reflexivity].
Qed.

Lemma lcontains_spec p : forall s, lcontains p s = true <-> exists u v, s = u ++ p ++ v.
Proof.
  induction s as [|c s IH]; cbn [lcontains].
  - rewrite lprefix_spec. split.
    + intros [v E]. exists [], v. exact E.
    + intros [u [v E]]. destruct u as [|x u]; [exists v; exact E|discriminate].
  - rewrite orb_true_iff, lprefix_spec, IH. split.
    + intros [[v E]|[u [v E]]].
      * exists [], v. exact E.
      * exists (c :: u), v. rewrite E. reflexivity.
    + intros [u [v E]]. destruct u as [|x u].
      * left. exists v. exact E.
      * right. cbn in E. injection E as _ E. exists u, v. exact E.
Qed.

Lemma simplify_app a b : simplify_l (a ++ b) = simplify_l a ++ simplify_l b.
Proof. unfold simplify_l. rewrite filter_app, map_app. reflexivity. Qed.

Lemma filter_rev {A} (f : A -> bool) (l : list A) : filter f (rev l) = rev (filter f l).
Proof.
  induction l as [|x l IH]; [reflexivity|]. cbn. rewrite filter_app, IH. cbn.
  destruct (f x); [reflexivity|]. rewrite app_nil_r. reflexivity.
Qed.

Lemma simplify_rev s : simplify_l (rev s) = rev (simplify_l s).
Proof. unfold simplify_l. rewrite filter_rev, map_rev. reflexivity. Qed.

Lemma simplify_lstrip s : simplify_l (lstrip_l s) = simplify_l s.
Proof.
  induction s as [|c s IH]; [reflexivity|]. cbn [lstrip_l]. destruct (py_ws c) eqn:E; [|reflexivity].
  rewrite IH. unfold simplify_l. cbn [filter]. rewrite E. reflexivity.
Qed.

(* stripping a text does not change its simplified form *)
Lemma simplify_strip s : simplify_l (strip_l s) = simplify_l s.
Proof.
  unfold strip_l. rewrite simplify_rev, simplify_lstrip, simplify_rev, rev_involutive. apply simplify_lstrip.
Qed.

(* ------------------------------------------------------------------------------------ *)
(* a message that is not written as /re/ *)

Definition plain_msg (text : string) : bool := negb (is_slashed (strip_l (l_of text))).

(* it accepts exactly the contents that hold the text once whitespace and letter case are ignored *)
Theorem plain_msg_spec text content :
  plain_msg text = true ->
  (msg_matches text content = Some true <->
   exists u v, simplify_l (l_of content) = u ++ simplify_l (l_of text) ++ v).
Proof.
  unfold plain_msg, msg_matches, mk_matcher. intro H. apply negb_true_iff in H. rewrite H.
  cbn [matcher_run]. rewrite simplify_strip. split.
  - intro E. injection E as E. apply lcontains_spec. exact E.
  - intro E. apply lcontains_spec in E. rewrite E. reflexivity.
Qed.

Theorem plain_msg_total text content :
  plain_msg text = true -> msg_matches text content <> None.
Proof.
  unfold plain_msg, msg_matches, mk_matcher. intro H. apply negb_true_iff in H. rewrite H. discriminate.
Qed.

(* in particular the prompt itself, surrounded by anything, however it is spaced and cased *)
Corollary plain_msg_self text pre post content :
  plain_msg text = true ->
  simplify_l (l_of content) = simplify_l (pre ++ l_of text ++ post) ->
  msg_matches text content = Some true.
Proof.
  intros H E. apply (plain_msg_spec text content H).
  exists (simplify_l pre), (simplify_l post). rewrite E, !simplify_app. reflexivity.
Qed.

(* only the simplified content matters *)
Corollary plain_msg_ws_case text c1 c2 :
  plain_msg text = true -> simplify_l (l_of c1) = simplify_l (l_of c2) ->
  msg_matches text c1 = msg_matches text c2.
Proof.
  unfold plain_msg, msg_matches, mk_matcher. intros H E. apply negb_true_iff in H. rewrite H.
  cbn [matcher_run]. rewrite E. reflexivity.
Qed.

(* ------------------------------------------------------------------------------------ *)
(* a message written as /re/ inside the modelled language: a prefix of the content is in the
   language of the expression, letter case ignored (re.I, regexp.match) *)

Theorem re_msg_spec text src r content :
  mk_matcher text = MRe src (Some r) ->
  (msg_matches text content = Some true <->
   exists u v, l_of content = u ++ v /\ sre_lang true r u).
Proof.
  unfold msg_matches. intros ->. cbn [matcher_run]. rewrite <- sre_run_pre_lang. split.
  - intro E. injection E as E. exact E.
  - intros ->. reflexivity.
Qed.

(* ------------------------------------------------------------------------------------ *)
(* RulebookQuestionHandler: the answer of the FIRST dialog whose question accepts the content *)

Definition q_hits (content : string) (d : dialog) : bool :=
  match msg_matches (dg_question d) (strip content) with Some true => true | _ => false end.

Definition dialogs_modelled (ds : list dialog) : bool := forallb (fun d => msg_modelled (dg_question d)) ds.

Lemma modelled_total text content : msg_modelled text = true -> msg_matches text content <> None.
Proof.
  unfold msg_modelled, msg_matches. destruct (mk_matcher text) as [p|src [r|]]; cbn; try discriminate.
Qed.

Theorem answer_for_first ds content :
  dialogs_modelled ds = true ->
  answer_for ds content = Some (option_map dg_answer (find (q_hits content) ds)).
Proof.
  unfold dialogs_modelled. induction ds as [|d ds IH]; cbn [forallb answer_for find]; intro H; [reflexivity|].
  apply andb_true_iff in H as [Hd Hr]. unfold q_hits at 1.
  pose proof (modelled_total _ (strip content) Hd) as Ht.
  destruct (msg_matches (dg_question d) (strip content)) as [[|]|]; [reflexivity|apply IH; exact Hr|contradiction].
Qed.

(* no dialog accepts the content: "no answer in rulebook" *)
Corollary answer_for_none ds content :
  dialogs_modelled ds = true ->
  (answer_for ds content = Some None <-> forall d, In d ds -> q_hits content d = false).
Proof.
  intro H. rewrite (answer_for_first ds content H). split.
  - intros E d Hd. destruct (find (q_hits content) ds) as [x|] eqn:Ef; [discriminate|].
    apply (find_none _ _ Ef d Hd).
  - intro Hall. destruct (find (q_hits content) ds) as [x|] eqn:Ef; [|reflexivity].
    apply find_some in Ef as [Hin Hx]. rewrite (Hall x Hin) in Hx. discriminate.
Qed.

(* ------------------------------------------------------------------------------------ *)
(* the Question handed to the deploy driver (deploy.rb_question_to_question) is marked as a
   regular expression exactly when annet's own matcher reads the text as /re/, and then carries
   the text between the slashes *)

Lemma endswith_aux_last c r :
  endswith_aux "/" (String c r) (String.length r) = Ascii.eqb (last (c :: l_of r) " "%char) "/".
Proof.
  revert c. induction r as [|d r IH]; intro c.
  - cbn. destruct (Ascii.eqb_spec c "/") as [->|Hn]; [reflexivity|].
    apply String.eqb_neq. intro E. injection E as E. congruence.
  - change (endswith_aux "/" (String c (String d r)) (String.length (String d r)))
      with (endswith_aux "/" (String d r) (String.length r)).
    rewrite IH. reflexivity.
Qed.

Lemma slashed_string t : startswith "/" t && endswith "/" t = is_slashed (l_of t).
Proof.
  destruct t as [|c r]; [reflexivity|].
  unfold startswith, endswith, is_slashed. cbn [String.prefix String.length l_of Nat.leb Nat.sub].
  rewrite Nat.sub_0_r, endswith_aux_last. cbn [andb].
  destruct (ascii_dec "/" c) as [E|E].
  - subst c. rewrite Ascii.eqb_refl. destruct r; reflexivity.
  - assert (Ascii.eqb c "/" = false) as -> by (apply Ascii.eqb_neq; congruence). reflexivity.
Qed.

Lemma substring_removelast_cons r : forall e, l_of (substring 0 (String.length r) (String e r)) = removelast (e :: l_of r).
Proof.
  induction r as [|f r IH]; intro e; [reflexivity|].
  change (substring 0 (String.length (String f r)) (String e (String f r)))
    with (String e (substring 0 (String.length r) (String f r))).
  change (l_of (String e (substring 0 (String.length r) (String f r))))
    with (e :: l_of (substring 0 (String.length r) (String f r))).
  rewrite IH. reflexivity.
Qed.

Lemma substring_removelast r : l_of (substring 0 (String.length r - 1) r) = removelast (l_of r).
Proof.
  destruct r as [|e r]; [reflexivity|].
  change (String.length (String e r) - 1) with (String.length r - 0). rewrite Nat.sub_0_r.
  apply substring_removelast_cons.
Qed.

Theorem question_kind d q :
  to_question d = Some q ->
  q_regexp q = is_slashed (l_of (dg_question d)) /\
  q_answer q = dg_answer d /\
  (q_regexp q = true -> l_of (q_text q) = inner (l_of (dg_question d))) /\
  (q_regexp q = false -> q_text q = dg_question d).
Proof.
  unfold to_question. destruct (dg_send_nl d); cbn [negb]; [|discriminate].
  rewrite slashed_string. destruct (is_slashed (l_of (dg_question d))) eqn:E; intro H; injection H as <-; cbn.
  - repeat split; try discriminate. intros _.
    destruct (dg_question d) as [|c r]; [discriminate|]. unfold inner. cbn [l_of tl String.length Nat.sub substring].
    clear E. apply substring_removelast.
  - repeat split; try discriminate.
Qed.

(* the texts a compiled rule carries are stripped (MakeMessageMatcher.__init__), so for them the
   driver's reading and annet's reading of "is a regular expression" coincide *)
Corollary question_kind_matcher d q :
  to_question d = Some q -> strip_l (l_of (dg_question d)) = l_of (dg_question d) ->
  (q_regexp q = true <-> exists src r, mk_matcher (dg_question d) = MRe src r).
Proof.
  intros H Hs. destruct (question_kind d q H) as [E _]. rewrite E. unfold mk_matcher. rewrite Hs.
  destruct (is_slashed (l_of (dg_question d))).
  - split; [intros _; eexists; eexists; reflexivity|reflexivity].
  - split; [discriminate|intros [src [r Hm]]; discriminate].
Qed.

(* ------------------------------------------------------------------------------------ *)
(* the clause holds_dlg of the predicate holds for the model's own outputs *)
From Annet Require Import Spec.P_C09 Spec.P_C09G.

Definition model_rundlg (ds : list dialog) (igs : list string) (content : string) : rundlg :=
  RunDlg content (match answer_for ds content with Some a => a | None => None end)
         (map (q_hits content) ds)
         (map (fun t => match msg_matches t (strip content) with Some true => true | _ => false end) igs).

Lemma first_hit_find ds content :
  first_hit ds (map (q_hits content) ds) = option_map dg_answer (find (q_hits content) ds).
Proof.
  induction ds as [|d ds IH]; [reflexivity|]. cbn [map first_hit find].
  destruct (q_hits content d); [reflexivity|exact IH].
Qed.

Lemma ostr_eqb_refl a : ostr_eqb a a = true.
Proof. destruct a; cbn; [apply String.eqb_refl|reflexivity]. Qed.

Theorem model_dialogs_hold ds igs contents :
  dialogs_modelled ds = true ->
  holds_dlg (ObsDlg ds igs (map (model_rundlg ds igs) contents)) = true.
Proof.
  intro H. unfold holds_dlg. cbn [od_runs od_dialogs]. apply forallb_forall. intros r Hr.
  apply in_map_iff in Hr as [c [<- _]]. unfold model_rundlg. cbn [rd_hits rd_answer].
  rewrite map_length, Nat.eqb_refl, first_hit_find, (answer_for_first ds c H). cbn. apply ostr_eqb_refl.
Qed.

(* ------------------------------------------------------------------------------------ *)
(* what reading a /re/ source word by word means: the language of the joined expression is the
   words' languages joined by single blanks *)

Fixpoint ljoin_sp (ws : list (list ascii)) : list ascii :=
  match ws with
  | [] => []
  | [w] => w
  | w :: ws' => w ++ sp :: ljoin_sp ws'
  end.

Lemma chr_eq_sp ic c : chr_eq ic sp c = true -> c = sp.
Proof.
  destruct c as [[] [] [] [] [] [] [] []]; destruct ic; vm_compute; intro H; try discriminate; reflexivity.
Qed.

Theorem join_sp_lang ic rs : forall w,
  sre_lang ic (join_sp rs) w <-> exists ws, Forall2 (sre_lang ic) rs ws /\ w = ljoin_sp ws.
Proof.
  induction rs as [|r rs IH]; intro w.
  - cbn [join_sp]. split.
    + intro H. inversion H; subst. exists []. split; [constructor|reflexivity].
    + intros [ws [H ->]]. inversion H; subst. constructor.
  - destruct rs as [|r2 rs].
    + cbn [join_sp]. split.
      * intro H. exists [w]. split; [constructor; [exact H|constructor]|reflexivity].
      * intros [ws [H ->]]. inversion H as [|? u ? ws' Hu Hr]; subst. inversion Hr; subst. exact Hu.
    + change (join_sp (r :: r2 :: rs)) with (SCat r (SCat (SChr sp) (join_sp (r2 :: rs)))). split.
      * intro H. inversion H as [| | | | | | |a b u v Hu Hv| | | | | | |]; subst.
        inversion Hv as [| | | | | | |a b u2 v2 Hu2 Hv2| | | | | | |]; subst.
        inversion Hu2 as [|a c Hc| | | | | | | | | | | | |]; subst. apply chr_eq_sp in Hc. subst c.
        apply IH in Hv2 as [ws [Hws ->]]. exists (u :: ws). split; [constructor; assumption|].
        inversion Hws; subst. reflexivity.
      * intros [ws [H ->]]. inversion H as [|? u ? ws' Hu Hr]; subst.
        assert (ws' <> []) as Hne by (inversion Hr; discriminate).
        destruct ws' as [|u2 ws2]; [contradiction|].
        change (ljoin_sp (u :: u2 :: ws2)) with (u ++ [sp] ++ ljoin_sp (u2 :: ws2)).
        constructor; [exact Hu|]. constructor.
        -- constructor. unfold chr_eq. rewrite Ascii.eqb_refl. reflexivity.
        -- apply IH. exists (u2 :: ws2). split; [exact Hr|reflexivity].
Qed.

Lemma parse_words_forall2 ws : forall rs,
  parse_words ws = Some rs -> Forall2 (fun w r => parse_sre_l w = Some r) ws rs.
Proof.
  induction ws as [|w ws IH]; cbn [parse_words]; intros rs H.
  - injection H as <-. constructor.
  - destruct (parse_sre_l w) as [a|] eqn:Ea; [|discriminate].
    destruct (parse_words ws) as [l|]; [|discriminate]. injection H as <-.
    constructor; [exact Ea|apply IH; reflexivity].
Qed.

(* a modelled /re/ source: every blank-separated word is a one-word regexp, and the expression
   accepts exactly the words' languages joined by single blanks *)
Theorem parse_dre_words src r :
  parse_dre src = Some r ->
  exists rs, Forall2 (fun w a => parse_sre_l w = Some a) (split_sp src []) rs /\
             forall ic w, sre_lang ic r w <-> exists us, Forall2 (sre_lang ic) rs us /\ w = ljoin_sp us.
Proof.
  unfold parse_dre. destruct (split_sp src []) as [|w [|w2 ws]] eqn:Es.
  - cbn. intro H. injection H as <-. exists []. split; [constructor|]. intros ic w. apply (join_sp_lang ic []).
  - intro H. exists [r]. split; [constructor; [exact H|constructor]|]. intros ic w0. apply (join_sp_lang ic [r]).
  - destruct (parse_words (w :: w2 :: ws)) as [rs|] eqn:Ep; [|discriminate].
    destruct (forallb alt_closed rs); [|discriminate]. intro H. injection H as <-.
    exists rs. split; [apply parse_words_forall2; exact Ep|]. intros ic w0. apply join_sp_lang.
Qed.
