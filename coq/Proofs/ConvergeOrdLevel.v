(* C01 for %ordered rules, layer 5: the %ordered rows of ANY level, as a sequence.
   A level of old and new may hold rows of one %ordered rule (ordered_diff + logic `ordered`) MIXED with rows of rules
   with the default diff logic and ANY logic, and with rows no rule knows; all rows may have BODIES of any shape.
   If the patch is computed, then executing it on old leaves the rows of the %ordered rule in the SEQUENCE new
   holds them - whatever the patch does to the other rows and inside the bodies.
   A. the diff of such a level: its entries governed by the %ordered rule are, up to their children, the flat diff
      D0 of Proofs/ConvergeOrdFlat.v for the two %ordered sequences (base_diff does not look at subtrees: erasure).
   B. make_pre / make_patch: the slots of the %ordered rule are grouped in the order of those entries; every other
      slot yields direct commands of its own rows and its own removal command only (any logic).
   C. the sorted patch, projected on the %ordered slots, is the sorted flat patch plus direct commands of rows
      that stay in front (blocks that are entered) - no-ops for the list machine.
   D. the frame rule of Proofs/ConvergeOrdFrame.v and the list machine of Proofs/ConvergeOrdSeq.v. *)
From Coq Require Import List String Bool Arith ZArith Lia Permutation.
From Annet Require Import Base.Str Base.Tree Model.Pattern Model.Rulebook Model.Diff Model.Order Model.Patch
     Model.Blocks Model.Pipeline Model.Device Spec.P_C03 Spec.P_C01 Spec.P_C01o
     Proofs.DiffBasics Proofs.DiffProofsLib Proofs.DiffProofsAnnot Proofs.DiffProofsLossless Proofs.SortProofs Proofs.OrderProofs
     Proofs.ConvergeDevice Proofs.ConvergeRun Proofs.ConvergeBlocks Proofs.ConvergePre Proofs.ConvergeDiff Proofs.ConvergeSlot
     Proofs.ConvergeNodes Proofs.ConvergeExpected Proofs.ConvergeSim Proofs.ConvergeMain Proofs.ConvergeOrdSeq Proofs.ConvergeOrdFlat Proofs.ConvergeOrdFrame.
Import ListNotations.
Open Scope string_scope.
Open Scope list_scope.

(* ------------------------------------------------------------------ A. erasure: base_diff does not look at subtrees *)
Definition erase_d (d : dnode) : dnode := DN (d_op d) (d_row d) (d_mi d) [].
Definition erase_a (a : aforest) : aforest := map (fun k => (arow k, ami k, AT [])) a.

Lemma arows_erase a : arows (erase_a a) = arows a.
Proof. unfold arows, erase_a. rewrite map_map. reflexivity. Qed.

Lemma afind_erase row : forall a i, afind row (erase_a a) i = option_map (fun p => (fst p, AT [])) (afind row a i).
Proof.
  induction a as [|[[r m] c] a IH]; intro i; [reflexivity|]. cbn [erase_a map afind arow ami fst snd].
  destruct (String.eqb r row); [reflexivity|]. apply IH.
Qed.

Lemma cks_cons r m c l : cks ((r, m, c) :: l) = (r, m, diff_t c) :: cks l.
Proof. reflexivity. Qed.

Lemma scan_erase og pop inrw mta : forall l i dis,
  map erase_d (scan_new og pop inrw mta (cks l) i dis) =
  map erase_d (scan_new (erase_a og) pop inrw mta (cks (erase_a l)) i dis).
Proof.
  induction l as [|[[r m] c] l IH]; intros i dis; [reflexivity|].
  cbn [erase_a map arow ami fst snd]. fold (erase_a l). rewrite !cks_cons. cbn [scan_new].
  rewrite afind_erase. destruct (afind r og 0) as [[j so]|]; cbn [option_map fst].
  - destruct (dis || negb (Nat.eqb i j)); cbn [map]; rewrite IH; reflexivity.
  - cbn [map]. rewrite IH. reflexivity.
Qed.

Lemma removed_erase : forall l nr i,
  map (fun x : nat * dnode => (fst x, erase_d (snd x))) (removed_rows l nr i) =
  map (fun x : nat * dnode => (fst x, erase_d (snd x))) (removed_rows (erase_a l) nr i).
Proof.
  induction l as [|[[r m] c] l IH]; intros nr i; [reflexivity|].
  cbn [erase_a map arow ami fst snd removed_rows]. fold (erase_a l).
  destruct (existsb (String.eqb r) nr); [apply IH|]. cbn [map fst snd]. rewrite IH. reflexivity.
Qed.

Lemma interleave_map (g : dnode -> dnode) : forall news rem i,
  map g (interleave news rem i) = interleave (map g news) (map (fun x : nat * dnode => (fst x, g (snd x))) rem) i.
Proof.
  induction news as [|d ns IH]; intros rem i; cbn [interleave map].
  - rewrite !map_map. reflexivity.
  - destruct rem as [|[j r] rem']; cbn [map fst snd].
    + rewrite IH. reflexivity.
    + destruct (Nat.eqb j i); cbn [map]; rewrite IH; reflexivity.
Qed.

Lemma base_diff_erase og pop inrw mta ng :
  map erase_d (base_diff og pop inrw mta (cks ng)) =
  map erase_d (base_diff (erase_a og) pop inrw mta (cks (erase_a ng))).
Proof.
  unfold base_diff. rewrite !interleave_map, !cks_rows, arows_erase, scan_erase, removed_erase. reflexivity.
Qed.

(* generic list facts *)
Lemma filter_concat {A} (p : A -> bool) (ll : list (list A)) : filter p (List.concat ll) = List.concat (map (filter p) ll).
Proof. induction ll as [|l ll IH]; [reflexivity|]. cbn. rewrite filter_app, IH. reflexivity. Qed.

Lemma filter_split {A} (q : A -> bool) : forall S T1 x T2, filter q S = T1 ++ x :: T2 ->
  exists S1 S2, S = S1 ++ x :: S2 /\ filter q S1 = T1 /\ filter q S2 = T2.
Proof.
  induction S as [|y S IH]; intros T1 x T2 H; [destruct T1; discriminate|].
  cbn [filter] in H. destruct (q y) eqn:Ey.
  - destruct T1 as [|t T1]; cbn [app] in H.
    + injection H as E1 E2. subst y. exists [], S. cbn. auto.
    + injection H as E1 E2. subst t. destruct (IH T1 x T2 E2) as (S1 & S2 & -> & F1 & F2).
      exists (y :: S1), S2. cbn [filter app]. rewrite Ey, F1. auto.
  - destruct (IH T1 x T2 H) as (S1 & S2 & -> & F1 & F2). exists (y :: S1), S2. cbn [filter app]. rewrite Ey. auto.
Qed.

Lemma filter_mark_comm (p : dnode -> bool) l : (forall d, p (mark_unchanged_n d) = p d) ->
  filter p (mark_unchanged l) = mark_unchanged (filter p l).
Proof.
  intro H. unfold mark_unchanged. induction l as [|d l IH]; [reflexivity|]. cbn [map filter]. rewrite H.
  destruct (p d); cbn [map]; rewrite IH; reflexivity.
Qed.

(* ------------------------------------------------------------------ B0. what a slot yields, for ANY logic *)
Definition crow (c : citem) : string := snd (fst (fst c)).
Definition yrow (y : bool * string * option (ckpre * bool)) : string := snd (fst y).
Definition ydirect (y : bool * string * option (ckpre * bool)) : bool := fst (fst y).

Section AnyLogic.
  Variable rmatch : string -> string -> option (list string).
  Variable rsrc : string -> string.
  Variable rrev : string -> string.
  Variable block_exit : string.
  Variable rreverse : string -> list string -> string.

  Definition yok (pat : string) (key : list string) (its : list citem) (y : bool * string * option (ckpre * bool)) : Prop :=
    (ydirect y = true /\ exists c, In c its /\ yrow y = crow c) \/ y = (false, rreverse pat key, None).

  Lemma default_b_rows pat key its A R F M ys :
    (forall c, In c (A ++ F ++ M) -> In c its) ->
    default_b rreverse pat key A R F M = Some ys -> Forall (yok pat key its) ys.
  Proof.
    intros Hin H. unfold default_b in H.
    destruct (Nat.ltb 1 (List.length A) || Nat.ltb 1 (List.length R) || Nat.ltb 1 (List.length F) || Nat.ltb 1 (List.length M));
      [discriminate|].
    assert (Hd : forall (c : citem), In c (A ++ F ++ M) ->
              yok pat key its (true, snd (fst (fst c)), Some (snd (fst c), snd c))).
    { intros c Hc. left. split; [reflexivity|]. exists c. split; [apply Hin; exact Hc | reflexivity]. }
    destruct F as [|[[[o row] ch] ne] F'].
    - destruct A as [|[[[o row] ch] ne] A'].
      + destruct M as [|[[[o row] ch] ne] M'].
        * destruct R; injection H as <-; [constructor|]. constructor; [right; reflexivity | constructor].
        * injection H as <-. constructor; [|constructor]. apply (Hd (o, row, ch, ne)). cbn. now left.
      + injection H as <-. constructor; [|constructor]. apply (Hd (o, row, ch, ne)). cbn. now left.
    - injection H as <-. constructor; [|constructor]. apply (Hd (o, row, ch, ne)).
      apply in_or_app. right. cbn. now left.
  Qed.

  Lemma bucket_in o its c : In c (bucket o its) -> In c its.
  Proof. unfold bucket. intro H. apply filter_In in H. tauto. Qed.

  Theorem run_logic_rows pat key L its ys :
    run_logic rreverse pat key L its = Some ys -> Forall (yok pat key its) ys.
  Proof.
    intro H. unfold run_logic in H.
    assert (Hb : forall c, In c (bucket Added its ++ bucket Affected its ++ bucket Moved its) -> In c its).
    { intros c Hc. apply in_app_or in Hc as [Hc|Hc]; [|apply in_app_or in Hc as [Hc|Hc]]; eapply bucket_in; eauto. }
    assert (Hrev : yok pat key its (false, rreverse pat key, None)) by (right; reflexivity).
    destruct L.
    - eapply default_b_rows; eauto.
    - (* ordered *)
      destruct (default_b rreverse pat key (bucket Added its) (bucket Removed its) (bucket Affected its) (bucket Moved its)) as [y|] eqn:E;
        [|discriminate]. injection H as <-. pose proof (default_b_rows _ _ _ _ _ _ _ _ Hb E) as Hy.
      destruct (bucket Moved its); [exact Hy | constructor; assumption].
    - (* rewrite *)
      destruct (bucket Removed its); [eapply default_b_rows; eauto | injection H as <-; constructor].
    - (* permanent *)
      destruct (bucket Removed its) as [|[[[o row] ch] ne] R'] eqn:ER; [eapply default_b_rows; eauto|].
      destruct ne; [|injection H as <-; constructor].
      eapply default_b_rows; [|exact H]. intros c Hc.
      apply in_app_or in Hc as [Hc|Hc]; [eapply bucket_in; eauto|].
      apply in_app_or in Hc as [Hc|Hc]; [|eapply bucket_in; eauto].
      apply in_app_or in Hc as [Hc|Hc]; [eapply bucket_in; eauto|]. rewrite <- ER in Hc. eapply bucket_in; eauto.
    - (* ignore_changes *)
      destruct (bucket Added its) eqn:EA; [eapply default_b_rows; [|exact H]; exact Hb|].
      destruct (bucket Removed its); [eapply default_b_rows; [|exact H]; exact Hb|].
      injection H as <-. constructor.
    - (* undo_redo *)
      destruct (bucket Added its) as [|a A'] eqn:EA; [eapply default_b_rows; [|exact H]; exact Hb|].
      destruct (bucket Removed its) as [|r R'] eqn:ER; [eapply default_b_rows; [|exact H]; exact Hb|].
      destruct (bucket Affected its) as [|f F'] eqn:EF; [|eapply default_b_rows; [|exact H]; exact Hb].
      destruct (default_b rreverse pat key [] (r :: R') [] []) as [y1|] eqn:E1; [|discriminate].
      destruct (default_b rreverse pat key (a :: A') [] [] []) as [y2|] eqn:E2; [|discriminate].
      injection H as <-. apply Forall_app. split.
      + eapply default_b_rows; [|exact E1]. intros c [].
      + eapply default_b_rows; [|exact E2]. intros c Hc. rewrite !app_nil_r in Hc. rewrite <- EA in Hc. eapply bucket_in; eauto.
  Qed.

  Lemma yield_item_one ord raw a y l : a_force_commit a = false ->
    yield_item rmatch rsrc rrev block_exit ord raw a y = Some l ->
    exists it, l = [it] /\ irow it = yrow y /\ (ydirect y = false -> ichild it = None) /\
               snd it = skof rmatch rsrc rrev block_exit ord raw (yrow y) (ydirect y).
  Proof.
    intros Hf H. destruct y as [[direct row] sub]. unfold yield_item in H. unfold skof, yrow, ydirect. cbn [fst snd].
    destruct (get_order rmatch rsrc rrev block_exit ord row direct (Some "patch")) as [[order odirect] ord'].
    destruct (match sub with Some (ch, true) => ch ord' | _ => POk (PT []) end) as [ct|]; [|discriminate].
    rewrite Hf in H. injection H as <-.
    eexists. split; [reflexivity|].
    destruct (match pitems ct with [] => negb (a_parent a) | _ :: _ => false end || negb direct) eqn:El; cbn [irow ichild fst snd].
    - repeat split; reflexivity.
    - repeat split; try reflexivity. intro Hd. subst direct. rewrite orb_true_r in El. discriminate.
  Qed.

  (* the items of a slot, for any logic: each is a direct command of a row of the slot or the slot's removal command *)
  Definition iok (ord : list orule) (raw pat : string) (key : list string) (its : list citem) (it : item) : Prop :=
    (exists c, In c its /\ irow it = crow c /\ snd it = skof rmatch rsrc rrev block_exit ord raw (crow c) true) \/
    (irow it = rreverse pat key /\ ichild it = None /\
     snd it = skof rmatch rsrc rrev block_exit ord raw (rreverse pat key) false).

  Theorem slot_items_rows ord raw a key its l : a_force_commit a = false ->
    slot_items rmatch rsrc rrev block_exit rreverse ord (raw, a, key, its) = Some l ->
    Forall (iok ord raw (a_pat a) key its) l.
  Proof.
    intros Hf H. unfold slot_items in H.
    destruct (run_logic rreverse (a_pat a) key (a_logic a) its) as [ys|] eqn:E; [|discriminate].
    apply run_logic_rows in E.
    destruct (all_some (map (yield_item rmatch rsrc rrev block_exit ord raw a) ys)) as [ll|] eqn:Ea; [|discriminate].
    cbn [option_map] in H. injection H as <-.
    revert ll Ea. induction E as [|y ys Hy Hys IH]; intros ll Ea.
    - cbn in Ea. injection Ea as <-. constructor.
    - cbn [map all_some] in Ea.
      destruct (yield_item rmatch rsrc rrev block_exit ord raw a y) as [l0|] eqn:Ey; [|discriminate].
      destruct (all_some (map (yield_item rmatch rsrc rrev block_exit ord raw a) ys)) as [ll'|] eqn:Ea'; [|discriminate].
      cbn [option_map] in Ea. injection Ea as <-. cbn [List.concat]. apply Forall_app. split; [|apply IH; reflexivity].
      destruct (yield_item_one ord raw a y l0 Hf Ey) as (it & -> & Hr & Hc & Hk). constructor; [|constructor].
      destruct Hy as [[Hd (c & Hc1 & Hc2)]|Hy].
      + left. exists c. split; [exact Hc1|]. split; [congruence|]. rewrite Hk, Hd, Hc2. reflexivity.
      + subst y. right. cbn [yrow ydirect fst snd] in *. split; [exact Hr|]. split; [apply Hc; reflexivity | exact Hk].
  Qed.
End AnyLogic.

(* ------------------------------------------------------------------ B1. the slots of one rule R in the grouping, in order *)
Section RuleSlots.
  Variable R : string.

  Definition isRe (e : pentry) : bool := String.eqb (pe_raw e) R.
  Definition isRf (x : string * attrs * list string * list pitem) : bool := String.eqb (fst (fst (fst x))) R.

  Fixpoint rkeys (gs : list pgroup) : pkeys :=
    match gs with
    | [] => []
    | (r, _, ks) :: t => if String.eqb r R then ks ++ rkeys t else rkeys t
    end.

  Lemma rk_flat gs : map (fun x : string * attrs * list string * list pitem => (snd (fst x), snd x)) (filter isRf (flat_groups gs)) = rkeys gs.
  Proof.
    induction gs as [|[[r a] ks] t IH]; [reflexivity|]. unfold flat_groups in *. cbn [flat_map rkeys].
    rewrite filter_app, map_app, IH. destruct (String.eqb r R) eqn:E.
    - f_equal. induction ks as [|k ks IHk]; [reflexivity|]. cbn [map filter]. unfold isRf at 1. cbn [fst snd].
      rewrite E. cbn [map fst snd]. rewrite IHk. destruct k; reflexivity.
    - replace (filter isRf (map (fun k : list string * list pitem => (r, a, fst k, snd k)) ks)) with
        (@nil (string * attrs * list string * list pitem)); [reflexivity|].
      induction ks as [|k ks IHk]; [reflexivity|]. cbn [map filter]. unfold isRf at 1. cbn [fst snd]. rewrite E. exact IHk.
  Qed.

  Lemma rkeys_notin gs : ~ In R (graws gs) -> rkeys gs = [].
  Proof.
    induction gs as [|[[r a] ks] t IH]; intro H; [reflexivity|]. cbn [rkeys]. cbn [graws map fst] in H.
    destruct (String.eqb_spec r R) as [E|E]; [exfalso; apply H; now left|]. apply IH. intro Hi. apply H. now right.
  Qed.

  Lemma rkeys_ins_other raw a key it gs : raw <> R -> rkeys (ins_group raw a key it gs) = rkeys gs.
  Proof.
    intro Hne. induction gs as [|[[r a0] ks] t IH]; cbn [ins_group rkeys].
    - destruct (String.eqb_spec raw R); [congruence | reflexivity].
    - destruct (String.eqb_spec r raw) as [E|E]; cbn [rkeys].
      + subst r. destruct (String.eqb_spec raw R); [congruence | reflexivity].
      + rewrite IH. reflexivity.
  Qed.

  Lemma rkeys_ins_R a key it gs : NoDup (graws gs) -> ~ In key (gkeys (rkeys gs)) ->
    rkeys (ins_group R a key it gs) = rkeys gs ++ [(key, [it])].
  Proof.
    induction gs as [|[[r a0] ks] t IH]; intros Hnd Hk; cbn [ins_group rkeys].
    - rewrite String.eqb_refl. reflexivity.
    - cbn [graws map fst] in Hnd. inversion Hnd as [|x l Hx Hl]; subst. cbn [rkeys] in Hk.
      destruct (String.eqb_spec r R) as [E|E]; cbn [rkeys].
      + subst r. rewrite String.eqb_refl. rewrite (rkeys_notin t Hx) in *. rewrite app_nil_r in *.
        rewrite ins_key_fresh by exact Hk. rewrite !app_nil_r. reflexivity.
      + destruct (String.eqb_spec r R); [congruence|]. apply IH; assumption.
  Qed.

  Lemma ins_entry_raws_nodup gs e : NoDup (graws gs) -> NoDup (graws (ins_entry gs e)).
  Proof.
    intro H. destruct e as [[[raw a] key] it]. cbn [ins_entry]. rewrite ins_group_raws.
    destruct (existsb (String.eqb raw) (graws gs)) eqn:E; [exact H|].
    apply NoDup_app_intro; [exact H | repeat constructor; intros [] |].
    intros x Hx [Ex0|[]]. subst x. assert (Ex : existsb (String.eqb raw) (graws gs) = true).
    { apply existsb_exists. exists raw. split; [exact Hx | apply String.eqb_refl]. }
    congruence.
  Qed.

  Lemma rkeys_fold : forall es gs, NoDup (graws gs) ->
    NoDup (gkeys (rkeys gs) ++ map pe_key (filter isRe es)) ->
    rkeys (fold_left ins_entry es gs) = rkeys gs ++ map (fun e => (pe_key e, [pe_item e])) (filter isRe es).
  Proof.
    induction es as [|e es IH]; intros gs Hr Hk.
    - cbn. rewrite app_nil_r. reflexivity.
    - cbn [fold_left]. pose proof (ins_entry_raws_nodup gs e Hr) as Hr'.
      destruct e as [[[raw a] key] it]. cbn [filter] in *.
      assert (Ee : isRe (raw, a, key, it) = String.eqb raw R) by reflexivity. rewrite Ee in *. clear Ee.
      cbn [ins_entry] in *. destruct (String.eqb_spec raw R) as [E|E].
      + subst raw. cbn [map pe_key pe_item fst snd] in *.
        assert (Hfresh : ~ In key (gkeys (rkeys gs))).
        { apply NoDup_remove_2 in Hk. intro Hi. apply Hk. apply in_or_app. now left. }
        rewrite IH; [|exact Hr'|].
        * rewrite (rkeys_ins_R a key it gs Hr Hfresh). rewrite <- app_assoc. reflexivity.
        * rewrite (rkeys_ins_R a key it gs Hr Hfresh). unfold gkeys in *. rewrite map_app. cbn [map fst].
          rewrite <- app_assoc. exact Hk.
      + rewrite IH; [|exact Hr'|]; rewrite (rkeys_ins_other raw a key it gs E); [reflexivity | exact Hk].
  Qed.

  Theorem rkeys_group_all es : NoDup (map pe_key (filter isRe es)) ->
    map (fun x : string * attrs * list string * list pitem => (snd (fst x), snd x)) (filter isRf (flat_groups (group_all es))) =
    map (fun e => (pe_key e, [pe_item e])) (filter isRe es).
  Proof.
    intro H. rewrite rk_flat. unfold group_all. rewrite rkeys_fold; [reflexivity | constructor | exact H].
  Qed.
End RuleSlots.

Lemma forall2_filter {A B C} (Rel : A -> B -> Prop) (p : A -> bool) (g : B -> list C) : forall l l',
  Forall2 Rel l l' -> (forall a b, In a l -> Rel a b -> p a = false -> g b = []) ->
  exists l'', Forall2 Rel (filter p l) l'' /\ List.concat (map g l') = List.concat (map g l'').
Proof.
  induction 1 as [|a b l l' Hab Hl IH]; intro Hg.
  - exists []. split; [constructor | reflexivity].
  - destruct IH as (l'' & H2 & E); [intros a0 b0 Ha0; apply Hg; now right|].
    cbn [filter map List.concat]. destruct (p a) eqn:Ep.
    + exists (b :: l''). split; [constructor; assumption|]. cbn [map List.concat]. rewrite E. reflexivity.
    + exists l''. split; [exact H2|]. rewrite (Hg a b (or_introl eq_refl) Hab Ep). exact E.
Qed.

Lemma Forall2_map_left {A B C} (g : A -> B) (P : B -> C -> Prop) l l' :
  Forall2 P (map g l) l' -> Forall2 (fun a c => P (g a) c) l l'.
Proof. revert l'. induction l as [|a l IHl]; intros l' H; inversion H; subst; constructor; auto. Qed.

(* small list facts *)
Lemma flat_map_all_nil {A B} (h : A -> list B) l : (forall x, In x l -> h x = []) -> flat_map h l = [].
Proof. induction l as [|x l IH]; intro H; [reflexivity|]. cbn. rewrite (H x) by now left. apply IH. intros y Hy. apply H. now right. Qed.

Lemma flat_map_single {A B} (eq_dec : forall a b : A, {a = b} + {a <> b}) (X : A) (h : A -> list B) (Ls : list A) :
  NoDup Ls -> (forall L, In L Ls -> L <> X -> h L = []) -> (~ In X Ls -> h X = []) -> flat_map h Ls = h X.
Proof.
  induction Ls as [|L Ls IH]; intros Hnd Ho Hx; [symmetry; apply Hx; intros []|].
  inversion Hnd as [|x l Hn Hl]; subst. cbn [flat_map].
  destruct (eq_dec L X) as [E|E].
  - subst L. rewrite (flat_map_all_nil h Ls); [apply app_nil_r|].
    intros y Hy. apply Ho; [now right|]. intro E. subst y. contradiction.
  - rewrite (Ho L (or_introl eq_refl) E). cbn [app]. apply IH; [exact Hl | intros; apply Ho; auto; now right|].
    intro Hn'. apply Hx. intros [E'|H']; [congruence | contradiction].
Qed.

Lemma filter_nodup_single {A} (p : A -> bool) (x : A) l :
  NoDup l -> In x l -> p x = true -> (forall y, In y l -> p y = true -> y = x) -> filter p l = [x].
Proof.
  induction l as [|a l IH]; intros Hnd Hin Hp Hu; [destruct Hin|]. inversion Hnd as [|a' l' Ha Hl]; subst. cbn [filter].
  destruct Hin as [E|Hin].
  - subst a. rewrite Hp. f_equal. apply filter_all_false. intros y Hy. destruct (p y) eqn:Ey; [|reflexivity].
    exfalso. apply Ha. rewrite <- (Hu y (or_intror Hy) Ey). exact Hy.
  - destruct (p a) eqn:Ea.
    + exfalso. apply Ha. rewrite (Hu a (or_introl eq_refl) Ea). exact Hin.
    + apply IH; auto. intros y Hy. apply Hu. now right.
Qed.

Lemma Forall2_in_r {A B} (Rel : A -> B -> Prop) l l' b : Forall2 Rel l l' -> In b l' -> exists a, In a l /\ Rel a b.
Proof.
  induction 1 as [|a0 b0 l l' H0 Hl IH]; intro Hb; [destruct Hb|]. destruct Hb as [E|Hb].
  - subst. exists a0. split; [now left | exact H0].
  - destruct (IH Hb) as (a & Ha & Hr). exists a. split; [now right | exact Hr].
Qed.

Lemma mark_op x : d_op (mark_unchanged_n x) = d_op x \/ (d_op x = Affected /\ d_op (mark_unchanged_n x) = Unchanged).
Proof.
  destruct x as [o r m k]. cbn [mark_unchanged_n]. destruct (op_eqb o Affected) eqn:E; [|left; reflexivity].
  apply op_eqb_eq in E. subst o. cbn [d_op]. destruct (forallb _ _); [right; split; reflexivity | left; reflexivity].
Qed.

Lemma scan_rel_mi og pop inrw k d : scan_rel og pop inrw k d -> d_mi d = ami k.
Proof.
  unfold scan_rel. destruct (alookup (arow k) og) as [[mo so]|].
  - intros (o & _ & E). subst d. reflexivity.
  - intros E. subst d. reflexivity.
Qed.

(* ------------------------------------------------------------------ the level *)
Section Level.
  Variable rmatch : string -> string -> option (list string).
  Variable rsrc : string -> string.
  Variable rrev : string -> string.
  Variable block_exit : string.
  Variable rreverse : string -> list string -> string.
  Variable is_exit : string -> bool.
  Variable rs : rset.
  Variable UF : forest.
  Hypothesis HU : lvl_ok rmatch rreverse is_exit rs UF.
  Hypothesis Hokr : okr rmatch rs UF.

  Notation slot := (slot_of rmatch rs).
  Notation rev_of := (reverse_of rreverse).
  Notation oseq := (ord_seq rmatch rs).
  Notation mi_of := (mi_of rmatch rs).
  Notation rev := (ConvergeOrdFlat.rev rmatch rreverse rs).
  Notation mkpatch := (make_patch rmatch rsrc rrev block_exit rreverse).

  (* the %ordered rule of the level: text R, attributes aR *)
  Variable R : string.
  Variable aR : attrs.
  Record odom : Prop := {
    od_R : forall r s, In r (keys UF) -> slot r = Some s -> (is_ordered s = true <-> mi_raw s = R);
    od_aR : forall r s, In r (keys UF) -> slot r = Some s -> is_ordered s = true -> mi_attrs s = aR;
    od_lg : a_logic aR = LOrdered;
    od_fc : forall r s, In r (keys UF) -> slot r = Some s -> a_force_commit (mi_attrs s) = false;
    od_dl : forall r s, In r (keys UF) -> slot r = Some s -> is_ordered s = false -> mi_dlogic s = DDefault
  }.
  Hypothesis HD : odom.

  Variables fo fn : forest.
  Hypothesis Hio : rows_in UF fo.
  Hypothesis Hin : rows_in UF fn.
  Hypothesis Hko : NoDup (keys fo).
  Hypothesis Hkn : NoDup (keys fn).

  Let O := oseq fo.
  Let N := oseq fn.
  Let UO := O ++ N.

  (* ---------- the two %ordered sequences ---------- *)
  Lemma oseq_nodup f : NoDup (keys f) -> NoDup (oseq f).
  Proof. intro H. unfold ord_seq. apply (nodup_keys_filter _ f H). Qed.

  Lemma oseq_slot f r : rows_in UF f -> In r (oseq f) ->
    In r (keys f) /\ In r (keys UF) /\ exists s, slot r = Some s /\ is_ordered s = true.
  Proof.
    intros Hi Hr. apply (oseq_in rmatch rs) in Hr as (t & Ht & Ho). split; [eapply in_keys; eauto|].
    split; [apply (Hi (r, t) Ht)|]. unfold ord_entry in Ho. cbn [fst] in Ho.
    destruct (slot r) as [s|]; [|discriminate]. exists s. auto.
  Qed.

  Lemma in_oseq f r s : In r (keys f) -> slot r = Some s -> is_ordered s = true -> In r (oseq f).
  Proof.
    intros Hr Hs Ho. apply in_map_iff in Hr as ([r' t] & E & Ht). cbn in E. subst r'.
    unfold ord_seq. apply in_map_iff. exists (r, t). split; [reflexivity|]. apply filter_In. split; [exact Ht|].
    unfold ord_entry. cbn [fst]. rewrite Hs. exact Ho.
  Qed.

  Lemma UO_slot r : In r UO -> In r (keys UF) /\ exists s, slot r = Some s /\ is_ordered s = true.
  Proof.
    intro H. apply in_app_or in H as [H|H]; [apply (oseq_slot fo r Hio) in H | apply (oseq_slot fn r Hin) in H]; tauto.
  Qed.

  Lemma mi_of_slot r s : slot r = Some s -> mi_of r = s.
  Proof.
    unfold slot_of, ConvergeOrdFlat.mi_of. destruct (match_row rmatch r rs) as [[s0 c]|]; [|discriminate].
    cbn. congruence.
  Qed.

  Lemma rev_slot r s : slot r = Some s -> rev r = rev_of s.
  Proof. intro H. unfold ConvergeOrdFlat.rev. rewrite (mi_of_slot r s H). reflexivity. Qed.

  Lemma UO_fdom : fdom rmatch rreverse is_exit rs UO.
  Proof.
    constructor.
    - intros r Hr. destruct (UO_slot r Hr) as (_ & s & Hs & _). unfold ConvergeOrdFlat.mi_of, ConvergeOrdFlat.crs_of.
      unfold slot_of in Hs. destruct (match_row rmatch r rs) as [[s0 c]|]; [reflexivity | discriminate].
    - intros r Hr. destruct (UO_slot r Hr) as (HrU & s & Hs & Ho). rewrite (mi_of_slot r s Hs).
      split; [exact Ho|]. rewrite (od_aR HD r s HrU Hs Ho) at 1. split; [exact (od_lg HD)|].
      exact (od_fc HD r s HrU Hs).
    - intros r Hr. destruct (UO_slot r Hr) as (HrU & s & Hs & _). exact (lo_row_not_exit _ _ _ _ _ HU r s HrU Hs).
    - intros r Hr. destruct (UO_slot r Hr) as (HrU & s & Hs & _). rewrite (rev_slot r s Hs). split.
      + exact (lo_rev_unmatched _ _ _ _ _ HU r s HrU Hs).
      + exact (lo_rev_not_exit _ _ _ _ _ HU r s HrU Hs).
    - intros r r' Hr Hr'. destruct (UO_slot r Hr) as (HrU & s & Hs & Ho). destruct (UO_slot r' Hr') as (HrU' & s' & Hs' & Ho').
      rewrite (mi_of_slot r s Hs), (mi_of_slot r' s' Hs'). split.
      + rewrite (proj1 (od_R HD r s HrU Hs) Ho), (proj1 (od_R HD r' s' HrU' Hs') Ho'). reflexivity.
      + rewrite (od_aR HD r s HrU Hs Ho), (od_aR HD r' s' HrU' Hs' Ho'). reflexivity.
    - intros r r' Hr Hr' E. destruct (UO_slot r Hr) as (HrU & s & Hs & Ho). destruct (UO_slot r' Hr') as (HrU' & s' & Hs' & Ho').
      rewrite (rev_slot r s Hs), (rev_slot r' s' Hs') in E.
      pose proof (lo_rev_inj _ _ _ _ _ HU r' s' r s HrU' Hs' HrU Hs E) as Hk.
      exact (Hokr r' s' r s HrU' Hs' HrU Hs Ho' Hk).
    - intros r r' Hr Hr' E. destruct (UO_slot r Hr) as (HrU & s & Hs & Ho). destruct (UO_slot r' Hr') as (HrU' & s' & Hs' & Ho').
      rewrite (mi_of_slot r s Hs), (mi_of_slot r' s' Hs') in E.
      assert (Hk : key_of s = key_of s').
      { unfold key_of. rewrite (proj1 (od_R HD r s HrU Hs) Ho), (proj1 (od_R HD r' s' HrU' Hs') Ho'), E. reflexivity. }
      exact (Hokr r' s' r s HrU' Hs' HrU Hs Ho' Hk).
  Qed.

  Lemma O_nodup : NoDup O. Proof. apply oseq_nodup. exact Hko. Qed.
  Lemma N_nodup : NoDup N. Proof. apply oseq_nodup. exact Hkn. Qed.
  Lemma O_incl : incl O UO. Proof. intros x Hx. apply in_or_app. now left. Qed.
  Lemma N_incl : incl N UO. Proof. intros x Hx. apply in_or_app. now right. Qed.

  (* ---------- A. the %ordered entries of the diff ---------- *)
  Definition isOn (d : dnode) : bool := dlogic_eqb (mi_dlogic (d_mi d)) DOrdered.

  Lemma erase_ordered_part f :
    erase_a (filter (inL DOrdered) (annot_f rmatch rs f)) = ann rmatch rs (oseq f).
  Proof.
    induction f as [|[r t] f IH]; [reflexivity|]. rewrite annot_f_cons. unfold ord_seq. cbn [filter].
    unfold ord_entry at 1. cbn [fst]. unfold slot_of. destruct (match_row rmatch r rs) as [[m crs]|] eqn:Em; cbn [option_map fst].
    - cbn [filter]. unfold inL at 1. cbn [ami fst snd]. change (dlogic_eqb (mi_dlogic m) DOrdered) with (is_ordered m).
      destruct (is_ordered m).
      + cbn [erase_a map arow ami fst snd ann]. fold (erase_a (filter (inL DOrdered) (annot_f rmatch rs f))).
        rewrite IH. unfold ConvergeOrdFlat.mi_of at 1. rewrite Em. reflexivity.
      + exact IH.
    - exact IH.
  Qed.

  Lemma flat_base_diff o n : NoDup o ->
    base_diff (ann rmatch rs o) Affected false false (cks (ann rmatch rs n)) = D0 rmatch rs o n.
  Proof.
    intro Hnd. unfold base_diff. rewrite cks_rows, arows_ann. unfold D0, news_of. f_equal.
    apply (scan_flat rmatch rs n [] o). exact Hnd.
  Qed.

  Lemma D0_erased o n : map erase_d (D0 rmatch rs o n) = D0 rmatch rs o n.
  Proof.
    assert (H : Forall (isnd rmatch rs (o ++ n)) (D0 rmatch rs o n)).
    { apply D0_isnd; intros x Hx; apply in_or_app; [now left | now right]. }
    induction H as [|d l [Hd _] Hl IH]; [reflexivity|]. cbn [map]. rewrite IH. f_equal.
    rewrite Hd at 2. unfold erase_d, ConvergeOrdFlat.nd. rewrite Hd at 3. reflexivity.
  Qed.

  Let ao := annot_f rmatch rs fo.
  Let an := annot_f rmatch rs fn.

  Lemma entry_slot (f : forest) k : rows_in UF f -> In k (annot_f rmatch rs f) ->
    In (arow k) (keys f) /\ In (arow k) (keys UF) /\ slot (arow k) = Some (ami k).
  Proof.
    intros Hi Hk. destruct k as [[r m] sub]. apply (annot_in rmatch rs f r m sub) in Hk as (t & crs & Ht & Hm & _).
    cbn [arow ami fst snd]. split; [eapply in_keys; eauto|]. split; [apply (Hi (r, t) Ht)|].
    unfold slot_of. rewrite Hm. reflexivity.
  Qed.

  Lemma entry_dl (f : forest) k : rows_in UF f -> In k (annot_f rmatch rs f) ->
    mi_dlogic (ami k) = DDefault \/ mi_dlogic (ami k) = DOrdered.
  Proof.
    intros Hi Hk. destruct (entry_slot f k Hi Hk) as (_ & HkU & Hs).
    destruct (is_ordered (ami k)) eqn:Eo.
    - right. unfold is_ordered in Eo. apply dlogic_eqb_eq in Eo. exact Eo.
    - left. exact (od_dl HD _ _ HkU Hs Eo).
  Qed.

  (* facts about every entry of the raw diff of the level *)
  Definition nodeQ (d : dnode) : Prop :=
    In (d_row d) (keys UF) /\ slot (d_row d) = Some (d_mi d) /\ (In (d_row d) (keys fo) \/ In (d_row d) (keys fn)).

  Lemma base_diff_nodes L pop inrw mta d :
    In d (base_diff (filter (inL L) ao) pop inrw mta (cks (filter (inL L) an))) ->
    nodeQ d /\ mi_dlogic (d_mi d) = L.
  Proof.
    intro H. apply base_diff_In in H as [(k & Hk & Hrel)|(k & Hk & _ & E)].
    - apply filter_In in Hk as [Hk HL]. destruct (entry_slot fn k Hin Hk) as (H1 & H2 & H3).
      rewrite (scan_rel_mi _ _ _ _ _ Hrel). unfold nodeQ. rewrite (scan_rel_row _ _ _ _ _ Hrel), (scan_rel_mi _ _ _ _ _ Hrel).
      split; [auto|]. unfold inL in HL. apply dlogic_eqb_eq in HL. exact HL.
    - apply filter_In in Hk as [Hk HL]. destruct (entry_slot fo k Hio Hk) as (H1 & H2 & H3).
      subst d. unfold nodeQ, mkrem. cbn [d_row d_mi]. split; [auto|]. unfold inL in HL. apply dlogic_eqb_eq in HL. exact HL.
  Qed.

  Definition rawd : list dnode := raw_diff rmatch rs fo fn.

  Lemma rawd_unfold : rawd =
    flat_map (fun L => run_dlogic L (filter (inL L) ao) (cks (filter (inL L) an)) Affected false)
             (uniq_dl (map (fun k => mi_dlogic (ami k)) ao ++ map (fun k => mi_dlogic (ami k)) an) []).
  Proof.
    unfold rawd, raw_diff. change (annot rmatch rs (T fn)) with (AT (annot_f rmatch rs fn)).
    rewrite diff_t_unfold, diff_level_unfold. reflexivity.
  Qed.

  Lemma Ls_two L : In L (uniq_dl (map (fun k => mi_dlogic (ami k)) ao ++ map (fun k => mi_dlogic (ami k)) an) []) ->
    L = DDefault \/ L = DOrdered.
  Proof.
    intro H. apply (proj1 (uniq_dl_In0 _ _)) in H. apply in_app_or in H as [H|H]; apply in_map_iff in H as (k & <- & Hk).
    - exact (entry_dl fo k Hio Hk).
    - exact (entry_dl fn k Hin Hk).
  Qed.

  Lemma run_two L : L = DDefault \/ L = DOrdered ->
    run_dlogic L (filter (inL L) ao) (cks (filter (inL L) an)) Affected false =
    base_diff (filter (inL L) ao) Affected false (match L with DDefault => true | _ => false end) (cks (filter (inL L) an)).
  Proof. intros [-> | ->]; reflexivity. Qed.

  Lemma rawd_nodes d : In d rawd -> nodeQ d.
  Proof.
    rewrite rawd_unfold. intro H. apply in_flat_map in H as (L & HL & H). rewrite (run_two L (Ls_two L HL)) in H.
    apply (base_diff_nodes L _ _ _ d H).
  Qed.

  Definition BO : list dnode :=
    base_diff (filter (inL DOrdered) ao) Affected false false (cks (filter (inL DOrdered) an)).

  Lemma rawd_ordered : filter isOn rawd = BO.
  Proof.
    rewrite rawd_unfold.
    set (h := fun L => run_dlogic L (filter (inL L) ao) (cks (filter (inL L) an)) Affected false).
    assert (Hf : forall l, filter isOn (flat_map h l) = flat_map (fun L => filter isOn (h L)) l).
    { induction l as [|x l IH]; [reflexivity|]. cbn [flat_map]. rewrite filter_app, IH. reflexivity. }
    rewrite Hf.
    assert (Hd : forall a b : dlogic, {a = b} + {a <> b}) by (decide equality).
    rewrite (flat_map_single Hd DOrdered).
    - unfold h. rewrite (run_two DOrdered (or_intror eq_refl)). fold BO. apply filter_all.
      intros d Hd'. apply (base_diff_nodes DOrdered) in Hd' as [_ E]. unfold isOn. rewrite E. reflexivity.
    - apply uniq_dl_NoDup.
    - intros L HL Hne. destruct (Ls_two L HL) as [E|E]; [|congruence]. subst L. unfold h.
      rewrite (run_two DDefault (or_introl eq_refl)). apply filter_all_false.
      intros d Hd'. apply (base_diff_nodes DDefault) in Hd' as [_ E]. unfold isOn. rewrite E. reflexivity.
    - intro Hn. unfold h. rewrite (run_two DOrdered (or_intror eq_refl)).
      assert (Ha : forall (f : forest) , (forall k, In k (annot_f rmatch rs f) -> In (mi_dlogic (ami k))
                 (map (fun k => mi_dlogic (ami k)) ao ++ map (fun k => mi_dlogic (ami k)) an)) ->
                 filter (inL DOrdered) (annot_f rmatch rs f) = []).
      { intros f Hf'. apply filter_all_false. intros k Hk. unfold inL. destruct (dlogic_eqb (mi_dlogic (ami k)) DOrdered) eqn:E; [|reflexivity].
        exfalso. apply Hn. apply (proj2 (uniq_dl_In0 _ _)). apply dlogic_eqb_eq in E. rewrite <- E. apply Hf'. exact Hk. }
      unfold ao, an. rewrite (Ha fo), (Ha fn); [reflexivity | |].
      + intros k Hk. apply in_or_app. right. apply (in_map (fun k => mi_dlogic (ami k))). exact Hk.
      + intros k Hk. apply in_or_app. left. apply (in_map (fun k => mi_dlogic (ami k))). exact Hk.
  Qed.

  Lemma BO_erased : map erase_d BO = D0 rmatch rs O N.
  Proof.
    unfold BO. rewrite base_diff_erase. unfold ao, an. rewrite !erase_ordered_part.
    fold O N. rewrite (flat_base_diff O N O_nodup). apply D0_erased.
  Qed.

  (* the marked diff and its %ordered entries *)
  Definition dd : list dnode := make_diff rmatch rs fo fn.
  Definition dO : list dnode := filter isOn dd.

  Definition rel (x d0 : dnode) : Prop :=
    d_row x = d_row d0 /\ d_mi x = d_mi d0 /\ (d_op x = d_op d0 \/ (d_op d0 = Affected /\ d_op x = Unchanged)).

  Lemma dO_rel : Forall2 rel dO (D0 rmatch rs O N).
  Proof.
    unfold dO, dd, make_diff. fold rawd.
    rewrite filter_mark_comm by (intro d; unfold isOn; rewrite mark_mi; reflexivity).
    rewrite rawd_ordered. rewrite <- BO_erased. unfold mark_unchanged.
    induction BO as [|x l IH]; [constructor|]. cbn [map]. constructor; [|exact IH].
    unfold rel, erase_d. cbn [d_row d_mi d_op]. rewrite mark_row, mark_mi. split; [reflexivity|]. split; [reflexivity|].
    destruct (mark_op x) as [E|[E1 E2]]; [left; exact E | right; split; assumption].
  Qed.

  Lemma dd_nodes d : In d dd -> nodeQ d.
  Proof.
    unfold dd, make_diff. fold rawd. intro H. unfold mark_unchanged in H. apply in_map_iff in H as (x & <- & Hx).
    unfold nodeQ. rewrite mark_row, mark_mi. exact (rawd_nodes x Hx).
  Qed.

  (* ---------- B. the patch of the level ---------- *)
  Variable ord : list orule.
  Variable pt : ptree.
  Hypothesis Hpatch : mkpatch (make_pre dd) ord = POk pt.

  Notation slot_items := (slot_items rmatch rsrc rrev block_exit rreverse).
  Notation conv_flat := (conv_flat rmatch rsrc rrev block_exit rreverse).
  Notation skof := (skof rmatch rsrc rrev block_exit).
  Notation cn := (cn rmatch rsrc rrev block_exit rreverse).

  Let es := map make_pre_n dd.
  Let flat := flat_groups (group_all es).
  Definition eR (e : string * attrs * list string * list pitem) (its : list item) : Prop :=
    slot_items ord (conv_flat e) = Some its.

  Lemma patch_decomp : exists ll, pt = PT (sort_items (List.concat ll)) /\ Forall2 eR flat ll.
  Proof.
    pose proof Hpatch as H. rewrite make_pre_groups in H. fold es in H.
    rewrite make_patch_unfold in H. fold flat in H.
    destruct (all_some (map (slot_items ord) (map conv_flat flat))) as [ll|] eqn:E; [|discriminate].
    injection H as <-. exists ll. split; [reflexivity|].
    apply all_some_map in E. apply Forall2_map_left in E. exact E.
  Qed.

  Lemma pre_fields nd :
    pe_raw (make_pre_n nd) = mi_raw (d_mi nd) /\ pe_attrs (make_pre_n nd) = mi_attrs (d_mi nd) /\
    pe_key (make_pre_n nd) = mi_key (d_mi nd).
  Proof. destruct nd as [o row m k]. repeat split. Qed.

  Lemma pre_item nd : conv_item rmatch rsrc rrev block_exit rreverse (pe_item (make_pre_n nd)) = cn nd.
  Proof. reflexivity. Qed.

  (* the slot of an element of the flattened grouping *)
  Lemma flat_slot e : In e flat ->
    exists n1, In n1 dd /\ fst (fst (fst e)) = mi_raw (d_mi n1) /\ snd (fst e) = mi_key (d_mi n1) /\
               snd (fst (fst e)) = mi_attrs (d_mi n1) /\
               snd e = map (fun n => pe_item (make_pre_n n))
                           (filter (fun n => in_slot_e (mi_raw (d_mi n1)) (mi_key (d_mi n1)) (make_pre_n n)) dd).
  Proof.
    destruct e as [[[raw a] key] its0]. intro He.
    destruct (flat_group_all es raw a key its0 He) as (Hits & Hne & e0 & He0 & Hr0 & Ha0).
    unfold es in Hits, He0. rewrite filter_map_comm, map_map in Hits.
    apply in_map_iff in He0 as (n0 & <- & Hn0).
    destruct (filter (fun x => in_slot_e raw key (make_pre_n x)) dd) as [|n1 rest] eqn:Ef.
    { subst its0. cbn in Hne. congruence. }
    assert (Hn1 : In n1 dd /\ in_slot_e raw key (make_pre_n n1) = true).
    { apply (filter_In (fun x => in_slot_e raw key (make_pre_n x))). rewrite Ef. now left. }
    destruct Hn1 as [Hn1 Hs1]. unfold in_slot_e in Hs1. apply andb_true_iff in Hs1 as [Hs1 Hs2].
    apply String.eqb_eq in Hs1. apply list_str_eqb_eq in Hs2.
    destruct (pre_fields n1) as (F1 & _ & F3). rewrite F1 in Hs1. rewrite F3 in Hs2.
    destruct (pre_fields n0) as (G1 & G2 & _). rewrite G1 in Hr0. rewrite G2 in Ha0.
    destruct (dd_nodes n1 Hn1) as (Hu1 & Hsl1 & _). destruct (dd_nodes n0 Hn0) as (Hu0 & Hsl0 & _).
    exists n1. cbn [fst snd]. split; [exact Hn1|]. split; [congruence|]. split; [congruence|]. split.
    - rewrite <- Ha0. apply (lo_attrs _ _ _ _ _ HU (d_row n1) (d_mi n1) (d_row n0) (d_mi n0) Hu1 Hsl1 Hu0 Hsl0). congruence.
    - rewrite Hits, Hs1, Hs2, Ef. reflexivity.
  Qed.

  (* what an item of the patch is, for ANY logic of its slot *)
  Lemma item_class e its it : In e flat -> eR e its -> In it its ->
    exists n1, In n1 dd /\ fst (fst (fst e)) = mi_raw (d_mi n1) /\ snd (fst e) = mi_key (d_mi n1) /\
      ((exists n, In n dd /\ key_of (d_mi n) = key_of (d_mi n1) /\ irow it = d_row n /\
                  snd it = skof ord (mi_raw (d_mi n1)) (d_row n) true) \/
       (irow it = rev_of (d_mi n1) /\ ichild it = None /\
        snd it = skof ord (mi_raw (d_mi n1)) (rev_of (d_mi n1)) false)).
  Proof.
    intros He HR Hit. destruct (flat_slot e He) as (n1 & Hn1 & E1 & E2 & E3 & E4).
    exists n1. split; [exact Hn1|]. split; [exact E1|]. split; [exact E2|].
    destruct e as [[[raw a] key] its0]. cbn [fst snd] in *. subst raw key a its0.
    unfold eR, ConvergePre.conv_flat in HR. cbn [fst snd] in HR.
    destruct (dd_nodes n1 Hn1) as (Hu1 & Hsl1 & _).
    pose proof (slot_items_rows rmatch rsrc rrev block_exit rreverse ord _ _ _ _ _ (od_fc HD _ _ Hu1 Hsl1) HR) as Hall.
    rewrite Forall_forall in Hall. destruct (Hall it Hit) as [(c & Hc & Hrow & Hk)|(Hrow & Hch & Hk)].
    - left. rewrite map_map in Hc. apply in_map_iff in Hc as (n & <- & Hn). apply filter_In in Hn as [Hn Hs].
      rewrite pre_item, cn_eq in Hrow, Hk. unfold crow in Hrow, Hk. cbn [fst snd] in Hrow, Hk.
      exists n. split; [exact Hn|]. split; [|split; assumption].
      unfold in_slot_e in Hs. apply andb_true_iff in Hs as [Hs1 Hs2]. apply String.eqb_eq in Hs1. apply list_str_eqb_eq in Hs2.
      destruct (pre_fields n) as (F1 & _ & F3). unfold key_of. congruence.
    - right. unfold reverse_of. auto.
  Qed.

  (* ---------- C. what an item does to the %ordered sequence ---------- *)
  Definition P : list string := firstn (cpl N O) N.
  Definition UOd : list string := nodup string_dec UO.

  Definition cls (it : item) : list cmd :=
    match slot (irow it) with
    | Some s => if is_ordered s then [(true, irow it)] else []
    | None => map (fun r => (false, r)) (filter (fun r => String.eqb (rev r) (irow it)) UOd)
    end.
  Definition keepc (c : cmd) : bool := negb (fst c && memb (snd c) P).
  Definition q (it : item) : bool := match cls it with [c] => keepc c | _ => false end.

  Lemma cls_direct it s : slot (irow it) = Some s -> cls it = if is_ordered s then [(true, irow it)] else [].
  Proof. intro H. unfold cls. rewrite H. reflexivity. Qed.

  Lemma cls_rev it r1 s : In r1 (keys UF) -> slot r1 = Some s -> (In r1 (keys fo) \/ In r1 (keys fn)) ->
    irow it = rev_of s -> cls it = if is_ordered s then [(false, r1)] else [].
  Proof.
    intros Hu Hs Hf Hrow.
    assert (Hm : slot (irow it) = None).
    { unfold slot_of. rewrite Hrow, (lo_rev_unmatched _ _ _ _ _ HU r1 s Hu Hs). reflexivity. }
    unfold cls. rewrite Hm. destruct (is_ordered s) eqn:Eo.
    - assert (H1 : In r1 UO).
      { apply in_or_app. destruct Hf as [Hf|Hf]; [left | right]; eapply in_oseq; eauto. }
      rewrite (filter_nodup_single _ r1); [reflexivity | apply NoDup_nodup | apply nodup_In; exact H1 | |].
      + rewrite (rev_slot r1 s Hs), Hrow. apply String.eqb_refl.
      + intros y Hy Ey. apply nodup_In in Hy. apply String.eqb_eq in Ey.
        apply (fd_revinj _ _ _ _ _ UO_fdom y r1 Hy H1). rewrite Ey, Hrow. symmetry. apply rev_slot. exact Hs.
    - rewrite filter_all_false; [reflexivity|]. intros y Hy. apply nodup_In in Hy.
      destruct (UO_slot y Hy) as (HyU & sy & Hsy & Hoy).
      destruct (String.eqb_spec (rev y) (irow it)) as [E|E]; [|reflexivity]. exfalso.
      rewrite (rev_slot y sy Hsy), Hrow in E.
      pose proof (lo_rev_inj _ _ _ _ _ HU r1 s y sy Hu Hs HyU Hsy E) as Hk.
      pose proof (ordered_by_key rmatch rreverse is_exit rs UF HU r1 s y sy Hu Hs HyU Hsy Hk). congruence.
  Qed.

  Lemma item_cls e its it : In e flat -> eR e its -> In it its ->
    otag rmatch rreverse rs UF it (cls it) /\ (isRf R e = false -> cls it = []).
  Proof.
    intros He HR Hit. destruct (item_class e its it He HR Hit) as (n1 & Hn1 & E1 & E2 & Hcase).
    destruct (dd_nodes n1 Hn1) as (Hu1 & Hs1 & Hf1).
    assert (HnR : isRf R e = false -> is_ordered (d_mi n1) = false).
    { intro Hf. unfold isRf in Hf. rewrite E1 in Hf. apply String.eqb_neq in Hf.
      destruct (is_ordered (d_mi n1)) eqn:Eo; [|reflexivity]. exfalso. apply Hf. apply (od_R HD _ _ Hu1 Hs1). exact Eo. }
    destruct Hcase as [(n & Hn & Hk & Hrow & _)|(Hrow & Hch & _)].
    - destruct (dd_nodes n Hn) as (Hu & Hs & _). rewrite <- Hrow in Hu, Hs.
      pose proof (ordered_by_key rmatch rreverse is_exit rs UF HU (d_row n1) (d_mi n1) (irow it) (d_mi n) Hu1 Hs1 Hu Hs Hk) as Ho.
      rewrite (cls_direct it _ Hs). split.
      + destruct (is_ordered (d_mi n)) eqn:Eo; [eapply ot_dir | eapply ot_dir_other]; eauto.
      + intro Hf. rewrite Ho, (HnR Hf). reflexivity.
    - rewrite (cls_rev it _ _ Hu1 Hs1 Hf1 Hrow). split.
      + destruct (is_ordered (d_mi n1)) eqn:Eo; [eapply ot_rev | eapply ot_rev_other]; eauto.
      + intro Hf. rewrite (HnR Hf). reflexivity.
  Qed.

  (* ---------- the slots of the %ordered rule, one entry each ---------- *)
  Definition sk (it : item) : skey * list cmd := (snd it, cls it).
  Definition skT (x : item * cmd) : skey * list cmd := (snd (fst x), [snd x]).
  Definition g (its : list item) : list (skey * list cmd) := map sk (filter q its).
  Definition hR (e : pentry) : string * attrs * list string * list pitem := (R, aR, pe_key e, [pe_item e]).

  Lemma run_logic_one' pat key o r (mk : ckpre) ne :
    run_logic rreverse pat key LOrdered [(o, r, mk, ne)] =
    Some (match o with
          | Unchanged => []
          | Added | Affected => [(true, r, Some (mk, ne))]
          | Moved => [(false, rreverse pat key, None); (true, r, Some (mk, ne))]
          | Removed => [(false, rreverse pat key, None)]
          end).
  Proof. destruct o; reflexivity. Qed.

  Lemma ord_slot_items o r mk ne key its : a_force_commit aR = false ->
    slot_items ord (R, aR, key, [(o, r, mk, ne)]) = Some its ->
    let u := ord_uitem rmatch rsrc rrev block_exit ord R (rreverse (a_pat aR) key) in
    match o with
    | Unchanged => its = []
    | Added | Affected => exists it, its = [it] /\ irow it = r /\ snd it = skof ord R r true
    | Moved => exists it, its = [u; it] /\ irow it = r /\ snd it = skof ord R r true
    | Removed => its = [u]
    end.
  Proof.
    intros Hfc H. unfold ConvergePre.slot_items in H. rewrite (od_lg HD), run_logic_one' in H.
    assert (Hd : forall l, option_map (@List.concat _) (all_some (map (yield_item rmatch rsrc rrev block_exit ord R aR) [(true, r, Some (mk, ne))])) = Some l ->
                exists it, l = [it] /\ irow it = r /\ snd it = skof ord R r true).
    { intros l Hl. cbn [map all_some] in Hl.
      destruct (yield_item rmatch rsrc rrev block_exit ord R aR (true, r, Some (mk, ne))) as [l0|] eqn:Ey; [|discriminate].
      cbn in Hl. injection Hl as <-. destruct (yield_item_one rmatch rsrc rrev block_exit ord R aR _ l0 Hfc Ey) as (it & -> & Hr & _ & Hk).
      exists it. cbn [List.concat app]. auto. }
    destruct o; cbv zeta.
    - apply Hd. exact H.
    - cbn [map all_some] in H. rewrite (yield_undo rmatch rsrc rrev block_exit ord R aR _ Hfc) in H.
      cbn in H. injection H as <-. reflexivity.
    - cbn [map all_some] in H. rewrite (yield_undo rmatch rsrc rrev block_exit ord R aR _ Hfc) in H.
      destruct (yield_item rmatch rsrc rrev block_exit ord R aR (true, r, Some (mk, ne))) as [l0|] eqn:Ey; [|discriminate].
      cbn in H. injection H as <-. destruct (yield_item_one rmatch rsrc rrev block_exit ord R aR _ l0 Hfc Ey) as (it & -> & Hr & _ & Hk).
      exists it. cbn [List.concat app]. auto.
    - apply Hd. exact H.
    - cbn in H. injection H as <-. reflexivity.
  Qed.

  (* where an entry of the flat diff comes from *)
  Lemma D0_side d0 : In d0 (D0 rmatch rs O N) ->
    d0 = ConvergeOrdFlat.nd rmatch rs (d_op d0) (d_row d0) /\ In (d_row d0) UO /\
    ((d_op d0 = Affected /\ In (d_row d0) P) \/
     ((d_op d0 = Moved \/ d_op d0 = Added) /\ ~ In (d_row d0) P) \/ d_op d0 = Removed).
  Proof.
    intro H. pose proof (D0_isnd rmatch rs UO O N O_incl N_incl) as Hi. rewrite Forall_forall in Hi.
    destruct (Hi d0 H) as [Hd Hu]. split; [exact Hd|]. split; [exact Hu|].
    apply (Permutation_in _ (D0_perm rmatch rs O N)) in H. apply in_app_or in H as [H|H].
    - unfold news_of in H. apply in_app_or in H as [H|H]; apply in_map_iff in H as (r & E & Hr); subst d0; cbn [ConvergeOrdFlat.nd d_op d_row].
      + left. split; [reflexivity | exact Hr].
      + right. left. split; [unfold am; destruct (memb r O); auto|].
        apply (skipn_in_iff _ N r N_nodup) in Hr. tauto.
    - apply in_map_iff in H as (r & E & Hr). subst d0. right. right. reflexivity.
  Qed.

  Lemma aR_fc r : In r UO -> a_force_commit aR = false.
  Proof.
    intro Hr. destruct (UO_slot r Hr) as (HrU & s & Hs & Ho). rewrite <- (od_aR HD r s HrU Hs Ho). exact (od_fc HD r s HrU Hs).
  Qed.

  Lemma node_skel nd d0 its : rel nd d0 -> In d0 (D0 rmatch rs O N) -> eR (hR (make_pre_n nd)) its ->
    g its = map skT (tc rmatch rsrc rrev block_exit rreverse rs ord d0).
  Proof.
    intros (Er & Em & Eop) Hd0 HR. destruct (D0_side d0 Hd0) as (Hnd & Hu & Hside).
    set (r := d_row d0) in *. destruct (UO_slot r Hu) as (HrU & m & Hs & Ho).
    assert (Hm0 : d_mi d0 = m) by (rewrite Hnd; cbn [ConvergeOrdFlat.nd d_mi]; apply mi_of_slot; exact Hs).
    assert (HmR : mi_raw m = R) by (apply (od_R HD r m HrU Hs); exact Ho).
    assert (HmA : mi_attrs m = aR) by (apply (od_aR HD r m HrU Hs Ho)).
    assert (Hrf : In r (keys fo) \/ In r (keys fn)).
    { apply in_app_or in Hu as [Hu|Hu]; [left; apply (oseq_slot fo r Hio Hu) | right; apply (oseq_slot fn r Hin Hu)]. }
    unfold eR, hR, ConvergePre.conv_flat in HR. cbn [fst snd map] in HR. rewrite pre_item, cn_eq in HR.
    destruct (pre_fields nd) as (_ & _ & F3). rewrite F3, Em, Hm0, Er in HR. fold r in HR.
    pose proof (ord_slot_items _ _ _ _ _ _ (aR_fc r Hu) HR) as Hshape. cbv zeta in Hshape.
    assert (Hrv : rreverse (a_pat aR) (mi_key m) = rev_of m) by (unfold reverse_of; rewrite HmA; reflexivity).
    rewrite Hrv in Hshape.
    assert (Hcd : forall it, irow it = r -> cls it = [(true, r)]).
    { intros it Hi. rewrite (cls_direct it m) by (rewrite Hi; exact Hs). rewrite Ho, Hi. reflexivity. }
    assert (Hcu : cls (ord_uitem rmatch rsrc rrev block_exit ord R (rev_of m)) = [(false, r)]).
    { rewrite (cls_rev _ r m HrU Hs Hrf) by reflexivity. rewrite Ho. reflexivity. }
    assert (Hqu : q (ord_uitem rmatch rsrc rrev block_exit ord R (rev_of m)) = true) by (unfold q; rewrite Hcu; reflexivity).
    assert (Hqd : forall it, irow it = r -> q it = negb (memb r P)).
    { intros it Hi. unfold q. rewrite (Hcd it Hi). reflexivity. }
    unfold tc. fold r. rewrite <- (mi_of_slot r m Hs) in HmR, HmA. rewrite HmR, HmA.
    assert (Erev : rev r = rev_of m) by (apply rev_slot; exact Hs). rewrite Erev.
    unfold g.
    destruct Hside as [[Eo0 HP]|[[Eo0 HP]|Eo0]].
    - (* stays in front *)
      rewrite Eo0. cbn [mop map]. rewrite Eo0 in Eop. destruct Eop as [Eo|[_ Eo]]; rewrite Eo in Hshape.
      + destruct Hshape as (it & -> & Hi & _). cbn [filter]. rewrite (Hqd it Hi).
        apply memb_In in HP. rewrite HP. reflexivity.
      + subst its. reflexivity.
    - apply memb_false in HP.
      assert (Eo : d_op nd = d_op d0) by (destruct Eop as [E|[E _]]; [exact E | destruct Eo0; congruence]).
      rewrite Eo in Hshape. destruct Eo0 as [Eo0|Eo0]; rewrite Eo0 in Hshape |- *; cbn [mop].
      + destruct Hshape as (it & -> & Hi & Hk). cbn [filter]. rewrite Hqu, (Hqd it Hi), HP. cbn [negb map].
        unfold sk, skT. cbn [fst snd]. rewrite Hcu, (Hcd it Hi), Hk. reflexivity.
      + destruct Hshape as (it & -> & Hi & Hk). cbn [filter]. rewrite (Hqd it Hi), HP. cbn [negb map].
        unfold sk, skT. cbn [fst snd]. rewrite (Hcd it Hi), Hk. reflexivity.
    - assert (Eo : d_op nd = d_op d0) by (destruct Eop as [E|[E _]]; [exact E | congruence]).
      rewrite Eo, Eo0 in Hshape. rewrite Eo0. cbn [mop]. subst its. cbn [filter]. rewrite Hqu. cbn [map].
      unfold sk, skT. cbn [fst snd]. rewrite Hcu. reflexivity.
  Qed.

  (* ---------- C2. the slots of the %ordered rule in the flattened grouping ---------- *)
  Lemma dO_raw : filter (fun n => String.eqb (mi_raw (d_mi n)) R) dd = dO.
  Proof.
    unfold dO. apply filter_ext_in. intros n Hn. destruct (dd_nodes n Hn) as (Hu & Hs & _). unfold isOn.
    change (dlogic_eqb (mi_dlogic (d_mi n)) DOrdered) with (is_ordered (d_mi n)).
    destruct (is_ordered (d_mi n)) eqn:Eo.
    - apply String.eqb_eq. apply (od_R HD _ _ Hu Hs). exact Eo.
    - apply String.eqb_neq. intro E. apply (od_R HD _ _ Hu Hs) in E. congruence.
  Qed.

  Lemma esR : filter (isRe R) es = map make_pre_n dO.
  Proof.
    unfold es. rewrite filter_map_comm. rewrite <- dO_raw. f_equal. apply filter_ext. intro n. unfold isRe.
    destruct (pre_fields n) as (E & _). rewrite E. reflexivity.
  Qed.

  Lemma Forall2_map_eq {A B C} (Rel : A -> B -> Prop) (Pb : B -> Prop) (f : A -> C) (f' : B -> C) l l' :
    Forall2 Rel l l' -> Forall Pb l' -> (forall a b, Rel a b -> Pb b -> f a = f' b) -> map f l = map f' l'.
  Proof.
    intros H HP Hf. induction H as [|a b l l' Hab Hl IH]; [reflexivity|]. inversion HP; subst.
    cbn [map]. rewrite (Hf a b Hab) by assumption. f_equal. apply IH. assumption.
  Qed.

  Lemma dO_keys_nodup : NoDup (map pe_key (map make_pre_n dO)).
  Proof.
    rewrite map_map. rewrite (map_ext _ (fun n => mi_key (d_mi n))) by (intro n; apply pre_fields).
    rewrite (Forall2_map_eq rel (isnd rmatch rs UO) (fun n => mi_key (d_mi n)) (fun d => mi_key (mi_of (d_row d))) dO
               (D0 rmatch rs O N) dO_rel (D0_isnd rmatch rs UO O N O_incl N_incl)).
    - apply (map_key_nodup rmatch rreverse is_exit rs UO UO_fdom); [apply D0_isnd; [exact O_incl | exact N_incl]|].
      apply D0_rows_nodup; [exact O_nodup | exact N_nodup].
    - intros a b (_ & Em & _) [Hb _]. rewrite Em, Hb. reflexivity.
  Qed.

  Lemma flatR : filter (isRf R) flat = map hR (map make_pre_n dO).
  Proof.
    pose proof (rkeys_group_all R es) as Hk. rewrite esR in Hk. specialize (Hk dO_keys_nodup). fold flat in Hk.
    assert (Hx : forall x, In x (filter (isRf R) flat) -> x = (R, aR, snd (fst x), snd x)).
    { intros x Hx. apply filter_In in Hx as [Hx Hr]. unfold isRf in Hr. apply String.eqb_eq in Hr.
      destruct (flat_slot x Hx) as (n1 & Hn1 & E1 & _ & E3 & _). destruct (dd_nodes n1 Hn1) as (Hu1 & Hs1 & _).
      assert (Ho : is_ordered (d_mi n1) = true) by (apply (od_R HD _ _ Hu1 Hs1); congruence).
      destruct x as [[[raw a] key] its0]. cbn [fst snd] in *. rewrite Hr, E3, (od_aR HD _ _ Hu1 Hs1 Ho). reflexivity. }
    rewrite <- (map_id (filter (isRf R) flat)).
    rewrite (map_ext_in _ (fun x => (fun p : list string * list pitem => (R, aR, fst p, snd p)) (snd (fst x), snd x))) by (intros x Hx'; apply Hx; exact Hx').
    rewrite <- (map_map (fun x : string * attrs * list string * list pitem => (snd (fst x), snd x))
                        (fun p : list string * list pitem => (R, aR, fst p, snd p))).
    rewrite Hk, map_map. reflexivity.
  Qed.

  Lemma map_flat_map2 {A B C} (f : B -> C) (h : A -> list B) l : map f (flat_map h l) = flat_map (fun x => map f (h x)) l.
  Proof. induction l as [|x l IH]; [reflexivity|]. cbn. rewrite map_app, IH. reflexivity. Qed.

  (* the patch items that act on the %ordered sequence (front rows that are merely entered left out), with their sort
     keys, in the order of emission, are those of the flat patch for the two sequences *)
  Lemma skel ll : Forall2 eR flat ll ->
    map sk (filter q (List.concat ll)) = map skT (tout rmatch rsrc rrev block_exit rreverse rs ord O N).
  Proof.
    intro HF. rewrite filter_concat, concat_map, map_map.
    change (map (fun x : list item => map sk (filter q x)) ll) with (map g ll).
    destruct (forall2_filter eR (isRf R) g flat ll HF) as (llR & HR & E).
    { intros e its He HRe Hp. unfold g. rewrite filter_all_false; [reflexivity|]. intros it Hit. unfold q.
      rewrite (proj2 (item_cls e its it He HRe Hit) Hp). reflexivity. }
    rewrite E. clear E. rewrite flatR in HR. apply Forall2_map_left in HR. apply Forall2_map_left in HR.
    unfold tout. rewrite map_flat_map2.
    assert (G : forall l1 l2, Forall2 rel l1 l2 -> (forall d0, In d0 l2 -> In d0 (D0 rmatch rs O N)) ->
              forall l3, Forall2 (fun n its => eR (hR (make_pre_n n)) its) l1 l3 ->
              List.concat (map g l3) = flat_map (fun d0 => map skT (tc rmatch rsrc rrev block_exit rreverse rs ord d0)) l2).
    { induction 1 as [|nd d0 l1 l2 Hr Hl IH]; intros Hall l3 H3; inversion H3 as [|a its l1' l3' Ha Hl3]; subst; [reflexivity|].
      cbn [map List.concat flat_map]. rewrite (node_skel nd d0 its Hr (Hall d0 (or_introl eq_refl)) Ha). f_equal.
      apply IH; [intros d Hd; apply Hall; now right | exact Hl3]. }
    exact (G dO (D0 rmatch rs O N) dO_rel (fun d H => H) llR HR).
  Qed.

  (* ---------- D. the list machine ---------- *)
  Lemma flat_machine ord' o n : NoDup o -> NoDup n ->
    let ts := tsorted rmatch rsrc rrev block_exit rreverse rs ord' o n in
    (forall x y, In x (tout rmatch rsrc rrev block_exit rreverse rs ord' o n) ->
                 In y (tout rmatch rsrc rrev block_exit rreverse rs ord' o n) ->
                 isd x = true -> isd y = true -> eqv tleb x y = true) ->
    (forall l1 r l2, map snd ts = l1 ++ (true, r) :: l2 -> ~ In (false, r) l2) ->
    fold_left lstep (map snd ts) o = n.
  Proof.
    intros Hndo Hndn ts Hk Hfirst.
    assert (Hi : forall x, In x ts <-> In x (tout rmatch rsrc rrev block_exit rreverse rs ord' o n)) by (intro x; apply sort_in).
    set (k := cpl n o).
    assert (Eo : firstn k n ++ skipn k o = o) by (unfold k; rewrite (cpl_firstn n o); apply firstn_skipn).
    assert (En : firstn k n ++ skipn k n = n) by apply firstn_skipn.
    assert (M : fold_left lstep (map snd ts) (firstn k n ++ skipn k o) = firstn k n ++ skipn k n);
      [|rewrite Eo, En in M; exact M].
    apply machine_converges.
    - rewrite Eo. exact Hndo.
    - rewrite En. exact Hndn.
    - rewrite snd_filter_dirs. unfold ts, tsorted. rewrite (stable_class tleb isd _ tleb_total tleb_trans Hk). apply tout_dirs.
    - intros r Hr. apply in_map_iff in Hr as (x & E & Hx). apply (tout_undo rmatch rsrc rrev block_exit rreverse rs ord' o n r Hndo Hndn).
      exists (fst x). apply Hi. destruct x as [it c]. cbn [fst snd] in *. subst c. exact Hx.
    - intros r Hr. apply (tout_undo rmatch rsrc rrev block_exit rreverse rs ord' o n r Hndo Hndn) in Hr as (it & Hit).
      apply in_map_iff. exists (it, (false, r)). split; [reflexivity | apply Hi; exact Hit].
    - exact Hfirst.
  Qed.

  Lemma sort_by_key {X Y K C} (kleb : K -> K -> bool) (kx : X -> K) (ky : Y -> K) (px : X -> C) (py : Y -> C) l l' :
    map (fun x => (kx x, px x)) l = map (fun y => (ky y, py y)) l' ->
    map px (stable_sort (leb_on kleb kx) l) = map py (stable_sort (leb_on kleb ky) l').
  Proof.
    intro E. set (leb2 := fun p p' : K * C => kleb (fst p) (fst p')).
    pose proof (sort_map_key leb2 (fun x => (kx x, px x)) l) as H1.
    pose proof (sort_map_key leb2 (fun y => (ky y, py y)) l') as H2.
    change (leb_on leb2 (fun x => (kx x, px x))) with (leb_on kleb kx) in H1.
    change (leb_on leb2 (fun y => (ky y, py y))) with (leb_on kleb ky) in H2.
    rewrite E, <- H2 in H1. apply (f_equal (map snd)) in H1. rewrite !map_map in H1. exact H1.
  Qed.

  Definition c1 (it : item) : cmd := hd (true, "") (cls it).

  Lemma q_single it : q it = true -> cls it = [c1 it].
  Proof. unfold q, c1. destruct (cls it) as [|c [|c' l]]; try discriminate. reflexivity. Qed.

  Lemma cls_true it r : cls it = [(true, r)] -> irow it = r /\ exists s, slot r = Some s.
  Proof.
    unfold cls. destruct (slot (irow it)) as [s|] eqn:Es.
    - destruct (is_ordered s); [|discriminate]. intro H. injection H as <-. split; [reflexivity | eauto].
    - destruct (filter _ UOd); cbn; discriminate.
  Qed.

  Lemma cls_false it r : cls it = [(false, r)] -> irow it = rev r.
  Proof.
    unfold cls. destruct (slot (irow it)) as [s|] eqn:Es.
    - destruct (is_ordered s); discriminate.
    - intro H. assert (Hi : In (false, r) (map (fun r0 => (false, r0)) (filter (fun r0 => String.eqb (rev r0) (irow it)) UOd)))
        by (rewrite H; now left).
      apply in_map_iff in Hi as (r0 & E & Hr0). injection E as ->. apply filter_In in Hr0 as [_ Hr0].
      apply String.eqb_eq in Hr0. symmetry. exact Hr0.
  Qed.

  (* direct commands of rows that stay in front do nothing to the sequence *)
  Lemma noop_gen : forall S st, incl P st ->
    (forall it, In it S -> cls it = [] \/ exists c, cls it = [c]) ->
    (forall it r, In it S -> cls it = [(false, r)] -> ~ In r P) ->
    fold_left lstep (List.concat (map cls S)) st = fold_left lstep (map c1 (filter q S)) st.
  Proof.
    induction S as [|it S IH]; intros st HP Hform Hrem; [reflexivity|].
    assert (IH' : forall st', incl P st' -> fold_left lstep (List.concat (map cls S)) st' = fold_left lstep (map c1 (filter q S)) st').
    { intros st' HP'. apply IH; [exact HP' | intros; apply Hform; now right | intros i r Hi; apply Hrem; now right]. }
    cbn [map List.concat filter]. rewrite fold_left_app.
    destruct (Hform it (or_introl eq_refl)) as [E|[c E]].
    - unfold q. rewrite E. cbn [fold_left]. apply IH'. exact HP.
    - unfold q at 1. rewrite E. cbn [fold_left]. destruct (keepc c) eqn:Ek.
      + change (map c1 (it :: filter q S)) with (c1 it :: map c1 (filter q S)). cbn [fold_left].
        replace (c1 it) with c by (unfold c1; rewrite E; reflexivity). apply IH'.
        destruct c as [[|] r]; unfold lstep; cbn [fst snd].
        * destruct (memb r st); [exact HP | intros x Hx; apply in_or_app; left; apply HP; exact Hx].
        * intros x Hx. unfold drop. apply filter_In. split; [apply HP; exact Hx|].
          apply negb_true_iff. apply String.eqb_neq. intro Ex. subst x.
          exact (Hrem it r (or_introl eq_refl) E Hx).
      + replace (lstep st c) with st; [apply IH'; exact HP|].
        unfold keepc in Ek. apply negb_false_iff, andb_true_iff in Ek as [Ed Em]. destruct c as [b r]. cbn [fst snd] in *. subst b.
        unfold lstep. cbn [fst snd]. apply memb_In in Em. apply HP in Em. apply memb_In in Em. rewrite Em. reflexivity.
  Qed.

  (* ---------- the theorem of the level ---------- *)
  Hypothesis Huo : lvl_uniq rmatch rs fo.
  Hypothesis Huf : undo_first_b rmatch rreverse pt rs = true.
  Hypothesis Hkeys : ord_keys_ok_b rmatch pt rs = true.

  Lemma Forall2_map_self {A B} (Pr : A -> B -> Prop) (f : A -> B) l : (forall x, In x l -> Pr x (f x)) -> Forall2 Pr l (map f l).
  Proof. induction l as [|x l IH]; intro H; cbn [map]; constructor; [apply H; now left | apply IH; intros y Hy; apply H; now right]. Qed.

  Lemma P_firstn_O : P = firstn (cpl N O) O.
  Proof. unfold P. apply cpl_firstn. Qed.

  Theorem level_seq : oseq (run_pt rmatch rreverse is_exit pt rs fo) = N.
  Proof.
    destruct patch_decomp as (ll & Ept & HF). pose proof (skel ll HF) as Hsk.
    set (out := List.concat ll) in *. set (S := sort_items out) in *.
    assert (HinS : forall it, In it S <-> In it out) by (intro; apply sort_in).
    assert (Hot : forall it, In it out -> otag rmatch rreverse rs UF it (cls it)).
    { intros it Hit. apply in_concat in Hit as (its & Hits & Hit).
      destruct (Forall2_in_r eR flat ll its HF Hits) as (e & He & HRe). exact (proj1 (item_cls e its it He HRe Hit)). }
    set (TO := tout rmatch rsrc rrev block_exit rreverse rs ord O N) in *.
    change (map sk (filter q out) = map skT TO) in Hsk.
    (* elements of the skeleton *)
    assert (Hsk_l : forall it, In it out -> q it = true -> exists x, In x TO /\ snd (fst x) = snd it /\ cls it = [snd x]).
    { intros it Hit Hq. assert (Hi : In (sk it) (map skT TO)) by (rewrite <- Hsk; apply in_map; apply filter_In; auto).
      apply in_map_iff in Hi as (x & E & Hx). exists x. split; [exact Hx|]. unfold sk, skT in E. injection E as E1 E2. auto. }
    assert (Hsk_r : forall x, In x TO -> exists it, In it out /\ q it = true /\ snd it = snd (fst x) /\ cls it = [snd x]).
    { intros x Hx. assert (Hi : In (skT x) (map sk (filter q out))) by (rewrite Hsk; apply in_map; exact Hx).
      apply in_map_iff in Hi as (it & E & Hit). apply filter_In in Hit as [Hit Hq]. exists it.
      unfold sk, skT in E. injection E as E1 E2. auto. }
    (* 1. the frame rule *)
    assert (Htag : Forall2 (otag rmatch rreverse rs UF) S (map cls S)).
    { apply Forall2_map_self. intros it Hit. apply Hot. apply HinS. exact Hit. }
    rewrite Ept, run_pt_fold.
    destruct (frame_seq rmatch rreverse is_exit rs UF HU Hokr S (map cls S) fo Htag (conj Huo Hio)) as [Efr _].
    rewrite Efr. fold O.
    (* 2. rows that stay in front and are merely entered *)
    rewrite (noop_gen S O).
    2:{ rewrite P_firstn_O. intros x Hx. rewrite <- (firstn_skipn (cpl N O) O). apply in_or_app. now left. }
    2:{ intros it Hit. apply HinS in Hit. pose proof (Hot it Hit) as Ht. inversion Ht; eauto. }
    2:{ intros it r Hit Hc. apply HinS in Hit.
        assert (Hq : q it = true) by (unfold q; rewrite Hc; reflexivity).
        destruct (Hsk_l it Hit Hq) as (x & Hx & _ & Ex). rewrite Hc in Ex. injection Ex as Ex.
        assert (Hu : In r (skipn (cpl N O) O)).
        { apply (tout_undo rmatch rsrc rrev block_exit rreverse rs ord O N r O_nodup N_nodup). exists (fst x).
          rewrite Ex. destruct x; exact Hx. }
        apply (skipn_in_iff _ O r O_nodup) in Hu. rewrite P_firstn_O. tauto. }
    (* 3. the sort keeps the relative order *)
    assert (Esort : filter q S = stable_sort ileb (filter q out)).
    { unfold S. symmetry. apply (sort_filter_commute ileb ileb_total ileb_trans). }
    (* 4. sorting depends on the keys only *)
    assert (Ecmds : map c1 (filter q S) = map snd (tsorted rmatch rsrc rrev block_exit rreverse rs ord O N)).
    { rewrite Esort.
      apply (sort_by_key skey_leb (fun it : item => snd it) (fun x : item * cmd => snd (fst x)) c1 snd (filter q out) TO).
      apply (f_equal (map (fun p : skey * list cmd => (fst p, hd (true, "") (snd p))))) in Hsk.
      rewrite !map_map in Hsk. exact Hsk. }
    rewrite Ecmds.
    (* 5. the list machine *)
    apply flat_machine; [exact O_nodup | exact N_nodup | |].
    - intros x y Hx Hy Ix Iy. fold TO in Hx, Hy.
      destruct (tout_dir rmatch rsrc rrev block_exit rreverse rs UO ord O N x O_incl N_incl Hx Ix) as (rx & Hrx & Ex).
      destruct (tout_dir rmatch rsrc rrev block_exit rreverse rs UO ord O N y O_incl N_incl Hy Iy) as (ry & Hry & Ey).
      assert (Hact : forall z rz, In z TO -> snd z = (true, rz) -> In rz UO ->
                exists it s c, In it S /\ snd it = snd (fst z) /\ match_row rmatch (irow it) rs = Some (s, c) /\ is_ordered s = true).
      { intros z rz Hz Ez Hrz. destruct (Hsk_r z Hz) as (it & Hit & _ & Ek & Ec). rewrite Ez in Ec.
        apply cls_true in Ec as [Er _]. destruct (UO_slot rz Hrz) as (_ & s & Hs & Ho).
        unfold slot_of in Hs. rewrite <- Er in Hs. destruct (match_row rmatch (irow it) rs) as [[s0 c]|] eqn:Em; [|discriminate].
        cbn in Hs. injection Hs as ->. exists it, s, c. split; [apply HinS; exact Hit|]. auto. }
      destruct (Hact x rx Hx ltac:(rewrite Ex; reflexivity) Hrx) as (i & si & ci & HiS & Eki & Mi & Oi).
      destruct (Hact y ry Hy ltac:(rewrite Ey; reflexivity) Hry) as (j & sj & cj & HjS & Ekj & Mj & Oj).
      rewrite Ept in Hkeys.
      destruct (ord_keys_pair rmatch rs S i j Hkeys HiS HjS (ex_intro _ si (ex_intro _ ci (conj Mi Oi)))
                  (ex_intro _ sj (ex_intro _ cj (conj Mj Oj)))) as [H1 H2].
      rewrite Eki, Ekj in H1, H2.
      assert (Hraw : snd (fst (snd (fst x))) = snd (fst (snd (fst y)))).
      { rewrite Ex, Ey. unfold ord_ditem. cbn [fst snd]. rewrite !skof_raw. apply (fd_one _ _ _ _ _ UO_fdom); assumption. }
      assert (Ek : snd (fst x) = snd (fst y)).
      { destruct (snd (fst x)) as [[a b] c], (snd (fst y)) as [[a' b'] c']. cbn [fst snd] in *. congruence. }
      cbv [eqv tleb leb_on ileb].
      assert (Hr : skey_leb (snd (fst y)) (snd (fst y)) = true)
        by (destruct (skey_leb_total (snd (fst y)) (snd (fst y))); assumption).
      apply andb_true_iff. split; (etransitivity; [|exact Hr]); f_equal; exact Ek.
    - intros l1 r l2 E Hin2. rewrite <- Ecmds in E.
      apply map_eq_app in E as (T1 & T2' & Et & E1 & E2). apply map_eq_cons in E2 as (x & T2 & Et2 & Ex & E2). subst T2'.
      rewrite <- E2 in Hin2. apply in_map_iff in Hin2 as (y & Ey & Hy).
      destruct (filter_split q S T1 x T2 Et) as (S1 & S2 & ES & _ & F2).
      assert (Hqx : q x = true).
      { assert (Hx : In x (filter q S)) by (rewrite Et; apply in_or_app; right; now left). apply filter_In in Hx. tauto. }
      rewrite <- F2 in Hy. apply filter_In in Hy as [Hy Hqy].
      pose proof (q_single x Hqx) as Cx. rewrite Ex in Cx. pose proof (q_single y Hqy) as Cy. rewrite Ey in Cy.
      apply cls_true in Cx as [Erx (s & Hs)]. apply cls_false in Cy.
      rewrite (rev_slot r s Hs) in Cy.
      unfold slot_of in Hs. rewrite <- Erx in Hs. destruct (match_row rmatch (irow x) rs) as [[s0 c]|] eqn:Em; [|discriminate].
      cbn in Hs. injection Hs as ->.
      rewrite Ept in Huf. fold S in Huf. rewrite ES in Huf.
      apply (undo_first_split' rmatch rreverse rs S1 x S2 s c Huf Em). rewrite <- Cy. apply in_map. exact Hy.
  Qed.
End Level.
