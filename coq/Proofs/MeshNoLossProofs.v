(* C15, "handler data merges without loss": what a handler call writes is in the DTOs of that call.
   The converse direction of the no-leak lemmas of MeshExecProofs.v, for the single-valued
   (ForbidChange) and the set-valued (Unite) attributes -- the ones P_C15_no_loss reads back from
   the Peer. *)
From Coq Require Import List String Ascii Bool Arith ZArith Lia.
From Annet Require Import Model.Merge Model.Mesh Model.MeshExec Spec.P_C15 Spec.P_C15_iface Spec.P_C15_seq
  Proofs.MergeProofs.
Import ListNotations.
Open Scope string_scope.
Open Scope list_scope.

(* the value v written for an attribute merged by m is still there in w *)
Definition kept (m : merger) (v w : value) : Prop :=
  match m with
  | MForbidChange => w = v \/ value_eqb w v = true
  | MUnite => subset (atoms_of v) (atoms_of w) = true
  | _ => True                   (* UseFirst / UseLast drop a value by declaration; Concat, nested: not stated here *)
  end.

Lemma subset_refl l : subset l l = true.
Proof. apply subset_spec. intros x H. exact H. Qed.

Lemma subset_trans a b c : subset a b = true -> subset b c = true -> subset a c = true.
Proof. rewrite !subset_spec. intros H1 H2 x Hx. apply H2, H1, Hx. Qed.

Lemma kept_refl m v : kept m v v.
Proof. destruct m; cbn; try exact I; [left; reflexivity | apply subset_refl]. Qed.

Lemma kept_trans m u v w : kept m u v -> kept m v w -> kept m u w.
Proof.
  destruct m; cbn; try (intros; exact I).
  - intros [H1|H1] [H2|H2].
    + left. congruence.
    + subst v. right. exact H2.
    + subst w. right. exact H1.
    + right. apply (value_eqb_trans w v u); assumption.
  - apply subset_trans.
Qed.

Lemma merge_val_fc x y : merge_val MForbidChange x y = if value_eqb x y then Ok x else Err EForbidden.
Proof. destruct x; reflexivity. Qed.

(* both operands of a successful merge_val are kept *)
Lemma merge_val_kept m x y w : merge_val m x y = Ok w -> kept m x w /\ kept m y w.
Proof.
  intro H. destruct m; cbn [kept]; try (split; exact I).
  - rewrite merge_val_fc in H. destruct (value_eqb x y) eqn:E; [|discriminate].
    injection H as H. subst w. split; [left; reflexivity | right; exact E].
  - destruct x; destruct y; cbn in H; try discriminate. injection H as H. subst w. cbn [atoms_of].
    split; apply subset_spec; intros z Hz; apply union_In; [left | right]; exact Hz.
Qed.

(* merge(a, b): every attribute of a, and every attribute of b that is a field of the class, is kept *)
Lemma merge_no_loss sch a b r :
  merge sch a b = Ok r ->
  (forall f v m, lookup f a = Some v -> lookup f sch = Some m ->
                 exists w, lookup f r = Some w /\ kept m v w) /\
  (forall f v m, lookup f b = Some v -> lookup f sch = Some m ->
                 exists w, lookup f r = Some w /\ kept m v w).
Proof.
  intro H. rewrite merge_is_merge_entries in H.
  pose proof (merge_entries_lookup merge_val (fun f => lookup f sch) a b r H) as L.
  split; intros f v m Hv Hm; specialize (L f); cbn beta in L; rewrite Hm in L.
  - rewrite Hv in L. destruct (lookup f b) as [y|]; cbn in L.
    + destruct (merge_val m v y) as [w|e] eqn:E; [|discriminate]. injection L as L.
      exists w. split; [symmetry; exact L|]. apply (merge_val_kept m v y w E).
    + injection L as L. exists v. split; [symmetry; exact L | apply kept_refl].
  - rewrite Hv in L. destruct (lookup f a) as [x|]; cbn in L.
    + destruct (merge_val m x v) as [w|e] eqn:E; [|discriminate]. injection L as L.
      exists w. split; [symmetry; exact L|]. apply (merge_val_kept m x v w E).
    + injection L as L. exists v. split; [symmetry; exact L | apply kept_refl].
Qed.

(* merge(first, *others) *)
Lemma merge_all_no_loss sch : forall others first r,
  merge_all sch first others = Ok r ->
  forall o, In o (first :: others) ->
  forall f v m, lookup f o = Some v -> lookup f sch = Some m ->
                exists w, lookup f r = Some w /\ kept m v w.
Proof.
  induction others as [|b rest IH]; intros first r H o Ho f v m Hv Hm.
  - cbn in H. injection H as H. subst r. destruct Ho as [Ho|[]]. subst o.
    exists v. split; [exact Hv | apply kept_refl].
  - cbn [merge_all] in H. destruct (merge sch first b) as [ab|e] eqn:E; [|discriminate].
    destruct (merge_no_loss sch first b ab E) as [Ha Hb].
    assert (Hab : exists u, lookup f ab = Some u /\ kept m v u \/
                            (In o rest /\ True)).
    { destruct Ho as [Ho|[Ho|Ho]].
      - subst o. destruct (Ha f v m Hv Hm) as [u [Hu Hk]]. exists u. left. split; assumption.
      - subst o. destruct (Hb f v m Hv Hm) as [u [Hu Hk]]. exists u. left. split; assumption.
      - exists v. right. split; [exact Ho | exact I]. }
    destruct Hab as [u [[Hu Hk]|[Ho' _]]].
    + destruct (IH ab r H ab (or_introl eq_refl) f u m Hu Hm) as [w [Hw Hk2]].
      exists w. split; [exact Hw | apply (kept_trans m v u w); assumption].
    + apply (IH ab r H o (or_intror Ho') f v m Hv Hm).
Qed.

(* one handler call (_execute_direct_pair, also the body of _execute_indirect): what the handler wrote on a
   peer object or on the session object is in that end's DTO *)
Lemma call_no_loss handler dto device neighbor m ports loc con :
  execute_direct_pair handler dto device neighbor m ports = Some (Ok (loc, con)) ->
  let '(l, r, s) :=
    if m_direct m then handler (r_id (m_rule m)) device neighbor (map fst ports)
    else handler (r_id (m_rule m)) neighbor device (map snd ports) in
  let '(mine, theirs) := if m_direct m then (l, r) else (r, l) in
  forall f v mg, lookup f dto = Some mg ->
    ((lookup f mine = Some v \/ lookup f s = Some v) -> exists w, lookup f loc = Some w /\ kept mg v w) /\
    ((lookup f theirs = Some v \/ lookup f s = Some v) -> exists w, lookup f con = Some w /\ kept mg v w).
Proof.
  unfold execute_direct_pair.
  destruct (if m_direct m then handler (r_id (m_rule m)) device neighbor (map fst ports)
            else handler (r_id (m_rule m)) neighbor device (map snd ports)) as [[l r] s].
  destruct (if m_direct m then (l, r) else (r, l)) as [mine theirs] eqn:Eo.
  assert (Eo' : (if m_direct m then (l, r) else (r, l)) = (mine, theirs)) by exact Eo.
  destruct (is_empty theirs && is_empty mine && is_empty s); [discriminate|].
  remember (merge_all dto [] [theirs; s]) as rn eqn:En.
  remember (merge_all dto [] [mine; s]) as rd eqn:Ed.
  intro H. destruct rn as [nd|e]; [|discriminate]. destruct rd as [dd|e]; [|discriminate].
  injection H as H1 H2. subst dd nd. symmetry in En, Ed.
  intros f v mg Hm. split; intros [Hv|Hv].
  - apply (merge_all_no_loss dto _ _ _ Ed mine (or_intror (or_introl eq_refl)) f v mg Hv Hm).
  - apply (merge_all_no_loss dto _ _ _ Ed s (or_intror (or_intror (or_introl eq_refl))) f v mg Hv Hm).
  - apply (merge_all_no_loss dto _ _ _ En theirs (or_intror (or_introl eq_refl)) f v mg Hv Hm).
  - apply (merge_all_no_loss dto _ _ _ En s (or_intror (or_intror (or_introl eq_refl))) f v mg Hv Hm).
Qed.

(* the runs of a sequence are the fresh runs: the model carries nothing from one run to the next *)
Lemma sequence_pointwise {A : Type} (run : string -> A) devs devs' i j d :
  nth_error devs i = Some d -> nth_error devs' j = Some d ->
  nth_error (model_sequence run devs) i = Some (run d) /\
  nth_error (model_sequence run devs) i = nth_error (model_sequence run devs') j.
Proof.
  intros H1 H2. unfold model_sequence.
  rewrite (map_nth_error run i devs H1), (map_nth_error run j devs' H2). split; reflexivity.
Qed.
