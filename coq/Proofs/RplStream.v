(* C14 — (d) on whole streams: an error attributed to an item comes with no row tagged with
   that item, for the model's run of every generator of every vendor. *)
From Coq Require Import List String Ascii Bool Arith Lia.
From Annet Require Import Base.Str Base.Tree Model.Offside Model.Rpl Spec.P_C14 Proofs.RplProofs.
Import ListNotations.
Open Scope string_scope.
Open Scope list_scope.

Lemma kind_eqb_eq a b : kind_eqb a b = true -> a = b.
Proof. destruct a, b; cbn; congruence. Qed.

Lemma tag_eqb_eq a b : tag_eqb a b = true -> a = b.
Proof.
  destruct a as [p s k i], b as [p' s' k' i']. unfold tag_eqb. cbn.
  rewrite !andb_true_iff. intros [[[H1 H2] H3] H4].
  apply Nat.eqb_eq in H1, H2, H4. apply kind_eqb_eq in H3. subst. reflexivity.
Qed.

(* "no row of the stream carries tag t" *)
Definition untagged (t : tag) (rows : list mrow) : Prop := forall r, In r rows -> r_tag r <> Some t.

Lemma untagged_app t a b : untagged t a -> untagged t b -> untagged t (a ++ b).
Proof. intros Ha Hb r Hr. apply in_app_iff in Hr as [H|H]; auto. Qed.

Lemma untagged_nil t : untagged t [].
Proof. intros r []. Qed.

(* the stream satisfies (d) *)
Definition before_ok (o : gout) : Prop :=
  forall er t, snd o = Some (er, Some t) -> untagged t (fst o).

Lemma gseq_none a b : snd a = None -> gseq a b = (fst a ++ fst b, snd b).
Proof. destruct a as [ra ea]. cbn. intros ->. reflexivity. Qed.

Lemma gseq_some a b x : snd a = Some x -> gseq a b = a.
Proof. destruct a as [ra ea]. cbn. intros ->. reflexivity. Qed.

Lemma gseq_rows a b r : In r (fst (gseq a b)) -> In r (fst a) \/ In r (fst b).
Proof.
  destruct (snd a) as [x|] eqn:E.
  - rewrite (gseq_some a b x E). auto.
  - rewrite (gseq_none a b E). cbn [fst]. apply in_app_iff.
Qed.

(* ------------------------------------------------------------------ items *)

Section Items.
  Context {A : Type}.
  Variable emit : A -> out.
  Variable path : list row.
  Variable mk : nat -> tag.
  Hypothesis mk_inj : forall i j, mk i = mk j -> i = j.

  Lemma items_rows : forall l i r,
    In r (fst (emit_items emit path mk i l)) -> exists j, i <= j /\ r_tag r = Some (mk j).
  Proof.
    induction l as [|x l IH]; intros i r; cbn.
    - intros [].
    - destruct (snd (emit x)) as [er|] eqn:E; cbn.
      + intros H. apply in_map_iff in H as (t & <- & _). exists i. cbn. auto.
      + intros H. apply in_app_iff in H as [H|H].
        * apply in_map_iff in H as (t & <- & _). exists i. cbn. auto.
        * destruct (IH _ _ H) as (j & Hj & Ht). exists j. split; [lia|exact Ht].
  Qed.

  Lemma items_err : forall l i er ot,
    (forall x, In x l -> ebl (emit x)) ->
    snd (emit_items emit path mk i l) = Some (er, ot) ->
    exists j, i <= j /\ ot = Some (mk j) /\ untagged (mk j) (fst (emit_items emit path mk i l)).
  Proof.
    induction l as [|x l IH]; intros i er ot Hebl; cbn.
    - discriminate.
    - destruct (snd (emit x)) as [e0|] eqn:E; cbn.
      + intros H. injection H as <- <-. exists i. repeat split; auto.
        rewrite (Hebl x (or_introl eq_refl) e0 E). cbn. apply untagged_nil.
      + intros H.
        destruct (IH (S i) er ot (fun y Hy => Hebl y (or_intror Hy)) H) as (j & Hj & -> & Hu).
        exists j. repeat split; [lia|].
        apply untagged_app; [|exact Hu].
        intros r Hr. apply in_map_iff in Hr as (t & <- & _). cbn. intros Heq.
        injection Heq as Heq. apply mk_inj in Heq. lia.
  Qed.

  Lemma items_noerr_tags : forall l i er ot,
    snd (emit_items emit path mk i l) = Some (er, ot) -> exists j, ot = Some (mk j).
  Proof.
    induction l as [|x l IH]; intros i er ot; cbn.
    - discriminate.
    - destruct (snd (emit x)) as [e0|] eqn:E; cbn.
      + intros H. injection H as <- <-. eauto.
      + apply IH.
  Qed.
End Items.

(* ------------------------------------------------------------------ one statement *)

Definition stmt_wf (e : env) (st : stmt) : Prop := forall a, In a (s_then st) -> wf_action e a = true.

Definition in_stmt (p s : nat) (t : tag) : Prop := t_pol t = p /\ t_stmt t = s.

Lemma stmt_rows v e p s pname st r :
  In r (fst (emit_stmt patched v e p s pname st)) ->
  r_tag r = None \/ exists t, r_tag r = Some t /\ in_stmt p s t.
Proof.
  unfold emit_stmt. destruct (stmt_header v pname st) as [hdr|er]; [|intros []].
  intros H.
  apply gseq_rows in H as [H|H].
  { destruct H as [<-|[]]. right. eexists. split; [reflexivity|]. split; reflexivity. }
  apply gseq_rows in H as [H|H].
  { destruct (items_rows _ _ _ _ _ _ H) as (j & _ & Hj). right. eexists. split; [exact Hj|]. split; reflexivity. }
  apply gseq_rows in H as [H|H].
  { destruct (items_rows _ _ _ _ _ _ H) as (j & _ & Hj). right. eexists. split; [exact Hj|]. split; reflexivity. }
  apply gseq_rows in H as [H|H].
  - cbn [fst] in H. destruct (is_next (s_result st)); [|destruct H]. destruct H as [<-|[]]. right.
    eexists. split; [reflexivity|]. split; reflexivity.
  - cbn [fst] in H. destruct v; try destruct H as [<-|[]]; try destruct H. left. reflexivity.
Qed.

Lemma stmt_err v e p s pname st er ot :
  stmt_wf e st ->
  snd (emit_stmt patched v e p s pname st) = Some (er, ot) ->
  exists t, ot = Some t /\ in_stmt p s t /\ untagged t (fst (emit_stmt patched v e p s pname st)).
Proof.
  intros Hwf. unfold emit_stmt. destruct (stmt_header v pname st) as [hdr|e0].
  2:{ cbn. intros H. injection H as <- <-. eexists. split; [reflexivity|]. split; [split; reflexivity|].
      apply untagged_nil. }
  set (conds := emit_items (emit_cond v e) [hdr] (Tag p s KCond) 0 (s_match st)).
  set (acts := emit_items (emit_action patched v e) [hdr] (Tag p s KAct) 0 (s_then st)).
  set (hrow := MR [] hdr match v with Cumulus => false | _ => true end (Some (Tag p s KStmt 0))).
  rewrite gseq_none by reflexivity. cbn [fst snd app].
  destruct (snd conds) as [x|] eqn:Ec.
  { rewrite (gseq_some conds _ x Ec). rewrite Ec. intros H. injection H as ->.
    destruct (items_err (emit_cond v e) [hdr] (Tag p s KCond)
                (fun i j H => f_equal t_idx H) (s_match st) 0 er ot
                (fun x _ => cond_error_before_lines v e x) Ec) as (j & _ & -> & Hu).
    eexists. split; [reflexivity|]. split; [split; reflexivity|].
    intros r [<-|Hr]; [cbn; discriminate|]. apply Hu. exact Hr. }
  rewrite gseq_none by exact Ec. cbn [fst snd].
  destruct (snd acts) as [x|] eqn:Ea.
  { rewrite (gseq_some acts _ x Ea). rewrite Ea. intros H. injection H as ->.
    destruct (items_err (emit_action patched v e) [hdr] (Tag p s KAct)
                (fun i j H => f_equal t_idx H) (s_then st) 0 er ot
                (fun a Ha er0 => action_error_before_lines v e a er0 (Hwf a Ha)) Ea) as (j & _ & -> & Hu).
    eexists. split; [reflexivity|]. split; [split; reflexivity|].
    intros r [<-|Hr]; [cbn; discriminate|]. apply in_app_iff in Hr as [Hr|Hr]; [|apply Hu; exact Hr].
    destruct (items_rows _ _ _ _ _ _ Hr) as (k & _ & ->). discriminate. }
  rewrite gseq_none by exact Ea. cbn [fst snd].
  rewrite gseq_none by reflexivity. cbn [snd]. discriminate.
Qed.

(* ------------------------------------------------------------------ statements, policies *)

Definition tag_ge_stmt (p s : nat) (t : tag) : Prop := t_pol t = p /\ s <= t_stmt t.

Lemma stmts_spec v e p pname : forall l s seen,
  (forall st, In st l -> stmt_wf e st) ->
  (forall r, In r (fst (emit_stmts patched v e p s pname seen l)) ->
             r_tag r = None \/ exists t, r_tag r = Some t /\ tag_ge_stmt p s t) /\
  (forall er ot, snd (emit_stmts patched v e p s pname seen l) = Some (er, ot) ->
     exists t, ot = Some t /\ tag_ge_stmt p s t /\ untagged t (fst (emit_stmts patched v e p s pname seen l))).
Proof.
  induction l as [|st l IH]; intros s seen Hwf; cbn [emit_stmts].
  - split; [intros r []|cbn; discriminate].
  - match goal with |- context [if ?d then _ else _] => destruct d end.
    { split; [intros r []|]. cbn. intros er ot H. injection H as <- <-.
      eexists. split; [reflexivity|]. split; [split; cbn; auto|apply untagged_nil]. }
    set (seen' := match s_number st with Some n => n :: seen | None => seen end).
    destruct (IH (S s) seen' (fun x Hx => Hwf x (or_intror Hx))) as [IHr IHe].
    destruct (snd (emit_stmt patched v e p s pname st)) as [x|] eqn:E.
    + rewrite (gseq_some _ _ x E). split.
      * intros r Hr. destruct (stmt_rows _ _ _ _ _ _ _ Hr) as [H|(t & Ht & H1 & H2)]; [auto|].
        right. exists t. split; [exact Ht|]. split; [exact H1|lia].
      * intros er ot H. rewrite E in H. injection H as ->.
        destruct (stmt_err v e p s pname st er ot (Hwf st (or_introl eq_refl)) E) as (t & -> & [H1 H2] & Hu).
        exists t. split; [reflexivity|]. split; [split; [exact H1|lia]|exact Hu].
    + rewrite gseq_none by exact E. cbn [fst snd]. split.
      * intros r Hr. apply in_app_iff in Hr as [Hr|Hr].
        -- destruct (stmt_rows _ _ _ _ _ _ _ Hr) as [H|(t & Ht & H1 & H2)]; [auto|].
           right. exists t. split; [exact Ht|]. split; [exact H1|lia].
        -- destruct (IHr r Hr) as [H|(t & Ht & H1 & H2)]; [auto|].
           right. exists t. split; [exact Ht|]. split; [exact H1|lia].
      * intros er ot H. destruct (IHe er ot H) as (t & -> & [H1 H2] & Hu).
        exists t. split; [reflexivity|]. split; [split; [exact H1|lia]|].
        apply untagged_app; [|exact Hu].
        intros r Hr Heq. destruct (stmt_rows _ _ _ _ _ _ _ Hr) as [H0|(t0 & Ht0 & H3 & H4)]; [congruence|].
        rewrite Ht0 in Heq. injection Heq as ->. lia.
Qed.

Lemma policies_spec v e : forall l p,
  (forall pol st, In pol l -> In st (p_stmts pol) -> stmt_wf e st) ->
  (forall r, In r (fst (emit_policies patched v e p l)) ->
             r_tag r = None \/ exists t, r_tag r = Some t /\ p <= t_pol t) /\
  (forall er ot, snd (emit_policies patched v e p l) = Some (er, ot) ->
     exists t, ot = Some t /\ p <= t_pol t /\ untagged t (fst (emit_policies patched v e p l))).
Proof.
  induction l as [|pol l IH]; intros p Hwf; cbn [emit_policies].
  - split; [intros r []|cbn; discriminate].
  - destruct (IH (S p) (fun q st Hq Hst => Hwf q st (or_intror Hq) Hst)) as [IHr IHe].
    destruct (stmts_spec v e p (p_name pol) (p_stmts pol) 0 []
                         (fun st Hst => Hwf pol st (or_introl eq_refl) Hst)) as [Sr Se].
    destruct (snd (emit_stmts patched v e p 0 (p_name pol) [] (p_stmts pol))) as [x|] eqn:E.
    + rewrite (gseq_some _ _ x E). split.
      * intros r Hr. destruct (Sr r Hr) as [H|(t & Ht & H1 & H2)]; [auto|].
        right. exists t. split; [exact Ht|lia].
      * intros er ot H. rewrite E in H. injection H as ->.
        destruct (Se er ot eq_refl) as (t & -> & [H1 _] & Hu). exists t. split; [reflexivity|]. split; [lia|exact Hu].
    + rewrite gseq_none by exact E. cbn [fst snd]. split.
      * intros r Hr. apply in_app_iff in Hr as [Hr|Hr].
        -- destruct (Sr r Hr) as [H|(t & Ht & H1 & H2)]; [auto|]. right. exists t. split; [exact Ht|lia].
        -- destruct (IHr r Hr) as [H|(t & Ht & H1)]; [auto|]. right. exists t. split; [exact Ht|lia].
      * intros er ot H. destruct (IHe er ot H) as (t & -> & Hge & Hu).
        exists t. split; [reflexivity|]. split; [lia|]. apply untagged_app; [|exact Hu].
        intros r Hr Heq. destruct (Sr r Hr) as [H0|(t0 & Ht0 & H3 & H4)]; [congruence|].
        rewrite Ht0 in Heq. injection Heq as ->. lia.
Qed.

Lemma policies_before v e ps :
  (forall pol st, In pol ps -> In st (p_stmts pol) -> stmt_wf e st) ->
  before_ok (emit_policies patched v e 0 ps).
Proof.
  intros Hwf er t H. destruct (policies_spec v e ps 0 Hwf) as [_ He].
  destruct (He er (Some t) H) as (t' & Heq & _ & Hu). injection Heq as ->. exact Hu.
Qed.

(* ------------------------------------------------------------------ every generator *)

Lemma before_ok_plain o : before_ok (plain o).
Proof. intros er t. unfold plain. cbn. destruct (snd o); discriminate. Qed.

Lemma before_ok_noerr rows : before_ok (rows, None).
Proof. intros er t. cbn. discriminate. Qed.

Lemma plain_untagged o t : untagged t (fst (plain o)).
Proof. intros r Hr. unfold plain in Hr. cbn in Hr. apply in_map_iff in Hr as (x & <- & _). cbn. discriminate. Qed.

Lemma before_ok_gseq_untagged a b :
  (forall er t, snd a <> Some (er, Some t)) -> (forall t, untagged t (fst a)) -> before_ok b -> before_ok (gseq a b).
Proof.
  intros Ha Hu Hb er t. destruct (snd a) as [x|] eqn:E.
  - rewrite (gseq_some _ _ x E). intros H. exfalso. apply (Ha er t). rewrite <- H. symmetry. exact E.
  - rewrite gseq_none by exact E. cbn. intros H. apply untagged_app; [apply Hu|exact (Hb er t H)].
Qed.

Lemma plain_err_untagged o er t : snd (plain o) <> Some (er, Some t).
Proof. unfold plain. cbn. destruct (snd o); congruence. Qed.

Lemma prefix_gen_untagged v e ps t : untagged t (fst (prefix_gen v e ps)).
Proof.
  intros r Hr. unfold prefix_gen in Hr. cbn [fst] in Hr. apply in_flat_map in Hr as (u & _ & Hr).
  destruct u as [[[[v6 dn] n] ge] le]. destruct v.
  - apply in_map_iff in Hr as (x & <- & _). cbn. discriminate.
  - destruct Hr as [<-|Hr]; [cbn; discriminate|]. apply in_map_iff in Hr as (x & <- & _). cbn. discriminate.
  - apply in_map_iff in Hr as (x & <- & _). cbn. discriminate.
Qed.

Definition prog_wf_actions (g : prog) : Prop :=
  forall pol st, In pol (g_policies g) -> In st (p_stmts pol) -> stmt_wf (g_env g) st.

Lemma wf_prog_actions g : wf_prog g = true -> prog_wf_actions g.
Proof.
  unfold wf_prog. rewrite !andb_true_iff. intros [[_ H] _] pol st Hp Hs a Ha.
  rewrite forallb_forall in H. specialize (H st).
  assert (Hin : In st (all_stmts (g_policies g))).
  { unfold all_stmts. apply in_flat_map. exists pol. split; assumption. }
  specialize (H Hin). apply andb_true_iff in H as [_ H]. rewrite forallb_forall in H. apply H. exact Ha.
Qed.

Lemma run_all_before v g :
  prog_wf_actions g -> forall n o, In (n, o) (run_all patched v g) -> before_ok o.
Proof.
  intros Hwf n o Hin. destruct v; cbn [run_all] in Hin.
  - destruct Hin as [H|[H|[H|[H|[H|[]]]]]]; injection H as _ <-.
    + apply policies_before. exact Hwf.
    + apply before_ok_noerr.
    + apply before_ok_plain.
    + apply before_ok_plain.
    + apply before_ok_plain.
  - destruct Hin as [H|[H|[H|[H|[]]]]]; injection H as _ <-.
    + apply policies_before. exact Hwf.
    + apply before_ok_noerr.
    + unfold ar_comm_gen. destruct (negb (unions_ok (g_env g) (g_policies g))).
      * intros er t. cbn. discriminate.
      * apply before_ok_plain.
    + apply before_ok_plain.
  - destruct Hin as [H|[]]. injection H as _ <-.
    apply before_ok_gseq_untagged; [intros; apply plain_err_untagged|intros; apply plain_untagged|].
    apply before_ok_gseq_untagged; [intros; apply plain_err_untagged|intros; apply plain_untagged|].
    apply before_ok_gseq_untagged; [intros; cbn; discriminate|intros; apply prefix_gen_untagged|].
    apply before_ok_gseq_untagged; [intros; cbn; discriminate| |].
    + intros t r [<-|[]]. cbn. discriminate.
    + apply policies_before. exact Hwf.
Qed.

Lemma P_before_of_before_ok n o : before_ok o -> P_before (IG n (map mrow_to_irow (fst o)) (snd o) RNone) = true.
Proof.
  intros H. unfold P_before. cbn [ig_err ig_rows].
  destruct (snd o) as [[er [t|]]|] eqn:E; try reflexivity.
  apply forallb_forall. intros r Hr. apply in_map_iff in Hr as (m & <- & Hm). cbn.
  destruct (r_tag m) as [t'|] eqn:Et; [|reflexivity]. cbn.
  destruct (tag_eqb t' t) eqn:Eq; [|reflexivity].
  apply tag_eqb_eq in Eq. subst. exfalso. exact (H er t E m Hm Et).
Qed.

Lemma model_before_holds v g : wf_prog g = true -> forallb P_before (model_obs patched v g) = true.
Proof.
  intros Hwf. apply forallb_forall. intros o Ho. unfold model_obs in Ho.
  apply in_map_iff in Ho as ([n m] & <- & Hin). cbn [fst snd].
  apply P_before_of_before_ok. apply (run_all_before v g (wf_prog_actions g Hwf) n m Hin).
Qed.

Lemma model_P_C14_d v g : P_C14_d v g (model_obs patched v g) = true.
Proof.
  unfold P_C14_d. destruct (wf_prog g) eqn:E; [|reflexivity]. cbn. apply model_before_holds. exact E.
Qed.
