(* C01, layer 5a: [expected] seen slot by slot, and the annotation of a level seen through
   the slots of its rows. *)
From Coq Require Import List String Bool Arith Lia Permutation.
From Annet Require Import Base.Str Base.Tree Model.Rulebook Model.Diff Model.Device Spec.P_C03 Spec.P_C01
     Proofs.DiffProofsLib Proofs.DiffProofsAnnot Proofs.ConvergeDevice.
Import ListNotations.
Open Scope string_scope.
Open Scope list_scope.

Lemma filter_none {A} (p : A -> bool) l : (forall x, In x l -> p x = false) -> filter p l = [].
Proof.
  induction l as [|x l IH]; intro H; [reflexivity|]. cbn. rewrite (H x (or_introl eq_refl)).
  apply IH. intros y Hy. apply H. now right.
Qed.

Section Exp.
  Variable rmatch : string -> string -> option (list string).
  Variable rs : rset.

  Notation slot := (slot_of rmatch rs).
  Notation ekey := (ekey rmatch rs).
  Notation lkeys := (lkeys rmatch rs).
  Notation unk := (unk rmatch rs).
  Notation lvl_uniq := (lvl_uniq rmatch rs).
  Notation sfind := (sfind rmatch rs).
  Notation annot_f := (annot_f rmatch).
  Notation annot := (annot rmatch).

  (* ---------- the annotation of a level ---------- *)
  Definition akeys (an : aforest) : list (string * list string) := map (fun k => key_of (ami k)) an.

  Lemma annot_f_app a b : annot_f rs (a ++ b) = annot_f rs a ++ annot_f rs b.
  Proof.
    induction a as [|[r t] a IH]; [reflexivity|]. cbn [app]. rewrite !annot_f_cons.
    destruct (match_row rmatch r rs) as [[m crs]|]; cbn [app]; rewrite IH; reflexivity.
  Qed.

  Lemma akeys_annot f : akeys (annot_f rs f) = lkeys f.
  Proof.
    unfold akeys. induction f as [|[r t] f IH]; [reflexivity|]. rewrite annot_f_cons, lkeys_cons.
    unfold ConvergeDevice.ekey, slot_of. cbn [fst].
    destruct (match_row rmatch r rs) as [[m crs]|]; cbn [option_map map app];
      [unfold ami at 1; cbn [fst snd]; f_equal; exact IH | exact IH].
  Qed.

  Lemma annot_in f r m sub : In (r, m, sub) (annot_f rs f) <->
    exists t crs, In (r, t) f /\ match_row rmatch r rs = Some (m, crs) /\ sub = annot crs t.
  Proof.
    induction f as [|[r0 t0] f IH].
    - split; [intros [] | intros (t & crs & [] & _)].
    - rewrite annot_f_cons. destruct (match_row rmatch r0 rs) as [[m0 crs0]|] eqn:E.
      + cbn [In]. rewrite IH. split.
        * intros [H|(t & crs & H1 & H2 & H3)].
          -- injection H as <- <- <-. exists t0, crs0. split; [now left | auto].
          -- exists t, crs. split; [now right | auto].
        * intros (t & crs & [H|H] & H2 & H3).
          -- injection H as <- <-. left. rewrite E in H2. injection H2 as <- <-. subst. reflexivity.
          -- right. exists t, crs. auto.
      + rewrite IH. split.
        * intros (t & crs & H1 & H2 & H3). exists t, crs. split; [now right | auto].
        * intros (t & crs & [H|H] & H2 & H3); [injection H as <- <-; congruence | exists t, crs; auto].
  Qed.

  (* the annotated entry of a slot *)
  Lemma afind_slot_annot s f :
    afind_slot s (annot_f rs f) =
    match sfind s f with
    | Some (r, t) => match match_row rmatch r rs with
                     | Some (m, crs) => Some (r, m, annot crs t)
                     | None => None
                     end
    | None => None
    end.
  Proof.
    unfold afind_slot, ConvergeDevice.sfind. induction f as [|[r t] f IH]; [reflexivity|].
    rewrite annot_f_cons. cbn [find]. unfold in_slot at 1, slot_of. cbn [fst].
    destruct (match_row rmatch r rs) as [[m crs]|] eqn:E; cbn [option_map find fst snd].
    - destruct (same_slot m s); [rewrite E; reflexivity | exact IH].
    - exact IH.
  Qed.

  Lemma afind_slot_in s an k : afind_slot s an = Some k -> In k an /\ key_of (ami k) = key_of s.
  Proof.
    intro H. apply find_some in H as [H1 H2]. split; [exact H1 | apply same_slot_iff; exact H2].
  Qed.

  Lemma afind_slot_none s an : afind_slot s an = None <-> ~ In (key_of s) (akeys an).
  Proof.
    unfold afind_slot. rewrite find_none_forallb, forallb_forall. unfold akeys. rewrite in_map_iff. split.
    - intros H (k & Ek & Hk). specialize (H k Hk). apply negb_true_iff in H.
      apply same_slot_false_iff in H. unfold ami in Ek. congruence.
    - intros H k Hk. apply negb_true_iff. apply same_slot_false_iff. intro E. apply H. exists k. split; [exact E | exact Hk].
  Qed.

  Lemma afind_slot_uniq s an k : NoDup (akeys an) -> In k an -> key_of (ami k) = key_of s -> afind_slot s an = Some k.
  Proof.
    unfold afind_slot, akeys. induction an as [|k0 an IH]; cbn; intros Hnd Hin Hk; [contradiction|].
    inversion Hnd as [|x l Hn Hr]; subst. destruct Hin as [->|Hin].
    - apply same_slot_iff in Hk. unfold ami in Hk. rewrite Hk. reflexivity.
    - destruct (same_slot (snd (fst k0)) s) eqn:E; [|auto].
      exfalso. apply Hn. apply same_slot_iff in E. change (snd (fst k0)) with (ami k0) in E. rewrite E, <- Hk.
      apply (in_map (fun k => key_of (ami k))). exact Hin.
  Qed.

  Lemma level_slots_keys f : map key_of (level_slots rmatch rs f) = lkeys f.
  Proof.
    unfold level_slots, ConvergeDevice.lkeys, ConvergeDevice.ekey.
    induction f as [|e f IH]; [reflexivity|]. cbn [flat_map]. rewrite map_app, IH.
    destruct (slot (fst e)); reflexivity.
  Qed.

  Lemma existsb_same_slot m os : existsb (same_slot m) os = true <-> In (key_of m) (map key_of os).
  Proof.
    rewrite existsb_exists, in_map_iff. split.
    - intros (x & Hx & E). apply same_slot_iff in E. exists x. auto.
    - intros (x & E & Hx). exists x. split; [exact Hx | apply same_slot_iff; auto].
  Qed.

  (* ---------- expected, slot by slot ---------- *)
  (* what becomes of one entry of old *)
  Definition exp_entry (an : aforest) (r : string) (t : tree) : forest :=
    match match_row rmatch r rs with
    | None => [(r, t)]
    | Some (s, crs) =>
      match afind_slot s an with
      | Some (r', _, sub') =>
        if String.eqb r r' then [(r, T (expected_t rmatch t crs (akids sub')))]
        else match a_logic (mi_attrs s) with
             | LIgnoreChanges => [(r, t)]
             | LPermanent => [(r, T (expected_t rmatch t crs []))]
             | _ => [(r', erase sub')]
             end
      | None =>
        match a_logic (mi_attrs s) with
        | LPermanent => [(r, T (expected_t rmatch t crs []))]
        | _ => []
        end
      end
    end.

  Lemma expected_t_unfold fo an :
    expected_t rmatch (T fo) rs an = flat_map (fun e => exp_entry an (fst e) (snd e)) fo ++ created rmatch rs fo an.
  Proof.
    cbn [expected_t]. f_equal. induction fo as [|[r t] fo IH]; [reflexivity|].
    cbn [flat_map fst snd]. rewrite <- IH. unfold exp_entry.
    destruct (match_row rmatch r rs) as [[s crs]|]; [|reflexivity].
    destruct (afind_slot s an) as [[[r' m'] sub']|].
    - destruct (String.eqb r r'); [reflexivity|]. destruct (a_logic (mi_attrs s)); reflexivity.
    - destruct (a_logic (mi_attrs s)); reflexivity.
  Qed.

  Section WithNew.
    Variable fn : forest.
    Hypothesis Hun : lvl_uniq fn.
    Let an := annot_f rs fn.

    Lemma an_nodup : NoDup (akeys an).
    Proof. unfold an. rewrite akeys_annot. exact Hun. Qed.

    Lemma an_ekey r' m' sub' t : In (r', m', sub') an -> ekey (r', t) = Some (key_of m').
    Proof.
      intro H. apply annot_in in H as (t' & crs & _ & Hm & _).
      unfold ConvergeDevice.ekey, slot_of. cbn [fst]. rewrite Hm. reflexivity.
    Qed.

    (* the image of an entry of old stays in the entry's slot *)
    Lemma exp_entry_unknown r t : ekey (r, t) = None -> exp_entry an r t = [(r, t)].
    Proof.
      unfold ConvergeDevice.ekey, slot_of, exp_entry. cbn [fst].
      destruct (match_row rmatch r rs) as [[s crs]|]; [discriminate | reflexivity].
    Qed.

    Lemma exp_entry_known r t s e' : ekey (r, t) = Some (key_of s) -> In e' (exp_entry an r t) ->
      ekey e' = Some (key_of s).
    Proof.
      unfold exp_entry. intros Hk Hin.
      assert (Hr : forall t0, ekey (r, t0) = Some (key_of s)) by (intro t0; exact Hk).
      unfold ConvergeDevice.ekey, slot_of in Hk. cbn [fst] in Hk.
      destruct (match_row rmatch r rs) as [[s0 crs]|] eqn:Em; [|discriminate]. cbn in Hk.
      assert (Hks : key_of s0 = key_of s) by congruence.
      destruct (afind_slot s0 an) as [[[r' m'] sub']|] eqn:Ea.
      - apply afind_slot_in in Ea as [Ha Hka]. cbn [ami fst snd] in Hka.
        assert (Hr' : forall t0, ekey (r', t0) = Some (key_of s)).
        { intro t0. rewrite (an_ekey r' m' sub' t0 Ha). congruence. }
        destruct (String.eqb r r'); [destruct Hin as [<-|[]]; apply Hr|].
        destruct (a_logic (mi_attrs s0)); destruct Hin as [<-|[]]; auto.
      - destruct (a_logic (mi_attrs s0)); try destruct Hin as [<-|[]]; try contradiction; auto.
    Qed.

    Lemma exp_entry_len r t : List.length (exp_entry an r t) <= 1.
    Proof.
      unfold exp_entry. destruct (match_row rmatch r rs) as [[s0 crs]|]; [|cbn; lia].
      destruct (afind_slot s0 an) as [[[r' m'] sub']|].
      - destruct (String.eqb r r'); [cbn; lia|]. destruct (a_logic (mi_attrs s0)); cbn; lia.
      - destruct (a_logic (mi_attrs s0)); cbn; lia.
    Qed.

    Definition exp_old (fo : forest) : forest := flat_map (fun e => exp_entry an (fst e) (snd e)) fo.

    Lemma exp_old_lkeys fo k : In k (lkeys (exp_old fo)) -> In k (lkeys fo).
    Proof.
      rewrite !lkeys_in. intros (e' & He' & Hk). apply in_flat_map in He' as ([r t] & He & Hin).
      cbn [fst snd] in Hin. exists (r, t). split; [exact He|].
      destruct (ekey (r, t)) as [k0|] eqn:E.
      - unfold ConvergeDevice.ekey in E. destruct (slot (fst (r, t))) as [s|] eqn:Es; [|discriminate].
        cbn in E. injection E as <-.
        assert (E2 : ekey (r, t) = Some (key_of s)) by (unfold ConvergeDevice.ekey; rewrite Es; reflexivity).
        rewrite (exp_entry_known r t s e' E2 Hin) in Hk. congruence.
      - rewrite exp_entry_unknown in Hin by exact E. destruct Hin as [<-|[]]. congruence.
    Qed.

    Lemma exp_old_uniq fo : lvl_uniq fo -> lvl_uniq (exp_old fo).
    Proof.
      unfold ConvergeDevice.lvl_uniq. induction fo as [|[r t] fo IH]; intro H; [constructor|].
      unfold exp_old. cbn [flat_map fst snd]. fold (exp_old fo). rewrite lkeys_app.
      rewrite lkeys_cons in H.
      destruct (ekey (r, t)) as [k|] eqn:E.
      - cbn [app] in H. inversion H as [|x l Hn Hr]; subst.
        unfold ConvergeDevice.ekey in E. destruct (slot (fst (r, t))) as [s|] eqn:Es; [|discriminate].
        cbn in E. injection E as <-.
        assert (E2 : ekey (r, t) = Some (key_of s)) by (unfold ConvergeDevice.ekey; rewrite Es; reflexivity).
        pose proof (exp_entry_len r t) as Hlen.
        destruct (exp_entry an r t) as [|e' [|e'' l']] eqn:Ee; [apply IH; exact Hr| |cbn in Hlen; lia].
        rewrite (lkeys_known _ _ _ _ (exp_entry_known r t s e' E2 ltac:(rewrite Ee; now left))).
        cbn [app]. constructor; [|apply IH; exact Hr]. intro Hin. apply Hn. apply exp_old_lkeys. exact Hin.
      - rewrite exp_entry_unknown by exact E. unfold ConvergeDevice.lkeys at 1. cbn [flat_map]. rewrite E.
        cbn [app]. apply IH. exact H.
    Qed.

    Lemma exp_old_unk fo : unk (exp_old fo) = unk fo.
    Proof.
      induction fo as [|[r t] fo IH]; [reflexivity|].
      unfold exp_old. cbn [flat_map fst snd]. fold (exp_old fo). rewrite unk_app, IH.
      change ((r, t) :: fo) with ([(r, t)] ++ fo). rewrite unk_app. f_equal.
      destruct (ekey (r, t)) as [k|] eqn:E.
      - unfold ConvergeDevice.ekey in E. destruct (slot (fst (r, t))) as [s|] eqn:Es; [|discriminate].
        cbn in E. injection E as <-.
        assert (E2 : ekey (r, t) = Some (key_of s)) by (unfold ConvergeDevice.ekey; rewrite Es; reflexivity).
        transitivity (@nil (string * tree)).
        + apply filter_none. intros e' He'.
          rewrite (exp_entry_known r t s e' E2 He'). reflexivity.
        + unfold ConvergeDevice.unk. cbn. rewrite E2. reflexivity.
      - rewrite exp_entry_unknown by exact E. reflexivity.
    Qed.

    Lemma exp_old_sfind s fo : lvl_uniq fo ->
      sfind s (exp_old fo) = match sfind s fo with Some (r, t) => hd_error (exp_entry an r t) | None => None end.
    Proof.
      intro Hu. induction fo as [|[r t] fo IH]; [reflexivity|].
      assert (Hu' : lvl_uniq fo).
      { unfold ConvergeDevice.lvl_uniq in *. rewrite lkeys_cons in Hu. destruct (ekey (r, t)); cbn in Hu; [inversion Hu; auto | exact Hu]. }
      unfold exp_old. cbn [flat_map fst snd]. fold (exp_old fo).
      unfold ConvergeDevice.sfind at 2. cbn [find].
      destruct (in_slot rmatch rs s (r, t)) eqn:Ei.
      - apply ins_iff in Ei. pose proof (exp_entry_len r t) as Hlen.
        destruct (exp_entry an r t) as [|e' [|e'' l']] eqn:Ee; [| |cbn in Hlen; lia].
        + cbn [app hd_error]. apply sfind_none. intro Hin. apply exp_old_lkeys in Hin.
          unfold ConvergeDevice.lvl_uniq in Hu. rewrite lkeys_cons, Ei in Hu. cbn in Hu. inversion Hu; contradiction.
        + cbn [app hd_error]. change (e' :: exp_old fo) with ([] ++ e' :: exp_old fo).
          apply sfind_mid; [intros [] |]. apply (exp_entry_known r t s e' Ei). rewrite Ee. now left.
      - fold (sfind s fo). rewrite <- IH by exact Hu'. apply ins_false_iff in Ei.
        apply sfind_app_r. intro Hin. apply lkeys_in in Hin as (e' & He' & Hk).
        destruct (ekey (r, t)) as [k0|] eqn:E.
        + unfold ConvergeDevice.ekey in E. destruct (slot (fst (r, t))) as [s0|] eqn:Es; [|discriminate].
          cbn in E. injection E as <-.
          assert (E2 : ekey (r, t) = Some (key_of s0)) by (unfold ConvergeDevice.ekey; rewrite Es; reflexivity).
          rewrite (exp_entry_known r t s0 e' E2 He') in Hk. apply Ei. exact Hk.
        + rewrite exp_entry_unknown in He' by exact E. destruct He' as [<-|[]]. congruence.
    Qed.

    (* the rows created in free slots *)
    Definition new_entry (k : string * minfo * atree) : string * tree := (arow k, erase (asub k)).

    Lemma created_eq fo :
      created rmatch rs fo an =
      flat_map (fun k => if in_dec key_eq_dec (key_of (ami k)) (lkeys fo) then [] else [new_entry k]) an.
    Proof.
      unfold created. apply flat_map_ext. intros [[r m] c]. cbn [fst snd ami arow asub new_entry].
      destruct (existsb (same_slot m) (level_slots rmatch rs fo)) eqn:E.
      - apply existsb_same_slot in E. rewrite level_slots_keys in E.
        destruct (in_dec key_eq_dec (key_of m) (lkeys fo)); [reflexivity | contradiction].
      - destruct (in_dec key_eq_dec (key_of m) (lkeys fo)) as [Hin|]; [|reflexivity].
        rewrite <- level_slots_keys in Hin. apply existsb_same_slot in Hin. congruence.
    Qed.

    Lemma new_entry_ekey k : In k an -> ekey (new_entry k) = Some (key_of (ami k)).
    Proof. destruct k as [[r m] c]. intro H. exact (an_ekey r m c _ H). Qed.

    Lemma created_in fo e : In e (created rmatch rs fo an) <->
      exists k, In k an /\ ~ In (key_of (ami k)) (lkeys fo) /\ e = new_entry k.
    Proof.
      rewrite created_eq, in_flat_map. split.
      - intros (k & Hk & Hin). destruct (in_dec key_eq_dec (key_of (ami k)) (lkeys fo)); [destruct Hin|].
        destruct Hin as [<-|[]]. exists k. auto.
      - intros (k & Hk & Hn & ->). exists k. split; [exact Hk|].
        destruct (in_dec key_eq_dec (key_of (ami k)) (lkeys fo)); [contradiction | now left].
    Qed.

    Lemma created_unk fo : unk (created rmatch rs fo an) = [].
    Proof.
      apply filter_none. intros e He. apply created_in in He as (k & Hk & _ & ->).
      rewrite (new_entry_ekey k Hk). reflexivity.
    Qed.

    Lemma created_lkeys fo k0 : In k0 (lkeys (created rmatch rs fo an)) -> In k0 (akeys an) /\ ~ In k0 (lkeys fo).
    Proof.
      rewrite lkeys_in. intros (e & He & Hk). apply created_in in He as (k & Hkin & Hn & ->).
      rewrite (new_entry_ekey k Hkin) in Hk. assert (E : k0 = key_of (ami k)) by congruence. subst k0.
      split; [|exact Hn]. apply (in_map (fun k => key_of (ami k))). exact Hkin.
    Qed.

    Lemma created_uniq fo : lvl_uniq (created rmatch rs fo an).
    Proof.
      unfold ConvergeDevice.lvl_uniq. rewrite created_eq. pose proof an_nodup as Hnd.
      assert (Hsub : forall k, In k an -> In k an) by auto. revert Hnd Hsub.
      generalize an at 1 2 4. intro l. induction l as [|k l IH]; intros Hnd Hsub; [constructor|].
      cbn [flat_map]. unfold akeys in Hnd. cbn [map] in Hnd. inversion Hnd as [|x y Hn Hr]; subst.
      destruct (in_dec key_eq_dec (key_of (ami k)) (lkeys fo)).
      - apply IH; [exact Hr | intros; apply Hsub; now right].
      - cbn [app]. rewrite lkeys_cons, (new_entry_ekey k (Hsub k (or_introl eq_refl))). cbn [app].
        constructor; [|apply IH; [exact Hr | intros; apply Hsub; now right]].
        intro Hin. apply Hn. apply lkeys_in in Hin as (e & He & Hk). apply in_flat_map in He as (k2 & Hk2 & He).
        destruct (in_dec key_eq_dec (key_of (ami k2)) (lkeys fo)); [destruct He|]. destruct He as [<-|[]].
        rewrite (new_entry_ekey k2 (Hsub k2 (or_intror Hk2))) in Hk.
        assert (E : key_of (ami k) = key_of (ami k2)) by congruence. rewrite E.
        apply (in_map (fun k => key_of (ami k))). exact Hk2.
    Qed.

    Lemma created_sfind s fo :
      sfind s (created rmatch rs fo an) =
      if in_dec key_eq_dec (key_of s) (lkeys fo) then None else option_map new_entry (afind_slot s an).
    Proof.
      destruct (in_dec key_eq_dec (key_of s) (lkeys fo)) as [Hin|Hn].
      - apply sfind_none. intro H. apply created_lkeys in H as [_ H]. contradiction.
      - rewrite created_eq. unfold afind_slot.
        assert (Hsub : forall k, In k an -> In k an) by auto. revert Hsub.
        generalize an at 1 3 4. intro l. induction l as [|k l IH]; intro Hsub; [reflexivity|].
        cbn [flat_map find]. change (snd (fst k)) with (ami k).
        destruct (same_slot (ami k) s) eqn:E.
        + apply same_slot_iff in E.
          destruct (in_dec key_eq_dec (key_of (ami k)) (lkeys fo)) as [Hin|_]; [rewrite E in Hin; contradiction|].
          cbn [app option_map]. change (new_entry k :: ?x) with ([] ++ new_entry k :: x).
          apply sfind_mid; [intros [] |]. rewrite (new_entry_ekey k (Hsub k (or_introl eq_refl))). congruence.
        + apply same_slot_false_iff in E.
          destruct (in_dec key_eq_dec (key_of (ami k)) (lkeys fo)).
          * cbn [app]. apply IH. intros; apply Hsub; now right.
          * cbn [app]. change (new_entry k :: ?x) with ([] ++ new_entry k :: x).
            rewrite sfind_skip; [apply IH; intros; apply Hsub; now right|].
            rewrite (new_entry_ekey k (Hsub k (or_introl eq_refl))). congruence.
    Qed.

    (* ---------- the whole level ---------- *)
    Definition exp_slot (fo : forest) (s : minfo) : option (string * tree) :=
      match sfind s fo with
      | Some (r, t) => hd_error (exp_entry an r t)
      | None => option_map new_entry (afind_slot s an)
      end.

    Theorem expected_unk fo : unk (expected_t rmatch (T fo) rs an) = unk fo.
    Proof. rewrite expected_t_unfold, unk_app. fold (exp_old fo). rewrite exp_old_unk, created_unk. apply app_nil_r. Qed.

    Theorem expected_uniq fo : lvl_uniq fo -> lvl_uniq (expected_t rmatch (T fo) rs an).
    Proof.
      intro Hu. rewrite expected_t_unfold. fold (exp_old fo). unfold ConvergeDevice.lvl_uniq. rewrite lkeys_app.
      apply NoDup_app_intro; [apply exp_old_uniq; exact Hu | apply created_uniq |].
      intros k H1 H2. apply exp_old_lkeys in H1. apply created_lkeys in H2 as [_ H2]. contradiction.
    Qed.

    Theorem expected_sfind fo s : lvl_uniq fo -> sfind s (expected_t rmatch (T fo) rs an) = exp_slot fo s.
    Proof.
      intro Hu. rewrite expected_t_unfold. fold (exp_old fo). unfold exp_slot.
      pose proof (exp_old_sfind s fo Hu) as Ho.
      destruct (sfind s fo) as [[r t]|] eqn:Es.
      - destruct (hd_error (exp_entry an r t)) as [e'|] eqn:Eh.
        + apply sfind_app_l. exact Ho.
        + rewrite sfind_app_r by (apply sfind_none; exact Ho).
          rewrite created_sfind. apply sfind_in in Es as [Hin Hk].
          destruct (in_dec key_eq_dec (key_of s) (lkeys fo)) as [_|Hn]; [reflexivity|].
          exfalso. apply Hn. apply lkeys_in. exists (r, t). auto.
      - rewrite sfind_app_r by (apply sfind_none; exact Ho). rewrite created_sfind.
        apply sfind_none in Es. destruct (in_dec key_eq_dec (key_of s) (lkeys fo)); [contradiction | reflexivity].
    Qed.
  End WithNew.
End Exp.
