(* C17 proof library, part 3: a childless row present at the same path on both sides, all
   of whose ancestors (and itself) are governed by rules with the default diff logic, is
   UNCHANGED in make_diff and absent from the stripped diff.  Built on the C03 libraries. *)
From Coq Require Import List String Ascii Bool Arith Lia Permutation.
From Annet Require Import Base.Str Base.Tree Model.Rulebook Model.Diff Spec.P_C03 Proofs.DiffBasics
     Proofs.DiffProofsLib Proofs.DiffProofsAnnot Proofs.DiffProofsLossless
     Model.Implicit Spec.P_C17 Proofs.ImplicitLib.
Import ListNotations.
Open Scope string_scope.
Open Scope list_scope.

(* ---------- entries at a path ---------- *)
Lemma entries_at_one x D : entries_at [x] D = filter (fun e => String.eqb (d_row e) x) D.
Proof. reflexivity. Qed.
Lemma entries_at_cons2 x y p D :
  entries_at (x :: y :: p) D =
  flat_map (fun e => if String.eqb (d_row e) x then entries_at (y :: p) (d_kids e) else []) D.
Proof. reflexivity. Qed.

(* the path ends in a row without children on both sides (the level below it is empty);
   rows no rule knows end the path early *)
Fixpoint aleaf_both (p : list string) (ao an : aforest) : Prop :=
  match p with
  | [] => ao = [] /\ an = []
  | x :: p' =>
    match alookup x ao, alookup x an with
    | Some (_, so), Some (_, sn) => aleaf_both p' (akids so) (akids sn)
    | None, None => True
    | _, _ => False
    end
  end.

(* every known row of the path is governed by a rule with the default diff logic *)
Fixpoint addef (p : list string) (an : aforest) : Prop :=
  match p with
  | [] => True
  | x :: p' =>
    match alookup x an with
    | Some (m, s) => mi_dlogic m = DDefault /\ addef p' (akids s)
    | None => True
    end
  end.

(* every entry along the path is AFFECTED and the last one has no children *)
Fixpoint aff_leaf (p : list string) (D : list dnode) : Prop :=
  match p with
  | [] => D = []
  | x :: p' => forall e, In e D -> d_row e = x -> d_op e = Affected /\ aff_leaf p' (d_kids e)
  end.

(* ---------- scan_new with moved_to_affected: the parent's op is handed on ---------- *)
Definition scan_rel_mta (og : aforest) (pop : op) (inrw : bool) (k : string * minfo * atree) (d : dnode) : Prop :=
  match alookup (arow k) og with
  | None => d = DN Added (arow k) (ami k) (diff_t (asub k) [] Added inrw)
  | Some (_, so) => d = DN pop (arow k) (ami k) (diff_t (asub k) (akids so) pop inrw)
  end.

Lemma scan_In_mta og pop inrw : forall l i dis d,
  In d (scan_new og pop inrw true (cks l) i dis) -> exists k, In k l /\ scan_rel_mta og pop inrw k d.
Proof.
  induction l as [|[[r m] c] l IH]; intros i dis d H; [destruct H|].
  change (cks ((r, m, c) :: l)) with ((r, m, diff_t c) :: cks l) in H. cbn [scan_new] in H.
  destruct (afind r og 0) as [[j so]|] eqn:Ef.
  - apply afind_Some in Ef as (mo & El).
    assert (Hhead : scan_rel_mta og pop inrw (r, m, c) (DN pop r m (diff_t c (akids so) pop inrw))).
    { unfold scan_rel_mta, arow, ami, asub. cbn [fst snd]. rewrite El. reflexivity. }
    destruct (dis || negb (Nat.eqb i j)).
    + destruct H as [E|H].
      * subst d. exists (r, m, c). split; [now left | exact Hhead].
      * destruct (IH _ _ _ H) as (k & Hk & Hr). exists k. split; [now right | exact Hr].
    + destruct H as [E|H].
      * subst d. exists (r, m, c). split; [now left | exact Hhead].
      * destruct (IH _ _ _ H) as (k & Hk & Hr). exists k. split; [now right | exact Hr].
  - apply afind_None in Ef. destruct H as [E|H].
    + subst d. exists (r, m, c). split; [now left|].
      unfold scan_rel_mta, arow, ami, asub. cbn [fst snd]. rewrite Ef. reflexivity.
    + destruct (IH _ _ _ H) as (k & Hk & Hr). exists k. split; [now right | exact Hr].
Qed.

Lemma base_diff_In_mta og pop inrw ng d :
  In d (base_diff og pop inrw true (cks ng)) ->
  (exists k, In k ng /\ scan_rel_mta og pop inrw k d) \/
  (exists k, In k og /\ ~ In (arow k) (arows ng) /\ d = mkrem k).
Proof.
  intros H. eapply Permutation_in in H; [|apply base_diff_perm].
  apply in_app_iff in H as [H|H].
  - left. eapply scan_In_mta. exact H.
  - right. apply in_map_iff in H as (k & E & Hk). apply filter_In in Hk as [Hk1 Hk2].
    exists k. split; [exact Hk1|]. split; [|auto].
    unfold notin in Hk2. apply negb_true_iff in Hk2. apply existsb_eqb_false. exact Hk2.
Qed.

(* the rows of a group's entries come from the group's rows *)
Lemma run_dlogic_rows L og ng pop inrw e :
  In e (run_dlogic L og (cks ng) pop inrw) -> In (d_row e) (arows og) \/ In (d_row e) (arows ng).
Proof.
  assert (HB : forall inrw' mta x, In x (base_diff og pop inrw' mta (cks ng)) ->
                                   In (d_row x) (arows og) \/ In (d_row x) (arows ng)).
  { intros inrw' mta x Hx. apply base_diff_In in Hx as [(k & Hk & Hrel)|(k & Hk & _ & E)].
    - right. rewrite (scan_rel_row _ _ _ _ _ Hrel). apply in_map. exact Hk.
    - left. subst x. apply (in_map arow) in Hk. exact Hk. }
  unfold run_dlogic. destruct L; try apply HB.
  destruct inrw; [apply HB|]. destruct (all_affected _); [intros []|].
  unfold aff_to_moved. intros H. apply in_map_iff in H as (y & Ey & Hy). subst e.
  rewrite aff_to_moved_row. eapply HB. exact Hy.
Qed.

(* ---------- the path invariant on the raw diff ---------- *)
Lemma aff_leaf_diff_t : forall p nt ao inrw,
  awf ao -> awf (akids nt) -> compat ao (akids nt) ->
  aleaf_both p ao (akids nt) -> addef p (akids nt) ->
  aff_leaf p (diff_t nt ao Affected inrw).
Proof.
  induction p as [|x p IH]; intros [nk] ao inrw Hwo Hwn Hc Hleaf Hdef; cbn [akids] in *.
  - destruct Hleaf as [E1 E2]. subst ao nk. reflexivity.
  - cbn [aff_leaf]. intros e He Hrow. rewrite diff_t_unfold, diff_level_unfold in He.
    apply in_flat_map in He as (L & _ & He).
    pose proof (run_dlogic_rows _ _ _ _ _ _ He) as Hrows. rewrite Hrow in Hrows.
    cbn [aleaf_both] in Hleaf. cbn [addef] in Hdef.
    destruct (alookup x ao) as [[mo so]|] eqn:Eo; destruct (alookup x nk) as [[m c]|] eqn:En;
      try contradiction.
    + (* on both sides *)
      destruct Hdef as [Hdl Hdef].
      pose proof (alookup_Some_In _ _ _ _ En) as Hink.
      destruct (compat_In ao nk Hc x m c mo so Hink Eo) as [Em Hcs]. subst mo.
      assert (HL : L = DDefault).
      { destruct Hrows as [Hr|Hr].
        - pose proof (dl_of_old ao nk Hwo L x Hr) as E. unfold dl_of in E. rewrite Eo in E. congruence.
        - pose proof (dl_of_new ao nk Hwn Hc L x Hr) as E. unfold dl_of in E. rewrite Eo in E. congruence. }
      subst L. unfold run_dlogic in He.
      assert (Hfk : In (x, m, c) (filter (inL DDefault) nk)).
      { apply filter_In. split; [exact Hink|]. unfold inL, ami. cbn [fst snd]. rewrite Hdl. reflexivity. }
      apply base_diff_In_mta in He as [(k & Hk & Hrel)|(k & Hk & Hn & E)].
      * apply filter_In in Hk as [Hk _].
        assert (Ek : arow k = x).
        { unfold scan_rel_mta in Hrel. destruct (alookup (arow k) (filter (inL DDefault) ao)) as [[mo' so']|];
            subst e; exact Hrow. }
        assert (k = (x, m, c)).
        { destruct k as [[r' m'] c']. unfold arow in Ek. cbn [fst] in Ek. subst r'.
          pose proof (alookup_In nk x m' c' (awf_NoDup nk Hwn) Hk) as E. rewrite En in E. congruence. }
        subst k. unfold scan_rel_mta, arow, ami, asub in Hrel. cbn [fst snd] in Hrel.
        rewrite (old_group_lookup ao nk Hwo Hc DDefault x m c Hink Hdl), Eo in Hrel.
        subst e. cbn [d_op d_kids]. split; [reflexivity|].
        apply IH.
        -- eapply awf_In; [exact Hwo|]. apply alookup_Some_In. exact Eo.
        -- eapply awf_In; [exact Hwn | exact Hink].
        -- exact Hcs.
        -- exact Hleaf.
        -- exact Hdef.
      * exfalso. apply Hn. subst e. cbn [mkrem d_row] in Hrow. rewrite Hrow.
        apply (in_map arow) in Hfk. exact Hfk.
    + (* unknown on both sides: no entry carries the row *)
      exfalso. destruct Hrows as [Hr|Hr].
      * apply arows_filter_incl in Hr. apply alookup_None in Eo. contradiction.
      * apply arows_filter_incl in Hr. apply alookup_None in En. contradiction.
Qed.

(* ---------- marking and stripping ---------- *)
Lemma aff_leaf_marked : forall p D, p <> [] -> aff_leaf p D ->
  Forall (fun e => d_op e = Unchanged) (entries_at p (mark_unchanged D)).
Proof.
  induction p as [|x p IH]; intros D Hp H; [congruence|].
  destruct p as [|y p].
  - rewrite entries_at_one. apply Forall_forall. intros e' He'. apply filter_In in He' as [He' Er].
    unfold mark_unchanged in He'. apply in_map_iff in He' as (e & E & He). subst e'.
    rewrite mark_row in Er. apply String.eqb_eq in Er.
    destruct (H e He Er) as [Ho Hk]. cbn [aff_leaf] in Hk.
    destruct e as [o row m k]. cbn [d_op d_kids] in Ho, Hk. subst o k. reflexivity.
  - rewrite entries_at_cons2. apply Forall_forall. intros e' He'.
    apply in_flat_map in He' as (e1 & He1 & He').
    unfold mark_unchanged in He1. apply in_map_iff in He1 as (e & E & He). subst e1.
    rewrite mark_row in He'. destruct (String.eqb_spec (d_row e) x) as [Er|Er]; [|destruct He'].
    destruct (H e He Er) as [Ho Hk].
    destruct e as [o row m k]. cbn [d_op d_kids] in Ho, Hk. subst o.
    cbn [mark_unchanged_n op_eqb d_kids] in He'.
    assert (HF := IH k ltac:(discriminate) Hk). rewrite Forall_forall in HF. apply HF. exact He'.
Qed.

Lemma entries_at_strip : forall p D, p <> [] ->
  Forall (fun e => d_op e = Unchanged) (entries_at p D) -> entries_at p (strip_unchanged D) = [].
Proof.
  induction p as [|x p IH]; intros D Hp H; [congruence|].
  rewrite Forall_forall in H. destruct p as [|y p].
  - rewrite entries_at_one in *. unfold strip_unchanged.
    induction D as [|[o row m k] D IHD]; [reflexivity|]. cbn [flat_map strip_unchanged_n].
    assert (HD : forall e, In e (filter (fun e => String.eqb (d_row e) x) D) -> d_op e = Unchanged).
    { intros e He. apply H. cbn [filter]. destruct (String.eqb (d_row (DN o row m k)) x); [now right | exact He]. }
    destruct (op_eqb o Unchanged) eqn:Eo; [apply IHD; exact HD|].
    cbn [app filter d_row]. destruct (String.eqb_spec row x) as [Er|Er]; [|apply IHD; exact HD].
    exfalso. assert (E : d_op (DN o row m k) = Unchanged).
    { apply H. cbn [filter d_row]. subst row. rewrite String.eqb_refl. now left. }
    cbn [d_op] in E. subst o. discriminate.
  - rewrite entries_at_cons2 in *. unfold strip_unchanged.
    induction D as [|[o row m k] D IHD]; [reflexivity|]. cbn [flat_map strip_unchanged_n].
    assert (HD : forall e, In e (flat_map (fun e => if String.eqb (d_row e) x then entries_at (y :: p) (d_kids e) else []) D)
                           -> d_op e = Unchanged).
    { intros e He. apply H. cbn [flat_map]. apply in_or_app. now right. }
    destruct (op_eqb o Unchanged) eqn:Eo; [apply IHD; exact HD|].
    cbn [app flat_map d_row d_kids]. rewrite (IHD HD), app_nil_r.
    destruct (String.eqb_spec row x) as [Er|Er]; [|reflexivity].
    apply IH; [discriminate|]. apply Forall_forall. intros e He. apply H.
    cbn [flat_map d_row d_kids]. subst row. rewrite String.eqb_refl. apply in_or_app. now left.
Qed.

(* ---------- from config trees to annotated trees ---------- *)
Section Top.
  Variable rmatch : string -> string -> option (list string).

  Lemma annot_lookup rs x : forall l,
    alookup x (annot_f rmatch rs l) =
    match lookup x l with
    | Some c => match match_row rmatch x rs with
                | Some (mi, crs) => Some (mi, annot rmatch crs c)
                | None => None
                end
    | None => None
    end.
  Proof.
    induction l as [|[row c] l IH]; [reflexivity|].
    rewrite annot_f_cons. cbn [lookup].
    destruct (String.eqb_spec row x) as [E|E].
    - subst row. destruct (match_row rmatch x rs) as [[mi crs]|] eqn:Em.
      + cbn [alookup]. rewrite String.eqb_refl. reflexivity.
      + rewrite IH. destruct (lookup x l); try rewrite Em; reflexivity.
    - destruct (match_row rmatch row rs) as [[mi crs]|]; [|exact IH].
      cbn [alookup]. destruct (String.eqb_spec row x); [contradiction | exact IH].
  Qed.

  Lemma leaf_annot : forall p rs old new,
    sub_at p old = Some [] -> sub_at p new = Some [] ->
    aleaf_both p (annot_f rmatch rs old) (annot_f rmatch rs new).
  Proof.
    induction p as [|x p IH]; intros rs old new Ho Hn; cbn [sub_at] in *.
    - injection Ho as Ho. injection Hn as Hn. subst. split; reflexivity.
    - cbn [aleaf_both]. rewrite !annot_lookup.
      destruct (lookup x old) as [co|]; [|discriminate]. destruct (lookup x new) as [cn|]; [|discriminate].
      destruct (match_row rmatch x rs) as [[mi crs]|]; [|exact I].
      rewrite !annot_akids. apply IH; assumption.
  Qed.

  Lemma ddef_annot : forall p rs new, path_ddefault rmatch rs p = true -> addef p (annot_f rmatch rs new).
  Proof.
    induction p as [|x p IH]; intros rs new H; [exact I|].
    cbn [addef path_ddefault] in *. rewrite annot_lookup.
    destruct (lookup x new) as [cn|]; [|exact I].
    destruct (match_row rmatch x rs) as [[mi crs]|]; [|exact I].
    apply andb_true_iff in H as [H1 H2]. apply dlogic_eqb_eq in H1. split; [exact H1|].
    rewrite annot_akids. apply IH. exact H2.
  Qed.

  (* a childless row at the same path on both sides, under default diff logic all the way *)
  Theorem leaf_both_unchanged rs old new p :
    wf old -> wf new -> p <> [] ->
    sub_at p old = Some [] -> sub_at p new = Some [] ->
    path_ddefault rmatch rs p = true ->
    Forall (fun e => d_op e = Unchanged) (entries_at p (make_diff rmatch rs old new)) /\
    entries_at p (strip_unchanged (make_diff rmatch rs old new)) = [].
  Proof.
    intros Hwo Hwn Hp Ho Hn Hd.
    assert (HF : Forall (fun e => d_op e = Unchanged) (entries_at p (make_diff rmatch rs old new))).
    { unfold make_diff, raw_diff. apply aff_leaf_marked; [exact Hp|].
      apply aff_leaf_diff_t.
      - apply annot_awf. exact Hwo.
      - apply (annot_awf rmatch new rs Hwn).
      - apply (annot_compat rmatch new rs old).
      - apply (leaf_annot p rs old new Ho Hn).
      - apply (ddef_annot p rs new Hd). }
    split; [exact HF | apply entries_at_strip; assumption].
  Qed.
End Top.
