(* Lemma library for Model/PatchDC.v (make_patch with its do_commit flag) and Spec/P_C09DC.v. *)
From Coq Require Import List String Ascii Bool Arith ZArith NArith Lia Permutation.
From Annet Require Import Base.Str Base.Tree Model.Pattern Model.Rulebook Model.Diff Model.Order
     Model.Patch Model.Blocks Model.Pipeline Model.PatchDC Gen.Src_apply Model.Deploy Spec.P_C09 Spec.P_C09DC
     Proofs.SortProofs Proofs.OrderProofs.
Import ListNotations.
Open Scope string_scope.
Open Scope list_scope.

(* ------------------------------------------------------------------------------------------
   A. Congruence of the level function in the children closures and in the flag (where the flag
      cannot matter), hence: do_commit = true is Model/Patch.v, and do_commit does not matter for
      a diff that meets no %force_commit rule. *)
Section DCExt.
  Variable rmatch : string -> string -> option (list string).
  Variable rsrc rrev : string -> string.
  Variable block_exit : string.
  Variable rreverse : string -> list string -> string.

  Definition Req (c c' : ckpre) : Prop := forall ord, c ord = c' ord.
  Notation crel := (crel Req).
  Notation yrel := (yrel Req).

  Definition same_skip (dc dc' : bool) (a : attrs) : Prop :=
    negb dc && a_force_commit a = negb dc' && a_force_commit a.

  Lemma yield_step_dc_ext dc dc' ordering raw a acc y y' :
    same_skip dc dc' a -> yrel y y' ->
    yield_step_dc rmatch rsrc rrev block_exit dc ordering raw a acc y =
    yield_step_dc rmatch rsrc rrev block_exit dc' ordering raw a acc y'.
  Proof.
    intros Hs Hy. destruct y as [[d row] sub], y' as [[d' row'] sub'].
    destruct Hy as (E1 & E2 & Hsub). cbn in E1, E2, Hsub. subst d' row'.
    unfold yield_step_dc. destruct acc as [out|]; [|reflexivity].
    unfold same_skip in Hs. rewrite Hs. destruct (negb dc' && a_force_commit a); [reflexivity|].
    destruct (get_order rmatch rsrc rrev block_exit ordering row d (Some "patch")) as [[order odirect] ord'].
    destruct sub as [[c n]|], sub' as [[c' n']|]; cbn in Hsub; try tauto.
    destruct Hsub as [Hc En]. subst n'. destruct n; [rewrite (Hc ord')|]; reflexivity.
  Qed.

  Lemma fold_yield_dc_ext dc dc' ordering raw a ys ys' :
    same_skip dc dc' a -> Forall2 yrel ys ys' -> forall acc,
    fold_left (yield_step_dc rmatch rsrc rrev block_exit dc ordering raw a) ys acc =
    fold_left (yield_step_dc rmatch rsrc rrev block_exit dc' ordering raw a) ys' acc.
  Proof.
    intros Hs H. induction H as [|y y' ys ys' Hy Hys IH]; intros acc; cbn [fold_left]; [reflexivity|].
    rewrite (yield_step_dc_ext dc dc' ordering raw a acc y y' Hs Hy). apply IH.
  Qed.

  Definition frel2 (dc dc' : bool) (e e' : cflat) : Prop :=
    fst (fst (fst e)) = fst (fst (fst e')) /\ snd (fst (fst e)) = snd (fst (fst e')) /\
    snd (fst e) = snd (fst e') /\ Forall2 crel (snd e) (snd e') /\ same_skip dc dc' (snd (fst (fst e))).

  Lemma group_step_dc_ext dc dc' ordering acc e e' :
    frel2 dc dc' e e' ->
    group_step_dc rmatch rsrc rrev block_exit rreverse dc ordering acc e =
    group_step_dc rmatch rsrc rrev block_exit rreverse dc' ordering acc e'.
  Proof.
    intros He. destruct e as [[[raw a] key] its], e' as [[[raw' a'] key'] its'].
    destruct He as (E1 & E2 & E3 & Hits & Hs). cbn in E1, E2, E3, Hits, Hs. subst raw' a' key'.
    unfold group_step_dc. destruct acc as [out|]; [|reflexivity].
    pose proof (run_logic_rel rreverse Req (a_pat a) key (a_logic a) its its' Hits) as HL.
    destruct (run_logic rreverse (a_pat a) key (a_logic a) its) as [ys|],
             (run_logic rreverse (a_pat a) key (a_logic a) its') as [ys'|]; cbn in HL; try tauto.
    apply fold_yield_dc_ext; assumption.
  Qed.

  Lemma fold_group_dc_ext dc dc' ordering fl fl' :
    Forall2 (frel2 dc dc') fl fl' -> forall acc,
    fold_left (group_step_dc rmatch rsrc rrev block_exit rreverse dc ordering) fl acc =
    fold_left (group_step_dc rmatch rsrc rrev block_exit rreverse dc' ordering) fl' acc.
  Proof.
    intros H. induction H as [|e e' fl fl' He Hfl IH]; intros acc; cbn [fold_left]; [reflexivity|].
    rewrite (group_step_dc_ext dc dc' ordering acc e e' He). apply IH.
  Qed.

  Lemma patch_level_dc_ext dc dc' gs gs' ordering :
    Forall2 (frel2 dc dc') (flat_groups_dc gs) (flat_groups_dc gs') ->
    patch_level_dc rmatch rsrc rrev block_exit rreverse dc gs ordering =
    patch_level_dc rmatch rsrc rrev block_exit rreverse dc' gs' ordering.
  Proof.
    intros H. unfold patch_level_dc. rewrite (fold_group_dc_ext dc dc' ordering _ _ H). reflexivity.
  Qed.

  (* closing the same groups with two pointwise equal functions *)
  Definition slot_ok (dc dc' : bool) (f f' : pre -> ckpre) (g : pgroup) : Prop :=
    same_skip dc dc' (snd (fst g)) /\
    Forall (fun k : list string * list pitem => Forall (fun it : pitem => Req (f (snd it)) (f' (snd it))) (snd k)) (snd g).

  Lemma flat_close_rel dc dc' f f' groups :
    Forall (slot_ok dc dc' f f') groups ->
    Forall2 (frel2 dc dc') (flat_groups_dc (close_groups_dc f groups)) (flat_groups_dc (close_groups_dc f' groups)).
  Proof.
    unfold flat_groups_dc, close_groups_dc.
    induction 1 as [|g groups Hg Hgs IH]; cbn [map flat_map]; [constructor|].
    apply Forall2_app; [|exact IH]. clear IH Hgs.
    destruct g as [[raw a] ks]. destruct Hg as [Hs Hks]. cbn [fst snd] in Hs, Hks.
    induction Hks as [|k ks Hk Hks IHk]; cbn [map]; constructor; [|exact IHk].
    repeat split; cbn [fst snd]; try assumption.
    clear - Hk. induction Hk as [|it its Hit Hits IHi]; cbn [map]; constructor; [|exact IHi].
    destruct it as [[o row] ch]. cbn [snd] in Hit. repeat split. exact Hit.
  Qed.

  Lemma make_patch_dc_unfold dc groups :
    make_patch_dc rmatch rsrc rrev block_exit rreverse dc (Pre groups) =
    patch_level_dc rmatch rsrc rrev block_exit rreverse dc
                   (close_groups_dc (make_patch_dc rmatch rsrc rrev block_exit rreverse dc) groups).
  Proof. reflexivity. Qed.

  Lemma make_patch_unfold groups :
    make_patch rmatch rsrc rrev block_exit rreverse (Pre groups) =
    patch_level_dc rmatch rsrc rrev block_exit rreverse true
                   (close_groups_dc (make_patch rmatch rsrc rrev block_exit rreverse) groups).
  Proof. reflexivity. Qed.

  (* do_commit = True is the model of Model/Patch.v *)
  Theorem make_patch_dc_true : forall p ord,
    make_patch_dc rmatch rsrc rrev block_exit rreverse true p ord =
    make_patch rmatch rsrc rrev block_exit rreverse p ord.
  Proof.
    apply (pre_ind2 (fun p => forall ord, make_patch_dc rmatch rsrc rrev block_exit rreverse true p ord =
                                          make_patch rmatch rsrc rrev block_exit rreverse p ord)).
    intros groups IH ord. rewrite make_patch_dc_unfold, make_patch_unfold.
    apply patch_level_dc_ext. apply flat_close_rel.
    apply Forall_forall. intros g Hg. split; [reflexivity|].
    exact (proj1 (Forall_forall _ _) IH g Hg).
  Qed.

  (* a diff that meets no %force_commit rule: the flag is irrelevant *)
  Theorem make_patch_dc_irrelevant : forall p,
    fc_free p = true -> forall dc ord,
    make_patch_dc rmatch rsrc rrev block_exit rreverse dc p ord =
    make_patch rmatch rsrc rrev block_exit rreverse p ord.
  Proof.
    apply (pre_ind2 (fun p => fc_free p = true -> forall dc ord,
                                make_patch_dc rmatch rsrc rrev block_exit rreverse dc p ord =
                                make_patch rmatch rsrc rrev block_exit rreverse p ord)).
    intros groups IH Hfree dc ord. rewrite make_patch_dc_unfold, make_patch_unfold.
    apply patch_level_dc_ext. apply flat_close_rel.
    cbn [fc_free] in Hfree. rewrite forallb_forall in Hfree.
    apply Forall_forall. intros g Hg.
    pose proof (Hfree g Hg) as Hgf. apply andb_true_iff in Hgf. destruct Hgf as [Hfc Hkids].
    apply negb_true_iff in Hfc. split.
    - unfold same_skip. rewrite Hfc, !andb_false_r. reflexivity.
    - pose proof (proj1 (Forall_forall _ _) IH g Hg) as IHg.
      rewrite forallb_forall in Hkids.
      apply Forall_forall. intros k Hk.
      pose proof (proj1 (Forall_forall _ _) IHg k Hk) as IHk.
      pose proof (Hkids k Hk) as Hkf. rewrite forallb_forall in Hkf.
      apply Forall_forall. intros it Hit.
      pose proof (proj1 (Forall_forall _ _) IHk it Hit) as IHi. cbn beta in IHi.
      intros o. apply IHi. apply Hkf. exact Hit.
  Qed.
End DCExt.

(* ------------------------------------------------------------------------------------------
   B. What a logic function can yield: rows of its items or the slot's undo command; sub-patches
      of its items. *)
Section Yields.
  Variable rreverse : string -> list string -> string.
  Variable PR : string -> Prop.
  Variable PC : ckpre -> Prop.

  Definition cit_ok (it : citem) : Prop := PR (snd (fst (fst it))) /\ PC (snd (fst it)).
  Definition y_ok (y : bool * string * option (ckpre * bool)) : Prop :=
    PR (snd (fst y)) /\ match snd y with Some (c, _) => PC c | None => True end.

  Lemma bucket_ok o its : Forall cit_ok its -> Forall cit_ok (bucket o its).
  Proof.
    unfold bucket. intros H. apply Forall_forall. intros x Hx. apply filter_In in Hx.
    exact (proj1 (Forall_forall _ _) H x (proj1 Hx)).
  Qed.

  Lemma default_b_ok raw key a r f m ys :
    PR (rreverse raw key) ->
    Forall cit_ok a -> Forall cit_ok r -> Forall cit_ok f -> Forall cit_ok m ->
    default_b rreverse raw key a r f m = Some ys -> Forall y_ok ys.
  Proof.
    intros Hrev Ha Hr Hf Hm. unfold default_b.
    destruct (_ || _ || _ || _); [discriminate|].
    assert (Y : forall (x : citem) l, Forall cit_ok (x :: l) ->
                                      Forall y_ok [(true, snd (fst (fst x)), Some (snd (fst x), snd x))]).
    { intros x l H. inversion H as [|? ? [H1 H2] _]; subst. constructor; [|constructor]. split; assumption. }
    destruct f as [|[[[o1 r1] c1] n1] f'].
    - destruct a as [|[[[o2 r2] c2] n2] a'].
      + destruct m as [|[[[o3 r3] c3] n3] m'].
        * destruct r as [|x r']; intros H; injection H as <-; [constructor|].
          constructor; [|constructor]. split; [exact Hrev|exact I].
        * intros H; injection H as <-. exact (Y _ _ Hm).
      + intros H; injection H as <-. exact (Y _ _ Ha).
    - intros H; injection H as <-. exact (Y _ _ Hf).
  Qed.

  Lemma run_logic_ok raw key L its ys :
    PR (rreverse raw key) -> Forall cit_ok its ->
    run_logic rreverse raw key L its = Some ys -> Forall y_ok ys.
  Proof.
    intros Hrev Hits. unfold run_logic.
    pose proof (bucket_ok Added its Hits) as Ha. pose proof (bucket_ok Removed its Hits) as Hr.
    pose proof (bucket_ok Affected its Hits) as Hf. pose proof (bucket_ok Moved its Hits) as Hm.
    pose proof (fun a r f m => default_b_ok raw key a r f m) as D.
    destruct L.
    - intros H. exact (D _ _ _ _ ys Hrev Ha Hr Hf Hm H).
    - destruct (default_b rreverse raw key _ _ _ _) as [y|] eqn:E; [|discriminate].
      pose proof (D _ _ _ _ y Hrev Ha Hr Hf Hm E) as Hy.
      intros H; injection H as <-. destruct (bucket Moved its); [exact Hy|].
      constructor; [|exact Hy]. split; [exact Hrev|exact I].
    - destruct (bucket Removed its) eqn:Er.
      + intros H. exact (D _ _ _ _ ys Hrev Ha Hr Hf Hm H).
      + intros H; injection H as <-. constructor.
    - destruct (bucket Removed its) as [|[[[o1 r1] c1] n1] r'] eqn:Er.
      + intros H. exact (D _ _ _ _ ys Hrev Ha Hr Hf Hm H).
      + destruct n1; [|intros H; injection H as <-; constructor].
        intros H. apply (D _ _ _ _ ys Hrev Ha (Forall_nil _)) in H; [exact H| |exact Hm].
        apply Forall_app. split; assumption.
    - destruct (bucket Added its) as [|xa a'] eqn:Ea.
      + intros H. exact (D _ _ _ _ ys Hrev Ha Hr Hf Hm H).
      + destruct (bucket Removed its) as [|xr r'] eqn:Er.
        * intros H. exact (D _ _ _ _ ys Hrev Ha Hr Hf Hm H).
        * intros H; injection H as <-. constructor.
    - destruct (bucket Added its) as [|xa a'] eqn:Ea.
      + intros H. exact (D _ _ _ _ ys Hrev Ha Hr Hf Hm H).
      + destruct (bucket Removed its) as [|xr r'] eqn:Er.
        * intros H. exact (D _ _ _ _ ys Hrev Ha Hr Hf Hm H).
        * destruct (bucket Affected its) as [|xf f'] eqn:Ef.
          -- destruct (default_b rreverse raw key [] (xr :: r') [] []) as [y1|] eqn:E1; [|discriminate].
             destruct (default_b rreverse raw key (xa :: a') [] [] []) as [y2|] eqn:E2; [|discriminate].
             intros H; injection H as <-. apply Forall_app. split.
             ++ exact (D _ _ _ _ y1 Hrev (Forall_nil _) Hr (Forall_nil _) (Forall_nil _) E1).
             ++ exact (D _ _ _ _ y2 Hrev Ha (Forall_nil _) (Forall_nil _) (Forall_nil _) E2).
          -- intros H. exact (D _ _ _ _ ys Hrev Ha Hr Hf Hm H).
  Qed.
End Yields.

(* ------------------------------------------------------------------------------------------
   C. With do_commit = false every row of the patch, at any depth, is a row the diff offers to a
      rule that is not %force_commit (or the undo command of such a slot). *)
Definition item_rows (it : pt_item) : list string :=
  fst (fst it) :: match snd (fst it) with Some c => pt_rows c | None => [] end.

Lemma pt_rows_unfold items : pt_rows (PT items) = flat_map item_rows items.
Proof. reflexivity. Qed.

Section NoAddedCommit.
  Variable rmatch : string -> string -> option (list string).
  Variable rsrc rrev : string -> string.
  Variable block_exit : string.
  Variable rreverse : string -> list string -> string.
  Variable ALLOWED : list string.

  Definition item_ok (it : pt_item) : Prop := incl (item_rows it) ALLOWED.
  Definition PRa (row : string) : Prop := In row ALLOWED.
  Definition PCa (c : ckpre) : Prop := forall ord ct, c ord = POk ct -> incl (pt_rows ct) ALLOWED.

  Lemma yield_step_inv ordering raw a acc y out :
    (a_force_commit a = false -> y_ok PRa PCa y) -> Forall item_ok acc ->
    yield_step_dc rmatch rsrc rrev block_exit false ordering raw a (Some acc) y = Some out ->
    Forall item_ok out.
  Proof.
    destruct y as [[d row] sub]. unfold yield_step_dc. cbn [negb andb].
    destruct (a_force_commit a) eqn:Efc.
    - intros _ Hacc H. injection H as <-. exact Hacc.
    - intros Hy Hacc. specialize (Hy eq_refl). destruct Hy as [Hrow Hsub]. cbn [fst snd] in Hrow, Hsub.
      destruct (get_order rmatch rsrc rrev block_exit ordering row d (Some "patch")) as [[order odirect] ord'].
      destruct (match sub with Some (ch, true) => ch ord' | _ => POk (PT []) end) as [ct|] eqn:Ec; [|discriminate].
      intros H. injection H as <-. apply Forall_app. split; [exact Hacc|].
      constructor; [|constructor].
      assert (Hct : incl (pt_rows ct) ALLOWED).
      { destruct sub as [[ch [|]]|].
        - exact (Hsub ord' ct Ec).
        - injection Ec as <-. intros x [].
        - injection Ec as <-. intros x []. }
      destruct (_ || negb d); unfold item_ok, item_rows; cbn [fst snd].
      + intros x [<-|[]]. exact Hrow.
      + intros x [<-|Hx]; [exact Hrow|exact (Hct x Hx)].
  Qed.

  Lemma fold_yield_inv ordering raw a ys :
    (a_force_commit a = false -> Forall (y_ok PRa PCa) ys) -> forall acc out,
    Forall item_ok acc ->
    fold_left (yield_step_dc rmatch rsrc rrev block_exit false ordering raw a) ys (Some acc) = Some out ->
    Forall item_ok out.
  Proof.
    induction ys as [|y ys IH]; intros Hys acc out Hacc; cbn [fold_left].
    - intros H. injection H as <-. exact Hacc.
    - destruct (yield_step_dc rmatch rsrc rrev block_exit false ordering raw a (Some acc) y) as [acc1|] eqn:E1.
      + apply IH.
        * intros Efc. specialize (Hys Efc). inversion Hys; assumption.
        * apply (yield_step_inv ordering raw a acc y acc1); [|exact Hacc|exact E1].
          intros Efc. specialize (Hys Efc). inversion Hys; assumption.
      + intros H. exfalso. clear - H. induction ys as [|y' ys IH']; cbn [fold_left] in H; [discriminate|].
        apply IH'. destruct y' as [[d' row'] sub']. exact H.
  Qed.

  Definition flat_ok (e : cflat) : Prop :=
    a_force_commit (snd (fst (fst e))) = false ->
    PRa (rreverse (a_pat (snd (fst (fst e)))) (snd (fst e))) /\ Forall (cit_ok PRa PCa) (snd e).

  Lemma group_step_inv ordering acc e out :
    flat_ok e -> Forall item_ok acc ->
    group_step_dc rmatch rsrc rrev block_exit rreverse false ordering (Some acc) e = Some out ->
    Forall item_ok out.
  Proof.
    destruct e as [[[raw a] key] its]. unfold flat_ok, group_step_dc. cbn [fst snd].
    intros He Hacc.
    destruct (run_logic rreverse (a_pat a) key (a_logic a) its) as [ys|] eqn:EL; [|discriminate].
    apply fold_yield_inv; [|exact Hacc].
    intros Efc. destruct (He Efc) as [Hrev Hits].
    exact (run_logic_ok rreverse PRa PCa (a_pat a) key (a_logic a) its ys Hrev Hits EL).
  Qed.

  Lemma fold_group_none ordering fl :
    fold_left (group_step_dc rmatch rsrc rrev block_exit rreverse false ordering) fl None = None.
  Proof. induction fl as [|[[[raw a] key] its] fl IH]; cbn [fold_left]; [reflexivity|exact IH]. Qed.

  Lemma fold_group_inv ordering fl :
    Forall flat_ok fl -> forall acc out,
    Forall item_ok acc ->
    fold_left (group_step_dc rmatch rsrc rrev block_exit rreverse false ordering) fl (Some acc) = Some out ->
    Forall item_ok out.
  Proof.
    induction 1 as [|e fl He Hfl IH]; intros acc out Hacc; cbn [fold_left].
    - intros H. injection H as <-. exact Hacc.
    - destruct (group_step_dc rmatch rsrc rrev block_exit rreverse false ordering (Some acc) e) as [acc1|] eqn:E1.
      + apply IH. exact (group_step_inv ordering acc e acc1 He Hacc E1).
      + rewrite fold_group_none. discriminate.
  Qed.
End NoAddedCommit.

Section Main.
  Variable rmatch : string -> string -> option (list string).
  Variable rsrc rrev : string -> string.
  Variable block_exit : string.
  Variable rreverse : string -> list string -> string.

  Lemma pre_rows_slot groups (g : pgroup) k :
    In g groups -> a_force_commit (snd (fst g)) = false -> In k (snd g) ->
    incl (rreverse (a_pat (snd (fst g))) (fst k) ::
          flat_map (fun it : pitem => snd (fst it) :: pre_rows rreverse (snd it)) (snd k))
         (pre_rows rreverse (Pre groups)).
  Proof.
    intros Hg Hfc Hk x Hx. cbn [pre_rows]. apply in_flat_map. exists g. split; [exact Hg|].
    rewrite Hfc. apply in_flat_map. exists k. split; [exact Hk|exact Hx].
  Qed.

  Theorem dc_false_rows : forall p ord t,
    make_patch_dc rmatch rsrc rrev block_exit rreverse false p ord = POk t ->
    incl (pt_rows t) (pre_rows rreverse p).
  Proof.
    apply (pre_ind2 (fun p => forall ord t,
                         make_patch_dc rmatch rsrc rrev block_exit rreverse false p ord = POk t ->
                         incl (pt_rows t) (pre_rows rreverse p))).
    intros groups IH ord t H. rewrite make_patch_dc_unfold in H. unfold patch_level_dc in H.
    destruct (fold_left _ _ (Some [])) as [out|] eqn:Ef; [|discriminate]. injection H as <-.
    set (ALLOWED := pre_rows rreverse (Pre groups)).
    assert (Hout : Forall (item_ok ALLOWED) out).
    { refine (fold_group_inv rmatch rsrc rrev block_exit rreverse ALLOWED ord _ _ [] out (Forall_nil _) Ef).
      apply Forall_forall. intros e He. unfold flat_groups_dc in He. apply in_flat_map in He.
      destruct He as (cg & Hcg & He). unfold close_groups_dc in Hcg. apply in_map_iff in Hcg.
      destruct Hcg as (g & Eg & Hg). subst cg. destruct g as [[raw a] ks] eqn:Eg0.
      apply in_map_iff in He. destruct He as (ck & Ee & Hck). subst e.
      apply in_map_iff in Hck. destruct Hck as (k & Ek & Hk). subst ck.
      unfold flat_ok. cbn [fst snd]. intros Hfc.
      assert (Hslot := pre_rows_slot groups (raw, a, ks) k Hg Hfc Hk). cbn [fst snd] in Hslot.
      fold ALLOWED in Hslot. split.
      - apply Hslot. left. reflexivity.
      - apply Forall_forall. intros cit Hcit. apply in_map_iff in Hcit. destruct Hcit as (it & Ecit & Hit).
        subst cit. destruct it as [[o row] ch] eqn:Eit. unfold cit_ok, close_item_dc. cbn [fst snd].
        assert (Hsub : incl (row :: pre_rows rreverse ch) ALLOWED).
        { intros x Hx. apply Hslot. right. apply in_flat_map. exists (o, row, ch). split; [exact Hit|exact Hx]. }
        split.
        + apply Hsub. left. reflexivity.
        + intros ord' ct Hc x Hx. apply Hsub. right.
          pose proof (proj1 (Forall_forall _ _) IH _ Hg) as IHg. cbn [snd] in IHg.
          pose proof (proj1 (Forall_forall _ _) IHg _ Hk) as IHk.
          pose proof (proj1 (Forall_forall _ _) IHk _ Hit) as IHi. cbn [snd] in IHi.
          exact (IHi ord' ct Hc x Hx). }
    intros x Hx. rewrite pt_rows_unfold in Hx. apply in_flat_map in Hx. destruct Hx as (it & Hit & Hx).
    assert (Hit' : In it out).
    { unfold sort_items in Hit. exact (Permutation_in it (sort_perm _ out) Hit). }
    exact (proj1 (Forall_forall _ _) Hout it Hit' x Hx).
  Qed.

  Lemma mem_In x l : mem x l = true <-> In x l.
  Proof.
    unfold mem. rewrite existsb_exists. split.
    - intros (y & Hy & E). apply String.eqb_eq in E. subst y. exact Hy.
    - intros H. exists x. split; [exact H|apply String.eqb_refl].
  Qed.

  Lemma rows_within_incl allowed t : rows_within allowed t = true <-> incl (pt_rows t) allowed.
  Proof.
    unfold rows_within. rewrite forallb_forall. split.
    - intros H x Hx. apply mem_In. exact (H x Hx).
    - intros H x Hx. apply mem_In. exact (H x Hx).
  Qed.

  (* the model satisfies the predicate evaluated on the real outputs *)
  Theorem dc_patch_ok_model : forall p ord,
    dc_patch_ok rreverse p (make_patch_dc rmatch rsrc rrev block_exit rreverse false p ord) = true.
  Proof.
    intros p ord. unfold dc_patch_ok.
    destruct (make_patch_dc rmatch rsrc rrev block_exit rreverse false p ord) as [t|] eqn:E; [|reflexivity].
    apply rows_within_incl. exact (dc_false_rows p ord t E).
  Qed.

  (* pre_rows is part of pre_rows_all: what is allowed are rows the diff offers *)
  Lemma pre_rows_sub : forall p, incl (pre_rows rreverse p) (pre_rows_all rreverse p).
  Proof.
    apply (pre_ind2 (fun p => incl (pre_rows rreverse p) (pre_rows_all rreverse p))).
    intros groups IH x Hx. cbn [pre_rows] in Hx. cbn [pre_rows_all].
    apply in_flat_map in Hx. destruct Hx as (g & Hg & Hx). apply in_flat_map. exists g. split; [exact Hg|].
    destruct (a_force_commit (snd (fst g))); [destruct Hx|].
    apply in_flat_map in Hx. destruct Hx as (k & Hk & Hx). apply in_flat_map. exists k. split; [exact Hk|].
    destruct Hx as [Hx|Hx]; [left; exact Hx|right].
    apply in_flat_map in Hx. destruct Hx as (it & Hit & Hx). apply in_flat_map. exists it. split; [exact Hit|].
    destruct Hx as [Hx|Hx]; [left; exact Hx|right].
    pose proof (proj1 (Forall_forall _ _) IH _ Hg) as IHg.
    pose proof (proj1 (Forall_forall _ _) IHg _ Hk) as IHk.
    exact (proj1 (Forall_forall _ _) IHk _ Hit x Hx).
  Qed.
End Main.
