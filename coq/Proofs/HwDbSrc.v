(* C18 — facts about the *current* tables (Gen/Src_devdb.v), by computation. *)
From Coq Require Import List String Bool Arith.
From Annet Require Import Base.Str Model.HwDb Spec.P_C18 Gen.Src_devdb Proofs.HwDbProofs Proofs.HwDbTables.
Import ListNotations.
Open Scope string_scope.
Open Scope list_scope.

Definition Src_tree : list node := match Src_tree_opt with Some t => t | None => [] end.

Lemma Src_tree_built : build_tree Src_db = Some Src_tree.
Proof. vm_compute. reflexivity. Qed.

Lemma Src_db_ok : db_ok Src_db = true.
Proof. vm_compute. reflexivity. Qed.

Lemma Src_all_eq : all_sequences Src_db = Src_all.
Proof. vm_compute. reflexivity. Qed.

Lemma Src_keys_eq : keys Src_db = Src_keys.
Proof. vm_compute. reflexivity. Qed.

Lemma Src_tree_opt_eq : Src_tree_opt = Some Src_tree.
Proof. vm_compute. reflexivity. Qed.

(* what the case files evaluate is the model applied to the current tables *)
Lemma src_true_is_model m : src_true m = true_sequences _ hit_tbl Src_db m.
Proof. unfold src_true, true_sequences. rewrite Src_tree_built, Src_tree_opt_eq. reflexivity. Qed.

Lemma src_vendor_is_model vs m : src_vendor vs m = vendor_of _ hit_tbl Src_db vs m.
Proof. unfold src_vendor, vendor_of. rewrite Src_tree_built, Src_tree_opt_eq, Src_all_eq. reflexivity. Qed.

Theorem src_true_iff_chain M (hit : rid -> M -> bool) m s :
  In s (keys Src_db) -> (In s (tree_true M hit m Src_tree) <-> chain_hits M hit Src_db m s = true).
Proof. apply (true_iff_chain Src_db Src_tree Src_tree_built Src_db_ok). Qed.

Theorem src_prefix_closed M (hit : rid -> M -> bool) m s p :
  In s (keys Src_db) -> In s (tree_true M hit m Src_tree) -> In p (seq_subs s) ->
  In p (tree_true M hit m Src_tree).
Proof. apply (prefix_closed Src_db Src_tree Src_tree_built Src_db_ok). Qed.

Theorem src_static_holds M (hit : rid -> M -> bool) m :
  let tr := tree_true M hit m Src_tree in
  match_err tr Src_all Src_vendors = false ->
  no_tie (matched tr Src_all Src_vendors) = true ->
  matched tr Src_all Src_vendors <> [] ->
  P_C18_static Src_keys Src_all Src_vendors tr (registry_match tr Src_all Src_vendors) = true.
Proof.
  intros tr HE HT HN. unfold P_C18_static. rewrite <- Src_keys_eq.
  unfold tr. rewrite (hier_ok_model Src_db Src_tree Src_tree_built Src_db_ok). cbn.
  apply vendor_ok_model; assumption.
Qed.
