(* C18 — facts about the *current* tables (Gen/Src_devdb.v), by computation. *)
From Coq Require Import List String Bool Arith.
From Annet Require Import Base.Str Model.HwDb Spec.P_C18 Gen.Src_devdb Proofs.HwDbProofs Proofs.HwDbTables.
Import ListNotations.
Open Scope string_scope.
Open Scope list_scope.

Definition Src_tree : list node := match Src_tree_opt with Some t => t | None => [] end.

Lemma Src_tree_built : build_tree Src_db = Some Src_tree.
Proof. vm_compute. reflexivity. Qed.

Lemma Src_db_ok : db_ok Src_db = true.
Proof. vm_compute. reflexivity. Qed.

Lemma Src_all_eq : all_sequences Src_db = Src_all.
Proof. vm_compute. reflexivity. Qed.

Lemma Src_keys_eq : keys Src_db = Src_keys.
Proof. vm_compute. reflexivity. Qed.
