(* C17 proof library, part 5: parents present on the DEVICE side only.

   A row q that old has below a parent path p and new has not (all rows of p under the default diff
   logic) is REMOVED in make_diff; a REMOVED entry is a block header of the patch only under a
   %permanent rule; hence, without such a rule at that level, the patch has NO command strictly
   below p ++ [q] - in particular none for a default of the completion of that block.  Together with
   Proofs/ImplicitPatch.v: clause 4 holds below parents present on both sides and below parents the
   device side alone has; it fails below parents the generator side alone has (finding). *)
From Coq Require Import List String Ascii Bool Arith Lia Permutation.
From Annet Require Import Base.Str Base.Tree Model.Pattern Model.Rulebook Model.Diff Model.Order Model.Patch
     Model.Blocks Model.Pipeline Model.Device Model.Implicit
     Spec.P_C03 Spec.C09Blocks Spec.P_C17 Gen.Src_implicit
     Proofs.DiffBasics Proofs.DiffProofsLib Proofs.DiffProofsAnnot Proofs.DiffProofsLossless Proofs.DiffProofsOrder
     Proofs.SortProofs Proofs.BlocksProofs Proofs.AclPipelineProofs
     Proofs.ImplicitLib Proofs.ImplicitSpec Proofs.ImplicitDiff Proofs.ImplicitProofs Proofs.ImplicitPatch.
Import ListNotations.
Open Scope string_scope.
Open Scope list_scope.

(* ------------------------------------------------------------------------------------ *)
(* 1. the diff: AFFECTED along p, REMOVED at q                                             *)

(* q is not on the new side below p; p itself is on both sides (rows no rule knows end the path) *)
Fixpoint aonly_old (p : list string) (q : string) (ao an : aforest) : Prop :=
  match p with
  | [] => alookup q an = None
  | x :: p' =>
    match alookup x ao, alookup x an with
    | Some (_, so), Some (_, sn) => aonly_old p' q (akids so) (akids sn)
    | None, None => True
    | _, _ => False
    end
  end.

Fixpoint aff_rem (p : list string) (q : string) (D : list dnode) : Prop :=
  match p with
  | [] => forall e, In e D -> d_row e = q -> d_op e = Removed
  | x :: p' => forall e, In e D -> d_row e = x -> d_op e = Affected /\ aff_rem p' q (d_kids e)
  end.

Lemma aff_to_moved_removed y : d_op y = Removed -> d_op (aff_to_moved_n y) = Removed.
Proof. destruct y as [o r m k]. cbn. intros E. subst o. reflexivity. Qed.

Lemma aff_rem_diff_t q : forall p nt ao inrw,
  awf ao -> awf (akids nt) -> compat ao (akids nt) ->
  aonly_old p q ao (akids nt) -> addef p (akids nt) ->
  aff_rem p q (diff_t nt ao Affected inrw).
Proof.
  induction p as [|x p IH]; intros [nk] ao inrw Hwo Hwn Hc Hleaf Hdef; cbn [akids] in *.
  - cbn [aff_rem aonly_old] in *. intros e He Hrow.
    rewrite diff_t_unfold, diff_level_unfold in He. apply in_flat_map in He as (L & _ & He).
    apply run_dlogic_In in He as (inrw' & mta & y & Hy & Ee).
    assert (Hyr : d_row y = q).
    { destruct Ee as [Ee|Ee]; subst e; [exact Hrow | rewrite aff_to_moved_row in Hrow; exact Hrow]. }
    assert (Hyo : d_op y = Removed).
    { apply base_diff_In in Hy as [(k & Hk & Hrel)|(k & Hk & _ & E)].
      - exfalso. apply scan_rel_row in Hrel. apply filter_In in Hk as [Hk _].
        apply alookup_None in Hleaf. apply Hleaf. rewrite <- Hyr, Hrel. apply (in_map arow) in Hk. exact Hk.
      - subst y. reflexivity. }
    destruct Ee as [Ee|Ee]; subst e; [exact Hyo | apply aff_to_moved_removed; exact Hyo].
  - cbn [aff_rem]. intros e He Hrow. rewrite diff_t_unfold, diff_level_unfold in He.
    apply in_flat_map in He as (L & _ & He).
    pose proof (run_dlogic_rows _ _ _ _ _ _ He) as Hrows. rewrite Hrow in Hrows.
    cbn [aonly_old] in Hleaf. cbn [addef] in Hdef.
    destruct (alookup x ao) as [[mo so]|] eqn:Eo; destruct (alookup x nk) as [[m c]|] eqn:En;
      try contradiction.
    + destruct Hdef as [Hdl Hdef].
      pose proof (alookup_Some_In _ _ _ _ En) as Hink.
      destruct (compat_In ao nk Hc x m c mo so Hink Eo) as [Em Hcs]. subst mo.
      assert (HL : L = DDefault).
      { destruct Hrows as [Hr|Hr].
        - pose proof (dl_of_old ao nk Hwo L x Hr) as E. unfold dl_of in E. rewrite Eo in E. congruence.
        - pose proof (dl_of_new ao nk Hwn Hc L x Hr) as E. unfold dl_of in E. rewrite Eo in E. congruence. }
      subst L. unfold run_dlogic in He.
      assert (Hfk : In (x, m, c) (filter (inL DDefault) nk)).
      { apply filter_In. split; [exact Hink|]. unfold inL, ami. cbn [fst snd]. rewrite Hdl. reflexivity. }
      apply base_diff_In_mta in He as [(k & Hk & Hrel)|(k & Hk & Hn & E)].
      * apply filter_In in Hk as [Hk _].
        assert (Ek : arow k = x).
        { unfold scan_rel_mta in Hrel. destruct (alookup (arow k) (filter (inL DDefault) ao)) as [[mo' so']|];
            subst e; exact Hrow. }
        assert (k = (x, m, c)).
        { destruct k as [[r' m'] c']. unfold arow in Ek. cbn [fst] in Ek. subst r'.
          pose proof (alookup_In nk x m' c' (awf_NoDup nk Hwn) Hk) as E. rewrite En in E. congruence. }
        subst k. unfold scan_rel_mta, arow, ami, asub in Hrel. cbn [fst snd] in Hrel.
        rewrite (old_group_lookup ao nk Hwo Hc DDefault x m c Hink Hdl), Eo in Hrel.
        subst e. cbn [d_op d_kids]. split; [reflexivity|].
        apply IH.
        -- eapply awf_In; [exact Hwo|]. apply alookup_Some_In. exact Eo.
        -- eapply awf_In; [exact Hwn | exact Hink].
        -- exact Hcs.
        -- exact Hleaf.
        -- exact Hdef.
      * exfalso. apply Hn. subst e. cbn [mkrem d_row] in Hrow. rewrite Hrow.
        apply (in_map arow) in Hfk. exact Hfk.
    + exfalso. destruct Hrows as [Hr|Hr].
      * apply arows_filter_incl in Hr. apply alookup_None in Eo. contradiction.
      * apply arows_filter_incl in Hr. apply alookup_None in En. contradiction.
Qed.

(* after marking: the entries of q below p are still REMOVED *)
Lemma aff_rem_level q : forall p D, aff_rem p q D ->
  forall n, In n (level_at p (mark_unchanged D)) -> d_row n = q -> d_op n = Removed.
Proof.
  induction p as [|x p IH]; intros D H n Hn Er.
  - cbn [level_at] in Hn. unfold mark_unchanged in Hn. apply in_map_iff in Hn as (e & E & He). subst n.
    rewrite mark_row in Er. cbn [aff_rem] in H. specialize (H e He Er).
    destruct e as [o r m k]. cbn [d_op] in H. subst o. reflexivity.
  - cbn [level_at] in Hn. apply in_flat_map in Hn as (e' & He' & Hn).
    unfold mark_unchanged in He'. apply in_map_iff in He' as (e & E & He). subst e'.
    rewrite mark_row in Hn. destruct (String.eqb_spec (d_row e) x) as [Ex|Ex]; [|destruct Hn].
    cbn [aff_rem] in H. destruct (H e He Ex) as [Ho Hk].
    destruct e as [o r m k]. cbn [d_op d_kids] in Ho, Hk. subst o.
    assert (E : d_kids (mark_unchanged_n (DN Affected r m k)) = mark_unchanged k).
    { cbn [mark_unchanged_n op_eqb]. destruct (forallb _ _); reflexivity. }
    rewrite E in Hn. eapply IH; [exact Hk | exact Hn | exact Er].
Qed.

Section TopRemoved.
  Variable rmatch : string -> string -> option (list string).

  Lemma only_old_annot q : forall p rs old new ol nl,
    sub_at p old = Some ol -> sub_at p new = Some nl -> ~ In q (keys nl) ->
    aonly_old p q (annot_f rmatch rs old) (annot_f rmatch rs new).
  Proof.
    induction p as [|x p IH]; intros rs old new ol nl Ho Hn Hq; cbn [sub_at] in *.
    - injection Hn as Hn. subst nl. cbn [aonly_old]. rewrite annot_lookup.
      assert (E : lookup q new = None) by (apply lookup_None; exact Hq). rewrite E. reflexivity.
    - cbn [aonly_old]. rewrite !annot_lookup.
      destruct (lookup x old) as [co|]; [|discriminate]. destruct (lookup x new) as [cn|]; [|discriminate].
      destruct (match_row rmatch x rs) as [[mi crs]|]; [|exact I].
      rewrite !annot_akids. eapply IH; eassumption.
  Qed.

  (* a row of old that new has not, below a path present on both sides under the default diff logic,
     has only REMOVED entries in make_diff *)
  Theorem only_old_removed rs old new p q ol nl :
    wf old -> wf new ->
    sub_at p old = Some ol -> sub_at p new = Some nl -> ~ In q (keys nl) ->
    path_ddefault rmatch rs p = true ->
    forall n, In n (level_at p (make_diff rmatch rs old new)) -> d_row n = q -> d_op n = Removed.
  Proof.
    intros Hwo Hwn Ho Hn Hq Hd. unfold make_diff, raw_diff. apply aff_rem_level.
    apply aff_rem_diff_t.
    - apply annot_awf. exact Hwo.
    - apply (annot_awf rmatch new rs Hwn).
    - apply (annot_compat rmatch new rs old).
    - apply (only_old_annot q p rs old new ol nl Ho Hn Hq).
    - apply (ddef_annot rmatch p rs new Hd).
  Qed.
End TopRemoved.

(* ------------------------------------------------------------------------------------ *)
(* 2. the patch: which entries become block headers                                        *)

Section LogicHdr.
  Variable rreverse : string -> list string -> string.
  Variable raw : string.
  Variable key : list string.

  Definition good_op (L : logic) (o : op) : Prop :=
    o = Added \/ o = Affected \/ o = Moved \/ (o = Removed /\ L = LPermanent).

  Definition yield_ok (L : logic) (its : list citem) (y : bool * string * option (ckpre * bool)) : Prop :=
    (exists c, In c its /\ good_op L (c_op c) /\ y = (true, c_row c, Some (c_ck c, c_ne c))) \/
    (exists r, y = (false, r, None)).

  Lemma run_logic_hdr L its ys : run_logic rreverse raw key L its = Some ys ->
    forall y, In y ys -> yield_ok L its y.
  Proof.
    assert (HbA : forall c, In c (bucket Added its) -> In c its /\ good_op L (c_op c)).
    { intros c Hc. apply bucket_In in Hc as [H1 H2]. split; [exact H1|]. left. exact H2. }
    assert (HbF : forall c, In c (bucket Affected its) -> In c its /\ good_op L (c_op c)).
    { intros c Hc. apply bucket_In in Hc as [H1 H2]. split; [exact H1|]. right. left. exact H2. }
    assert (HbM : forall c, In c (bucket Moved its) -> In c its /\ good_op L (c_op c)).
    { intros c Hc. apply bucket_In in Hc as [H1 H2]. split; [exact H1|]. right. right. left. exact H2. }
    assert (HbR : forall c, In c (bucket Removed its) -> In c its /\ c_op c = Removed).
    { intros c Hc. apply bucket_In in Hc. exact Hc. }
    assert (Hdef : forall A R F M ys',
               (forall c, In c A -> In c its /\ good_op L (c_op c)) ->
               (forall c, In c F -> In c its /\ good_op L (c_op c)) ->
               (forall c, In c M -> In c its /\ good_op L (c_op c)) ->
               default_b rreverse raw key A R F M = Some ys' ->
               forall y, In y ys' -> yield_ok L its y).
    { intros A R F M ys' HA HF HM E y Hy.
      destruct (default_b_spec _ _ _ _ _ _ _ _ E y Hy) as [(c & Hc & Ec)|[G1 G2]].
      - left. exists c. assert (G : In c its /\ good_op L (c_op c)).
        { apply in_app_iff in Hc as [Hc|Hc]; [apply HA; exact Hc|].
          apply in_app_iff in Hc as [Hc|Hc]; [apply HF | apply HM]; exact Hc. }
        destruct G as [G1 G2]. repeat split; assumption.
      - right. exists (rreverse raw key). exact G1. }
    assert (Hnil : forall c : citem, In c [] -> In c its /\ good_op L (c_op c)) by (intros c []).
    unfold run_logic. cbv zeta.
    revert HbA HbF HbM HbR.
    generalize (bucket Added its) as A, (bucket Removed its) as R, (bucket Affected its) as F, (bucket Moved its) as M.
    intros A R F M HA HF HM HR.
    destruct L.
    - intros E y Hy. eapply Hdef; [exact HA | exact HF | exact HM | exact E | exact Hy].
    - destruct (default_b rreverse raw key A R F M) as [y0|] eqn:E; [|discriminate].
      intros E2. injection E2 as E2. subst ys. intros y Hy.
      destruct M as [|c l].
      + eapply Hdef; [exact HA | exact HF | exact HM | exact E | exact Hy].
      + destruct Hy as [Hy|Hy].
        * subst y. right. eexists. reflexivity.
        * eapply Hdef; [exact HA | exact HF | exact HM | exact E | exact Hy].
    - destruct R as [|c l].
      + intros E y Hy. eapply Hdef; [exact HA | exact HF | exact HM | exact E | exact Hy].
      + intros E. injection E as E. subst ys. intros y [].
    - destruct R as [|[[[o row] ch] ne] l].
      + intros E y Hy. eapply Hdef; [exact HA | exact HF | exact HM | exact E | exact Hy].
      + destruct ne.
        * intros E y Hy. eapply Hdef; [exact HA | | exact HM | exact E | exact Hy].
          intros c Hc. apply in_app_iff in Hc as [Hc|Hc]; [apply HF; exact Hc|].
          destruct (HR c Hc) as [G1 G2]. split; [exact G1|]. right. right. right. split; [exact G2 | reflexivity].
        * intros E. injection E as E. subst ys. intros y [].
    - destruct A as [|ca la].
      + intros E y Hy. eapply Hdef; [exact HA | exact HF | exact HM | exact E | exact Hy].
      + destruct R as [|cr lr].
        * intros E y Hy. eapply Hdef; [exact HA | exact HF | exact HM | exact E | exact Hy].
        * intros E. injection E as E. subst ys. intros y [].
    - destruct A as [|ca la].
      + intros E y Hy. eapply Hdef; [exact HA | exact HF | exact HM | exact E | exact Hy].
      + destruct R as [|cr lr].
        * intros E y Hy. eapply Hdef; [exact HA | exact HF | exact HM | exact E | exact Hy].
        * destruct F as [|cf lf].
          -- destruct (default_b rreverse raw key [] (cr :: lr) [] []) as [y1|] eqn:E1; [|discriminate].
             destruct (default_b rreverse raw key (ca :: la) [] [] []) as [y2|] eqn:E2; [|discriminate].
             intros E. injection E as E. subst ys. intros y Hy. apply in_app_iff in Hy as [Hy|Hy].
             ++ eapply Hdef; [exact Hnil | exact Hnil | exact Hnil | exact E1 | exact Hy].
             ++ eapply Hdef; [exact HA | exact Hnil | exact Hnil | exact E2 | exact Hy].
          -- intros E y Hy. eapply Hdef; [exact HA | exact HF | exact HM | exact E | exact Hy].
  Qed.
End LogicHdr.

Section PatchHdr.
  Variable rmatch : string -> string -> option (list string).
  Variable rsrc : string -> string.
  Variable rrev : string -> string.
  Variable block_exit : string.
  Variable rreverse : string -> list string -> string.

  Notation make_patch := (make_patch rmatch rsrc rrev block_exit rreverse).
  Notation pl_inner := (pl_inner rmatch rsrc rrev block_exit).
  Notation pl_step := (pl_step rmatch rsrc rrev block_exit rreverse).
  Notation cit_of := (cit_of rmatch rsrc rrev block_exit rreverse).

  (* an entry that may head a block of the patch: ADDED, AFFECTED, MOVED - or REMOVED when a rule of
     its slot's raw text is %permanent *)
  Definition hdr_ok (D : list dnode) (n : dnode) : Prop :=
    d_op n = Added \/ d_op n = Affected \/ d_op n = Moved \/
    (d_op n = Removed /\ exists n0, In n0 D /\ mi_raw (d_mi n0) = mi_raw (d_mi n) /\
                                     a_logic (mi_attrs (d_mi n0)) = LPermanent).

  Fixpoint pt_hdr (t : ptree) (D : list dnode) {struct t} : Prop :=
    match t with
    | PT items =>
      (fix go (l : list item) : Prop :=
         match l with
         | [] => True
         | (row, child, _) :: l' =>
           match child with
           | Some ct => exists n, In n D /\ d_row n = row /\ hdr_ok D n /\ pt_hdr ct (d_kids n)
           | None => True
           end /\ go l'
         end) items
    end.

  Definition item_hdr (D : list dnode) (it : item) : Prop :=
    let '(row, child, _) := it in
    match child with
    | Some ct => exists n, In n D /\ d_row n = row /\ hdr_ok D n /\ pt_hdr ct (d_kids n)
    | None => True
    end.

  Lemma pt_hdr_items items D : pt_hdr (PT items) D <-> Forall (item_hdr D) items.
  Proof.
    cbn [pt_hdr]. induction items as [|[[row child] sk] l IH].
    - split; [constructor | trivial].
    - split.
      + intros [H1 H2]. constructor; [exact H1 | apply IH; exact H2].
      + intros H. inversion H as [|x y H1 H2]; subst. split; [exact H1 | apply IH; exact H2].
  Qed.

  Definition KIDSH (D : list dnode) : Prop :=
    forall n, In n D -> forall ord t, make_patch (make_pre (d_kids n)) ord = POk t -> pt_hdr t (d_kids n).

  Lemma pl_inner_hdr D raw a key ordering y :
    KIDSH D ->
    (exists n0, In n0 D /\ mi_raw (d_mi n0) = raw /\ mi_attrs (d_mi n0) = a) ->
    ((exists c, cit_of D raw key c /\ good_op (a_logic a) (c_op c) /\ y = (true, c_row c, Some (c_ck c, c_ne c))) \/
     (exists r, y = (false, r, None))) ->
    forall out out', Forall (item_hdr D) out -> pl_inner raw a ordering (Some out) y = Some out' ->
                     Forall (item_hdr D) out'.
  Proof.
    intros HK (n0 & Hn0 & Er0 & Ea0) Hy out out' Hout E.
    assert (Hcommit : forall sk, Forall (item_hdr D) (if a_force_commit a then [("commit", None, sk)] else [])).
    { intro sk. destruct (a_force_commit a); constructor; [exact I | constructor]. }
    destruct y as [[direct row] sub]. cbn [AclPipelineProofs.pl_inner] in E.
    destruct (get_order rmatch rsrc rrev block_exit ordering row direct (Some "patch")) as [[order odirect] ord'].
    destruct Hy as [(c & (n & Hn & Er & Ek & Eo & Erow & Eck) & Hgood & Ey)|(r & Ey)].
    - injection Ey as E1 E2 E3. subst direct row sub.
      assert (Hh : hdr_ok D n).
      { unfold hdr_ok. rewrite <- Eo. destruct Hgood as [G|[G|[G|[G1 G2]]]]; auto.
        right. right. right. split; [exact G1|]. exists n0. split; [exact Hn0|]. split; [congruence|].
        rewrite Ea0. exact G2. }
      assert (Hdir : forall ct sk, pt_hdr ct (d_kids n) -> item_hdr D (c_row c, Some ct, sk)).
      { intros ct sk Hct. exists n. split; [exact Hn|]. split; [symmetry; exact Erow|]. split; [exact Hh | exact Hct]. }
      destruct (c_ne c).
      + destruct (c_ck c ord') as [ct|] eqn:Ec; [|discriminate].
        injection E as E. subst out'. apply Forall_app. split; [exact Hout|].
        constructor; [|apply Hcommit].
        rewrite Eck in Ec. specialize (HK n Hn ord' ct Ec).
        destruct (_ || _); [exact I | apply Hdir; exact HK].
      + injection E as E. subst out'. apply Forall_app. split; [exact Hout|].
        constructor; [|apply Hcommit].
        destruct (_ || _); [exact I | apply Hdir; cbn; exact I].
    - injection Ey as E1 E2 E3. subst direct row sub.
      injection E as E. subst out'. apply Forall_app. split; [exact Hout|].
      constructor; [|apply Hcommit].
      rewrite orb_true_r. exact I.
  Qed.

  Lemma pl_step_hdr D ordering raw a key cits :
    KIDSH D ->
    (exists n0, In n0 D /\ mi_raw (d_mi n0) = raw /\ mi_attrs (d_mi n0) = a) ->
    (forall c, In c cits -> cit_of D raw key c) ->
    forall out out', Forall (item_hdr D) out -> pl_step ordering (Some out) (raw, a, key, cits) = Some out' ->
                     Forall (item_hdr D) out'.
  Proof.
    intros HK Hn0 Hc out out' Hout E. cbn [AclPipelineProofs.pl_step] in E.
    destruct (run_logic rreverse (a_pat a) key (a_logic a) cits) as [ys|] eqn:El; [|discriminate].
    eapply (fold_opt_inv (pl_inner raw a ordering) (item_hdr D) (pl_inner_none rmatch rsrc rrev block_exit raw a ordering) ys);
      [|exact Hout|exact E].
    intros y o o' Hy Ho Eo. eapply pl_inner_hdr; [exact HK | exact Hn0 | | exact Ho | exact Eo].
    destruct (run_logic_hdr _ _ _ _ _ _ El y Hy) as [(c & Hcin & Hg & Ey)|Hu].
    - left. exists c. split; [apply Hc; exact Hcin|]. split; assumption.
    - right. exact Hu.
  Qed.

  Theorem make_patch_level_hdr D : KIDSH D -> forall ord t, make_patch (make_pre D) ord = POk t -> pt_hdr t D.
  Proof.
    intros HK ord t E. pose proof (GI_make_pre D) as HG.
    destruct (make_pre D) as [groups]. cbn [pgroups] in HG.
    rewrite make_patch_eq, patch_level_eq in E.
    destruct (fold_left (pl_step ord) (pl_flat (map (grp_map rmatch rsrc rrev block_exit rreverse) groups)) (Some []))
      as [out|] eqn:Ef; [|discriminate].
    injection E as E. subst t. apply pt_hdr_items.
    apply sort_Forall.
    eapply (fold_opt_inv (pl_step ord) (item_hdr D) (pl_step_none rmatch rsrc rrev block_exit rreverse ord)); [| constructor | exact Ef].
    intros e o o' He Ho Eo. destruct e as [[[raw a] key] cits].
    unfold pl_flat in He. apply in_flat_map in He as (g & Hg & He).
    apply in_map_iff in Hg as (g0 & Eg & Hg0). subst g. destruct g0 as [[raw0 a0] ks0]. cbn [grp_map] in He.
    apply in_map_iff in He as (k & Ek & Hk). injection Ek as E1 E2 E3 E4. subst raw0 a0.
    apply in_map_iff in Hk as (k0 & Ek0 & Hk0). subst k. cbn [fst snd] in E3, E4. subst key cits.
    destruct k0 as [key its]. cbn [fst snd] in *.
    destruct (HG _ _ _ Hg0) as [G1 G2].
    eapply pl_step_hdr; [exact HK | exact G1 | | exact Ho | exact Eo].
    intros c Hc. apply in_map_iff in Hc as (x & Ex & Hx). subst c.
    destruct (G2 _ _ Hk0 x Hx) as (n & Hn & Er & Ekey & Ex). subst x.
    exists n. repeat split; assumption.
  Qed.

  Theorem make_patch_hdr : forall D ord t, make_patch (make_pre D) ord = POk t -> pt_hdr t D.
  Proof.
    assert (H : forall n, (fun n => forall ord t, make_patch (make_pre (d_kids n)) ord = POk t -> pt_hdr t (d_kids n)) n).
    { induction n as [o row m kids IH] using dnode_ind2. cbn [d_kids].
      apply make_patch_level_hdr. intros n Hn. rewrite Forall_forall in IH. apply IH. exact Hn. }
    intros D. apply make_patch_level_hdr. intros n _. apply H.
  Qed.

  (* every block header on a command path is an entry that may head a block *)
  Theorem rpaths_headers f : forall t D parent,
    pt_hdr t D ->
    forall p h c rest, In (p ++ h :: c :: rest) (rpaths f parent t) ->
      exists n, In n (level_at p D) /\ d_row n = h /\ hdr_ok (level_at p D) n.
  Proof.
    induction t as [items IH] using ptree_ind2. intros D parent Hrel p h c rest Hq.
    rewrite rpaths_unfold in Hq. apply pt_hdr_items in Hrel.
    revert Hrel Hq. induction IH as [|[[row child] sk] l Hit Hl IHl]; cbn [rpaths_items]; intros Hrel Hq; [destruct Hq|].
    inversion Hrel as [|x y Hrel1 Hrel2]; subst.
    destruct Hq as [Hq|Hq].
    { exfalso. destruct p as [|a [|b p']]; cbn in Hq; discriminate. }
    apply in_app_iff in Hq as [Hq|Hq]; [|apply IHl; assumption].
    destruct child as [ct|]; [|destruct Hq].
    unfold kidP in Hit. cbn [fst snd] in Hit. cbn [item_hdr] in Hrel1.
    destruct Hrel1 as (n & Hn & Er & Hh & Hct).
    apply in_app_iff in Hq as [Hq|Hq].
    - apply in_map_iff in Hq as (q' & Eq & Hq').
      destruct p as [|a p'].
      + (* the header is this item *)
        cbn [app] in Eq. injection Eq as E1 E2. subst row q'. exists n. cbn [level_at]. repeat split; assumption.
      + cbn [app] in Eq. injection Eq as E1 E2. subst a q'.
        apply in_app_iff in Hq' as [Hq'|Hq'].
        * destruct (Hit (d_kids n) row Hct p' h c rest Hq') as (n' & Hn' & Er' & Hh').
          pose proof (level_at_kids row p' D n Hn Er) as Hincl.
          exists n'. split; [apply Hincl; exact Hn'|]. split; [exact Er'|].
          destruct Hh' as [G|[G|[G|(G1 & n0 & G2 & G3 & G4)]]]; [left; exact G | right; left; exact G | right; right; left; exact G|].
          right. right. right. split; [exact G1|]. exists n0. split; [apply Hincl; exact G2|]. split; assumption.
        * exfalso. apply in_map_iff in Hq' as (e & Ee & _). unfold single in Ee.
          destruct p' as [|b [|b2 p'']]; cbn in Ee; discriminate.
    - exfalso. apply in_map_iff in Hq as (e & Ee & _). unfold single in Ee.
      destruct p as [|a [|b p']]; cbn in Ee; discriminate.
  Qed.
End PatchHdr.

(* ------------------------------------------------------------------------------------ *)
(* 3. no command below a block the device side alone has                                   *)
Section RemovedParent.
  Variable rm : string -> string -> option (list string).
  Variable rsrc : string -> string.
  Variable rrev : string -> string.
  Variable block_exit : string.
  Variable rreverse : string -> list string -> string.

  Theorem removed_parent_no_commands rs ordering f old new p q ol nl pt :
    wf old -> wf new ->
    sub_at p old = Some ol -> sub_at p new = Some nl -> ~ In q (keys nl) ->
    path_ddefault rm rs p = true ->
    stack_family f = true ->
    let D := make_diff rm rs old new in
    (forall n0, In n0 (level_at p D) -> a_logic (mi_attrs (d_mi n0)) <> LPermanent) ->
    make_patch rm rsrc rrev block_exit rreverse (make_pre D) ordering = POk pt ->
    forall c rest, ~ In (p ++ q :: c :: rest) (cmd_paths f pt).
  Proof.
    intros Hwo Hwn Ho Hn Hq Hd Hf D Hperm Hp c rest Hin.
    apply (cmd_paths_rpaths' f pt _ Hf) in Hin.
    pose proof (make_patch_hdr rm rsrc rrev block_exit rreverse D ordering pt Hp) as Hrel.
    destruct (rpaths_headers f pt D "" Hrel p q c rest Hin) as (n & Hn1 & Er & Hh).
    pose proof (only_old_removed rm rs old new p q ol nl Hwo Hwn Ho Hn Hq Hd n Hn1 Er) as Hop.
    destruct Hh as [G|[G|[G|(_ & n0 & G2 & _ & G4)]]]; try (rewrite Hop in G; discriminate).
    apply (Hperm n0 G2). exact G4.
  Qed.
End RemovedParent.

(* ------------------------------------------------------------------------------------ *)
(* 4. the model pipeline, completed trees, every hardware branch                            *)
Section PipelineRemoved.
  Variable im : string -> string -> bool.

  (* both sides completed; q is a row of the completed device side below p which the completed
     generator side has not (neither as text nor as a default): no command below p ++ [q], hence none
     for any default of that block *)
  Theorem pipeline_removed_parent (v : vendor) irs rs ordering t u p q ml nl d pt :
    wfr irs -> okf t -> okf u ->
    let mt := add_implicit im irs t in
    let mu := add_implicit im irs u in
    sub_at p mt = Some ml -> sub_at p mu = Some nl -> ~ In q (keys nl) ->
    path_ddefault pm rs p = true ->
    stack_family (v_family v) = true ->
    (forall n0, In n0 (level_at p (p_make_diff rs mt mu)) -> a_logic (mi_attrs (d_mi n0)) <> LPermanent) ->
    diff_and_patch v rs ordering mt mu = (d, POk pt) ->
    forall c rest, ~ In (p ++ q :: c :: rest) (cmd_paths (v_family v) pt).
  Proof.
    intros Hw Ht Hu mt mu Ho Hn Hq Hd Hf Hperm E.
    apply diff_and_patch_eq in E as [_ Ep].
    eapply (removed_parent_no_commands pm psrc (prev v) (v_exit v) (prreverse v) rs ordering (v_family v) mt mu p q ml nl pt);
      try eassumption.
    - apply okf_wf. unfold mt. rewrite (model_is_completion im irs t Ht Hw). apply complete_okf; assumption.
    - apply okf_wf. unfold mu. rewrite (model_is_completion im irs u Hu Hw). apply complete_okf; assumption.
  Qed.
End PipelineRemoved.

Theorem hw_removed_parent b (Hb : In b Src_branches) (v : vendor) rs ordering t u p q ml nl d pt :
  okf t -> okf u ->
  let mt := add_implicit imatch (branch_rules b) t in
  let mu := add_implicit imatch (branch_rules b) u in
  sub_at p mt = Some ml -> sub_at p mu = Some nl -> ~ In q (keys nl) ->
  path_ddefault pm rs p = true ->
  In (v_family v) hw_families ->
  (forall n0, In n0 (level_at p (p_make_diff rs mt mu)) -> a_logic (mi_attrs (d_mi n0)) <> LPermanent) ->
  diff_and_patch v rs ordering mt mu = (d, POk pt) ->
  forall c rest, ~ In (p ++ q :: c :: rest) (cmd_paths (v_family v) pt).
Proof.
  intros Ht Hu mt mu Ho Hn Hq Hd Hf Hperm E.
  eapply (pipeline_removed_parent imatch v (branch_rules b) rs ordering t u p q ml nl d pt); try eassumption.
  - apply src_branches_wfr. exact Hb.
  - apply hw_families_stack. exact Hf.
Qed.

(* non-vacuity: Huawei CE, the device has a `user-interface con 0` block (completed with
   `user privilege level 3`), the generator has none: the patch is the single removal command *)
Definition w_rm_t : forest := [("user-interface con 0", T [("idle-timeout 5", T [])])].

Lemma hw_removed_parent_nonvacuous :
  let R := branch_rules br_huawei_ce in
  let mt := add_implicit imatch R w_rm_t in
  let mu := add_implicit imatch R [] in
  exists ml nl d pt,
    okf w_rm_t /\ sub_at [] mt = Some ml /\ sub_at [] mu = Some nl /\
    In "user-interface con 0" (keys ml) /\ ~ In "user-interface con 0" (keys nl) /\
    sub_at ["user-interface con 0"] mt = Some [("idle-timeout 5", T []); ("user privilege level 3", T [])] /\
    path_ddefault pm w_rs [] = true /\ In (v_family w_huawei) hw_families /\
    forallb (fun n0 => negb (logic_eqb (a_logic (mi_attrs (d_mi n0))) LPermanent)) (level_at [] (p_make_diff w_rs mt mu)) = true /\
    diff_and_patch w_huawei w_rs [] mt mu = (d, POk pt) /\
    cmd_paths (v_family w_huawei) pt = [["undo user-interface con"]].   (* rule `user-interface *`: the key is one word *)
Proof.
  cbv zeta. eexists. eexists. eexists. eexists.
  repeat match goal with |- _ /\ _ => split end;
    try (vm_compute; reflexivity); try (vm_compute; tauto);
    try (repeat constructor; cbn; intuition discriminate);
    try (vm_compute; intro H; repeat (destruct H as [H|H]; [discriminate|]); destruct H).
Qed.

(* the %permanent guard is needed: a REMOVED block of a %permanent rule is kept as a header and its
   lines - the default of its completion included - are removed one by one *)
Definition w_perm_rs : rset :=
  ([PRule "user-interface *" false (Attrs "user-interface *" LPermanent DDefault true false)
          [dflt "user ~" false []; dflt "idle-timeout *" false []] []], []).

Theorem removed_parent_permanent_refuted :
  exists b (v : vendor) rs t u q r d pt,
    In b Src_branches /\ okf t /\ okf u /\ In (v_family v) hw_families /\
    In q (keys t) /\ ~ In q (keys (add_implicit imatch (branch_rules b) u)) /\
    rules_at imatch (branch_rules b) [q] = Some [r] /\ i_ign r = false /\
    sub_at [q; i_row r] t = None /\
    diff_and_patch v rs [] (add_implicit imatch (branch_rules b) t) (add_implicit imatch (branch_rules b) u) = (d, POk pt) /\
    In [q; reverse_row (i_row r) (v_reverse v)] (cmd_paths (v_family v) pt).
Proof.
  exists br_huawei_ce, w_huawei, w_perm_rs, w_rm_t, [], "user-interface con 0", (IRule "user privilege level 3" false []).
  eexists. eexists.
  repeat match goal with |- _ /\ _ => split end;
    try (vm_compute; reflexivity); try (vm_compute; tauto);
    try (repeat constructor; cbn; intuition discriminate);
    try (vm_compute; intro H; repeat (destruct H as [H|H]; [discriminate|]); destruct H).
Qed.
