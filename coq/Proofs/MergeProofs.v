(* Lemma library for the merge algebra of annet.mesh.basemodel (model: Model/Merge.v). *)
From Coq Require Import List String Ascii Bool Arith ZArith Lia Permutation.
From Annet Require Import Model.Merge Spec.P_C15.
Import ListNotations.
Open Scope string_scope.
Open Scope list_scope.

(* ---- unset is neutral ----------------------------------------------------------------- *)

Lemma merge_old_nil_y : forall rec mof fx, merge_old rec mof [] fx = Ok fx.
Proof.
  intros rec mof fx. induction fx as [|[f vx] r IH]; cbn.
  - reflexivity.
  - unfold merge_one. cbn. destruct (mof f); rewrite IH; reflexivity.
Qed.

Lemma merge_unset_right : forall sch a, merge sch a [] = Ok a.
Proof.
  intros sch a. unfold merge. cbn. rewrite merge_old_nil_y. cbn. rewrite app_nil_r. reflexivity.
Qed.

Definition fields_in (sch : schema) (a : entries) : bool :=
  forallb (fun p => mem (fst p) sch) a.

Lemma filter_all : forall (A : Type) (p : A -> bool) (l : list A),
  (forall x, In x l -> p x = true) -> filter p l = l.
Proof.
  intros A p l. induction l as [|x r IH]; cbn; intros H.
  - reflexivity.
  - rewrite (H x (or_introl eq_refl)). rewrite IH; [reflexivity|].
    intros y Hy. apply H. right. exact Hy.
Qed.

Lemma merge_new_nil_x : forall sch a,
  fields_in sch a = true -> merge_new (fun f => lookup f sch) [] a = a.
Proof.
  intros sch a H. unfold merge_new. apply filter_all. intros [f v] Hin.
  unfold fields_in in H. rewrite forallb_forall in H. specialize (H _ Hin).
  cbn in *. unfold mem in H. destruct (lookup f sch); [reflexivity|discriminate].
Qed.

Lemma merge_unset_left : forall sch a, fields_in sch a = true -> merge sch [] a = Ok a.
Proof.
  intros sch a H. unfold merge. cbn. rewrite merge_new_nil_x by exact H. reflexivity.
Qed.

Lemma wf_entries_fields_in : forall rec sch a,
  wf_entries rec (fun f => lookup f sch) a = true -> fields_in sch a = true.
Proof.
  intros rec sch a. unfold fields_in. induction a as [|[f v] r IH]; cbn; intros H.
  - reflexivity.
  - apply andb_true_iff in H. destruct H as [H1 H2]. unfold mem.
    destruct (lookup f sch); [|discriminate]. cbn. apply IH. exact H2.
Qed.

Lemma wf_obj_fields_in : forall sch a, wf_obj sch a = true -> fields_in sch a = true.
Proof.
  intros sch a H. unfold wf_obj in H. cbn in H.
  apply andb_true_iff in H. destruct H as [_ H].
  apply andb_true_iff in H. destruct H as [_ H].
  eapply wf_entries_fields_in. exact H.
Qed.
