(* Lemma library for the merge algebra of annet.mesh.basemodel (model: Model/Merge.v). *)
From Coq Require Import List String Ascii Bool Arith ZArith Lia Permutation.
From Annet Require Import Model.Merge Spec.P_C15.
Import ListNotations.
Open Scope string_scope.
Open Scope list_scope.

(* ---- unset is neutral ----------------------------------------------------------------- *)

Lemma merge_old_nil_y : forall rec mof fx, merge_old rec mof [] fx = Ok fx.
Proof.
  intros rec mof fx. induction fx as [|[f vx] r IH]; cbn.
  - reflexivity.
  - unfold merge_one. cbn. destruct (mof f); rewrite IH; reflexivity.
Qed.

Lemma merge_unset_right : forall sch a, merge sch a [] = Ok a.
Proof.
  intros sch a. unfold merge. cbn. rewrite merge_old_nil_y. cbn. rewrite app_nil_r. reflexivity.
Qed.

Definition fields_in (sch : schema) (a : entries) : bool :=
  forallb (fun p => mem (fst p) sch) a.

Lemma filter_all : forall (A : Type) (p : A -> bool) (l : list A),
  (forall x, In x l -> p x = true) -> filter p l = l.
Proof.
  intros A p l. induction l as [|x r IH]; cbn; intros H.
  - reflexivity.
  - rewrite (H x (or_introl eq_refl)). rewrite IH; [reflexivity|].
    intros y Hy. apply H. right. exact Hy.
Qed.

Lemma merge_new_nil_x : forall sch a,
  fields_in sch a = true -> merge_new (fun f => lookup f sch) [] a = a.
Proof.
  intros sch a H. unfold merge_new. apply filter_all. intros [f v] Hin.
  unfold fields_in in H. rewrite forallb_forall in H. specialize (H _ Hin).
  cbn in *. unfold mem in H. destruct (lookup f sch); [reflexivity|discriminate].
Qed.

Lemma merge_unset_left : forall sch a, fields_in sch a = true -> merge sch [] a = Ok a.
Proof.
  intros sch a H. unfold merge. cbn. rewrite merge_new_nil_x by exact H. reflexivity.
Qed.

Lemma wf_entries_fields_in : forall rec sch a,
  wf_entries rec (fun f => lookup f sch) a = true -> fields_in sch a = true.
Proof.
  intros rec sch a. unfold fields_in. induction a as [|[f v] r IH]; cbn; intros H.
  - reflexivity.
  - apply andb_true_iff in H. destruct H as [H1 H2]. unfold mem.
    destruct (lookup f sch); [|discriminate]. cbn. apply IH. exact H2.
Qed.

Lemma wf_obj_fields_in : forall sch a, wf_obj sch a = true -> fields_in sch a = true.
Proof.
  intros sch a H. unfold wf_obj in H. cbn in H.
  apply andb_true_iff in H. destruct H as [_ H].
  apply andb_true_iff in H. destruct H as [_ H].
  eapply wf_entries_fields_in. exact H.
Qed.

(* ---- induction principle for mergers (nested through the schema list) ------------------ *)

Section MergerInd.
  Variable P : merger -> Prop.
  Hypothesis H_fc : P MForbidChange.
  Hypothesis H_fb : P MForbid.
  Hypothesis H_uf : P MUseFirst.
  Hypothesis H_ul : P MUseLast.
  Hypothesis H_cc : P MConcat.
  Hypothesis H_un : P MUnite.
  Hypothesis H_mm : forall sch, Forall (fun p => P (snd p)) sch -> P (MMerge sch).
  Hypothesis H_dm : forall m, P m -> P (MDictMerge m).
  Fixpoint merger_ind' (m : merger) : P m :=
    match m with
    | MForbidChange => H_fc
    | MForbid => H_fb
    | MUseFirst => H_uf
    | MUseLast => H_ul
    | MConcat => H_cc
    | MUnite => H_un
    | MMerge sch =>
      H_mm sch ((fix go (l : list (string * merger)) : Forall (fun p => P (snd p)) l :=
                   match l with
                   | [] => Forall_nil _
                   | p :: r => Forall_cons p (merger_ind' (snd p)) (go r)
                   end) sch)
    | MDictMerge vm => H_dm vm (merger_ind' vm)
    end.
End MergerInd.

(* ---- association lists ---------------------------------------------------------------- *)

Lemma lookup_In : forall (A : Type) f (l : list (string * A)) v, lookup f l = Some v -> In (f, v) l.
Proof.
  intros A f l v. induction l as [|[g w] r IH]; cbn; intros H.
  - discriminate.
  - destruct (String.eqb f g) eqn:E.
    + apply String.eqb_eq in E. injection H as H. subst. left. reflexivity.
    + right. apply IH. exact H.
Qed.

Lemma Forall_lookup : forall (A : Type) (P : A -> Prop) f (l : list (string * A)) v,
  Forall (fun p => P (snd p)) l -> lookup f l = Some v -> P v.
Proof.
  intros A P f l v HF HL. apply lookup_In in HL. rewrite Forall_forall in HF.
  apply (HF _ HL).
Qed.

Lemma lookup_app : forall (A : Type) f (l1 l2 : list (string * A)),
  lookup f (l1 ++ l2) = match lookup f l1 with Some v => Some v | None => lookup f l2 end.
Proof.
  intros A f l1 l2. induction l1 as [|[g w] r IH]; cbn.
  - reflexivity.
  - destruct (String.eqb f g); [reflexivity|exact IH].
Qed.

Lemma lookup_filter_key : forall (A : Type) (p : string -> bool) f (l : list (string * A)),
  lookup f (filter (fun e => p (fst e)) l) = if p f then lookup f l else None.
Proof.
  intros A p f l. induction l as [|[g w] r IH]; cbn.
  - destruct (p f); reflexivity.
  - destruct (p g) eqn:Eg; cbn.
    + destruct (String.eqb f g) eqn:E.
      * apply String.eqb_eq in E. subst. rewrite Eg. reflexivity.
      * exact IH.
    + destruct (String.eqb f g) eqn:E.
      * apply String.eqb_eq in E. subst. rewrite Eg in *. exact IH.
      * exact IH.
Qed.

Lemma nodupb_NoDup : forall l, nodupb l = true -> NoDup l.
Proof.
  induction l as [|x r IH]; cbn; intros H.
  - constructor.
  - apply andb_true_iff in H. destruct H as [H1 H2]. constructor.
    + intros Hin. apply negb_true_iff in H1.
      assert (existsb (String.eqb x) r = true) as C.
      { apply existsb_exists. exists x. split; [exact Hin|apply String.eqb_refl]. }
      rewrite C in H1. discriminate.
    + apply IH. exact H2.
Qed.

Lemma lookup_None_notin : forall (A : Type) f (l : list (string * A)),
  lookup f l = None -> ~ In f (keys l).
Proof.
  intros A f l. induction l as [|[g w] r IH]; cbn; intros H.
  - intros [].
  - destruct (String.eqb f g) eqn:E; [discriminate|].
    intros [C|C].
    + subst. rewrite String.eqb_refl in E. discriminate.
    + apply (IH H C).
Qed.

Lemma notin_lookup_None : forall (A : Type) f (l : list (string * A)),
  ~ In f (keys l) -> lookup f l = None.
Proof.
  intros A f l. induction l as [|[g w] r IH]; cbn; intros H.
  - reflexivity.
  - destruct (String.eqb f g) eqn:E.
    + apply String.eqb_eq in E. subst. exfalso. apply H. left. reflexivity.
    + apply IH. intros C. apply H. right. exact C.
Qed.

Lemma NoDup_In_lookup : forall (A : Type) f v (l : list (string * A)),
  NoDup (keys l) -> In (f, v) l -> lookup f l = Some v.
Proof.
  intros A f v l. induction l as [|[g w] r IH]; cbn; intros HN HI.
  - destruct HI.
  - inversion HN as [|? ? Hnot HN']. subst. destruct HI as [HI|HI].
    + injection HI as H1 H2. subst. rewrite String.eqb_refl. reflexivity.
    + destruct (String.eqb f g) eqn:E.
      * apply String.eqb_eq in E. subst. exfalso. apply Hnot.
        change g with (fst (g, v)). apply in_map. exact HI.
      * apply IH; assumption.
Qed.

(* ---- atoms, Python == ------------------------------------------------------------------ *)

Lemma atom_eqb_eq : forall a b, atom_eqb a b = true <-> a = b.
Proof.
  intros a b. destruct a, b; cbn; split; intros H; try discriminate; try reflexivity.
  - apply Z.eqb_eq in H. subst. reflexivity.
  - injection H as H. subst. apply Z.eqb_refl.
  - apply Bool.eqb_prop in H. subst. reflexivity.
  - injection H as H. subst. apply Bool.eqb_reflx.
  - apply String.eqb_eq in H. subst. reflexivity.
  - injection H as H. subst. apply String.eqb_refl.
  - apply String.eqb_eq in H. subst. reflexivity.
  - injection H as H. subst. apply String.eqb_refl.
Qed.

Lemma atom_eqb_refl : forall a, atom_eqb a a = true.
Proof. intros a. apply atom_eqb_eq. reflexivity. Qed.

Lemma atoms_eqb_eq : forall a b, atoms_eqb a b = true <-> a = b.
Proof.
  induction a as [|x a IH]; destruct b as [|y b]; cbn; split; intros H; try discriminate; try reflexivity.
  - apply andb_true_iff in H. destruct H as [H1 H2]. apply atom_eqb_eq in H1. apply IH in H2.
    subst. reflexivity.
  - injection H as H1 H2. subst. rewrite atom_eqb_refl. cbn. apply IH. reflexivity.
Qed.

Lemma amem_In : forall x l, amem x l = true <-> In x l.
Proof.
  intros x l. unfold amem. rewrite existsb_exists. split.
  - intros [y [Hy E]]. apply atom_eqb_eq in E. subst. exact Hy.
  - intros H. exists x. split; [exact H|apply atom_eqb_refl].
Qed.

Lemma subset_spec : forall a b, subset a b = true <-> (forall x, In x a -> In x b).
Proof.
  intros a b. unfold subset. rewrite forallb_forall. split.
  - intros H x Hx. apply amem_In. apply H. exact Hx.
  - intros H x Hx. apply amem_In. apply H. exact Hx.
Qed.

Lemma union_In : forall x a b, In x (union a b) <-> In x a \/ In x b.
Proof.
  intros x a b. unfold union. rewrite in_app_iff, filter_In. split.
  - intros [H|[H _]]; [left|right]; exact H.
  - intros [H|H]; [left; exact H|].
    destruct (amem x a) eqn:E.
    + left. apply amem_In. exact E.
    + right. split; [exact H|reflexivity].
Qed.

(* value_eqb is a partial equivalence; reflexive on the values single-valued fields hold *)
Definition plain (v : value) : bool :=
  match v with VAtom _ | VList _ | VSet _ => true | _ => false end.

Lemma value_eqb_plain : forall x y, value_eqb x y = true -> plain x = true /\ plain y = true.
Proof. intros x y. destruct x, y; cbn; intros H; try discriminate; split; reflexivity. Qed.

Lemma value_eqb_refl : forall x, plain x = true -> value_eqb x x = true.
Proof.
  intros x. destruct x; cbn; intros H; try discriminate.
  - apply atom_eqb_refl.
  - apply atoms_eqb_eq. reflexivity.
  - assert (subset l l = true) as S by (apply subset_spec; auto). rewrite S. reflexivity.
Qed.

Lemma value_eqb_sym : forall x y, value_eqb x y = true -> value_eqb y x = true.
Proof.
  intros x y. destruct x, y; cbn; intros H; try discriminate.
  - apply atom_eqb_eq in H. subst. apply atom_eqb_refl.
  - apply atoms_eqb_eq in H. subst. apply atoms_eqb_eq. reflexivity.
  - apply andb_true_iff in H. destruct H as [H1 H2]. rewrite H1, H2. reflexivity.
Qed.

Lemma value_eqb_trans : forall x y z, value_eqb x y = true -> value_eqb y z = true -> value_eqb x z = true.
Proof.
  intros x y z. destruct x, y; cbn; intros H; try discriminate; destruct z; cbn; intros H'; try discriminate.
  - apply atom_eqb_eq in H. apply atom_eqb_eq in H'. subst. apply atom_eqb_refl.
  - apply atoms_eqb_eq in H. apply atoms_eqb_eq in H'. subst. apply atoms_eqb_eq. reflexivity.
  - apply andb_true_iff in H. destruct H as [H1 H2]. apply andb_true_iff in H'. destruct H' as [H3 H4].
    rewrite subset_spec in *. apply andb_true_iff. split; apply subset_spec; auto.
Qed.

(* on plain values veqb is value_eqb for every merger but Concat-as-multiset *)
Lemma veqb_of_value_eqb : forall cm m x y,
  m <> MConcat -> value_eqb x y = true -> veqb cm m x y = true.
Proof.
  intros cm m x y Hm H. destruct x, y; cbn in *; try discriminate; try exact H.
  destruct m; try exact H. exfalso. apply Hm. reflexivity.
Qed.

(* ---- objects and dicts as finite maps: merge is pointwise ---------------------------------- *)

Definition mbind {A B : Type} (r : res A) (f : A -> res B) : res B :=
  match r with Ok x => f x | Err e => Err e end.

Definition merge_entries (rec : merger -> value -> value -> res value) (mof : string -> option merger)
           (fx fy : entries) : res entries :=
  match merge_old rec mof fy fx with
  | Err e => Err e
  | Ok l => Ok (l ++ merge_new mof fx fy)
  end.

(* Merger.__call__ on one attribute: NOT_SET = None *)
Definition omerge (rec : merger -> value -> value -> res value) (om : option merger)
           (ox oy : option value) : res (option value) :=
  match ox, oy with
  | None, None => Ok None
  | Some x, None => Ok (Some x)
  | None, Some y => match om with Some _ => Ok (Some y) | None => Ok None end
  | Some x, Some y =>
    match om with
    | Some m => match rec m x y with Ok v => Ok (Some v) | Err e => Err e end
    | None => Ok (Some x)
    end
  end.

Section EntriesLemmas.
  Variable rec : merger -> value -> value -> res value.
  Variable mof : string -> option merger.

  Lemma merge_old_spec : forall fy fx l,
    merge_old rec mof fy fx = Ok l ->
    keys l = keys fx /\
    forall f, match lookup f fx with
              | None => lookup f l = None
              | Some vx => exists v, merge_one rec mof fy f vx = Ok v /\ lookup f l = Some v
              end.
  Proof.
    intros fy fx. induction fx as [|[g vx] r IH]; cbn; intros l H.
    - injection H as H. subst. split; [reflexivity|]. intros f. reflexivity.
    - destruct (merge_one rec mof fy g vx) as [v|e] eqn:E1; [|discriminate].
      destruct (merge_old rec mof fy r) as [r'|e] eqn:E2; [|discriminate].
      injection H as H. subst. destruct (IH r' eq_refl) as [IHk IHl]. split.
      + unfold keys in *. cbn. rewrite IHk. reflexivity.
      + intros f. cbn. destruct (String.eqb f g) eqn:E.
        * apply String.eqb_eq in E. subst. exists v. split; [exact E1|reflexivity].
        * apply IHl.
  Qed.

  Lemma merge_old_err : forall fy fx e,
    merge_old rec mof fy fx = Err e ->
    exists f vx, In (f, vx) fx /\ merge_one rec mof fy f vx = Err e.
  Proof.
    intros fy fx. induction fx as [|[g vx] r IH]; cbn; intros e H.
    - discriminate.
    - destruct (merge_one rec mof fy g vx) as [v|e1] eqn:E1.
      + destruct (merge_old rec mof fy r) as [r'|e2] eqn:E2; [discriminate|].
        injection H as H. subst. destruct (IH e eq_refl) as [f [v' [Hin Hm]]].
        exists f, v'. split; [right; exact Hin|exact Hm].
      + injection H as H. subst. exists g, vx. split; [left; reflexivity|exact E1].
  Qed.

  Lemma lookup_merge_new : forall fx fy f,
    lookup f (merge_new mof fx fy) =
    match mof f with
    | Some _ => if mem f fx then None else lookup f fy
    | None => None
    end.
  Proof.
    intros fx fy f. unfold merge_new.
    rewrite (lookup_filter_key _ (fun g => match mof g with Some _ => negb (mem g fx) | None => false end)).
    destruct (mof f); [|reflexivity]. destruct (mem f fx); reflexivity.
  Qed.

  Lemma merge_entries_lookup : forall fx fy r,
    merge_entries rec mof fx fy = Ok r ->
    forall f, omerge rec (mof f) (lookup f fx) (lookup f fy) = Ok (lookup f r).
  Proof.
    intros fx fy r H f. unfold merge_entries in H.
    destruct (merge_old rec mof fy fx) as [l|e] eqn:E; [|discriminate].
    injection H as H. subst. destruct (merge_old_spec _ _ _ E) as [_ Hl]. specialize (Hl f).
    rewrite lookup_app, lookup_merge_new. unfold mem.
    destruct (lookup f fx) as [vx|] eqn:Ex.
    - destruct Hl as [v [Hm Hv]]. rewrite Hv. unfold merge_one in Hm. cbn.
      destruct (mof f) as [m|].
      + destruct (lookup f fy) as [vy|].
        * rewrite Hm. reflexivity.
        * injection Hm as Hm. subst. reflexivity.
      + injection Hm as Hm. subst. destruct (lookup f fy); reflexivity.
    - rewrite Hl. cbn. destruct (lookup f fy) as [vy|]; destruct (mof f); reflexivity.
  Qed.

  Lemma merge_entries_err : forall fx fy e,
    NoDup (keys fx) ->
    merge_entries rec mof fx fy = Err e ->
    exists f, omerge rec (mof f) (lookup f fx) (lookup f fy) = Err e.
  Proof.
    intros fx fy e HN H. unfold merge_entries in H.
    destruct (merge_old rec mof fy fx) as [l|e1] eqn:E; [discriminate|].
    injection H as H. subst. destruct (merge_old_err _ _ _ E) as [f [vx [Hin Hm]]].
    exists f. rewrite (NoDup_In_lookup _ _ _ _ HN Hin). unfold merge_one in Hm. cbn.
    destruct (mof f) as [m|]; [|discriminate].
    destruct (lookup f fy) as [vy|]; [|discriminate]. rewrite Hm. reflexivity.
  Qed.

  Lemma keys_filter_sub : forall (p : string * value -> bool) (l : entries) f,
    In f (keys (filter p l)) -> In f (keys l).
  Proof.
    intros p l f. unfold keys. rewrite !in_map_iff. intros [x [Hx Hin]].
    apply filter_In in Hin. exists x. split; [exact Hx|apply Hin].
  Qed.

  Lemma NoDup_keys_filter : forall (p : string * value -> bool) (l : entries),
    NoDup (keys l) -> NoDup (keys (filter p l)).
  Proof.
    intros p l. induction l as [|[g v] r IH]; cbn; intros H.
    - constructor.
    - inversion H as [|? ? Hn Hr]. subst. destruct (p (g, v)); cbn.
      + constructor; [|apply IH; exact Hr]. intros C. apply Hn. eapply keys_filter_sub. exact C.
      + apply IH. exact Hr.
  Qed.

  Lemma NoDup_app_intro : forall (A : Type) (l1 l2 : list A),
    NoDup l1 -> NoDup l2 -> (forall x, In x l1 -> ~ In x l2) -> NoDup (l1 ++ l2).
  Proof.
    intros A l1 l2 H1 H2 HD. induction l1 as [|x r IH]; cbn.
    - exact H2.
    - inversion H1 as [|? ? Hn Hr]. subst. constructor.
      + rewrite in_app_iff. intros [C|C]; [apply Hn; exact C|]. apply (HD x); [left; reflexivity|exact C].
      + apply IH; [exact Hr|]. intros y Hy. apply HD. right. exact Hy.
  Qed.

  Lemma In_keys_mem : forall (A : Type) f (l : list (string * A)), In f (keys l) -> mem f l = true.
  Proof.
    intros A f l H. unfold mem. destruct (lookup f l) eqn:E; [reflexivity|].
    exfalso. apply (lookup_None_notin _ _ _ E H).
  Qed.

  Lemma merge_entries_nodup : forall fx fy r,
    NoDup (keys fx) -> NoDup (keys fy) ->
    merge_entries rec mof fx fy = Ok r -> NoDup (keys r).
  Proof.
    intros fx fy r Hx Hy H. unfold merge_entries in H.
    destruct (merge_old rec mof fy fx) as [l|e] eqn:E; [|discriminate].
    injection H as H. subst. destruct (merge_old_spec _ _ _ E) as [Hk _].
    unfold keys in *. rewrite map_app. apply NoDup_app_intro.
    - rewrite Hk. exact Hx.
    - apply NoDup_keys_filter. exact Hy.
    - intros f Hf Hf'. rewrite Hk in Hf. unfold merge_new in Hf'.
      apply in_map_iff in Hf'. destruct Hf' as [[g v] [Hg Hin]]. cbn in Hg. subst g.
      apply filter_In in Hin. destruct Hin as [_ Hp]. cbn in Hp.
      destruct (mof f); [|discriminate].
      rewrite (In_keys_mem _ _ _ Hf) in Hp. discriminate.
  Qed.

  (* ---- n-ary folds ---- *)

  Definition efold (first : entries) (others : list entries) : res entries :=
    fold_left (fun a o => mbind a (fun u => merge_entries rec mof u o)) others (Ok first).

  Lemma efold_err_acc : forall others e,
    fold_left (fun a o => mbind a (fun u => merge_entries rec mof u o)) others (Err e) = Err e.
  Proof. induction others as [|o r IH]; cbn; intros e; [reflexivity|apply IH]. Qed.

  Lemma efold_cons : forall first b rest,
    efold first (b :: rest) =
    match merge_entries rec mof first b with Ok ab => efold ab rest | Err e => Err e end.
  Proof.
    intros first b rest. unfold efold. cbn.
    destruct (merge_entries rec mof first b); [reflexivity|apply efold_err_acc].
  Qed.
End EntriesLemmas.

Definition vfold (op : value -> value -> res value) (acc : res value) (l : list value) : res value :=
  fold_left (fun a v => mbind a (fun u => op u v)) l acc.

Definition nfold (op : value -> value -> res value) (l : list value) : res (option value) :=
  match l with
  | [] => Ok None
  | v :: r => match vfold op (Ok v) r with Ok u => Ok (Some u) | Err e => Err e end
  end.

Lemma vfold_err_acc : forall op l e, vfold op (Err e) l = Err e.
Proof. intros op. induction l as [|v r IH]; cbn; intros e; [reflexivity|apply IH]. Qed.

Definition field_vals (f : string) (e : entries) : list value :=
  match lookup f e with Some v => [v] | None => [] end.
Definition field_list (f : string) (es : list entries) : list value := flat_map (field_vals f) es.

Section NaryLemmas.
  Variable rec : merger -> value -> value -> res value.
  Variable mof : string -> option merger.

  Lemma nfold_step : forall first b ab rest f m,
    mof f = Some m ->
    merge_entries rec mof first b = Ok ab ->
    nfold (rec m) (field_list f (first :: b :: rest)) = nfold (rec m) (field_list f (ab :: rest)).
  Proof.
    intros first b ab rest f m Hm H.
    pose proof (merge_entries_lookup rec mof _ _ _ H f) as L. rewrite Hm in L.
    unfold field_list. cbn [flat_map]. unfold field_vals at 1 2 4.
    destruct (lookup f first) as [vx|]; destruct (lookup f b) as [vy|]; cbn in L.
    - destruct (rec m vx vy) as [v|e] eqn:E; [|discriminate]. injection L as L. rewrite <- L.
      cbn. unfold vfold. cbn. rewrite E. reflexivity.
    - injection L as L. rewrite <- L. reflexivity.
    - injection L as L. rewrite <- L. reflexivity.
    - injection L as L. rewrite <- L. reflexivity.
  Qed.

  Lemma efold_lookup : forall others first r,
    efold rec mof first others = Ok r ->
    forall f m, mof f = Some m ->
      nfold (rec m) (field_list f (first :: others)) = Ok (lookup f r).
  Proof.
    induction others as [|b rest IH]; intros first r H f m Hm.
    - unfold efold in H. cbn in H. injection H as H. subst.
      unfold field_list. cbn. rewrite app_nil_r. unfold field_vals.
      destruct (lookup f r); reflexivity.
    - rewrite efold_cons in H.
      destruct (merge_entries rec mof first b) as [ab|e] eqn:E; [|discriminate].
      rewrite (nfold_step _ _ _ _ _ _ Hm E). apply IH; assumption.
  Qed.

  Lemma efold_err : forall others first e,
    NoDup (keys first) -> Forall (fun o => NoDup (keys o)) others ->
    efold rec mof first others = Err e ->
    exists f m e', mof f = Some m /\ nfold (rec m) (field_list f (first :: others)) = Err e'.
  Proof.
    induction others as [|b rest IH]; intros first e HN HF H.
    - unfold efold in H. cbn in H. discriminate.
    - rewrite efold_cons in H. inversion HF as [|? ? Hb Hrest]. subst.
      destruct (merge_entries rec mof first b) as [ab|e1] eqn:E.
      + assert (NoDup (keys ab)) as Hab by (apply (merge_entries_nodup rec mof first b ab HN Hb E)).
        destruct (IH ab e Hab Hrest H) as [f [m [e' [Hm Hn]]]].
        exists f, m, e'. split; [exact Hm|]. rewrite (nfold_step _ _ _ _ _ _ Hm E). exact Hn.
      + destruct (merge_entries_err rec mof _ _ _ HN E) as [f Hf].
        destruct (mof f) as [m|] eqn:Hm.
        * destruct (lookup f first) as [vx|] eqn:Ex; destruct (lookup f b) as [vy|] eqn:Ey;
            cbn in Hf; try discriminate.
          destruct (rec m vx vy) as [v|e2] eqn:E2; [discriminate|].
          exists f, m, e2. split; [exact Hm|].
          unfold field_list. cbn [flat_map]. unfold field_vals at 1 2. rewrite Ex, Ey.
          cbn. unfold vfold. cbn. rewrite E2. fold (vfold (rec m) (Err e2) (flat_map (field_vals f) rest)).
          rewrite vfold_err_acc. reflexivity.
        * destruct (lookup f first); destruct (lookup f b); cbn in Hf; discriminate.
  Qed.

  Lemma efold_nodup : forall others first r,
    NoDup (keys first) -> Forall (fun o => NoDup (keys o)) others ->
    efold rec mof first others = Ok r -> NoDup (keys r).
  Proof.
    induction others as [|b rest IH]; intros first r HN HF H.
    - unfold efold in H. cbn in H. injection H as H. subst. exact HN.
    - rewrite efold_cons in H. inversion HF as [|? ? Hb Hrest]. subst.
      destruct (merge_entries rec mof first b) as [ab|e1] eqn:E; [|discriminate].
      apply (IH ab r); [apply (merge_entries_nodup rec mof first b ab HN Hb E)|exact Hrest|exact H].
  Qed.

  (* keys of the result come from the operands *)
  Lemma merge_entries_key_src : forall fx fy r f,
    merge_entries rec mof fx fy = Ok r -> lookup f fx = None -> lookup f fy = None -> lookup f r = None.
  Proof.
    intros fx fy r f H Hx Hy. pose proof (merge_entries_lookup rec mof _ _ _ H f) as L.
    rewrite Hx, Hy in L. cbn in L. injection L as L. symmetry. exact L.
  Qed.

  Lemma efold_key_src : forall others first r f,
    efold rec mof first others = Ok r ->
    lookup f first = None -> Forall (fun o => lookup f o = None) others -> lookup f r = None.
  Proof.
    induction others as [|b rest IH]; intros first r f H Hx HF.
    - unfold efold in H. cbn in H. injection H as H. subst. exact Hx.
    - rewrite efold_cons in H. inversion HF as [|? ? Hb Hrest]. subst.
      destruct (merge_entries rec mof first b) as [ab|e1] eqn:E; [|discriminate].
      apply (IH ab r f H); [eapply merge_entries_key_src; eassumption|exact Hrest].
  Qed.
End NaryLemmas.

(* ---- order independence of n-ary merges ------------------------------------------------------ *)

Definition oveqb (cm : bool) (m : merger) (a b : option value) : bool :=
  match a, b with
  | Some x, Some y => veqb cm m x y
  | None, None => true
  | _, _ => false
  end.

(* same outcome: both errors, or both defined and equal (modulo Concat order when cm) *)
Definition req (cm : bool) (m : merger) (a b : res (option value)) : Prop :=
  match a, b with
  | Ok x, Ok y => oveqb cm m x y = true
  | Err _, Err _ => True
  | _, _ => False
  end.

(* -- ForbidChange -- *)

Lemma fc_fold : forall rest v,
  vfold (merge_val MForbidChange) (Ok v) rest =
  if forallb (value_eqb v) rest then Ok v else Err EForbidden.
Proof.
  induction rest as [|w r IH]; intros v; cbn.
  - reflexivity.
  - unfold vfold in *. cbn.
    assert (merge_val MForbidChange v w = if value_eqb v w then Ok v else Err EForbidden) as E
      by (destruct v; reflexivity).
    rewrite E. destruct (value_eqb v w); cbn.
    + apply IH.
    + apply (vfold_err_acc (merge_val MForbidChange)).
Qed.

Lemma alleq_perm : forall v rest v' rest',
  plain v = true ->
  Permutation (v :: rest) (v' :: rest') ->
  forallb (value_eqb v) rest = true ->
  forallb (value_eqb v') rest' = true /\ value_eqb v v' = true.
Proof.
  intros v rest v' rest' Hp HP H.
  assert (Forall (fun w => value_eqb v w = true) (v :: rest)) as F.
  { constructor; [apply value_eqb_refl; exact Hp|]. apply Forall_forall. rewrite forallb_forall in H. exact H. }
  pose proof (Permutation_Forall HP F) as F'. inversion F' as [|? ? Hv Hr]. subst. split; [|exact Hv].
  apply forallb_forall. intros w Hw. rewrite Forall_forall in Hr.
  apply value_eqb_trans with v; [apply value_eqb_sym; exact Hv|apply Hr; exact Hw].
Qed.

Lemma wf_plain : forall m v,
  match m with MForbidChange | MForbid | MUseFirst | MUseLast => True | _ => False end ->
  wf_val m v = true -> plain v = true.
Proof. intros m v Hm H. destruct m; try contradiction; destruct v; cbn in *; try discriminate; reflexivity. Qed.

Lemma perm_cons_inv_shape : forall (A : Type) (v : A) rest l', Permutation (v :: rest) l' ->
  exists v' rest', l' = v' :: rest'.
Proof.
  intros A v rest l' HP. destruct l' as [|v' rest'].
  - apply Permutation_sym in HP. apply Permutation_nil in HP. discriminate.
  - exists v', rest'. reflexivity.
Qed.

Lemma nfold_perm_fc : forall l l',
  Forall (fun v => wf_val MForbidChange v = true) l -> Permutation l l' ->
  req true MForbidChange (nfold (merge_val MForbidChange) l) (nfold (merge_val MForbidChange) l').
Proof.
  intros l l' HW HP. destruct l as [|v rest].
  - apply Permutation_nil in HP. subst. cbn. reflexivity.
  - destruct (perm_cons_inv_shape _ _ _ _ HP) as [v' [rest' El]]. subst l'.
    assert (Forall (fun v => wf_val MForbidChange v = true) (v' :: rest')) as HW' by (apply (Permutation_Forall HP HW)).
    assert (plain v = true) as Hp by (inversion HW; subst; eapply wf_plain; [|eassumption]; exact I).
    assert (plain v' = true) as Hp' by (inversion HW'; subst; eapply wf_plain; [|eassumption]; exact I).
    cbn [nfold]. rewrite !fc_fold.
    destruct (forallb (value_eqb v) rest) eqn:E.
    + destruct (alleq_perm _ _ _ _ Hp HP E) as [E' Hv]. rewrite E'. cbn.
      apply veqb_of_value_eqb; [discriminate|exact Hv].
    + destruct (forallb (value_eqb v') rest') eqn:E'; [|exact I].
      destruct (alleq_perm _ _ _ _ Hp' (Permutation_sym HP) E') as [C _]. rewrite C in E. discriminate.
Qed.

(* -- Forbid -- *)

Lemma fb_fold : forall rest v,
  vfold (merge_val MForbid) (Ok v) rest = match rest with [] => Ok v | _ => Err EForbidden end.
Proof.
  intros rest v. destruct rest as [|w r]; [reflexivity|].
  unfold vfold. cbn. assert (merge_val MForbid v w = Err EForbidden) as E by (destruct v; reflexivity).
  rewrite E. apply (vfold_err_acc (merge_val MForbid)).
Qed.

Lemma nfold_perm_fb : forall l l',
  Forall (fun v => wf_val MForbid v = true) l -> Permutation l l' ->
  req true MForbid (nfold (merge_val MForbid) l) (nfold (merge_val MForbid) l').
Proof.
  intros l l' HW HP. destruct l as [|v rest].
  - apply Permutation_nil in HP. subst. cbn. reflexivity.
  - destruct rest as [|w r].
    + apply Permutation_length_1_inv in HP. subst. cbn.
      apply veqb_of_value_eqb; [discriminate|]. apply value_eqb_refl.
      inversion HW; subst. eapply wf_plain; [|eassumption]. exact I.
    + destruct (perm_cons_inv_shape _ _ _ _ HP) as [v' [rest' El]]. subst l'.
      cbn [nfold]. rewrite !fb_fold. destruct rest' as [|w' r'].
      * apply Permutation_length in HP. cbn in HP. discriminate.
      * exact I.
Qed.

(* -- Concat -- *)

Definition unlist (v : value) : list atom := match v with VList a => a | _ => [] end.

Lemma cc_fold : forall rest a,
  Forall (fun v => wf_val MConcat v = true) rest ->
  vfold (merge_val MConcat) (Ok (VList a)) rest = Ok (VList (a ++ flat_map unlist rest)).
Proof.
  induction rest as [|w r IH]; intros a HW.
  - cbn. rewrite app_nil_r. reflexivity.
  - inversion HW as [|? ? Hw Hr]. subst. destruct w; cbn in Hw; try discriminate.
    unfold vfold in *. cbn. rewrite IH by exact Hr. rewrite app_assoc. reflexivity.
Qed.

Lemma acount_perm : forall x a b, Permutation a b -> acount x a = acount x b.
Proof.
  intros x a b HP. unfold acount. induction HP; cbn.
  - reflexivity.
  - destruct (atom_eqb x x0); cbn; rewrite IHHP; reflexivity.
  - destruct (atom_eqb x y); destruct (atom_eqb x x0); reflexivity.
  - rewrite IHHP1. exact IHHP2.
Qed.

Lemma perm_eqb_of_Permutation : forall a b, Permutation a b -> perm_eqb a b = true.
Proof.
  intros a b HP. unfold perm_eqb. apply andb_true_iff. split.
  - apply Nat.eqb_eq. apply Permutation_length. exact HP.
  - apply forallb_forall. intros x _. apply Nat.eqb_eq. apply acount_perm. exact HP.
Qed.

Lemma nfold_cc : forall l,
  Forall (fun v => wf_val MConcat v = true) l -> l <> [] ->
  nfold (merge_val MConcat) l = Ok (Some (VList (flat_map unlist l))).
Proof.
  intros l HW Hne. destruct l as [|v rest]; [contradiction|].
  inversion HW as [|? ? Hv Hr]. subst. destruct v; cbn in Hv; try discriminate.
  cbn [nfold]. rewrite cc_fold by exact Hr. reflexivity.
Qed.

Lemma nfold_perm_cc : forall l l',
  Forall (fun v => wf_val MConcat v = true) l -> Permutation l l' ->
  req true MConcat (nfold (merge_val MConcat) l) (nfold (merge_val MConcat) l').
Proof.
  intros l l' HW HP. destruct l as [|v rest].
  - apply Permutation_nil in HP. subst. cbn. reflexivity.
  - destruct (perm_cons_inv_shape _ _ _ _ HP) as [v' [rest' El]]. subst l'.
    rewrite (nfold_cc (v :: rest)) by (try exact HW; discriminate).
    rewrite (nfold_cc (v' :: rest')) by (try apply (Permutation_Forall HP HW); discriminate).
    change (perm_eqb (flat_map unlist (v :: rest)) (flat_map unlist (v' :: rest')) = true).
    apply perm_eqb_of_Permutation. apply (Permutation_flat_map unlist HP).
Qed.

(* -- Unite -- *)

Definition unset (v : value) : list atom := match v with VSet a => a | _ => [] end.

Lemma un_fold : forall rest a,
  Forall (fun v => wf_val MUnite v = true) rest ->
  exists s, vfold (merge_val MUnite) (Ok (VSet a)) rest = Ok (VSet s) /\
            forall x, In x s <-> In x a \/ In x (flat_map unset rest).
Proof.
  induction rest as [|w r IH]; intros a HW.
  - exists a. split; [reflexivity|]. intros x. cbn. tauto.
  - inversion HW as [|? ? Hw Hr]. subst. destruct w; cbn in Hw; try discriminate.
    destruct (IH (union a l) Hr) as [s [Hs Hx]]. exists s. split.
    + unfold vfold in *. cbn. exact Hs.
    + intros x. rewrite Hx. rewrite union_In. cbn. rewrite in_app_iff. tauto.
Qed.

Lemma nfold_perm_un : forall l l',
  Forall (fun v => wf_val MUnite v = true) l -> Permutation l l' ->
  req true MUnite (nfold (merge_val MUnite) l) (nfold (merge_val MUnite) l').
Proof.
  intros l l' HW HP. destruct l as [|v rest].
  - apply Permutation_nil in HP. subst. cbn. reflexivity.
  - destruct (perm_cons_inv_shape _ _ _ _ HP) as [v' [rest' El]]. subst l'.
    pose proof (Permutation_Forall HP HW) as HW'.
    inversion HW as [|? ? Hv Hr]. subst. inversion HW' as [|? ? Hv' Hr']. subst.
    destruct v; cbn in Hv; try discriminate. destruct v'; cbn in Hv'; try discriminate.
    cbn [nfold].
    destruct (un_fold rest l Hr) as [s [Hs Hx]]. destruct (un_fold rest' l0 Hr') as [s' [Hs' Hx']].
    rewrite Hs, Hs'. cbn.
    assert (forall x, In x s <-> In x s') as EQ.
    { intros x. rewrite Hx, Hx'.
      change (In x l \/ In x (flat_map unset rest)) with (In x (unset (VSet l)) \/ In x (flat_map unset rest)).
      change (In x l0 \/ In x (flat_map unset rest')) with (In x (unset (VSet l0)) \/ In x (flat_map unset rest')).
      rewrite <- !in_app_iff.
      change (unset (VSet l) ++ flat_map unset rest) with (flat_map unset (VSet l :: rest)).
      change (unset (VSet l0) ++ flat_map unset rest') with (flat_map unset (VSet l0 :: rest')).
      pose proof (Permutation_flat_map unset HP) as HP2.
      split; intros Hin; [apply (Permutation_in _ HP2 Hin)|apply (Permutation_in _ (Permutation_sym HP2) Hin)]. }
    apply andb_true_iff. split; apply subset_spec; intros x Hx0; apply EQ; exact Hx0.
Qed.

(* -- objects / dicts -- *)

Lemma entries_veqb_intro : forall (rec : merger -> value -> value -> bool) (mofd : string -> merger) r r',
  NoDup (keys r) ->
  (forall f, match lookup f r, lookup f r' with
             | Some v, Some v' => rec (mofd f) v v' = true
             | None, None => True
             | _, _ => False
             end) ->
  sub_entries rec mofd r' r = true /\ forallb (fun p => mem (fst p) r) r' = true.
Proof.
  intros rec mofd r r' HN HPt. split.
  - assert (forall l, (forall f v, In (f, v) l -> In (f, v) r) -> sub_entries rec mofd r' l = true) as G.
    { induction l as [|[f v] rest IH]; intros Hsub; cbn.
      - reflexivity.
      - assert (lookup f r = Some v) as L by (apply NoDup_In_lookup; [exact HN|apply Hsub; left; reflexivity]).
        specialize (HPt f) as Hf. rewrite L in Hf. destruct (lookup f r') as [v'|]; [|contradiction].
        rewrite Hf. cbn. apply IH. intros g w Hin. apply Hsub. right. exact Hin. }
    apply G. auto.
  - apply forallb_forall. intros [f v'] Hin. cbn. unfold mem.
    specialize (HPt f). destruct (lookup f r); [reflexivity|].
    destruct (lookup f r') eqn:E; [contradiction|].
    exfalso. apply (lookup_None_notin _ _ _ E). change f with (fst (f, v')). apply in_map. exact Hin.
Qed.

Lemma wf_entries_lookup : forall (rec : merger -> value -> bool) mof e f v,
  wf_entries rec mof e = true -> lookup f e = Some v ->
  exists m, mof f = Some m /\ rec m v = true.
Proof.
  intros rec mof e f v. induction e as [|[g w] r IH]; cbn; intros HW HL.
  - discriminate.
  - apply andb_true_iff in HW. destruct HW as [H1 H2]. destruct (String.eqb f g) eqn:E.
    + apply String.eqb_eq in E. injection HL as HL. subst.
      destruct (mof g) as [m|]; [|discriminate]. exists m. split; [reflexivity|exact H1].
    + apply IH; assumption.
Qed.

Definition wfe (mof : string -> option merger) (e : entries) : Prop :=
  NoDup (keys e) /\ wf_entries wf_val mof e = true.

Lemma field_list_wf : forall mof es f m,
  Forall (wfe mof) es -> mof f = Some m ->
  Forall (fun v => wf_val m v = true) (field_list f es).
Proof.
  intros mof es f m HW Hm. unfold field_list. apply Forall_flat_map.
  rewrite Forall_forall in *. intros e He. destruct (HW e He) as [_ Hwf].
  unfold field_vals. destruct (lookup f e) as [v|] eqn:E; [|constructor].
  destruct (wf_entries_lookup _ _ _ _ _ Hwf E) as [m' [Hm' Hv]].
  rewrite Hm in Hm'. injection Hm' as Hm'. subst. constructor; [exact Hv|constructor].
Qed.

Lemma field_absent : forall mof es f,
  Forall (wfe mof) es -> mof f = None -> Forall (fun o => lookup f o = None) es.
Proof.
  intros mof es f HW Hm. rewrite Forall_forall in *. intros e He. destruct (HW e He) as [_ Hwf].
  destruct (lookup f e) as [v|] eqn:E; [|reflexivity].
  destruct (wf_entries_lookup _ _ _ _ _ Hwf E) as [m' [Hm' _]]. rewrite Hm in Hm'. discriminate.
Qed.

Definition eres_eq (mofd : string -> merger) (a b : res entries) : Prop :=
  match a, b with
  | Ok r, Ok r' => sub_entries (veqb true) mofd r' r = true /\ forallb (fun p => mem (fst p) r) r' = true
  | Err _, Err _ => True
  | _, _ => False
  end.

Lemma entries_perm : forall (mof : string -> option merger) (mofd : string -> merger),
  (forall f m, mof f = Some m -> mofd f = m) ->
  (forall f m, mof f = Some m -> forall l l',
      Forall (fun v => wf_val m v = true) l -> Permutation l l' ->
      req true m (nfold (merge_val m) l) (nfold (merge_val m) l')) ->
  forall first others first' others',
    Forall (wfe mof) (first :: others) ->
    Permutation (first :: others) (first' :: others') ->
    eres_eq mofd (efold merge_val mof first others) (efold merge_val mof first' others').
Proof.
  intros mof mofd Hmofd IHf first others first' others' HW HP.
  pose proof (Permutation_Forall HP HW) as HW'.
  assert (forall f, Permutation (field_list f (first :: others)) (field_list f (first' :: others'))) as PF
    by (intros f; apply Permutation_flat_map; exact HP).
  assert (forall es, Forall (wfe mof) es -> Forall (fun o => NoDup (keys o)) es) as ND.
  { intros es H. eapply Forall_impl; [|exact H]. intros e [He _]. exact He. }
  inversion HW as [|? ? Hf Ho]. subst. inversion HW' as [|? ? Hf' Ho']. subst.
  destruct (efold merge_val mof first others) as [r|e] eqn:E;
    destruct (efold merge_val mof first' others') as [r'|e'] eqn:E'; cbn.
  - apply entries_veqb_intro.
    + apply (efold_nodup merge_val mof others first r); [apply Hf|apply ND; exact Ho|exact E].
    + intros f. destruct (mof f) as [m|] eqn:Hm.
      * pose proof (efold_lookup merge_val mof _ _ _ E f m Hm) as L.
        pose proof (efold_lookup merge_val mof _ _ _ E' f m Hm) as L'.
        pose proof (IHf f m Hm _ _ (field_list_wf mof _ f m HW Hm) (PF f)) as R.
        rewrite L, L' in R. cbn in R. rewrite (Hmofd f m Hm).
        destruct (lookup f r); destruct (lookup f r'); cbn in R; try discriminate; try exact R; exact I.
      * pose proof (field_absent mof _ f HW Hm) as A. pose proof (field_absent mof _ f HW' Hm) as A'.
        inversion A; subst. inversion A'; subst.
        rewrite (efold_key_src merge_val mof _ _ _ f E) by assumption.
        rewrite (efold_key_src merge_val mof _ _ _ f E') by assumption. exact I.
  - destruct (efold_err merge_val mof _ _ _ (proj1 Hf') (ND _ Ho') E') as [f [m [e2 [Hm Hn]]]].
    pose proof (efold_lookup merge_val mof _ _ _ E f m Hm) as L.
    pose proof (IHf f m Hm _ _ (field_list_wf mof _ f m HW Hm) (PF f)) as R.
    unfold entries in *. rewrite L in R. rewrite Hn in R. exact R.
  - destruct (efold_err merge_val mof _ _ _ (proj1 Hf) (ND _ Ho) E) as [f [m [e2 [Hm Hn]]]].
    pose proof (efold_lookup merge_val mof _ _ _ E' f m Hm) as L.
    pose proof (IHf f m Hm _ _ (field_list_wf mof _ f m HW Hm) (PF f)) as R.
    unfold entries in *. rewrite L in R. rewrite Hn in R. exact R.
  - exact I.
Qed.

(* ---- main induction over the merger ------------------------------------------------------------ *)

Definition unobj (v : value) : entries := match v with VObj l => l | _ => [] end.
Definition undict (v : value) : entries := match v with VDict l => l | _ => [] end.

Lemma merge_val_obj : forall sch fx fy,
  merge_val (MMerge sch) (VObj fx) (VObj fy) =
  match merge_entries merge_val (fun f => lookup f sch) fx fy with Ok r => Ok (VObj r) | Err e => Err e end.
Proof.
  intros sch fx fy. unfold merge_entries. cbn.
  destruct (merge_old merge_val (fun f => lookup f sch) fy fx); reflexivity.
Qed.

Lemma merge_val_dict : forall vm fx fy,
  merge_val (MDictMerge vm) (VDict fx) (VDict fy) =
  match merge_entries merge_val (fun _ => Some vm) fx fy with Ok r => Ok (VDict r) | Err e => Err e end.
Proof.
  intros vm fx fy. unfold merge_entries. cbn.
  destruct (merge_old merge_val (fun _ => Some vm) fy fx); reflexivity.
Qed.

Lemma vfold_obj : forall sch es a,
  vfold (merge_val (MMerge sch)) (Ok (VObj a)) (map VObj es) =
  match efold merge_val (fun f => lookup f sch) a es with Ok r => Ok (VObj r) | Err e => Err e end.
Proof.
  intros sch. induction es as [|b rest IH]; intros a.
  - reflexivity.
  - rewrite efold_cons. cbn [map]. unfold vfold. cbn [fold_left mbind]. rewrite merge_val_obj.
    destruct (merge_entries merge_val (fun f => lookup f sch) a b) as [ab|e].
    + apply IH.
    + apply (vfold_err_acc (merge_val (MMerge sch))).
Qed.

Lemma vfold_dict : forall vm es a,
  vfold (merge_val (MDictMerge vm)) (Ok (VDict a)) (map VDict es) =
  match efold merge_val (fun _ => Some vm) a es with Ok r => Ok (VDict r) | Err e => Err e end.
Proof.
  intros vm. induction es as [|b rest IH]; intros a.
  - reflexivity.
  - rewrite efold_cons. cbn [map]. unfold vfold. cbn [fold_left mbind]. rewrite merge_val_dict.
    destruct (merge_entries merge_val (fun _ => Some vm) a b) as [ab|e].
    + apply IH.
    + apply (vfold_err_acc (merge_val (MDictMerge vm))).
Qed.

Lemma wf_obj_inv : forall sch v, wf_val (MMerge sch) v = true ->
  v = VObj (unobj v) /\ wfe (fun f => lookup f sch) (unobj v).
Proof.
  intros sch v H. destruct v; cbn in H; try discriminate.
  apply andb_true_iff in H. destruct H as [H1 H2]. split; [reflexivity|].
  split; [apply nodupb_NoDup; exact H1|exact H2].
Qed.

Lemma wf_dict_inv : forall vm v, wf_val (MDictMerge vm) v = true ->
  v = VDict (undict v) /\ wfe (fun _ => Some vm) (undict v).
Proof.
  intros vm v H. destruct v; cbn in H; try discriminate.
  apply andb_true_iff in H. destruct H as [H1 H2]. split; [reflexivity|].
  split; [apply nodupb_NoDup; exact H1|exact H2].
Qed.

Lemma wf_objs_shape : forall sch l, Forall (fun v => wf_val (MMerge sch) v = true) l ->
  l = map VObj (map unobj l) /\ Forall (wfe (fun f => lookup f sch)) (map unobj l).
Proof.
  intros sch l. induction l as [|v r IH]; intros H.
  - split; [reflexivity|constructor].
  - inversion H as [|? ? Hv Hr]. subst. destruct (IH Hr) as [E F].
    destruct (wf_obj_inv _ _ Hv) as [Ev Wv]. split.
    + cbn. rewrite <- E. rewrite <- Ev. reflexivity.
    + cbn. constructor; assumption.
Qed.

Lemma wf_dicts_shape : forall vm l, Forall (fun v => wf_val (MDictMerge vm) v = true) l ->
  l = map VDict (map undict l) /\ Forall (wfe (fun _ => Some vm)) (map undict l).
Proof.
  intros vm l. induction l as [|v r IH]; intros H.
  - split; [reflexivity|constructor].
  - inversion H as [|? ? Hv Hr]. subst. destruct (IH Hr) as [E F].
    destruct (wf_dict_inv _ _ Hv) as [Ev Wv]. split.
    + cbn. rewrite <- E. rewrite <- Ev. reflexivity.
    + cbn. constructor; assumption.
Qed.

Lemma order_free_merge : forall sch,
  order_free (MMerge sch) = forallb (fun p => order_free (snd p)) sch.
Proof.
  induction sch as [|[g mf] r IH]; cbn.
  - reflexivity.
  - f_equal. exact IH.
Qed.

Lemma order_free_lookup : forall sch f mf,
  order_free (MMerge sch) = true -> lookup f sch = Some mf -> order_free mf = true.
Proof.
  intros sch f mf H L. rewrite order_free_merge in H. rewrite forallb_forall in H.
  apply lookup_In in L. apply (H _ L).
Qed.

Theorem nfold_perm : forall m,
  order_free m = true ->
  forall l l', Forall (fun v => wf_val m v = true) l -> Permutation l l' ->
  req true m (nfold (merge_val m) l) (nfold (merge_val m) l').
Proof.
  induction m as [| | | | | |sch IHsch|vm IHvm] using merger_ind'; intros HF l l' HW HP.
  - apply nfold_perm_fc; assumption.
  - apply nfold_perm_fb; assumption.
  - discriminate.
  - discriminate.
  - apply nfold_perm_cc; assumption.
  - apply nfold_perm_un; assumption.
  - (* Merge *)
    destruct l as [|v rest].
    { apply Permutation_nil in HP. subst. cbn. reflexivity. }
    destruct (perm_cons_inv_shape _ _ _ _ HP) as [v' [rest' El]]. subst l'.
    pose proof (Permutation_Forall HP HW) as HW'.
    destruct (wf_objs_shape _ _ HW) as [E W]. destruct (wf_objs_shape _ _ HW') as [E' W'].
    pose proof (Permutation_map unobj HP) as HP2.
    rewrite E, E'. cbn [map] in *. cbn [nfold]. rewrite !vfold_obj.
    assert (eres_eq (field_merger (MMerge sch))
              (efold merge_val (fun f => lookup f sch) (unobj v) (map unobj rest))
              (efold merge_val (fun f => lookup f sch) (unobj v') (map unobj rest'))) as R.
    { apply entries_perm; try assumption.
      - intros f m Hm. cbn. rewrite Hm. reflexivity.
      - intros f m Hm. pose proof (Forall_lookup merger (fun mf => order_free mf = true ->
            forall l l', Forall (fun v => wf_val mf v = true) l -> Permutation l l' ->
            req true mf (nfold (merge_val mf) l) (nfold (merge_val mf) l')) f sch m IHsch Hm) as IHm.
        cbv beta in IHm.
        apply IHm. eapply order_free_lookup; eassumption. }
    destruct (efold merge_val (fun f => lookup f sch) (unobj v) (map unobj rest));
      destruct (efold merge_val (fun f => lookup f sch) (unobj v') (map unobj rest')); cbn in R; try exact R.
    destruct R as [R1 R2]. cbn. rewrite R1, R2. reflexivity.
  - (* DictMerge *)
    destruct l as [|v rest].
    { apply Permutation_nil in HP. subst. cbn. reflexivity. }
    destruct (perm_cons_inv_shape _ _ _ _ HP) as [v' [rest' El]]. subst l'.
    pose proof (Permutation_Forall HP HW) as HW'.
    destruct (wf_dicts_shape _ _ HW) as [E W]. destruct (wf_dicts_shape _ _ HW') as [E' W'].
    pose proof (Permutation_map undict HP) as HP2.
    rewrite E, E'. cbn [map] in *. cbn [nfold]. rewrite !vfold_dict.
    assert (eres_eq (fun _ => vm)
              (efold merge_val (fun _ => Some vm) (undict v) (map undict rest))
              (efold merge_val (fun _ => Some vm) (undict v') (map undict rest'))) as R.
    { apply entries_perm; try assumption.
      - intros f m Hm. injection Hm as Hm. exact Hm.
      - intros f m Hm. injection Hm as Hm. subst m. apply IHvm. exact HF. }
    destruct (efold merge_val (fun _ => Some vm) (undict v) (map undict rest));
      destruct (efold merge_val (fun _ => Some vm) (undict v') (map undict rest')); cbn in R; try exact R.
    destruct R as [R1 R2]. cbn. rewrite R1, R2. reflexivity.
Qed.

(* ---- statements about merge / merge_all ---------------------------------------------------------- *)

Lemma merge_is_merge_entries : forall sch a b,
  merge sch a b = merge_entries merge_val (fun f => lookup f sch) a b.
Proof.
  intros sch a b. unfold merge. rewrite merge_val_obj.
  destruct (merge_entries merge_val (fun f => lookup f sch) a b); reflexivity.
Qed.

Lemma merge_all_efold : forall sch others a,
  merge_all sch a others = efold merge_val (fun f => lookup f sch) a others.
Proof.
  intros sch. induction others as [|b rest IH]; intros a.
  - reflexivity.
  - rewrite efold_cons. cbn. rewrite merge_is_merge_entries.
    destruct (merge_entries merge_val (fun f => lookup f sch) a b); [apply IH|reflexivity].
Qed.

Lemma wf_obj_wfe : forall sch a, wf_obj sch a = true -> wfe (fun f => lookup f sch) a.
Proof.
  intros sch a H. unfold wf_obj in H. apply andb_true_iff in H. destruct H as [_ H].
  destruct (wf_obj_inv _ _ H) as [_ W]. exact W.
Qed.

Theorem merge_list_perm : forall sch objs objs',
  order_free (MMerge sch) = true ->
  Forall (fun a => wf_obj sch a = true) objs ->
  Permutation objs objs' ->
  same_mod_concat sch (merge_list sch objs) (merge_list sch objs') = true.
Proof.
  intros sch objs objs' HF HW HP. destruct objs as [|a rest].
  - apply Permutation_nil in HP. subst. reflexivity.
  - destruct (perm_cons_inv_shape _ _ _ _ HP) as [a' [rest' El]]. subst objs'.
    cbn [merge_list]. rewrite !merge_all_efold.
    assert (eres_eq (field_merger (MMerge sch))
              (efold merge_val (fun f => lookup f sch) a rest)
              (efold merge_val (fun f => lookup f sch) a' rest')) as R.
    { apply entries_perm.
      - intros f m Hm. cbn. rewrite Hm. reflexivity.
      - intros f m Hm l l' Hl Hp. apply nfold_perm; try assumption.
        eapply order_free_lookup; eassumption.
      - eapply Forall_impl; [|exact HW]. intros x Hx. apply wf_obj_wfe. exact Hx.
      - exact HP. }
    destruct (efold merge_val (fun f => lookup f sch) a rest);
      destruct (efold merge_val (fun f => lookup f sch) a' rest'); cbn in R; try contradiction; try reflexivity.
    destruct R as [R1 R2]. cbn. rewrite R1, R2. reflexivity.
Qed.

Theorem merge_comm_mod_concat : forall sch a b,
  order_free (MMerge sch) = true -> wf_obj sch a = true -> wf_obj sch b = true ->
  same_mod_concat sch (merge sch a b) (merge sch b a) = true.
Proof.
  intros sch a b HF Ha Hb.
  pose proof (merge_list_perm sch [a; b] [b; a] HF) as H.
  cbn [merge_list merge_all] in H.
  assert (forall r : res entries, match r with Ok ab => Ok ab | Err e => Err e end = r) as Eta
    by (intros r; destruct r; reflexivity).
  rewrite !Eta in H. apply H.
  - constructor; [exact Ha|constructor; [exact Hb|constructor]].
  - apply perm_swap.
Qed.

(* ---- reflexivity of veqb, preservation of well-formedness ----------------------------------------- *)

Lemma wf_entries_intro : forall (rec : merger -> value -> bool) mof r,
  (forall f v, In (f, v) r -> exists m, mof f = Some m /\ rec m v = true) ->
  wf_entries rec mof r = true.
Proof.
  intros rec mof r. induction r as [|[f v] rest IH]; intros H; cbn.
  - reflexivity.
  - destruct (H f v (or_introl eq_refl)) as [m [Hm Hv]]. rewrite Hm, Hv. cbn.
    apply IH. intros g w Hin. apply H. right. exact Hin.
Qed.

Lemma NoDup_nodupb : forall l, NoDup l -> nodupb l = true.
Proof.
  induction l as [|x r IH]; intros H; cbn.
  - reflexivity.
  - inversion H as [|? ? Hn Hr]. subst. rewrite (IH Hr), andb_true_r. apply negb_true_iff.
    destruct (existsb (String.eqb x) r) eqn:E; [|reflexivity].
    apply existsb_exists in E. destruct E as [y [Hy Ey]]. apply String.eqb_eq in Ey. subst.
    contradiction.
Qed.

Lemma veqb_refl : forall cm m v, wf_val m v = true -> veqb cm m v v = true.
Proof.
  intros cm. induction m as [| | | | | |sch IHsch|vm IHvm] using merger_ind'; intros v H.
  - apply veqb_of_value_eqb; [discriminate|]. apply value_eqb_refl. eapply wf_plain; [|exact H]. exact I.
  - apply veqb_of_value_eqb; [discriminate|]. apply value_eqb_refl. eapply wf_plain; [|exact H]. exact I.
  - apply veqb_of_value_eqb; [discriminate|]. apply value_eqb_refl. eapply wf_plain; [|exact H]. exact I.
  - apply veqb_of_value_eqb; [discriminate|]. apply value_eqb_refl. eapply wf_plain; [|exact H]. exact I.
  - destruct v; cbn in H; try discriminate. cbn. destruct cm.
    + apply perm_eqb_of_Permutation. apply Permutation_refl.
    + apply atoms_eqb_eq. reflexivity.
  - destruct v; cbn in H; try discriminate. cbn.
    assert (subset l l = true) as S by (apply subset_spec; auto). rewrite S. reflexivity.
  - destruct (wf_obj_inv _ _ H) as [E [ND W]]. rewrite E. cbn.
    destruct (entries_veqb_intro (veqb cm) (field_merger (MMerge sch)) (unobj v) (unobj v) ND) as [R1 R2].
    + intros f. destruct (lookup f (unobj v)) as [w|] eqn:L; [|exact I].
      destruct (wf_entries_lookup _ _ _ _ _ W L) as [mf [Hm Hw]]. cbn. rewrite Hm.
      apply (Forall_lookup merger (fun mf => forall v, wf_val mf v = true -> veqb cm mf v v = true)
                           f sch mf IHsch Hm). exact Hw.
    + rewrite R1, R2. reflexivity.
  - destruct (wf_dict_inv _ _ H) as [E [ND W]]. rewrite E. cbn.
    destruct (entries_veqb_intro (veqb cm) (fun _ => vm) (undict v) (undict v) ND) as [R1 R2].
    + intros f. destruct (lookup f (undict v)) as [w|] eqn:L; [|exact I].
      destruct (wf_entries_lookup _ _ _ _ _ W L) as [mf [Hm Hw]]. injection Hm as Hm. subst mf.
      apply IHvm. exact Hw.
    + rewrite R1, R2. reflexivity.
Qed.

Lemma merge_entries_wf : forall mof fx fy r,
  (forall f m x y v, mof f = Some m -> wf_val m x = true -> wf_val m y = true ->
                     merge_val m x y = Ok v -> wf_val m v = true) ->
  wfe mof fx -> wfe mof fy ->
  merge_entries merge_val mof fx fy = Ok r -> wfe mof r.
Proof.
  intros mof fx fy r IHf [Nx Wx] [Ny Wy] H.
  assert (NoDup (keys r)) as Nr by (apply (merge_entries_nodup merge_val mof fx fy r Nx Ny H)).
  split; [exact Nr|]. apply wf_entries_intro. intros f v Hin.
  pose proof (NoDup_In_lookup _ _ _ _ Nr Hin) as L.
  pose proof (merge_entries_lookup merge_val mof _ _ _ H f) as O. rewrite L in O.
  destruct (lookup f fx) as [vx|] eqn:Ex; destruct (lookup f fy) as [vy|] eqn:Ey; cbn in O.
  - destruct (wf_entries_lookup _ _ _ _ _ Wx Ex) as [m [Hm Hvx]].
    destruct (wf_entries_lookup _ _ _ _ _ Wy Ey) as [m' [Hm' Hvy]].
    rewrite Hm in Hm'. injection Hm' as Hm'. subst m'. rewrite Hm in O.
    destruct (merge_val m vx vy) as [w|e] eqn:E; [|discriminate]. injection O as O. subst w.
    exists m. split; [exact Hm|]. apply (IHf f m vx vy v Hm Hvx Hvy E).
  - destruct (wf_entries_lookup _ _ _ _ _ Wx Ex) as [m [Hm Hvx]]. injection O as O. subst.
    exists m. split; assumption.
  - destruct (wf_entries_lookup _ _ _ _ _ Wy Ey) as [m [Hm Hvy]]. rewrite Hm in O. injection O as O. subst.
    exists m. split; assumption.
  - discriminate.
Qed.

Lemma wfe_wf_obj : forall sch r, wfe (fun f => lookup f sch) r -> wf_val (MMerge sch) (VObj r) = true.
Proof. intros sch r [N W]. cbn. rewrite (NoDup_nodupb _ N). exact W. Qed.

Lemma wfe_wf_dict : forall vm r, wfe (fun _ => Some vm) r -> wf_val (MDictMerge vm) (VDict r) = true.
Proof. intros vm r [N W]. cbn. rewrite (NoDup_nodupb _ N). exact W. Qed.

Lemma merge_val_wf : forall m x y v,
  wf_val m x = true -> wf_val m y = true -> merge_val m x y = Ok v -> wf_val m v = true.
Proof.
  induction m as [| | | | | |sch IHsch|vm IHvm] using merger_ind'; intros x y v Hx Hy H.
  - assert (merge_val MForbidChange x y = if value_eqb x y then Ok x else Err EForbidden) as E
      by (destruct x; reflexivity).
    rewrite E in H. destruct (value_eqb x y); [|discriminate]. injection H as H. subst. exact Hx.
  - destruct x; discriminate.
  - assert (merge_val MUseFirst x y = Ok x) as E by (destruct x; reflexivity).
    rewrite E in H. injection H as H. subst. exact Hx.
  - assert (merge_val MUseLast x y = Ok y) as E by (destruct x; reflexivity).
    rewrite E in H. injection H as H. subst. exact Hy.
  - destruct x; cbn in Hx; try discriminate. destruct y; cbn in Hy; try discriminate.
    cbn in H. injection H as H. subst. reflexivity.
  - destruct x; cbn in Hx; try discriminate. destruct y; cbn in Hy; try discriminate.
    cbn in H. injection H as H. subst. reflexivity.
  - destruct (wf_obj_inv _ _ Hx) as [Ex Wx]. destruct (wf_obj_inv _ _ Hy) as [Ey Wy].
    rewrite Ex, Ey in H. rewrite merge_val_obj in H.
    destruct (merge_entries merge_val (fun f => lookup f sch) (unobj x) (unobj y)) as [r|e] eqn:E; [|discriminate].
    injection H as H. subst v. apply wfe_wf_obj.
    eapply merge_entries_wf; [|exact Wx|exact Wy|exact E].
    intros f m x0 y0 v0 Hm. 
    apply (Forall_lookup merger (fun mf => forall x y v, wf_val mf x = true -> wf_val mf y = true ->
             merge_val mf x y = Ok v -> wf_val mf v = true) f sch m IHsch Hm).
  - destruct (wf_dict_inv _ _ Hx) as [Ex Wx]. destruct (wf_dict_inv _ _ Hy) as [Ey Wy].
    rewrite Ex, Ey in H. rewrite merge_val_dict in H.
    destruct (merge_entries merge_val (fun _ => Some vm) (undict x) (undict y)) as [r|e] eqn:E; [|discriminate].
    injection H as H. subst v. apply wfe_wf_dict.
    eapply merge_entries_wf; [|exact Wx|exact Wy|exact E].
    intros f m x0 y0 v0 Hm. injection Hm as Hm. subst m. apply IHvm.
Qed.

(* ---- associativity (including definedness) ---------------------------------------------------------- *)

Definition vreq (cm : bool) (m : merger) (a b : res value) : Prop :=
  match a, b with
  | Ok u, Ok v => veqb cm m u v = true
  | Err _, Err _ => True
  | _, _ => False
  end.

Definition assoc_at (m : merger) : Prop :=
  forall x y z, wf_val m x = true -> wf_val m y = true -> wf_val m z = true ->
    vreq false m (mbind (merge_val m x y) (fun u => merge_val m u z))
                 (mbind (merge_val m y z) (fun v => merge_val m x v)).

Section AssocEntries.
  Variable mof : string -> option merger.
  Variable mofd : string -> merger.
  Hypothesis Hmofd : forall f m, mof f = Some m -> mofd f = m.
  Hypothesis IHf : forall f m, mof f = Some m -> assoc_at m.
  Variables fa fb fc : entries.
  Hypothesis Wa : wfe mof fa.
  Hypothesis Wb : wfe mof fb.
  Hypothesis Wc : wfe mof fc.

  Definition om (f : string) := omerge merge_val (mof f).
  Definition oL (f : string) : res (option value) :=
    mbind (om f (lookup f fa) (lookup f fb)) (fun o => om f o (lookup f fc)).
  Definition oR (f : string) : res (option value) :=
    mbind (om f (lookup f fb) (lookup f fc)) (fun o => om f (lookup f fa) o).
  Definition EL : res entries :=
    mbind (merge_entries merge_val mof fa fb) (fun ab => merge_entries merge_val mof ab fc).
  Definition ER : res entries :=
    mbind (merge_entries merge_val mof fb fc) (fun bc => merge_entries merge_val mof fa bc).

  Lemma field_assoc : forall f,
    match mof f with
    | Some m => req false m (oL f) (oR f)
    | None => oL f = Ok None /\ oR f = Ok None
    end.
  Proof.
    intros f. unfold oL, oR, om. destruct Wa as [_ Wa']. destruct Wb as [_ Wb']. destruct Wc as [_ Wc'].
    destruct (mof f) as [m|] eqn:Hm.
    - assert (forall e v, wf_entries wf_val mof e = true -> lookup f e = Some v -> wf_val m v = true) as WV.
      { intros e v We Le. destruct (wf_entries_lookup _ _ _ _ _ We Le) as [m' [Hm' Hv]].
        rewrite Hm in Hm'. injection Hm' as Hm'. subst. exact Hv. }
      destruct (lookup f fa) as [x|] eqn:Ea; destruct (lookup f fb) as [y|] eqn:Eb;
        destruct (lookup f fc) as [z|] eqn:Ec; cbn.
      + pose proof (IHf f m Hm x y z (WV _ _ Wa' Ea) (WV _ _ Wb' Eb) (WV _ _ Wc' Ec)) as A.
        destruct (merge_val m x y) as [u|e1]; destruct (merge_val m y z) as [v|e2]; cbn in *.
        * destruct (merge_val m u z); destruct (merge_val m x v); cbn; exact A.
        * destruct (merge_val m u z); cbn; exact A.
        * destruct (merge_val m x v); cbn; exact A.
        * exact I.
      + destruct (merge_val m x y) as [u|e1] eqn:E; cbn; [|exact I].
        apply veqb_refl. eapply merge_val_wf; [| |exact E]; eauto.
      + destruct (merge_val m x z) as [u|e1] eqn:E; cbn; [|exact I].
        apply veqb_refl. eapply merge_val_wf; [| |exact E]; eauto.
      + apply veqb_refl. eauto.
      + destruct (merge_val m y z) as [u|e1] eqn:E; cbn; [|exact I].
        apply veqb_refl. eapply merge_val_wf; [| |exact E]; eauto.
      + apply veqb_refl. eauto.
      + apply veqb_refl. eauto.
      + reflexivity.
    - assert (forall e, wf_entries wf_val mof e = true -> lookup f e = None) as WN.
      { intros e We. destruct (lookup f e) as [v|] eqn:Le; [|reflexivity].
        destruct (wf_entries_lookup _ _ _ _ _ We Le) as [m' [Hm' _]]. rewrite Hm in Hm'. discriminate. }
      rewrite (WN _ Wa'), (WN _ Wb'), (WN _ Wc'). cbn. split; reflexivity.
  Qed.

  Lemma EL_ok : forall r, EL = Ok r -> forall f, oL f = Ok (lookup f r).
  Proof.
    intros r H f. unfold EL in H. unfold oL, om.
    destruct (merge_entries merge_val mof fa fb) as [ab|e] eqn:E; [|discriminate]. cbn in H.
    rewrite (merge_entries_lookup merge_val mof _ _ _ E f). cbn.
    apply (merge_entries_lookup merge_val mof _ _ _ H f).
  Qed.

  Lemma ER_ok : forall r, ER = Ok r -> forall f, oR f = Ok (lookup f r).
  Proof.
    intros r H f. unfold ER in H. unfold oR, om.
    destruct (merge_entries merge_val mof fb fc) as [bc|e] eqn:E; [|discriminate]. cbn in H.
    rewrite (merge_entries_lookup merge_val mof _ _ _ E f). cbn.
    apply (merge_entries_lookup merge_val mof _ _ _ H f).
  Qed.

  Lemma EL_err : forall e, EL = Err e -> exists f e', oL f = Err e'.
  Proof.
    intros e H. unfold EL in H. unfold oL, om.
    destruct (merge_entries merge_val mof fa fb) as [ab|e1] eqn:E; cbn in H.
    - assert (NoDup (keys ab)) as Nab
          by (apply (merge_entries_nodup merge_val mof fa fb ab (proj1 Wa) (proj1 Wb) E)).
      destruct (merge_entries_err merge_val mof _ _ _ Nab H) as [f Hf]. exists f, e.
      rewrite (merge_entries_lookup merge_val mof _ _ _ E f). cbn. exact Hf.
    - destruct (merge_entries_err merge_val mof _ _ _ (proj1 Wa) E) as [f Hf]. exists f, e1.
      rewrite Hf. reflexivity.
  Qed.

  Lemma ER_err : forall e, ER = Err e -> exists f e', oR f = Err e'.
  Proof.
    intros e H. unfold ER in H. unfold oR, om.
    destruct (merge_entries merge_val mof fb fc) as [bc|e1] eqn:E; cbn in H.
    - destruct (merge_entries_err merge_val mof _ _ _ (proj1 Wa) H) as [f Hf]. exists f, e.
      rewrite (merge_entries_lookup merge_val mof _ _ _ E f). cbn. exact Hf.
    - destruct (merge_entries_err merge_val mof _ _ _ (proj1 Wb) E) as [f Hf]. exists f, e1.
      rewrite Hf. reflexivity.
  Qed.

  Lemma EL_nodup : forall r, EL = Ok r -> NoDup (keys r).
  Proof.
    intros r H. unfold EL in H.
    destruct (merge_entries merge_val mof fa fb) as [ab|e] eqn:E; [|discriminate]. cbn in H.
    assert (NoDup (keys ab)) as Nab
        by (apply (merge_entries_nodup merge_val mof fa fb ab (proj1 Wa) (proj1 Wb) E)).
    apply (merge_entries_nodup merge_val mof ab fc r Nab (proj1 Wc) H).
  Qed.

  Definition eres_eq0 (a b : res entries) : Prop :=
    match a, b with
    | Ok r, Ok r' => sub_entries (veqb false) mofd r' r = true /\ forallb (fun p => mem (fst p) r) r' = true
    | Err _, Err _ => True
    | _, _ => False
    end.

  Lemma entries_assoc : eres_eq0 EL ER.
  Proof.
    destruct EL as [r|e] eqn:E1; destruct ER as [r'|e'] eqn:E2; cbn.
    - apply entries_veqb_intro; [apply EL_nodup; exact E1|].
      intros f. pose proof (field_assoc f) as A.
      rewrite (EL_ok _ E1 f), (ER_ok _ E2 f) in A. destruct (mof f) as [m|] eqn:Hm.
      + rewrite (Hmofd f m Hm). cbn in A.
        destruct (lookup f r); destruct (lookup f r'); cbn in A; try discriminate; try exact A; exact I.
      + destruct A as [A1 A2]. injection A1 as A1. injection A2 as A2. rewrite A1, A2. exact I.
    - destruct (ER_err _ E2) as [f [e2 Hf]]. pose proof (field_assoc f) as A.
      rewrite (EL_ok _ E1 f), Hf in A. destruct (mof f); [exact A|]. destruct A as [_ A]. discriminate.
    - destruct (EL_err _ E1) as [f [e2 Hf]]. pose proof (field_assoc f) as A.
      rewrite (ER_ok _ E2 f), Hf in A. destruct (mof f); [exact A|]. destruct A as [A _]. discriminate.
    - exact I.
  Qed.
End AssocEntries.

Theorem merge_val_assoc : forall m, assoc_at m.
Proof.
  induction m as [| | | | | |sch IHsch|vm IHvm] using merger_ind'; intros x y z Hx Hy Hz.
  - (* ForbidChange *)
    assert (forall a b, merge_val MForbidChange a b = if value_eqb a b then Ok a else Err EForbidden) as E
      by (intros a b; destruct a; reflexivity).
    assert (plain x = true) as Px by (eapply wf_plain; [|exact Hx]; exact I).
    rewrite !E. destruct (value_eqb x y) eqn:Exy; destruct (value_eqb y z) eqn:Eyz; cbn; rewrite ?E.
    + rewrite Exy. rewrite (value_eqb_trans _ _ _ Exy Eyz). cbn.
      apply veqb_of_value_eqb; [discriminate|apply value_eqb_refl; exact Px].
    + destruct (value_eqb x z) eqn:Exz; cbn; [|exact I].
      rewrite (value_eqb_trans _ _ _ (value_eqb_sym _ _ Exy) Exz) in Eyz. discriminate.
    + rewrite Exy. exact I.
    + exact I.
  - (* Forbid *)
    assert (forall a b, merge_val MForbid a b = Err EForbidden) as E by (intros a b; destruct a; reflexivity).
    rewrite !E. cbn. exact I.
  - assert (forall a b, merge_val MUseFirst a b = Ok a) as E by (intros a b; destruct a; reflexivity).
    rewrite !E. cbn. rewrite !E. cbn. apply veqb_refl. exact Hx.
  - assert (forall a b, merge_val MUseLast a b = Ok b) as E by (intros a b; destruct a; reflexivity).
    rewrite !E. cbn. rewrite !E. cbn. apply veqb_refl. exact Hz.
  - destruct x; cbn in Hx; try discriminate. destruct y; cbn in Hy; try discriminate.
    destruct z; cbn in Hz; try discriminate. cbn. rewrite app_assoc. apply atoms_eqb_eq. reflexivity.
  - destruct x; cbn in Hx; try discriminate. destruct y; cbn in Hy; try discriminate.
    destruct z; cbn in Hz; try discriminate. cbn.
    apply andb_true_iff. split; apply subset_spec; intros a; rewrite !union_In; tauto.
  - (* Merge *)
    destruct (wf_obj_inv _ _ Hx) as [Ex Wx]. destruct (wf_obj_inv _ _ Hy) as [Ey Wy].
    destruct (wf_obj_inv _ _ Hz) as [Ez Wz]. rewrite Ex, Ey, Ez.
    pose proof (entries_assoc (fun f => lookup f sch) (field_merger (MMerge sch))) as A.
    specialize (A (fun f m Hm => ltac:(cbn; rewrite Hm; reflexivity))).
    specialize (A (fun f m Hm => Forall_lookup merger assoc_at f sch m IHsch Hm)).
    specialize (A _ _ _ Wx Wy Wz). unfold EL, ER in A. rewrite !merge_val_obj.
    destruct (merge_entries merge_val (fun f => lookup f sch) (unobj x) (unobj y)) as [ab|e1];
      destruct (merge_entries merge_val (fun f => lookup f sch) (unobj y) (unobj z)) as [bc|e2];
      cbn [mbind] in *; rewrite ?merge_val_obj.
    + destruct (merge_entries merge_val (fun f => lookup f sch) ab (unobj z));
        destruct (merge_entries merge_val (fun f => lookup f sch) (unobj x) bc); cbn in *; try exact A.
      destruct A as [A1 A2]. rewrite A1, A2. reflexivity.
    + destruct (merge_entries merge_val (fun f => lookup f sch) ab (unobj z)); cbn in *; exact A.
    + destruct (merge_entries merge_val (fun f => lookup f sch) (unobj x) bc); cbn in *; exact A.
    + exact I.
  - (* DictMerge *)
    destruct (wf_dict_inv _ _ Hx) as [Ex Wx]. destruct (wf_dict_inv _ _ Hy) as [Ey Wy].
    destruct (wf_dict_inv _ _ Hz) as [Ez Wz]. rewrite Ex, Ey, Ez.
    pose proof (entries_assoc (fun _ => Some vm) (fun _ => vm)) as A.
    specialize (A (fun f m Hm => ltac:(injection Hm as Hm; exact Hm))).
    specialize (A (fun f m Hm => ltac:(injection Hm as Hm; subst m; exact IHvm))).
    specialize (A _ _ _ Wx Wy Wz). unfold EL, ER in A. rewrite !merge_val_dict.
    destruct (merge_entries merge_val (fun _ => Some vm) (undict x) (undict y)) as [ab|e1];
      destruct (merge_entries merge_val (fun _ => Some vm) (undict y) (undict z)) as [bc|e2];
      cbn [mbind] in *; rewrite ?merge_val_dict.
    + destruct (merge_entries merge_val (fun _ => Some vm) ab (undict z));
        destruct (merge_entries merge_val (fun _ => Some vm) (undict x) bc); cbn in *; try exact A.
      destruct A as [A1 A2]. rewrite A1, A2. reflexivity.
    + destruct (merge_entries merge_val (fun _ => Some vm) ab (undict z)); cbn in *; exact A.
    + destruct (merge_entries merge_val (fun _ => Some vm) (undict x) bc); cbn in *; exact A.
    + exact I.
Qed.

Theorem merge_assoc : forall sch a b c,
  wf_obj sch a = true -> wf_obj sch b = true -> wf_obj sch c = true ->
  same_exact sch (bind (merge sch a b) (fun ab => merge sch ab c))
                 (bind (merge sch b c) (fun bc => merge sch a bc)) = true.
Proof.
  intros sch a b c Ha Hb Hc.
  assert (forall o, wf_obj sch o = true -> wf_val (MMerge sch) (VObj o) = true) as W.
  { intros o H. unfold wf_obj in H. apply andb_true_iff in H. apply H. }
  pose proof (merge_val_assoc (MMerge sch) (VObj a) (VObj b) (VObj c) (W _ Ha) (W _ Hb) (W _ Hc)) as A.
  rewrite !merge_val_obj in A. rewrite !merge_is_merge_entries.
  destruct (merge_entries merge_val (fun f => lookup f sch) a b) as [ab|e1];
    destruct (merge_entries merge_val (fun f => lookup f sch) b c) as [bc|e2];
    cbn [mbind bind] in *; rewrite ?merge_val_obj in A; rewrite ?merge_is_merge_entries.
  - destruct (merge_entries merge_val (fun f => lookup f sch) ab c);
      destruct (merge_entries merge_val (fun f => lookup f sch) a bc); cbn in *;
        try contradiction; try reflexivity; exact A.
  - destruct (merge_entries merge_val (fun f => lookup f sch) ab c); cbn in *; try contradiction; reflexivity.
  - destruct (merge_entries merge_val (fun f => lookup f sch) a bc); cbn in *; try contradiction; reflexivity.
  - reflexivity.
Qed.
