(* C19, second part: PCDeployerJob.parse_result, pc_diff, the differ law and its gap. *)
From Coq Require Import List String Ascii Bool Arith ZArith Lia Permutation.
From Annet Require Import Base.Str Model.Files Spec.P_C19 Proofs.FilesProofs.
Import ListNotations.
Open Scope string_scope.
Open Scope list_scope.

(* ================================================================ "\n".join(lines) is falsy *)

Lemma append_nonempty_r a b : b <> "" -> (a ++ b)%string <> "".
Proof. intros Hb H. destruct a; cbn in H; [contradiction | discriminate]. Qed.

Lemma join_empty_iff (l : list string) :
  l <> [""] -> is_empty (join_with LF l) = is_nil l.
Proof.
  intro H. destruct l as [|x [|y r]]; cbn [join_with is_nil].
  - reflexivity.
  - destruct x; [exfalso; apply H; reflexivity | reflexivity].
  - apply is_empty_false. apply append_nonempty_r. unfold LF. cbn. discriminate.
Qed.

(* ================================================================ the deploy decision *)

Definition files_of_pr (r : option (list (string * string) * list (string * string))) :=
  match r with Some (f, _) => f | None => [] end.
Definition cmds_of_pr (r : option (list (string * string) * list (string * string))) :=
  match r with Some (_, c) => c | None => [] end.

Section Differ.
  Variable differ : differ_t.
  (* the differ's own notion of "same file" *)
  Variable deq : string -> option string -> string -> bool.
  Hypothesis H_diff : forall p o n, differ p o n = [] <-> deq p o n = true.
  Hypothesis H_noblank : forall p o n, differ p o n <> [""].

  Definition changed (old : oldmap) (e : string * (string * string)) : bool :=
    negb (deq (fst e) (old_get old (fst e)) (fst (snd e))).

  Lemma is_nil_differ p o n : is_nil (differ p o n) = deq p o n.
  Proof.
    destruct (deq p o n) eqn:E.
    - apply H_diff in E. rewrite E. reflexivity.
    - destruct (differ p o n) eqn:D; [|reflexivity].
      apply H_diff in D. congruence.
  Qed.

  Lemma uploaded_spec m old e :
    uploaded differ m old e = changed old e || force_reload m.
  Proof.
    unfold uploaded, changed. rewrite join_empty_iff by apply H_noblank.
    rewrite is_nil_differ. reflexivity.
  Qed.

  Definition sent (m : rmode) (old : oldmap) (nf : nfiles) : nfiles :=
    filter (fun e => changed old e || force_reload m) nf.

  Lemma filter_uploaded m old nf : filter (uploaded differ m old) nf = sent m old nf.
  Proof. unfold sent. apply filter_ext. intro e. apply uploaded_spec. Qed.

  (* files = {p: new[p] | differ says changed, or force}; values are the generated contents *)
  Lemma upload_iff m old nf :
    files_of_pr (parse_result differ m old nf) = map (fun e => (fst e, fst (snd e))) (sent m old nf).
  Proof.
    unfold parse_result. rewrite filter_uploaded.
    destruct (sent m old nf); reflexivity.
  Qed.

  Lemma reload_iff m old nf :
    cmds_of_pr (parse_result differ m old nf) =
    if enable_reload m then map (fun e => (fst e, snd (snd e))) (sent m old nf) else [].
  Proof.
    unfold parse_result. rewrite filter_uploaded.
    destruct (sent m old nf); [destruct (enable_reload m)|]; reflexivity.
  Qed.

  Lemma reload_keys m old nf :
    keys (cmds_of_pr (parse_result differ m old nf)) =
    if enable_reload m then keys (files_of_pr (parse_result differ m old nf)) else [].
  Proof.
    rewrite reload_iff, upload_iff. destruct (enable_reload m); [|reflexivity].
    unfold keys. rewrite !map_map. reflexivity.
  Qed.

  Lemma deploy_none_iff m old nf :
    parse_result differ m old nf = None <-> sent m old nf = [].
  Proof.
    unfold parse_result. rewrite filter_uploaded.
    destruct (sent m old nf); cbn; split; intro H; try reflexivity; discriminate.
  Qed.

  (* the uploaded bytes are the generated content of that path, and the command its reload *)
  Lemma bytes m old nf p b :
    In (p, b) (files_of_pr (parse_result differ m old nf)) -> exists r, In (p, (b, r)) nf.
  Proof.
    rewrite upload_iff. intro H. apply in_map_iff in H as [[p' [b' r]] [E Hin]].
    cbn in E. injection E as E1 E2. subst. exists r.
    apply filter_In in Hin as [Hin _]. exact Hin.
  Qed.

  Lemma reload_cmd m old nf p c :
    In (p, c) (cmds_of_pr (parse_result differ m old nf)) ->
    enable_reload m = true /\ exists b, In (p, (b, c)) nf /\ In (p, b) (files_of_pr (parse_result differ m old nf)).
  Proof.
    rewrite reload_iff, upload_iff. destruct (enable_reload m); [|intros []].
    intro H. split; [reflexivity|]. apply in_map_iff in H as [[p' [b r]] [E Hin]].
    cbn in E. injection E as E1 E2. subst. exists b. split.
    - apply filter_In in Hin as [Hin _]. exact Hin.
    - apply in_map_iff. exists (p, (b, c)). split; [reflexivity | exact Hin].
  Qed.

  Lemma pc_diff_keys old nf :
    keys (pc_diff differ old nf) = map fst (filter (changed old) nf).
  Proof.
    unfold pc_diff, keys. rewrite map_map. cbn [fst]. f_equal.
    apply filter_ext. intro e. unfold changed. rewrite is_nil_differ. reflexivity.
  Qed.
End Differ.

(* ================================================================ the two differs *)

Definition deq_lines : string -> option string -> string -> bool :=
  fun _ o n => list_str_eqb (lines_of o) (splitlines n).
Definition deq_exact : string -> option string -> string -> bool :=
  fun _ o n => opt_str_eqb o (Some n).

Lemma differ_lines_law p o n : differ_lines p o n = [] <-> deq_lines p o n = true.
Proof.
  unfold differ_lines, deq_lines, udiff.
  destruct (list_str_eqb (lines_of o) (splitlines n)); split; intro H; try reflexivity; discriminate.
Qed.

Lemma differ_lines_noblank p o n : differ_lines p o n <> [""].
Proof.
  unfold differ_lines, udiff. destruct (list_str_eqb (lines_of o) (splitlines n)); discriminate.
Qed.

Lemma opt_str_eqb_eq a b : opt_str_eqb a b = true <-> a = b.
Proof.
  destruct a as [x|], b as [y|]; cbn; split; intro H; try reflexivity; try discriminate.
  - apply String.eqb_eq in H. congruence.
  - injection H as H. subst. apply String.eqb_refl.
Qed.

Lemma differ_exact_law p o n : differ_exact p o n = [] <-> deq_exact p o n = true.
Proof.
  unfold differ_exact, deq_exact. destruct (differ_lines p o n) eqn:D.
  - destruct (opt_str_eqb o (Some n)); split; intro H; try reflexivity; discriminate.
  - split; [discriminate|]. intro H. apply opt_str_eqb_eq in H. subst o.
    unfold differ_lines, udiff in D. cbn [lines_of] in D.
    rewrite (proj2 (list_str_eqb_eq _ _) eq_refl) in D. discriminate.
Qed.

Lemma differ_exact_noblank p o n : differ_exact p o n <> [""].
Proof.
  unfold differ_exact. pose proof (differ_lines_noblank p o n) as H.
  destruct (differ_lines p o n) eqn:D; [|exact H].
  destruct (opt_str_eqb o (Some n)); discriminate.
Qed.

(* an exact differ (diff empty iff contents equal): the decision is the reference's *)
Section ExactDiffer.
  Variable differ : differ_t.
  Hypothesis H_exact : forall p o n, differ p o n = [] <-> o = Some n.
  Hypothesis H_noblank : forall p o n, differ p o n <> [""].

  Lemma exact_law p o n : differ p o n = [] <-> deq_exact p o n = true.
  Proof. unfold deq_exact. rewrite opt_str_eqb_eq. apply H_exact. Qed.

  Lemma sent_exact m old nf : sent deq_exact m old nf = to_upload m old nf.
  Proof. reflexivity. Qed.

  Lemma upload_iff_exact m old nf :
    files_of_pr (parse_result differ m old nf) = spec_files m old nf.
  Proof. rewrite (upload_iff differ deq_exact exact_law H_noblank). reflexivity. Qed.

  Lemma reload_iff_exact m old nf :
    cmds_of_pr (parse_result differ m old nf) = spec_cmds m old nf.
  Proof. rewrite (reload_iff differ deq_exact exact_law H_noblank). reflexivity. Qed.

  Lemma pc_diff_exact old nf : keys (pc_diff differ old nf) = spec_diff old nf.
  Proof. rewrite (pc_diff_keys differ deq_exact exact_law). reflexivity. Qed.

  (* ---------------------------------------------------------------- the whole predicate *)

  Lemma in_keys_lookup {V} k (l : list (string * V)) : In k (keys l) <-> lookup k l <> None.
  Proof.
    split.
    - intros H E. apply lookup_None in E. contradiction.
    - intro H. destruct (in_dec string_dec k (keys l)) as [Hin|Hn]; [exact Hin|].
      apply lookup_None in Hn. contradiction.
  Qed.

  Lemma keyset_eqb_intro a b :
    NoDup a -> NoDup b -> (forall k, In k a <-> In k b) -> keyset_eqb a b = true.
  Proof.
    intros Ha Hb H. unfold keyset_eqb.
    rewrite (proj2 (nodupb_NoDup _) Ha), (proj2 (nodupb_NoDup _) Hb). cbn.
    apply andb_true_iff. split; apply forallb_forall; intros k Hk; apply mem_In; apply H; exact Hk.
  Qed.

  Lemma model_sel etck (safe : bool) gens :
    (if safe then new_files true (run_file_generators etck gens)
     else new_files false (run_file_generators etck gens)) =
    new_files safe (run_file_generators etck gens).
  Proof. destruct safe; reflexivity. Qed.

  Lemma holds_exact x : wf_C19 x = true -> P_C19 x (model differ x) = true.
  Proof.
    unfold wf_C19. intro Hd. destruct x as [gens etck safe old m]. cbn [i_gens] in Hd.
    set (sm := new_files safe (run_file_generators etck gens)).
    set (sp := planned etck safe gens).
    assert (Hsm : NoDup (keys sm)) by (apply new_files_nodup, nodup_run).
    assert (Hsp : NoDup (keys sp)) by (apply planned_nodup; exact Hd).
    assert (Hl : forall k, lookup k sm = lookup k sp) by (intro k; apply lookup_model_planned; exact Hd).
    unfold P_C19, P_new, P_safe, P_files, P_cmds, P_diff, sel_of, files_of, cmds_of, model.
    cbn [i_gens i_etck i_safe i_old i_mode o_new o_new_safe o_deploy o_diff].
    rewrite model_sel. fold sm. fold sp.
    rewrite (new_files_planned etck false gens Hd), (new_files_planned etck true gens Hd). cbn [andb].
    change (match parse_result differ m old sm with Some (f, _) => f | None => [] end)
      with (files_of_pr (parse_result differ m old sm)).
    change (match parse_result differ m old sm with Some (_, c) => c | None => [] end)
      with (cmds_of_pr (parse_result differ m old sm)).
    rewrite upload_iff_exact, reload_iff_exact, pc_diff_exact.
    apply andb_true_iff. split; [apply andb_true_iff; split|].
    - (* files *)
      unfold spec_files, to_upload.
      apply (assoc_eqb_intro String.eqb String.eqb_refl
               (fm (fun e => content_differs old e || force_reload m) (fun e => fst (snd e)) sm)
               (fm (fun e => content_differs old e || force_reload m) (fun e => fst (snd e)) sp)).
      + apply keys_fm_nodup. exact Hsm.
      + apply keys_fm_nodup. exact Hsp.
      + apply fm_ext_lookup; assumption.
    - (* cmds *)
      unfold spec_cmds, to_upload. destruct (enable_reload m); [|reflexivity].
      apply (assoc_eqb_intro String.eqb String.eqb_refl
               (fm (fun e => content_differs old e || force_reload m) (fun e => snd (snd e)) sm)
               (fm (fun e => content_differs old e || force_reload m) (fun e => snd (snd e)) sp)).
      + apply keys_fm_nodup. exact Hsm.
      + apply keys_fm_nodup. exact Hsp.
      + apply fm_ext_lookup; assumption.
    - (* diff *)
      unfold spec_diff.
      assert (E : forall l : nfiles, map fst (filter (content_differs old) l) =
                                     keys (fm (content_differs old) (fun _ => tt) l)).
      { intro l. unfold fm, keys. rewrite map_map. reflexivity. }
      rewrite !E. apply keyset_eqb_intro.
      + apply keys_fm_nodup. exact Hsm.
      + apply keys_fm_nodup. exact Hsp.
      + intro k. rewrite !in_keys_lookup.
        rewrite (fm_ext_lookup (content_differs old) (fun _ => tt) sm sp Hsm Hsp Hl k). tauto.
  Qed.
End ExactDiffer.

Lemma holds_differ_exact x : wf_C19 x = true -> P_C19 x (model differ_exact x) = true.
Proof.
  apply holds_exact.
  - intros p o n. rewrite differ_exact_law. unfold deq_exact. apply opt_str_eqb_eq.
  - apply differ_exact_noblank.
Qed.

(* ================================================================ the gap of the shipped differ *)

(* contents differ, line lists do not: the three classes *)
Definition gap_witnesses : list (option string * string) :=
  [ (Some ("a" ++ LF)%string, "a");                                  (* newline at end of file *)
    (Some ("a" ++ CR ++ LF ++ "b")%string, ("a" ++ LF ++ "b")%string);   (* CRLF vs LF *)
    (None, "") ].                                                    (* absent vs empty *)

Lemma lines_gap :
  forall w, In w gap_witnesses ->
    fst w <> Some (snd w) /\ differ_lines "/etc/a" (fst w) (snd w) = [] /\
    differ_exact "/etc/a" (fst w) (snd w) <> [].
Proof.
  intros w Hw. cbn in Hw.
  destruct Hw as [Hw|[Hw|[Hw|[]]]]; subst w; cbn [fst snd]; (split; [|split]); vm_compute;
    try reflexivity; discriminate.
Qed.

(* the law "diff empty <-> contents equal" is false for the shipped differ *)
Lemma differ_lines_not_exact :
  ~ (forall p o n, differ_lines p o n = [] <-> o = Some n).
Proof.
  intro H. specialize (H "/etc/a" None ""). destruct H as [H _].
  assert (E : differ_lines "/etc/a" None "" = []) by (vm_compute; reflexivity).
  specialize (H E). discriminate.
Qed.

Definition x_of (o : option string) (n : string) (m : rmode) : input :=
  In_ [Gen "/etc/a" 100 n "rl" true] false false
      (match o with Some s => [("/etc/a", Some s)] | None => [] end) m.

(* with the shipped differ: nothing is uploaded and nothing is shown although contents differ *)
Lemma upload_lines_refuted :
  forall w, In w gap_witnesses ->
    let x := x_of (fst w) (snd w) RYes in
    wf_C19 x = true /\
    o_deploy (model differ_lines x) = None /\ o_diff (model differ_lines x) = [] /\
    spec_files RYes (i_old x) (sel_of x) = [("/etc/a", snd w)] /\
    P_files x (model differ_lines x) = false /\ P_diff x (model differ_lines x) = false /\
    P_C19 x (model differ_exact x) = true.
Proof.
  intros w Hw. cbn in Hw.
  destruct Hw as [Hw|[Hw|[Hw|[]]]]; subst w; cbn [fst snd]; repeat split; vm_compute; reflexivity.
Qed.

Lemma holds_lines_refuted :
  exists x, wf_C19 x = true /\ P_C19 x (model differ_lines x) = false.
Proof. exists (x_of (Some ("a" ++ LF)%string) "a" RYes). split; vm_compute; reflexivity. Qed.

(* ---------------------------------------------------------------- where the gap is closed:
   LF-terminated texts without other line boundaries are determined by their lines *)

Fixpoint unix_text (s : string) : bool :=
  match s with
  | EmptyString => true
  | String c r =>
    (is_lf c || negb (is_brk c)) &&
    match r with EmptyString => is_lf c | _ => unix_text r end
  end.

Definition unlines (l : list string) : string :=
  fold_right (fun x acc => (x ++ LF ++ acc)%string) EmptyString l.

Lemma is_lf_brk c : is_lf c = true -> is_brk c = true.
Proof.
  unfold is_lf, is_brk. intro H. apply Nat.eqb_eq in H. rewrite H. reflexivity.
Qed.

Lemma is_lf_not_cr c : is_lf c = true -> is_cr c = false.
Proof.
  unfold is_lf, is_cr. intro H. apply Nat.eqb_eq in H. rewrite H. reflexivity.
Qed.

Lemma is_lf_char c : is_lf c = true -> c = nl.
Proof.
  unfold is_lf. intro H. apply Nat.eqb_eq in H.
  rewrite <- (Ascii.ascii_nat_embedding c). rewrite H. reflexivity.
Qed.

Lemma unlines_splitlines s : unix_text s = true -> unlines (splitlines s) = s.
Proof.
  induction s as [|c r IH]; [reflexivity|].
  intro H. cbn [unix_text] in H. apply andb_true_iff in H as [Hc Hr].
  cbn [splitlines]. destruct (is_lf c) eqn:Elf.
  - rewrite (is_lf_brk c Elf). rewrite (is_lf_not_cr c Elf). cbn [andb].
    rewrite (is_lf_char c Elf) in *.
    destruct r as [|c2 r2].
    + reflexivity.
    + cbn [unlines fold_right]. change (fold_right _ _ ?l) with (unlines l).
      rewrite (IH Hr). reflexivity.
  - cbn in Hc. apply negb_true_iff in Hc. rewrite Hc.
    destruct r as [|c2 r2]; [discriminate|].
    specialize (IH Hr).
    destruct (splitlines (String c2 r2)) as [|l ls] eqn:S.
    + cbn in IH. discriminate.
    + cbn [unlines fold_right] in *. rewrite <- IH. reflexivity.
Qed.

Lemma splitlines_inj_unix s t :
  unix_text s = true -> unix_text t = true -> splitlines s = splitlines t -> s = t.
Proof.
  intros Hs Ht E. rewrite <- (unlines_splitlines s Hs), <- (unlines_splitlines t Ht), E. reflexivity.
Qed.

(* on such texts (file present on the device) the shipped differ is exact *)
Lemma differ_lines_exact_on_unix p s n :
  unix_text s = true -> unix_text n = true ->
  (differ_lines p (Some s) n = [] <-> Some s = Some n).
Proof.
  intros Hs Hn. rewrite differ_lines_law. unfold deq_lines. cbn [lines_of].
  rewrite list_str_eqb_eq. split.
  - intro E. f_equal. apply splitlines_inj_unix; assumption.
  - intro E. injection E as E. subst. reflexivity.
Qed.

(* all planned contents and all device contents are LF-terminated texts and every planned
   path exists on the device *)
Definition unix_case (old : oldmap) (nf : nfiles) : Prop :=
  forall e, In e nf ->
    unix_text (fst (snd e)) = true /\
    exists s, old_get old (fst e) = Some s /\ unix_text s = true.

Lemma upload_iff_lines_unix m old nf :
  unix_case old nf ->
  files_of_pr (parse_result differ_lines m old nf) = spec_files m old nf /\
  cmds_of_pr (parse_result differ_lines m old nf) = spec_cmds m old nf /\
  keys (pc_diff differ_lines old nf) = spec_diff old nf.
Proof.
  intro U.
  assert (F : forall l : nfiles, (forall e, In e l -> In e nf) ->
            filter (fun e => changed deq_lines old e || force_reload m) l =
            filter (fun e => content_differs old e || force_reload m) l /\
            filter (changed deq_lines old) l = filter (content_differs old) l).
  { induction l as [|e l IH]; intro Hl; [split; reflexivity|].
    destruct (IH (fun z Hz => Hl z (or_intror Hz))) as [IH1 IH2].
    destruct (U e (Hl e (or_introl eq_refl))) as [Hn [s [Ho Hs]]].
    assert (E : changed deq_lines old e = content_differs old e).
    { unfold changed, content_differs. rewrite Ho. f_equal.
      pose proof (differ_lines_exact_on_unix (fst e) s (fst (snd e)) Hs Hn) as X.
      rewrite differ_lines_law in X.
      destruct (deq_lines (fst e) (Some s) (fst (snd e))) eqn:D1;
        destruct (opt_str_eqb (Some s) (Some (fst (snd e)))) eqn:D2; try reflexivity.
      - apply proj1 in X. specialize (X eq_refl). apply opt_str_eqb_eq in X. congruence.
      - apply opt_str_eqb_eq in D2. apply X in D2. discriminate. }
    cbn [filter]. rewrite E, IH1, IH2. split; reflexivity. }
  destruct (F nf (fun e H => H)) as [F1 F2].
  rewrite (upload_iff differ_lines deq_lines differ_lines_law differ_lines_noblank).
  rewrite (reload_iff differ_lines deq_lines differ_lines_law differ_lines_noblank).
  rewrite (pc_diff_keys differ_lines deq_lines differ_lines_law).
  unfold sent, spec_files, spec_cmds, spec_diff, to_upload. rewrite F1, F2.
  repeat split; reflexivity.
Qed.
