(* C08: "... except where the rulebook pins a negated command to an explicit position".
   If exactly one %order_reverse rule (position k, in scope) matches a row directly and no ordinary rule in scope
   mentions the row through a regexp of greater weight (Spec/P_C08s.pin_of), then Orderer.get_order gives a removal
   command (cmd_direct = false) with that row the order k and makes it direct - for any row matcher, any regexp
   source function, any ordering rulebook. *)
From Coq Require Import List String Bool Arith ZArith Lia.
From Annet Require Import Base.Str Base.Tree Model.Order Model.Patch Spec.P_C08 Spec.P_C08s.
Import ListNotations.
Open Scope string_scope.
Open Scope list_scope.

Section Pin.
  Variable rmatch : string -> string -> option (list string).
  Variable rsrc : string -> string.
  Variable rrev : string -> string.
  Variable block_exit : string.
  Variable row : string.
  Variable sc : option string.
  Variable W : nat.

  Notation step := (get_order_step rmatch rsrc rrev block_exit row sc).
  Notation hit := (pin_hit rmatch sc row).
  Notation compat := (pin_compatible rmatch rsrc rrev sc row W).
  Notation wis := (pin_weight_is rmatch rsrc sc row W).

  Hypothesis Hexit : is_exit_row block_exit row = false.

  Definition Inv1 (st : gstate) : Prop :=
    g_direct st = false /\ match g_order st with FNone => True | FFin _ => g_weight st <= W | FInf => False end.
  Definition Inv2 (k : nat) (st : gstate) : Prop :=
    g_direct st = true /\ g_order st = FFin k /\ g_weight st = W.

  Lemma step_nohit st i r : hit r = false -> compat r = true -> Inv1 st -> Inv1 (step st (i, r)).
  Proof.
    intros Hh Hc (Hd & Ho). unfold get_order_step. unfold pin_hit in Hh. unfold pin_compatible in Hc.
    destruct (in_scope r sc) eqn:Es; cbn [negb]; [|split; assumption]. cbn [negb orb andb] in Hh, Hc.
    destruct (o_rev r) eqn:Er; cbn [negb orb andb] in Hh, Hc |- *.
    - (* an %order_reverse rule that does not match directly *)
      rewrite Hh. rewrite andb_false_r. cbn [andb].
      unfold is_exit_row in Hexit. rewrite Hexit. split; cbn [g_direct g_order g_weight]; assumption.
    - destruct (matches rmatch (o_pat r) row || matches rmatch (rrev (o_pat r)) row) eqn:Em.
      + apply andb_true_iff in Hc as [_ Hw]. apply Nat.leb_le in Hw.
        split; cbn [g_direct g_order g_weight]; [exact Hd|].
        destruct (g_order st) eqn:Eo.
        * exact Hw.
        * destruct (Nat.ltb (g_weight st) _); [exact Hw | exact Ho].
        * destruct Ho.
      + unfold is_exit_row in Hexit. rewrite Hexit. split; cbn [g_direct g_order g_weight]; assumption.
  Qed.

  Lemma step_pin st i r : hit r = true -> wis r = true -> Inv1 st -> Inv2 i (step st (i, r)).
  Proof.
    intros Hh Hw (Hd & Ho). unfold pin_weight_is in Hw. rewrite Hh in Hw. cbn [negb orb] in Hw. apply Nat.eqb_eq in Hw.
    unfold pin_hit in Hh. apply andb_true_iff in Hh as [Hh Hm]. apply andb_true_iff in Hh as [Hs Hr].
    unfold get_order_step. rewrite Hs, Hr, Hm, Hd. cbn [negb andb orb]. rewrite Hw.
    destruct (g_order st) eqn:Eo.
    - repeat split.
    - assert (B : Nat.ltb (g_weight st) W || (Nat.eqb (g_weight st) W && true) = true).
      { destruct (Nat.ltb (g_weight st) W) eqn:El; [reflexivity|]. apply Nat.ltb_ge in El.
        cbn [orb]. rewrite andb_true_r. apply Nat.eqb_eq. lia. }
      rewrite B. repeat split.
    - destruct Ho.
  Qed.

  Lemma step_after k st i r : compat r = true -> Inv2 k st -> Inv2 k (step st (i, r)).
  Proof.
    intros Hc (Hd & Ho & Hw). unfold get_order_step. unfold pin_compatible in Hc.
    destruct (in_scope r sc) eqn:Es; cbn [negb]; [|repeat split; assumption]. cbn [negb orb] in Hc.
    rewrite Hd. cbn [negb]. rewrite andb_false_r. cbn [andb].
    destruct (o_rev r) eqn:Er; cbn [negb orb andb] in Hc |- *.
    - unfold is_exit_row in Hexit. rewrite Hexit. repeat split; cbn [g_direct g_order g_weight]; assumption.
    - destruct (matches rmatch (o_pat r) row || matches rmatch (rrev (o_pat r)) row) eqn:Em.
      + apply andb_true_iff in Hc as [_ Hl]. apply Nat.leb_le in Hl. rewrite Ho, Hw.
        assert (B : Nat.ltb W (shared_chars row (rsrc (if matches rmatch (o_pat r) row then o_pat r else rrev (o_pat r)))) = false)
          by (apply Nat.ltb_ge; exact Hl).
        rewrite B. repeat split; cbn [g_direct g_order g_weight]; try assumption; reflexivity.
      + unfold is_exit_row in Hexit. rewrite Hexit. repeat split; cbn [g_direct g_order g_weight]; assumption.
  Qed.

  Lemma fold_before : forall l n st,
    index_where hit l n = [] -> forallb compat l = true -> Inv1 st -> Inv1 (fold_left step (enumerate l n) st).
  Proof.
    induction l as [|x t IH]; intros n st Hi Hc Hv; [exact Hv|]. cbn [enumerate fold_left].
    cbn [index_where] in Hi. cbn [forallb] in Hc. apply andb_true_iff in Hc as [Hx Hc].
    destruct (hit x) eqn:Eh; [discriminate|]. cbn [app] in Hi.
    apply IH; [exact Hi | exact Hc | apply step_nohit; assumption].
  Qed.

  Lemma fold_after : forall l n st k,
    forallb compat l = true -> Inv2 k st -> Inv2 k (fold_left step (enumerate l n) st).
  Proof.
    induction l as [|x t IH]; intros n st k Hc Hv; [exact Hv|]. cbn [enumerate fold_left].
    cbn [forallb] in Hc. apply andb_true_iff in Hc as [Hx Hc]. apply IH; [exact Hc | apply step_after; assumption].
  Qed.

  Lemma index_where_ge {A} (f : A -> bool) : forall l n k, In k (index_where f l n) -> n <= k.
  Proof.
    induction l as [|x t IH]; intros n k H; [destruct H|]. cbn [index_where] in H. apply in_app_or in H as [H|H].
    - destruct (f x); [destruct H as [H|[]]; lia | destruct H].
    - apply IH in H. lia.
  Qed.

  Lemma fold_pin : forall l n st k,
    index_where hit l n = [k] -> forallb compat l = true -> forallb wis l = true -> Inv1 st ->
    Inv2 k (fold_left step (enumerate l n) st).
  Proof.
    induction l as [|x t IH]; intros n st k Hi Hc Hw Hv; [discriminate|]. cbn [enumerate fold_left].
    cbn [index_where] in Hi. cbn [forallb] in Hc, Hw.
    apply andb_true_iff in Hc as [Hx Hc]. apply andb_true_iff in Hw as [Hwx Hw].
    destruct (hit x) eqn:Eh.
    - cbn [app] in Hi. injection Hi as Hn Hi. subst k.
      apply fold_after; [exact Hc | apply step_pin; assumption].
    - cbn [app] in Hi. apply IH; [exact Hi | exact Hc | exact Hw | apply step_nohit; assumption].
  Qed.
End Pin.

Theorem rank_pinned (rmatch : string -> string -> option (list string)) (rsrc rrev : string -> string)
        (block_exit : string) (sc : option string) (ordering : list orule) (row : string) (k : nat) :
  pin_of rmatch rsrc rrev block_exit sc ordering row = Some k ->
  exists ch, get_order rmatch rsrc rrev block_exit ordering row false sc = (ZFin (Z.of_nat k), true, ch).
Proof.
  unfold pin_of. intro H.
  destruct (index_where (pin_hit rmatch sc row) ordering 0) as [|k0 [|? ?]] eqn:Ei; try discriminate.
  destruct (nth_error ordering k0) as [rk|]; [|discriminate].
  destruct (_ && _) eqn:C in H; [|discriminate]. injection H as ->.
  apply andb_true_iff in C as [C Hx]. apply andb_true_iff in C as [C Hw]. apply andb_true_iff in C as [_ Hc].
  apply negb_true_iff in Hx.
  pose proof (fold_pin rmatch rsrc rrev block_exit row sc _ Hx ordering 0 (GS FNone 0 false []) k Ei Hc Hw) as P.
  destruct P as (Pd & Po & _); [split; cbn; auto|].
  unfold get_order. rewrite Pd, Po. eexists. reflexivity.
Qed.
