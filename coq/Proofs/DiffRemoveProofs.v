(* C08: make_diff under the removal of one top-level row from BOTH configurations.
   base_diff numbers removed rows by their position in old and the other rows by their
   position in new and merges the two numberings; if the row stands at the same position on
   both sides (within its diff-logic class) every other entry keeps its op, its children and
   its place, so the diff of the smaller pair is the diff of the full pair minus r's entry. *)
From Coq Require Import List String Bool Arith Lia Permutation.
From Annet Require Import Base.Str Base.Tree Model.Rulebook Model.Diff Spec.P_C03 Proofs.DiffBasics
  Proofs.DiffProofsLib Proofs.DiffProofsAnnot Spec.P_C08 Spec.P_C08meta.
Import ListNotations.
Open Scope list_scope.

Definition rowof {X} (k : string * minfo * X) : string := fst (fst k).
Definition miof {X} (k : string * minfo * X) : minfo := snd (fst k).
Definition rm {X} (r : string) (l : list (string * minfo * X)) : list (string * minfo * X) :=
  filter (fun k => negb (String.eqb (fst (fst k)) r)) l.
Definition keep (r : string) (d : dnode) : bool := negb (String.eqb (d_row d) r).

(* ---------- generic list facts ---------- *)
Lemma filter_all {A} (p : A -> bool) (l : list A) : Forall (fun x => p x = true) l -> filter p l = l.
Proof.
  induction 1 as [|x l Hx _ IH]; cbn; [reflexivity|]. rewrite Hx, IH. reflexivity.
Qed.

Lemma filter_none {A} (p : A -> bool) (l : list A) : Forall (fun x => p x = false) l -> filter p l = [].
Proof.
  induction 1 as [|x l Hx _ IH]; cbn; [reflexivity|]. rewrite Hx, IH. reflexivity.
Qed.

Lemma filter_comm {A} (p q : A -> bool) (l : list A) : filter p (filter q l) = filter q (filter p l).
Proof.
  induction l as [|x l IH]; cbn; [reflexivity|].
  destruct (p x) eqn:P, (q x) eqn:Q; cbn; rewrite ?P, ?Q, IH; reflexivity.
Qed.

Lemma filter_flat_map {A B} (p : B -> bool) (g : A -> list B) (l : list A) :
  filter p (flat_map g l) = flat_map (fun x => filter p (g x)) l.
Proof.
  induction l as [|x l IH]; cbn; [reflexivity|]. rewrite filter_app, IH. reflexivity.
Qed.

Lemma flat_map_filter_nil {A B} (p : A -> bool) (g : A -> list B) (l : list A) :
  (forall x, In x l -> p x = false -> g x = []) -> flat_map g (filter p l) = flat_map g l.
Proof.
  induction l as [|x l IH]; intros H; cbn; [reflexivity|].
  destruct (p x) eqn:P; cbn.
  - rewrite IH; [reflexivity|]. intros y Hy. apply H. now right.
  - rewrite (H x (or_introl eq_refl) P), IH; [reflexivity|]. intros y Hy. apply H. now right.
Qed.

Lemma NoDup_rows_filter {X} (p : string * minfo * X -> bool) (l : list (string * minfo * X)) :
  NoDup (map rowof l) -> NoDup (map rowof (filter p l)).
Proof.
  induction l as [|k l IH]; cbn; intros H; [constructor|].
  inversion H as [|x l' Hx Hl]; subst.
  destruct (p k); cbn; [|apply IH; exact Hl].
  constructor; [|apply IH; exact Hl].
  intro Hin. apply Hx. apply in_map_iff in Hin as (k' & E & Hk'). apply filter_In in Hk' as [Hk' _].
  apply in_map_iff. exists k'. auto.
Qed.

Lemma rm_notin {X} r (l : list (string * minfo * X)) : ~ In r (map rowof l) -> rm r l = l.
Proof.
  intros Hn. apply filter_all. apply Forall_forall. intros k Hk.
  apply negb_true_iff. apply String.eqb_neq. intro E. apply Hn. apply in_map_iff. exists k. auto.
Qed.

Lemma rm_split {X} r (l1 l2 : list (string * minfo * X)) x :
  rowof x = r -> ~ In r (map rowof l1) -> ~ In r (map rowof l2) -> rm r (l1 ++ x :: l2) = l1 ++ l2.
Proof.
  intros Ex H1 H2. unfold rm. rewrite filter_app. cbn [filter].
  change (fst (fst x)) with (rowof x). rewrite Ex, String.eqb_refl. cbn [negb].
  fold (rm r l1). fold (rm r l2). rewrite !rm_notin by assumption. reflexivity.
Qed.

(* ---------- afind ---------- *)
Lemma afind_app row (a b : aforest) : forall i,
  afind row (a ++ b) i = match afind row a i with Some x => Some x | None => afind row b (i + List.length a) end.
Proof.
  induction a as [|[[r0 m0] c0] a IH]; intros i; cbn [app afind List.length].
  - f_equal. lia.
  - destruct (String.eqb r0 row); [reflexivity|]. rewrite IH. f_equal.
    replace (S i + List.length a) with (i + S (List.length a)) by lia. reflexivity.
Qed.

Lemma afind_S row (l : aforest) : forall i,
  afind row l (S i) = option_map (fun p => (S (fst p), snd p)) (afind row l i).
Proof.
  induction l as [|[[r0 m0] c0] l IH]; intros i; cbn [afind]; [reflexivity|].
  destruct (String.eqb r0 row); [reflexivity|]. apply IH.
Qed.

Lemma afind_bounds row (l : aforest) : forall i j s, afind row l i = Some (j, s) -> i <= j < i + List.length l.
Proof.
  induction l as [|[[r0 m0] c0] l IH]; intros i j s H; cbn in H; [discriminate|].
  destruct (String.eqb r0 row).
  - injection H as E1 E2. subst. cbn. lia.
  - apply IH in H. cbn. lia.
Qed.

Lemma afind_notin row (l : aforest) i : ~ In row (map rowof l) -> afind row l i = None.
Proof. intros H. apply afind_None. apply alookup_None. exact H. Qed.

(* ---------- removed_rows ---------- *)
Definition bump (p : nat * dnode) : nat * dnode := (S (fst p), snd p).

Lemma rr_S (l : aforest) nr : forall i, removed_rows l nr (S i) = map bump (removed_rows l nr i).
Proof.
  induction l as [|[[r0 m0] c0] l IH]; intros i; cbn [removed_rows]; [reflexivity|].
  destruct (existsb (String.eqb r0) nr); [apply IH|]. cbn [map]. rewrite IH. reflexivity.
Qed.

Lemma rr_app (a b : aforest) nr : forall i,
  removed_rows (a ++ b) nr i = removed_rows a nr i ++ removed_rows b nr (i + List.length a).
Proof.
  induction a as [|[[r0 m0] c0] a IH]; intros i; cbn [app removed_rows List.length].
  - f_equal. lia.
  - replace (i + S (List.length a)) with (S i + List.length a) by lia.
    destruct (existsb (String.eqb r0) nr); rewrite IH; reflexivity.
Qed.

Lemma rr_ext (l : aforest) nr nr' : forall i,
  (forall row, In row (map rowof l) -> existsb (String.eqb row) nr = existsb (String.eqb row) nr') ->
  removed_rows l nr i = removed_rows l nr' i.
Proof.
  induction l as [|[[r0 m0] c0] l IH]; intros i H; cbn [removed_rows]; [reflexivity|].
  rewrite <- (H r0) by (now left).
  rewrite (IH (S i)) by (intros row Hr; apply H; now right). reflexivity.
Qed.

Fixpoint incr_from (i : nat) (R : list (nat * dnode)) : Prop :=
  match R with
  | [] => True
  | p :: R' => i <= fst p /\ incr_from (S (fst p)) R'
  end.

Lemma incr_from_le i i' R : i' <= i -> incr_from i R -> incr_from i' R.
Proof. destruct R as [|p R]; cbn; [auto|]. intros H [H1 H2]. split; [lia|exact H2]. Qed.

Lemma rr_incr (l : aforest) nr : forall i, incr_from i (removed_rows l nr i).
Proof.
  induction l as [|[[r0 m0] c0] l IH]; intros i; cbn [removed_rows]; [exact I|].
  destruct (existsb (String.eqb r0) nr).
  - apply (incr_from_le (S i)); [lia|apply IH].
  - cbn. split; [lia|apply IH].
Qed.

Lemma rr_bounds (l : aforest) nr : forall i,
  Forall (fun p => i <= fst p < i + List.length l) (removed_rows l nr i).
Proof.
  induction l as [|[[r0 m0] c0] l IH]; intros i; cbn [removed_rows List.length]; [constructor|].
  assert (T : Forall (fun p => i <= fst p < i + S (List.length l)) (removed_rows l nr (S i))).
  { eapply Forall_impl; [|apply IH]. cbn. intros p Hp. lia. }
  destruct (existsb (String.eqb r0) nr); [exact T|]. constructor; [cbn; lia|exact T].
Qed.

Lemma rr_rows (Q : string -> minfo -> Prop) (l : aforest) nr : forall i,
  Forall (fun k => Q (rowof k) (miof k)) l ->
  Forall (fun d => Q (d_row d) (d_mi d)) (map snd (removed_rows l nr i)).
Proof.
  induction l as [|[[r0 m0] c0] l IH]; intros i H; cbn [removed_rows]; [constructor|].
  inversion H as [|x l' Hx Hl]; subst.
  destruct (existsb (String.eqb r0) nr); [apply IH; exact Hl|].
  cbn [map snd]. constructor; [exact Hx | apply IH; exact Hl].
Qed.

(* ---------- interleave ---------- *)
Lemma il_bump : forall news R i, interleave news (map bump R) (S i) = interleave news R i.
Proof.
  induction news as [|d ns IH]; intros R i; cbn [interleave].
  - rewrite map_map. apply map_ext. intros p. reflexivity.
  - destruct R as [|[j x] R]; cbn [map bump fst snd].
    + f_equal. apply (IH [] (S i)).
    + change (Nat.eqb (S j) (S i)) with (Nat.eqb j i). destruct (Nat.eqb j i).
      * f_equal. f_equal. apply IH.
      * f_equal. apply (IH ((j, x) :: R) (S i)).
Qed.

Lemma il_app : forall N1 R1 i N' R2,
  incr_from i R1 -> Forall (fun p => fst p < i + List.length N1) R1 ->
  Forall (fun p => i + List.length N1 <= fst p) R2 ->
  interleave (N1 ++ N') (R1 ++ R2) i = interleave N1 R1 i ++ interleave N' R2 (i + List.length N1).
Proof.
  induction N1 as [|d N1 IH]; intros R1 i N' R2 Hinc Hlt Hge.
  - destruct R1 as [|p R1].
    + cbn. f_equal. lia.
    + exfalso. cbn in Hinc. inversion Hlt as [|x l Hx Hl]; subst. cbn in Hx. lia.
  - cbn [app List.length interleave]. cbn [List.length] in Hlt, Hge.
    replace (i + S (List.length N1)) with (S i + List.length N1) in * by lia.
    destruct R1 as [|[j x] R1].
    + cbn [app]. destruct R2 as [|[j2 x2] R2].
      * cbn [app]. f_equal.
        pose proof (IH [] (S i) N' [] I (Forall_nil _) (Forall_nil _)) as E. cbn [app] in E. exact E.
      * assert (E : Nat.eqb j2 i = false).
        { apply Nat.eqb_neq. inversion Hge as [|y l Hy Hl]; subst. cbn in Hy. lia. }
        rewrite E. cbn [app]. f_equal.
        pose proof (IH [] (S i) N' ((j2, x2) :: R2) I (Forall_nil _) Hge) as E2. cbn [app] in E2. exact E2.
    + cbn [app]. cbn in Hinc. destruct Hinc as [Hij Hinc].
      inversion Hlt as [|y l Hy Hl]; subst. cbn in Hy.
      destruct (Nat.eqb_spec j i) as [E|E].
      * subst j. cbn [app]. f_equal. f_equal. apply IH; [exact Hinc| |exact Hge].
        eapply Forall_impl; [|exact Hl]. cbn. intros p Hp. lia.
      * cbn [app]. f_equal.
        apply (IH ((j, x) :: R1) (S i) N' R2); [|constructor; [cbn; lia|]|exact Hge].
        -- cbn. split; [lia|exact Hinc].
        -- eapply Forall_impl; [|exact Hl]. cbn. intros p Hp. lia.
Qed.

Lemma il_Forall (P : dnode -> Prop) : forall news R i,
  Forall P news -> Forall P (map snd R) -> Forall P (interleave news R i).
Proof.
  induction news as [|d ns IH]; intros R i Hn Hr; cbn [interleave]; [exact Hr|].
  inversion Hn as [|y l Hy Hl]; subst.
  destruct R as [|[j x] R].
  - constructor; [exact Hy|]. apply IH; [exact Hl|constructor].
  - cbn in Hr. inversion Hr as [|y2 l2 Hy2 Hl2]; subst.
    destruct (Nat.eqb j i).
    + constructor; [exact Hy|]. constructor; [exact Hy2|]. apply IH; assumption.
    + constructor; [exact Hy|]. apply IH; [exact Hl|]. cbn. constructor; assumption.
Qed.

(* ---------- scan_new ---------- *)
Section Scan.
  Variable pop : op.
  Variable inrw mta : bool.

  Fixpoint scan_dis (old_g : aforest) (l : list ckid) (i : nat) (dis : bool) : bool :=
    match l with
    | [] => dis
    | (row, mi, f) :: l' =>
      match afind row old_g 0 with
      | None => scan_dis old_g l' (S i) true
      | Some (j, _) => if dis || negb (Nat.eqb i j) then scan_dis old_g l' (S i) true
                       else scan_dis old_g l' (S i) false
      end
    end.

  Lemma scan_app old_g : forall a b i dis,
    scan_new old_g pop inrw mta (a ++ b) i dis =
    scan_new old_g pop inrw mta a i dis ++
    scan_new old_g pop inrw mta b (i + List.length a) (scan_dis old_g a i dis).
  Proof.
    induction a as [|[[row mi] f] a IH]; intros b i dis; cbn [app scan_new scan_dis List.length].
    - f_equal. lia.
    - replace (i + S (List.length a)) with (S i + List.length a) by lia.
      destruct (afind row old_g 0) as [[j oldsub]|].
      + destruct (dis || negb (Nat.eqb i j)); cbn [app]; f_equal; apply IH.
      + cbn [app]. f_equal. apply IH.
  Qed.

  Lemma scan_length old_g : forall l i dis, List.length (scan_new old_g pop inrw mta l i dis) = List.length l.
  Proof.
    induction l as [|[[row mi] f] l IH]; intros i dis; cbn [scan_new List.length]; [reflexivity|].
    destruct (afind row old_g 0) as [[j oldsub]|]; [destruct (dis || negb (Nat.eqb i j))|];
      cbn [List.length]; rewrite IH; reflexivity.
  Qed.

  Lemma scan_rows (Q : string -> minfo -> Prop) old_g : forall l i dis,
    Forall (fun k : ckid => Q (rowof k) (miof k)) l ->
    Forall (fun d => Q (d_row d) (d_mi d)) (scan_new old_g pop inrw mta l i dis).
  Proof.
    induction l as [|[[row mi] f] l IH]; intros i dis H; cbn [scan_new]; [constructor|].
    inversion H as [|x l' Hx Hl]; subst. cbn in Hx.
    destruct (afind row old_g 0) as [[j oldsub]|]; [destruct (dis || negb (Nat.eqb i j))|];
      (constructor; [exact Hx | apply IH; exact Hl]).
  Qed.

  (* the two lookups see the same old subtree and agree on "is it at my position" *)
  Definition lk_compat (o1 o2 : aforest) (a b : nat) (row : string) : Prop :=
    match afind row o1 0, afind row o2 0 with
    | None, None => True
    | Some (j1, s1), Some (j2, s2) => s1 = s2 /\ Nat.eqb a j1 = Nat.eqb b j2
    | _, _ => False
    end.

  Lemma scan_ext o1 o2 : forall l i1 i2 dis,
    (forall pos row, nth_error (map rowof l) pos = Some row -> lk_compat o1 o2 (i1 + pos) (i2 + pos) row) ->
    scan_new o1 pop inrw mta l i1 dis = scan_new o2 pop inrw mta l i2 dis /\
    scan_dis o1 l i1 dis = scan_dis o2 l i2 dis.
  Proof.
    induction l as [|[[row mi] f] l IH]; intros i1 i2 dis H; cbn [scan_new scan_dis]; [split; reflexivity|].
    pose proof (H 0 row eq_refl) as H0. unfold lk_compat in H0. rewrite !Nat.add_0_r in H0.
    assert (Ht : forall d, scan_new o1 pop inrw mta l (S i1) d = scan_new o2 pop inrw mta l (S i2) d /\
                           scan_dis o1 l (S i1) d = scan_dis o2 l (S i2) d).
    { intros d. apply IH. intros pos row' Hp.
      replace (S i1 + pos) with (i1 + S pos) by lia. replace (S i2 + pos) with (i2 + S pos) by lia.
      apply H. exact Hp. }
    destruct (afind row o1 0) as [[j1 s1]|], (afind row o2 0) as [[j2 s2]|]; try contradiction.
    - destruct H0 as [Es Eb]. subst s2. rewrite Eb.
      destruct (dis || negb (Nat.eqb i2 j2)).
      + destruct (Ht true) as [A B]. rewrite A, B. split; reflexivity.
      + destruct (Ht false) as [A B]. rewrite A, B. split; reflexivity.
    - destruct (Ht true) as [A B]. rewrite A, B. split; reflexivity.
  Qed.
End Scan.

(* ---------- base_diff with the row at the same position on both sides ---------- *)
Lemma lk_full_vs_rm r (o1 o2 : aforest) xo row :
  rowof xo = r -> row <> r ->
  forall a, (a < List.length o1 -> lk_compat (o1 ++ xo :: o2) (o1 ++ o2) a a row) /\
            (List.length o1 <= a -> lk_compat (o1 ++ xo :: o2) (o1 ++ o2) (S a) a row).
Proof.
  intros Ex Hne a. unfold lk_compat. rewrite !afind_app.
  destruct (afind row o1 0) as [[j s]|] eqn:E1.
  - apply afind_bounds in E1. cbn in E1.
    split; intros Ha; (split; [reflexivity|]).
    + reflexivity.
    + transitivity false; [|symmetry]; apply Nat.eqb_neq; lia.
  - cbn [plus]. destruct xo as [[rx mx] cx]. cbn in Ex. subst rx. cbn [afind].
    assert (En : String.eqb r row = false) by (apply String.eqb_neq; congruence).
    rewrite En, afind_S.
    destruct (afind row o2 (List.length o1)) as [[j s]|] eqn:E2; cbn [option_map fst snd]; [|split; auto].
    apply afind_bounds in E2.
    split; intros Ha; (split; [reflexivity|]).
    + transitivity false; [|symmetry]; apply Nat.eqb_neq; lia.
    + reflexivity.
Qed.

Lemma existsb_rows_rm {X} r row (n1 n2 : list (string * minfo * X)) xn :
  row <> r -> rowof xn = r ->
  existsb (String.eqb row) (map (fun k => fst (fst k)) (n1 ++ xn :: n2)) =
  existsb (String.eqb row) (map (fun k => fst (fst k)) (n1 ++ n2)).
Proof.
  intros Hne Ex. rewrite !map_app, !existsb_app. cbn [map existsb].
  change (fst (fst xn)) with (rowof xn). rewrite Ex.
  assert (En : String.eqb row r = false) by (apply String.eqb_neq; exact Hne).
  rewrite En. reflexivity.
Qed.

Lemma il_head_skip d N R i :
  Forall (fun p : nat * dnode => S i <= fst p) R -> interleave (d :: N) R i = d :: interleave N R (S i).
Proof.
  intros H. cbn [interleave]. destruct R as [|[j x] R]; [reflexivity|].
  inversion H as [|y l Hy Hl]; subst. cbn in Hy.
  assert (E : Nat.eqb j i = false) by (apply Nat.eqb_neq; lia). rewrite E. reflexivity.
Qed.

Definition neq_r (r : string) (row : string) (_ : minfo) : Prop := row <> r.

Lemma neq_keep r (l : list dnode) :
  Forall (fun d => neq_r r (d_row d) (d_mi d)) l -> filter (keep r) l = l.
Proof.
  intros H. apply filter_all. eapply Forall_impl; [|exact H]. cbn. intros d Hd.
  unfold keep. apply negb_true_iff. apply String.eqb_neq. exact Hd.
Qed.

Lemma notin_Forall {X} r (l : list (string * minfo * X)) :
  ~ In r (map rowof l) -> Forall (fun k => neq_r r (rowof k) (miof k)) l.
Proof.
  intros Hn. apply Forall_forall. intros k Hk E. apply Hn. apply in_map_iff. exists k. auto.
Qed.

Lemma base_diff_rm r pop inrw mta (o1 o2 : aforest) xo (n1 n2 : list ckid) xn :
  rowof xo = r -> rowof xn = r -> List.length o1 = List.length n1 ->
  ~ In r (map rowof o1) -> ~ In r (map rowof o2) -> ~ In r (map rowof n1) -> ~ In r (map rowof n2) ->
  base_diff (o1 ++ o2) pop inrw mta (n1 ++ n2) =
  filter (keep r) (base_diff (o1 ++ xo :: o2) pop inrw mta (n1 ++ xn :: n2)).
Proof.
  intros Exo Exn Hlen Ho1 Ho2 Hn1 Hn2.
  set (O := o1 ++ xo :: o2). set (O' := o1 ++ o2).
  unfold base_diff.
  set (nr := map (fun k : string * minfo * (aforest -> op -> bool -> list dnode) => fst (fst k)) (n1 ++ xn :: n2)).
  set (nr' := map (fun k : string * minfo * (aforest -> op -> bool -> list dnode) => fst (fst k)) (n1 ++ n2)).
  (* the scans *)
  assert (C1 : forall pos row, nth_error (map rowof n1) pos = Some row -> lk_compat O O' (0 + pos) (0 + pos) row).
  { intros pos row Hp. cbn [plus].
    assert (Hlt : pos < List.length o1).
    { assert (T : pos < List.length (map rowof n1)) by (apply nth_error_Some; congruence).
      rewrite map_length in T. rewrite Hlen. exact T. }
    assert (Hne : row <> r) by (intro E; subst; apply Hn1; eapply nth_error_In; exact Hp).
    apply (lk_full_vs_rm r o1 o2 xo row Exo Hne pos). exact Hlt. }
  assert (C2 : forall pos row, nth_error (map rowof n2) pos = Some row ->
                               lk_compat O O' (S (List.length o1) + pos) (List.length o1 + pos) row).
  { intros pos row Hp. cbn [plus].
    assert (Hne : row <> r) by (intro E; subst; apply Hn2; eapply nth_error_In; exact Hp).
    apply (lk_full_vs_rm r o1 o2 xo row Exo Hne (List.length o1 + pos)). lia. }
  rewrite !scan_app. cbn [plus].
  destruct (scan_ext pop inrw mta O O' n1 0 0 false C1) as [ES1 ED1].
  rewrite <- ES1, <- ED1.
  set (S1 := scan_new O pop inrw mta n1 0 false).
  set (dis1 := scan_dis O n1 0 false).
  assert (LS1 : List.length S1 = List.length o1) by (unfold S1; rewrite scan_length; congruence).
  rewrite <- Hlen.
  destruct (scan_ext pop inrw mta O O' n2 (S (List.length o1)) (List.length o1) dis1 C2) as [ES2 _].
  rewrite <- ES2.
  set (S2 := scan_new O pop inrw mta n2 (S (List.length o1)) dis1).
  assert (Hx : exists dr, d_row dr = r /\
                 scan_new O pop inrw mta (xn :: n2) (List.length o1) dis1 = dr :: S2).
  { destruct xn as [[rx mx] fx]. cbn in Exn. subst rx. cbn [scan_new].
    destruct xo as [[ro mo] so]. cbn in Exo. subst ro. unfold O.
    rewrite (afind_app_hit o1 r mo so o2 0 Ho1). cbn [plus].
    rewrite Nat.eqb_refl. cbn [negb]. rewrite orb_false_r.
    destruct dis1; eexists; (split; [|reflexivity]); reflexivity. }
  destruct Hx as (dr & Edr & Hx). rewrite Hx.
  (* the removed rows *)
  assert (Rin : existsb (String.eqb (rowof xo)) nr = true).
  { rewrite Exo. apply existsb_eqb_In. unfold nr. rewrite map_app. apply in_or_app. right. left. exact Exn. }
  unfold O, O'. rewrite !rr_app. cbn [plus].
  destruct xo as [[ro mo] so]. cbn [removed_rows]. cbn in Rin. rewrite Rin.
  cbn in Exo. subst ro.
  assert (X1 : removed_rows o1 nr' 0 = removed_rows o1 nr 0).
  { apply rr_ext. intros row Hr. symmetry. apply (existsb_rows_rm r row n1 n2 xn); [|exact Exn].
    intro E. subst. contradiction. }
  assert (X2 : removed_rows o2 nr' (List.length o1) = removed_rows o2 nr (List.length o1)).
  { apply rr_ext. intros row Hr. symmetry. apply (existsb_rows_rm r row n1 n2 xn); [|exact Exn].
    intro E. subst. contradiction. }
  rewrite X1, X2, rr_S.
  set (R1 := removed_rows o1 nr 0). set (R2 := removed_rows o2 nr (List.length o1)).
  assert (I1 : incr_from 0 R1) by apply rr_incr.
  assert (B1 : Forall (fun p => fst p < 0 + List.length S1) R1).
  { eapply Forall_impl; [|apply rr_bounds]. cbn. intros p Hp. lia. }
  assert (B2 : Forall (fun p => 0 + List.length S1 <= fst p) R2).
  { eapply Forall_impl; [|apply rr_bounds]. cbn. intros p Hp. lia. }
  assert (B3 : Forall (fun p => 0 + List.length S1 <= fst p) (map bump R2)).
  { apply Forall_forall. intros p Hp. apply in_map_iff in Hp as (q & Eq & Hq). subst p.
    pose proof (proj1 (Forall_forall _ _) B2 q Hq) as T. cbn in *. lia. }
  rewrite (il_app S1 R1 0 S2 R2 I1 B1 B2).
  rewrite (il_app S1 R1 0 (dr :: S2) (map bump R2) I1 B1 B3).
  cbn [plus]. rewrite LS1.
  rewrite il_head_skip.
  2:{ apply Forall_forall. intros p Hp. apply in_map_iff in Hp as (q & Eq & Hq). subst p.
      pose proof (proj1 (Forall_forall _ _) B2 q Hq) as T. cbn in *. lia. }
  rewrite il_bump.
  rewrite filter_app. cbn [filter]. unfold keep at 2. rewrite Edr, String.eqb_refl. cbn [negb].
  rewrite !neq_keep; [reflexivity| |].
  - apply il_Forall.
    + unfold S2. apply (scan_rows pop inrw mta (neq_r r)). apply notin_Forall. exact Hn2.
    + unfold R2. apply (rr_rows (neq_r r)). apply notin_Forall. exact Ho2.
  - apply il_Forall.
    + unfold S1. apply (scan_rows pop inrw mta (neq_r r)). apply notin_Forall. exact Hn1.
    + unfold R1. apply (rr_rows (neq_r r)). apply notin_Forall. exact Ho1.
Qed.

(* ---------- one diff logic ---------- *)
Definition cls {X} (L : dlogic) (l : list (string * minfo * X)) : list (string * minfo * X) :=
  filter (fun k => dlogic_eqb (mi_dlogic (snd (fst k))) L) l.

Lemma map_filter_swap {A B} (q : B -> bool) (g : A -> B) (l : list A) :
  map g (filter (fun x => q (g x)) l) = filter q (map g l).
Proof. induction l as [|x l IH]; cbn; [reflexivity|]. destruct (q (g x)); cbn; rewrite IH; reflexivity. Qed.

Lemma sg_rm_map {X} r (l : list (string * minfo * X)) : map fst (rm r l) = sg_rm r (map fst l).
Proof. unfold rm, sg_rm. apply (map_filter_swap (fun x : sg => negb (String.eqb (fst x) r)) fst l). Qed.

Lemma sg_class_map {X} L (l : list (string * minfo * X)) : map fst (cls L l) = sg_class L (map fst l).
Proof. unfold cls, sg_class. apply (map_filter_swap (fun x : sg => dlogic_eqb (sg_dl x) L) fst l). Qed.

Lemma sg_dl_map {X} (l : list (string * minfo * X)) :
  map sg_dl (map fst l) = map (fun k => mi_dlogic (snd (fst k))) l.
Proof. rewrite map_map. reflexivity. Qed.

Lemma rm_cls {X} r L (l : list (string * minfo * X)) : cls L (rm r l) = rm r (cls L l).
Proof. unfold cls, rm. apply filter_comm. Qed.

Lemma sg_index_split {X} r (l : list (string * minfo * X)) : forall i k,
  sg_index r (map fst l) i = Some k ->
  exists l1 x l2, l = l1 ++ x :: l2 /\ i + List.length l1 = k /\ rowof x = r /\ ~ In r (map rowof l1).
Proof.
  induction l as [|a l IH]; intros i k H; cbn in H; [discriminate|].
  destruct (String.eqb_spec (fst (fst a)) r) as [E|E].
  - injection H as H. subst k. exists [], a, l. cbn. repeat split; auto; try lia.
  - apply IH in H as (l1 & x & l2 & E1 & E2 & E3 & E4). subst l.
    exists (a :: l1), x, l2. cbn. repeat split; auto; try lia.
    intros [F|F]; [apply E; exact F | apply E4; exact F].
Qed.

Lemma NoDup_split_notin {X} r (l1 l2 : list (string * minfo * X)) x :
  rowof x = r -> NoDup (map rowof (l1 ++ x :: l2)) -> ~ In r (map rowof l2).
Proof.
  intros Ex H. rewrite map_app in H. cbn [map] in H. apply NoDup_remove_2 in H.
  rewrite Ex in H. intro Hin. apply H. apply in_or_app. now right.
Qed.

Lemma aff_to_moved_rows (Q : string -> minfo -> Prop) (d : list dnode) :
  Forall (fun x => Q (d_row x) (d_mi x)) d -> Forall (fun x => Q (d_row x) (d_mi x)) (aff_to_moved d).
Proof.
  unfold aff_to_moved. induction 1 as [|x l Hx _ IH]; cbn [map]; constructor; [|exact IH].
  destruct x as [o row m k]. exact Hx.
Qed.

Lemma base_diff_rows (Q : string -> minfo -> Prop) old_g pop inrw mta (new_g : list ckid) :
  Forall (fun k => Q (rowof k) (miof k)) old_g -> Forall (fun k : ckid => Q (rowof k) (miof k)) new_g ->
  Forall (fun x => Q (d_row x) (d_mi x)) (base_diff old_g pop inrw mta new_g).
Proof.
  intros Ho Hn. unfold base_diff. apply il_Forall; [apply scan_rows; exact Hn | apply rr_rows; exact Ho].
Qed.

Lemma run_dlogic_rows (Q : string -> minfo -> Prop) L old_g (new_g : list ckid) pop inrw :
  Forall (fun k => Q (rowof k) (miof k)) old_g -> Forall (fun k : ckid => Q (rowof k) (miof k)) new_g ->
  Forall (fun x => Q (d_row x) (d_mi x)) (run_dlogic L old_g new_g pop inrw).
Proof.
  intros Ho Hn. destruct L; cbn [run_dlogic]; try (apply base_diff_rows; assumption).
  destruct inrw; [apply base_diff_rows; assumption|].
  destruct (all_affected _); [constructor|]. apply aff_to_moved_rows. apply base_diff_rows; assumption.
Qed.

Lemma Forall_filter {A} (P : A -> Prop) (p : A -> bool) (l : list A) : Forall P l -> Forall P (filter p l).
Proof.
  intros H. apply Forall_forall. intros x Hx. apply filter_In in Hx as [Hx _].
  exact (proj1 (Forall_forall _ _) H x Hx).
Qed.

Lemma diff_level_rows (Q : string -> minfo -> Prop) old (new : list ckid) pop inrw :
  Forall (fun k => Q (rowof k) (miof k)) old -> Forall (fun k : ckid => Q (rowof k) (miof k)) new ->
  Forall (fun x => Q (d_row x) (d_mi x)) (diff_level old new pop inrw).
Proof.
  intros Ho Hn. unfold diff_level. apply Forall_flat_map. apply Forall_forall. intros L _.
  apply run_dlogic_rows; apply Forall_filter; assumption.
Qed.

Lemma run_dlogic_rm r L (cO : aforest) (cN : list ckid) pop inrw k :
  L <> DRewrite -> NoDup (map rowof cO) -> NoDup (map rowof cN) ->
  sg_index r (map fst cO) 0 = Some k -> sg_index r (map fst cN) 0 = Some k ->
  run_dlogic L (rm r cO) (rm r cN) pop inrw = filter (keep r) (run_dlogic L cO cN pop inrw).
Proof.
  intros HL NDo NDn Io In_.
  apply sg_index_split in Io as (o1 & xo & o2 & Eo & Lo & Exo & Ho1).
  apply sg_index_split in In_ as (n1 & xn & n2 & En & Ln & Exn & Hn1).
  subst cO cN. cbn in Lo, Ln.
  pose proof (NoDup_split_notin r o1 o2 xo Exo NDo) as Ho2.
  pose proof (NoDup_split_notin r n1 n2 xn Exn NDn) as Hn2.
  rewrite !rm_split by assumption.
  assert (Hlen : List.length o1 = List.length n1) by congruence.
  destruct L; cbn [run_dlogic]; [| |congruence]; apply base_diff_rm; assumption.
Qed.

Lemma dl_list_eqb_eq a : forall b, dl_list_eqb a b = true -> a = b.
Proof.
  induction a as [|x a IH]; intros [|y b] H; cbn in H; try discriminate; [reflexivity|].
  apply andb_true_iff in H as [H1 H2]. apply dlogic_eqb_eq in H1. subst. f_equal. apply IH. exact H2.
Qed.

Lemma run_dlogic_nil L pop inrw : run_dlogic L [] [] pop inrw = [].
Proof. destruct L, inrw; reflexivity. Qed.

(* ---------- one level ---------- *)
Lemma diff_level_rm r L (old : aforest) (new : list ckid) pop inrw :
  (forall k, In k old -> rowof k = r -> mi_dlogic (miof k) = L) ->
  (forall k, In k new -> rowof k = r -> mi_dlogic (miof k) = L) ->
  L <> DRewrite -> NoDup (map rowof old) -> NoDup (map rowof new) ->
  same_slot r L (map fst old) (map fst new) = true ->
  dl_order_kept r (map fst old) (map fst new) = true ->
  diff_level (rm r old) (rm r new) pop inrw = filter (keep r) (diff_level old new pop inrw).
Proof.
  intros HLo HLn HnR NDo NDn Hslot Hdl.
  unfold diff_level.
  unfold dl_order_kept in Hdl. apply dl_list_eqb_eq in Hdl.
  rewrite <- !sg_rm_map, !sg_dl_map in Hdl.
  change (fun k : string * minfo * (aforest -> op -> bool -> list dnode) => mi_dlogic (snd (fst k)))
    with (fun k : ckid => mi_dlogic (snd (fst k))) in Hdl.
  match type of Hdl with _ = ?X =>
    match goal with |- flat_map ?F ?U = _ => replace U with X by (symmetry; exact Hdl) end end.
  clear Hdl.
  rewrite flat_map_filter_nil.
  2:{ intros L0 _ E. apply not_true_iff_false in E.
      assert (Z1 : filter (fun k => dlogic_eqb (mi_dlogic (snd (fst k))) L0) (rm r old) = []).
      { apply filter_none. apply Forall_forall. intros k Hk.
        destruct (dlogic_eqb (mi_dlogic (snd (fst k))) L0) eqn:D; [|reflexivity].
        apply dlogic_eqb_eq in D. exfalso. apply E.
        apply existsb_dl_In. apply in_or_app. left. apply in_map_iff. exists k. auto. }
      assert (Z2 : filter (fun k : ckid => dlogic_eqb (mi_dlogic (snd (fst k))) L0) (rm r new) = []).
      { apply filter_none. apply Forall_forall. intros k Hk.
        destruct (dlogic_eqb (mi_dlogic (snd (fst k))) L0) eqn:D; [|reflexivity].
        apply dlogic_eqb_eq in D. exfalso. apply E.
        apply existsb_dl_In. apply in_or_app. right. apply in_map_iff. exists k. auto. }
      rewrite Z1, Z2. apply run_dlogic_nil. }
  rewrite filter_flat_map. apply flat_map_ext. intros L0.
  fold (cls L0 (rm r old)). fold (cls L0 old).
  change (filter (fun k : ckid => dlogic_eqb (mi_dlogic (snd (fst k))) L0) (rm r new)) with (cls L0 (rm r new)).
  change (filter (fun k : ckid => dlogic_eqb (mi_dlogic (snd (fst k))) L0) new) with (cls L0 new).
  rewrite !rm_cls.
  destruct (dlogic_eqb L0 L) eqn:D.
  - apply dlogic_eqb_eq in D. subst L0.
    unfold same_slot in Hslot. rewrite <- !sg_class_map in Hslot.
    destruct (sg_index r (map fst (cls L old)) 0) as [k|] eqn:I1; [|discriminate].
    destruct (sg_index r (map fst (cls L new)) 0) as [k'|] eqn:I2; [|discriminate].
    apply Nat.eqb_eq in Hslot. subst k'.
    apply (run_dlogic_rm r L (cls L old) (cls L new) pop inrw k); try assumption;
      apply NoDup_rows_filter; assumption.
  - apply dlogic_eqb_neq in D.
    assert (No : ~ In r (map rowof (cls L0 old))).
    { intro Hin. apply in_map_iff in Hin as (k & Ek & Hk). apply filter_In in Hk as [Hk Dk].
      apply dlogic_eqb_eq in Dk. apply D. rewrite <- Dk. apply HLo; assumption. }
    assert (Nn : ~ In r (map rowof (cls L0 new))).
    { intro Hin. apply in_map_iff in Hin as (k & Ek & Hk). apply filter_In in Hk as [Hk Dk].
      apply dlogic_eqb_eq in Dk. apply D. rewrite <- Dk. apply HLn; assumption. }
    rewrite !rm_notin by assumption. symmetry. apply neq_keep.
    apply (run_dlogic_rows (neq_r r)); apply notin_Forall; assumption.
Qed.

(* ---------- the whole diff ---------- *)
Lemma d_row_mark d : d_row (mark_unchanged_n d) = d_row d.
Proof. destruct d as [o row m k]. cbn. destruct (op_eqb o Affected); reflexivity. Qed.
Lemma d_mi_mark d : d_mi (mark_unchanged_n d) = d_mi d.
Proof. destruct d as [o row m k]. cbn. destruct (op_eqb o Affected); reflexivity. Qed.

Lemma mark_unchanged_filter r d : mark_unchanged (filter (keep r) d) = filter (keep r) (mark_unchanged d).
Proof.
  unfold mark_unchanged. induction d as [|a d IH]; cbn [filter map]; [reflexivity|].
  assert (K : keep r (mark_unchanged_n a) = keep r a) by (unfold keep; rewrite d_row_mark; reflexivity).
  rewrite K. destruct (keep r a); cbn [map]; rewrite IH; reflexivity.
Qed.

Lemma mark_unchanged_rows (Q : string -> minfo -> Prop) d :
  Forall (fun x => Q (d_row x) (d_mi x)) d -> Forall (fun x => Q (d_row x) (d_mi x)) (mark_unchanged d).
Proof.
  unfold mark_unchanged. induction 1 as [|x l Hx _ IH]; cbn [map]; constructor; [|exact IH].
  rewrite d_row_mark, d_mi_mark. exact Hx.
Qed.

Lemma sg_find_None {X} r (l : list (string * minfo * X)) :
  sg_find r (map fst l) = None -> ~ In r (map rowof l).
Proof.
  intros H Hin. apply in_map_iff in Hin as (k & Ek & Hk).
  pose proof (find_none _ _ H (fst k) (in_map fst _ _ Hk)) as F. cbn in F.
  change (fst (fst k)) with (rowof k) in F. rewrite Ek, String.eqb_refl in F. discriminate.
Qed.

Lemma sg_find_Some {X} r (l : list (string * minfo * X)) x :
  sg_find r (map fst l) = Some x -> exists k, In k l /\ fst k = x /\ rowof k = r.
Proof.
  intros H. apply find_some in H as [Hin E]. apply String.eqb_eq in E.
  apply in_map_iff in Hin as (k & Ek & Hk). exists k. subst x. auto.
Qed.

Lemma cks_rm r A : cks (rm r A) = rm r (cks A).
Proof.
  unfold cks, rm. induction A as [|[[row m] c] A IH]; cbn [filter map fst snd]; [reflexivity|].
  unfold arow at 2. cbn [fst].
  destruct (negb (String.eqb row r)); cbn [map]; rewrite IH; reflexivity.
Qed.

Lemma cks_Forall (Q : string -> minfo -> Prop) A :
  Forall (fun k => Q (rowof k) (miof k)) A -> Forall (fun k : ckid => Q (rowof k) (miof k)) (cks A).
Proof.
  unfold cks. induction 1 as [|x l Hx _ IH]; cbn [map]; constructor; [exact Hx|exact IH].
Qed.

Lemma cks_sg A : map fst (cks A) = map fst A.
Proof. unfold cks. rewrite map_map. apply map_ext. intros [[row m] c]. reflexivity. Qed.

Lemma cks_rowof A : map rowof (cks A) = map rowof A.
Proof. unfold cks. rewrite map_map. apply map_ext. intros [[row m] c]. reflexivity. Qed.

Definition own_q (r R : string) (row : string) (mi : minfo) : Prop :=
  String.eqb row r = String.eqb (mi_raw mi) R.

Section Top.
  Variable rmatch : string -> string -> option (list string).

  Lemma annot_f_remove rs r : forall f,
    annot_f rmatch rs (remove_row r f) = rm r (annot_f rmatch rs f).
  Proof.
    induction f as [|[row c] f IH]; [reflexivity|].
    unfold remove_row. cbn [filter fst]. fold (remove_row r f).
    rewrite annot_f_cons.
    destruct (String.eqb_spec row r) as [E|E]; cbn [negb].
    - rewrite IH. destruct (match_row rmatch row rs) as [[mi crs]|]; [|reflexivity].
      unfold rm at 2. cbn [filter fst]. subst row. rewrite String.eqb_refl. reflexivity.
    - rewrite annot_f_cons, IH. destruct (match_row rmatch row rs) as [[mi crs]|]; [|reflexivity].
      unfold rm at 2. cbn [filter fst].
      assert (En : String.eqb row r = false) by (apply String.eqb_neq; exact E). rewrite En. reflexivity.
  Qed.

  Lemma annot_In rs : forall f k, In k (annot_f rmatch rs f) ->
    exists crs, match_row rmatch (rowof k) rs = Some (miof k, crs).
  Proof.
    induction f as [|[row c] f IH]; intros k H; [destruct H|].
    rewrite annot_f_cons in H. destruct (match_row rmatch row rs) as [[mi crs]|] eqn:E.
    - destruct H as [H|H]; [|apply IH; exact H]. subst k. exists crs. exact E.
    - apply IH. exact H.
  Qed.

  Lemma raw_diff_unfold rs old new :
    raw_diff rmatch rs old new =
    diff_level (annot_f rmatch rs old) (cks (annot_f rmatch rs new)) Affected false.
  Proof.
    unfold raw_diff. change (annot rmatch rs (T new)) with (AT (annot_f rmatch rs new)).
    apply diff_t_unfold.
  Qed.

  (* what the guard says, unpacked *)
  Lemma meta_guard_cases rs old new r :
    meta_guard_g rmatch rs old new r = true ->
    let Ao := annot_f rmatch rs old in
    let An := annot_f rmatch rs new in
    (~ In r (map rowof Ao) /\ ~ In r (map rowof An)) \/
    (exists ko kn, In ko Ao /\ rowof ko = r /\ In kn An /\ rowof kn = r /\
       mi_dlogic (miof ko) <> DRewrite /\
       NoDup (map rowof Ao) /\ NoDup (map rowof An) /\
       same_slot r (mi_dlogic (miof ko)) (map fst Ao) (map fst An) = true /\
       own_rule r (mi_raw (miof ko)) (map fst Ao ++ map fst An) = true /\
       dl_order_kept r (map fst Ao) (map fst An) = true).
  Proof.
    intros H. cbv zeta. unfold meta_guard_g, meta_guard_sg, sg_of in H.
    set (Ao := annot_f rmatch rs old) in *. set (An := annot_f rmatch rs new) in *.
    destruct (sg_find r (map fst Ao)) as [x|] eqn:Fo, (sg_find r (map fst An)) as [y|] eqn:Fn;
      try discriminate.
    - right. apply sg_find_Some in Fo as (ko & Hko & Eko & Rko).
      apply sg_find_Some in Fn as (kn & Hkn & Ekn & Rkn).
      exists ko, kn. subst x.
      repeat (apply andb_true_iff in H as [H ?]).
      apply negb_true_iff in H. apply dlogic_eqb_neq in H.
      repeat split; try assumption.
      + apply nodup_rows_NoDup. rewrite map_map in *. assumption.
      + apply nodup_rows_NoDup. rewrite map_map in *. assumption.
    - left. split; apply sg_find_None; assumption.
  Qed.

  Theorem raw_diff_rm rs old new r :
    meta_guard_g rmatch rs old new r = true ->
    raw_diff rmatch rs (remove_row r old) (remove_row r new) =
    filter (keep r) (raw_diff rmatch rs old new).
  Proof.
    intros G. apply meta_guard_cases in G. cbv zeta in G.
    rewrite !raw_diff_unfold, !annot_f_remove.
    set (Ao := annot_f rmatch rs old) in *. set (An := annot_f rmatch rs new) in *.
    destruct G as [[No Nn]|(ko & kn & Hko & Rko & Hkn & Rkn & HnR & NDo & NDn & Hslot & _ & Hdl)].
    - rewrite !rm_notin by assumption. symmetry. apply neq_keep.
      apply (diff_level_rows (neq_r r)); [|apply cks_Forall]; apply notin_Forall; assumption.
    - rewrite cks_rm.
      assert (Hmi : forall k, (In k Ao \/ In k An) -> rowof k = r -> miof k = miof ko).
      { intros k Hk Rk.
        destruct (annot_In rs old ko Hko) as (c1 & M1). rewrite Rko in M1.
        assert (exists c2, match_row rmatch (rowof k) rs = Some (miof k, c2)) as (c2 & M2).
        { destruct Hk as [Hk|Hk]; [apply (annot_In rs old) | apply (annot_In rs new)]; exact Hk. }
        rewrite Rk in M2. congruence. }
      apply (diff_level_rm r (mi_dlogic (miof ko))); try assumption.
      + intros k Hk Rk. rewrite (Hmi k (or_introl Hk) Rk). reflexivity.
      + intros k Hk Rk. unfold cks in Hk. apply in_map_iff in Hk as (k0 & Ek & Hk0). subst k.
        cbn. change (ami k0) with (miof k0). rewrite (Hmi k0 (or_intror Hk0) Rk). reflexivity.
      + rewrite cks_rowof. exact NDn.
      + rewrite cks_sg. exact Hslot.
      + rewrite cks_sg. exact Hdl.
  Qed.

  Theorem make_diff_rm rs old new r :
    meta_guard_g rmatch rs old new r = true ->
    make_diff rmatch rs (remove_row r old) (remove_row r new) =
    filter (keep r) (make_diff rmatch rs old new).
  Proof.
    intros G. unfold make_diff. rewrite (raw_diff_rm rs old new r G). apply mark_unchanged_filter.
  Qed.

  (* r's entry is the only one of the top-level diff that carries r's raw_rule *)
  Theorem make_diff_own_rule rs old new r ko :
    meta_guard_g rmatch rs old new r = true ->
    In ko (annot_f rmatch rs old) -> rowof ko = r ->
    Forall (fun d => own_q r (mi_raw (miof ko)) (d_row d) (d_mi d)) (make_diff rmatch rs old new).
  Proof.
    intros G Hko Rko. apply meta_guard_cases in G. cbv zeta in G.
    set (Ao := annot_f rmatch rs old) in *. set (An := annot_f rmatch rs new) in *.
    destruct G as [[No Nn]|(ko' & kn & Hko' & Rko' & Hkn & Rkn & HnR & NDo & NDn & Hslot & Hown & Hdl)].
    { exfalso. apply No. apply in_map_iff. exists ko. auto. }
    assert (Hmi : forall k, (In k Ao \/ In k An) -> rowof k = r -> miof k = miof ko).
    { intros k Hk Rk.
      destruct (annot_In rs old ko Hko) as (c1 & M1). rewrite Rko in M1.
      assert (exists c2, match_row rmatch (rowof k) rs = Some (miof k, c2)) as (c2 & M2).
      { destruct Hk as [Hk|Hk]; [apply (annot_In rs old) | apply (annot_In rs new)]; exact Hk. }
      rewrite Rk in M2. congruence. }
    rewrite (Hmi ko' (or_introl Hko') Rko') in Hown.
    unfold own_rule in Hown. rewrite forallb_forall in Hown.
    assert (HQ : forall k, (In k Ao \/ In k An) ->
                 String.eqb (rowof k) r = String.eqb (mi_raw (miof k)) (mi_raw (miof ko))).
    { intros k Hk. destruct (String.eqb_spec (rowof k) r) as [E|E].
      - rewrite (Hmi k Hk E), String.eqb_refl. reflexivity.
      - assert (Hin : In (fst k) (map fst Ao ++ map fst An)).
        { apply in_or_app. destruct Hk as [Hk|Hk]; [left|right]; apply in_map; exact Hk. }
        specialize (Hown (fst k) Hin). cbn in Hown.
        change (fst (fst k)) with (rowof k) in Hown. change (snd (fst k)) with (miof k) in Hown.
        apply orb_true_iff in Hown as [T|T].
        + apply String.eqb_eq in T. contradiction.
        + apply negb_true_iff in T. symmetry. exact T. }
    unfold make_diff. apply (mark_unchanged_rows (own_q r (mi_raw (miof ko)))).
    rewrite raw_diff_unfold.
    apply (diff_level_rows (own_q r (mi_raw (miof ko)))).
    - apply Forall_forall. intros k Hk. apply HQ. left. exact Hk.
    - apply (cks_Forall (own_q r (mi_raw (miof ko)))). apply Forall_forall. intros k Hk. apply HQ. right. exact Hk.
  Qed.

  (* the same with r's rule read off the annotated old configuration, as the guard does *)
  Theorem make_diff_own_rule_sg rs old new r x :
    meta_guard_g rmatch rs old new r = true ->
    sg_find r (sg_of (annot_f rmatch rs old)) = Some x ->
    Forall (fun d => own_q r (mi_raw (snd x)) (d_row d) (d_mi d)) (make_diff rmatch rs old new).
  Proof.
    intros G F. unfold sg_of in F. apply sg_find_Some in F as (ko & Hko & Eko & Rko). subst x.
    exact (make_diff_own_rule rs old new r ko G Hko Rko).
  Qed.

  (* a row the rules do not know is dropped by apply_diff_rb on both sides *)
  Theorem make_diff_rm_unknown rs old new r :
    sg_find r (sg_of (annot_f rmatch rs old)) = None ->
    sg_find r (sg_of (annot_f rmatch rs new)) = None ->
    make_diff rmatch rs (remove_row r old) (remove_row r new) = make_diff rmatch rs old new.
  Proof.
    intros Fo Fn. unfold sg_of in Fo, Fn. apply sg_find_None in Fo. apply sg_find_None in Fn.
    unfold make_diff. rewrite !raw_diff_unfold, !annot_f_remove, !rm_notin by assumption. reflexivity.
  Qed.
End Top.
