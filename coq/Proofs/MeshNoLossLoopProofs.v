(* C15, no loss through the keyed merge: every handler call a loop of the executor makes is kept in the
   session the loop returns for the other end of that call -- whatever other calls were merged into it. *)
From Coq Require Import List String Ascii Bool Arith ZArith Lia.
From Annet Require Import Model.Merge Model.Mesh Model.MeshExec Spec.P_C15 Spec.P_C15_iface Spec.P_C15_seq
  Proofs.MergeProofs Proofs.MeshExecProofs Proofs.MeshNoLossProofs.
Import ListNotations.
Open Scope string_scope.
Open Scope list_scope.

(* every attribute of o that is a field of the class is in o' and kept *)
Definition obj_kept (dto : schema) (o o' : entries) : Prop :=
  forall f v m, lookup f o = Some v -> lookup f dto = Some m -> exists w, lookup f o' = Some w /\ kept m v w.

Lemma obj_kept_refl dto o : obj_kept dto o o.
Proof. intros f v m Hv Hm. exists v. split; [exact Hv | apply kept_refl]. Qed.

Lemma obj_kept_trans dto a b c : obj_kept dto a b -> obj_kept dto b c -> obj_kept dto a c.
Proof.
  intros H1 H2 f v m Hv Hm. destruct (H1 f v m Hv Hm) as [w [Hw Hk]].
  destruct (H2 f w m Hw Hm) as [u [Hu Hk2]]. exists u. split; [exact Hu | apply (kept_trans m v w u); assumption].
Qed.

Lemma obj_kept_nil dto o : obj_kept dto [] o.
Proof. intros f v m Hv. discriminate. Qed.

Section Keyed.
  Variable sch_pair dto : schema.
  Variable side : string.
  Hypothesis Hside : lookup side sch_pair = Some (MMerge dto).

  (* merge of two Pair objects: both operands' DTOs of one side are kept *)
  Lemma pair_merge_kept p' p pp :
    merge sch_pair p' p = Ok pp ->
    obj_kept dto (obj_of side p') (obj_of side pp) /\ obj_kept dto (obj_of side p) (obj_of side pp).
  Proof.
    intro H. rewrite merge_is_merge_entries in H.
    pose proof (merge_entries_lookup merge_val (fun f => lookup f sch_pair) p' p pp H side) as L.
    cbn beta in L. rewrite Hside in L. unfold obj_of.
    destruct (lookup side p') as [x|]; destruct (lookup side p) as [y|]; cbn in L.
    - destruct (merge_val (MMerge dto) x y) as [v|e] eqn:E; [|discriminate]. injection L as L. rewrite <- L.
      destruct x as [| | | |fx]; try (destruct y; discriminate).
      destruct y as [| | | |fy]; try discriminate.
      rewrite merge_val_obj in E.
      destruct (merge_entries merge_val (fun f => lookup f dto) fx fy) as [r|e] eqn:E2; [|discriminate].
      injection E as E. subst v.
      rewrite <- merge_is_merge_entries in E2. destruct (merge_no_loss dto fx fy r E2) as [Ha Hb].
      split; [exact Ha | exact Hb].
    - injection L as L. rewrite <- L. split; [apply obj_kept_refl | destruct x; apply obj_kept_nil].
    - injection L as L. rewrite <- L. split; [destruct y; apply obj_kept_nil | apply obj_kept_refl].
    - injection L as L. rewrite <- L. split; apply obj_kept_nil.
  Qed.

  (* upsert: the new pair is kept under a key with the same fqdn; everything that was there is kept *)
  Lemma upsert_kept : forall acc k p acc',
    upsert sch_pair k p acc = Ok acc' ->
    (exists k' pp, In (k', pp) acc' /\ fst (fst k') = fst (fst k) /\ obj_kept dto (obj_of side p) (obj_of side pp)) /\
    (forall k0 p0, In (k0, p0) acc ->
       exists pp, In (k0, pp) acc' /\ obj_kept dto (obj_of side p0) (obj_of side pp)).
  Proof.
    induction acc as [|[k1 p1] rest IH]; intros k p acc' H; cbn [upsert] in H.
    - injection H as H. subst acc'. split.
      + exists k, p. split; [left; reflexivity|]. split; [reflexivity | apply obj_kept_refl].
      + intros k0 p0 [].
    - destruct (key_eqb k k1) eqn:Ek.
      + destruct (merge sch_pair p1 p) as [pp|e] eqn:Em; [|discriminate]. injection H as H. subst acc'.
        destruct (pair_merge_kept p1 p pp Em) as [K1 K2]. split.
        * exists k1, pp. split; [left; reflexivity|]. split; [symmetry; apply key_eqb_fqdn; exact Ek | exact K2].
        * intros k0 p0 [Hin|Hin].
          -- injection Hin as Hk Hp. subst k0 p0. exists pp. split; [left; reflexivity | exact K1].
          -- exists p0. split; [right; exact Hin | apply obj_kept_refl].
      + destruct (upsert sch_pair k p rest) as [rest'|e] eqn:Eu; [|discriminate]. injection H as H. subst acc'.
        destruct (IH k p rest' Eu) as [[k' [pp [Hin [Hf Hk]]]] Hold]. split.
        * exists k', pp. split; [right; exact Hin|]. split; assumption.
        * intros k0 p0 [Hin0|Hin0].
          -- injection Hin0 as Hk0 Hp0. subst k0 p0. exists p1. split; [left; reflexivity | apply obj_kept_refl].
          -- destruct (Hold k0 p0 Hin0) as [pp0 [Hi Hkk]]. exists pp0. split; [right; exact Hi | exact Hkk].
  Qed.
End Keyed.

(* what a loop promises for the calls it has made so far *)
Definition shows (dto : schema) (acc : list (peer_key * entries)) (other : string) (loc con : entries) : Prop :=
  exists k p, In (k, p) acc /\ fst (fst k) = other /\
              obj_kept dto loc (obj_of "local" p) /\ obj_kept dto con (obj_of "connected" p).

Section Loops.
  Variable sch_pair dto : schema.
  Hypothesis Hlocal : lookup "local" sch_pair = Some (MMerge dto).
  Hypothesis Hconn : lookup "connected" sch_pair = Some (MMerge dto).

  Lemma shows_upsert acc k p acc' other loc con :
    upsert sch_pair k p acc = Ok acc' -> shows dto acc other loc con -> shows dto acc' other loc con.
  Proof.
    intros Hu [k0 [p0 [Hin [Hf [Kl Kc]]]]].
    destruct (upsert_kept sch_pair dto "local" Hlocal acc k p acc' Hu) as [_ HoldL].
    destruct (upsert_kept sch_pair dto "connected" Hconn acc k p acc' Hu) as [_ HoldC].
    (* the same entry serves both sides: take it from one call and use determinism of the position *)
    revert Hu Hin. clear HoldL HoldC. revert k p acc'.
    induction acc as [|[k1 p1] rest IH]; intros k p acc' Hu Hin; [destruct Hin|].
    cbn [upsert] in Hu. destruct (key_eqb k k1) eqn:Ek.
    - destruct (merge sch_pair p1 p) as [pp|e] eqn:Em; [|discriminate]. injection Hu as Hu. subst acc'.
      destruct Hin as [Hin|Hin].
      + injection Hin as Hk Hp. subst k0 p0.
        destruct (pair_merge_kept sch_pair dto "local" Hlocal p1 p pp Em) as [L1 _].
        destruct (pair_merge_kept sch_pair dto "connected" Hconn p1 p pp Em) as [C1 _].
        exists k1, pp. split; [left; reflexivity|]. split; [exact Hf|].
        split; [apply (obj_kept_trans dto loc (obj_of "local" p1)) | apply (obj_kept_trans dto con (obj_of "connected" p1))];
          assumption.
      + exists k0, p0. split; [right; exact Hin|]. split; [exact Hf|]. split; assumption.
    - destruct (upsert sch_pair k p rest) as [rest'|e] eqn:Eu; [|discriminate]. injection Hu as Hu. subst acc'.
      destruct Hin as [Hin|Hin].
      + injection Hin as Hk Hp. subst k0 p0. exists k1, p1. split; [left; reflexivity|]. split; [exact Hf|].
        split; assumption.
      + destruct (IH k p rest' Eu Hin) as [k2 [p2 [Hi2 [Hf2 [L2 C2]]]]].
        exists k2, p2. split; [right; exact Hi2|]. split; [exact Hf2|]. split; assumption.
  Qed.

  Lemma shows_new : forall acc k p acc',
    upsert sch_pair k p acc = Ok acc' ->
    shows dto acc' (fst (fst k)) (obj_of "local" p) (obj_of "connected" p).
  Proof.
    induction acc as [|[k1 p1] rest IH]; intros k p acc' Hu; cbn [upsert] in Hu.
    - injection Hu as Hu. subst acc'. exists k, p.
      split; [left; reflexivity|]. split; [reflexivity|]. split; apply obj_kept_refl.
    - destruct (key_eqb k k1) eqn:Ek.
      + destruct (merge sch_pair p1 p) as [pp|e] eqn:Em; [|discriminate]. injection Hu as Hu. subst acc'.
        destruct (pair_merge_kept sch_pair dto "local" Hlocal p1 p pp Em) as [_ L2].
        destruct (pair_merge_kept sch_pair dto "connected" Hconn p1 p pp Em) as [_ C2].
        exists k1, pp. split; [left; reflexivity|]. split; [symmetry; apply key_eqb_fqdn; exact Ek|].
        split; [exact L2 | exact C2].
      + destruct (upsert sch_pair k p rest) as [rest'|e] eqn:Eu; [|discriminate]. injection Hu as Hu. subst acc'.
        destruct (IH k p rest' Eu) as [k2 [p2 [Hi [Hf [L2 C2]]]]].
        exists k2, p2. split; [right; exact Hi|]. split; [exact Hf|]. split; assumption.
  Qed.

  (* ---- _execute_indirect ---- *)
  Section Indirect.
    Variable ihandler : nat -> string -> string -> list string -> entries * entries * entries.

    Lemma step_indirect_no_loss device m acc0 acc1 :
      step_indirect ihandler dto sch_pair device m acc0 = inr acc1 ->
      (forall other loc con, shows dto acc0 other loc con -> shows dto acc1 other loc con) /\
      (forall loc con, execute_direct_pair ihandler dto device (other_end m) m [] = Some (Ok (loc, con)) ->
                       shows dto acc1 (other_end m) loc con).
    Proof.
      unfold step_indirect. fold (other_end m).
      destruct (execute_direct_pair ihandler dto device (other_end m) m []) as [[[l c]|e]|] eqn:E.
      - destruct (lookup "addr" c) as [addr|]; [|discriminate].
        destruct (upsert sch_pair _ _ acc0) as [acc'|e] eqn:Eu; [|discriminate].
        intro H. injection H as H. subst acc'. split.
        + intros other loc con Hs. apply (shows_upsert _ _ _ _ _ _ _ Eu Hs).
        + intros loc con H. injection H as H1 H2. subst l c.
          apply (shows_new _ _ _ _ Eu).
      - discriminate.
      - intro H. injection H as H. subst acc1. split; [intros; assumption | discriminate].
    Qed.

    Lemma fold_indirect_no_loss device : forall ms acc0 acc,
      fold_indirect ihandler dto sch_pair device ms acc0 = inr acc ->
      (forall other loc con, shows dto acc0 other loc con -> shows dto acc other loc con) /\
      (forall m loc con, In m ms ->
         execute_direct_pair ihandler dto device (other_end m) m [] = Some (Ok (loc, con)) ->
         shows dto acc (other_end m) loc con).
    Proof.
      induction ms as [|m rest IH]; intros acc0 acc H; cbn [fold_indirect] in H.
      - injection H as H. subst acc. split; [intros; assumption | intros m loc con []].
      - destruct (step_indirect ihandler dto sch_pair device m acc0) as [e|acc1] eqn:Es; [discriminate|].
        destruct (step_indirect_no_loss device m acc0 acc1 Es) as [S1 S2].
        destruct (IH acc1 acc H) as [I1 I2]. split.
        + intros other loc con Hs. apply I1, S1, Hs.
        + intros m' loc con [Hm|Hm] E.
          * subst m'. apply I1, S2, E.
          * apply (I2 m' loc con Hm E).
    Qed.
  End Indirect.

  (* ---- _execute_direct ---- *)
  Section Direct.
    Variable dhandler : nat -> string -> string -> list string -> entries * entries * entries.

    Lemma step_direct_no_loss device m ports acc0 acc1 :
      step_direct dhandler dto sch_pair device m ports acc0 = inr acc1 ->
      (forall other loc con, shows dto acc0 other loc con -> shows dto acc1 other loc con) /\
      (forall loc con, execute_direct_pair dhandler dto device (other_end m) m ports = Some (Ok (loc, con)) ->
                       shows dto acc1 (other_end m) loc con).
    Proof.
      unfold step_direct. fold (other_end m).
      destruct (execute_direct_pair dhandler dto device (other_end m) m ports) as [[[l c]|e]|] eqn:E.
      - destruct (lookup "addr" c) as [addr|]; [|discriminate].
        destruct (upsert sch_pair _ _ acc0) as [acc'|e] eqn:Eu; [|discriminate].
        intro H. injection H as H. subst acc'. split.
        + intros other loc con Hs. apply (shows_upsert _ _ _ _ _ _ _ Eu Hs).
        + intros loc con H. injection H as H1 H2. subst l c.
          apply (shows_new _ _ _ _ Eu).
      - discriminate.
      - intro H. injection H as H. subst acc1. split; [intros; assumption | discriminate].
    Qed.

    Lemma fold_steps_no_loss device : forall work acc0 acc,
      fold_steps dhandler dto sch_pair device work acc0 = inr acc ->
      (forall other loc con, shows dto acc0 other loc con -> shows dto acc other loc con) /\
      (forall m ports loc con, In (m, ports) work ->
         execute_direct_pair dhandler dto device (other_end m) m ports = Some (Ok (loc, con)) ->
         shows dto acc (other_end m) loc con).
    Proof.
      induction work as [|[m ports] rest IH]; intros acc0 acc H; cbn [fold_steps] in H.
      - injection H as H. subst acc. split; [intros; assumption | intros m ports loc con []].
      - destruct (step_direct dhandler dto sch_pair device m ports acc0) as [e|acc1] eqn:Es; [discriminate|].
        destruct (step_direct_no_loss device m ports acc0 acc1 Es) as [S1 S2].
        destruct (IH acc1 acc H) as [I1 I2]. split.
        + intros other loc con Hs. apply I1, S1, Hs.
        + intros m' ports' loc con [Hm|Hm] E.
          * injection Hm as Hm1 Hm2. subst m' ports'. apply I1, S2, E.
          * apply (I2 m' ports' loc con Hm E).
    Qed.
  End Direct.
End Loops.

(* ---- the two loops of execute_for ---------------------------------------------------------------- *)

Theorem indirect_no_loss :
  forall sch_pair dto,
    lookup "local" sch_pair = Some (MMerge dto) -> lookup "connected" sch_pair = Some (MMerge dto) ->
    forall imatches ihandler rules device all acc m loc con,
      execute_indirect imatches ihandler dto sch_pair rules device all = inr acc ->
      In m (lookup_direct imatches rules device all) ->
      execute_direct_pair ihandler dto device (other_end m) m [] = Some (Ok (loc, con)) ->
      shows dto acc (other_end m) loc con.
Proof.
  intros sch_pair dto Hl Hc imatches ihandler rules device all acc m loc con H Hin E.
  unfold execute_indirect in H.
  destruct (fold_indirect_no_loss sch_pair dto Hl Hc ihandler device _ _ _ H) as [_ I2].
  apply (I2 m loc con Hin E).
Qed.

Theorem direct_no_loss :
  forall sch_pair dto,
    lookup "local" sch_pair = Some (MMerge dto) -> lookup "connected" sch_pair = Some (MMerge dto) ->
    forall dmatches dhandler connections rules device nbs acc m ports loc con,
      execute_direct dmatches dhandler connections dto sch_pair rules device nbs = inr acc ->
      In (m, ports) (direct_work connections device (lookup_direct dmatches rules device nbs)) ->
      execute_direct_pair dhandler dto device (other_end m) m ports = Some (Ok (loc, con)) ->
      shows dto acc (other_end m) loc con.
Proof.
  intros sch_pair dto Hl Hc dmatches dhandler connections rules device nbs acc m ports loc con H Hin E.
  unfold execute_direct in H. fold (direct_work connections device (lookup_direct dmatches rules device nbs)) in H.
  destruct (fold_steps_no_loss sch_pair dto Hl Hc dhandler device _ _ _ H) as [_ I2].
  apply (I2 m ports loc con Hin E).
Qed.
