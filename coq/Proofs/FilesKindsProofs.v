(* C19: generators that do not produce a result contribute nothing; the plan is the argmax over
   the generators that PRODUCED a result, for every listing order. *)
From Coq Require Import List String Ascii Bool Arith ZArith Lia Permutation.
From Annet Require Import Base.Str Model.Files Model.FilesKinds Spec.P_C19 Spec.P_C19K
  Proofs.FilesProofs Proofs.FilesDeployProofs.
Import ListNotations.
Open Scope string_scope.
Open Scope list_scope.

(* ---------------------------------------------------------------- the loop *)

Lemma k_fold_none etck ks : fold_left (k_step etck) ks None = None.
Proof. induction ks as [|k ks IH]; [reflexivity | exact IH]. Qed.

Lemma k_fold_spec etck ks : forall acc,
  fold_left (k_step etck) ks (Some acc) =
  if existsb fails ks then None else Some (fold_left (run_step etck) (produced ks) acc).
Proof.
  induction ks as [|k ks IH]; intro acc; [reflexivity|].
  cbn [fold_left existsb]. unfold produced. cbn [filter].
  unfold k_step at 2. unfold fails at 1, produces at 1.
  destruct (is_empty (g_path (k_gen k))) eqn:Ee.
  - assert (Hp : match k_kind k with KOk => negb true | _ => false end = false)
      by (destruct (k_kind k); reflexivity).
    assert (Hf : match k_kind k with KNone => negb true | _ => false end = false)
      by (destruct (k_kind k); reflexivity).
    rewrite Hp, Hf. cbn [orb]. apply IH.
  - destruct (k_kind k); cbn [negb orb map fold_left].
    + rewrite IH. unfold produced. unfold run_step. rewrite Ee. reflexivity.
    + apply IH.
    + apply IH.
    + apply k_fold_none.
Qed.

Lemma k_run_spec etck ks :
  k_run_file_generators etck ks =
  if existsb fails ks then None else Some (run_file_generators etck (produced ks)).
Proof. unfold k_run_file_generators, run_file_generators. apply k_fold_spec. Qed.

Lemma k_model_spec differ x :
  k_model differ x =
  if existsb fails (ki_gens x) then None else Some (model differ (eff x)).
Proof.
  unfold k_model. rewrite k_run_spec. destruct (existsb fails (ki_gens x)); reflexivity.
Qed.

(* ---------------------------------------------------------------- listing order *)

Lemma filter_perm {A} (f : A -> bool) l l' :
  Permutation l l' -> Permutation (filter f l) (filter f l').
Proof.
  intro HP. induction HP as [|a l l' HP IH|a b l|l l' l'' H1 IH1 H2 IH2].
  - constructor.
  - cbn. destruct (f a); [constructor|]; exact IH.
  - cbn. destruct (f a), (f b); try apply Permutation_refl. constructor.
  - eapply Permutation_trans; eassumption.
Qed.

Lemma produced_perm ks ks' : Permutation ks ks' -> Permutation (produced ks) (produced ks').
Proof. intro HP. unfold produced. apply Permutation_map, filter_perm, HP. Qed.

Lemma existsb_perm {A} (f : A -> bool) l l' : Permutation l l' -> existsb f l = existsb f l'.
Proof.
  intro HP. induction HP as [|a l l' HP IH|a b l|l l' l'' H1 IH1 H2 IH2].
  - reflexivity.
  - cbn. rewrite IH. reflexivity.
  - cbn. destruct (f a), (f b); reflexivity.
  - congruence.
Qed.

Lemma in_produced ks g : In g (produced ks) <-> In (KGen g KOk) ks /\ g_path g <> "".
Proof.
  unfold produced. rewrite in_map_iff. split.
  - intros [k [E Hin]]. apply filter_In in Hin as [Hin Hp]. unfold produces in Hp.
    destruct k as [g' kd]. cbn in *. subst g'. destruct kd; try discriminate.
    split; [exact Hin|]. apply is_empty_false. apply negb_true_iff. exact Hp.
  - intros [Hin Hne]. exists (KGen g KOk). split; [reflexivity|]. apply filter_In. split; [exact Hin|].
    unfold produces. cbn. apply negb_true_iff. apply is_empty_false. exact Hne.
Qed.

(* new_files = argmax over the generators that produced a result *)
Lemma k_argmax etck ks g :
  existsb fails ks = false -> distinct_prios (produced ks) = true ->
  In (KGen g KOk) ks -> g_path g <> "" ->
  (forall h, In (KGen h KOk) ks -> g_path h = g_path g -> (g_prio h <= g_prio g)%Z) ->
  exists res, k_run_file_generators etck ks = Some res /\
    lookup (g_path g) (new_files false res) = Some (g_out g, reload_cmds etck (g_path g) (g_reload g)).
Proof.
  intros Hf Hd Hin Hne Hmax. rewrite k_run_spec, Hf. eexists. split; [reflexivity|].
  apply argmax; try assumption.
  - apply in_produced. split; assumption.
  - intros h Hh Hp. apply in_produced in Hh as [Hh _]. apply Hmax; assumption.
Qed.

Lemma k_argmax_only etck ks res p o r :
  distinct_prios (produced ks) = true ->
  k_run_file_generators etck ks = Some res ->
  lookup p (new_files false res) = Some (o, r) ->
  exists g, In (KGen g KOk) ks /\ g_path g = p /\ p <> "" /\ o = g_out g /\
            r = reload_cmds etck p (g_reload g) /\
            forall h, In (KGen h KOk) ks -> g_path h = p -> (g_prio h <= g_prio g)%Z.
Proof.
  intros Hd Hr Hl. rewrite k_run_spec in Hr. destruct (existsb fails ks); [discriminate|].
  injection Hr as Hr. subst res.
  destruct (argmax_only etck (produced ks) p o r Hd Hl) as [g [Hin [Hp [Hne [Ho [Hrl Hmax]]]]]].
  exists g. apply in_produced in Hin as [Hin _]. repeat split; try assumption.
  intros h Hh Hhp. apply Hmax; [|exact Hhp]. apply in_produced. split; [exact Hh|]. congruence.
Qed.

Lemma k_planned etck safe ks :
  existsb fails ks = false -> distinct_prios (produced ks) = true ->
  exists res, k_run_file_generators etck ks = Some res /\
    nf_eqb (new_files safe res) (planned etck safe (produced ks)) = true.
Proof.
  intros Hf Hd. rewrite k_run_spec, Hf. eexists. split; [reflexivity|].
  apply new_files_planned. exact Hd.
Qed.

Lemma k_perm etck safe ks ks' :
  Permutation ks ks' -> distinct_prios (produced ks) = true ->
  match k_run_file_generators etck ks, k_run_file_generators etck ks' with
  | Some res, Some res' =>
    (forall p, lookup p (new_files safe res) = lookup p (new_files safe res')) /\
    nf_eqb (new_files safe res) (new_files safe res') = true
  | None, None => True
  | _, _ => False
  end.
Proof.
  intros HP Hd. rewrite !k_run_spec. rewrite <- (existsb_perm fails ks ks' HP).
  destruct (existsb fails ks); [exact I|].
  pose proof (produced_perm ks ks' HP) as HPp. split.
  - intro p. apply planned_perm_lookup; assumption.
  - apply planned_perm; assumption.
Qed.

(* a generator that does not produce a result may be removed from (or added to) the listing *)
Lemma k_silent_irrelevant etck ks1 k ks2 :
  produces k = false -> fails k = false ->
  k_run_file_generators etck (ks1 ++ k :: ks2) = k_run_file_generators etck (ks1 ++ ks2).
Proof.
  intros Hp Hf. rewrite !k_run_spec. rewrite !existsb_app. cbn [existsb]. rewrite Hf. cbn [orb].
  unfold produced. rewrite !filter_app. cbn [filter]. rewrite Hp. reflexivity.
Qed.

(* ---------------------------------------------------------------- the whole property *)

Lemma k_holds_exact (differ : differ_t) :
  (forall p o n, differ p o n = [] <-> o = Some n) ->
  (forall p o n, differ p o n <> [""]) ->
  forall x, wf_C19K x = true -> P_C19K x (k_model differ x) = true.
Proof.
  intros H1 H2 x Hwf. rewrite k_model_spec. unfold P_C19K.
  destruct (existsb fails (ki_gens x)) eqn:Ef; [reflexivity|].
  cbn [negb andb]. apply holds_exact; assumption.
Qed.

Lemma k_holds_differ_exact x : wf_C19K x = true -> P_C19K x (k_model differ_exact x) = true.
Proof.
  apply k_holds_exact.
  - intros p o n. rewrite differ_exact_law. unfold deq_exact. apply opt_str_eqb_eq.
  - apply differ_exact_noblank.
Qed.

(* ---------------------------------------------------------------- conservativity *)

Lemma run_skip_empty etck gens : forall acc,
  fold_left (run_step etck) (filter (fun g => negb (is_empty (g_path g))) gens) acc =
  fold_left (run_step etck) gens acc.
Proof.
  induction gens as [|g gens IH]; intro acc; [reflexivity|].
  cbn [filter fold_left]. destruct (is_empty (g_path g)) eqn:Ee; cbn [negb].
  - rewrite IH. f_equal. unfold run_step. rewrite Ee. reflexivity.
  - cbn [fold_left]. apply IH.
Qed.

Lemma produced_all_ok gens :
  produced (all_ok gens) = filter (fun g => negb (is_empty (g_path g))) gens.
Proof.
  unfold produced, all_ok. induction gens as [|g gens IH]; [reflexivity|].
  cbn [map filter]. unfold produces at 1. cbn [k_kind k_gen].
  destruct (negb (is_empty (g_path g))); cbn [map]; rewrite IH; reflexivity.
Qed.

Lemma fails_all_ok gens : existsb fails (all_ok gens) = false.
Proof. induction gens as [|g gens IH]; [reflexivity|]. cbn. exact IH. Qed.

Lemma k_run_all_ok etck gens :
  k_run_file_generators etck (all_ok gens) = Some (run_file_generators etck gens).
Proof.
  rewrite k_run_spec, fails_all_ok, produced_all_ok. unfold run_file_generators.
  rewrite run_skip_empty. reflexivity.
Qed.

Lemma k_model_all_ok differ x : k_model differ (k_of x) = Some (model differ x).
Proof.
  unfold k_model, k_of. cbn [ki_gens ki_etck ki_safe ki_old ki_mode]. rewrite k_run_all_ok. reflexivity.
Qed.
