(* C06, ACL text front end, part 1: the offside parser on rows as a list of inserted paths; the rows
   of a printed structured ACL (harness/aclgen.py acl_text, Model/AclText.v acl_text) and the paths
   they insert; two texts one after the other; blank and comment rows. *)
From Coq Require Import List String Ascii Bool Arith Lia.
From Annet Require Import Base.Str Base.Tree Model.Offside Spec.P_C05 Proofs.OffsideProofs.
From Annet Require Import Model.GenProg Proofs.GenProgProofs.
From Annet Require Import Model.Pattern Model.PatternT Model.Acl Model.AclText Proofs.AclMono.
Import ListNotations.
Open Scope string_scope.
Open Scope list_scope.
Arguments Nat.ltb : simpl never.
Arguments Nat.leb : simpl never.

(* ---------- the reference parser as a list of paths ---------- *)

Fixpoint ref_paths (its : list item) (n : nat) (h : hist) : (nat * string) + list (list string) :=
  match its with
  | [] => inr []
  | Skip :: r => ref_paths r (S n) h
  | Reset :: r => ref_paths r (S n) []
  | Content lvl row :: r =>
    if ref_consistent h lvl then
      let p := ref_path h lvl row in
      match ref_paths r (S n) ((lvl, p) :: h) with
      | inl e => inl e
      | inr ps => inr (p :: ps)
      end
    else inl (n, row)
  end.

Definition result_of_paths (acc : forest) (r : (nat * string) + list (list string)) : result :=
  match r with
  | inl (n, row) => Err n row
  | inr ps => Ok (insall ps acc)
  end.

Lemma ref_items_paths : forall its n h acc,
  ref_items its n h acc = result_of_paths acc (ref_paths its n h).
Proof.
  induction its as [|it its IH]; intros n h acc; [reflexivity|].
  destruct it as [lvl row| |]; cbn [ref_items ref_paths].
  - destruct (ref_consistent h lvl); [|reflexivity].
    rewrite IH. destruct (ref_paths its (S n) _) as [[m r]|ps]; reflexivity.
  - apply IH.
  - apply IH.
Qed.

(* the rows of a text, classified *)
Definition text_items (text : string) : list item := map (classify acl_comments) (split_rows text).

Lemma rb_parse_paths text :
  rb_parse text = result_of_paths [] (ref_paths (text_items text) 1 []).
Proof.
  unfold rb_parse, parse_lines. rewrite (parse_items_ref _ _ _ [] [] Inv_init). apply ref_items_paths.
Qed.

(* ---------- rows: split_rows of joined lines ---------- *)

Definition head_not_ws (s : string) : bool :=
  match s with EmptyString => false | String c _ => negb (is_ws c) end.

(* a line as the printer may emit it (without its indentation): it is its own key *)
Definition line_ok (raw : string) : bool :=
  String.eqb (strip raw) raw && head_not_ws raw && negb (startswith "#" raw) && negb (has_nl raw)
  && negb (cont_line raw).

Lemma head_not_ws_lstrip s : head_not_ws s = true -> lstrip s = s.
Proof. destruct s as [|c s]; [discriminate|]. cbn. intros H. apply negb_true_iff in H. rewrite H. reflexivity. Qed.

Lemma cont_line_spaces c r : cont_line (spaces c ++ r) = cont_line r.
Proof. unfold cont_line. rewrite lstrip_spaces. reflexivity. Qed.

Lemma split_rows_line l rest :
  has_nl l = false -> cont_line rest = false ->
  split_rows (l ++ nl_s ++ rest) = l :: split_rows rest.
Proof.
  intros Hl Hc. induction l as [|a l IH].
  - change ("" ++ nl_s ++ rest)%string with (String nl rest). cbn [split_rows].
    rewrite Ascii.eqb_refl, Hc. reflexivity.
  - cbn [has_nl] in Hl. apply orb_false_iff in Hl as [Ha Hl].
    change (String a l ++ nl_s ++ rest)%string with (String a (l ++ nl_s ++ rest)%string).
    cbn [split_rows]. rewrite Ha. cbn [andb]. rewrite (IH Hl). reflexivity.
Qed.

Lemma split_rows_single l : has_nl l = false -> split_rows l = [l].
Proof.
  induction l as [|a l IH]; intros H; [reflexivity|].
  cbn [has_nl] in H. apply orb_false_iff in H as [Ha Hl].
  cbn [split_rows]. rewrite Ha. cbn [andb]. rewrite (IH Hl). reflexivity.
Qed.

Lemma join_cons x y r : join_with nl_s (x :: y :: r) = (x ++ nl_s ++ join_with nl_s (y :: r))%string.
Proof. reflexivity. Qed.

Lemma prefix_app p : forall s t, String.prefix p s = true -> String.prefix p (s ++ t) = true.
Proof.
  induction p as [|a p IH]; intros s t H; [destruct s; cbn; [destruct t|]; reflexivity|].
  destruct s as [|b s]; [discriminate|]. cbn [String.prefix] in H.
  change (String b s ++ t)%string with (String b (s ++ t)%string). cbn [String.prefix].
  destruct (ascii_dec a b); [|discriminate]. apply IH. exact H.
Qed.

(* a printed line: indentation, then a line that is its own key *)
Definition pline (l : string) : Prop := exists c raw, l = (spaces c ++ raw)%string /\ line_ok raw = true.

Lemma line_ok_parts raw : line_ok raw = true ->
  strip raw = raw /\ head_not_ws raw = true /\ startswith "#" raw = false /\ has_nl raw = false /\ cont_line raw = false.
Proof.
  unfold line_ok. rewrite !andb_true_iff, !negb_true_iff, String.eqb_eq. tauto.
Qed.

Lemma cont_line_ok c raw rest : line_ok raw = true -> cont_line (spaces c ++ raw ++ rest) = false.
Proof.
  intros H. destruct (line_ok_parts _ H) as (_ & Hh & _ & _ & Hc).
  rewrite cont_line_spaces. unfold cont_line in *. rewrite (head_not_ws_lstrip _ Hh) in Hc.
  destruct raw as [|a raw]; [discriminate|].
  change (String a raw ++ rest)%string with (String a (raw ++ rest)%string).
  cbn [lstrip]. cbn in Hh. apply negb_true_iff in Hh. rewrite Hh.
  unfold startswith in *. rewrite prefix1 in *. destruct (ascii_dec "%" a) as [<-|]; [|reflexivity].
  cbn [andb] in *. apply negb_false_iff in Hc. apply negb_false_iff.
  change (String "%" (raw ++ rest)%string) with (String "%" raw ++ rest)%string. apply prefix_app. exact Hc.
Qed.

Lemma pline_no_nl l : pline l -> has_nl l = false.
Proof.
  intros (c & raw & -> & H). rewrite has_nl_spaces. destruct (line_ok_parts _ H) as (_ & _ & _ & Hn & _). exact Hn.
Qed.

Lemma cont_line_join l r : pline l -> cont_line (join_with nl_s (l :: r)) = false.
Proof.
  intros (c & raw & -> & H). destruct r as [|y r].
  - cbn [join_with]. rewrite <- (append_nil_r raw). apply cont_line_ok. exact H.
  - rewrite join_cons, append_assoc. apply cont_line_ok. exact H.
Qed.

(* the rows of a text made of printed lines are the lines *)
Lemma split_rows_join lines :
  Forall pline lines ->
  split_rows (join_with nl_s lines) = match lines with [] => [""] | _ => lines end.
Proof.
  induction lines as [|x r IH]; intros F; [reflexivity|].
  inversion F as [|? ? Hx Hr]; subst. destruct r as [|y r].
  - cbn [join_with]. apply split_rows_single. apply pline_no_nl. exact Hx.
  - rewrite join_cons, split_rows_line.
    + f_equal. apply (IH Hr).
    + apply pline_no_nl. exact Hx.
    + inversion Hr; subst. apply cont_line_join. assumption.
Qed.

Lemma classify_pline c raw : line_ok raw = true -> classify acl_comments (spaces c ++ raw) = Content c raw.
Proof.
  intros H. destruct (line_ok_parts _ H) as (Hs & Hh & Hc & _ & _).
  unfold classify. rewrite strip_spaces, Hs.
  assert (Hs0 : startswith "#" (spaces c ++ raw) = false).
  { destruct c as [|c]; [rewrite spaces_0; exact Hc | reflexivity]. }
  rewrite Hs0, andb_false_r.
  destruct raw as [|a raw]; [discriminate|]. cbn [is_empty orb existsb acl_comments].
  rewrite Hc. cbn [orb]. rewrite parse_indent_spaces.
  cbn in Hh. apply negb_true_iff in Hh. cbn [parse_indent].
  assert (Ha : Ascii.eqb a sp || Ascii.eqb a tab = false).
  { destruct (Ascii.eqb_spec a sp) as [->|]; [discriminate|]. destruct (Ascii.eqb_spec a tab) as [->|]; [discriminate|reflexivity]. }
  rewrite Ha, Nat.add_0_r. reflexivity.
Qed.

(* ---------- structured ACLs in the printer's domain ---------- *)

(* every line is its own key and parses to the fields of its item *)
Fixpoint item_ok (i : aitem) : Prop :=
  match i with
  | AItem raw row ign glob cd prio gens kids =>
    line_ok raw = true /\ parse_line raw = LItem row ign glob cd prio gens /\
    (fix all (l : list aitem) : Prop := match l with [] => True | k :: t => item_ok k /\ all t end) kids
  end.
Definition acl_ok (a : acl) : Prop := forall x, In x a -> item_ok x.

Lemma item_ok_unfold x :
  item_ok x <-> line_ok (ai_raw x) = true /\
                parse_line (ai_raw x) = LItem (ai_row x) (ai_ign x) (ai_glob x) (ai_cdo x) (ai_prio x) (ai_gens x) /\
                acl_ok (ai_kids x).
Proof.
  destruct x as [raw row ign glob cd prio gens kids]. cbn [item_ok ai_raw ai_row ai_ign ai_glob ai_cdo ai_prio ai_gens ai_kids].
  unfold acl_ok. rewrite (all_forall_i item_ok kids). tauto.
Qed.

Lemma acl_ok_cons x a : acl_ok (x :: a) <-> item_ok x /\ acl_ok a.
Proof.
  unfold acl_ok. split.
  - intros H. split; [apply H; now left | intros y Hy; apply H; now right].
  - intros [Hx Ha] y [<-|Hy]; auto.
Qed.

Lemma acl_ok_app a b : acl_ok (a ++ b) <-> acl_ok a /\ acl_ok b.
Proof.
  unfold acl_ok. split.
  - intros H. split; intros y Hy; apply H; apply in_or_app; auto.
  - intros [Ha Hb] y Hy. apply in_app_or in Hy as [?|?]; auto.
Qed.

(* the paths the lines of an item insert below the block path bp *)
Fixpoint ipaths (bp : list string) (i : aitem) : list (list string) :=
  match i with
  | AItem raw _ _ _ _ _ _ kids =>
    (bp ++ [raw]) ::
    (fix go (l : list aitem) : list (list string) :=
       match l with [] => [] | x :: t => ipaths (bp ++ [raw]) x ++ go t end) kids
  end.
Definition apaths (bp : list string) (a : acl) : list (list string) := flat_map (ipaths bp) a.

Lemma ipaths_unfold bp x : ipaths bp x = (bp ++ [ai_raw x]) :: apaths (bp ++ [ai_raw x]) (ai_kids x).
Proof.
  destruct x as [raw row ign glob cd prio gens kids]. reflexivity.
Qed.

Lemma item_lines_unfold lvl x :
  item_lines lvl x = (spaces (4 * lvl) ++ ai_raw x)%string :: acl_lines (S lvl) (ai_kids x).
Proof.
  destruct x as [raw row ign glob cd prio gens kids]. reflexivity.
Qed.

(* what a run of printed lines in column c under block path bp does to the reference parser *)
Definition K_ok (c : nat) (bp : list string) (lines : list string) (ps : list (list string)) : Prop :=
  Forall pline lines /\
  forall h n rest, Ready h c bp ->
    exists new,
      ref_paths (map (classify acl_comments) lines ++ rest) n h
      = match ref_paths rest (n + List.length lines) (new ++ h) with
        | inl e => inl e
        | inr qs => inr (ps ++ qs)
        end
      /\ Ready (new ++ h) c bp
      /\ Forall (fun e : nat * list string => c <= fst e) new.

Lemma Kp_nil c bp : K_ok c bp [] [].
Proof.
  split; [constructor|]. intros h n rest R. exists []. cbn. rewrite Nat.add_0_r.
  split; [destruct (ref_paths rest n h); reflexivity|]. split; [exact R|constructor].
Qed.

Lemma Kp_app c bp l1 l2 ps1 ps2 :
  K_ok c bp l1 ps1 -> K_ok c bp l2 ps2 -> K_ok c bp (l1 ++ l2) (ps1 ++ ps2).
Proof.
  intros (G1 & X1) (G2 & X2). split; [apply Forall_app; auto|].
  intros h n rest R.
  destruct (X1 h n (map (classify acl_comments) l2 ++ rest) R) as (new1 & E1 & R1 & F1).
  destruct (X2 (new1 ++ h) (n + List.length l1) rest R1) as (new2 & E2 & R2 & F2).
  exists (new2 ++ new1). rewrite map_app, <- app_assoc, E1, E2.
  rewrite app_length, <- app_assoc, Nat.add_assoc.
  split; [|split; [exact R2|apply Forall_app; auto]].
  destruct (ref_paths rest _ _); [reflexivity|]. rewrite app_assoc. reflexivity.
Qed.

Lemma Kp_item_acl :
  forall x, (forall lvl bp, item_ok x -> K_ok (4 * lvl) bp (item_lines lvl x) (ipaths bp x)).
Proof.
  apply (aitem_ind2
    (fun x => forall lvl bp, item_ok x -> K_ok (4 * lvl) bp (item_lines lvl x) (ipaths bp x))
    (fun a => forall lvl bp, acl_ok a -> K_ok (4 * lvl) bp (acl_lines lvl a) (apaths bp a))).
  - intros raw row ign glob cd prio gens kids IHk lvl bp Hok.
    set (x := AItem raw row ign glob cd prio gens kids) in *.
    apply item_ok_unfold in Hok as (Hl & _ & Hkids). change (ai_raw x) with raw in Hl. change (ai_kids x) with kids in Hkids.
    rewrite item_lines_unfold, ipaths_unfold. change (ai_raw x) with raw. change (ai_kids x) with kids.
    destruct (IHk (S lvl) (bp ++ [raw]) Hkids) as (Gk & Xk).
    split.
    + constructor; [|exact Gk]. exists (4 * lvl), raw. auto.
    + intros h n rest R. cbn [map app]. rewrite (classify_pline _ _ Hl). cbn [ref_paths].
      destruct R as [Rc Rp]. rewrite Rc, ref_path_parent, Rp.
      assert (Rk : Ready ((4 * lvl, bp ++ [raw]) :: h) (4 * S lvl) (bp ++ [raw])).
      { replace (4 * S lvl) with (4 * lvl + 4) by lia. apply ready_child. lia. }
      destruct (Xk ((4 * lvl, bp ++ [raw]) :: h) (S n) rest Rk) as (new & E & _ & Fk).
      exists (new ++ [(4 * lvl, bp ++ [raw])]). rewrite <- app_assoc. cbn [app].
      rewrite E. cbn [List.length]. rewrite Nat.add_succ_r. cbn [plus].
      split; [|split].
      * destruct (ref_paths rest _ _); reflexivity.
      * apply ready_back; [exact Rp|]. eapply Forall_impl; [|exact Fk]. cbn. intros a Ha. lia.
      * apply Forall_app. split; [|constructor; [cbn; lia|constructor]].
        eapply Forall_impl; [|exact Fk]. cbn. intros a Ha. lia.
  - intros lvl bp _. apply Kp_nil.
  - intros x l IHx IHl lvl bp Hok. apply acl_ok_cons in Hok as [Hx Hl].
    unfold acl_lines, apaths. cbn [flat_map]. apply Kp_app; [apply IHx; exact Hx | apply IHl; exact Hl].
Qed.

Lemma Kp_acl a lvl bp : acl_ok a -> K_ok (4 * lvl) bp (acl_lines lvl a) (apaths bp a).
Proof.
  induction a as [|x a IH]; intros H; [apply Kp_nil|]. apply acl_ok_cons in H as [Hx Ha].
  unfold acl_lines, apaths. cbn [flat_map]. apply Kp_app; [apply Kp_item_acl; exact Hx | apply IH; exact Ha].
Qed.

Lemma ready_init : Ready [] 0 [].
Proof. split; reflexivity. Qed.

(* the printed text of a structured ACL in the printer's domain parses to the tree of its paths *)
Theorem rb_parse_acl_text a : acl_ok a -> rb_parse (acl_text a) = Ok (insall (apaths [] a) []).
Proof.
  intros H. rewrite rb_parse_paths. unfold text_items, acl_text.
  destruct (Kp_acl a 0 [] H) as (G & X). rewrite (split_rows_join _ G).
  destruct (acl_lines 0 a) as [|l r] eqn:El.
  - destruct a as [|x a]; [reflexivity|]. unfold acl_lines in El. cbn [flat_map] in El.
    rewrite item_lines_unfold in El. discriminate.
  - rewrite <- El in *. destruct (X [] 1 [] ready_init) as (new & E & _). rewrite app_nil_r in E.
    rewrite E. cbn [ref_paths]. rewrite app_nil_r. reflexivity.
Qed.
