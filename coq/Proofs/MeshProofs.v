(* Lemmas about the executor model (Model/Mesh.v): both ends of a session see the same handler
   call, so the DTOs are mirrored. *)
From Coq Require Import List String Ascii Bool Arith ZArith.
From Annet Require Import Model.Merge Model.Mesh Spec.P_C15 Proofs.MergeProofs.
Import ListNotations.
Open Scope string_scope.
Open Scope list_scope.

Definition swap (p : string * string) : string * string := (snd p, fst p).

Lemma map_fst_swap : forall l, map fst (map swap l) = map snd l.
Proof. intros l. rewrite map_map. reflexivity. Qed.

Lemma map_snd_swap : forall l, map snd (map swap l) = map fst l.
Proof. intros l. rewrite map_map. reflexivity. Qed.

(* lookup_direct: a rule that matches (A, B) is found from A in direct order and from B in
   reverse order, with the same (left, right) *)
Section Lookup.
  Variable matches : nat -> string -> string -> bool.

  Lemma lookup_direct_spec : forall rules device nbs r o L R,
    In (Matched r o L R) (lookup_direct matches rules device nbs) <->
    In r rules /\ matches (r_id r) L R = true /\
    ((o = true /\ L = device /\ In R nbs) \/ (o = false /\ R = device /\ In L nbs)).
  Proof.
    intros rules device nbs r o L R. unfold lookup_direct. rewrite in_flat_map. split.
    - intros [nb [Hnb H]]. rewrite in_flat_map in H. destruct H as [r' [Hr' H]].
      rewrite in_app_iff in H. destruct H as [H|H].
      + destruct (matches (r_id r') device nb) eqn:E; [|destruct H].
        destruct H as [H|[]]. injection H as H1 H2 H3 H4. subst.
        split; [exact Hr'|]. split; [exact E|]. left. auto.
      + destruct (matches (r_id r') nb device) eqn:E; [|destruct H].
        destruct H as [H|[]]. injection H as H1 H2 H3 H4. subst.
        split; [exact Hr'|]. split; [exact E|]. right. auto.
    - intros [Hr [Hm [[Ho [HL HR]]|[Ho [HR HL]]]]]; subst.
      + exists R. split; [exact HR|]. rewrite in_flat_map. exists r. split; [exact Hr|].
        rewrite in_app_iff. left. rewrite Hm. left. reflexivity.
      + exists L. split; [exact HL|]. rewrite in_flat_map. exists r. split; [exact Hr|].
        rewrite in_app_iff. right. rewrite Hm. left. reflexivity.
  Qed.

  Lemma lookup_direct_mirror : forall rules A B nbsA nbsB r,
    In A nbsB ->
    (In (Matched r true A B) (lookup_direct matches rules A nbsA) ->
     In (Matched r false A B) (lookup_direct matches rules B nbsB)) /\
    (In (Matched r false B A) (lookup_direct matches rules A nbsA) ->
     In (Matched r true B A) (lookup_direct matches rules B nbsB)).
  Proof.
    intros rules A B nbsA nbsB r HA. split; intros H; apply lookup_direct_spec in H;
      destruct H as [Hr [Hm _]]; apply lookup_direct_spec; (split; [exact Hr|]); (split; [exact Hm|]).
    - right. auto.
    - left. auto.
  Qed.
End Lookup.

Section Pair.
  Variable handler : nat -> string -> string -> list string -> entries * entries * entries.
  Variable dto : schema.

  (* The other end runs the same handler call and gets the two DTOs exchanged *)
  Theorem direct_pair_mirror : forall A B r o L R L' R' ports,
    match execute_direct_pair handler dto A B (Matched r o L R) ports,
          execute_direct_pair handler dto B A (Matched r (negb o) L' R') (map swap ports) with
    | None, None => True
    | Some (Ok (loc, con)), Some (Ok (loc', con')) => loc' = con /\ con' = loc
    | Some (Err _), Some (Err _) => True
    | _, _ => False
    end.
  Proof.
    intros A B r o L R L' R' ports. unfold execute_direct_pair. cbn [m_direct m_rule].
    rewrite map_fst_swap, map_snd_swap. destruct o; cbn [negb].
    - destruct (handler (r_id r) A B (map fst ports)) as [[l rr] s].
      rewrite (andb_comm (is_empty l) (is_empty rr)).
      destruct (is_empty rr && is_empty l && is_empty s); [exact I|].
      destruct (merge_all dto [] [rr; s]); destruct (merge_all dto [] [l; s]); auto.
    - destruct (handler (r_id r) B A (map snd ports)) as [[l rr] s].
      rewrite (andb_comm (is_empty l) (is_empty rr)).
      destruct (is_empty rr && is_empty l && is_empty s); [exact I|].
      destruct (merge_all dto [] [rr; s]); destruct (merge_all dto [] [l; s]); auto.
  Qed.

  (* an attribute the handler sets only on the session is the same in both DTOs *)
  Lemma dto_session_attr : forall p s d f,
    merge_all dto [] [p; s] = Ok d -> lookup f p = None ->
    lookup f d = match lookup f dto with Some _ => lookup f s | None => None end.
  Proof.
    intros p s d f H Hp. cbn [merge_all] in H. rewrite merge_is_merge_entries in H.
    destruct (merge_entries merge_val (fun f => lookup f dto) [] p) as [x|e] eqn:E1; [|discriminate].
    rewrite merge_is_merge_entries in H.
    destruct (merge_entries merge_val (fun f => lookup f dto) x s) as [y|e] eqn:E2; [|discriminate].
    injection H as H. subst y.
    pose proof (merge_entries_lookup merge_val _ _ _ _ E1 f) as L1. rewrite Hp in L1. cbn in L1.
    injection L1 as L1.
    pose proof (merge_entries_lookup merge_val _ _ _ _ E2 f) as L2. rewrite <- L1 in L2. cbn in L2.
    destruct (lookup f s); destruct (lookup f dto); cbn in L2; injection L2 as L2; symmetry; exact L2.
  Qed.

  Theorem session_attr_shared : forall l r s loc con f,
    merge_all dto [] [r; s] = Ok con -> merge_all dto [] [l; s] = Ok loc ->
    lookup f l = None -> lookup f r = None ->
    lookup f loc = lookup f con.
  Proof.
    intros l r s loc con f Hc Hl Nl Nr.
    rewrite (dto_session_attr _ _ _ _ Hc Nr), (dto_session_attr _ _ _ _ Hl Nl). reflexivity.
  Qed.
End Pair.

(* C15 mirror, for one handler call on a linked pair (A, B):
   the peer on each side points at the address and the AS number the handler assigned to the
   other side, and every attribute the handler set on the session only (families, vrf,
   group_name, ...) is the same on both sides. *)
Theorem mesh_mirror :
  forall handler dto A B r o L R L' R' ports loc con,
    execute_direct_pair handler dto A B (Matched r o L R) ports = Some (Ok (loc, con)) ->
    execute_direct_pair handler dto B A (Matched r (negb o) L' R') (map swap ports) = Some (Ok (con, loc)) /\
    let pA := to_bgp_peer loc con B in
    let pB := to_bgp_peer con loc A in
    p_addr pA = ip_val (attr "addr" con) /\ p_addr pB = ip_val (attr "addr" loc) /\
    p_remote_as pA = p_local_as pB /\ p_remote_as pB = p_local_as pA /\
    (attr "families" loc = attr "families" con -> p_families pA = p_families pB) /\
    (attr "vrf" loc = attr "vrf" con -> p_vrf_name pA = p_vrf_name pB) /\
    (attr "group_name" loc = attr "group_name" con -> p_group_name pA = p_group_name pB).
Proof.
  intros handler dto A B r o L R L' R' ports loc con H.
  pose proof (direct_pair_mirror handler dto A B r o L R L' R' ports) as M. rewrite H in M.
  split.
  - destruct (execute_direct_pair handler dto B A (Matched r (negb o) L' R') (map swap ports))
      as [[[loc' con']|e]|]; try contradiction. destruct M as [M1 M2]. subst. reflexivity.
  - cbn. repeat split; auto.
Qed.

(* the session-only premise of mesh_mirror, discharged from the handler's output *)
Theorem mesh_session_shared :
  forall handler dto A B r L R ports loc con f,
    execute_direct_pair handler dto A B (Matched r true L R) ports = Some (Ok (loc, con)) ->
    (let '(l, rr, _) := handler (r_id r) A B (map fst ports) in lookup f l = None /\ lookup f rr = None) ->
    attr f loc = attr f con.
Proof.
  intros handler dto A B r L R ports loc con f H Hf. unfold execute_direct_pair in H. cbn [m_direct m_rule] in H.
  destruct (handler (r_id r) A B (map fst ports)) as [[l rr] s]. destruct Hf as [Nl Nr].
  destruct (is_empty rr && is_empty l && is_empty s); [discriminate|].
  destruct (merge_all dto [] [rr; s]) as [n|e] eqn:E1; [|discriminate].
  destruct (merge_all dto [] [l; s]) as [d|e] eqn:E2; [|discriminate].
  injection H as H1 H2. subst. unfold attr. eapply session_attr_shared; eassumption.
Qed.

(* What is not proved (the keyed merge of several handlers groups by the *other* side's
   (addr, vrf), so the grouping on A and on B can differ): kept as a statement. *)
Definition C15_mirror_merged_statement : Prop :=
  forall matches handler connections dto pair_sch rules A B nbsA nbsB accA accB,
    execute_direct matches handler connections dto pair_sch rules A nbsA = inr accA ->
    execute_direct matches handler connections dto pair_sch rules B nbsB = inr accB ->
    forall k pa, In (k, pa) accA -> fst (fst k) = B ->
      exists k' pb, In (k', pb) accB /\ fst (fst k') = A /\
                    lookup "local" pb = lookup "connected" pa /\ lookup "connected" pb = lookup "local" pa.
