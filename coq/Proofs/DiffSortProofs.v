(* resort_diff: every level of the output is a permutation of the input level; where diff_cmp is a weak order
   on the entries of a level, the level is sorted by it and entries it does not distinguish keep their input
   order (stability).  The generic part is the stable insertion sort with order hypotheses restricted to the
   elements of the list (Proofs/SortProofs.v states them for the whole type). *)
From Coq Require Import List String Bool Arith ZArith Lia Permutation Sorted.
From Annet Require Import Base.Str Base.Tree Model.Rulebook Model.Diff Model.Order Model.DiffSort Proofs.SortProofs.
Import ListNotations.
Open Scope list_scope.

Section On.
  Context {A : Type}.
  Variable leb : A -> A -> bool.
  Definition tot_on (l : list A) := forall a b, In a l -> In b l -> leb a b = true \/ leb b a = true.
  Definition trans_on (l : list A) :=
    forall a b c, In a l -> In b l -> In c l -> leb a b = true -> leb b c = true -> leb a c = true.
  Definition le_on (a b : A) : Prop := leb a b = true.
  Definition eqv_on (a b : A) : bool := leb a b && leb b a.

  Lemma insert_in x a l : In x (insert_by leb a l) <-> In x (a :: l).
  Proof.
    split; intro H.
    - apply (Permutation_in x (insert_perm leb a l)). exact H.
    - apply (Permutation_in x (Permutation_sym (insert_perm leb a l))). exact H.
  Qed.

  Lemma insert_sorted_on a l : tot_on (a :: l) -> trans_on (a :: l) ->
    StronglySorted le_on l -> StronglySorted le_on (insert_by leb a l).
  Proof.
    intros Ht Hr. induction l as [|y t IH]; intros Hs; cbn [insert_by].
    - constructor; constructor.
    - inversion Hs as [|? ? Hst Hall]; subst.
      destruct (leb a y) eqn:E.
      + constructor; [exact Hs|]. constructor; [exact E|].
        rewrite Forall_forall in *. intros z Hz. apply (Hr a y z); cbn; auto. apply Hall. exact Hz.
      + assert (Eya : leb y a = true).
        { destruct (Ht a y) as [H|H]; cbn; auto. congruence. }
        constructor.
        * apply IH; [| |exact Hst].
          -- intros p q Hp Hq. apply Ht; cbn in *; tauto.
          -- intros p q r Hp Hq Hr'. apply Hr; cbn in *; tauto.
        * rewrite Forall_forall in *. intros z Hz. apply insert_in in Hz. destruct Hz as [Hz|Hz].
          -- subst z. exact Eya.
          -- apply Hall. exact Hz.
  Qed.

  Lemma tot_on_perm l l' : (forall x, In x l' -> In x l) -> tot_on l -> tot_on l'.
  Proof. intros H Ht a b Ha Hb. apply Ht; apply H; assumption. Qed.
  Lemma trans_on_perm l l' : (forall x, In x l' -> In x l) -> trans_on l -> trans_on l'.
  Proof. intros H Ht a b c Ha Hb Hc. apply Ht; apply H; assumption. Qed.

  Theorem sort_sorted_on l : tot_on l -> trans_on l -> StronglySorted le_on (stable_sort leb l).
  Proof.
    induction l as [|a l IH]; intros Ht Hr.
    - constructor.
    - rewrite stable_sort_cons. apply insert_sorted_on.
      + apply (tot_on_perm (a :: l)); [|exact Ht]. intros x [Hx|Hx]; [left; exact Hx | right; apply (sort_in leb x l); exact Hx].
      + apply (trans_on_perm (a :: l)); [|exact Hr]. intros x [Hx|Hx]; [left; exact Hx | right; apply (sort_in leb x l); exact Hx].
      + apply IH.
        * apply (tot_on_perm (a :: l)); [|exact Ht]. intros x Hx. right. exact Hx.
        * apply (trans_on_perm (a :: l)); [|exact Hr]. intros x Hx. right. exact Hx.
  Qed.

  Lemma insert_filter_eqv x a l : tot_on (x :: a :: l) -> trans_on (x :: a :: l) ->
    filter (eqv_on x) (insert_by leb a l) = filter (eqv_on x) (a :: l).
  Proof.
    intros Ht Hr. induction l as [|y t IH]; cbn [insert_by]; [reflexivity|].
    destruct (leb a y) eqn:E; [reflexivity|].
    assert (IH' : filter (eqv_on x) (insert_by leb a t) = filter (eqv_on x) (a :: t)).
    { apply IH.
      - intros p q Hp Hq. apply Ht; cbn in *; tauto.
      - intros p q r Hp Hq Hr'. apply Hr; cbn in *; tauto. }
    cbn [filter] in *. rewrite IH'.
    destruct (eqv_on x y) eqn:Ey, (eqv_on x a) eqn:Ea; try reflexivity.
    exfalso. unfold eqv_on in Ey, Ea. apply andb_true_iff in Ey as [Ey1 Ey2]. apply andb_true_iff in Ea as [Ea1 Ea2].
    assert (leb a y = true) by (apply (Hr a x y); cbn; auto). congruence.
  Qed.

  Theorem sort_stable_on x l : In x l -> tot_on l -> trans_on l ->
    filter (eqv_on x) (stable_sort leb l) = filter (eqv_on x) l.
  Proof.
    intros Hx Ht Hr. assert (G : forall l', (forall z, In z l' -> In z l) ->
                                  filter (eqv_on x) (stable_sort leb l') = filter (eqv_on x) l').
    { induction l' as [|a l' IH]; intros Hsub; [reflexivity|].
      rewrite stable_sort_cons, insert_filter_eqv.
      - cbn [filter]. rewrite IH; [reflexivity|]. intros z Hz. apply Hsub. right. exact Hz.
      - apply (tot_on_perm l); [|exact Ht]. intros z [Hz|[Hz|Hz]]; subst; auto.
        + apply Hsub. left. reflexivity.
        + apply Hsub. right. apply (sort_in leb z l'). exact Hz.
      - apply (trans_on_perm l); [|exact Hr]. intros z [Hz|[Hz|Hz]]; subst; auto.
        + apply Hsub. left. reflexivity.
        + apply Hsub. right. apply (sort_in leb z l'). exact Hz. }
    apply G. auto.
  Qed.
End On.

(* ---------- the boolean guard ---------- *)
Lemma wo_on_spec l : wo_on l = true -> tot_on cmp_leb l /\ trans_on cmp_leb l.
Proof.
  unfold wo_on. rewrite andb_true_iff. intros [H1 H2]. split.
  - intros a b Ha Hb. rewrite forallb_forall in H1. specialize (H1 a Ha). rewrite forallb_forall in H1.
    specialize (H1 b Hb). apply orb_true_iff in H1. exact H1.
  - intros a b c Ha Hb Hc E1 E2. rewrite forallb_forall in H2. specialize (H2 a Ha). rewrite forallb_forall in H2.
    specialize (H2 b Hb). rewrite forallb_forall in H2. specialize (H2 c Hc).
    rewrite E1, E2 in H2. cbn in H2. exact H2.
Qed.

Lemma resort_n_op d : d_op (resort_n d) = d_op d. Proof. destruct d; reflexivity. Qed.
Lemma resort_n_row d : d_row (resort_n d) = d_row d. Proof. destruct d; reflexivity. Qed.
Lemma diff_cmp_resort a b : diff_cmp (resort_n a) (resort_n b) = diff_cmp a b.
Proof. unfold diff_cmp. rewrite !resort_n_op, !resort_n_row. reflexivity. Qed.
Lemma cmp_leb_resort a b : cmp_leb (resort_n a) (resort_n b) = cmp_leb a b.
Proof. unfold cmp_leb. rewrite diff_cmp_resort. reflexivity. Qed.

Lemma tot_on_map l : tot_on cmp_leb l -> tot_on cmp_leb (map resort_n l).
Proof.
  intros H a b Ha Hb. apply in_map_iff in Ha as (a0 & Ea & Ha). apply in_map_iff in Hb as (b0 & Eb & Hb). subst.
  rewrite !cmp_leb_resort. apply H; assumption.
Qed.
Lemma trans_on_map l : trans_on cmp_leb l -> trans_on cmp_leb (map resort_n l).
Proof.
  intros H a b c Ha Hb Hc. apply in_map_iff in Ha as (a0 & Ea & Ha). apply in_map_iff in Hb as (b0 & Eb & Hb).
  apply in_map_iff in Hc as (c0 & Ec & Hc). subst. rewrite !cmp_leb_resort. apply H; assumption.
Qed.

(* every level of resort_diff's output is a permutation of the (recursively resorted) input level *)
Theorem resort_perm d : Permutation (resort d) (map resort_n d).
Proof. apply sort_perm. Qed.
Theorem resort_n_kids o r m k : resort_n (DN o r m k) = DN o r m (resort k).
Proof. reflexivity. Qed.

(* where diff_cmp is a weak order on the entries of the level: sorted by it, and stable *)
Theorem resort_sorted_stable d : wo_on d = true ->
  StronglySorted (le_on cmp_leb) (resort d) /\
  (forall x, In x d -> filter (eqv_on cmp_leb (resort_n x)) (resort d) = filter (eqv_on cmp_leb (resort_n x)) (map resort_n d)).
Proof.
  intros H. apply wo_on_spec in H as [Ht Hr]. split.
  - apply sort_sorted_on; [apply tot_on_map | apply trans_on_map]; assumption.
  - intros x Hx. apply sort_stable_on; [apply in_map; exact Hx | apply tot_on_map | apply trans_on_map]; assumption.
Qed.

(* in particular: entries of one op whose rows differ are never reordered among themselves -- a level with a
   single op is left as it is *)
Lemma cmp_same_op a b : d_op a = d_op b -> diff_cmp a b = 0%Z.
Proof.
  intros E. unfold diff_cmp. rewrite E, Z.sub_diag. destruct (String.eqb (d_row a) (d_row b)); reflexivity.
Qed.

Theorem resort_one_op o d : Forall (fun x => d_op x = o) d -> resort d = map resort_n d.
Proof.
  intros H. unfold resort. apply sort_sorted_id.
  assert (G : forall l, Forall (fun x => d_op x = o) l -> StronglySorted (fun a b => cmp_leb a b = true) (map resort_n l)).
  { induction l as [|a l IH]; intros Hl; [constructor|]. inversion Hl; subst. cbn [map]. constructor; [apply IH; assumption|].
    apply Forall_forall. intros y Hy. apply in_map_iff in Hy as (y0 & Ey & Hy). subst y.
    rewrite cmp_leb_resort. unfold cmp_leb. rewrite cmp_same_op; [reflexivity|].
    rewrite Forall_forall in H3. rewrite (H3 _ Hy). reflexivity. }
  apply G. exact H.
Qed.
