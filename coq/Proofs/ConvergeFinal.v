(* C01, layer 10: the property predicate P_C01 holds of the model pipeline, along any chain. *)
From Coq Require Import List String Bool Arith ZArith Lia Permutation.
From Annet Require Import Base.Str Base.Tree Model.Pattern Model.Rulebook Model.Diff Model.Order Model.Patch
     Model.Blocks Model.Pipeline Model.Device Spec.P_C03 Spec.P_C01
     Proofs.DiffBasics Proofs.ConvergeDevice Proofs.ConvergeRun Proofs.ConvergeBlocks Proofs.ConvergeSim
     Proofs.ConvergeExpected Proofs.ConvergeOrder
     Proofs.ConvergeMain Proofs.ConvergeTop Proofs.ConvergeWf Proofs.ConvergeExpWf
     Proofs.ConvergeSecond Proofs.ConvergeNoErr.
Import ListNotations.
Open Scope string_scope.
Open Scope list_scope.

Definition wf_strict (v : vendor) (rs : rset) (old new : forest) : bool := wf_step_with allow_strict v rs old new.

Lemma cmd_paths_nil fam : cmd_paths fam (PT []) = [].
Proof. destruct fam; try reflexivity. cbn. destruct nokia; reflexivity. Qed.

Lemma wf_strict_sok v rs old new : wf_strict v rs old new = true -> sok pm rs (merge old new).
Proof.
  unfold wf_strict, wf_step_with. intro H. apply andb_true_iff in H as [_ H].
  apply (univ_ok_sok pm (prreverse v) (v_is_exit v)). exact H.
Qed.

(* in the domain the model patch is always computed *)
Theorem model_no_error v rs ordering old new : wf_A v rs old new = true ->
  exists pt, snd (diff_and_patch v rs ordering old new) = POk pt.
Proof.
  intro Hw. destruct (wf_A_props v rs old new Hw) as (HU & Hgo & Hgn).
  unfold diff_and_patch. cbn [snd]. unfold p_make_patch, p_make_diff.
  rewrite (make_diff_ldiff pm).
  apply (no_error pm psrc (prev v) (v_exit v) (prreverse v) (v_is_exit v) (S (fsize old + fsize new)) rs (merge old new));
    auto. left. reflexivity.
Qed.

(* after the deployment: second diff empty, second patch without commands (no declining logic) *)
Theorem second_run_model v rs ordering old new :
  wf_C01 v rs ordering old new = true -> wf_strict v rs old new = true ->
  exists pt, snd (diff_and_patch v rs ordering old new) = POk pt /\
    let dev := p_exec v rs (cmd_paths (v_family v) pt) old in
    fst (diff_and_patch v rs ordering dev new) = [] /\ model_paths v rs ordering dev new = Some [] /\
    sim_b dev dev = true.
Proof.
  intros Hw Hs. destruct (converge_model v rs ordering old new Hw) as (pt & Hp & Hsim & _ & Hgood).
  exists pt. split; [exact Hp|]. cbv zeta. set (dev := p_exec v rs (cmd_paths (v_family v) pt) old) in *.
  unfold wf_C01 in Hw. apply andb_true_iff in Hw as [Hw _]. apply andb_true_iff in Hw as [_ Hw].
  destruct (wf_A_props v rs old new Hw) as (HU & Hgo & Hgn).
  destruct (second_run_empty pm (prreverse v) (v_is_exit v) psrc (prev v) (v_exit v) rs (merge old new) old new dev
              HU (wf_strict_sok v rs old new Hs) Hgo Hgn Hgood Hsim) as (Hd & Hpatch).
  split; [exact Hd|]. split.
  - unfold model_paths, model_patch, diff_and_patch. cbn [snd]. unfold p_make_patch, p_make_diff.
    rewrite Hpatch. cbn [option_map]. rewrite cmd_paths_nil. reflexivity.
  - apply sim_sim_b; [apply (good_wf pm rs _ _ Hgood) | apply (good_wf pm rs _ _ Hgood) | apply sim_refl].
Qed.

(* the guard of the literal property: Tier A with default / undo_redo logics only *)
Definition guard_literal (v : vendor) (rs : rset) (old new : forest) : bool :=
  block_family (v_family v) && wf_A v rs old new && wf_strict v rs old new.

Lemma expected_full_target v rs ordering old new : wf_C01 v rs ordering old new = true -> wf_strict v rs old new = true ->
  sim_b (p_known rs (p_expected rs old new)) (p_known rs new) = true.
Proof.
  intros Hw Hs. unfold wf_C01 in Hw. apply andb_true_iff in Hw as [Hw _]. apply andb_true_iff in Hw as [_ Hw].
  destruct (wf_A_props v rs old new Hw) as (HU & Hgo & Hgn).
  apply sim_sim_b.
  - unfold p_known, known. apply erase_wf. apply (expected_wf pm old rs (merge old new) new Hgo Hgn).
  - unfold p_known, known. apply erase_wf. apply (good_wf pm rs _ _ Hgn).
  - apply (strict_known pm (prreverse v) (v_is_exit v) old rs (merge old new) new HU (wf_strict_sok v rs old new Hs) Hgo Hgn).
Qed.

Theorem P_step_model v rs ordering old new :
  wf_C01 v rs ordering old new = true -> wf_strict v rs old new = true ->
  P_C01_step v rs old new (model_obs v rs ordering old new) = true.
Proof.
  intros Hw Hs. destruct (converge_model v rs ordering old new Hw) as (pt & Hp & _ & Hsb & _).
  destruct (second_run_model v rs ordering old new Hw Hs) as (pt' & Hp' & Hd & Hp2 & Hrefl).
  rewrite Hp in Hp'. injection Hp' as <-.
  unfold P_C01_step, model_obs, model_patch. rewrite Hp. unfold step_eval. cbn [o_patch o_paths o_paths2 o_diff2 fst].
  unfold clauses_ok. cbn [cl_no_error cl_reaches cl_second_noop cl_second_empty cl_diff_empty].
  cbv zeta in Hd, Hp2, Hrefl. rewrite Hsb, Hp2, Hd. cbn [p_exec exec fold_left]. 
  change (exec pm (prreverse v) (v_is_exit v) rs [] ?d) with d.
  rewrite Hrefl. cbn [is_nil andb]. rewrite !orb_true_r. reflexivity.
Qed.

(* THE chain theorem: for every vendor, rulebook, ordering rulebook, initial configuration and every
   finite sequence new_1 .. new_k, P_C01 holds of the model along the chain (at every step that is
   inside the literal domain for the device state actually reached). *)
Theorem P_chain_model v rs ordering : forall news old,
  P_C01_chain guard_literal v rs old (model_chain v rs ordering old news) = true.
Proof.
  induction news as [|new rest IH]; intro old; [reflexivity|].
  cbn [model_chain]. unfold P_C01_chain. cbn [chain_eval].
  set (o := model_obs v rs ordering old new).
  destruct (step_eval v rs old new o) as [cl dev'] eqn:Es.
  cbn [forallb fst snd].
  destruct (guard_literal v rs old new && obs_order_ok v rs o) eqn:Eg; cbn [negb orb andb].
  - apply andb_true_iff in Eg as [Eg Eo]. unfold guard_literal in Eg.
    apply andb_true_iff in Eg as [Eg Hs]. apply andb_true_iff in Eg as [Hf Hw].
    destruct (model_no_error v rs ordering old new Hw) as (pt & Hp).
    assert (HwC : wf_C01 v rs ordering old new = true).
    { unfold wf_C01, order_ok. rewrite Hf, Hw, Hp. cbn [andb].
      unfold obs_order_ok, o, model_obs, model_patch in Eo. rewrite Hp in Eo. cbn [o_patch] in Eo.
      apply orb_true_iff. left. exact Eo. }
    pose proof (P_step_model v rs ordering old new HwC Hs) as HP. unfold P_C01_step in HP. fold o in HP.
    rewrite Es in HP. cbn [fst] in HP. rewrite HP. cbn [andb].
    assert (Hne : cl_no_error cl = true) by (unfold clauses_ok in HP; repeat (apply andb_true_iff in HP as [HP _]); exact HP).
    rewrite Hne.
    assert (Hdev : dev' = p_exec v rs (o_paths o) old /\ o_patch o = Some pt).
    { unfold o, model_obs, model_patch in *. rewrite Hp in *. unfold step_eval in Es. cbn [o_patch o_paths] in *.
      injection Es as _ <-. auto. }
    destruct Hdev as [-> Hop]. rewrite Hop. apply IH.
  - destruct (guard_literal v rs old new && obs_order_ok v rs o && cl_no_error cl); reflexivity.
Qed.

(* ---------- corollaries ---------- *)

(* literal convergence at every depth: the known rows of the state reached are those of new, and
   the rows of old no rule knows are still there *)
Theorem literal_model v rs ordering old new :
  wf_C01 v rs ordering old new = true -> wf_strict v rs old new = true ->
  exists pt, snd (diff_and_patch v rs ordering old new) = POk pt /\
    let dev := p_exec v rs (cmd_paths (v_family v) pt) old in
    sim (p_known rs dev) (p_known rs new) /\ sim_b (p_known rs dev) (p_known rs new) = true.
Proof.
  intros Hw Hs. destruct (converge_model v rs ordering old new Hw) as (pt & Hp & Hsim & _ & Hgood).
  exists pt. split; [exact Hp|]. cbv zeta. set (dev := p_exec v rs (cmd_paths (v_family v) pt) old) in *.
  pose proof Hw as Hw0. unfold wf_C01 in Hw. apply andb_true_iff in Hw as [Hw _]. apply andb_true_iff in Hw as [_ Hw].
  destruct (wf_A_props v rs old new Hw) as (HU & Hgo & Hgn).
  assert (Hk : sim (p_known rs dev) (p_known rs new)).
  { apply (sim_trans _ (p_known rs (p_expected rs old new))).
    - unfold p_known, known. apply erase_wf. apply (expected_wf pm old rs (merge old new) new Hgo Hgn).
    - apply known_sim. exact Hsim.
    - apply (strict_known pm (prreverse v) (v_is_exit v) old rs (merge old new) new HU (wf_strict_sok v rs old new Hs) Hgo Hgn). }
  split; [exact Hk|]. apply sim_sim_b; [| |exact Hk]; unfold p_known, known; apply erase_wf;
    [apply (good_wf pm rs _ _ Hgood) | apply (good_wf pm rs _ _ Hgn)].
Qed.

(* rows no rule knows are never touched (general domain, any logic) *)
Theorem unknown_untouched v rs ordering old new :
  wf_C01 v rs ordering old new = true ->
  exists pt, snd (diff_and_patch v rs ordering old new) = POk pt /\
    forall r t, In (r, t) old -> slot_of pm rs r = None ->
      exists t', In (r, t') (p_exec v rs (cmd_paths (v_family v) pt) old) /\ sim (kids t) (kids t').
Proof.
  intro Hw. destruct (converge_model v rs ordering old new Hw) as (pt & Hp & Hsim & _ & _).
  exists pt. split; [exact Hp|]. intros r t Hin Hs.
  unfold wf_C01 in Hw. apply andb_true_iff in Hw as [Hw _]. apply andb_true_iff in Hw as [_ Hw].
  destruct (wf_A_props v rs old new Hw) as (HU & Hgo & Hgn).
  destruct (good_inv pm rs _ _ Hgn) as (_ & Hun & _).
  assert (HinE : In (r, t) (p_expected rs old new)).
  { assert (Hu : In (r, t) (unk pm rs (p_expected rs old new))).
    { unfold p_expected, expected. rewrite (expected_unk pm rs new old). apply unk_in. split; [exact Hin|].
      unfold ekey. cbn [fst]. rewrite Hs. reflexivity. }
    apply unk_in in Hu. tauto. }
  apply sim_inv in Hsim as [_ H2]. destruct (H2 r t HinE) as (t' & Hin' & Hs'). exists t'. split; [exact Hin'|].
  apply sim_sym. exact Hs'.
Qed.

(* without %order_reverse in the ordering rulebook nothing is asked of the ordering *)
Theorem order_default_model v rs ordering old new :
  block_family (v_family v) = true -> wf_A v rs old new = true -> no_orev ordering = true ->
  wf_C01 v rs ordering old new = true.
Proof.
  intros Hf Hw Hn. unfold wf_C01, order_ok. rewrite Hf, Hw. cbn [andb].
  destruct (model_no_error v rs ordering old new Hw) as (pt & ->). rewrite Hn. apply orb_true_r.
Qed.

(* chains with declining logics: every step reaches expected, for a fixed universe of rows *)
Fixpoint chain_reaches (v : vendor) (rs : rset) (ordering : list orule) (dev : forest) (news : list forest) : Prop :=
  match news with
  | [] => True
  | new :: rest =>
    exists pt, snd (diff_and_patch v rs ordering dev new) = POk pt /\
      let dev' := p_exec v rs (cmd_paths (v_family v) pt) dev in
      sim dev' (p_expected rs dev new) /\ chain_reaches v rs ordering dev' rest
  end.

Theorem chain_expected_model v rs ordering U : block_family (v_family v) = true -> no_orev ordering = true ->
  p_uok v rs U -> forall news dev, p_good rs U dev -> Forall (p_good rs U) news ->
  chain_reaches v rs ordering dev news.
Proof.
  intros Hf Hn HU. induction news as [|new rest IH]; intros dev Hgd Hall; [exact I|].
  inversion Hall as [|x l Hgn Hrest]; subst. cbn [chain_reaches].
  assert (Hne : exists pt, snd (diff_and_patch v rs ordering dev new) = POk pt).
  { unfold diff_and_patch. cbn [snd]. unfold p_make_patch, p_make_diff. rewrite (make_diff_ldiff pm).
    apply (no_error pm psrc (prev v) (v_exit v) (prreverse v) (v_is_exit v) (S (fsize dev + fsize new)) rs U); auto.
    left. reflexivity. }
  destruct Hne as (pt & Hp). exists pt. split; [exact Hp|]. cbv zeta.
  destruct (converge_exec pm psrc (prev v) (v_exit v) (prreverse v) (v_is_exit v) (v_exit_is_exit v) (v_family v) rs U
              dev new ordering pt Hf (v_exits_family v) HU Hgd Hgn Hp (or_intror Hn)) as (Hsim & Hgood).
  split; [exact Hsim | apply IH; assumption].
Qed.

(* the same with a computable guard on the initial state and the targets *)
Theorem chain_expected_guarded v rs ordering old news :
  wf_chain v rs old news = true -> no_orev ordering = true -> chain_reaches v rs ordering old news.
Proof.
  unfold wf_chain. intros H Hn. apply andb_true_iff in H as [H Hu]. apply andb_true_iff in H as [H Hnews].
  apply andb_true_iff in H as [H Hso]. apply andb_true_iff in H as [Hf Hwo].
  assert (Hall : Forall (fun n => wf n /\ slots_unique pm rs n = true) news).
  { apply Forall_forall. intros n Hin. rewrite forallb_forall in Hnews. specialize (Hnews n Hin).
    apply andb_true_iff in Hnews as [A B]. split; [apply wfb_wf; exact A | exact B]. }
  destruct (wf_chain_props pm (prreverse v) (v_is_exit v) rs news old (proj1 (wfb_wf old) Hwo) Hso Hall Hu) as (HU & Hgo & Hgn).
  apply (chain_expected_model v rs ordering (merge_all old news) Hf Hn HU news old Hgo Hgn).
Qed.
