(* C01: [expected] is a well-formed configuration (needed to decide sim by sim_b). *)
From Coq Require Import List String Bool Arith ZArith Lia Permutation.
From Annet Require Import Base.Str Base.Tree Model.Rulebook Model.Diff Model.Device Spec.P_C03 Spec.P_C01
     Proofs.DiffProofsLib Proofs.DiffProofsAnnot Proofs.ConvergeDevice Proofs.ConvergeExpected Proofs.ConvergeSim
     Proofs.ConvergeNodes Proofs.ConvergeMain.
Import ListNotations.
Open Scope string_scope.
Open Scope list_scope.

Section ExpWf.
  Variable rmatch : string -> string -> option (list string).
  Notation good := (good rmatch).
  Notation annot_f := (annot_f rmatch).
  Notation annot := (annot rmatch).
  Notation expected_t := (expected_t rmatch).

  Lemma erase_f_in an r t : In (r, t) (erase_f an) <-> exists m c, In (r, m, c) an /\ t = erase c.
  Proof.
    unfold erase_f. cbn [erase kids]. induction an as [|[[r0 m0] c0] an IH]; cbn.
    - split; [intros [] | intros (m & c & [] & _)].
    - rewrite IH. split.
      + intros [E|(m & c & H1 & H2)]; [injection E as <- <-; exists m0, c0; auto | exists m, c; auto].
      + intros (m & c & [E|H1] & H2); [injection E as <- <- <-; left; congruence | right; exists m, c; auto].
  Qed.

  Lemma erase_f_keys an : keys (erase_f an) = arows an.
  Proof.
    unfold erase_f, arows, keys. cbn [erase kids]. induction an as [|[[r0 m0] c0] an IH]; [reflexivity|].
    cbn. f_equal. exact IH.
  Qed.

  Lemma erase_wf : forall f rs, wf f -> wf (erase_f (annot_f rs f)).
  Proof.
    apply (forest_sub_ind (fun f => forall rs, wf f -> wf (erase_f (annot_f rs f)))). intros f IH rs Hwf.
    apply wf_intro.
    - rewrite erase_f_keys. apply arows_nodup. apply wf_keys. exact Hwf.
    - intros r t Hin. apply erase_f_in in Hin as (m & c & Hin & ->).
      apply annot_in in Hin as (t0 & crs & Hin & _ & ->). rewrite erase_annot.
      apply (IH r t0 Hin). exact (wf_in f r t0 Hwf Hin).
  Qed.

  Theorem expected_wf : forall fo rs U fn, good rs U fo -> good rs U fn ->
    wf (expected_t (T fo) rs (annot_f rs fn)).
  Proof.
    apply (forest_sub_ind (fun fo => forall rs U fn, good rs U fo -> good rs U fn ->
                                     wf (expected_t (T fo) rs (annot_f rs fn)))).
    intros fo IH rs U fn Hgo Hgn.
    destruct (good_inv rmatch rs U fo Hgo) as (Hko & Huo & Hio & Hwo & Hso).
    destruct (good_inv rmatch rs U fn Hgn) as (Hkn & Hun & Hin & Hwn & Hsn).
    apply wf_intro.
    - apply (uniq_nodup_keys rmatch rs).
      + apply expected_uniq; assumption.
      + rewrite expected_unk by assumption. apply nodup_keys_filter. exact Hko.
    - intros r t Hin'. rewrite expected_t_unfold in Hin'. apply in_app_or in Hin' as [H|H].
      + apply in_flat_map in H as ([r0 t0] & Hin0 & He). cbn [fst snd] in He. unfold exp_entry in He.
        destruct (match_row rmatch r0 rs) as [[s crs]|] eqn:Hm;
          [|destruct He as [E|[]]; injection E as <- <-; exact (Hwo r0 t0 Hin0)].
        destruct (in_keys_tfind r0 U (Hio (r0, t0) Hin0)) as (tu & Htu).
        pose proof (Hso r0 t0 tu s crs Hin0 Htu Hm) as Hgc.
        assert (Hnil : wf (expected_t t0 crs [])).
        { rewrite <- (tree_eta t0). apply (IH r0 t0 Hin0 crs (kids tu) [] Hgc). apply good_nil. }
        destruct (afind_slot s (annot_f rs fn)) as [[[r' m'] sub']|] eqn:Ea.
        * apply afind_slot_in in Ea as [Ha _]. apply annot_in in Ha as (t' & crs' & Hin'' & Hm' & ->).
          destruct (String.eqb_spec r0 r') as [<-|Hne].
          -- destruct He as [E|[]]. injection E as <- <-. cbn [kids]. rewrite annot_akids.
             rewrite Hm in Hm'. injection Hm' as <- <-.
             rewrite <- (tree_eta t0). apply (IH r0 t0 Hin0 crs (kids tu) (kids t') Hgc).
             exact (Hsn r0 t' tu s crs Hin'' Htu Hm).
          -- destruct (a_logic (mi_attrs s)); destruct He as [E|[]]; injection E as <- <-;
               try exact (Hwo r0 t0 Hin0); try exact Hnil;
               rewrite erase_annot; apply erase_wf; exact (Hwn r' t' Hin'').
        * destruct (a_logic (mi_attrs s)); try destruct He as [E|[]]; try contradiction;
            injection E as <- <-; exact Hnil.
      + apply (created_in rmatch rs fn) in H as ([[r' m'] sub'] & Hk & _ & E). injection E as -> ->.
        cbn [asub snd]. apply annot_in in Hk as (t' & crs' & Hin'' & _ & ->).
        rewrite erase_annot. apply erase_wf. exact (Hwn r' t' Hin'').
  Qed.
End ExpWf.
