(* C18 - the chain clause of P_C18_full holds of the model, for every database satisfying
   db_ok, every regex semantics and every model string. *)
From Coq Require Import List String Bool Arith.
From Annet Require Import Base.Str Model.HwDb Spec.P_C18 Gen.Src_devdb
                          Proofs.HwDbProofs Proofs.HwDbTables Proofs.HwDbSrc.
Import ListNotations.
Open Scope string_scope.
Open Scope list_scope.

Theorem chain_ok_model (d : db) (t : list node) :
  build_tree d = Some t -> db_ok d = true ->
  forall (M : Type) (hit : rid -> M -> bool) (m : M),
    chain_ok M hit d m (keys d) (tree_true M hit m t) = true.
Proof.
  intros Hb Hok M hit m. unfold chain_ok. apply forallb_forall. intros s Hs.
  pose proof (true_iff_chain d t Hb Hok M hit m s Hs) as [H1 H2].
  destruct (chain_hits M hit d m s) eqn:Ec.
  - assert (Hm : mem s (tree_true M hit m t) = true) by (apply mem_In; apply H2; reflexivity).
    rewrite Hm. reflexivity.
  - destruct (mem s (tree_true M hit m t)) eqn:Em; [| reflexivity].
    apply mem_In in Em. apply H1 in Em. discriminate Em.
Qed.

(* conversely the clause pins the reported set down on the database keys: any report that
   satisfies chain_ok has exactly the model's true database entries *)
Theorem chain_ok_unique (d : db) (t : list node) :
  build_tree d = Some t -> db_ok d = true ->
  forall (M : Type) (hit : rid -> M -> bool) (m : M) (tr : list seq),
    chain_ok M hit d m (keys d) tr = true ->
    forall s, In s (keys d) -> (In s tr <-> In s (tree_true M hit m t)).
Proof.
  intros Hb Hok M hit m tr Hc s Hs.
  unfold chain_ok in Hc. rewrite forallb_forall in Hc. specialize (Hc s Hs).
  apply Bool.eqb_prop in Hc.
  pose proof (true_iff_chain d t Hb Hok M hit m s Hs) as Hi.
  rewrite Hi. rewrite <- Hc. symmetry. apply mem_In.
Qed.

(* on the shipped tables, in the form the case files evaluate (part_chain) *)
Theorem src_chain_holds (m : list nat) (y : obs) :
  o_true y = src_true m -> part_chain (m, y) = true.
Proof.
  intros Hy. unfold part_chain.
  change (snd (m, y)) with y. change (fst (m, y)) with m.
  rewrite Hy. unfold src_true. rewrite Src_tree_opt_eq.
  change (option_map (tree_true (list nat) hit_tbl m) (Some Src_tree)) with (Some (tree_true (list nat) hit_tbl m Src_tree)).
  cbv beta iota.
  rewrite <- Src_keys_eq. apply chain_ok_model; [exact Src_tree_built | exact Src_db_ok].
Qed.
