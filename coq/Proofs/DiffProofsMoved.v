(* C03 proof library, part 6: the MOVED characterisation at every depth.  Below an entry that is
   itself MOVED every surviving row is MOVED; below any other entry present on both sides (and at the
   top level) a surviving row of an %ordered rule is MOVED exactly when the prefix of new up to it
   differs from the same prefix of old. *)
From Coq Require Import List String Bool Arith Lia Permutation.
From Annet Require Import Base.Str Base.Tree Model.Rulebook Model.Diff Spec.P_C03 Proofs.DiffBasics
  Proofs.DiffProofsLib Proofs.DiffProofsAnnot Proofs.DiffProofsLossless Proofs.DiffProofsOrder.
Import ListNotations.
Open Scope list_scope.

Lemma amem_afind_None og r i : afind r og i = None -> amem r og = false.
Proof. intros H. apply afind_None in H. unfold amem. rewrite H. reflexivity. Qed.

(* ---------- index-based move detection, any parent op ---------- *)
Section Scan.
  Variable og : aforest.
  Variable pop : op.
  Variable inrw : bool.

  Lemma scan_dis_moved : forall l i d,
    In d (scan_new og pop inrw false (cks l) i true) -> amem (d_row d) og = true -> d_op d = Moved.
  Proof.
    induction l as [|[[r m] c] l IH]; intros i d Hd Ham; [destruct Hd|].
    change (cks ((r, m, c) :: l)) with ((r, m, diff_t c) :: cks l) in Hd. cbn [scan_new] in Hd.
    destruct (afind r og 0) as [[j so]|] eqn:Ef.
    - cbn [orb] in Hd. destruct Hd as [E|Hd]; [subst d; reflexivity | eapply IH; eassumption].
    - destruct Hd as [E|Hd]; [|eapply IH; eassumption].
      subst d. cbn [d_row] in Ham. rewrite (amem_afind_None _ _ _ Ef) in Ham. discriminate.
  Qed.

  Lemma tail_moved o r m kk ns i d :
    In d (DN o r m kk :: scan_new og pop inrw false (cks ns) i true) ->
    (o = Moved \/ amem r og = false) -> amem (d_row d) og = true -> d_op d = Moved.
  Proof.
    intros [E|Hd] Ho Ham.
    - subst d. cbn [d_row d_op] in *. destruct Ho as [Ho|Ho]; [exact Ho | congruence].
    - eapply scan_dis_moved; eassumption.
  Qed.
End Scan.

Lemma scan_moved_gen pop inrw : forall nsuf pre osuf,
  NoDup (arows (pre ++ osuf)) -> NoDup (arows nsuf) ->
  forall d, In d (scan_new (pre ++ osuf) pop inrw false (cks nsuf) (List.length pre) false) ->
            amem (d_row d) (pre ++ osuf) = true ->
            op_eqb (d_op d) Moved = op_eqb pop Moved || negb (prefix_ok (arows osuf) (arows nsuf) (d_row d)).
Proof.
  induction nsuf as [|[[r m] c] ns IH]; intros pre osuf Hndo Hndn d Hd Ham; [destruct Hd|].
  change (cks ((r, m, c) :: ns)) with ((r, m, diff_t c) :: cks ns) in Hd. cbn [scan_new orb] in Hd.
  change (arows ((r, m, c) :: ns)) with (r :: arows ns) in *.
  assert (Hmoved : forall o kk, (o = Moved \/ amem r (pre ++ osuf) = false) ->
            In d (DN o r m kk :: scan_new (pre ++ osuf) pop inrw false (cks ns) (S (List.length pre)) true) ->
            d_op d = Moved).
  { intros o kk Ho Hin. eapply tail_moved; eassumption. }
  destruct osuf as [|[[r' mo] so] osuf'].
  - (* old exhausted: everything still present has moved *)
    cbn [arows map prefix_ok negb]. rewrite orb_true_r.
    apply op_eqb_eq.
    destruct (afind r (pre ++ []) 0) as [[j so]|] eqn:Ef.
    + apply afind_nth in Ef as (_ & m' & Hn).
      assert (Hlt : j - 0 < List.length (pre ++ [])) by (apply nth_error_Some; congruence).
      rewrite app_nil_r in Hlt.
      assert (E : Nat.eqb (List.length pre) j = false) by (apply Nat.eqb_neq; lia).
      rewrite E in Hd. cbn [negb] in Hd. eapply Hmoved; [left; reflexivity | exact Hd].
    + eapply Hmoved; [right; eapply amem_afind_None; exact Ef | exact Hd].
  - change (arows ((r', mo, so) :: osuf')) with (r' :: arows osuf').
    cbn [prefix_ok].
    assert (Hr' : ~ In r' (arows pre)).
    { unfold arows in Hndo. rewrite map_app in Hndo. cbn [map] in Hndo. apply NoDup_remove_2 in Hndo.
      intro Hin. apply Hndo. apply in_or_app. left. exact Hin. }
    destruct (String.eqb_spec r r') as [Err|Err].
    + subst r'. rewrite afind_app_hit in Hd by exact Hr'. cbn [plus] in Hd.
      rewrite Nat.eqb_refl in Hd. cbn [negb] in Hd. cbn [andb].
      destruct Hd as [E|Hd].
      * subst d. cbn [d_op d_row]. rewrite String.eqb_refl. cbn [orb negb]. rewrite orb_false_r. reflexivity.
      * assert (Hrow : In (d_row d) (arows ns)).
        { rewrite <- (scan_rows (pre ++ (r, mo, so) :: osuf') pop inrw false ns (S (List.length pre)) false).
          apply in_map. exact Hd. }
        assert (Hne : String.eqb r (d_row d) = false).
        { apply String.eqb_neq. intro E. inversion Hndn as [|x l Hx Hl]; subst. contradiction. }
        rewrite Hne. cbn [orb].
        specialize (IH (pre ++ [(r, mo, so)]) osuf').
        rewrite <- app_assoc in IH. cbn [app] in IH.
        rewrite app_length in IH. cbn [List.length] in IH. rewrite Nat.add_1_r in IH.
        apply IH; try assumption. inversion Hndn; assumption.
    + cbn [andb negb]. rewrite orb_true_r. apply op_eqb_eq.
      destruct (afind r (pre ++ (r', mo, so) :: osuf') 0) as [[j so']|] eqn:Ef.
      * assert (E : Nat.eqb (List.length pre) j = false).
        { apply Nat.eqb_neq. intro E. subst j. apply afind_nth in Ef as (_ & m' & Hn).
          rewrite Nat.sub_0_r in Hn. rewrite nth_error_app2 in Hn by lia.
          rewrite Nat.sub_diag in Hn. cbn in Hn. injection Hn as E1 E2 E3. congruence. }
        rewrite E in Hd. cbn [negb] in Hd. eapply Hmoved; [left; reflexivity | exact Hd].
      * eapply Hmoved; [right; eapply amem_afind_None; exact Ef | exact Hd].
Qed.

(* ---------- the checker, unfolded once ---------- *)
Lemma moved_ok_n_eq ao an o row mi kids :
  moved_ok_n ao an (DN o row mi kids) =
  match alookup row ao, alookup row an with
  | Some (_, so), Some (_, sn) =>
    moved_ok_lvl (op_eqb o Moved) (akids so) (akids sn) kids &&
    forallb (moved_ok_n (akids so) (akids sn)) kids
  | _, _ => true
  end.
Proof. reflexivity. Qed.

Definition mclause (pm : bool) (ao an : aforest) (k : dnode) : bool :=
  negb (is_ordered_in an (d_row k)) || negb (amem (d_row k) ao) || negb (amem (d_row k) an) ||
  Bool.eqb (op_eqb (d_op k) Moved)
           (pm || negb (prefix_ok (ordered_rows_a ao) (ordered_rows_a an) (d_row k))).

Lemma moved_ok_lvl_eq pm ao an d : moved_ok_lvl pm ao an d = forallb (mclause pm ao an) d.
Proof. reflexivity. Qed.

(* ---------- mark_unchanged keeps rows and MOVED-ness ---------- *)
Lemma mark_moved x : op_eqb (d_op (mark_unchanged_n x)) Moved = op_eqb (d_op x) Moved.
Proof.
  destruct x as [o r m k]. cbn [mark_unchanged_n]. destruct o; cbn [op_eqb d_op]; try reflexivity.
  destruct (forallb _ _); reflexivity.
Qed.

Lemma mclause_mark pm ao an x : mclause pm ao an (mark_unchanged_n x) = mclause pm ao an x.
Proof. unfold mclause. rewrite mark_row, mark_moved. reflexivity. Qed.

Lemma moved_lvl_mark pm ao an l : moved_ok_lvl pm ao an (map mark_unchanged_n l) = moved_ok_lvl pm ao an l.
Proof.
  rewrite !moved_ok_lvl_eq. induction l as [|x l IH]; [reflexivity|]. cbn [map forallb].
  rewrite mclause_mark, IH. reflexivity.
Qed.

Lemma moved_mark : forall d ao an, moved_ok_n ao an d = true -> moved_ok_n ao an (mark_unchanged_n d) = true.
Proof.
  induction d as [o row m kids IH] using dnode_ind2. intros ao an H. cbn [mark_unchanged_n].
  destruct (op_eqb o Affected) eqn:Eo; [|exact H]. apply op_eqb_eq in Eo. subst o.
  rewrite moved_ok_n_eq in *.
  destruct (alookup row ao) as [[mo so]|]; [|reflexivity].
  destruct (alookup row an) as [[mn sn]|]; [|reflexivity].
  apply andb_true_iff in H as [H1 H2].
  assert (E : forall b : bool, op_eqb (if b then Unchanged else Affected) Moved = op_eqb Affected Moved)
    by (intros []; reflexivity).
  rewrite E, moved_lvl_mark, H1. cbn [andb].
  apply forallb_forall. intros x Hx. apply in_map_iff in Hx as (y & Ey & Hy). subst x.
  rewrite Forall_forall in IH. rewrite forallb_forall in H2. apply IH; [exact Hy | apply H2; exact Hy].
Qed.

(* ---------- raw diffs contain no UNCHANGED entry ---------- *)
Lemma removed_t_nu : forall t d, In d (removed_t t) -> no_unchanged_n d = true.
Proof.
  induction t as [nk IH] using atree_ind2. intros d Hd.
  apply removed_t_In in Hd as (k & Hk & E). subst d. cbn [akids] in Hk.
  unfold mkrem. cbn [no_unchanged_n op_eqb negb andb].
  apply forallb_forall. intros x Hx. rewrite Forall_forall in IH. eapply IH; eassumption.
Qed.

Lemma aff_to_moved_nu : forall d, no_unchanged_n d = true -> no_unchanged_n (aff_to_moved_n d) = true.
Proof.
  induction d as [o row m kids IH] using dnode_ind2. cbn [no_unchanged_n aff_to_moved_n]. intros H.
  apply andb_true_iff in H as [H1 H2]. apply andb_true_iff. split.
  - destruct o; try reflexivity. discriminate.
  - apply forallb_forall. intros x Hx. apply in_map_iff in Hx as (y & Ey & Hy). subst x.
    rewrite Forall_forall in IH. rewrite forallb_forall in H2. apply IH; [exact Hy | apply H2; exact Hy].
Qed.

Definition NU (t : atree) : Prop :=
  forall ao pop inrw d, pop <> Unchanged -> In d (diff_t t ao pop inrw) -> no_unchanged_n d = true.

Lemma base_nu og ng pop inrw' mta y :
  Forall (fun k => NU (asub k)) ng -> pop <> Unchanged ->
  In y (base_diff og pop inrw' mta (cks ng)) -> no_unchanged_n y = true.
Proof.
  intros IH Hpop Hy. rewrite Forall_forall in IH.
  apply base_diff_In in Hy as [(k & Hk & Hrel)|(k & Hk & Hn & E)].
  - unfold scan_rel in Hrel. destruct (alookup (arow k) og) as [[mo so]|].
    + destruct Hrel as (o & Ho & E). subst y. cbn [no_unchanged_n].
      assert (Ho' : o <> Unchanged) by (destruct Ho; subst o; [exact Hpop | discriminate]).
      apply andb_true_iff. split; [destruct o; try reflexivity; congruence|].
      apply forallb_forall. intros x Hx. eapply (IH k Hk); eassumption.
    + subst y. cbn [no_unchanged_n op_eqb negb andb].
      apply forallb_forall. intros x Hx. eapply (IH k Hk); [|exact Hx]. discriminate.
  - subst y. unfold mkrem. cbn [no_unchanged_n op_eqb negb andb].
    apply forallb_forall. intros x Hx. eapply removed_t_nu. exact Hx.
Qed.

Theorem diff_t_nu : forall t, NU t.
Proof.
  induction t as [nk IH] using atree_ind2. unfold NU. intros ao pop inrw d Hpop Hd.
  rewrite diff_t_unfold, diff_level_unfold in Hd. apply in_flat_map in Hd as (L & _ & Hd).
  apply run_dlogic_In in Hd as (inrw' & mta & y & Hy & [E|E]); subst d.
  - eapply base_nu; [|exact Hpop|exact Hy].
    apply Forall_forall. intros k Hk. rewrite Forall_forall in IH. apply IH.
    apply filter_In in Hk as [Hk _]. exact Hk.
  - apply aff_to_moved_nu. eapply base_nu; [|exact Hpop|exact Hy].
    apply Forall_forall. intros k Hk. rewrite Forall_forall in IH. apply IH.
    apply filter_In in Hk as [Hk _]. exact Hk.
Qed.

(* ---------- a block re-entered as a whole: no AFFECTED / UNCHANGED entry at any depth ---------- *)
Lemma aff_to_moved_no_aff : forall d, no_unchanged_n d = true -> whole_n (aff_to_moved_n d) = true.
Proof.
  induction d as [o row m kids IH] using dnode_ind2. cbn [no_unchanged_n aff_to_moved_n whole_n]. intros H.
  apply andb_true_iff in H as [H1 H2]. apply andb_true_iff. split.
  - destruct o; try reflexivity. discriminate.
  - apply forallb_forall. intros x Hx. apply in_map_iff in Hx as (y & Ey & Hy). subst x.
    rewrite Forall_forall in IH. rewrite forallb_forall in H2. apply IH; [exact Hy | apply H2; exact Hy].
Qed.

Lemma lossless_no_aff_moved : forall d ao an,
  lossless_n ao an d = true -> whole_n d = true -> moved_ok_n ao an d = true.
Proof.
  induction d as [o row m kids IH] using dnode_ind2. intros ao an HL HN.
  rewrite moved_ok_n_eq. rewrite lossless_n_eq in HL. cbn [whole_n] in HN.
  apply andb_true_iff in HN as [HN HNk]. apply andb_true_iff in HN as [HN1 HN2].
  destruct (alookup row ao) as [[mo so]|]; [|reflexivity].
  destruct (alookup row an) as [[mn sn]|]; [|reflexivity].
  assert (Ho : o = Moved) by (destruct o; try discriminate; reflexivity). subst o.
  cbn [negb orb] in HL. rewrite andb_true_r in HL. apply andb_true_iff in HL as [_ HL].
  apply lossless_iff in HL as (_ & _ & _ & HL).
  rewrite forallb_forall in HNk. rewrite Forall_forall in IH.
  apply andb_true_iff. split.
  - rewrite moved_ok_lvl_eq. apply forallb_forall. intros k Hk. unfold mclause.
    destruct (amem (d_row k) (akids so)) eqn:E1; [|rewrite orb_true_r; reflexivity].
    destruct (amem (d_row k) (akids sn)) eqn:E2; [|rewrite orb_true_r; reflexivity].
    cbn [op_eqb orb negb]. rewrite !orb_false_r.
    pose proof (HL k Hk) as HLk. pose proof (HNk k Hk) as HNkk.
    destruct k as [ok rk mk kk]. cbn [d_row d_op] in *. rewrite lossless_n_eq in HLk.
    unfold amem in E1, E2.
    destruct (alookup rk (akids so)) as [[m1 s1]|]; [|discriminate].
    destruct (alookup rk (akids sn)) as [[m2 s2]|]; [|discriminate].
    cbn [whole_n] in HNkk. apply andb_true_iff in HNkk as [HNkk _]. apply andb_true_iff in HNkk as [Ha Hb].
    destruct ok; try discriminate. cbn [op_eqb Bool.eqb]. apply orb_true_r.
  - apply forallb_forall. intros k Hk. apply IH; [exact Hk | apply HL; exact Hk | apply HNk; exact Hk].
Qed.

(* ---------- one level ---------- *)
Definition MV (t : atree) : Prop :=
  forall ao pop inrw, awf ao -> awf (akids t) -> compat ao (akids t) -> pop_ok pop ao ->
    moved_ok_lvl (op_eqb pop Moved) ao (akids t) (diff_t t ao pop inrw) = true /\
    (forall d, In d (diff_t t ao pop inrw) -> moved_ok_n ao (akids t) d = true).

Section MovedLevel.
  Variables (ao nk : aforest) (pop : op).
  Hypothesis Hwo : awf ao.
  Hypothesis Hwn : awf nk.
  Hypothesis Hc : compat ao nk.
  Hypothesis Hpop : pop_ok pop ao.
  Hypothesis IH : Forall (fun k => MV (asub k)) nk.

  Let IHL : Forall (fun k => LL (asub k)) nk.
  Proof. apply Forall_forall. intros k _. apply diff_t_lossless. Qed.

  Lemma pop_not_unchanged : pop <> Unchanged \/ ao = [].
  Proof. destruct Hpop as [E|[E|E]]; [left; subst; discriminate | left; subst; discriminate | right; exact E]. Qed.

  Lemma entry_moved L inrw' mta y :
    In y (base_diff (filter (inL L) ao) pop inrw' mta (cks (filter (inL L) nk))) ->
    moved_ok_n ao nk y = true.
  Proof.
    intros Hy. apply base_diff_In in Hy as [(k & Hk & Hrel)|(k & Hk & Hn & E)].
    - apply filter_In in Hk as [Hk HL]. destruct k as [[r m] c].
      unfold inL, ami in HL. cbn [fst snd] in HL. apply dlogic_eqb_eq in HL.
      destruct (scan_shape ao nk pop Hwo Hwn Hc Hpop L inrw' r m c y Hk HL Hrel)
        as (Eln & Hwc & o & oldk & Ed & _ & Hwk & Hck & Hpk & Hcase).
      subst y. rewrite moved_ok_n_eq, Eln.
      destruct Hcase as [[_ Elo]|[_ (so & Elo & Eo)]].
      + rewrite Elo. reflexivity.
      + rewrite Elo. subst oldk.
        rewrite Forall_forall in IH. destruct (IH _ Hk (akids so) o inrw' Hwk Hwc Hck Hpk) as [H1 H2].
        unfold asub in H1, H2. cbn [snd] in H1, H2. rewrite H1. cbn [andb].
        apply forallb_forall. exact H2.
    - apply filter_In in Hk as [Hk HL]. destruct k as [[r m] c]. subst y.
      unfold inL, ami in HL. cbn [fst snd] in HL. apply dlogic_eqb_eq in HL.
      unfold mkrem, arow, ami, asub. cbn [fst snd]. rewrite moved_ok_n_eq.
      rewrite (new_group_absent ao nk Hwo Hc L r m c Hk HL Hn).
      destruct (alookup r ao) as [[mo so]|]; reflexivity.
  Qed.

  Lemma level_moved_nodes inrw d :
    In d (diff_level ao (cks nk) pop inrw) -> moved_ok_n ao nk d = true.
  Proof.
    intros Hd. rewrite diff_level_unfold in Hd. apply in_flat_map in Hd as (L & _ & Hd).
    pose proof (run_group_ok ao nk pop Hwo Hwn Hc Hpop IHL L inrw) as (G1 & _).
    pose proof (G1 d Hd) as HLd.
    apply run_dlogic_In in Hd as (inrw' & mta & y & Hy & [E|E]); subst d.
    - eapply entry_moved. exact Hy.
    - apply lossless_no_aff_moved; [exact HLd|].
      apply aff_to_moved_no_aff.
      destruct pop_not_unchanged as [Hp|Hp].
      + eapply base_nu; [|exact Hp|exact Hy]. apply Forall_forall. intros k _. apply diff_t_nu.
      + (* old side empty: every entry is ADDED below an ADDED/any parent; still no UNCHANGED unless pop is *)
        destruct (op_eqb pop Unchanged) eqn:Eu.
        * (* pop = Unchanged with an empty old side: all entries are ADDED *)
          apply base_diff_In in Hy as [(k & Hk & Hrel)|(k & Hk & Hn & E)].
          -- unfold scan_rel in Hrel. rewrite Hp in Hrel. cbn [filter alookup] in Hrel. subst y.
             cbn [no_unchanged_n op_eqb negb andb].
             apply forallb_forall. intros x Hx. eapply (diff_t_nu (asub k)); [|exact Hx]. discriminate.
          -- rewrite Hp in Hk. destruct Hk.
        * eapply base_nu; [| |exact Hy]; [apply Forall_forall; intros k _; apply diff_t_nu|].
          intro E. rewrite E in Eu. discriminate.
  Qed.

  Lemma level_moved_lvl inrw :
    moved_ok_lvl (op_eqb pop Moved) ao nk (diff_level ao (cks nk) pop inrw) = true.
  Proof.
    rewrite moved_ok_lvl_eq. apply forallb_forall. intros d Hd. unfold mclause.
    destruct (is_ordered_in nk (d_row d)) eqn:Eord; [|reflexivity]. cbn [negb orb].
    destruct (amem (d_row d) ao) eqn:Eao; [|reflexivity]. cbn [negb orb].
    destruct (amem (d_row d) nk) eqn:Enk; [|reflexivity]. cbn [negb orb].
    rewrite diff_level_unfold in Hd. apply in_flat_map in Hd as (L & _ & Hd).
    assert (HL : L = DOrdered).
    { destruct (run_group_ok ao nk pop Hwo Hwn Hc Hpop IHL L inrw) as (_ & _ & G3 & _).
      apply (is_ordered_dl_of ao nk Hc) in Eord.
      destruct (G3 d Hd) as [H|H].
      - rewrite (dl_of_old ao nk Hwo L _ H) in Eord. exact Eord.
      - rewrite (dl_of_new ao nk Hwn Hc L _ H) in Eord. exact Eord. }
    subst L. cbn [run_dlogic] in Hd.
    set (og := filter (inL DOrdered) ao) in *. set (ng := filter (inL DOrdered) nk) in *.
    eapply Permutation_in in Hd; [|apply base_diff_perm].
    apply in_app_iff in Hd as [Hd|Hd].
    - assert (Hog : amem (d_row d) og = true).
      { assert (Hrow : In (d_row d) (arows ng)).
        { rewrite <- (scan_rows og pop inrw false ng 0 false). apply in_map. exact Hd. }
        unfold arows in Hrow. apply in_map_iff in Hrow as ([[r m] c] & E & Hk).
        unfold arow in E. cbn [fst] in E. rewrite <- E.
        apply filter_In in Hk as [Hk HLk]. unfold inL, ami in HLk. cbn [fst snd] in HLk.
        apply dlogic_eqb_eq in HLk.
        unfold amem. subst og. rewrite (old_group_lookup ao nk Hwo Hc DOrdered r m c Hk HLk).
        rewrite <- E in Eao. exact Eao. }
      pose proof (scan_moved_gen pop inrw ng [] og) as HS. cbn [app List.length] in HS.
      rewrite (HS (NoDup_arows_filter _ _ (awf_NoDup ao Hwo)) (NoDup_arows_filter _ _ (awf_NoDup nk Hwn)) d Hd Hog).
      apply eqb_reflx.
    - exfalso. apply in_map_iff in Hd as (k & E & Hk). subst d.
      apply filter_In in Hk as [Hk Hnot]. apply filter_In in Hk as [Hk HLk].
      destruct k as [[r m] c]. unfold inL, ami in HLk. cbn [fst snd] in HLk. apply dlogic_eqb_eq in HLk.
      unfold notin in Hnot. apply negb_true_iff in Hnot. apply existsb_eqb_false in Hnot.
      unfold arow in Hnot. cbn [fst] in Hnot.
      unfold mkrem, arow, ami, asub in Enk. cbn [fst snd d_row] in Enk.
      unfold amem in Enk. rewrite (new_group_absent ao nk Hwo Hc DOrdered r m c Hk HLk Hnot) in Enk. discriminate.
  Qed.
End MovedLevel.

Theorem diff_t_moved : forall t, MV t.
Proof.
  induction t as [nk IH] using atree_ind2. unfold MV. cbn [akids].
  intros ao pop inrw Hwo Hwn Hc Hpop. rewrite diff_t_unfold. split.
  - apply level_moved_lvl; assumption.
  - intros d Hd. eapply level_moved_nodes; eassumption.
Qed.

Lemma moved_ok_mark_all ao an d : moved_ok ao an d = true -> moved_ok ao an (mark_unchanged d) = true.
Proof.
  unfold moved_ok, mark_unchanged. intros H. apply andb_true_iff in H as [H1 H2].
  rewrite moved_lvl_mark, H1. cbn [andb].
  apply forallb_forall. intros x Hx. apply in_map_iff in Hx as (y & Ey & Hy). subst x.
  rewrite forallb_forall in H2. apply moved_mark. apply H2. exact Hy.
Qed.

Section TopMoved.
  Variable rmatch : string -> string -> option (list string).

  (* MOVED characterisation at every depth *)
  Theorem diff_moved_all_lib : forall rs old new, wf old -> wf new ->
    moved_ok (annot_f rmatch rs old) (annot_f rmatch rs new) (make_diff rmatch rs old new) = true.
  Proof.
    intros rs old new Ho Hn. unfold make_diff, raw_diff. apply moved_ok_mark_all.
    change (annot_f rmatch rs new) with (akids (annot rmatch rs (T new))).
    destruct (diff_t_moved (annot rmatch rs (T new)) (annot_f rmatch rs old) Affected false) as [H1 H2].
    - apply annot_awf. exact Ho.
    - apply (annot_awf rmatch new rs Hn).
    - apply (annot_compat rmatch new rs old).
    - left. reflexivity.
    - unfold moved_ok. cbn [op_eqb] in H1. rewrite H1. cbn [andb]. apply forallb_forall. exact H2.
  Qed.

  (* its top-level part *)
  Theorem diff_moved_ok_lib : forall rs old new, wf old -> wf new ->
    moved_ok_top (annot_f rmatch rs old) (annot_f rmatch rs new) (make_diff rmatch rs old new) = true.
  Proof.
    intros rs old new Ho Hn. pose proof (diff_moved_all_lib rs old new Ho Hn) as H.
    unfold moved_ok in H. apply andb_true_iff in H as [H _]. exact H.
  Qed.
End TopMoved.
