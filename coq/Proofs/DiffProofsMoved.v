(* C03 proof library, part 6: at the top level, a surviving row of an %ordered rule is
   MOVED exactly when the prefix of new up to it differs from the same prefix of old. *)
From Coq Require Import List String Bool Arith Lia Permutation.
From Annet Require Import Base.Str Base.Tree Model.Rulebook Model.Diff Spec.P_C03 Proofs.DiffBasics
  Proofs.DiffProofsLib Proofs.DiffProofsAnnot Proofs.DiffProofsLossless Proofs.DiffProofsOrder.
Import ListNotations.
Open Scope list_scope.

Lemma amem_afind_None og r i : afind r og i = None -> amem r og = false.
Proof. intros H. apply afind_None in H. unfold amem. rewrite H. reflexivity. Qed.

Section Scan.
  Variable og : aforest.
  Variable inrw : bool.

  Lemma scan_dis_moved : forall l i d,
    In d (scan_new og Affected inrw false (cks l) i true) -> amem (d_row d) og = true -> d_op d = Moved.
  Proof.
    induction l as [|[[r m] c] l IH]; intros i d Hd Ham; [destruct Hd|].
    change (cks ((r, m, c) :: l)) with ((r, m, diff_t c) :: cks l) in Hd. cbn [scan_new] in Hd.
    destruct (afind r og 0) as [[j so]|] eqn:Ef.
    - cbn [orb] in Hd. destruct Hd as [E|Hd]; [subst d; reflexivity | eapply IH; eassumption].
    - destruct Hd as [E|Hd]; [|eapply IH; eassumption].
      subst d. cbn [d_row] in Ham. rewrite (amem_afind_None _ _ _ Ef) in Ham. discriminate.
  Qed.

  Lemma tail_moved o r m kk ns i d :
    In d (DN o r m kk :: scan_new og Affected inrw false (cks ns) i true) ->
    (o = Moved \/ amem r og = false) -> amem (d_row d) og = true -> d_op d = Moved.
  Proof.
    intros [E|Hd] Ho Ham.
    - subst d. cbn [d_row d_op] in *. destruct Ho as [Ho|Ho]; [exact Ho | congruence].
    - eapply scan_dis_moved; eassumption.
  Qed.
End Scan.

Lemma scan_moved_false inrw : forall nsuf pre osuf,
  NoDup (arows (pre ++ osuf)) -> NoDup (arows nsuf) ->
  forall d, In d (scan_new (pre ++ osuf) Affected inrw false (cks nsuf) (List.length pre) false) ->
            amem (d_row d) (pre ++ osuf) = true ->
            op_eqb (d_op d) Moved = negb (prefix_ok (arows osuf) (arows nsuf) (d_row d)).
Proof.
  induction nsuf as [|[[r m] c] ns IH]; intros pre osuf Hndo Hndn d Hd Ham; [destruct Hd|].
  change (cks ((r, m, c) :: ns)) with ((r, m, diff_t c) :: cks ns) in Hd. cbn [scan_new orb] in Hd.
  change (arows ((r, m, c) :: ns)) with (r :: arows ns) in *.
  assert (Hmoved : forall o kk, (o = Moved \/ amem r (pre ++ osuf) = false) ->
            In d (DN o r m kk :: scan_new (pre ++ osuf) Affected inrw false (cks ns) (S (List.length pre)) true) ->
            d_op d = Moved).
  { intros o kk Ho Hin. eapply tail_moved; eassumption. }
  destruct osuf as [|[[r' mo] so] osuf'].
  - (* old exhausted: everything still present has moved *)
    cbn [arows map prefix_ok negb].
    apply op_eqb_eq.
    destruct (afind r (pre ++ []) 0) as [[j so]|] eqn:Ef.
    + apply afind_nth in Ef as (_ & m' & Hn).
      assert (Hlt : j - 0 < List.length (pre ++ [])) by (apply nth_error_Some; congruence).
      rewrite app_nil_r in Hlt.
      assert (E : Nat.eqb (List.length pre) j = false) by (apply Nat.eqb_neq; lia).
      rewrite E in Hd. cbn [negb] in Hd. eapply Hmoved; [left; reflexivity | exact Hd].
    + eapply Hmoved; [right; eapply amem_afind_None; exact Ef | exact Hd].
  - change (arows ((r', mo, so) :: osuf')) with (r' :: arows osuf').
    cbn [prefix_ok].
    assert (Hr' : ~ In r' (arows pre)).
    { unfold arows in Hndo. rewrite map_app in Hndo. cbn [map] in Hndo. apply NoDup_remove_2 in Hndo.
      intro Hin. apply Hndo. apply in_or_app. left. exact Hin. }
    destruct (String.eqb_spec r r') as [Err|Err].
    + subst r'. rewrite afind_app_hit in Hd by exact Hr'. cbn [plus] in Hd.
      rewrite Nat.eqb_refl in Hd. cbn [negb] in Hd. cbn [andb].
      destruct Hd as [E|Hd].
      * subst d. cbn [d_op d_row op_eqb]. rewrite String.eqb_refl. reflexivity.
      * assert (Hrow : In (d_row d) (arows ns)).
        { rewrite <- (scan_rows (pre ++ (r, mo, so) :: osuf') Affected inrw false ns (S (List.length pre)) false).
          apply in_map. exact Hd. }
        assert (Hne : String.eqb r (d_row d) = false).
        { apply String.eqb_neq. intro E. inversion Hndn as [|x l Hx Hl]; subst. contradiction. }
        rewrite Hne. cbn [orb].
        specialize (IH (pre ++ [(r, mo, so)]) osuf').
        rewrite <- app_assoc in IH. cbn [app] in IH.
        rewrite app_length in IH. cbn [List.length] in IH. rewrite Nat.add_1_r in IH.
        apply IH; try assumption. inversion Hndn; assumption.
    + cbn [andb negb]. apply op_eqb_eq.
      destruct (afind r (pre ++ (r', mo, so) :: osuf') 0) as [[j so']|] eqn:Ef.
      * assert (E : Nat.eqb (List.length pre) j = false).
        { apply Nat.eqb_neq. intro E. subst j. apply afind_nth in Ef as (_ & m' & Hn).
          rewrite Nat.sub_0_r in Hn. rewrite nth_error_app2 in Hn by lia.
          rewrite Nat.sub_diag in Hn. cbn in Hn. injection Hn as E1 E2 E3. congruence. }
        rewrite E in Hd. cbn [negb] in Hd. eapply Hmoved; [left; reflexivity | exact Hd].
      * eapply Hmoved; [right; eapply amem_afind_None; exact Ef | exact Hd].
Qed.

Lemma mark_moved x : op_eqb (d_op (mark_unchanged_n x)) Moved = op_eqb (d_op x) Moved.
Proof.
  destruct x as [o r m k]. cbn [mark_unchanged_n]. destruct o; cbn [op_eqb d_op]; try reflexivity.
  destruct (forallb _ _); reflexivity.
Qed.

Section MovedTop.
  Variables (ao nk : aforest).
  Hypothesis Hwo : awf ao.
  Hypothesis Hwn : awf nk.
  Hypothesis Hc : compat ao nk.

  Lemma level_moved : moved_ok_top ao nk (mark_unchanged (diff_level ao (cks nk) Affected false)) = true.
  Proof.
    assert (Hpop : pop_ok Affected ao) by (left; reflexivity).
    assert (IHL : Forall (fun k => LL (asub k)) nk).
    { apply Forall_forall. intros k _. apply diff_t_lossless. }
    unfold moved_ok_top. apply forallb_forall. intros x Hx.
    unfold mark_unchanged in Hx. apply in_map_iff in Hx as (d & Ex & Hd). subst x.
    rewrite mark_row, mark_moved.
    destruct (is_ordered_in nk (d_row d)) eqn:Eord; [|reflexivity]. cbn [negb orb].
    rewrite diff_level_unfold in Hd. apply in_flat_map in Hd as (L & _ & Hd).
    assert (HL : L = DOrdered).
    { destruct (run_group_ok ao nk Affected Hwo Hwn Hc Hpop IHL L false) as (_ & _ & G3 & _).
      apply (is_ordered_dl_of ao nk Hc) in Eord.
      destruct (G3 d Hd) as [H|H].
      - rewrite (dl_of_old ao nk Hwo L _ H) in Eord. exact Eord.
      - rewrite (dl_of_new ao nk Hwn Hc L _ H) in Eord. exact Eord. }
    subst L. cbn [run_dlogic] in Hd.
    set (og := filter (inL DOrdered) ao) in *. set (ng := filter (inL DOrdered) nk) in *.
    eapply Permutation_in in Hd; [|apply base_diff_perm].
    apply in_app_iff in Hd as [Hd|Hd].
    - destruct (amem (d_row d) ao) eqn:Eao; [|reflexivity]. cbn [negb orb].
      destruct (amem (d_row d) nk) eqn:Enk; [|reflexivity]. cbn [negb orb].
      assert (Hog : amem (d_row d) og = true).
      { assert (Hrow : In (d_row d) (arows ng)).
        { rewrite <- (scan_rows og Affected false false ng 0 false). apply in_map. exact Hd. }
        unfold arows in Hrow. apply in_map_iff in Hrow as ([[r m] c] & E & Hk).
        unfold arow in E. cbn [fst] in E. rewrite <- E.
        apply filter_In in Hk as [Hk HLk]. unfold inL, ami in HLk. cbn [fst snd] in HLk.
        apply dlogic_eqb_eq in HLk.
        unfold amem. subst og. rewrite (old_group_lookup ao nk Hwo Hc DOrdered r m c Hk HLk).
        rewrite <- E in Eao. exact Eao. }
      pose proof (scan_moved_false false ng [] og) as HS. cbn [app List.length] in HS.
      rewrite (HS (NoDup_arows_filter _ _ (awf_NoDup ao Hwo)) (NoDup_arows_filter _ _ (awf_NoDup nk Hwn)) d Hd Hog).
      apply eqb_reflx.
    - apply in_map_iff in Hd as (k & E & Hk). subst d.
      apply filter_In in Hk as [Hk Hnot]. apply filter_In in Hk as [Hk HLk].
      destruct k as [[r m] c]. unfold inL, ami in HLk. cbn [fst snd] in HLk. apply dlogic_eqb_eq in HLk.
      unfold notin in Hnot. apply negb_true_iff in Hnot. apply existsb_eqb_false in Hnot.
      unfold arow in Hnot. cbn [fst] in Hnot.
      unfold mkrem, arow, ami, asub. cbn [fst snd d_row].
      assert (E : amem r nk = false).
      { unfold amem. rewrite (new_group_absent ao nk Hwo Hc DOrdered r m c Hk HLk Hnot). reflexivity. }
      rewrite E. cbn [negb orb]. rewrite orb_true_r. reflexivity.
  Qed.
End MovedTop.

Section TopMoved.
  Variable rmatch : string -> string -> option (list string).
  Theorem diff_moved_ok_lib : forall rs old new, wf old -> wf new ->
    moved_ok_top (annot_f rmatch rs old) (annot_f rmatch rs new) (make_diff rmatch rs old new) = true.
  Proof.
    intros rs old new Ho Hn. unfold make_diff, raw_diff.
    change (annot rmatch rs (T new)) with (AT (annot_f rmatch rs new)).
    rewrite diff_t_unfold. apply level_moved.
    - apply annot_awf. exact Ho.
    - apply annot_awf. exact Hn.
    - apply annot_compat.
  Qed.
End TopMoved.
