(* C15 — inclusion of registries is flattening; name normalisation never leaks into the matched names. *)
From Coq Require Import List String Bool Arith Ascii Permutation.
From Annet Require Import Model.Merge Model.Mesh Model.MeshNested.
Import ListNotations.
Open Scope string_scope.
Open Scope list_scope.

Section P.
  Variable raw : nat -> string -> string -> bool.

  Lemma flat_map_nil_fn {A B} (l : list A) : flat_map (fun _ : A => @nil B) l = [].
  Proof. induction l as [|a l IH]; cbn; auto. Qed.

  Lemma perm_flat_map_app {A B} (f g : A -> list B) (l : list A) :
    Permutation (flat_map (fun x => f x ++ g x) l) (flat_map f l ++ flat_map g l).
  Proof.
    induction l as [|a l IH]; cbn; [constructor|].
    rewrite <- !app_assoc. apply Permutation_app_head.
    eapply Permutation_trans; [apply Permutation_app_head, IH|].
    rewrite !app_assoc. apply Permutation_app_tail. apply Permutation_app_comm.
  Qed.

  Lemma own_is_flat sh rules d nbs :
    own_lookup raw sh rules d nbs = lookup_flat raw (map (pair sh) rules) d nbs.
  Proof.
    unfold own_lookup, lookup_flat. apply flat_map_ext. intros nb.
    induction rules as [|r rules IH]; cbn; [reflexivity|]. rewrite IH. reflexivity.
  Qed.

  Lemma flat_app a b d nbs :
    Permutation (lookup_flat raw (a ++ b) d nbs) (lookup_flat raw a d nbs ++ lookup_flat raw b d nbs).
  Proof.
    unfold lookup_flat.
    eapply Permutation_trans; [|apply perm_flat_map_app].
    erewrite flat_map_ext; [apply Permutation_refl|]. intros nb. cbn beta. apply flat_map_app.
  Qed.

  Lemma flat_app_single a b d nb :
    lookup_flat raw (a ++ b) d [nb] = lookup_flat raw a d [nb] ++ lookup_flat raw b d [nb].
  Proof. unfold lookup_flat. cbn. rewrite !app_nil_r. apply flat_map_app. Qed.

  Lemma flat_nil d nbs : lookup_flat raw [] d nbs = [].
  Proof. unfold lookup_flat. cbn. apply flat_map_nil_fn. Qed.

  (* inclusion is flattening: the matched pairs found through a tree of registries are those of the flat rule
     list (each rule keeping the normalisation of the registry it was registered in), as a multiset *)
  Theorem include_is_flattening : forall g d nbs,
    Permutation (lookup_nested raw g d nbs) (lookup_flat raw (flatten g) d nbs).
  Proof.
    fix IH 1. intros [sh rules nested] d nbs. cbn [lookup_nested flatten].
    rewrite own_is_flat. eapply Permutation_trans; [|apply Permutation_sym, flat_app].
    apply Permutation_app_head.
    induction nested as [|g gs IHgs]; cbn [flat_map].
    - rewrite flat_nil. constructor.
    - eapply Permutation_trans; [|apply Permutation_sym, flat_app].
      apply Permutation_app; [apply IH | apply IHgs].
  Qed.

  (* ... and in the same ORDER when one neighbour is looked up (the order of the keyed merge of one pair) *)
  Theorem include_is_flattening_single : forall g d nb,
    lookup_nested raw g d [nb] = lookup_flat raw (flatten g) d [nb].
  Proof.
    fix IH 1. intros [sh rules nested] d nb. cbn [lookup_nested flatten].
    rewrite own_is_flat, flat_app_single. f_equal.
    induction nested as [|g gs IHgs]; cbn [flat_map].
    - rewrite flat_nil. reflexivity.
    - rewrite flat_app_single, IH, IHgs. reflexivity.
  Qed.

  (* the flat lookup is Model/Mesh.lookup_direct for the relation "the rule's templates match the names as the
     rule's own registry normalises them" - the match table the correspondence run hands to the executor model *)
  Theorem flat_is_mesh_lookup : forall (matches : nat -> string -> string -> bool) rs d nbs,
    (forall br l r, In br rs ->
       matches (r_id (snd br)) l r = raw (r_id (snd br)) (normalize (fst br) l) (normalize (fst br) r)) ->
    map (fun m => (r_id (m_rule m), m_direct m, m_left m, m_right m)) (lookup_flat raw rs d nbs) =
    map (fun m => (r_id (m_rule m), m_direct m, m_left m, m_right m)) (lookup_direct matches (map snd rs) d nbs).
  Proof.
    intros matches rs d nbs H. unfold lookup_flat, lookup_direct. rewrite !flat_map_concat_map, !concat_map, !map_map.
    f_equal. apply map_ext. intros nb.
    induction rs as [|br rs IH]; cbn; [reflexivity|].
    rewrite !map_app. rewrite IH by (intros; apply H; right; assumption).
    rewrite !(H br) by (left; reflexivity). reflexivity.
  Qed.

  (* the names a matched pair carries are the names the caller passed - never a normalised form: whatever the
     nesting and the flags, every pair is (device, neighbour) or (neighbour, device) for a neighbour of the call *)
  Definition original_names (d : string) (nbs : list string) (m : matched) : Prop :=
    exists nb, In nb nbs /\
      ((m_direct m = true /\ m_left m = d /\ m_right m = nb) \/ (m_direct m = false /\ m_left m = nb /\ m_right m = d)).

  Lemma flat_names rs d nbs m : In m (lookup_flat raw rs d nbs) -> original_names d nbs m.
  Proof.
    unfold lookup_flat. intros H. apply in_flat_map in H. destruct H as [nb [Hnb H]].
    apply in_flat_map in H. destruct H as [br [_ H]]. exists nb. split; [assumption|].
    apply in_app_or in H. destruct H as [H|H].
    - destruct (raw _ _ _); [|contradiction]. destruct H as [H|[]]. subst m. left. cbn. auto.
    - destruct (raw _ _ _); [|contradiction]. destruct H as [H|[]]. subst m. right. cbn. auto.
  Qed.

  Theorem nested_names g d nbs m : In m (lookup_nested raw g d nbs) -> original_names d nbs m.
  Proof.
    intros H. apply (Permutation_in _ (include_is_flattening g d nbs)) in H. eapply flat_names; eassumption.
  Qed.
End P.
