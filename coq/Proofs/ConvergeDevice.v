(* C01, layer 1: the algebra of one device level (Model/Device.v).
   Slots are compared through their key (raw_rule, key); a level with at most one entry
   per slot is described by its unknown entries and by the entry found for every slot;
   every command changes the entry of one slot only. *)
From Coq Require Import List String Bool Arith Lia Permutation.
From Annet Require Import Base.Str Base.Tree Model.Rulebook Model.Device Spec.P_C01.
Import ListNotations.
Open Scope string_scope.
Open Scope list_scope.

(* ---------- generic list facts ---------- *)

Lemma find_split {A} (p : A -> bool) (l : list A) e :
  find p l = Some e -> exists l1 l2, l = l1 ++ e :: l2 /\ forallb (fun x => negb (p x)) l1 = true /\ p e = true.
Proof.
  induction l as [|x l IH]; cbn; intro H; [discriminate|].
  destruct (p x) eqn:E.
  - injection H as ->. exists [], l. cbn. auto.
  - destruct (IH H) as (l1 & l2 & -> & H1 & H2). exists (x :: l1), l2. cbn. rewrite E. auto.
Qed.

Lemma find_none_forallb {A} (p : A -> bool) (l : list A) :
  find p l = None <-> forallb (fun x => negb (p x)) l = true.
Proof.
  induction l as [|x l IH]; cbn; [tauto|].
  destruct (p x); cbn; [split; discriminate | exact IH].
Qed.

Lemma find_app_none {A} (p : A -> bool) (l1 l2 : list A) :
  forallb (fun x => negb (p x)) l1 = true -> find p (l1 ++ l2) = find p l2.
Proof.
  induction l1 as [|x l1 IH]; cbn; [reflexivity|].
  intro H. apply andb_true_iff in H as [H1 H2]. apply negb_true_iff in H1. rewrite H1. auto.
Qed.

Lemma find_ext {A} (p q : A -> bool) (l : list A) : (forall x, p x = q x) -> find p l = find q l.
Proof. intro H. induction l as [|x l IH]; cbn; [reflexivity|]. rewrite H, IH. reflexivity. Qed.

Lemma forallb_app_iff {A} (p : A -> bool) l1 l2 :
  forallb p (l1 ++ l2) = true <-> forallb p l1 = true /\ forallb p l2 = true.
Proof. rewrite forallb_app, andb_true_iff. tauto. Qed.

Lemma tree_eta (t : tree) : T (kids t) = t.
Proof. destruct t. reflexivity. Qed.

(* ---------- slots ---------- *)

Definition key_of (m : minfo) : string * list string := (mi_raw m, mi_key m).

Lemma same_slot_iff a b : same_slot a b = true <-> key_of a = key_of b.
Proof.
  unfold same_slot, key_of. rewrite andb_true_iff, String.eqb_eq, list_str_eqb_eq.
  split; [intros [-> ->]; reflexivity | intro H; injection H; auto].
Qed.
Lemma same_slot_refl a : same_slot a a = true.
Proof. apply same_slot_iff. reflexivity. Qed.
Lemma same_slot_false_iff a b : same_slot a b = false <-> key_of a <> key_of b.
Proof.
  rewrite <- same_slot_iff. destruct (same_slot a b); split; intro H; congruence.
Qed.
Lemma same_slot_sym a b : same_slot a b = same_slot b a.
Proof.
  apply Bool.eq_true_iff_eq. rewrite !same_slot_iff. split; intro H; symmetry; exact H.
Qed.
Lemma same_slot_key a b c : key_of a = key_of b -> same_slot a c = same_slot b c.
Proof. intro H. apply Bool.eq_true_iff_eq. rewrite !same_slot_iff, H. tauto. Qed.
Lemma same_slot_key_r a b c : key_of a = key_of b -> same_slot c a = same_slot c b.
Proof. intro H. rewrite !(same_slot_sym c). apply same_slot_key. exact H. Qed.

Definition key_eq_dec (a b : string * list string) : {a = b} + {a <> b}.
Proof. decide equality; [apply list_eq_dec, string_dec | apply string_dec]. Defined.

Section Level.
  Variable rmatch : string -> string -> option (list string).
  Variable rreverse : string -> list string -> string.
  Variable is_exit : string -> bool.
  Variable rs : rset.

  Notation slot := (slot_of rmatch rs).
  Notation ins := (in_slot rmatch rs).
  Notation rev_of := (reverse_of rreverse).

  (* the key of the slot an entry is in *)
  Definition ekey (e : string * tree) : option (string * list string) := option_map key_of (slot (fst e)).

  Lemma ins_iff s e : ins s e = true <-> ekey e = Some (key_of s).
  Proof.
    unfold in_slot, ekey. destruct (slot (fst e)) as [m|]; cbn.
    - rewrite same_slot_iff. split; [intros ->; reflexivity | intro H; congruence].
    - split; discriminate.
  Qed.
  Lemma ins_by_key s s' e : key_of s = key_of s' -> ins s e = ins s' e.
  Proof. intro H. apply Bool.eq_true_iff_eq. rewrite !ins_iff, H. tauto. Qed.
  Lemma ins_false_iff s e : ins s e = false <-> ekey e <> Some (key_of s).
  Proof.
    rewrite <- ins_iff. destruct (ins s e); split; intro H; congruence.
  Qed.
  Lemma ins_text s r t t' : ins s (r, t) = ins s (r, t').
  Proof. reflexivity. Qed.
  Lemma ekey_text r t t' : ekey (r, t) = ekey (r, t').
  Proof. reflexivity. Qed.

  (* keys of the occupied slots of a level, in order; unknown entries *)
  Definition lkeys (f : forest) : list (string * list string) :=
    flat_map (fun e => match ekey e with Some k => [k] | None => [] end) f.
  Definition unk (f : forest) : forest :=
    filter (fun e => match ekey e with Some _ => false | None => true end) f.
  Definition lvl_uniq (f : forest) : Prop := NoDup (lkeys f).
  Definition sfind (s : minfo) (f : forest) : option (string * tree) := find (ins s) f.

  Lemma lkeys_app a b : lkeys (a ++ b) = lkeys a ++ lkeys b.
  Proof. unfold lkeys. apply flat_map_app. Qed.
  Lemma lkeys_cons e f : lkeys (e :: f) = match ekey e with Some k => [k] | None => [] end ++ lkeys f.
  Proof. reflexivity. Qed.
  Lemma unk_app a b : unk (a ++ b) = unk a ++ unk b.
  Proof. unfold unk. apply filter_app. Qed.

  Lemma lkeys_in k f : In k (lkeys f) <-> exists e, In e f /\ ekey e = Some k.
  Proof.
    unfold lkeys. rewrite in_flat_map. split.
    - intros (e & He & Hk). exists e. split; [exact He|]. destruct (ekey e); cbn in Hk; [|contradiction].
      destruct Hk as [->|[]]. reflexivity.
    - intros (e & He & Hk). exists e. split; [exact He|]. rewrite Hk. now left.
  Qed.

  Lemma noslot_lkeys s f : forallb (fun x => negb (ins s x)) f = true <-> ~ In (key_of s) (lkeys f).
  Proof.
    rewrite forallb_forall, lkeys_in. split.
    - intros H (e & He & Hk). specialize (H e He). apply negb_true_iff in H.
      apply ins_false_iff in H. contradiction.
    - intros H e He. apply negb_true_iff. apply ins_false_iff. intro Hk. apply H. exists e. auto.
  Qed.

  Lemma sfind_key s s' f : key_of s = key_of s' -> sfind s f = sfind s' f.
  Proof. intro H. apply find_ext. intro x. apply ins_by_key. exact H. Qed.

  Lemma sfind_none s f : sfind s f = None <-> ~ In (key_of s) (lkeys f).
  Proof. unfold sfind. rewrite find_none_forallb. apply noslot_lkeys. Qed.

  (* decomposition of a level around the entry of slot s *)
  Lemma sfind_split s f e : lvl_uniq f -> sfind s f = Some e ->
    exists l1 l2, f = l1 ++ e :: l2 /\ ekey e = Some (key_of s) /\
                  ~ In (key_of s) (lkeys l1) /\ ~ In (key_of s) (lkeys l2).
  Proof.
    intros Hu H. destruct (find_split _ _ _ H) as (l1 & l2 & -> & H1 & H2).
    exists l1, l2. apply ins_iff in H2. repeat split; auto.
    - apply noslot_lkeys. exact H1.
    - unfold lvl_uniq in Hu. rewrite lkeys_app, lkeys_cons, H2 in Hu. cbn in Hu.
      apply NoDup_remove_2 in Hu. intro Hin. apply Hu. apply in_or_app. now right.
  Qed.

  Lemma sfind_mid s l1 e l2 : ~ In (key_of s) (lkeys l1) -> ekey e = Some (key_of s) ->
    sfind s (l1 ++ e :: l2) = Some e.
  Proof.
    intros H1 He. unfold sfind. rewrite find_app_none by (apply noslot_lkeys; exact H1).
    cbn. apply ins_iff in He. rewrite He. reflexivity.
  Qed.

  Lemma sfind_skip s l1 e l2 : ekey e <> Some (key_of s) ->
    sfind s (l1 ++ e :: l2) = sfind s (l1 ++ l2).
  Proof.
    intro He. unfold sfind. induction l1 as [|x l1 IH]; cbn.
    - apply ins_false_iff in He. rewrite He. reflexivity.
    - rewrite IH. reflexivity.
  Qed.

  Lemma sfind_app_r s l1 l2 : ~ In (key_of s) (lkeys l1) -> sfind s (l1 ++ l2) = sfind s l2.
  Proof. intro H. apply find_app_none. apply noslot_lkeys. exact H. Qed.

  Lemma sfind_app_l s l1 l2 e : sfind s l1 = Some e -> sfind s (l1 ++ l2) = Some e.
  Proof.
    unfold sfind. induction l1 as [|x l1 IH]; cbn; [discriminate|].
    destruct (ins s x); [auto | exact IH].
  Qed.

  Lemma sfind_in s f e : sfind s f = Some e -> In e f /\ ekey e = Some (key_of s).
  Proof. intro H. apply find_some in H as [H1 H2]. split; [exact H1 | apply ins_iff; exact H2]. Qed.

  Lemma uniq_sfind s f e : lvl_uniq f -> In e f -> ekey e = Some (key_of s) -> sfind s f = Some e.
  Proof.
    intros Hu Hin He. apply in_split in Hin as (l1 & l2 & ->).
    apply sfind_mid; [|exact He].
    unfold lvl_uniq in Hu. rewrite lkeys_app, lkeys_cons, He in Hu. cbn in Hu.
    apply NoDup_remove_2 in Hu. intro H. apply Hu. apply in_or_app. now left.
  Qed.

  (* membership in a level through its two views *)
  Lemma unk_in e f : In e (unk f) <-> In e f /\ ekey e = None.
  Proof.
    unfold unk. rewrite filter_In. destruct (ekey e); split; intros [H1 H2]; split; auto; discriminate.
  Qed.

  Lemma level_in e f : lvl_uniq f ->
    (In e f <-> In e (unk f) \/ exists s, ekey e = Some (key_of s) /\ sfind s f = Some e).
  Proof.
    intro Hu. split.
    - intro Hin. destruct (ekey e) as [k|] eqn:E.
      + right. unfold ekey in E. destruct (slot (fst e)) as [m|] eqn:Em; [|discriminate].
        cbn in E. injection E as <-. exists m. split.
        * unfold ekey; rewrite ?Em; reflexivity.
        * apply uniq_sfind; auto. unfold ekey; rewrite ?Em; reflexivity.
      + left. apply unk_in. auto.
    - intros [H|(s & _ & H)]; [apply unk_in in H; tauto | apply sfind_in in H; tauto].
  Qed.

  (* ---------- a direct command ---------- *)

  Lemma replace_slot_mid s e' l1 e l2 : ~ In (key_of s) (lkeys l1) -> ekey e = Some (key_of s) ->
    replace_slot rmatch rs s e' (l1 ++ e :: l2) = l1 ++ e' :: l2.
  Proof.
    intros H1 He. induction l1 as [|x l1 IH]; cbn.
    - apply ins_iff in He. rewrite He. reflexivity.
    - rewrite lkeys_cons in H1. destruct (ins s x) eqn:E.
      + apply ins_iff in E. rewrite E in H1. exfalso. apply H1. now left.
      + f_equal. apply IH. intro H. apply H1. apply in_or_app. now right.
  Qed.
  Lemma remove_slot_mid s l1 e l2 : ~ In (key_of s) (lkeys l1) -> ekey e = Some (key_of s) ->
    remove_slot rmatch rs s (l1 ++ e :: l2) = l1 ++ l2.
  Proof.
    intros H1 He. induction l1 as [|x l1 IH]; cbn.
    - apply ins_iff in He. rewrite He. reflexivity.
    - rewrite lkeys_cons in H1. destruct (ins s x) eqn:E.
      + apply ins_iff in E. rewrite E in H1. exfalso. apply H1. now left.
      + f_equal. apply IH. intro H. apply H1. apply in_or_app. now right.
  Qed.

  (* the subtree a direct command leaves in its slot *)
  Definition direct_sub (cmd : string) (crs : rset) (o : option (string * tree)) : forest :=
    match o with
    | Some e => if String.eqb (fst e) cmd then enter rmatch crs (kids (snd e)) else []
    | None => []
    end.

  (* shape of the level after a direct command: the entry of slot s is replaced (in place or
     at the end), nothing else moves *)
  Lemma exec_direct_shape cmd s crs f : lvl_uniq f -> ekey (cmd, T []) = Some (key_of s) ->
    let x := (cmd, T (direct_sub cmd crs (sfind s f))) in
    (sfind s f = None /\ exec_direct rmatch rs cmd s crs f = f ++ [x]) \/
    (exists l1 e l2, f = l1 ++ e :: l2 /\ ekey e = Some (key_of s) /\
                     ~ In (key_of s) (lkeys l1) /\ ~ In (key_of s) (lkeys l2) /\
                     (exec_direct rmatch rs cmd s crs f = l1 ++ x :: l2 \/
                      exec_direct rmatch rs cmd s crs f = l1 ++ l2 ++ [x])).
  Proof.
    intros Hu Hc x. unfold exec_direct. fold (sfind s f).
    destruct (sfind s f) as [e|] eqn:E.
    - right. destruct (sfind_split _ _ _ Hu E) as (l1 & l2 & -> & He & H1 & H2).
      exists l1, e, l2. repeat split; auto. subst x. cbn [direct_sub].
      destruct (String.eqb (fst e) cmd) eqn:Et.
      + left. apply replace_slot_mid; auto.
      + destruct (is_ordered s).
        * right. rewrite remove_slot_mid by auto. rewrite app_assoc. reflexivity.
        * left. apply replace_slot_mid; auto.
    - left. split; reflexivity.
  Qed.

  Lemma lkeys_one r t k : ekey (r, T []) = Some k -> lkeys [(r, t)] = [k].
  Proof. intro H. unfold lkeys. cbn. change (ekey (r, t)) with (ekey (r, T [])). rewrite H. reflexivity. Qed.
  Lemma lkeys_mid l1 e l2 : lkeys (l1 ++ e :: l2) = lkeys l1 ++ lkeys [e] ++ lkeys l2.
  Proof. change (e :: l2) with ([e] ++ l2). rewrite !lkeys_app. reflexivity. Qed.
  Lemma lkeys_known e k : ekey e = Some k -> lkeys [e] = [k].
  Proof. intro H. unfold lkeys. cbn. rewrite H. reflexivity. Qed.

  Lemma exec_direct_lkeys cmd s crs f : lvl_uniq f -> ekey (cmd, T []) = Some (key_of s) ->
    Permutation (lkeys (exec_direct rmatch rs cmd s crs f))
                (match sfind s f with Some _ => lkeys f | None => key_of s :: lkeys f end).
  Proof.
    intros Hu Hc. destruct (exec_direct_shape cmd s crs f Hu Hc) as [[E ->]|(l1 & e & l2 & -> & He & H1 & H2 & [->| ->])].
    - rewrite E, lkeys_app, (lkeys_one _ _ _ Hc).
      apply Permutation_sym. apply Permutation_cons_append.
    - rewrite (sfind_mid s l1 e l2 H1 He). rewrite !lkeys_mid, (lkeys_one _ _ _ Hc), (lkeys_known _ _ He).
      apply Permutation_refl.
    - rewrite (sfind_mid s l1 e l2 H1 He). rewrite lkeys_mid, !lkeys_app, (lkeys_one _ _ _ Hc), (lkeys_known _ _ He).
      apply Permutation_app_head. cbn. apply Permutation_sym. apply Permutation_cons_append.
  Qed.

  Lemma exec_direct_uniq cmd s crs f : lvl_uniq f -> ekey (cmd, T []) = Some (key_of s) ->
    lvl_uniq (exec_direct rmatch rs cmd s crs f).
  Proof.
    intros Hu Hc. unfold lvl_uniq. eapply Permutation_NoDup.
    - apply Permutation_sym. apply exec_direct_lkeys; auto.
    - destruct (sfind s f) eqn:E; [exact Hu|]. constructor; [|exact Hu]. apply sfind_none. exact E.
  Qed.

  Lemma exec_direct_unk cmd s crs f : lvl_uniq f -> ekey (cmd, T []) = Some (key_of s) ->
    unk (exec_direct rmatch rs cmd s crs f) = unk f.
  Proof.
    intros Hu Hc.
    assert (Hx : forall t, unk [(cmd, t)] = []).
    { intro t. unfold unk. cbn. rewrite (ekey_text cmd t (T [])), Hc. reflexivity. }
    destruct (exec_direct_shape cmd s crs f Hu Hc) as [[E ->]|(l1 & e & l2 & -> & He & H1 & H2 & [->| ->])].
    - rewrite unk_app, Hx, app_nil_r. reflexivity.
    - rewrite !unk_app. change (?a :: l2) with ([a] ++ l2). rewrite !unk_app, Hx.
      unfold unk at 3. cbn. rewrite He. reflexivity.
    - rewrite !unk_app, Hx, app_nil_r. change (e :: l2) with ([e] ++ l2). rewrite unk_app.
      unfold unk at 4. cbn. rewrite He. reflexivity.
  Qed.

  Lemma sfind_one s e : ekey e = Some (key_of s) -> sfind s [e] = Some e.
  Proof. intro H. unfold sfind. cbn. apply ins_iff in H. rewrite H. reflexivity. Qed.

  Lemma exec_direct_same cmd s crs f : lvl_uniq f -> ekey (cmd, T []) = Some (key_of s) ->
    sfind s (exec_direct rmatch rs cmd s crs f) = Some (cmd, T (direct_sub cmd crs (sfind s f))).
  Proof.
    intros Hu Hc.
    assert (Hx : forall t, ekey (cmd, t) = Some (key_of s)) by (intro t; exact Hc).
    destruct (exec_direct_shape cmd s crs f Hu Hc) as [[E ->]|(l1 & e & l2 & -> & He & H1 & H2 & [->| ->])].
    - rewrite sfind_app_r by (apply sfind_none; exact E). apply sfind_one. apply Hx.
    - apply sfind_mid; auto.
    - rewrite app_assoc. rewrite sfind_app_r.
      + apply sfind_one. apply Hx.
      + rewrite lkeys_app. intro H. apply in_app_or in H as [H|H]; contradiction.
  Qed.

  Lemma exec_direct_other cmd s crs f s' : lvl_uniq f -> ekey (cmd, T []) = Some (key_of s) ->
    key_of s' <> key_of s -> sfind s' (exec_direct rmatch rs cmd s crs f) = sfind s' f.
  Proof.
    intros Hu Hc Hne.
    assert (Hx : forall t, ekey (cmd, t) <> Some (key_of s')).
    { intro t. change (ekey (cmd, t)) with (ekey (cmd, T [])). rewrite Hc. congruence. }
    destruct (exec_direct_shape cmd s crs f Hu Hc) as [[E ->]|(l1 & e & l2 & -> & He & H1 & H2 & [->| ->])].
    - change ([?a]) with (a :: []). rewrite sfind_skip by apply Hx. rewrite app_nil_r. reflexivity.
    - rewrite !sfind_skip; auto. rewrite He. congruence.
    - rewrite app_assoc. change ([?a]) with (a :: []). rewrite sfind_skip by apply Hx.
      rewrite app_nil_r. rewrite sfind_skip; auto. rewrite He. congruence.
  Qed.

  (* ---------- a removal command ---------- *)

  Definition rhits (cmd : string) := reverse_hits rmatch rreverse rs cmd.

  Lemma filter_lkeys_incl p f k : In k (lkeys (filter p f)) -> In k (lkeys f).
  Proof.
    rewrite !lkeys_in. intros (e & He & Hk). apply filter_In in He as [He _]. exists e. auto.
  Qed.

  Lemma filter_uniq p f : lvl_uniq f -> lvl_uniq (filter p f).
  Proof.
    unfold lvl_uniq. induction f as [|e f IH]; intro H.
    - constructor.
    - rewrite lkeys_cons in H. cbn [filter]. destruct (p e).
      + rewrite lkeys_cons. destruct (ekey e) as [k|]; cbn [app] in *.
        * inversion H as [|k' l' Hn Hd]; subst. constructor; [|auto].
          intro Hin. apply Hn. eapply filter_lkeys_incl. exact Hin.
        * auto.
      + apply IH. destruct (ekey e); cbn [app] in H; [inversion H; auto | exact H].
  Qed.

  Lemma filter_unk_id p f : (forall e, In e f -> ekey e = None -> p e = true) -> unk (filter p f) = unk f.
  Proof.
    intro H. unfold unk. induction f as [|e f IH]; cbn; [reflexivity|].
    destruct (p e) eqn:E; cbn.
    - destruct (ekey e); [|f_equal]; apply IH; intros; apply H; auto; now right.
    - destruct (ekey e) eqn:Ek.
      + apply IH; intros; apply H; auto; now right.
      + rewrite H in E; [discriminate | now left | exact Ek].
  Qed.

  Lemma sfind_filter s p f : lvl_uniq f ->
    sfind s (filter p f) = match sfind s f with Some e => if p e then Some e else None | None => None end.
  Proof.
    intro Hu. destruct (sfind s f) as [e|] eqn:E.
    - destruct (sfind_split _ _ _ Hu E) as (l1 & l2 & -> & He & H1 & H2).
      rewrite filter_app. cbn. destruct (p e).
      + apply sfind_mid; auto. intro H. apply H1. eapply filter_lkeys_incl. exact H.
      + apply sfind_none. rewrite lkeys_app. intro H. apply in_app_or in H as [H|H];
          [apply H1 | apply H2]; eapply filter_lkeys_incl; exact H.
    - apply sfind_none. apply sfind_none in E. intro H. apply E. eapply filter_lkeys_incl. exact H.
  Qed.

  Lemma rhits_unknown cmd e : ekey e = None -> rhits cmd e = false.
  Proof.
    unfold rhits, reverse_hits, ekey. destruct (slot (fst e)); [discriminate | reflexivity].
  Qed.

  Lemma exec_reverse_unk cmd f : unk (filter (fun e => negb (rhits cmd e)) f) = unk f.
  Proof. apply filter_unk_id. intros e _ He. rewrite rhits_unknown by exact He. reflexivity. Qed.

  (* ---------- exec_cmd on a level whose rows come from a universe with unambiguous removal commands ---------- *)

  Lemma slot_match row : slot row = option_map fst (match_row rmatch row rs).
  Proof. reflexivity. Qed.

  Lemma exec_cmd_exit cmd f : is_exit cmd = true -> exec_cmd rmatch rreverse is_exit rs cmd f = f.
  Proof. intro H. unfold exec_cmd. rewrite H. reflexivity. Qed.

  Lemma exec_cmd_direct cmd s crs f : is_exit cmd = false -> match_row rmatch cmd rs = Some (s, crs) ->
    exec_cmd rmatch rreverse is_exit rs cmd f = exec_direct rmatch rs cmd s crs f.
  Proof. intros H1 H2. unfold exec_cmd. rewrite H1, H2. reflexivity. Qed.

  Lemma exec_cmd_reverse cmd f : is_exit cmd = false -> match_row rmatch cmd rs = None ->
    exec_cmd rmatch rreverse is_exit rs cmd f = filter (fun e => negb (rhits cmd e)) f.
  Proof. intros H1 H2. unfold exec_cmd. rewrite H1, H2. reflexivity. Qed.

  Lemma match_ekey cmd s crs t : match_row rmatch cmd rs = Some (s, crs) -> ekey (cmd, t) = Some (key_of s).
  Proof. intro H. unfold ekey, slot_of. cbn. rewrite H. reflexivity. Qed.

  (* the rows of a level are among those of the universe; conditions on the universe *)
  Definition rows_in (U f : forest) : Prop := forall e, In e f -> In (fst e) (keys U).

  Record lvl_ok (U : forest) : Prop := {
    lo_row_not_exit : forall r s, In r (keys U) -> slot r = Some s -> is_exit r = false;
    lo_rev_unmatched : forall r s, In r (keys U) -> slot r = Some s -> match_row rmatch (rev_of s) rs = None;
    lo_rev_not_exit : forall r s, In r (keys U) -> slot r = Some s -> is_exit (rev_of s) = false;
    lo_rev_inj : forall r s r2 s2, In r (keys U) -> slot r = Some s -> In r2 (keys U) -> slot r2 = Some s2 ->
                                   rev_of s2 = rev_of s -> key_of s2 = key_of s;
    lo_attrs : forall r s r2 s2, In r (keys U) -> slot r = Some s -> In r2 (keys U) -> slot r2 = Some s2 ->
                                 mi_raw s2 = mi_raw s -> mi_attrs s2 = mi_attrs s
  }.

  Lemma rev_of_key U r s r2 s2 : lvl_ok U -> In r (keys U) -> slot r = Some s -> In r2 (keys U) -> slot r2 = Some s2 ->
    key_of s2 = key_of s -> rev_of s2 = rev_of s.
  Proof.
    intros HU H1 H2 H3 H4 Hk. unfold reverse_of. injection Hk as Hr Hkk.
    rewrite (lo_attrs U HU r s r2 s2 H1 H2 H3 H4 Hr), Hkk. reflexivity.
  Qed.

  (* a removal command empties its slot and nothing else *)
  Lemma exec_reverse_sfind U r s f s' : lvl_ok U -> rows_in U f -> lvl_uniq f ->
    In r (keys U) -> slot r = Some s ->
    sfind s' (filter (fun e => negb (rhits (rev_of s) e)) f) =
    if key_eq_dec (key_of s') (key_of s) then None else sfind s' f.
  Proof.
    intros HU Hin Hu Hr Hs. rewrite sfind_filter by exact Hu.
    destruct (sfind s' f) as [e|] eqn:E; [|destruct (key_eq_dec _ _); reflexivity].
    apply sfind_in in E as [He Hk].
    assert (HeU := Hin e He).
    unfold ekey in Hk. destruct (slot (fst e)) as [m|] eqn:Em; [|discriminate]. cbn in Hk.
    injection Hk as Hk Hk2. assert (Hkey : key_of m = key_of s') by (unfold key_of; congruence).
    unfold rhits, reverse_hits. rewrite Em.
    destruct (key_eq_dec (key_of s') (key_of s)) as [Heq|Hne].
    - rewrite (rev_of_key U r s (fst e) m HU Hr Hs HeU Em) by congruence.
      rewrite String.eqb_refl. reflexivity.
    - destruct (String.eqb_spec (rev_of m) (rev_of s)) as [Hrv|Hrv]; [|reflexivity].
      exfalso. apply Hne. rewrite <- Hkey. exact (lo_rev_inj U HU r s (fst e) m Hr Hs HeU Em Hrv).
  Qed.

  Lemma rows_in_filter U p f : rows_in U f -> rows_in U (filter p f).
  Proof. intros H e He. apply filter_In in He as [He _]. auto. Qed.

  Lemma rows_in_direct U cmd s crs f : rows_in U f -> In cmd (keys U) -> lvl_uniq f ->
    ekey (cmd, T []) = Some (key_of s) -> rows_in U (exec_direct rmatch rs cmd s crs f).
  Proof.
    intros H Hc Hu Hk e He.
    destruct (exec_direct_shape cmd s crs f Hu Hk) as [[E Hx]|(l1 & e0 & l2 & -> & He0 & H1 & H2 & [Hx|Hx])];
      rewrite Hx in He; clear Hx.
    - apply in_app_or in He as [He|[<-|[]]]; auto.
    - apply in_app_or in He as [He|[<-|He]]; auto; apply H; apply in_or_app; [now left | right; now right].
    - apply in_app_or in He as [He|He]; [apply H; apply in_or_app; now left|].
      apply in_app_or in He as [He|[<-|[]]]; auto. apply H. apply in_or_app. right. now right.
  Qed.
End Level.
