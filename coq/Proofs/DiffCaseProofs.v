(* C03, %ignore_case: the lowered side the diff describes is a re-spelling of the original side ([spelt]); a
   re-spelling differs from the original only in the case of rows ([ci_eq]) and not at all without %ignore_case rows. *)
From Coq Require Import List String Bool Arith Lia.
From Annet Require Import Base.Str Base.Tree Model.Pattern Model.Rulebook Model.Diff Model.DiffX Spec.P_C03 Spec.P_C03X Spec.P_C03Case
  Proofs.DiffBasics Proofs.DiffProofsLib Proofs.DiffProofsProj Proofs.DiffXProofs Proofs.RegexProofs.
Import ListNotations.
Open Scope list_scope.

Lemma ci_eq_refl : forall f, ci_eq f f.
Proof.
  apply (forest_ind2 (fun t => ci_eq (kids t) (kids t)) (fun f => ci_eq f f)).
  - intros k H. exact H.
  - constructor.
  - intros r [k] l Hk Hl. constructor; [reflexivity | exact Hk | exact Hl].
Qed.

Lemma ci_eq_sym a b : ci_eq a b -> ci_eq b a.
Proof. induction 1; constructor; auto. Qed.

Lemma ci_eq_trans a b : ci_eq a b -> forall c, ci_eq b c -> ci_eq a c.
Proof.
  induction 1 as [|r r' k k' l l' Er _ IHk _ IHl]; intros c Hc; inversion Hc; subst; constructor.
  - congruence.
  - apply IHk. assumption.
  - apply IHl. assumption.
Qed.

Section X.
  Variable fl : minfo -> xflags.

  Lemma low_cases m r : low fl m r = r \/ (ic fl m = true /\ low fl m r = lower_str r).
  Proof. unfold low. destruct (ic fl m); [right; auto | left; reflexivity]. Qed.

  Theorem spelt_lower : forall t, spelt fl (akids t) (erase_f (lower_f fl (akids t))).
  Proof.
    induction t as [k IH] using atree_ind2. cbn [akids].
    induction k as [|[[r m] s] k IHk]; [constructor|].
    inversion IH as [|? ? Hs Hk]; subst. cbn [asub snd] in Hs.
    rewrite lower_cons, erase_f_cons. destruct (ml fl m) eqn:Em.
    - apply sp_body; [exact Em | apply low_cases | apply IHk; exact Hk].
    - destruct s as [ks]. rewrite lower_t_AT, erase_AT. cbn [akids] in Hs.
      apply sp_row; [exact Em | apply low_cases | exact Hs | apply IHk; exact Hk].
  Qed.

  Theorem spelt_lower_f f : spelt fl f (erase_f (lower_f fl f)).
  Proof. exact (spelt_lower (AT f)). Qed.

  Theorem spelt_ci f g : spelt fl f g -> ci_eq g (erase_f f).
  Proof.
    induction 1 as [|r m s l r' l' Em Hr _ IHl|r m s l r' k' l' Em Hr _ IHk _ IHl]; [constructor| |]; rewrite erase_f_cons.
    - destruct (erase s) as [ks] eqn:Es. constructor; [|apply ci_eq_refl | exact IHl].
      destruct Hr as [E|[_ E]]; subst r'; [reflexivity | apply lower_str_idem].
    - pose proof (erase_kids s) as Ek. destruct (erase s) as [ks]. cbn [kids] in Ek. subst ks.
      constructor; [|exact IHk | exact IHl].
      destruct Hr as [E|[_ E]]; subst r'; [reflexivity | apply lower_str_idem].
  Qed.

  (* without rows of %ignore_case rules a re-spelling is the configuration itself *)
  Theorem spelt_noic : forall t g, noic fl (akids t) = true -> spelt fl (akids t) g -> g = erase_f (akids t).
  Proof.
    induction t as [k IH] using atree_ind2. cbn [akids].
    induction k as [|[[r m] s] k IHk]; intros g Hn H.
    - inversion H. reflexivity.
    - inversion IH as [|? ? Hs Hk]; subst. cbn [asub snd] in Hs.
      rewrite noic_cons in Hn. apply andb_true_iff in Hn as [Hn H3]. apply andb_true_iff in Hn as [H1 H2].
      apply negb_true_iff in H1. rewrite erase_f_cons.
      inversion H as [|? ? ? ? r' l' Em Hr Hl|? ? ? ? r' k' l' Em Hr Hsub Hl]; subst.
      + destruct Hr as [E|[E _]]; [|congruence]. subst r'. f_equal. apply IHk; assumption.
      + destruct Hr as [E|[E _]]; [|congruence]. subst r'. rewrite (Hs k' H2 Hsub). rewrite (IHk Hk l' H3 Hl).
        pose proof (erase_kids s) as Ek. destruct (erase s) as [ks]. cbn [kids] in Ek. subst ks. reflexivity.
  Qed.
End X.
