(* C01, layer 3: formatter.cmd_paths of a patch tree, executed path by path, is the patch
   tree executed item by item (ConvergeRun.run_pt).
   cmd_paths = path_stack (blocks ...) is first reduced to the undeduplicated list of paths
   [lp]; the odict deduplication of cmd_paths only ever drops block-exit paths, which do
   nothing on the device. *)
From Coq Require Import List String Bool Arith Lia Permutation.
From Annet Require Import Base.Str Base.Tree Model.Rulebook Model.Diff Model.Order Model.Patch Model.Blocks Model.Device
     Spec.P_C01 Proofs.DiffProofsLib Proofs.ConvergeDevice Proofs.ConvergeRun.
Import ListNotations.
Open Scope string_scope.
Open Scope list_scope.

(* ---------- induction principle for ptree ---------- *)
Section PtreeInd.
  Variable P : ptree -> Prop.
  Definition child_P (i : string * option ptree * skey) : Prop :=
    match snd (fst i) with Some c => P c | None => True end.
  Hypothesis H : forall items, Forall child_P items -> P (PT items).
  Fixpoint ptree_ind2 (t : ptree) : P t :=
    match t with
    | PT items =>
      H items ((fix go (l : list (string * option ptree * skey)) : Forall child_P l :=
                  match l with
                  | [] => Forall_nil child_P
                  | (r, c, k) :: l' =>
                    @Forall_cons _ child_P (r, c, k) l'
                                 (match c as c0 return child_P (r, c0, k) with
                                  | Some ct => ptree_ind2 ct
                                  | None => I
                                  end) (go l')
                  end) items)
    end.
End PtreeInd.

(* ---------- path_stack without deduplication ---------- *)
Fixpoint raw_stack (s : list elem) (path : list string) : list (list string) :=
  match s with
  | [] => []
  | BBegin :: r => raw_stack r (path ++ [last path ""])
  | BEnd :: r => raw_stack r (removelast path)
  | Row x :: r => let path' := removelast path ++ [x] in path' :: raw_stack r path'
  end.

(* the paths not yet seen, in order *)
Fixpoint nd (acc ps : list (list string)) : list (list string) :=
  match ps with
  | [] => []
  | p :: ps' => if existsb (list_str_eqb p) acc then nd acc ps' else p :: nd (acc ++ [p]) ps'
  end.

Lemma path_stack_nd : forall s path acc, path_stack s path acc = acc ++ nd acc (raw_stack s path).
Proof.
  induction s as [|e s IH]; intros path acc; cbn.
  - rewrite app_nil_r. reflexivity.
  - destruct e as [x| |]; cbn; try apply IH.
    rewrite IH. destruct (existsb (list_str_eqb (removelast path ++ [x])) acc); [reflexivity|].
    rewrite <- app_assoc. reflexivity.
Qed.

Lemma existsb_list_In p acc : existsb (list_str_eqb p) acc = true <-> In p acc.
Proof.
  rewrite existsb_exists. split.
  - intros (x & Hx & E). apply list_str_eqb_eq in E. subst. exact Hx.
  - intro H. exists p. split; [exact H | apply list_str_eqb_eq; reflexivity].
Qed.

(* ---------- the undeduplicated command paths of a patch tree ---------- *)
Definition next_row (l : list (string * option ptree * skey)) : option string :=
  match l with (n, _, _) :: _ => if is_empty n then None else Some n | [] => None end.

(* paths emitted by a block-exit statement of block [row] *)
Definition xp (row : string) (xs : list elem) : list (list string) :=
  match xs with
  | [BBegin; Row ex; BEnd] => [[row; ex]]
  | [Row ex] => [[ex]]
  | _ => []
  end.

Fixpoint lp (f : family) (parent : string) (t : ptree) {struct t} : list (list string) :=
  match t with
  | PT items =>
    (fix go (l : list (string * option ptree * skey)) : list (list string) :=
       match l with
       | [] => []
       | (row, child, _) :: l' =>
         [row] ::
         match child with
         | Some ct => map (cons row) (lp f row ct) ++ xp row (exit_stmt f parent row (next_row l'))
         | None => []
         end ++ go l'
       end) items
  end.

Lemma lp_cons f parent row child sk l :
  lp f parent (PT ((row, child, sk) :: l)) =
  [row] :: match child with
           | Some ct => map (cons row) (lp f row ct) ++ xp row (exit_stmt f parent row (next_row l))
           | None => []
           end ++ lp f parent (PT l).
Proof. reflexivity. Qed.

Lemma blocks_cons f parent row child sk l :
  blocks f parent (PT ((row, child, sk) :: l)) =
  Row row :: match child with
             | Some ct => BBegin :: blocks f row ct ++ BEnd :: exit_stmt f parent row (next_row l)
             | None => []
             end ++ blocks f parent (PT l).
Proof. reflexivity. Qed.

Ltac ex_tac := cbn; split; [repeat (first [left; reflexivity | right]) | reflexivity].

(* the three shapes of a block-exit statement *)
Lemma exit_stmt_shape f parent row next :
  exit_stmt f parent row next = [] \/
  (exists ex, In ex (family_exits f) /\ exit_stmt f parent row next = wrap ex) \/
  (exists ex, In ex (family_exits f) /\ exit_stmt f parent row next = [Row ex]).
Proof.
  assert (D : forall ex noex, In ex (family_exits f) ->
            (if negb (is_empty row) && negb (any_prefix noex row) then wrap ex else []) = [] \/
            (exists ex0, In ex0 (family_exits f) /\
                         (if negb (is_empty row) && negb (any_prefix noex row) then wrap ex else []) = wrap ex0) \/
            (exists ex0, In ex0 (family_exits f) /\
                         (if negb (is_empty row) && negb (any_prefix noex row) then wrap ex else []) = [Row ex0])).
  { intros ex noex Hin. destruct (negb (is_empty row) && negb (any_prefix noex row)); [|now left].
    right. left. exists ex. auto. }
  destruct f; cbn [exit_stmt family_exits]; try (now left).
  - apply D. now left.
  - destruct (startswith "xpl route-filter" row); [right; left; exists "end-filter"; ex_tac|].
    destruct (startswith "xpl" row); [right; left; exists "end-list"; ex_tac|].
    destruct (startswith "xpl route-filter" parent).
    + destruct ((startswith "if" row || startswith "elseif" row) && endswith "then" row &&
                match next with None => true | Some _ => false end);
        [right; right; exists "endif"; ex_tac|].
      destruct (String.eqb row "else"); [right; right; exists "endif"; ex_tac | now left].
    + apply D. cbn. auto 10.
  - destruct (startswith "address-family" row); [right; left; exists "exit-address-family"; ex_tac|].
    apply D. cbn. auto.
  - destruct (any_prefix _ row); [right; left; exists "end-set"; ex_tac|].
    destruct (startswith "if" row && endswith "then" row); [right; left; exists "endif"; ex_tac|].
    destruct (startswith "route-policy" row); [right; left; exists "end-policy"; ex_tac|].
    apply D. cbn. auto.
Qed.

Lemma removelast_snoc {A} (l : list A) x : removelast (l ++ [x]) = l.
Proof. apply removelast_last. Qed.

(* raw_stack of the stream of one level: the level's paths under the current prefix *)
Lemma raw_blocks f : forall t parent rest path,
  exists path', removelast path' = removelast path /\
    raw_stack (blocks f parent t ++ rest) path =
    map (app (removelast path)) (lp f parent t) ++ raw_stack rest path'.
Proof.
  apply (ptree_ind2 (fun t => forall parent rest path,
    exists path', removelast path' = removelast path /\
      raw_stack (blocks f parent t ++ rest) path =
      map (app (removelast path)) (lp f parent t) ++ raw_stack rest path')).
  intros items IH. induction items as [|[[row child] sk] l IHl]; intros parent rest path.
  - exists path. split; reflexivity.
  - inversion IH as [|i l0 Hi Hl]; subst. specialize (IHl Hl).
    rewrite blocks_cons, lp_cons. cbn [snd fst] in Hi.
    set (pre := removelast path).
    destruct child as [ct|].
    + (* a block *)
      unfold child_P in Hi. cbn [snd fst] in Hi.
      cbn [app raw_stack]. fold pre.
      rewrite <- !app_assoc. cbn [app].
      destruct (Hi row (BEnd :: exit_stmt f parent row (next_row l) ++ blocks f parent (PT l) ++ rest)
                   ((pre ++ [row]) ++ [last (pre ++ [row]) ""])) as (p1 & Hp1 & E1).
      rewrite removelast_snoc in Hp1, E1.
      replace (pre ++ [row; last (pre ++ [row]) ""]) with ((pre ++ [row]) ++ [last (pre ++ [row]) ""])
        by (rewrite <- app_assoc; reflexivity).
      rewrite E1. cbn [raw_stack]. rewrite Hp1.
      (* after BEnd the path is pre ++ [row] again *)
      assert (Hx : exists path2, removelast path2 = pre /\
                 raw_stack (exit_stmt f parent row (next_row l) ++ blocks f parent (PT l) ++ rest) (pre ++ [row]) =
                 map (app pre) (xp row (exit_stmt f parent row (next_row l))) ++
                 raw_stack (blocks f parent (PT l) ++ rest) path2).
      { destruct (exit_stmt_shape f parent row (next_row l)) as [E|[(ex & _ & E)|(ex & _ & E)]]; rewrite E.
        - exists (pre ++ [row]). split; [apply removelast_snoc | reflexivity].
        - exists (pre ++ [row]). split; [apply removelast_snoc|].
          unfold wrap. cbn [app raw_stack xp map]. rewrite !removelast_snoc.
          rewrite <- app_assoc. reflexivity.
        - exists (pre ++ [ex]). split; [apply removelast_snoc|].
          cbn [app raw_stack xp map]. rewrite removelast_snoc. reflexivity. }
      destruct Hx as (path2 & Hp2 & E2). rewrite E2.
      destruct (IHl parent rest path2) as (p3 & Hp3 & E3). rewrite E3, Hp2.
      exists p3. split; [rewrite Hp3; exact Hp2|].
      cbn [map app]. f_equal. rewrite !map_app, map_map, <- ?app_assoc. f_equal.
      apply map_ext. intro a. rewrite <- app_assoc. reflexivity.
    + (* a leaf *)
      cbn [app raw_stack]. fold pre.
      destruct (IHl parent rest (pre ++ [row])) as (p3 & Hp3 & E3).
      rewrite removelast_snoc in Hp3, E3. rewrite E3.
      exists p3. split; [exact Hp3 | reflexivity].
Qed.

Lemma cmd_paths_nd f t : (match f with FJuniper _ _ => False | _ => True end) ->
  cmd_paths f t = nd [] (lp f "" t).
Proof.
  intro Hf. assert (E : cmd_paths f t = path_stack (blocks f "" t) [] []) by (destruct f; try reflexivity; destruct Hf).
  rewrite E, path_stack_nd. cbn [app].
  destruct (raw_blocks f t "" [] []) as (p' & _ & E2). rewrite app_nil_r in E2. rewrite E2.
  cbn [removelast raw_stack]. rewrite app_nil_r. f_equal.
  rewrite <- (map_id (lp f "" t)) at 2. apply map_ext. reflexivity.
Qed.

(* ---------- executing the paths ---------- *)
Section Exec.
  Variable rmatch : string -> string -> option (list string).
  Variable rreverse : string -> list string -> string.
  Variable is_exit : string -> bool.
  Variable fam : family.
  Hypothesis Hex : forall ex, In ex (family_exits fam) -> is_exit ex = true.

  Notation xcmd := (exec_cmd rmatch rreverse is_exit).
  Notation xpath := (exec_path rmatch rreverse is_exit).
  Notation xexec := (exec rmatch rreverse is_exit).
  Notation run_pt := (run_pt rmatch rreverse is_exit).
  Notation run_item := (run_item rmatch rreverse is_exit).

  Definition noopb (p : list string) : bool := is_exit (last p "").

  (* a path ending in an exit word does nothing *)
  Lemma exec_path_noop : forall p rs f, noopb p = true -> xpath rs p f = f.
  Proof.
    unfold noopb. induction p as [|c rest IH]; intros rs f H; [reflexivity|].
    destruct rest as [|r rest'].
    - cbn in *. unfold exec_cmd. rewrite H. reflexivity.
    - rewrite exec_path_cons2. destruct (match_row rmatch c rs) as [[s crs]|]; [|reflexivity].
      rewrite (nav_ext c _ (fun x => x)); [apply nav_id|].
      intro x. apply IH. exact H.
  Qed.

  Lemma exec_noops rs ps f : Forall (fun p => noopb p = true) ps -> xexec rs ps f = f.
  Proof.
    intro H. revert f. induction H as [|p ps Hp Hps IH]; intro f; [reflexivity|].
    rewrite exec_cons, exec_path_noop by exact Hp. apply IH.
  Qed.

  Definition np (ps : list (list string)) : list (list string) := filter (fun p => negb (noopb p)) ps.

  (* dropping paths already seen is harmless when only no-op paths repeat *)
  Lemma exec_nd rs : forall ps acc f, NoDup (np ps) -> (forall p, In p acc -> ~ In p (np ps)) ->
    xexec rs (nd acc ps) f = xexec rs ps f.
  Proof.
    induction ps as [|p ps IH]; intros acc f Hnd Hacc; [reflexivity|].
    cbn [nd]. destruct (existsb (list_str_eqb p) acc) eqn:E.
    - apply existsb_list_In in E. assert (Hn : noopb p = true).
      { destruct (noopb p) eqn:En; [reflexivity|]. exfalso. apply (Hacc p E). unfold np. cbn. rewrite En. now left. }
      rewrite exec_cons, exec_path_noop by exact Hn. apply IH.
      + unfold np in *. cbn in Hnd. rewrite Hn in Hnd. exact Hnd.
      + intros q Hq Hin. apply (Hacc q Hq). unfold np in *. cbn. rewrite Hn. exact Hin.
    - rewrite !exec_cons. apply IH.
      + unfold np in *. cbn in Hnd. destruct (noopb p); cbn in Hnd; [exact Hnd | inversion Hnd; auto].
      + intros q Hq Hin. apply in_app_or in Hq as [Hq|[<-|[]]].
        * apply (Hacc q Hq). unfold np in *. cbn. destruct (noopb p); cbn; auto.
        * unfold np in *. cbn in Hnd. destruct (noopb p) eqn:En; cbn in Hnd.
          -- apply filter_In in Hin as [_ Hin]. rewrite En in Hin. discriminate.
          -- inversion Hnd; auto.
  Qed.

  Lemma lp_nonempty : forall t parent, Forall (fun p => p <> []) (lp fam parent t).
  Proof.
    apply (ptree_ind2 (fun t => forall parent, Forall (fun p => p <> []) (lp fam parent t))).
    intros items IH. induction items as [|[[row child] sk] l IHl]; intro parent; [constructor|].
    inversion IH as [|i l0 Hi Hl]; subst. rewrite lp_cons. constructor; [discriminate|].
    apply Forall_app. split; [|apply IHl; exact Hl].
    destruct child as [ct|]; [|constructor]. apply Forall_app. split.
    - apply Forall_forall. intros p Hp. apply in_map_iff in Hp as (q & <- & _). discriminate.
    - destruct (exit_stmt_shape fam parent row (next_row l)) as [E|[(ex & _ & E)|(ex & _ & E)]]; rewrite E;
        cbn; repeat constructor; discriminate.
  Qed.

  Lemma xp_noop parent row next : Forall (fun p => noopb p = true) (xp row (exit_stmt fam parent row next)).
  Proof.
    destruct (exit_stmt_shape fam parent row next) as [E|[(ex & Hin & E)|(ex & Hin & E)]]; rewrite E; cbn;
      repeat constructor; unfold noopb; cbn; apply Hex; exact Hin.
  Qed.

  Lemma exec_prefixed_none rs c ps f : match_row rmatch c rs = None -> Forall (fun p => p <> []) ps ->
    xexec rs (map (cons c) ps) f = f.
  Proof.
    intros Hm H. revert f. induction H as [|p ps Hp Hps IH]; intro f; [reflexivity|].
    cbn [map]. rewrite exec_cons. destruct p as [|r rest]; [congruence|].
    rewrite exec_path_cons2, Hm. apply IH.
  Qed.

  (* the undeduplicated paths execute as the patch tree *)
  Lemma exec_lp : forall t parent rs f, xexec rs (lp fam parent t) f = run_pt t rs f.
  Proof.
    apply (ptree_ind2 (fun t => forall parent rs f, xexec rs (lp fam parent t) f = run_pt t rs f)).
    intros items IH parent rs f. rewrite run_pt_fold. revert f.
    induction items as [|[[row child] sk] l IHl]; intro f; [reflexivity|].
    inversion IH as [|i l0 Hi Hl]; subst. unfold child_P in Hi. cbn [fst snd] in Hi.
    rewrite lp_cons, exec_cons. cbn [fold_left]. rewrite exec_app, IHl by exact Hl. f_equal.
    unfold ConvergeRun.run_item, irow, ichild. cbn [fst snd exec_path].
    destruct child as [ct|]; [|reflexivity].
    rewrite exec_app, (exec_noops _ _ _ (xp_noop parent row (next_row l))).
    destruct (match_row rmatch row rs) as [[s crs]|] eqn:Hm.
    - rewrite (exec_prefixed rmatch rreverse is_exit rs row s crs _ _ Hm (lp_nonempty ct row)).
      apply nav_ext. intro x. apply Hi.
    - apply exec_prefixed_none; [exact Hm | apply lp_nonempty].
  Qed.
End Exec.

(* ---------- only exit paths repeat ---------- *)
Fixpoint prows_ok (is_exit : string -> bool) (p : ptree) : Prop :=
  match p with
  | PT items =>
    NoDup (map (fun i : string * option ptree * skey => fst (fst i)) items) /\
    (fix go (l : list (string * option ptree * skey)) : Prop :=
       match l with
       | [] => True
       | (row, child, _) :: l' =>
         is_exit row = false /\ match child with Some ct => prows_ok is_exit ct | None => True end /\ go l'
       end) items
  end.

Lemma prows_ok_cons is_exit row child sk l :
  prows_ok is_exit (PT ((row, child, sk) :: l)) <->
  ~ In row (map (fun i : string * option ptree * skey => fst (fst i)) l) /\ is_exit row = false /\
  match child with Some ct => prows_ok is_exit ct | None => True end /\ prows_ok is_exit (PT l).
Proof.
  cbn [prows_ok map fst]. split.
  - intros (Hnd & Hr & Hc & Hl). inversion Hnd; subst. tauto.
  - intros (Hn & Hr & Hc & Hnd & Hl). repeat split; auto. constructor; auto.
Qed.

Section NoRepeat.
  Variable is_exit : string -> bool.
  Variable fam : family.
  Hypothesis Hex : forall ex, In ex (family_exits fam) -> is_exit ex = true.
  Notation npx := (np is_exit).
  Notation noopx := (noopb is_exit).

  Lemma np_app a b : npx (a ++ b) = npx a ++ npx b.
  Proof. unfold np. apply filter_app. Qed.

  Lemma np_map_cons row ps : Forall (fun p => p <> []) ps -> npx (map (cons row) ps) = map (cons row) (npx ps).
  Proof.
    intro H. induction H as [|p ps Hp Hps IH]; [reflexivity|].
    cbn [map]. unfold np in *. cbn [filter]. rewrite IH.
    assert (E : noopx (row :: p) = noopx p) by (unfold noopb; destruct p; [congruence | reflexivity]).
    rewrite E. destruct (noopx p); reflexivity.
  Qed.

  Lemma np_noops ps : Forall (fun p => noopx p = true) ps -> npx ps = [].
  Proof.
    intro H. induction H as [|p ps Hp Hps IH]; [reflexivity|].
    unfold np in *. cbn [filter]. rewrite Hp. exact IH.
  Qed.

  Definition rows_of (l : list (string * option ptree * skey)) := map (fun i : string * option ptree * skey => fst (fst i)) l.

  (* non-exit paths of a level start with one of its rows and do not repeat *)
  Lemma np_lp_ok : forall t parent, prows_ok is_exit t ->
    NoDup (npx (lp fam parent t)) /\
    (forall p, In p (npx (lp fam parent t)) -> exists row rest, p = row :: rest /\ In row (rows_of (pitems t))).
  Proof.
    apply (ptree_ind2 (fun t => forall parent, prows_ok is_exit t ->
      NoDup (npx (lp fam parent t)) /\
      (forall p, In p (npx (lp fam parent t)) -> exists row rest, p = row :: rest /\ In row (rows_of (pitems t))))).
    intros items IH. induction items as [|[[row child] sk] l IHl]; intros parent Hok.
    - cbn. split; [constructor | intros p []].
    - inversion IH as [|i l0 Hi Hl]; subst. unfold child_P in Hi. cbn [fst snd] in Hi.
      apply prows_ok_cons in Hok as (Hnin & Hrow & Hc & Hokl).
      destruct (IHl Hl parent Hokl) as (Hndl & Hheadl). cbn [pitems] in *.
      rewrite lp_cons. change ([row] :: ?x) with ([[row]] ++ x). rewrite !np_app.
      assert (E1 : npx [[row]] = [[row]]).
      { unfold np, noopb. cbn. rewrite Hrow. reflexivity. }
      rewrite E1.
      set (B := npx match child with
                   | Some ct => map (cons row) (lp fam row ct) ++ xp row (exit_stmt fam parent row (next_row l))
                   | None => []
                   end).
      assert (HB : NoDup B /\ forall p, In p B -> exists q, p = row :: q /\ q <> []).
      { subst B. destruct child as [ct|]; [|split; [constructor | intros p []]].
        rewrite np_app, (np_noops _ (xp_noop is_exit fam Hex parent row (next_row l))), app_nil_r.
        rewrite np_map_cons by apply lp_nonempty.
        destruct (Hi row Hc) as (Hndc & _). split.
        - apply FinFun.Injective_map_NoDup; [|exact Hndc]. intros x y E. injection E. auto.
        - intros p Hp. apply in_map_iff in Hp as (q & <- & Hq). exists q. split; [reflexivity|].
          apply filter_In in Hq as [Hq _]. pose proof (lp_nonempty fam ct row) as Hne.
          rewrite Forall_forall in Hne. apply Hne. exact Hq. }
      destruct HB as (HBnd & HBhead).
      split.
      + cbn [app]. constructor.
        * intro Hin. apply in_app_or in Hin as [Hin|Hin].
          -- destruct (HBhead _ Hin) as (q & E & Hq). injection E as <-. congruence.
          -- destruct (Hheadl _ Hin) as (r & rest & E & Hr). injection E as <- _. contradiction.
        * apply NoDup_app_intro; auto. intros p H1 H2.
          destruct (HBhead _ H1) as (q & -> & _). destruct (Hheadl _ H2) as (r & rest & E & Hr).
          injection E as <- _. contradiction.
      + intros p Hp. cbn [app] in Hp. destruct Hp as [<-|Hp].
        * exists row, []. split; [reflexivity | now left].
        * apply in_app_or in Hp as [Hp|Hp].
          -- destruct (HBhead _ Hp) as (q & -> & _). exists row, q. split; [reflexivity | now left].
          -- destruct (Hheadl _ Hp) as (r & rest & -> & Hr). exists r, rest. split; [reflexivity | now right].
  Qed.
End NoRepeat.

(* ---------- cmd_paths executes as the patch tree ---------- *)
Theorem exec_cmd_paths rmatch rreverse is_exit fam rs t f :
  block_family fam = true -> (forall ex, In ex (family_exits fam) -> is_exit ex = true) ->
  prows_ok is_exit t ->
  exec rmatch rreverse is_exit rs (cmd_paths fam t) f = run_pt rmatch rreverse is_exit t rs f.
Proof.
  intros Hf Hex Hok. rewrite cmd_paths_nd by (destruct fam; try exact I; discriminate).
  destruct (np_lp_ok is_exit fam Hex t "" Hok) as (Hnd & _).
  rewrite (exec_nd rmatch rreverse is_exit) by (auto; intros p []).
  apply exec_lp. exact Hex.
Qed.
