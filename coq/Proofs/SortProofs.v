(* Generic facts about the model's stable insertion sort (Model/Order.v: insert_by,
   stable_sort): it permutes, sorts, keeps equal keys in input order, is the identity on
   sorted input, is determined by the multiset and the relative order of equal keys
   (so any other stable sort -- CPython's timsort -- computes the same list), and
   commutes with filtering.  Generic over the element type and a total, transitive
   boolean comparison. *)
From Coq Require Import List Bool Arith Lia Permutation Sorted.
From Annet Require Import Model.Order.
Import ListNotations.
Open Scope list_scope.

(* ---------- facts that need no assumption on the comparison ---------- *)

Section SortAny.
  Context {A : Type}.
  Variable leb : A -> A -> bool.

  Lemma stable_sort_nil : stable_sort leb [] = [].
  Proof. reflexivity. Qed.

  Lemma stable_sort_cons a l : stable_sort leb (a :: l) = insert_by leb a (stable_sort leb l).
  Proof. reflexivity. Qed.

  Lemma insert_perm a l : Permutation (insert_by leb a l) (a :: l).
  Proof.
    induction l as [|y t IH]; cbn [insert_by].
    - apply Permutation_refl.
    - destruct (leb a y).
      + apply Permutation_refl.
      + apply perm_trans with (y :: a :: t).
        * apply perm_skip. exact IH.
        * apply perm_swap.
  Qed.

  Theorem sort_perm l : Permutation (stable_sort leb l) l.
  Proof.
    induction l as [|a l IH].
    - apply perm_nil.
    - rewrite stable_sort_cons. apply perm_trans with (a :: stable_sort leb l).
      + apply insert_perm.
      + apply perm_skip. exact IH.
  Qed.

  Lemma sort_in x l : In x (stable_sort leb l) <-> In x l.
  Proof.
    split; intro H.
    - apply (Permutation_in x (sort_perm l)). exact H.
    - apply (Permutation_in x (Permutation_sym (sort_perm l))). exact H.
  Qed.

  Lemma sort_length l : List.length (stable_sort leb l) = List.length l.
  Proof. apply Permutation_length. apply sort_perm. Qed.

  Lemma sort_Forall (P : A -> Prop) l : Forall P l -> Forall P (stable_sort leb l).
  Proof.
    intros H. apply Forall_forall. intros x Hx. apply (proj1 (sort_in x l)) in Hx.
    revert x Hx. apply Forall_forall. exact H.
  Qed.

  Lemma insert_le_all a l : Forall (fun y => leb a y = true) l -> insert_by leb a l = a :: l.
  Proof.
    intros H. destruct l as [|y t]; [reflexivity|].
    cbn [insert_by]. inversion H as [|y' t' Hy Ht]; subst. rewrite Hy. reflexivity.
  Qed.

  (* sorted input is returned unchanged *)
  Theorem sort_sorted_id l :
    StronglySorted (fun a b => leb a b = true) l -> stable_sort leb l = l.
  Proof.
    intros H. induction H as [|a l Hs IH Hall].
    - reflexivity.
    - rewrite stable_sort_cons, IH. apply insert_le_all. exact Hall.
  Qed.

  (* all keys pairwise below each other (one equivalence class): nothing moves *)
  Lemma sort_one_class l :
    (forall a b, In a l -> In b l -> leb a b = true) -> stable_sort leb l = l.
  Proof.
    intros H. apply sort_sorted_id. induction l as [|a l IH].
    - constructor.
    - constructor.
      + apply IH. intros x y Hx Hy. apply H; now right.
      + apply Forall_forall. intros y Hy. apply H; [now left | now right].
  Qed.
End SortAny.

(* sorting by a key projected out of a payload *)
Section SortMap.
  Context {A B : Type}.
  Variable leb : A -> A -> bool.
  Variable f : B -> A.

  Definition leb_on (x y : B) : bool := leb (f x) (f y).

  Lemma insert_map_key b l :
    map f (insert_by leb_on b l) = insert_by leb (f b) (map f l).
  Proof.
    induction l as [|y t IH]; cbn [insert_by map]; [reflexivity|].
    unfold leb_on at 1. destruct (leb (f b) (f y)); cbn [map]; [reflexivity|].
    rewrite IH. reflexivity.
  Qed.

  (* the keys of the sorted (key, payload) list are the sorted keys *)
  Theorem sort_map_key l :
    map f (stable_sort leb_on l) = stable_sort leb (map f l).
  Proof.
    induction l as [|b l IH]; [reflexivity|].
    cbn [map]. rewrite !stable_sort_cons, insert_map_key, IH. reflexivity.
  Qed.

  Lemma leb_on_total :
    (forall a b, leb a b = true \/ leb b a = true) ->
    forall x y, leb_on x y = true \/ leb_on y x = true.
  Proof. intros H x y. apply H. Qed.

  Lemma leb_on_trans :
    (forall a b c, leb a b = true -> leb b c = true -> leb a c = true) ->
    forall x y z, leb_on x y = true -> leb_on y z = true -> leb_on x z = true.
  Proof. intros H x y z. apply H. Qed.
End SortMap.

Lemma Permutation_filter {A} (p : A -> bool) (l1 l2 : list A) :
  Permutation l1 l2 -> Permutation (filter p l1) (filter p l2).
Proof.
  intros H. induction H as [|x l l' Hp IH|x y l|l l' l'' H1 IH1 H2 IH2]; cbn [filter].
  - apply perm_nil.
  - destruct (p x); [apply perm_skip|]; exact IH.
  - destruct (p x), (p y); try apply Permutation_refl. apply perm_swap.
  - apply perm_trans with (filter p l'); assumption.
Qed.

(* ---------- total, transitive comparison ---------- *)

Section Sort.
  Context {A : Type}.
  Variable leb : A -> A -> bool.
  Hypothesis leb_total : forall a b, leb a b = true \/ leb b a = true.
  Hypothesis leb_trans : forall a b c, leb a b = true -> leb b c = true -> leb a c = true.

  Definition le (a b : A) : Prop := leb a b = true.
  Definition eqv (a b : A) : bool := leb a b && leb b a.

  Lemma leb_refl a : leb a a = true.
  Proof. destruct (leb_total a a); assumption. Qed.

  Lemma leb_false_flip a b : leb a b = false -> leb b a = true.
  Proof. intros H. destruct (leb_total a b) as [H1|H1]; [congruence | exact H1]. Qed.

  Lemma eqv_refl a : eqv a a = true.
  Proof. unfold eqv. rewrite leb_refl. reflexivity. Qed.

  Lemma eqv_sym a b : eqv a b = eqv b a.
  Proof. unfold eqv. apply andb_comm. Qed.

  Lemma eqv_trans a b c : eqv a b = true -> eqv b c = true -> eqv a c = true.
  Proof.
    unfold eqv. rewrite !andb_true_iff. intros [H1 H2] [H3 H4]. split.
    - exact (leb_trans _ _ _ H1 H3).
    - exact (leb_trans _ _ _ H4 H2).
  Qed.

  Lemma insert_sorted a l : StronglySorted le l -> StronglySorted le (insert_by leb a l).
  Proof.
    intros H. induction H as [|y t Hs IH Hall]; cbn [insert_by].
    - constructor; constructor.
    - destruct (leb a y) eqn:E.
      + constructor.
        * constructor; assumption.
        * constructor; [exact E|].
          apply Forall_forall. intros z Hz. apply (leb_trans a y z E).
          revert z Hz. apply Forall_forall. exact Hall.
      + constructor; [exact IH|].
        apply Forall_forall. intros z Hz.
        apply (Permutation_in z (insert_perm leb a t)) in Hz. destruct Hz as [Hz|Hz].
        * subst z. apply leb_false_flip. exact E.
        * revert z Hz. apply Forall_forall. exact Hall.
  Qed.

  Theorem sort_sorted l : StronglySorted le (stable_sort leb l).
  Proof.
    induction l as [|a l IH].
    - constructor.
    - rewrite stable_sort_cons. apply insert_sorted. exact IH.
  Qed.

  Corollary sort_Sorted l : Sorted le (stable_sort leb l).
  Proof. apply StronglySorted_Sorted. apply sort_sorted. Qed.

  Theorem sort_idem l : stable_sort leb (stable_sort leb l) = stable_sort leb l.
  Proof. apply sort_sorted_id. apply sort_sorted. Qed.

  (* filtering after an insertion: the inserted element stays where it is relative to
     the elements kept *)
  Lemma filter_insert f a l :
    StronglySorted le l ->
    filter f (insert_by leb a l) =
    if f a then insert_by leb a (filter f l) else filter f l.
  Proof.
    intros H. induction H as [|y t Hs IH Hall]; cbn [insert_by filter].
    - destruct (f a); reflexivity.
    - destruct (leb a y) eqn:E.
      + cbn [filter]. destruct (f a) eqn:Fa; [|reflexivity].
        symmetry. apply insert_le_all.
        destruct (f y) eqn:Fy.
        * constructor; [exact E|].
          apply Forall_forall. intros z Hz. apply filter_In in Hz. destruct Hz as [Hz _].
          apply (leb_trans a y z E). revert z Hz. apply Forall_forall. exact Hall.
        * apply Forall_forall. intros z Hz. apply filter_In in Hz. destruct Hz as [Hz _].
          apply (leb_trans a y z E). revert z Hz. apply Forall_forall. exact Hall.
      + cbn [filter]. rewrite IH. destruct (f y) eqn:Fy, (f a) eqn:Fa; try reflexivity.
        cbn [insert_by]. rewrite E. reflexivity.
  Qed.

  (* the relative order of the elements kept by a filter does not depend on the others *)
  Theorem sort_filter_commute f l :
    stable_sort leb (filter f l) = filter f (stable_sort leb l).
  Proof.
    induction l as [|a l IH]; [reflexivity|].
    rewrite stable_sort_cons, filter_insert by apply sort_sorted.
    cbn [filter]. destruct (f a).
    - rewrite stable_sort_cons, IH. reflexivity.
    - exact IH.
  Qed.

  Lemma insert_eqv_class x a l :
    filter (eqv x) (insert_by leb a l) = filter (eqv x) (a :: l).
  Proof.
    induction l as [|y t IH]; cbn [insert_by]; [reflexivity|].
    destruct (leb a y) eqn:E; [reflexivity|].
    cbn [filter] in *. rewrite IH.
    destruct (eqv x a) eqn:Xa; [|reflexivity].
    destruct (eqv x y) eqn:Xy; [|reflexivity].
    exfalso. rewrite eqv_sym in Xa.
    pose proof (eqv_trans _ _ _ Xa Xy) as Hay. unfold eqv in Hay.
    apply andb_true_iff in Hay. destruct Hay as [Hay _]. congruence.
  Qed.

  (* stability: elements with equal keys keep their input order *)
  Theorem sort_stable x l :
    filter (eqv x) (stable_sort leb l) = filter (eqv x) l.
  Proof.
    induction l as [|a l IH]; [reflexivity|].
    rewrite stable_sort_cons, insert_eqv_class. cbn [filter]. rewrite IH. reflexivity.
  Qed.

  (* two sorted lists with the same equal-key classes (as lists) are equal *)
  Lemma sorted_classes_eq l1 : forall l2,
    StronglySorted le l1 -> StronglySorted le l2 ->
    (forall x, filter (eqv x) l1 = filter (eqv x) l2) -> l1 = l2.
  Proof.
    induction l1 as [|a t1 IH]; intros l2 H1 H2 Hf.
    - destruct l2 as [|b t2]; [reflexivity|].
      specialize (Hf b). cbn [filter] in Hf. rewrite eqv_refl in Hf. discriminate.
    - destruct l2 as [|b t2].
      + specialize (Hf a). cbn [filter] in Hf. rewrite eqv_refl in Hf. discriminate.
      + inversion H1 as [|a' t1' Hs1 Hall1]; subst.
        inversion H2 as [|b' t2' Hs2 Hall2]; subst.
        assert (Hab : leb a b = true).
        { assert (Hin : In b (a :: t1)).
          { assert (Hb : In b (filter (eqv b) (a :: t1))).
            { rewrite (Hf b). cbn [filter]. rewrite eqv_refl. now left. }
            apply filter_In in Hb. tauto. }
          destruct Hin as [Hin|Hin]; [subst; apply leb_refl|].
          exact (proj1 (Forall_forall _ _) Hall1 b Hin). }
        assert (Hba : leb b a = true).
        { assert (Hin : In a (b :: t2)).
          { assert (Ha : In a (filter (eqv a) (b :: t2))).
            { rewrite <- (Hf a). cbn [filter]. rewrite eqv_refl. now left. }
            apply filter_In in Ha. tauto. }
          destruct Hin as [Hin|Hin]; [subst; apply leb_refl|].
          exact (proj1 (Forall_forall _ _) Hall2 a Hin). }
        assert (Eab : a = b).
        { pose proof (Hf a) as Ha. cbn [filter] in Ha. rewrite eqv_refl in Ha.
          unfold eqv at 2 in Ha. rewrite Hab, Hba in Ha. cbn [andb] in Ha.
          injection Ha as Ha _. exact Ha. }
        subst b. f_equal. apply IH; [exact Hs1 | exact Hs2 |].
        intros x. specialize (Hf x). cbn [filter] in Hf.
        destruct (eqv x a); [injection Hf as Hf|]; exact Hf.
  Qed.

  (* a stable sort is determined by the relative order of equal keys alone ... *)
  Theorem sort_unique_classes l1 l2 :
    (forall x, filter (eqv x) l1 = filter (eqv x) l2) ->
    stable_sort leb l1 = stable_sort leb l2.
  Proof.
    intros Hf. apply sorted_classes_eq; try apply sort_sorted.
    intros x. rewrite !sort_stable. apply Hf.
  Qed.

  (* ... in the form asked for: same multiset, same order within each key class *)
  Theorem sort_unique l1 l2 :
    Permutation l1 l2 ->
    (forall x, filter (eqv x) l1 = filter (eqv x) l2) ->
    stable_sort leb l1 = stable_sort leb l2.
  Proof. intros _. apply sort_unique_classes. Qed.

  (* any function returning a sorted permutation that keeps equal keys in input order
     is this sort: the insertion sort of the model loses nothing w.r.t. timsort *)
  Theorem stable_sort_characterised (srt : list A -> list A) l :
    StronglySorted le (srt l) ->
    (forall x, filter (eqv x) (srt l) = filter (eqv x) l) ->
    srt l = stable_sort leb l.
  Proof.
    intros Hs Hf. apply sorted_classes_eq; [exact Hs | apply sort_sorted |].
    intros x. rewrite sort_stable. apply Hf.
  Qed.

  (* the same, as a statement about lists: a sorted permutation of l that keeps every
     class of equal keys in its input order IS stable_sort l.  CPython documents
     list.sort / sorted as stable, so modelling them by insertion sort loses nothing. *)
  Theorem sort_stable_unique l l' :
    Permutation l' l -> StronglySorted le l' ->
    (forall x, filter (eqv x) l' = filter (eqv x) l) ->
    l' = stable_sort leb l.
  Proof. intros _ Hs Hf. exact (stable_sort_characterised (fun _ => l') l Hs Hf). Qed.

  (* when equal keys imply equal elements and no element is repeated, the result
     depends on the multiset only *)
  Lemma class_le_1 x l :
    NoDup l -> (forall a b, In a l -> In b l -> eqv a b = true -> a = b) ->
    (List.length (filter (eqv x) l) <= 1)%nat.
  Proof.
    intros Hnd Heq.
    assert (Hnd' : NoDup (filter (eqv x) l)) by (apply NoDup_filter; exact Hnd).
    destruct (filter (eqv x) l) as [|a [|b r]] eqn:E; cbn [List.length]; try lia.
    exfalso.
    assert (Ha : In a (filter (eqv x) l)) by (rewrite E; now left).
    assert (Hb : In b (filter (eqv x) l)) by (rewrite E; right; now left).
    apply filter_In in Ha, Hb. destruct Ha as [Ha Xa], Hb as [Hb Xb].
    assert (Eab : a = b).
    { apply Heq; [exact Ha | exact Hb |]. rewrite eqv_sym in Xa. exact (eqv_trans _ _ _ Xa Xb). }
    subst b. inversion Hnd' as [|a' r' Hn _]; subst. apply Hn. now left.
  Qed.

  Theorem sort_perm_unique l1 l2 :
    Permutation l1 l2 -> NoDup l1 ->
    (forall a b, In a l1 -> In b l1 -> eqv a b = true -> a = b) ->
    stable_sort leb l1 = stable_sort leb l2.
  Proof.
    intros Hp Hnd Heq. apply sort_unique_classes. intros x.
    assert (Hp' : Permutation (filter (eqv x) l1) (filter (eqv x) l2))
      by (apply Permutation_filter; exact Hp).
    pose proof (class_le_1 x l1 Hnd Heq) as Hlen.
    destruct (filter (eqv x) l1) as [|a [|b r]].
    - apply Permutation_nil in Hp'. symmetry. exact Hp'.
    - apply Permutation_length_1_inv in Hp'. symmetry. exact Hp'.
    - cbn [List.length] in Hlen. lia.
  Qed.

  (* boolean adjacent-pairs sortedness, as the executable checkers use it *)
  Fixpoint sortedb (l : list A) : bool :=
    match l with
    | a :: ((b :: _) as r) => leb a b && sortedb r
    | _ => true
    end.

  Lemma StronglySorted_sortedb l : StronglySorted le l -> sortedb l = true.
  Proof.
    intros H. induction H as [|a l Hs IH Hall]; [reflexivity|].
    destruct l as [|b r]; [reflexivity|].
    cbn [sortedb] in *. rewrite IH. inversion Hall as [|b' r' Hb _]; subst.
    unfold le in Hb. rewrite Hb. reflexivity.
  Qed.

  Lemma sortedb_StronglySorted l : sortedb l = true -> StronglySorted le l.
  Proof.
    intros H. apply Sorted_StronglySorted.
    - intros a b c. apply leb_trans.
    - induction l as [|a l IH]; [constructor|].
      destruct l as [|b r].
      + constructor; constructor.
      + cbn [sortedb] in H. apply andb_true_iff in H. destruct H as [Hab Hr].
        constructor; [apply IH; exact Hr|]. constructor. exact Hab.
  Qed.

  Corollary sort_sortedb l : sortedb (stable_sort leb l) = true.
  Proof. apply StronglySorted_sortedb. apply sort_sorted. Qed.
End Sort.

(* ---------- sublists (positional "unrelated lines") ---------- *)
Inductive sublist {A} : list A -> list A -> Prop :=
| sub_nil : sublist [] []
| sub_skip a l l' : sublist l l' -> sublist l (a :: l')
| sub_keep a l l' : sublist l l' -> sublist (a :: l) (a :: l').

Lemma sublist_Forall {A} (P : A -> Prop) (l l' : list A) : sublist l l' -> Forall P l' -> Forall P l.
Proof.
  induction 1 as [|a l l' H IH|a l l' H IH]; intros HF.
  - constructor.
  - inversion HF; subst. apply IH. assumption.
  - inversion HF; subst. constructor; [assumption | apply IH; assumption].
Qed.

Lemma sublist_refl {A} (l : list A) : sublist l l.
Proof. induction l as [|c l IH]; [apply sub_nil | apply sub_keep; exact IH]. Qed.

Lemma sublist_app_mid {A} (l1 seg l2 : list A) : sublist (l1 ++ l2) (l1 ++ seg ++ l2).
Proof.
  induction l1 as [|a l1 IH]; cbn [app].
  - induction seg as [|b seg IHs]; cbn [app].
    + apply sublist_refl.
    + apply sub_skip. exact IHs.
  - apply sub_keep. exact IH.
Qed.

Section SortSublist.
  Context {A : Type}.
  Variable leb : A -> A -> bool.
  Hypothesis leb_total : forall a b, leb a b = true \/ leb b a = true.
  Hypothesis leb_trans : forall a b c, leb a b = true -> leb b c = true -> leb a c = true.

  Lemma sublist_insert_skip a s s' : sublist s s' -> sublist s (insert_by leb a s').
  Proof.
    induction 1 as [|y s t H IH|y s t H IH]; cbn [insert_by].
    - apply sub_skip. apply sub_nil.
    - destruct (leb a y); apply sub_skip; [apply sub_skip; exact H | exact IH].
    - destruct (leb a y); [apply sub_skip; apply sub_keep; exact H | apply sub_keep; exact IH].
  Qed.

  Lemma sublist_insert_keep a s s' :
    sublist s s' -> StronglySorted (le leb) s' -> sublist (insert_by leb a s) (insert_by leb a s').
  Proof.
    induction 1 as [|y s t H IH|y s t H IH]; intros Hs; cbn [insert_by].
    - apply sub_keep. apply sub_nil.
    - inversion Hs as [|y' t' Hst Hall]; subst.
      destruct (leb a y) eqn:E.
      + assert (Hle : Forall (fun z => leb a z = true) s).
        { apply (sublist_Forall _ s t H). apply Forall_forall. intros z Hz.
          apply (leb_trans a y z E). exact (proj1 (Forall_forall _ _) Hall z Hz). }
        rewrite (insert_le_all leb a s Hle). apply sub_keep. apply sub_skip. exact H.
      + apply sub_skip. apply IH. exact Hst.
    - inversion Hs as [|y' t' Hst Hall]; subst.
      destruct (leb a y); apply sub_keep; [apply sub_keep; exact H | apply IH; exact Hst].
  Qed.

  (* removing elements (anywhere) from the input removes exactly them from the output:
     the relative order of the remaining elements does not depend on the removed ones *)
  Theorem sort_sublist l l' : sublist l l' -> sublist (stable_sort leb l) (stable_sort leb l').
  Proof.
    induction 1 as [|a l l' H IH|a l l' H IH]; rewrite ?stable_sort_cons.
    - apply sub_nil.
    - apply sublist_insert_skip. exact IH.
    - apply sublist_insert_keep; [exact IH | apply (sort_sorted leb leb_total leb_trans)].
  Qed.
End SortSublist.

(* closed statements: the comparison's totality and transitivity are arguments *)
Check sort_perm.
Check sort_sorted.
Check sort_stable.
Check sort_sorted_id.
Check sort_idem.
Check sort_unique.
Check sort_filter_commute.
Check sort_map_key.

Print Assumptions sort_perm.
Print Assumptions sort_sorted.
Print Assumptions sort_stable.
Print Assumptions sort_sorted_id.
Print Assumptions sort_idem.
Print Assumptions sort_unique.
Print Assumptions sort_unique_classes.
Print Assumptions stable_sort_characterised.
Print Assumptions sort_perm_unique.
Print Assumptions sort_filter_commute.
Print Assumptions sort_map_key.
Print Assumptions sort_stable_unique.
Print Assumptions sort_sublist.
