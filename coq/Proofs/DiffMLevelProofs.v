(* C03, extended domain (%multiline): the per-level law of %multiline blocks, at every depth.
   A row governed by a %multiline rule is shown iff its bodies differ as ordered trees (absent = empty), exactly
   once, with an exact op and the whole body of the side it is read from ([ml_level_ok], Spec/P_C03X.v); every
   other row of the level belongs to one of the three ordinary groups and is not touched by the fourth. *)
From Coq Require Import List String Bool Arith Lia Permutation.
From Annet Require Import Base.Str Base.Tree Model.Pattern Model.Rulebook Model.Diff Model.DiffX Spec.P_C03 Spec.P_C03X
  Proofs.DiffBasics Proofs.DiffProofsLib Proofs.DiffProofsLossless Proofs.DiffMProofs.
Import ListNotations.
Open Scope list_scope.

(* ---------- generic list facts ---------- *)
Lemma flat_map_nil_all {A B} (G : A -> list B) l : (forall x, In x l -> G x = []) -> flat_map G l = [].
Proof.
  induction l as [|x l IH]; intros H; [reflexivity|]. cbn [flat_map]. rewrite (H x) by (now left).
  apply IH. intros y Hy. apply H. now right.
Qed.

Lemma flat_map_only {A B} (G : A -> list B) (k0 : A) : forall keys, NoDup keys -> In k0 keys ->
  (forall L, In L keys -> L <> k0 -> G L = []) -> flat_map G keys = G k0.
Proof.
  induction keys as [|k keys IH]; intros ND Hin H; [destruct Hin|].
  inversion ND as [|k' keys' Hk ND']; subst. cbn [flat_map]. destruct Hin as [E|Hin].
  - subst k. rewrite flat_map_nil_all; [apply app_nil_r|].
    intros x Hx. apply H; [now right|]. intro E. subst x. contradiction.
  - rewrite (H k) by (now left || (intro E; subst k; contradiction)). cbn [app].
    apply IH; [exact ND' | exact Hin|]. intros L HL. apply H. now right.
Qed.

Lemma filter_flat_map {A B} (p : B -> bool) (G : A -> list B) l :
  filter p (flat_map G l) = flat_map (fun x => filter p (G x)) l.
Proof. induction l as [|x l IH]; [reflexivity|]. cbn [flat_map]. rewrite filter_app, IH. reflexivity. Qed.

Lemma filter_nil_existsb {A} (p : A -> bool) l : filter p l = [] -> existsb p l = false.
Proof.
  induction l as [|x l IH]; [reflexivity|]. cbn [filter existsb]. destruct (p x); [discriminate|]. exact IH.
Qed.

Lemma filter_none {A} (p : A -> bool) l : (forall x, In x l -> p x = false) -> filter p l = [].
Proof.
  induction l as [|x l IH]; intros H; [reflexivity|]. cbn [filter]. rewrite (H x) by (now left).
  apply IH. intros y Hy. apply H. now right.
Qed.

Definition rowis (r : string) (x : dnode) : bool := String.eqb (d_row x) r.

(* in a list with distinct rows the entries with a given row are that one entry *)
Lemma filter_rowis_unique : forall l x, NoDup (map d_row l) -> In x l -> filter (rowis (d_row x)) l = [x].
Proof.
  induction l as [|y l IH]; intros x ND Hin; [destruct Hin|].
  cbn [map] in ND. inversion ND as [|r rs Hy ND']; subst. cbn [filter]. destruct Hin as [E|Hin].
  - subst y. unfold rowis at 1. rewrite String.eqb_refl. f_equal.
    apply filter_none. intros z Hz. unfold rowis. apply String.eqb_neq. intro E. apply Hy. rewrite <- E.
    apply in_map. exact Hz.
  - unfold rowis at 1. destruct (String.eqb_spec (d_row y) (d_row x)) as [E|E].
    + exfalso. apply Hy. rewrite E. apply in_map. exact Hin.
    + apply IH; assumption.
Qed.

Lemma filter_rowis_absent l r : ~ In r (map d_row l) -> filter (rowis r) l = [].
Proof.
  intros H. apply filter_none. intros x Hx. unfold rowis. apply String.eqb_neq. intro E. apply H.
  rewrite <- E. apply in_map. exact Hx.
Qed.

(* lookups through a filter that keeps the row looked for *)
Lemma alookup_filter p : forall f r, (forall m s, alookup r f = Some (m, s) -> p (r, m, s) = true) ->
  alookup r (filter p f) = alookup r f.
Proof.
  induction f as [|[[r0 m0] s0] f IH]; intros r H; [reflexivity|]. cbn [filter]. cbn [alookup] in *.
  destruct (String.eqb r0 r) eqn:E.
  - apply String.eqb_eq in E. subst r0. rewrite (H m0 s0 eq_refl). cbn [alookup]. rewrite String.eqb_refl. reflexivity.
  - destruct (p (r0, m0, s0)); [cbn [alookup]; rewrite E|]; apply IH; exact H.
Qed.

Lemma afind_alookup : forall f r i,
  match afind r f i with Some (_, s) => Some s | None => None end =
  match alookup r f with Some (_, s) => Some s | None => None end.
Proof.
  induction f as [|[[r0 m0] s0] f IH]; intros r i; [reflexivity|]. cbn [afind alookup].
  destruct (String.eqb r0 r); [reflexivity | apply IH].
Qed.

(* ---------- bodies ---------- *)
Lemma body_eq o k : body o (T k) = map (fun rc : string * tree => DN o (fst rc) mi_body (body o (snd rc))) k.
Proof.
  cbn [body]. induction k as [|[r c] k IH]; [reflexivity|]. cbn [map fst snd]. f_equal. exact IH.
Qed.

Lemma dshape_eq o r m k : dshape (DN o r m k) = T (map (fun x => (d_row x, dshape x)) k).
Proof.
  reflexivity.
Qed.

Lemma dshape_body o' o r m : forall t, dshape (DN o' r m (body o t)) = t.
Proof.
  intros t. revert o' r m.
  apply (tree_ind2 (fun t => forall o' r m, dshape (DN o' r m (body o t)) = t)
                   (fun f => map (fun x => (d_row x, dshape x)) (body o (T f)) = f)).
  - intros k H o' r m. rewrite dshape_eq, H. reflexivity.
  - reflexivity.
  - intros r c l Hc Hl. rewrite body_eq in *. cbn [map fst snd d_row]. rewrite (Hc o r mi_body). f_equal. exact Hl.
Qed.

Lemma all_op_body o : forall t, forallb (all_op o) (body o t) = true.
Proof.
  apply (tree_ind2 (fun t => forallb (all_op o) (body o t) = true)
                   (fun f => forallb (all_op o) (body o (T f)) = true)).
  - intros k H. exact H.
  - reflexivity.
  - intros r c l Hc Hl. rewrite body_eq in *. cbn [map forallb fst snd all_op].
    rewrite Hc, Hl. destruct o; reflexivity.
Qed.

Section ML.
  Variable fl : minfo -> xflags.

  (* ---------- the four groups ---------- *)
  Lemma xlogic_eqb_eq a b : xlogic_eqb a b = true <-> a = b.
  Proof.
    destruct a as [x|], b as [y|]; cbn [xlogic_eqb].
    - rewrite dlogic_eqb_eq. split; [intros E; subst; reflexivity | intros E; injection E; auto].
    - split; discriminate.
    - split; discriminate.
    - split; intros _; reflexivity.
  Qed.
  Lemma xlogic_eqb_refl a : xlogic_eqb a a = true.
  Proof. apply xlogic_eqb_eq. reflexivity. Qed.

  Lemma existsb_xl_In x seen : existsb (xlogic_eqb x) seen = true <-> In x seen.
  Proof.
    rewrite existsb_exists. split.
    - intros (y & Hy & E). apply xlogic_eqb_eq in E. subst. exact Hy.
    - intros Hin. exists x. split; [exact Hin | apply xlogic_eqb_refl].
  Qed.

  Lemma uniq_xl_In : forall l seen x, In x (uniq_xl l seen) <-> In x l /\ ~ In x seen.
  Proof.
    induction l as [|y l IH]; intros seen x; cbn [uniq_xl].
    - cbn. tauto.
    - destruct (existsb (xlogic_eqb y) seen) eqn:E.
      + apply existsb_xl_In in E. rewrite IH. cbn [In]. split.
        * intros [H1 H2]. tauto.
        * intros [[H1|H1] H2]; [subst; contradiction | tauto].
      + assert (Hn : ~ In y seen).
        { intro Hin. apply existsb_xl_In in Hin. congruence. }
        cbn [In]. rewrite IH. cbn [In]. split.
        * intros [H1|[H1 H2]]; [subst; tauto | tauto].
        * intros [[H1|H1] H2]; [tauto|].
          destruct (xlogic_eqb y x) eqn:E2.
          -- apply xlogic_eqb_eq in E2. tauto.
          -- right. split; [exact H1|]. intros [H3|H3]; [|tauto]. subst. rewrite xlogic_eqb_refl in E2. discriminate.
  Qed.

  Lemma uniq_xl_NoDup : forall l seen, NoDup (uniq_xl l seen).
  Proof.
    induction l as [|y l IH]; intros seen; cbn [uniq_xl].
    - constructor.
    - destruct (existsb (xlogic_eqb y) seen) eqn:E.
      + apply IH.
      + constructor; [|apply IH]. rewrite uniq_xl_In. cbn. tauto.
  Qed.

  Definition xin (L : xlogic) (k : string * minfo * atree) : bool := xlogic_eqb (mi_xlogic fl (ami k)) L.

  Lemma xin_multi k : xin XMulti k = ml fl (ami k).
  Proof. unfold xin, mi_xlogic. destruct (ml fl (ami k)); reflexivity. Qed.
  Lemma xin_XL D k : xin (XL D) k = true -> ml fl (ami k) = false.
  Proof. unfold xin, mi_xlogic. destruct (ml fl (ami k)); [discriminate | reflexivity]. Qed.

  Lemma filter_xks L f :
    filter (fun k : xkid => xlogic_eqb (mi_xlogic fl (xk_mi k)) L) (xks fl f) = xks fl (filter (xin L) f).
  Proof.
    induction f as [|[[r m] c] f IH]; [reflexivity|].
    change (xks fl ((r, m, c) :: f)) with ((r, m, c, diff_tM fl c) :: xks fl f).
    cbn [filter]. change (xk_mi (r, m, c, diff_tM fl c)) with m.
    change (xin L (r, m, c)) with (xlogic_eqb (mi_xlogic fl m) L).
    destruct (xlogic_eqb (mi_xlogic fl m) L); rewrite IH; reflexivity.
  Qed.

  Lemma xks_cks f : map xk_ck (xks fl f) = cksM fl f.
  Proof. unfold xks, cksM. rewrite map_map. reflexivity. Qed.

  Lemma diff_levelM_unfold old nk pop inrw :
    diff_levelM fl old (xks fl nk) pop inrw =
    flat_map (fun L => run_xlogic fl L (filter (xin L) old) (xks fl (filter (xin L) nk)) pop inrw)
             (uniq_xl (map (fun k => mi_xlogic fl (ami k)) old ++ map (fun k => mi_xlogic fl (ami k)) nk) []).
  Proof.
    unfold diff_levelM.
    replace (map (fun k : xkid => mi_xlogic fl (xk_mi k)) (xks fl nk)) with (map (fun k => mi_xlogic fl (ami k)) nk)
      by (unfold xks; rewrite map_map; reflexivity).
    apply flat_map_ext. intros L. rewrite filter_xks. reflexivity.
  Qed.

  (* ---------- scan_new / base_diffM on the children functions of diff_tM ---------- *)
  Definition scan_relM (og : aforest) (pop : op) (inrw mta : bool) (k : string * minfo * atree) (d : dnode) : Prop :=
    match alookup (arow k) og with
    | None => d = DN Added (arow k) (ami k) (diff_tM fl (asub k) [] Added inrw)
    | Some (_, so) => exists o, (o = pop \/ (o = Moved /\ mta = false)) /\
                                d = DN o (arow k) (ami k) (diff_tM fl (asub k) (akids so) o inrw)
    end.

  Lemma scanM_rows og pop inrw mta : forall l i dis,
    map d_row (scan_new og pop inrw mta (cksM fl l) i dis) = arows l.
  Proof.
    induction l as [|[[r m] c] l IH]; intros i dis; [reflexivity|].
    change (cksM fl ((r, m, c) :: l)) with ((r, m, diff_tM fl c) :: cksM fl l). cbn [scan_new].
    destruct (afind r og 0) as [[j so]|].
    - destruct (dis || negb (Nat.eqb i j)); cbn [map d_row]; rewrite IH; reflexivity.
    - cbn [map d_row]. rewrite IH. reflexivity.
  Qed.

  Lemma scanM_In og pop inrw mta : forall l i dis d,
    In d (scan_new og pop inrw mta (cksM fl l) i dis) -> exists k, In k l /\ scan_relM og pop inrw mta k d.
  Proof.
    induction l as [|[[r m] c] l IH]; intros i dis d H; [destruct H|].
    change (cksM fl ((r, m, c) :: l)) with ((r, m, diff_tM fl c) :: cksM fl l) in H. cbn [scan_new] in H.
    assert (Hhead : forall d0 rest, In d (d0 :: rest) -> scan_relM og pop inrw mta (r, m, c) d0 ->
              (In d rest -> exists k, In k l /\ scan_relM og pop inrw mta k d) ->
              exists k, In k ((r, m, c) :: l) /\ scan_relM og pop inrw mta k d).
    { intros d0 rest [E|Hin] Hrel Hrest.
      - subst d0. exists (r, m, c). split; [now left | exact Hrel].
      - destruct (Hrest Hin) as (k & Hk & Hr). exists k. split; [now right | exact Hr]. }
    destruct (afind r og 0) as [[j so]|] eqn:Ef.
    - apply afind_Some in Ef as (mo & El).
      destruct (dis || negb (Nat.eqb i j)).
      + eapply Hhead; [exact H| |apply IH].
        unfold scan_relM, arow, ami, asub. cbn [fst snd]. rewrite El.
        exists (if mta then pop else Moved). split; [destruct mta; auto | reflexivity].
      + eapply Hhead; [exact H| |apply IH].
        unfold scan_relM, arow, ami, asub. cbn [fst snd]. rewrite El.
        exists pop. split; [auto | reflexivity].
    - apply afind_None in Ef.
      eapply Hhead; [exact H| |apply IH].
      unfold scan_relM, arow, ami, asub. cbn [fst snd]. rewrite Ef. reflexivity.
  Qed.

  Lemma scan_relM_row og pop inrw mta k d : scan_relM og pop inrw mta k d -> d_row d = arow k /\ d_mi d = ami k.
  Proof.
    unfold scan_relM. destruct (alookup (arow k) og) as [[mo so]|].
    - intros (o & _ & E). subst d. split; reflexivity.
    - intros E. subst d. split; reflexivity.
  Qed.

  Definition mkremM (k : string * minfo * atree) : dnode := DN Removed (arow k) (ami k) (removed_tM fl (asub k)).

  Lemma removed_rowsM_spec : forall l newrows i,
    map snd (removed_rowsM fl l newrows i) = map mkremM (filter (notin newrows) l).
  Proof.
    induction l as [|[[r m] c] l IH]; intros newrows i; [reflexivity|].
    cbn [removed_rowsM filter]. unfold notin at 1, arow at 1. cbn [fst].
    destruct (existsb (String.eqb r) newrows); cbn [negb map snd]; rewrite IH; reflexivity.
  Qed.

  Lemma cksM_rows' f : map (fun k : ckid => fst (fst k)) (cksM fl f) = arows f.
  Proof. unfold cksM, arows. rewrite map_map. reflexivity. Qed.

  Lemma base_diffM_perm og pop inrw mta ng :
    Permutation (base_diffM fl og pop inrw mta (cksM fl ng))
                (scan_new og pop inrw mta (cksM fl ng) 0 false ++ map mkremM (filter (notin (arows ng)) og)).
  Proof.
    unfold base_diffM. rewrite cksM_rows'.
    eapply Permutation_trans; [apply interleave_perm|].
    rewrite removed_rowsM_spec. apply Permutation_refl.
  Qed.

  Lemma mkremM_rows nk : map d_row (map mkremM nk) = arows nk.
  Proof. unfold arows. rewrite map_map. reflexivity. Qed.

  Lemma base_diffM_rows_perm og pop inrw mta ng :
    Permutation (map d_row (base_diffM fl og pop inrw mta (cksM fl ng)))
                (arows ng ++ arows (filter (notin (arows ng)) og)).
  Proof.
    eapply Permutation_trans; [apply Permutation_map; apply base_diffM_perm|].
    rewrite map_app, scanM_rows, mkremM_rows. apply Permutation_refl.
  Qed.

  Lemma base_diffM_In og pop inrw mta ng d :
    In d (base_diffM fl og pop inrw mta (cksM fl ng)) ->
    (exists k, In k ng /\ scan_relM og pop inrw mta k d) \/
    (exists k, In k og /\ ~ In (arow k) (arows ng) /\ d = mkremM k).
  Proof.
    intros H. eapply Permutation_in in H; [|apply base_diffM_perm].
    apply in_app_iff in H as [H|H].
    - left. eapply scanM_In. exact H.
    - right. apply in_map_iff in H as (k & E & Hk). apply filter_In in Hk as [Hk1 Hk2].
      exists k. split; [exact Hk1|]. split; [|auto].
      unfold notin in Hk2. apply negb_true_iff in Hk2. apply existsb_eqb_false. exact Hk2.
  Qed.

  Lemma base_diffM_NoDup og pop inrw mta ng :
    NoDup (arows og) -> NoDup (arows ng) -> NoDup (map d_row (base_diffM fl og pop inrw mta (cksM fl ng))).
  Proof.
    intros Ho Hn. eapply Permutation_NoDup; [apply Permutation_sym, base_diffM_rows_perm|].
    apply NoDup_app_intro.
    - exact Hn.
    - apply NoDup_arows_filter. exact Ho.
    - intros r H1 H2. unfold arows in H2. apply in_map_iff in H2 as (k & E & Hk).
      apply filter_In in Hk as [_ Hk]. unfold notin in Hk. apply negb_true_iff in Hk.
      apply existsb_eqb_false in Hk. subst r. contradiction.
  Qed.

  Lemma base_diffM_cov_new og pop inrw mta ng k :
    In k ng -> In (arow k) (map d_row (base_diffM fl og pop inrw mta (cksM fl ng))).
  Proof.
    intros Hk. eapply Permutation_in; [apply Permutation_sym, base_diffM_rows_perm|].
    apply in_or_app. left. apply in_map. exact Hk.
  Qed.

  Lemma base_diffM_cov_old og pop inrw mta ng k :
    In k og -> In (arow k) (map d_row (base_diffM fl og pop inrw mta (cksM fl ng))).
  Proof.
    intros Hk. eapply Permutation_in; [apply Permutation_sym, base_diffM_rows_perm|].
    apply in_or_app. destruct (existsb (String.eqb (arow k)) (arows ng)) eqn:E.
    - left. apply existsb_eqb_In. exact E.
    - right. apply in_map. apply filter_In. split; [exact Hk|]. unfold notin. rewrite E. reflexivity.
  Qed.

  (* ---------- the predicate, unfolded ---------- *)
  Lemma ml_entry_ok_eq ao an o row m kids :
    ml_entry_ok fl ao an (DN o row m kids) =
    (negb (ml_row fl ao an row) ||
     (negb (tree_eqb (body_of row ao) (body_of row an)) &&
      match o, amem row ao, amem row an with
      | Removed, true, false => tree_eqb (dshape (DN o row m kids)) (body_of row ao) && forallb (all_op Removed) kids
      | Added, false, true => tree_eqb (dshape (DN o row m kids)) (body_of row an) && forallb (all_op Added) kids
      | (Affected | Moved | Unchanged), true, true =>
        tree_eqb (dshape (DN o row m kids)) (body_of row an) && forallb (all_op Added) kids
      | _, _, _ => false
      end)).
  Proof. reflexivity. Qed.

  Lemma ml_level_ok_iff ao an d :
    ml_level_ok fl ao an d = true <->
    (forall x, In x d -> ml_entry_ok fl ao an x = true) /\
    (forall k, In k (ao ++ an) -> ml fl (ami k) = true ->
       if tree_eqb (body_of (arow k) ao) (body_of (arow k) an)
       then existsb (rowis (arow k)) d = false
       else List.length (filter (rowis (arow k)) d) = 1).
  Proof.
    unfold ml_level_ok. rewrite !andb_true_iff, !forallb_forall. split.
    - intros [[H1 H2] H3]. split; [exact H1|]. intros k Hk Hm. specialize (H2 k Hk). specialize (H3 k Hk).
      rewrite Hm in H2, H3. cbn [negb orb] in H2, H3.
      destruct (tree_eqb (body_of (arow k) ao) (body_of (arow k) an)); cbn [negb orb] in H2, H3.
      + apply negb_true_iff in H3. exact H3.
      + apply Nat.eqb_eq in H2. exact H2.
    - intros [H1 H2]. split; [split; [exact H1|]|]; intros k Hk; specialize (H2 k Hk);
        destruct (ml fl (ami k)); cbn [negb orb]; try reflexivity; specialize (H2 eq_refl);
        destruct (tree_eqb (body_of (arow k) ao) (body_of (arow k) an)); cbn [negb orb]; try reflexivity.
      + apply Nat.eqb_eq. exact H2.
      + apply negb_true_iff. exact H2.
  Qed.

  Lemma existsb_map {A B} (p : B -> bool) (f : A -> B) l : existsb p (map f l) = existsb (fun x => p (f x)) l.
  Proof. induction l as [|x l IH]; [reflexivity|]. cbn [map existsb]. rewrite IH. reflexivity. Qed.

  Lemma filter_map_comm {A B} (p : B -> bool) (f : A -> B) l : filter p (map f l) = map f (filter (fun x => p (f x)) l).
  Proof. induction l as [|x l IH]; [reflexivity|]. cbn [map filter]. destruct (p (f x)); cbn [map]; rewrite IH; reflexivity. Qed.

  (* a row-preserving transformation of the entries that keeps each entry's law keeps the level's law *)
  Lemma ml_level_ok_map (f : dnode -> dnode) ao an d :
    (forall x, d_row (f x) = d_row x) ->
    (forall x, In x d -> ml_entry_ok fl ao an x = true -> ml_entry_ok fl ao an (f x) = true) ->
    ml_level_ok fl ao an d = true -> ml_level_ok fl ao an (map f d) = true.
  Proof.
    intros Hrow Hent H. apply ml_level_ok_iff in H as [H1 H2]. apply ml_level_ok_iff. split.
    - intros x Hx. apply in_map_iff in Hx as (y & Ey & Hy). subst x. apply Hent; [exact Hy | apply H1; exact Hy].
    - intros k Hk Hm. specialize (H2 k Hk Hm).
      assert (E : forall r, (fun x => rowis r (f x)) = rowis r -> True) by auto.
      rewrite existsb_map, filter_map_comm, map_length.
      assert (Ep : forall l, filter (fun x => rowis (arow k) (f x)) l = filter (rowis (arow k)) l).
      { intros l. apply filter_ext. intros x. unfold rowis. rewrite Hrow. reflexivity. }
      assert (Ee : existsb (fun x => rowis (arow k) (f x)) d = existsb (rowis (arow k)) d).
      { clear -Hrow. induction d as [|x l IH]; [reflexivity|]. cbn [existsb]. rewrite IH. unfold rowis. rewrite Hrow. reflexivity. }
      rewrite Ep, Ee. exact H2.
  Qed.

  (* ---------- bodies as the model reads them ---------- *)
  Lemma sub_of_body r f : sub_of r f = body_of r f.
  Proof.
    unfold sub_of, body_of, plain. pose proof (afind_alookup f r 0) as H.
    destruct (afind r f 0) as [[j s]|]; destruct (alookup r f) as [[m s']|]; try discriminate; [|reflexivity].
    injection H as E. subst. reflexivity.
  Qed.

  Lemma sub_of_x_body r : forall f, sub_of_x r (xks fl f) = body_of r f.
  Proof.
    induction f as [|[[r0 m0] c0] f IH]; [reflexivity|].
    change (xks fl ((r0, m0, c0) :: f)) with ((r0, m0, c0, diff_tM fl c0) :: xks fl f).
    unfold sub_of_x, body_of in *. cbn [find alookup]. change (xk_row (r0, m0, c0, diff_tM fl c0)) with r0.
    destruct (String.eqb r0 r); [reflexivity | exact IH].
  Qed.

  (* the multiline group, entry by entry *)
  Definition mlf (og : aforest) (ng : list xkid) (it : dnode) : list dnode :=
    match it with
    | DN o row mi _ =>
      if tree_eqb (sub_of row og) (sub_of_x row ng) then []
      else if op_eqb o Removed then [DN o row mi (body Removed (sub_of row og))]
           else [DN o row mi (body Added (sub_of_x row ng))]
    end.

  Lemma multiline_diff_eq og ng pop inrw :
    multiline_diff fl og ng pop inrw = flat_map (mlf og ng) (base_diffM fl og pop inrw true (map xk_ck ng)).
  Proof. unfold multiline_diff. apply flat_map_ext. intros [o row mi k]. reflexivity. Qed.

  Lemma mlf_row og ng it d : In d (mlf og ng it) -> d_row d = d_row it.
  Proof.
    destruct it as [o row mi k]. cbn [mlf]. destruct (tree_eqb _ _); [intros []|].
    destruct (op_eqb o Removed); intros [E|[]]; subst d; reflexivity.
  Qed.

  Lemma filter_rowis_flat_map (F : dnode -> list dnode) r :
    (forall it d, In d (F it) -> d_row d = d_row it) ->
    forall B, filter (rowis r) (flat_map F B) = flat_map F (filter (rowis r) B).
  Proof.
    intros HF. induction B as [|it B IH]; [reflexivity|]. cbn [flat_map filter]. rewrite filter_app, IH.
    destruct (rowis r it) eqn:E.
    - cbn [flat_map]. f_equal. clear IH. pose proof (HF it) as H. induction (F it) as [|d l IHl]; [reflexivity|].
      cbn [filter]. unfold rowis at 1. rewrite (H d) by (now left). unfold rowis in E. rewrite E. f_equal.
      apply IHl. intros d' Hd'. apply H. now right.
    - rewrite filter_none; [reflexivity|]. intros d Hd. unfold rowis in *. rewrite (HF it d Hd). exact E.
  Qed.

  (* rows of the ordinary groups *)
  Lemma aff_to_moved_In d G : In d (aff_to_moved G) -> exists y, In y G /\ d = aff_to_moved_n y.
  Proof. unfold aff_to_moved. intros H. apply in_map_iff in H as (y & E & Hy). exists y. auto. Qed.

  Lemma run_dlogicM_In D og pop inrw ng d :
    In d (run_dlogicM fl D og (cksM fl ng) pop inrw) ->
    exists inrw' mta y, In y (base_diffM fl og pop inrw' mta (cksM fl ng)) /\ (d = y \/ d = aff_to_moved_n y).
  Proof.
    unfold run_dlogicM. destruct D.
    - intros H. exists inrw, true, d. auto.
    - intros H. exists inrw, false, d. auto.
    - destruct inrw.
      + intros H. exists true, false, d. auto.
      + destruct (all_affected _); [intros []|]. intros H. apply aff_to_moved_In in H as (y & Hy & E).
        exists true, false, y. auto.
  Qed.

  Lemma base_diffM_row_src og pop inrw mta ng d : In d (base_diffM fl og pop inrw mta (cksM fl ng)) ->
    exists k, (In k og \/ In k ng) /\ arow k = d_row d.
  Proof.
    intros H. apply base_diffM_In in H as [(k & Hk & Hrel)|(k & Hk & _ & E)].
    - exists k. split; [right; exact Hk|]. symmetry. apply (scan_relM_row _ _ _ _ _ _ Hrel).
    - exists k. split; [left; exact Hk|]. subst d. reflexivity.
  Qed.

  Lemma group_row_src L old nk pop inrw d :
    In d (run_xlogic fl L (filter (xin L) old) (xks fl (filter (xin L) nk)) pop inrw) ->
    exists k, (In k old \/ In k nk) /\ xin L k = true /\ arow k = d_row d.
  Proof.
    intros H.
    assert (Hsrc : forall y inrw' mta, In y (base_diffM fl (filter (xin L) old) pop inrw' mta (cksM fl (filter (xin L) nk))) ->
              exists k, (In k old \/ In k nk) /\ xin L k = true /\ arow k = d_row y).
    { intros y inrw' mta Hy. apply base_diffM_row_src in Hy as (k & [Hk|Hk] & E); apply filter_In in Hk as [Hk1 Hk2];
        exists k; auto. }
    destruct L as [D|]; cbn [run_xlogic] in H.
    - rewrite xks_cks in H. apply run_dlogicM_In in H as (inrw' & mta & y & Hy & [E|E]); subst d.
      + eapply Hsrc. exact Hy.
      + rewrite aff_to_moved_row. eapply Hsrc. exact Hy.
    - rewrite multiline_diff_eq, xks_cks in H. apply in_flat_map in H as (it & Hit & Hd).
      rewrite (mlf_row _ _ _ _ Hd). eapply Hsrc. exact Hit.
  Qed.

  Lemma tree_eqb_refl t : tree_eqb t t = true.
  Proof. apply tree_eqb_eq. reflexivity. Qed.

  (* ================= one level ================= *)
  Section Level.
    Variables (ao nk : aforest) (pop : op).
    Hypothesis Hwo : awf ao.
    Hypothesis Hwn : awf nk.
    Hypothesis Hc : compat ao nk.
    Hypothesis Hpop : pop_ok pop ao.

    Let NDo := awf_NoDup ao Hwo.
    Let NDn := awf_NoDup nk Hwn.
    Let og := filter (xin XMulti) ao.
    Let ngf := filter (xin XMulti) nk.

    Lemma ml_row_old k : In k ao -> ml_row fl ao nk (arow k) = ml fl (ami k).
    Proof.
      destruct k as [[r m] s]. intros Hk. unfold ml_row, arow, ami. cbn [fst snd].
      rewrite (alookup_In ao r m s NDo Hk). reflexivity.
    Qed.

    Lemma ml_row_new k : In k nk -> ml_row fl ao nk (arow k) = ml fl (ami k).
    Proof.
      destruct k as [[r m] s]. intros Hk. unfold ml_row, arow, ami. cbn [fst snd].
      destruct (alookup r ao) as [[mo so]|] eqn:E.
      - destruct (compat_In ao nk Hc r m s mo so Hk E) as [Em _]. subst mo. reflexivity.
      - rewrite (alookup_In nk r m s NDn Hk). reflexivity.
    Qed.

    Lemma ml_row_src L k : In k ao \/ In k nk -> xin L k = true -> ml_row fl ao nk (arow k) = xlogic_eqb L XMulti.
    Proof.
      intros Hk HL.
      assert (E : ml_row fl ao nk (arow k) = ml fl (ami k)) by (destruct Hk; [apply ml_row_old | apply ml_row_new]; assumption).
      rewrite E. destruct L as [D|].
      - apply (xin_XL D k HL).
      - rewrite <- xin_multi. exact HL.
    Qed.

    Lemma multi_lookup_old r : ml_row fl ao nk r = true -> alookup r og = alookup r ao.
    Proof.
      intros H. apply alookup_filter. intros m s E. rewrite xin_multi. unfold ami. cbn [fst snd].
      unfold ml_row in H. rewrite E in H. exact H.
    Qed.

    Lemma multi_lookup_new r : ml_row fl ao nk r = true -> alookup r ngf = alookup r nk.
    Proof.
      intros H. apply alookup_filter. intros m s E. rewrite xin_multi.
      apply alookup_Some_In in E. rewrite <- (ml_row_new _ E). exact H.
    Qed.

    Lemma multi_body_old r : ml_row fl ao nk r = true -> body_of r og = body_of r ao.
    Proof. intros H. unfold body_of. rewrite (multi_lookup_old r H). reflexivity. Qed.
    Lemma multi_body_new r : ml_row fl ao nk r = true -> body_of r ngf = body_of r nk.
    Proof. intros H. unfold body_of. rewrite (multi_lookup_new r H). reflexivity. Qed.

    Lemma pop_both r mo so : alookup r og = Some (mo, so) -> pop = Affected \/ pop = Moved.
    Proof.
      intros El. destruct Hpop as [H|[H|H]]; [auto | auto|]. exfalso. unfold og in El. rewrite H in El. discriminate.
    Qed.

    (* entries of the multiline group obey the law *)
    Lemma multi_entry_ok inrw d : In d (multiline_diff fl og (xks fl ngf) pop inrw) -> ml_entry_ok fl ao nk d = true.
    Proof.
      intros H. rewrite multiline_diff_eq, xks_cks in H. apply in_flat_map in H as (it & Hit & Hd).
      assert (Hml : ml_row fl ao nk (d_row it) = true).
      { pose proof Hit as Hsrc. apply base_diffM_row_src in Hsrc as (k & Hk & E). rewrite <- E.
        destruct Hk as [Hk|Hk]; apply filter_In in Hk as [Hk1 Hk2]; rewrite xin_multi in Hk2;
          [rewrite ml_row_old | rewrite ml_row_new]; assumption. }
      destruct it as [o row mi kk]. cbn [d_row] in Hml. cbn [mlf] in Hd.
      rewrite sub_of_body, sub_of_x_body in Hd. rewrite (multi_body_old row Hml), (multi_body_new row Hml) in Hd.
      destruct (tree_eqb (body_of row ao) (body_of row nk)) eqn:Eb; [destruct Hd|].
      apply base_diffM_In in Hit as [(k & Hk & Hrel)|(k & Hk & Hn & E)].
      - destruct k as [[r m] c]. unfold scan_relM, arow, ami, asub in Hrel. cbn [fst snd] in Hrel.
        assert (Hb : amem row nk = true -> r = row -> amem r nk = true) by (intros; subst; assumption).
        apply filter_In in Hk as [Hk _].
        assert (Hnk : amem r nk = true) by (unfold amem; rewrite (alookup_In nk r m c NDn Hk); reflexivity).
        destruct (alookup r og) as [[mo so]|] eqn:El.
        + destruct Hrel as (o' & Ho' & E). injection E as E1 E2 E3 E4. subst o' row mi kk.
          destruct Ho' as [Ho'|[_ Hf]]; [|discriminate]. subst o.
          assert (Hao : amem r ao = true).
          { unfold amem. rewrite <- (multi_lookup_old r Hml), El. reflexivity. }
          destruct (pop_both r mo so El) as [Hp|Hp]; rewrite Hp in Hd; cbn [op_eqb] in Hd; destruct Hd as [E|[]]; subst d;
            rewrite ml_entry_ok_eq, Eb, Hao, Hnk, dshape_body, all_op_body, tree_eqb_refl; cbn [negb andb]; apply orb_true_r.
        + injection Hrel as E1 E2 E3 E4. subst o row mi kk.
          assert (Hao : amem r ao = false).
          { unfold amem. rewrite <- (multi_lookup_old r Hml), El. reflexivity. }
          cbn [op_eqb] in Hd. destruct Hd as [E|[]]. subst d.
          rewrite ml_entry_ok_eq, Eb, Hao, Hnk, dshape_body, all_op_body, tree_eqb_refl. cbn [negb andb]. apply orb_true_r.
      - destruct k as [[r m] c]. unfold mkremM, arow, ami, asub in E. cbn [fst snd] in E.
        injection E as E1 E2 E3 E4. subst o row mi kk. unfold arow in Hn. cbn [fst] in Hn.
        apply filter_In in Hk as [Hk _].
        assert (Hao : amem r ao = true) by (unfold amem; rewrite (alookup_In ao r m c NDo Hk); reflexivity).
        assert (Hnk : amem r nk = false).
        { unfold amem. rewrite <- (multi_lookup_new r Hml). apply alookup_None in Hn. fold ngf in Hn. rewrite Hn. reflexivity. }
        cbn [op_eqb] in Hd. destruct Hd as [E|[]]. subst d.
        rewrite ml_entry_ok_eq, Eb, Hao, Hnk, dshape_body, all_op_body, tree_eqb_refl. cbn [negb andb]. apply orb_true_r.
    Qed.

    (* entries of the three ordinary groups are not rows of %multiline rules *)
    Lemma other_entry_ok D inrw d :
      In d (run_xlogic fl (XL D) (filter (xin (XL D)) ao) (xks fl (filter (xin (XL D)) nk)) pop inrw) ->
      ml_row fl ao nk (d_row d) = false.
    Proof.
      intros H. apply group_row_src in H as (k & Hk & HL & E). rewrite <- E. rewrite (ml_row_src (XL D) k Hk HL). reflexivity.
    Qed.

    Definition Glev (inrw : bool) (L : xlogic) : list dnode :=
      run_xlogic fl L (filter (xin L) ao) (xks fl (filter (xin L) nk)) pop inrw.

    (* a row of a %multiline rule: exactly the entries the multiline group makes of its one base entry *)
    Lemma multi_count inrw k : In k (ao ++ nk) -> ml fl (ami k) = true ->
      if tree_eqb (body_of (arow k) ao) (body_of (arow k) nk)
      then filter (rowis (arow k)) (diff_levelM fl ao (xks fl nk) pop inrw) = []
      else List.length (filter (rowis (arow k)) (diff_levelM fl ao (xks fl nk) pop inrw)) = 1.
    Proof.
      intros Hk Hm. apply in_app_iff in Hk.
      assert (Hml : ml_row fl ao nk (arow k) = true).
      { rewrite <- Hm. destruct Hk; [apply ml_row_old | apply ml_row_new]; assumption. }
      rewrite diff_levelM_unfold. fold (Glev inrw).
      set (keys := uniq_xl _ []).
      assert (Hkey : In XMulti keys).
      { apply uniq_xl_In. split; [|intros []]. apply in_or_app.
        assert (Ex : mi_xlogic fl (ami k) = XMulti) by (unfold mi_xlogic; rewrite Hm; reflexivity).
        destruct Hk as [Hk|Hk]; [left | right]; rewrite <- Ex; apply (in_map (fun k => mi_xlogic fl (ami k))); exact Hk. }
      rewrite filter_flat_map.
      rewrite (flat_map_only (fun L => filter (rowis (arow k)) (Glev inrw L)) XMulti keys (uniq_xl_NoDup _ _) Hkey).
      2:{ intros L _ HL. destruct L as [D|]; [|congruence]. apply filter_none. intros d Hd.
          apply other_entry_ok in Hd. unfold rowis. apply String.eqb_neq. intro E. rewrite E in Hd. congruence. }
      unfold Glev. cbn [run_xlogic]. fold og ngf. rewrite multiline_diff_eq, xks_cks.
      rewrite (filter_rowis_flat_map _ _ (mlf_row og (xks fl ngf))).
      set (B := base_diffM fl og pop inrw true (cksM fl ngf)).
      assert (NDB : NoDup (map d_row B)) by (apply base_diffM_NoDup; apply NoDup_arows_filter; assumption).
      assert (HinB : In (arow k) (map d_row B)).
      { destruct Hk as [Hk|Hk].
        - apply base_diffM_cov_old. apply filter_In. split; [exact Hk | rewrite xin_multi; exact Hm].
        - apply base_diffM_cov_new. apply filter_In. split; [exact Hk | rewrite xin_multi; exact Hm]. }
      apply in_map_iff in HinB as (it & Eit & Hit). rewrite <- Eit.
      rewrite (filter_rowis_unique B it NDB Hit). cbn [flat_map]. rewrite app_nil_r.
      destruct it as [o row mi kk]. cbn [d_row] in *. subst row. cbn [mlf].
      rewrite sub_of_body, sub_of_x_body, (multi_body_old _ Hml), (multi_body_new _ Hml).
      destruct (tree_eqb (body_of (arow k) ao) (body_of (arow k) nk)).
      - reflexivity.
      - destruct (op_eqb o Removed); reflexivity.
    Qed.

    Theorem level_ml inrw : ml_level_ok fl ao nk (diff_levelM fl ao (xks fl nk) pop inrw) = true.
    Proof.
      apply ml_level_ok_iff. split.
      - intros x Hx. rewrite diff_levelM_unfold in Hx. apply in_flat_map in Hx as (L & _ & Hx).
        destruct L as [D|].
        + apply other_entry_ok in Hx. destruct x as [o row m kids]. rewrite ml_entry_ok_eq. cbn [d_row] in Hx.
          rewrite Hx. reflexivity.
        + eapply multi_entry_ok. exact Hx.
      - intros k Hk Hm. pose proof (multi_count inrw k Hk Hm) as H.
        destruct (tree_eqb (body_of (arow k) ao) (body_of (arow k) nk)).
        + apply filter_nil_existsb. exact H.
        + exact H.
    Qed.
  End Level.

  (* ---------- mark_unchanged keeps the law ---------- *)
  Lemma all_op_mark o : o <> Affected -> forall kids, forallb (all_op o) kids = true -> map mark_unchanged_n kids = kids.
  Proof.
    intros Ho. induction kids as [|[o' r m k] kids IH]; intros H; [reflexivity|].
    cbn [forallb all_op] in H. apply andb_true_iff in H as [H H2]. apply andb_true_iff in H as [H1 _].
    apply op_eqb_eq in H1. subst o'. cbn [map]. rewrite (IH H2). f_equal.
    cbn [mark_unchanged_n]. destruct o; try reflexivity. contradiction.
  Qed.

  Lemma ml_entry_ok_mark ao an x : ml_entry_ok fl ao an x = true -> ml_entry_ok fl ao an (mark_unchanged_n x) = true.
  Proof.
    destruct x as [o row m kids]. intros H. cbn [mark_unchanged_n].
    destruct (op_eqb o Affected) eqn:Eo; [|exact H]. apply op_eqb_eq in Eo. subst o.
    rewrite ml_entry_ok_eq in *. destruct (ml_row fl ao an row); [|reflexivity]. cbn [negb orb] in *.
    apply andb_true_iff in H as [Hb H]. rewrite Hb. cbn [andb].
    destruct (amem row ao); [|discriminate]. destruct (amem row an); [|discriminate].
    apply andb_true_iff in H as [H1 H2].
    assert (Ek : map mark_unchanged_n kids = kids) by (apply (all_op_mark Added); [discriminate | exact H2]).
    rewrite Ek. rewrite !dshape_eq in *. rewrite H1, H2.
    destruct (forallb (fun x => op_eqb (d_op x) Unchanged) kids); reflexivity.
  Qed.

  Lemma ml_level_ok_mark ao an d : ml_level_ok fl ao an d = true -> ml_level_ok fl ao an (mark_unchanged d) = true.
  Proof.
    intros H. unfold mark_unchanged. apply ml_level_ok_map; [exact mark_row | | exact H].
    intros x _. apply ml_entry_ok_mark.
  Qed.

  (* the level law of the extended differ, for any old side, handed-down op and rewrite marker *)
  Theorem diff_tM_level_ml nt ao pop inrw : awf ao -> awf (akids nt) -> compat ao (akids nt) -> pop_ok pop ao ->
    ml_level_ok fl ao (akids nt) (diff_tM fl nt ao pop inrw) = true.
  Proof.
    destruct nt as [nk]. cbn [akids]. intros Hwo Hwn Hc Hp. rewrite diff_tM_unfold. apply level_ml; assumption.
  Qed.
End ML.
