(* C15, "no loss" for execute_for as a whole: the last step from the sessions the rule loops return
   (MeshNoLossLoopProofs.v) through conv_direct / conv_indirect / mk_peer to the Peer objects, and the
   bookkeeping of the handler table of a case against lookup_direct.  Ends in exec_no_loss:
   P_C15_no_loss holds of the model's own execute_for on the domain Spec/P_C15_noloss_wf.v describes. *)
From Coq Require Import List String Ascii Bool Arith ZArith Lia.
From Annet Require Import Model.Merge Model.Mesh Model.MeshExec Spec.P_C15 Spec.P_C15_iface Spec.P_C15_seq
  Spec.P_C15_noloss_wf
  Proofs.MergeProofs Proofs.MeshExecProofs Proofs.MeshNoLossProofs Proofs.MeshNoLossLoopProofs.
Import ListNotations.
Open Scope string_scope.
Open Scope list_scope.

(* ---- small facts ---------------------------------------------------------------------------------- *)

Lemma ip_of_text : forall s, ip_of s = ip_text s.
Proof.
  induction s as [|c r IH]; cbn; [reflexivity|].
  destruct (Ascii.eqb c "/"%char); [reflexivity|]. rewrite IH. reflexivity.
Qed.

Lemma In_lookup_nodup : forall (A : Type) (e : list (string * A)) f v,
  NoDup (keys e) -> In (f, v) e -> lookup f e = Some v.
Proof.
  intros A. induction e as [|[g w] r IH]; intros f v ND Hin; [destruct Hin|].
  unfold keys in *. cbn [map fst] in ND. inversion ND as [|x xs Hnot ND']; subst. cbn [lookup].
  destruct Hin as [Hin|Hin].
  - injection Hin as H1 H2. subst. rewrite String.eqb_refl. reflexivity.
  - destruct (String.eqb f g) eqn:E.
    + apply String.eqb_eq in E. subst g. exfalso. apply Hnot.
      change f with (fst (f, v)). apply in_map. exact Hin.
    + apply IH; assumption.
Qed.

Lemma wf_obj_facts : forall sch a, wf_obj sch a = true ->
  NoDup (keys a) /\
  (forall f v, lookup f a = Some v -> exists m, lookup f sch = Some m /\ wf_val m v = true).
Proof.
  intros sch a H. unfold wf_obj in H. apply andb_true_iff in H. destruct H as [_ H].
  destruct (wf_obj_inv _ _ H) as [_ [ND W]]. cbn [unobj] in ND, W.
  split; [exact ND|]. intros f v Hl.
  apply (wf_entries_lookup wf_val (fun f => lookup f sch) a f v W Hl).
Qed.

Lemma wf_fc_plain : forall v, wf_val MForbidChange v = true -> plain v = true.
Proof. intros v. destruct v; cbn; intro H; try reflexivity; discriminate. Qed.

Lemma kept_fc_plain : forall v w, kept MForbidChange v w -> plain v = true -> value_eqb w v = true.
Proof.
  intros v w [H|H] Hp; [|exact H]. subst w. apply value_eqb_refl. exact Hp.
Qed.

Lemma kept_fc_str : forall a w, kept MForbidChange (VAtom (AStr a)) w -> w = VAtom (AStr a).
Proof.
  intros a w [H|H]; [exact H|]. destruct w as [x| | | |]; cbn in H; try discriminate.
  apply atom_eqb_eq in H. subst x. reflexivity.
Qed.

Lemma value_eqb_not_none : forall w v, value_eqb w v = true -> is_none_val v = false -> is_none_val w = false.
Proof.
  intros w v H Hn. destruct w as [x| | | |]; try reflexivity. destruct x; try reflexivity.
  destruct v as [y| | | |]; cbn in H; try discriminate. destruct y; cbn in H; discriminate.
Qed.

Lemma Forall2_In_ex : forall (A B : Type) (R : A -> B -> Prop) l ps x,
  Forall2 R l ps -> In x l -> exists y, In y ps /\ R x y.
Proof.
  intros A B R l ps x F. induction F as [|a b l' ps' Hab F IH]; intros Hin; [destruct Hin|].
  destruct Hin as [Hin|Hin].
  - subst a. exists b. split; [left; reflexivity|exact Hab].
  - destruct (IH Hin) as [y [Hy Hr]]. exists y. split; [right; exact Hy|exact Hr].
Qed.

(* ---- the schema guard ----------------------------------------------------------------------------- *)

Lemma noloss_schema_fc : forall opt dto f,
  noloss_schema opt dto = true -> In f (read_fields opt) -> lookup f dto = Some MForbidChange.
Proof.
  intros opt dto f H Hin. unfold noloss_schema in H.
  apply andb_true_iff in H. destruct H as [H _]. apply andb_true_iff in H. destruct H as [H _].
  rewrite forallb_forall in H. specialize (H f Hin).
  destruct (lookup f dto) as [m|]; [|discriminate]. destruct m; try discriminate. reflexivity.
Qed.

Lemma noloss_schema_fam : forall opt dto, noloss_schema opt dto = true -> lookup "families" dto = Some MUnite.
Proof.
  intros opt dto H. unfold noloss_schema in H.
  apply andb_true_iff in H. destruct H as [H _]. apply andb_true_iff in H. destruct H as [_ H].
  destruct (lookup "families" dto) as [m|]; [|discriminate]. destruct m; try discriminate. reflexivity.
Qed.

Lemma noloss_schema_las : forall opt dto, noloss_schema opt dto = true -> lookup "local_as" dto = None.
Proof.
  intros opt dto H. unfold noloss_schema in H. apply andb_true_iff in H. destruct H as [_ H].
  destruct (lookup "local_as" dto); [discriminate|reflexivity].
Qed.

Lemma read_fields_named : forall opt f,
  In f ["addr"; "asnum"; "description"; "group_name"; "vrf"; "import_policy"; "export_policy"; "update_source"] ->
  In f (read_fields opt).
Proof. intros opt f H. unfold read_fields. apply in_or_app. left. exact H. Qed.

Lemma read_fields_opt : forall opt f, sin f opt = true -> f <> "local_as" -> In f (read_fields opt).
Proof.
  intros opt f H Hn. unfold read_fields. apply in_or_app. right. apply filter_In. split.
  - unfold sin in H. apply existsb_exists in H. destruct H as [x [Hx Hf]]. apply String.eqb_eq in Hf. subst x. exact Hx.
  - apply negb_true_iff. apply String.eqb_neq. exact Hn.
Qed.

(* ---- PeerOptions: an attribute of the local DTO that is a PeerOptions field is in the options ------ *)

Lemma peer_options_lookup : forall opt local g v,
  In g opt -> lookup (opt_src g) local = Some v -> is_none_val v = false ->
  lookup g (peer_options opt local) = Some v.
Proof.
  induction opt as [|f rest IH]; intros local g v Hin Hl Hn; [destruct Hin|].
  unfold peer_options. cbn [flat_map]. fold (peer_options rest local). cbv zeta. rewrite lookup_app.
  destruct (String.eqb g f) eqn:E.
  - apply String.eqb_eq in E. subst f. fold (opt_src g). rewrite Hl, Hn. cbn [lookup].
    rewrite String.eqb_refl. reflexivity.
  - assert (Hr : In g rest).
    { destruct Hin as [Hin|Hin]; [subst f; rewrite String.eqb_refl in E; discriminate|exact Hin]. }
    assert (Hh : lookup g (match lookup (if String.eqb f "local_as" then "asnum" else f) local with
                           | Some v0 => if is_none_val v0 then [] else [(f, v0)]
                           | None => []
                           end) = None).
    { destruct (lookup (if String.eqb f "local_as" then "asnum" else f) local) as [x|]; [|reflexivity].
      destruct (is_none_val x); [reflexivity|]. cbn [lookup]. rewrite E. reflexivity. }
    rewrite Hh. apply IH; assumption.
Qed.

(* ---- what mk_peer puts where ---------------------------------------------------------------------- *)

Lemma mk_peer_fields : forall opt local con host i p,
  mk_peer opt local con host i = Some p ->
  get_val "import_policy" p = dflt "import_policy" local estr /\
  get_val "export_policy" p = dflt "export_policy" local estr /\
  get_val "update_source" p = dflt "update_source" local (VAtom ANone) /\
  get_val "families" p = dflt "families" con (VSet []) /\
  get_val "description" p = dflt "description" con estr /\
  get_val "group_name" p = dflt "group_name" con estr /\
  get_val "vrf_name" p = dflt "vrf" con estr /\
  (forall asn, lookup "asnum" con = Some asn -> get_val "remote_as" p = asn) /\
  (forall g, peer_opt g p = lookup g (peer_options opt local)) /\
  get_str "hostname" p = host /\
  lookup "addr" p = ip_val (lookup "addr" con).
Proof.
  intros opt local con host i p H. unfold mk_peer in H.
  destruct (ip_val (lookup "addr" con)) as [a|]; [|discriminate].
  destruct (lookup "asnum" con) as [asn|]; [|discriminate].
  injection H as H. subst p. repeat split; try reflexivity.
  intros asn' E. injection E as E. subst asn'. reflexivity.
Qed.

(* ---- carried: a kept attribute is read back from the Peer ------------------------------------------ *)

Section Carried.
  Variable opt : list string.
  Variables dto dp : schema.                    (* class of the call's DTOs; class Pair.local / Pair.connected are merged as *)
  Hypothesis Hdto : noloss_schema opt dto = true.
  Hypothesis Hdp : noloss_schema opt dp = true.

  Lemma fc_both : forall f, In f (read_fields opt) ->
    lookup f dto = Some MForbidChange /\ lookup f dp = Some MForbidChange.
  Proof. intros f H. split; eapply noloss_schema_fc; eassumption. Qed.

  (* own side: policies, update_source and the PeerOptions fields *)
  Lemma carried_own : forall local con host i p f v m,
    mk_peer opt local con host i = Some p ->
    lookup f dto = Some m -> wf_val m v = true ->
    (forall mg, lookup f dto = Some mg -> lookup f dp = Some mg ->
                exists w, lookup f local = Some w /\ kept mg v w) ->
    carried opt true f v p = true.
  Proof.
    intros local con host i p f v m Hp Hm Hw Chain.
    destruct (mk_peer_fields _ _ _ _ _ _ Hp) as [F1 [F2 [F3 [_ [_ [_ [_ [_ [Fo _]]]]]]]]].
    unfold carried. destruct (is_none_val v) eqn:Hn; [reflexivity|].
    assert (FC : forall g, In g (read_fields opt) -> f = g ->
                 exists w, lookup f local = Some w /\ value_eqb w v = true).
    { intros g Hg Eg. subst g. destruct (fc_both f Hg) as [A B].
      destruct (Chain _ A B) as [w [Hl Hk]]. exists w. split; [exact Hl|].
      apply kept_fc_plain; [exact Hk|]. apply wf_fc_plain. rewrite A in Hm. injection Hm as Hm. subst m. exact Hw. }
    destruct (String.eqb f "import_policy") eqn:E1.
    { apply String.eqb_eq in E1. cbn [orb]. subst f.
      destruct (FC "import_policy") as [w [Hl Hv]]; [apply read_fields_named; cbn; tauto|reflexivity|].
      rewrite F1. unfold dflt. rewrite Hl. exact Hv. }
    destruct (String.eqb f "export_policy") eqn:E2.
    { apply String.eqb_eq in E2. cbn [orb]. subst f.
      destruct (FC "export_policy") as [w [Hl Hv]]; [apply read_fields_named; cbn; tauto|reflexivity|].
      rewrite F2. unfold dflt. rewrite Hl. exact Hv. }
    destruct (String.eqb f "update_source") eqn:E3.
    { apply String.eqb_eq in E3. cbn [orb]. subst f.
      destruct (FC "update_source") as [w [Hl Hv]]; [apply read_fields_named; cbn; tauto|reflexivity|].
      rewrite F3. unfold dflt. rewrite Hl. exact Hv. }
    cbn [orb]. cbv zeta.
    destruct (String.eqb f "asnum") eqn:Ea.
    - apply String.eqb_eq in Ea. subst f.
      destruct (sin "local_as" opt) eqn:Es; [|reflexivity].
      destruct (FC "asnum") as [w [Hl Hv]]; [apply read_fields_named; cbn; tauto|reflexivity|].
      rewrite Fo. rewrite (peer_options_lookup opt local "local_as" w).
      + exact Hv.
      + unfold sin in Es. apply existsb_exists in Es. destruct Es as [x [Hx Hf]].
        apply String.eqb_eq in Hf. subst x. exact Hx.
      + exact Hl.
      + eapply value_eqb_not_none; eassumption.
    - destruct (sin f opt) eqn:Es; [|reflexivity].
      assert (Hnl : f <> "local_as").
      { intro E. subst f. rewrite (noloss_schema_las _ _ Hdto) in Hm. discriminate. }
      destruct (FC f) as [w [Hl Hv]]; [apply read_fields_opt; assumption|reflexivity|].
      rewrite Fo. rewrite (peer_options_lookup opt local f w).
      + exact Hv.
      + unfold sin in Es. apply existsb_exists in Es. destruct Es as [x [Hx Hf]].
        apply String.eqb_eq in Hf. subst x. exact Hx.
      + unfold opt_src. apply String.eqb_neq in Hnl. rewrite Hnl. exact Hl.
      + eapply value_eqb_not_none; eassumption.
  Qed.

  (* the other end's side: families, description, group, vrf, AS number *)
  Lemma carried_other : forall local con host i p f v m,
    mk_peer opt local con host i = Some p ->
    lookup f dto = Some m -> wf_val m v = true ->
    (forall mg, lookup f dto = Some mg -> lookup f dp = Some mg ->
                exists w, lookup f con = Some w /\ kept mg v w) ->
    carried opt false f v p = true.
  Proof.
    intros local con host i p f v m Hp Hm Hw Chain.
    destruct (mk_peer_fields _ _ _ _ _ _ Hp) as [_ [_ [_ [F4 [F5 [F6 [F7 [F8 _]]]]]]]].
    unfold carried. destruct (is_none_val v) eqn:Hn; [reflexivity|].
    assert (FC : forall g, In g (read_fields opt) -> f = g ->
                 exists w, lookup f con = Some w /\ value_eqb w v = true).
    { intros g Hg Eg. subst g. destruct (fc_both f Hg) as [A B].
      destruct (Chain _ A B) as [w [Hl Hk]]. exists w. split; [exact Hl|].
      apply kept_fc_plain; [exact Hk|]. apply wf_fc_plain. rewrite A in Hm. injection Hm as Hm. subst m. exact Hw. }
    destruct (String.eqb f "families") eqn:E1.
    { apply String.eqb_eq in E1. subst f.
      destruct (Chain MUnite (noloss_schema_fam _ _ Hdto) (noloss_schema_fam _ _ Hdp)) as [w [Hl Hk]].
      rewrite F4. unfold dflt. rewrite Hl. exact Hk. }
    destruct (String.eqb f "description") eqn:E2.
    { apply String.eqb_eq in E2. cbn [orb]. subst f.
      destruct (FC "description") as [w [Hl Hv]]; [apply read_fields_named; cbn; tauto|reflexivity|].
      rewrite F5. unfold dflt. rewrite Hl. exact Hv. }
    destruct (String.eqb f "group_name") eqn:E3.
    { apply String.eqb_eq in E3. cbn [orb]. subst f.
      destruct (FC "group_name") as [w [Hl Hv]]; [apply read_fields_named; cbn; tauto|reflexivity|].
      rewrite F6. unfold dflt. rewrite Hl. exact Hv. }
    cbn [orb].
    destruct (String.eqb f "vrf") eqn:E4.
    { apply String.eqb_eq in E4. subst f.
      destruct (FC "vrf") as [w [Hl Hv]]; [apply read_fields_named; cbn; tauto|reflexivity|].
      rewrite F7. unfold dflt. rewrite Hl. exact Hv. }
    destruct (String.eqb f "asnum") eqn:E5; [|reflexivity].
    apply String.eqb_eq in E5. subst f.
    destruct (FC "asnum") as [w [Hl Hv]]; [apply read_fields_named; cbn; tauto|reflexivity|].
    rewrite (F8 w Hl). exact Hv.
  Qed.
End Carried.

(* ---- one handler call, in terms of call_sides ------------------------------------------------------ *)

Lemma edp_sides_no_loss : forall handler dto device m ports mine theirs s loc con,
  call_sides handler device m ports = (mine, theirs, s) ->
  execute_direct_pair handler dto device (other_end m) m ports = Some (Ok (loc, con)) ->
  forall f v mg, lookup f dto = Some mg ->
    ((lookup f mine = Some v \/ lookup f s = Some v) -> exists w, lookup f loc = Some w /\ kept mg v w) /\
    ((lookup f theirs = Some v \/ lookup f s = Some v) -> exists w, lookup f con = Some w /\ kept mg v w).
Proof.
  intros handler dto device m ports mine theirs s loc con Hs H.
  pose proof (call_no_loss handler dto device (other_end m) m ports loc con H) as N.
  unfold call_sides in Hs.
  destruct (if m_direct m then handler (r_id (m_rule m)) device (other_end m) (map fst ports)
            else handler (r_id (m_rule m)) (other_end m) device (map snd ports)) as [[l r] s'].
  destruct (m_direct m); injection Hs as H1 H2 H3; subst; exact N.
Qed.

Lemma edp_none_sides : forall handler dto device m ports mine theirs s,
  call_sides handler device m ports = (mine, theirs, s) ->
  execute_direct_pair handler dto device (other_end m) m ports = None -> theirs = [].
Proof.
  intros handler dto device m ports mine theirs s Hs H. unfold execute_direct_pair in H. unfold call_sides in Hs.
  destruct (if m_direct m then handler (r_id (m_rule m)) device (other_end m) (map fst ports)
            else handler (r_id (m_rule m)) (other_end m) device (map snd ports)) as [[l r] s'].
  destruct (m_direct m); injection Hs as H1 H2 H3; subst.
  - destruct theirs; [reflexivity|]. cbn in H. discriminate.
  - destruct theirs; [reflexivity|]. cbn in H. discriminate.
Qed.

(* ---- from the session of a loop to the Peer -------------------------------------------------------- *)

Definition peers_of (opt : list string) (acc : list (peer_key * entries)) (ps : list entries) : Prop :=
  Forall2 (fun kp peer => exists i, mk_peer opt (obj_of "local" (snd kp)) (obj_of "connected" (snd kp))
                                            (fst (fst (fst kp))) i = Some peer) acc ps.

Section CallShows.
  Variable opt : list string.
  Variables dto dp : schema.
  Hypothesis Hdto : noloss_schema opt dto = true.
  Hypothesis Hdp : noloss_schema opt dp = true.

  Lemma call_shows_of_shows : forall handler device m ports mine theirs s loc con acc ps,
    call_sides handler device m ports = (mine, theirs, s) ->
    wf_obj dto mine = true -> wf_obj dto theirs = true -> wf_obj dto s = true ->
    execute_direct_pair handler dto device (other_end m) m ports = Some (Ok (loc, con)) ->
    shows dp acc (other_end m) loc con ->
    peers_of opt acc ps ->
    call_shows opt mine theirs s (other_end m) ps = true.
  Proof.
    intros handler device m ports mine theirs s loc con acc ps Hs Wm Wt Ws E Sh F.
    pose proof (edp_sides_no_loss handler dto device m ports mine theirs s loc con Hs E) as N.
    destruct (wf_obj_facts _ _ Wm) as [NDm Fm]. destruct (wf_obj_facts _ _ Wt) as [NDt Ft].
    destruct (wf_obj_facts _ _ Ws) as [NDs Fs].
    unfold call_shows. destruct (lookup "addr" theirs) as [va|] eqn:Ea; [|reflexivity].
    destruct va as [at0| | | |]; try reflexivity. destruct at0 as [| |a| |]; try reflexivity.
    destruct Sh as [k [p [Hin [Hk [Kl Kc]]]]].
    destruct (Forall2_In_ex _ _ _ _ _ _ F Hin) as [peer [Hpeer [i Hmk]]]. cbn [fst snd] in Hmk.
    apply existsb_exists. exists peer. split; [exact Hpeer|].
    destruct (mk_peer_fields _ _ _ _ _ _ Hmk) as [_ [_ [_ [_ [_ [_ [_ [_ [_ [Fh Fa]]]]]]]]]].
    destruct (fc_both opt dto dp Hdto Hdp "addr") as [A B]; [apply read_fields_named; cbn; tauto|].
    apply andb_true_iff. split; [apply andb_true_iff; split; [apply andb_true_iff; split|]|].
    - rewrite Fh, Hk. apply String.eqb_refl.
    - destruct (N "addr" (VAtom (AStr a)) MForbidChange A) as [_ N2].
      destruct (N2 (or_introl Ea)) as [w [Hw Kw]]. apply kept_fc_str in Kw. subst w.
      destruct (Kc "addr" _ MForbidChange Hw B) as [w' [Hw' Kw']]. apply kept_fc_str in Kw'. subst w'.
      unfold get_str, get_atom. rewrite Fa, Hw'. cbn [ip_val]. change (ip_of a) with (ip_text a). apply String.eqb_refl.
    - apply forallb_forall. intros [f v] Hfv. cbn [fst snd].
      assert (Hl : lookup f mine = Some v \/ lookup f s = Some v).
      { apply in_app_or in Hfv. destruct Hfv as [Hfv|Hfv]; [left|right]; apply In_lookup_nodup; assumption. }
      assert (Hm : exists mm, lookup f dto = Some mm /\ wf_val mm v = true).
      { destruct Hl as [Hl|Hl]; [apply (Fm f v Hl)|apply (Fs f v Hl)]. }
      destruct Hm as [mm [Hmm Hwv]].
      apply (carried_own opt dto dp Hdto Hdp _ _ _ _ _ f v mm Hmk Hmm Hwv).
      intros mg G1 G2. destruct (N f v mg G1) as [N1 _]. destruct (N1 Hl) as [w [Hw Kw]].
      destruct (Kl f w mg Hw G2) as [w' [Hw' Kw']]. exists w'. split; [exact Hw'|].
      apply (kept_trans mg v w w'); assumption.
    - apply forallb_forall. intros [f v] Hfv. cbn [fst snd].
      assert (Hl : lookup f theirs = Some v \/ lookup f s = Some v).
      { apply in_app_or in Hfv. destruct Hfv as [Hfv|Hfv]; [left|right]; apply In_lookup_nodup; assumption. }
      assert (Hm : exists mm, lookup f dto = Some mm /\ wf_val mm v = true).
      { destruct Hl as [Hl|Hl]; [apply (Ft f v Hl)|apply (Fs f v Hl)]. }
      destruct Hm as [mm [Hmm Hwv]].
      apply (carried_other opt dto dp Hdto Hdp _ _ _ _ _ f v mm Hmk Hmm Hwv).
      intros mg G1 G2. destruct (N f v mg G1) as [_ N2]. destruct (N2 Hl) as [w [Hw Kw]].
      destruct (Kc f w mg Hw G2) as [w' [Hw' Kw']]. exists w'. split; [exact Hw'|].
      apply (kept_trans mg v w w'); assumption.
  Qed.
End CallShows.

Lemma call_shows_app : forall opt mine theirs s o a b c,
  call_shows opt mine theirs s o b = true -> call_shows opt mine theirs s o (a ++ b ++ c) = true.
Proof.
  intros opt mine theirs s o a b c H. unfold call_shows in *.
  destruct (lookup "addr" theirs) as [va|]; [|reflexivity].
  destruct va as [at0| | | |]; try reflexivity. destruct at0 as [| |x| |]; try reflexivity.
  rewrite !existsb_app, H. rewrite orb_true_r. reflexivity.
Qed.

(* ---- the two keyed loops, with the class of the call's DTOs (dto) distinct from the class Pair.local /
        Pair.connected are merged as (dp): the real Pair is one class for direct and indirect sessions ---- *)

Section Loops2.
  Variable sch_pair dp dto : schema.
  Hypothesis Hlocal : lookup "local" sch_pair = Some (MMerge dp).
  Hypothesis Hconn : lookup "connected" sch_pair = Some (MMerge dp).
  Variable handler : nat -> string -> string -> list string -> entries * entries * entries.

  Definition item_ok (device : string) (m : matched) (ports : list (string * string)) (acc : list (peer_key * entries)) : Prop :=
    match execute_direct_pair handler dto device (other_end m) m ports with
    | None => True
    | Some (Err _) => False
    | Some (Ok (loc, con)) => shows dp acc (other_end m) loc con
    end.

  Lemma step_indirect_no_loss2 : forall device m acc0 acc1,
    step_indirect handler dto sch_pair device m acc0 = inr acc1 ->
    (forall other loc con, shows dp acc0 other loc con -> shows dp acc1 other loc con) /\
    item_ok device m [] acc1.
  Proof.
    intros device m acc0 acc1. unfold step_indirect, item_ok. fold (other_end m).
    destruct (execute_direct_pair handler dto device (other_end m) m []) as [[[l c]|e]|] eqn:E.
    - destruct (lookup "addr" c) as [addr|]; [|discriminate].
      destruct (upsert sch_pair _ _ acc0) as [acc'|e] eqn:Eu; [|discriminate].
      intro H. injection H as H. subst acc'. split.
      + intros other loc con Hs. apply (shows_upsert sch_pair dp Hlocal Hconn _ _ _ _ _ _ _ Eu Hs).
      + apply (shows_new sch_pair dp Hlocal Hconn _ _ _ _ Eu).
    - discriminate.
    - intro H. injection H as H. subst acc1. split; [intros; assumption|exact I].
  Qed.

  Lemma item_ok_mono : forall device m ports acc acc',
    (forall other loc con, shows dp acc other loc con -> shows dp acc' other loc con) ->
    item_ok device m ports acc -> item_ok device m ports acc'.
  Proof.
    intros device m ports acc acc' Hm. unfold item_ok.
    destruct (execute_direct_pair handler dto device (other_end m) m ports) as [[[l c]|e]|]; auto.
  Qed.

  Lemma fold_indirect_no_loss2 : forall device ms acc0 acc,
    fold_indirect handler dto sch_pair device ms acc0 = inr acc ->
    (forall other loc con, shows dp acc0 other loc con -> shows dp acc other loc con) /\
    (forall m, In m ms -> item_ok device m [] acc).
  Proof.
    intros device. induction ms as [|m rest IH]; intros acc0 acc H; cbn [fold_indirect] in H.
    - injection H as H. subst acc. split; [intros; assumption|intros m []].
    - destruct (step_indirect handler dto sch_pair device m acc0) as [e|acc1] eqn:Es; [discriminate|].
      destruct (step_indirect_no_loss2 device m acc0 acc1 Es) as [S1 S2].
      destruct (IH acc1 acc H) as [I1 I2]. split.
      + intros other loc con Hs. apply I1, S1, Hs.
      + intros m' [Hm|Hm]; [subst m'; apply (item_ok_mono device m [] acc1 acc I1 S2)|apply (I2 m' Hm)].
  Qed.

  Lemma step_direct_no_loss2 : forall device m ports acc0 acc1,
    step_direct handler dto sch_pair device m ports acc0 = inr acc1 ->
    (forall other loc con, shows dp acc0 other loc con -> shows dp acc1 other loc con) /\
    item_ok device m ports acc1.
  Proof.
    intros device m ports acc0 acc1. unfold step_direct, item_ok. fold (other_end m).
    destruct (execute_direct_pair handler dto device (other_end m) m ports) as [[[l c]|e]|] eqn:E.
    - destruct (lookup "addr" c) as [addr|]; [|discriminate].
      destruct (upsert sch_pair _ _ acc0) as [acc'|e] eqn:Eu; [|discriminate].
      intro H. injection H as H. subst acc'. split.
      + intros other loc con Hs. apply (shows_upsert sch_pair dp Hlocal Hconn _ _ _ _ _ _ _ Eu Hs).
      + apply (shows_new sch_pair dp Hlocal Hconn _ _ _ _ Eu).
    - discriminate.
    - intro H. injection H as H. subst acc1. split; [intros; assumption|exact I].
  Qed.

  Lemma fold_steps_no_loss2 : forall device work acc0 acc,
    fold_steps handler dto sch_pair device work acc0 = inr acc ->
    (forall other loc con, shows dp acc0 other loc con -> shows dp acc other loc con) /\
    (forall m ports, In (m, ports) work -> item_ok device m ports acc).
  Proof.
    intros device. induction work as [|[m ports] rest IH]; intros acc0 acc H; cbn [fold_steps] in H.
    - injection H as H. subst acc. split; [intros; assumption|intros m ports []].
    - destruct (step_direct handler dto sch_pair device m ports acc0) as [e|acc1] eqn:Es; [discriminate|].
      destruct (step_direct_no_loss2 device m ports acc0 acc1 Es) as [S1 S2].
      destruct (IH acc1 acc H) as [I1 I2]. split.
      + intros other loc con Hs. apply I1, S1, Hs.
      + intros m' ports' [Hm|Hm].
        * injection Hm as Hm1 Hm2. subst m' ports'. apply (item_ok_mono device m ports acc1 acc I1 S2).
        * apply (I2 m' ports' Hm).
  Qed.
End Loops2.

(* ---- conv_direct / conv_indirect: one Peer per session, hostname = the session's fqdn ---------------- *)

Lemma conv_direct_peers_of : forall connections opt nm device pairs d ps d',
  conv_direct connections opt nm device pairs d = inr (ps, d') -> peers_of opt pairs ps.
Proof.
  intros connections opt nm device. induction pairs as [|[k p] rest IH]; intros d ps d' H.
  - cbn in H. injection H as H1 H2. subst. constructor.
  - cbn [conv_direct] in H.
    destruct (to_interface_changes (obj_of "local" p)) as [e|ch]; [discriminate|].
    destruct (apply_direct nm (connections device (fst (fst k))) (strs_of "ports" p) ch d) as [e|[t d1]]; [discriminate|].
    destruct (mk_peer opt (obj_of "local" p) (obj_of "connected" p) (fst (fst k)) (Some t)) as [peer|] eqn:Ep;
      [|discriminate].
    destruct (conv_direct connections opt nm device rest d1) as [e|[ps2 d2]] eqn:Er; [discriminate|].
    injection H as H1 H2. subst ps d'. constructor; [|eapply IH; exact Er].
    cbn [fst snd]. exists (Some t). exact Ep.
Qed.

Lemma conv_indirect_peers_of : forall opt nm pairs d ps d',
  conv_indirect opt nm pairs d = inr (ps, d') -> peers_of opt pairs ps.
Proof.
  intros opt nm. induction pairs as [|[k p] rest IH]; intros d ps d' H.
  - cbn in H. injection H as H1 H2. subst. constructor.
  - cbn [conv_indirect] in H.
    destruct (to_interface_changes (obj_of "local" p)) as [e|ch]; [discriminate|].
    destruct (opt_str "ifname" (obj_of "local" p)) as [e|ifn]; [discriminate|].
    destruct (apply_indirect nm ifn ch d) as [e|[t d1]]; [discriminate|].
    destruct (mk_peer opt (obj_of "local" p) (obj_of "connected" p) (fst (fst k)) t) as [peer|] eqn:Ep;
      [|discriminate].
    destruct (conv_indirect opt nm rest d1) as [e|[ps2 d2]] eqn:Er; [discriminate|].
    injection H as H1 H2. subst ps d'. constructor; [|eapply IH; exact Er].
    cbn [fst snd]. exists t. exact Ep.
Qed.

(* ---- execute_for, taken apart ------------------------------------------------------------------------ *)

Lemma execute_for_inv :
  forall dmatches dhandler imatches ihandler vmatches vhandler connections
         sch_direct sch_indirect sch_vlocal sch_vpeer sch_pair opt nm drules irules vrules device nbs all d0 peers d',
    execute_for dmatches dhandler imatches ihandler vmatches vhandler connections
                sch_direct sch_indirect sch_vlocal sch_vpeer sch_pair opt nm
                drules irules vrules device nbs all d0 = inr (peers, d') ->
    exists dpairs ipairs p1 p2 p3,
      execute_direct dmatches dhandler connections sch_direct sch_pair drules device nbs = inr dpairs /\
      execute_indirect imatches ihandler sch_indirect sch_pair irules device all = inr ipairs /\
      peers_of opt dpairs p1 /\ peers_of opt ipairs p3 /\ peers = p1 ++ p2 ++ p3.
Proof.
  intros dmatches dhandler imatches ihandler vmatches vhandler connections
         sch_direct sch_indirect sch_vlocal sch_vpeer sch_pair opt nm drules irules vrules device nbs all d0 peers d' H.
  unfold execute_for in H.
  destruct (execute_direct dmatches dhandler connections sch_direct sch_pair drules device nbs) as [e|dpairs];
    [discriminate|]. cbn [of_xerr] in H.
  destruct (conv_direct connections opt nm device dpairs d0) as [e|[p1 d1]] eqn:E1; [discriminate|].
  destruct (execute_virtual vmatches vhandler sch_vlocal sch_vpeer vrules device) as [e|vpairs]; [discriminate|].
  destruct (conv_virtual opt nm vpairs d1) as [e|[p2 d2]] eqn:E2; [discriminate|].
  destruct (execute_indirect imatches ihandler sch_indirect sch_pair irules device all) as [e|ipairs];
    [discriminate|]. cbn [of_xerr] in H.
  destruct (conv_indirect opt nm ipairs d2) as [e|[p3 d3]] eqn:E3; [discriminate|].
  injection H as H1 H2. subst peers d'.
  exists dpairs, ipairs, p1, p2, p3. split; [reflexivity|]. split; [reflexivity|].
  split; [eapply conv_direct_peers_of; exact E1|]. split; [eapply conv_indirect_peers_of; exact E3|reflexivity].
Qed.

(* ---- the handler table of a case against the calls execute_for makes ---------------------------------- *)

Section Main.
  Variables sd si svl svp sp dp : schema.
  Variable c : ecase.
  Hypothesis Hlocal : lookup "local" sp = Some (MMerge dp).
  Hypothesis Hconn : lookup "connected" sp = Some (MMerge dp).
  Hypothesis Gd : noloss_schema (e_opt_fields c) sd = true.
  Hypothesis Gi : noloss_schema (e_opt_fields c) si = true.
  Hypothesis Gp : noloss_schema (e_opt_fields c) dp = true.

  Lemma call_shows_nil : forall opt mine s o ps, call_shows opt mine [] s o ps = true.
  Proof. intros. reflexivity. Qed.

  (* one work item of a loop whose handler answer is (mine, theirs, s) *)
  Lemma item_shows : forall dto handler device m ports mine theirs s acc ps,
    noloss_schema (e_opt_fields c) dto = true ->
    call_sides handler device m ports = (mine, theirs, s) ->
    wf_obj dto mine = true -> wf_obj dto theirs = true -> wf_obj dto s = true ->
    item_ok dp dto handler device m ports acc ->
    peers_of (e_opt_fields c) acc ps ->
    call_shows (e_opt_fields c) mine theirs s (other_end m) ps = true.
  Proof.
    intros dto handler device m ports mine theirs s acc ps G Hs Wm Wt Ws Ok F. unfold item_ok in Ok.
    destruct (execute_direct_pair handler dto device (other_end m) m ports) as [[[loc con]|e]|] eqn:E.
    - apply (call_shows_of_shows (e_opt_fields c) dto dp G Gp handler device m ports mine theirs s loc con acc ps);
        assumption.
    - destruct Ok.
    - rewrite (edp_none_sides handler dto device m ports mine theirs s Hs E). apply call_shows_nil.
  Qed.

  Lemma direct_entry_shows : forall d id l r el er es dpairs p1,
    execute_direct (case_matches c) (case_handler c) (case_connections c) sd sp (e_drules c) d (case_neighbors c d)
      = inr dpairs ->
    peers_of (e_opt_fields c) dpairs p1 ->
    case_matches c id l r = true ->
    called_direct c d id l r (el, er, es) -> wf_out sd (el, er, es) ->
    (l = d -> call_shows (e_opt_fields c) el er es r p1 = true) /\
    (l <> d -> r = d -> call_shows (e_opt_fields c) er el es l p1 = true).
  Proof.
    intros d id l r el er es dpairs p1 HE F Hm Hc [Wl [Wr Ws]].
    unfold execute_direct in HE.
    fold (direct_work (case_connections c) d (lookup_direct (case_matches c) (e_drules c) d (case_neighbors c d))) in HE.
    destruct (fold_steps_no_loss2 sp dp sd Hlocal Hconn (case_handler c) d _ _ _ HE) as [_ I2].
    unfold called_direct in Hc. cbv zeta in Hc. destruct Hc as [rl [g [Hrl [Hid [Hnb [Hg Hh]]]]]].
    split.
    - intro El. subst l. rewrite String.eqb_refl in Hnb, Hg, Hh.
      pose (m := Matched rl true d r).
      assert (Hin : In m (lookup_direct (case_matches c) (e_drules c) d (case_neighbors c d))).
      { unfold lookup_direct. apply in_flat_map. exists r. split; [exact Hnb|].
        apply in_flat_map. exists rl. split; [exact Hrl|]. apply in_or_app. left.
        rewrite Hid, Hm. left. reflexivity. }
      assert (Hw : In (m, g) (direct_work (case_connections c) d
                                (lookup_direct (case_matches c) (e_drules c) d (case_neighbors c d)))).
      { unfold direct_work. apply in_flat_map. exists m. split; [exact Hin|].
        cbn [m m_direct m_right m_rule]. apply in_map. exact Hg. }
      assert (Hs : call_sides (case_handler c) d m g = (el, er, es)).
      { unfold call_sides, other_end. cbn [m m_direct m_right m_rule]. rewrite Hid, Hh. reflexivity. }
      change r with (other_end m).
      apply (item_shows sd (case_handler c) d m g el er es dpairs p1 Gd Hs Wl Wr Ws (I2 m g Hw) F).
    - intros Hne Er. subst r. apply String.eqb_neq in Hne. rewrite Hne in Hnb, Hg, Hh.
      pose (m := Matched rl false l d).
      assert (Hin : In m (lookup_direct (case_matches c) (e_drules c) d (case_neighbors c d))).
      { unfold lookup_direct. apply in_flat_map. exists l. split; [exact Hnb|].
        apply in_flat_map. exists rl. split; [exact Hrl|]. apply in_or_app. right.
        rewrite Hid, Hm. left. reflexivity. }
      assert (Hw : In (m, g) (direct_work (case_connections c) d
                                (lookup_direct (case_matches c) (e_drules c) d (case_neighbors c d)))).
      { unfold direct_work. apply in_flat_map. exists m. split; [exact Hin|].
        cbn [m m_direct m_left m_rule]. apply in_map. exact Hg. }
      assert (Hs : call_sides (case_handler c) d m g = (er, el, es)).
      { unfold call_sides, other_end. cbn [m m_direct m_left m_rule]. rewrite Hid, Hh. reflexivity. }
      change l with (other_end m).
      apply (item_shows sd (case_handler c) d m g er el es dpairs p1 Gd Hs Wr Wl Ws (I2 m g Hw) F).
  Qed.

  Lemma indirect_entry_shows : forall d id l r el er es ipairs p3,
    execute_indirect (case_matches c) (case_handler c) si sp (e_irules c) d (e_devices c) = inr ipairs ->
    peers_of (e_opt_fields c) ipairs p3 ->
    case_matches c id l r = true ->
    called_indirect c d id l r (el, er, es) -> wf_out si (el, er, es) ->
    (l = d -> call_shows (e_opt_fields c) el er es r p3 = true) /\
    (l <> d -> r = d -> call_shows (e_opt_fields c) er el es l p3 = true).
  Proof.
    intros d id l r el er es ipairs p3 HE F Hm Hc [Wl [Wr Ws]].
    unfold execute_indirect in HE.
    destruct (fold_indirect_no_loss2 sp dp si Hlocal Hconn (case_handler c) d _ _ _ HE) as [_ I2].
    unfold called_indirect in Hc. cbv zeta in Hc. destruct Hc as [rl [Hrl [Hid [Hnb Hh]]]].
    split.
    - intro El. subst l. rewrite String.eqb_refl in Hnb.
      pose (m := Matched rl true d r).
      assert (Hin : In m (lookup_direct (case_matches c) (e_irules c) d (e_devices c))).
      { unfold lookup_direct. apply in_flat_map. exists r. split; [exact Hnb|].
        apply in_flat_map. exists rl. split; [exact Hrl|]. apply in_or_app. left.
        rewrite Hid, Hm. left. reflexivity. }
      assert (Hs : call_sides (case_handler c) d m [] = (el, er, es)).
      { unfold call_sides, other_end. cbn [m m_direct m_right m_rule map]. rewrite Hid, Hh. reflexivity. }
      change r with (other_end m).
      apply (item_shows si (case_handler c) d m [] el er es ipairs p3 Gi Hs Wl Wr Ws (I2 m Hin) F).
    - intros Hne Er. subst r. apply String.eqb_neq in Hne. rewrite Hne in Hnb.
      pose (m := Matched rl false l d).
      assert (Hin : In m (lookup_direct (case_matches c) (e_irules c) d (e_devices c))).
      { unfold lookup_direct. apply in_flat_map. exists l. split; [exact Hnb|].
        apply in_flat_map. exists rl. split; [exact Hrl|]. apply in_or_app. right.
        rewrite Hid, Hm. left. reflexivity. }
      assert (Hs : call_sides (case_handler c) d m [] = (er, el, es)).
      { unfold call_sides, other_end. cbn [m m_direct m_left m_rule map]. rewrite Hid, Hh. reflexivity. }
      change l with (other_end m).
      apply (item_shows si (case_handler c) d m [] er el es ipairs p3 Gi Hs Wr Wl Ws (I2 m Hin) F).
  Qed.

  (* P_C15_no_loss of the model's own execute_for *)
  Theorem exec_no_loss :
    noloss_case sd si c ->
    P_C15_no_loss c (map (fun d => (d, model_exec sd si svl svp sp c d)) (e_devices c)) = true.
  Proof.
    intro Hcase. unfold P_C15_no_loss. apply forallb_forall. intros o Ho.
    apply in_map_iff in Ho. destruct Ho as [d [Eo Hd]]. subst o. cbn [fst snd]. unfold model_exec.
    destruct (execute_for (case_matches c) (case_handler c) (case_matches c) (case_handler c)
                (case_vmatches c) (case_vhandler c) (case_connections c) sd si svl svp sp (e_opt_fields c) stub_naming
                (e_drules c) (e_irules c) (e_vrules c) d (case_neighbors c d) (e_devices c) (case_dev0 c d))
      as [[|]|[peers d']] eqn:E; try reflexivity.
    destruct (execute_for_inv _ _ _ _ _ _ _ _ _ _ _ _ _ _ _ _ _ _ _ _ _ _ _ E)
      as [dpairs [ipairs [p1 [p2 [p3 [ED [EI [F1 [F3 Ep]]]]]]]]]. subst peers.
    unfold no_loss_dev. apply forallb_forall. intros e He. specialize (Hcase d e Hd He).
    destruct e as [[[[id l] r] ps] [[el er] es]]. cbn [fst snd] in Hcase |- *.
    destruct (case_matches c id l r) eqn:Em; [|reflexivity]. cbn [negb orb].
    destruct (String.eqb l r) eqn:Elr; [reflexivity|]. apply String.eqb_neq in Elr.
    destruct (String.eqb l d) eqn:Eld.
    - apply String.eqb_eq in Eld.
      destruct (Hcase eq_refl Elr (or_introl Eld)) as [[Hc W]|[Hc W]].
      + apply (call_shows_app _ _ _ _ _ [] p1 (p2 ++ p3)).
        apply (proj1 (direct_entry_shows d id l r el er es dpairs p1 ED F1 Em Hc W) Eld).
      + rewrite app_assoc. rewrite <- (app_nil_r ((p1 ++ p2) ++ p3)). rewrite <- app_assoc.
        apply (call_shows_app _ _ _ _ _ (p1 ++ p2) p3 []).
        apply (proj1 (indirect_entry_shows d id l r el er es ipairs p3 EI F3 Em Hc W) Eld).
    - apply String.eqb_neq in Eld. destruct (String.eqb r d) eqn:Erd; [|reflexivity].
      apply String.eqb_eq in Erd.
      destruct (Hcase eq_refl Elr (or_intror Erd)) as [[Hc W]|[Hc W]].
      + apply (call_shows_app _ _ _ _ _ [] p1 (p2 ++ p3)).
        apply (proj2 (direct_entry_shows d id l r el er es dpairs p1 ED F1 Em Hc W) Eld Erd).
      + rewrite app_assoc. rewrite <- (app_nil_r ((p1 ++ p2) ++ p3)). rewrite <- app_assoc.
        apply (call_shows_app _ _ _ _ _ (p1 ++ p2) p3 []).
        apply (proj2 (indirect_entry_shows d id l r el er es ipairs p3 EI F3 Em Hc W) Eld Erd).
  Qed.
End Main.

(* ---- the boolean guard implies the declarative one ----------------------------------------------------- *)

Lemma find_idx_find : forall (A : Type) (p : A -> bool) l i,
  find_idx p l = Some i -> exists x, nth_error l i = Some x /\ find p l = Some x.
Proof.
  intros A p. induction l as [|a r IH]; intros i H; cbn in H; [discriminate|].
  cbn [find]. destruct (p a) eqn:E.
  - injection H as H. subst i. exists a. split; reflexivity.
  - destruct (find_idx p r) as [j|] eqn:F; [|discriminate]. injection H as H. subst i.
    destruct (IH j eq_refl) as [x [Hn Hf]]. exists x. split; assumption.
Qed.

Lemma case_handler_hit : forall c id l r ports i e,
  hit_is c id l r ports i = true -> nth_error (e_table c) i = Some e -> case_handler c id l r ports = snd e.
Proof.
  intros c id l r ports i e H Hn. unfold hit_is in H.
  destruct (find_idx (row_hit id l r ports) (e_table c)) as [j|] eqn:F; [|discriminate].
  apply Nat.eqb_eq in H. subst j. destruct (find_idx_find _ _ _ _ F) as [x [Hx Hf]].
  rewrite Hn in Hx. injection Hx as Hx. subst x.
  assert (E : case_handler c id l r ports =
              match find (row_hit id l r ports) (e_table c) with Some e0 => snd e0 | None => nothing end)
    by reflexivity.
  rewrite E, Hf. reflexivity.
Qed.

Lemma sin_In : forall s l, sin s l = true -> In s l.
Proof.
  intros s l H. unfold sin in H. apply existsb_exists in H. destruct H as [x [Hx E]].
  apply String.eqb_eq in E. subst x. exact Hx.
Qed.

Lemma wf_out_b_sound : forall dto out, wf_out_b dto out = true -> wf_out dto out.
Proof.
  intros dto [[el er] es] H. unfold wf_out_b in H. apply andb_true_iff in H. destruct H as [H H3].
  apply andb_true_iff in H. destruct H as [H1 H2]. repeat split; assumption.
Qed.

Theorem noloss_case_b_sound : forall sd si c, noloss_case_b sd si c = true -> noloss_case sd si c.
Proof.
  intros sd si c H d e Hd He. unfold noloss_case_b in H. rewrite forallb_forall in H.
  specialize (H d Hd). rewrite forallb_forall in H.
  destruct (In_nth_error _ _ He) as [i Hi].
  assert (Hlt : i < List.length (e_table c)) by (apply nth_error_Some; rewrite Hi; discriminate).
  specialize (H i (proj2 (in_seq _ _ _) (conj (Nat.le_0_l i) Hlt))). rewrite Hi in H.
  destruct e as [[[[id l] r] ps] out]. cbn [fst snd] in H |- *.
  intros Hm Hne Hor. rewrite Hm in H. apply String.eqb_neq in Hne. rewrite Hne in H.
  assert (Ho : String.eqb l d || String.eqb r d = true).
  { destruct Hor as [Hor|Hor]; subst; rewrite String.eqb_refl; [reflexivity|apply orb_true_r]. }
  rewrite Ho in H. cbn [negb andb] in H. apply orb_true_iff in H. destruct H as [H|H];
    apply andb_true_iff in H; destruct H as [Hc Hw]; [left|right]; (split; [|apply wf_out_b_sound; exact Hw]).
  - unfold called_direct_b in Hc. cbv zeta in Hc. apply andb_true_iff in Hc. destruct Hc as [Hnb Hex].
    apply existsb_exists in Hex. destruct Hex as [rl [Hrl Hr]]. apply andb_true_iff in Hr. destruct Hr as [Hid Hg].
    apply Nat.eqb_eq in Hid. apply existsb_exists in Hg. destruct Hg as [g [Hg Hh]].
    unfold called_direct. cbv zeta. exists rl, g. split; [exact Hrl|]. split; [exact Hid|].
    split; [apply sin_In; exact Hnb|]. split; [exact Hg|]. apply (case_handler_hit _ _ _ _ _ i _ Hh Hi).
  - unfold called_indirect_b in Hc. cbv zeta in Hc. apply andb_true_iff in Hc. destruct Hc as [Hc Hh].
    apply andb_true_iff in Hc. destruct Hc as [Hnb Hex].
    apply existsb_exists in Hex. destruct Hex as [rl [Hrl Hid]]. apply Nat.eqb_eq in Hid.
    unfold called_indirect. cbv zeta. exists rl. split; [exact Hrl|]. split; [exact Hid|].
    split; [apply sin_In; exact Hnb|]. apply (case_handler_hit _ _ _ _ _ i _ Hh Hi).
Qed.
