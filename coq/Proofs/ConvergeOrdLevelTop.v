(* C01, %ordered rules on a level of any shape: the computable domain [wf_ord_level] (Spec/P_C01olvl.v) implies the
   hypotheses of Proofs/ConvergeOrdLevel.v; the theorem for the model pipeline and formatter.cmd_paths. *)
From Coq Require Import List String Bool Arith ZArith Lia Permutation.
From Annet Require Import Base.Str Base.Tree Model.Pattern Model.Rulebook Model.Diff Model.Order Model.Patch
     Model.Blocks Model.Pipeline Model.Device Spec.P_C01 Spec.P_C01o Spec.P_C01ord Spec.P_C01olvl
     Proofs.DiffProofsLib Proofs.BlocksProofs Proofs.ConvergeDevice Proofs.ConvergeRun Proofs.ConvergeBlocks Proofs.ConvergeWf Proofs.ConvergeTop
     Proofs.ConvergeMain Proofs.ConvergeOrdSeq Proofs.ConvergeOrdFlat Proofs.ConvergeOrdFrame Proofs.ConvergeOrdLevel Proofs.ConvergeOrdHeader.
Import ListNotations.
Open Scope string_scope.
Open Scope list_scope.

Lemma prows_okb_sound is_exit : forall p, prows_okb is_exit p = true -> prows_ok is_exit p.
Proof.
  induction p as [items IH] using ptree_ind2. intro H. cbn [prows_okb] in H. apply andb_true_iff in H as [Hn Hg].
  cbn [prows_ok]. split; [apply nodupb_NoDup; exact Hn|]. clear Hn.
  induction items as [|[[row child] sk] l IHl]; [exact I|].
  inversion IH as [|x y Hx Hy]; subst. apply andb_true_iff in Hg as [Hg Hl]. apply andb_true_iff in Hg as [Hr Hc].
  split; [apply negb_true_iff; exact Hr|]. split.
  - destruct child as [ct|]; [|exact I]. apply Hx. exact Hc.
  - apply IHl; assumption.
Qed.

Section Guard.
  Variable v : vendor.
  Variable rs : rset.
  Variable U : list string.
  Hypothesis HG : lvl_ok_b v rs U = true.

  Notation slot := (slot_of pm rs).
  Notation rev_of := (reverse_of (prreverse v)).

  Lemma slot_match r s : slot r = Some s -> exists crs, match_row pm r rs = Some (s, crs).
  Proof.
    unfold slot_of. destruct (match_row pm r rs) as [[s0 c]|]; [|discriminate]. cbn. intro H. injection H as ->. eauto.
  Qed.

  Lemma guard_row r s : In r U -> slot r = Some s ->
    v_is_exit v r = false /\ match_row pm (rev_of s) rs = None /\ v_is_exit v (rev_of s) = false /\
    a_force_commit (mi_attrs s) = false /\ (is_ordered s = false -> mi_dlogic s = DDefault) /\
    forall r' s', In r' U -> slot r' = Some s' ->
      (rev_of s' = rev_of s -> key_of s' = key_of s) /\ (mi_raw s' = mi_raw s -> mi_attrs s' = mi_attrs s) /\
      (is_ordered s = true -> key_of s' = key_of s -> r' = r).
  Proof.
    intros Hr Hs. destruct (slot_match r s Hs) as (crs & Hm).
    unfold lvl_ok_b in HG. rewrite forallb_forall in HG. pose proof (HG r Hr) as H. rewrite Hm in H. cbv zeta in H.
    repeat (apply andb_true_iff in H as [H ?]).
    split; [apply negb_true_iff; exact H|].
    split; [destruct (match_row pm (rev_of s) rs); [discriminate | reflexivity]|].
    split; [apply negb_true_iff; assumption|]. split; [apply negb_true_iff; assumption|]. split.
    - intro Ho. rewrite Ho in H1. cbn [orb] in H1. apply dlogic_eqb_eq in H1. exact H1.
    - intros r' s' Hr' Hs'. destruct (slot_match r' s' Hs') as (crs' & Hm'). rewrite forallb_forall in H0.
      specialize (H0 r' Hr'). rewrite Hm' in H0. repeat (apply andb_true_iff in H0 as [H0 ?]). split; [|split].
      + intro E. apply orb_true_iff in H0 as [H0|H0].
        * apply negb_true_iff in H0. apply String.eqb_neq in H0. contradiction.
        * apply same_slot_iff. exact H0.
      + intro E. apply orb_true_iff in H6 as [H6|H6].
        * apply negb_true_iff in H6. apply String.eqb_neq in H6. contradiction.
        * apply attrs_eqb_eq. exact H6.
      + intros Ho Ek. apply orb_true_iff in H5 as [H5|H5]; [|apply String.eqb_eq; exact H5].
        apply negb_true_iff in H5. rewrite Ho in H5. cbn [andb] in H5. apply same_slot_false_iff in H5. contradiction.
  Qed.

  Variable UF : forest.
  Hypothesis HUF : keys UF = U.

  Lemma guard_lvl_ok : lvl_ok pm (prreverse v) (v_is_exit v) rs UF.
  Proof.
    constructor; rewrite HUF.
    - intros r s Hr Hs. apply (guard_row r s Hr Hs).
    - intros r s Hr Hs. apply (guard_row r s Hr Hs).
    - intros r s Hr Hs. apply (guard_row r s Hr Hs).
    - intros r s r2 s2 Hr Hs Hr2 Hs2 E. destruct (guard_row r s Hr Hs) as (_ & _ & _ & _ & _ & H). apply (H r2 s2 Hr2 Hs2). exact E.
    - intros r s r2 s2 Hr Hs Hr2 Hs2 E. destruct (guard_row r s Hr Hs) as (_ & _ & _ & _ & _ & H). apply (H r2 s2 Hr2 Hs2). exact E.
  Qed.

  Lemma guard_okr : okr pm rs UF.
  Proof.
    intros r s r' s' Hr Hs Hr' Hs' Ho Ek. rewrite HUF in Hr, Hr'.
    destruct (guard_row r s Hr Hs) as (_ & _ & _ & _ & _ & H). apply (H r' s' Hr' Hs'); assumption.
  Qed.

  Lemma ord_rule_first R aR : ord_rule rs U = Some (R, aR) ->
    exists r s, In r U /\ slot r = Some s /\ is_ordered s = true /\ mi_raw s = R /\ mi_attrs s = aR.
  Proof.
    unfold ord_rule. intro H.
    set (h := fun r => match match_row pm r rs with
                       | Some (s, _) => if is_ordered s then [(mi_raw s, mi_attrs s)] else []
                       | None => []
                       end) in H.
    destruct (flat_map h U) as [|x l] eqn:E; [discriminate|]. injection H as ->.
    assert (Hi : In (R, aR) (flat_map h U)) by (rewrite E; now left).
    apply in_flat_map in Hi as (r & Hr & Hx). unfold h in Hx.
    destruct (match_row pm r rs) as [[s c]|] eqn:Em; [|destruct Hx]. destruct (is_ordered s) eqn:Eo; [|destruct Hx].
    destruct Hx as [Hx|[]]. injection Hx as <- <-. exists r, s. repeat split; auto. unfold slot_of. rewrite Em. reflexivity.
  Qed.

  Lemma guard_odom : one_ord_rule_b rs U = true -> exists R aR, odom pm rs UF R aR.
  Proof.
    unfold one_ord_rule_b. destruct (ord_rule rs U) as [[R aR]|] eqn:Er; [|discriminate]. intro H.
    apply andb_true_iff in H as [Hl H]. rewrite forallb_forall in H.
    assert (Hrow : forall r s, In r U -> slot r = Some s ->
              (is_ordered s = true <-> mi_raw s = R) /\ (is_ordered s = true -> mi_attrs s = aR)).
    { intros r s Hr Hs. destruct (slot_match r s Hs) as (crs & Hm). specialize (H r Hr). rewrite Hm in H.
      apply andb_true_iff in H as [H1 H2]. apply Bool.eqb_prop in H1. split.
      - rewrite H1. split; [apply String.eqb_eq | intros ->; apply String.eqb_refl].
      - intro Ho. rewrite Ho in H2. cbn in H2. apply attrs_eqb_eq. exact H2. }
    exists R, aR. constructor; try rewrite HUF.
    - intros r s Hr Hs. apply (Hrow r s Hr Hs).
    - intros r s Hr Hs. apply (Hrow r s Hr Hs).
    - apply logic_eqb_eq. exact Hl.
    - intros r s Hr Hs. apply (guard_row r s Hr Hs).
    - intros r s Hr Hs. apply (guard_row r s Hr Hs).
  Qed.
End Guard.

Lemma ordered_level_full v rs ordering old new : wf_ord_level v rs ordering old new = true ->
  exists pt, p_make_patch v ordering (make_pre (p_make_diff rs old new)) = POk pt /\ prows_ok (v_is_exit v) pt /\
             block_family (v_family v) = true /\ enter pm rs old = old /\
             p_ord_seq rs (run_pt pm (prreverse v) (v_is_exit v) pt rs old) = p_ord_seq rs new.
Proof.
  unfold wf_ord_level. intro H. cbv zeta in H. repeat (apply andb_true_iff in H as [H ?]).
  rename H into Hfam, H0 into Hpr, H1 into Hord, H2 into Hone, H3 into Hlvl, H4 into Hsu, H5 into Hnn, H6 into Hno.
  unfold order_ok_o in Hord. destruct (snd (diff_and_patch v rs ordering old new)) as [pt|] eqn:Ep; [|discriminate].
  apply andb_true_iff in Hord as [Huf Hk]. exists pt.
  unfold diff_and_patch in Ep. cbn [snd] in Ep. split; [exact Ep|].
  split; [apply prows_okb_sound; exact Hpr|]. split; [exact Hfam|].
  assert (HUF : keys (old ++ new) = keys old ++ keys new) by (unfold keys; apply map_app).
  pose proof (guard_lvl_ok v rs _ Hlvl (old ++ new) HUF) as HU.
  pose proof (guard_okr v rs _ Hlvl (old ++ new) HUF) as Hokr.
  destruct (guard_odom v rs _ Hlvl (old ++ new) HUF Hone) as (R & aR & HD).
  split.
  - apply enter_id. intros e m He Hs.
    assert (Hr : In (fst e) (keys old ++ keys new)) by (apply in_or_app; left; apply in_map; exact He).
    destruct (guard_row v rs _ Hlvl (fst e) m Hr Hs) as (_ & _ & _ & _ & Hdl & _). unfold is_rewrite.
    destruct (is_ordered m) eqn:Eo.
    + unfold is_ordered in Eo. apply dlogic_eqb_eq in Eo. rewrite Eo. reflexivity.
    + specialize (Hdl eq_refl). unfold mi_dlogic in Hdl. rewrite Hdl. reflexivity.
  - unfold p_ord_seq.
    apply (level_seq pm psrc (prev v) (v_exit v) (prreverse v) (v_is_exit v) rs (old ++ new) HU Hokr R aR HD old new) with (ord := ordering).
    + intros e He. rewrite HUF. apply in_or_app. left. apply in_map. exact He.
    + intros e He. rewrite HUF. apply in_or_app. right. apply in_map. exact He.
    + apply nodupb_NoDup. exact Hno.
    + apply nodupb_NoDup. exact Hnn.
    + exact Ep.
    + apply su_uniq. exact Hsu.
    + exact Huf.
    + exact Hk.
Qed.

(* On a level of any shape - rows of one %ordered rule mixed with rows of other rules and unknown rows, bodies of any
   depth -, executing the model's command paths on old leaves the rows of the %ordered rule in new's SEQUENCE. *)
Theorem ordered_level_model v rs ordering old new : wf_ord_level v rs ordering old new = true ->
  exists pt, snd (diff_and_patch v rs ordering old new) = POk pt /\
             p_ord_seq rs (p_exec v rs (cmd_paths (v_family v) pt) old) = p_ord_seq rs new.
Proof.
  intro H. destruct (ordered_level_full v rs ordering old new H) as (pt & Hp & Hok & Hfam & _ & Hs).
  exists pt. split; [exact Hp|]. unfold p_exec. rewrite exec_cmd_paths; [exact Hs | exact Hfam | apply v_exits_family | exact Hok].
Qed.

(* ... and the same for a level of any shape BELOW A CHAIN OF BLOCK HEADERS: the device ends as wrap hs body, where the
   %ordered rows of body are in the sequence of new's innermost level *)
Definition wf_ord_level_below (v : vendor) (rs : rset) (ordering : list orule) (hs : list string) (bo bn : forest) : bool :=
  wf_hdrs v rs hs && wf_ord_level v (chain_rs rs hs) (chain_ord v ordering hs) bo bn.

Theorem ordered_level_below_model v hs rs ordering bo bn : wf_ord_level_below v rs ordering hs bo bn = true ->
  exists pt body, snd (diff_and_patch v rs ordering (wrap hs bo) (wrap hs bn)) = POk pt /\
                  p_exec v rs (cmd_paths (v_family v) pt) (wrap hs bo) = wrap hs body /\
                  p_ord_seq (chain_rs rs hs) body = p_ord_seq (chain_rs rs hs) bn.
Proof.
  unfold wf_ord_level_below. intro H. apply andb_true_iff in H as [Hh Hw].
  destruct (ordered_level_full v _ _ bo bn Hw) as (ct & Hp & Hok & Hfam & Hent & Hs).
  destruct (chain_runs v Hfam hs rs ordering bo bn ct Hh Hent Hp Hok) as (pt & Hpp & _ & Hrun).
  exists pt, (run_pt pm (prreverse v) (v_is_exit v) ct (chain_rs rs hs) bo). split; [exact Hpp|]. split; [exact Hrun | exact Hs].
Qed.
