(* C01, layer 5b: equality of configurations as dicts ([sim]), its decision procedure, and
   how to establish it level by level from the slot view. *)
From Coq Require Import List String Bool Arith Lia Permutation.
From Annet Require Import Base.Str Base.Tree Model.Rulebook Model.Device Spec.P_C01 Proofs.ConvergeDevice.
Import ListNotations.
Open Scope string_scope.
Open Scope list_scope.

(* ---------- induction on forests through the sub-forests of their entries ---------- *)
Fixpoint tsize (t : tree) : nat :=
  match t with
  | T ks => S ((fix go (l : forest) : nat := match l with [] => 0 | (_, c) :: l' => tsize c + go l' end) ks)
  end.
Definition fsize (f : forest) : nat := tsize (T f).

Lemma fsize_cons r t f : fsize ((r, t) :: f) = tsize t + fsize f.
Proof. unfold fsize. cbn. lia. Qed.
Lemma tsize_kids t : tsize t = fsize (kids t).
Proof. destruct t. reflexivity. Qed.
Lemma fsize_in r t f : In (r, t) f -> fsize (kids t) < fsize f.
Proof.
  induction f as [|[r0 t0] f IH]; intro H; [destruct H|]. rewrite fsize_cons.
  destruct H as [E|H]; [injection E as <- <-; rewrite <- tsize_kids; unfold fsize; cbn; lia|].
  specialize (IH H). pose proof (tsize_kids t0). unfold fsize in *. cbn in *. lia.
Qed.

Theorem forest_sub_ind (P : forest -> Prop) :
  (forall f, (forall r t, In (r, t) f -> P (kids t)) -> P f) -> forall f, P f.
Proof.
  intros H f. remember (fsize f) as n eqn:En. revert f En.
  induction n as [n IH] using lt_wf_ind. intros f ->. apply H. intros r t Hin.
  apply (IH (fsize (kids t))); [apply (fsize_in r t f Hin) | reflexivity].
Qed.

(* ---------- sim ---------- *)
Lemma sim_refl : forall f, sim f f.
Proof.
  apply forest_sub_ind. intros f IH. constructor; intros r t Hin; exists t; split; auto; eapply IH; eauto.
Qed.

Lemma sim_inv a b : sim a b ->
  (forall r t, In (r, t) a -> exists t', In (r, t') b /\ sim (kids t) (kids t')) /\
  (forall r t', In (r, t') b -> exists t, In (r, t) a /\ sim (kids t) (kids t')).
Proof. intro H. inversion H; subst. auto. Qed.

Lemma sim_sym : forall a b, sim a b -> sim b a.
Proof.
  apply (forest_sub_ind (fun a => forall b, sim a b -> sim b a)). intros a IH b H.
  apply sim_inv in H as [H1 H2]. constructor.
  - intros r t' Hin. destruct (H2 r t' Hin) as (t & Hin' & Hs). exists t. split; [exact Hin'|].
    eapply IH; eauto.
  - intros r t Hin. destruct (H1 r t Hin) as (t' & Hin' & Hs). exists t'. split; [exact Hin'|].
    eapply IH; eauto.
Qed.

Lemma wf_keys f : wf f -> NoDup (keys f).
Proof. induction 1; cbn; constructor; auto. Qed.
Lemma wf_in f r t : wf f -> In (r, t) f -> wf (kids t).
Proof. induction 1 as [|r0 c0 f0 Hn Hc Hf IH]; intro Hi; [destruct Hi|]. destruct Hi as [E|Hi]; [injection E as <- <-; assumption | auto]. Qed.
Lemma wf_intro f : NoDup (keys f) -> (forall r t, In (r, t) f -> wf (kids t)) -> wf f.
Proof.
  induction f as [|[r t] f IH]; intros Hnd Hk; [constructor|]. cbn in Hnd. inversion Hnd; subst.
  constructor; [assumption | apply (Hk r t); now left | apply IH; [assumption | intros; eapply Hk; right; eauto]].
Qed.

Lemma in_keys r t (f : forest) : In (r, t) f -> In r (keys f).
Proof. intro H. change r with (fst (r, t)). apply in_map. exact H. Qed.

(* entries are determined by their row on a level with distinct rows *)
Lemma nodup_entry f r t t' : NoDup (keys f) -> In (r, t) f -> In (r, t') f -> t = t'.
Proof.
  induction f as [|[k v] f IH]; cbn; intros Hnd H1 H2; [contradiction|].
  inversion Hnd as [|x l Hn Hr]; subst. destruct H1 as [E1|H1], H2 as [E2|H2].
  - congruence.
  - injection E1 as -> ->. exfalso. apply Hn. eapply in_keys; eauto.
  - injection E2 as -> ->. exfalso. apply Hn. eapply in_keys; eauto.
  - auto.
Qed.

Lemma sim_trans : forall a b c, wf b -> sim a b -> sim b c -> sim a c.
Proof.
  apply (forest_sub_ind (fun a => forall b c, wf b -> sim a b -> sim b c -> sim a c)). intros a IH b c Hwb Hab Hbc.
  apply sim_inv in Hab as [A1 A2]. apply sim_inv in Hbc as [B1 B2]. constructor.
  - intros r t Hin. destruct (A1 r t Hin) as (t1 & Hin1 & Hs1). destruct (B1 r t1 Hin1) as (t2 & Hin2 & Hs2).
    exists t2. split; [exact Hin2|]. apply (IH r t Hin (kids t1) (kids t2)); [eapply wf_in; eauto | exact Hs1 | exact Hs2].
  - intros r t2 Hin2. destruct (B2 r t2 Hin2) as (t1 & Hin1 & Hs2). destruct (A2 r t1 Hin1) as (t & Hin & Hs1).
    exists t. split; [exact Hin|]. apply (IH r t Hin (kids t1) (kids t2)); [eapply wf_in; eauto | exact Hs1 | exact Hs2].
Qed.

(* ---------- the decision procedure ---------- *)
Lemma tfind_in r f t : tfind r f = Some t -> In (r, t) f.
Proof.
  induction f as [|[k v] f IH]; cbn; [discriminate|].
  destruct (String.eqb_spec k r) as [->|Hne]; [intro H; injection H as ->; now left | intro H; right; auto].
Qed.

Lemma tfind_nodup r f t : NoDup (keys f) -> In (r, t) f -> tfind r f = Some t.
Proof.
  induction f as [|[k v] f IH]; cbn; intros Hnd Hin; [contradiction|].
  inversion Hnd as [|x l Hn Hr]; subst. destruct Hin as [E|Hin].
  - injection E as -> ->. rewrite String.eqb_refl. reflexivity.
  - destruct (String.eqb_spec k r) as [->|Hne]; [|auto].
    exfalso. apply Hn. eapply in_keys; eauto.
Qed.

Lemma tfind_none r f : tfind r f = None <-> ~ In r (keys f).
Proof.
  induction f as [|[k v] f IH]; cbn; [tauto|].
  destruct (String.eqb_spec k r) as [->|Hne]; [split; [discriminate | intro H; exfalso; apply H; now left]|].
  rewrite IH. split; [intros H [E|Hin]; [congruence | contradiction] | intros H Hin; apply H; now right].
Qed.

Definition sim_all (b : forest) (l : forest) : bool :=
  forallb (fun e : string * tree => match tfind (fst e) b with Some t' => sim_t (snd e) (kids t') | None => false end) l.

Lemma sim_t_all a b : sim_t (T a) b = Nat.eqb (List.length a) (List.length b) && sim_all b a.
Proof.
  cbn [sim_t]. f_equal. unfold sim_all. induction a as [|[r t] a IH]; [reflexivity|].
  cbn [forallb fst snd]. rewrite <- IH. reflexivity.
Qed.

Lemma sim_keys_incl a b : sim a b -> incl (keys a) (keys b) /\ incl (keys b) (keys a).
Proof.
  intro H. apply sim_inv in H as [H1 H2]. split; intros r Hr; apply in_map_iff in Hr as ([r' t] & <- & Hin).
  - destruct (H1 r' t Hin) as (t' & Hin' & _). eapply in_keys; eauto.
  - destruct (H2 r' t Hin) as (t' & Hin' & _). eapply in_keys; eauto.
Qed.

Theorem sim_sim_b : forall a b, wf a -> wf b -> sim a b -> sim_b a b = true.
Proof.
  apply (forest_sub_ind (fun a => forall b, wf a -> wf b -> sim a b -> sim_b a b = true)).
  intros a IH b Hwa Hwb H. unfold sim_b. rewrite sim_t_all.
  pose proof (wf_keys a Hwa) as Hka. pose proof (wf_keys b Hwb) as Hkb.
  destruct (sim_keys_incl _ _ H) as [Hi1 Hi2].
  apply andb_true_iff. split.
  - apply Nat.eqb_eq. unfold keys in *.
    pose proof (NoDup_incl_length Hka Hi1) as L1. pose proof (NoDup_incl_length Hkb Hi2) as L2.
    rewrite !map_length in L1, L2. lia.
  - unfold sim_all. apply forallb_forall. intros [r t] Hin. cbn [fst snd].
    apply sim_inv in H as [H1 _]. destruct (H1 r t Hin) as (t' & Hin' & Hs).
    rewrite (tfind_nodup r b t' Hkb Hin'). destruct t as [kt].
    apply (IH r (T kt) Hin (kids t')); [eapply (wf_in a r (T kt)); eauto | eapply wf_in; eauto | exact Hs].
Qed.

Theorem sim_b_sim : forall a b, sim_b a b = true -> wf a -> wf b -> sim a b.
Proof.
  apply (forest_sub_ind (fun a => forall b, sim_b a b = true -> wf a -> wf b -> sim a b)).
  intros a IH b H Hwa Hwb. unfold sim_b in H. rewrite sim_t_all in H. apply andb_true_iff in H as [Hl Ha].
  apply Nat.eqb_eq in Hl. unfold sim_all in Ha. rewrite forallb_forall in Ha.
  assert (F : forall r t, In (r, t) a -> exists t', In (r, t') b /\ sim (kids t) (kids t')).
  { intros r t Hin. specialize (Ha (r, t) Hin). cbn [fst snd] in Ha.
    destruct (tfind r b) as [t'|] eqn:E; [|discriminate]. exists t'. split; [apply tfind_in; exact E|].
    destruct t as [kt]. apply (IH r (T kt) Hin); [exact Ha | eapply (wf_in a r (T kt)); eauto | eapply wf_in; eauto; apply tfind_in; exact E]. }
  constructor; [exact F|].
  intros r t' Hin'.
  assert (Hincl : incl (keys a) (keys b)).
  { intros x Hx. apply in_map_iff in Hx as ([r0 t0] & <- & Hin0). destruct (F r0 t0 Hin0) as (t1 & H1 & _). eapply in_keys; eauto. }
  assert (Hincl2 : incl (keys b) (keys a)).
  { apply NoDup_length_incl; [apply wf_keys; exact Hwa | unfold keys; rewrite !map_length; lia | exact Hincl]. }
  assert (Hr : In r (keys a)) by (apply Hincl2; eapply in_keys; eauto).
  apply in_map_iff in Hr as ([r0 t] & E & Hin). cbn in E. subst r0.
  destruct (F r t Hin) as (t1 & Hin1 & Hs). exists t. split; [exact Hin|].
  rewrite (nodup_entry b r t' t1 (wf_keys b Hwb) Hin' Hin1). exact Hs.
Qed.

(* ---------- from the slot view of two levels to sim ---------- *)
Definition osim (x y : option (string * tree)) : Prop :=
  match x, y with
  | None, None => True
  | Some (r1, t1), Some (r2, t2) => r1 = r2 /\ sim (kids t1) (kids t2)
  | _, _ => False
  end.

Lemma osim_refl x : osim x x.
Proof. destruct x as [[r t]|]; cbn; [split; [reflexivity | apply sim_refl] | exact I]. Qed.

Section BySlots.
  Variable rmatch : string -> string -> option (list string).
  Variable rs : rset.
  Notation ekey := (ekey rmatch rs).
  Notation lkeys := (lkeys rmatch rs).
  Notation unk := (unk rmatch rs).
  Notation lvl_uniq := (lvl_uniq rmatch rs).
  Notation sfind := (sfind rmatch rs).

  Theorem sim_by_slots a b : lvl_uniq a -> lvl_uniq b -> unk a = unk b ->
    (forall s, osim (sfind s a) (sfind s b)) -> sim a b.
  Proof.
    intros Ha Hb Hu Hs. constructor.
    - intros r t Hin. apply (level_in rmatch rs _ a Ha) in Hin as [Hin|(s & Hk & Hf)].
      + exists t. split; [|apply sim_refl]. rewrite Hu in Hin. apply unk_in in Hin. tauto.
      + specialize (Hs s). rewrite Hf in Hs. destruct (sfind s b) as [[r2 t2]|] eqn:E; [|destruct Hs].
        destruct Hs as [<- Hs]. exists t2. split; [|exact Hs]. apply sfind_in in E. tauto.
    - intros r t Hin. apply (level_in rmatch rs _ b Hb) in Hin as [Hin|(s & Hk & Hf)].
      + exists t. split; [|apply sim_refl]. rewrite <- Hu in Hin. apply unk_in in Hin. tauto.
      + specialize (Hs s). rewrite Hf in Hs. destruct (sfind s a) as [[r2 t2]|] eqn:E; [|destruct Hs].
        destruct Hs as [-> Hs]. exists t2. split; [|exact Hs]. apply sfind_in in E. tauto.
  Qed.

  Lemma ekey_row r t t' : ekey (r, t) = ekey (r, t').
  Proof. reflexivity. Qed.

  Lemma uniq_nodup_keys f : lvl_uniq f -> NoDup (keys (unk f)) -> NoDup (keys f).
  Proof.
    unfold ConvergeDevice.lvl_uniq. induction f as [|[r t] f IH]; intros Hu Hn; [constructor|].
    rewrite lkeys_cons in Hu. unfold ConvergeDevice.unk in Hn. cbn [filter] in Hn.
    cbn [keys map fst]. destruct (ekey (r, t)) as [k|] eqn:E.
    - cbn [app] in Hu. inversion Hu as [|x l Hnk Hr]; subst. constructor; [|apply IH; assumption].
      intro Hin. apply in_map_iff in Hin as ([r' t'] & Er & Hin). cbn in Er. subst r'.
      apply Hnk. apply lkeys_in. exists (r, t'). split; [exact Hin | rewrite <- E; reflexivity].
    - cbn [keys map fst] in Hn. inversion Hn as [|x l Hnk Hr]; subst. constructor; [|apply IH; assumption].
      intro Hin. apply in_map_iff in Hin as ([r' t'] & Er & Hin). cbn in Er. subst r'.
      apply Hnk. apply (in_keys r t'). apply unk_in. split; [exact Hin | rewrite <- E; reflexivity].
  Qed.
End BySlots.
