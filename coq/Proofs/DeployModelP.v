(* C09: the command-stream clause of P_C09 holds for the model's own output (all commands under
   the default apply logic, unique rule chains). *)
From Coq Require Import List String Ascii Bool Arith NArith Lia.
From Annet Require Import Base.Str Model.Pattern Model.Order Model.Patch Model.Blocks Gen.Src_apply Model.Deploy
     Spec.P_C09 Proofs.DeployProofs.
Import ListNotations.
Open Scope string_scope.
Open Scope list_scope.

Lemma question_eqb_refl q : question_eqb q q = true.
Proof. unfold question_eqb. rewrite !String.eqb_refl, Bool.eqb_reflx. reflexivity. Qed.

Lemma list_eqb_refl {A} (e : A -> A -> bool) (l : list A) : (forall x, e x x = true) -> list_eqb e l l = true.
Proof. intro H. induction l as [|x l IH]; [reflexivity|]. cbn. rewrite H, IH. reflexivity. Qed.

Lemma all_fit_app fit e1 a1 e2 a2 :
  all_fit fit e1 a1 = true -> all_fit fit e2 a2 = true -> all_fit fit (e1 ++ e2) (a1 ++ a2) = true.
Proof.
  revert a1. induction e1 as [|x e1 IH]; intros [|y a1] H1 H2; cbn in *; try discriminate; [exact H2|].
  apply andb_true_iff in H1 as [Hx H1]. rewrite Hx. cbn. apply IH; assumption.
Qed.

Lemma all_fit_opt_all {A} fit (g : A -> option command) (E : A -> command * bool) l m :
  opt_all (map g l) = Some m ->
  (forall x y, In x l -> g x = Some y -> fit (E x) y = true) ->
  all_fit fit (map E l) m = true.
Proof.
  intros Hm Hf. apply opt_all_some in Hm.
  induction Hm as [|x y l m Hxy _ IH]; [reflexivity|].
  cbn. rewrite (Hf x y (or_introl eq_refl) Hxy). cbn. apply IH. intros x' y' Hin. apply Hf. right. exact Hin.
Qed.

Section ModelP.
  Variable h : hitfn.
  Variable o : obs09.
  Variable wrappers : nat -> wrapper.

  Lemma expect_body p c cmd w :
    chain_det h (o_rules o) p c = true ->
    body_cmd h wrappers (o_rules o) (p, c) = Some (cmd, w) ->
    cmd_fits (expect h o p c) cmd = true.
  Proof.
    intros Hdet Hb.
    pose proof (cmd_params_spec h wrappers (o_rules o) p c cmd w Hdet Hb) as Hp.
    assert (body_only h wrappers (o_rules o) (p, c) = Some cmd) as Hbo by (unfold body_only; rewrite Hb; reflexivity).
    apply body_only_shape in Hbo as [H1 H2]. cbn [fst] in H1, H2.
    unfold expect, sel. destruct (spec_params (spec_rule h (o_rules o) p c)) as [t qs].
    injection Hp as Ht Hq. unfold cmd_fits, cmd_fits_plain. cbn [fst snd c_cmd c_level c_timeout c_questions].
    rewrite H1, H2, Ht, Hq, String.eqb_refl, Nat.eqb_refl, N.eqb_refl, Hdet.
    rewrite (list_eqb_refl question_eqb _ question_eqb_refl). reflexivity.
  Qed.

  Lemma wrap_cmd_body s : wrap_cmd h (o_rules o) s = body_only h wrappers (o_rules o) ([s], []).
  Proof.
    unfold wrap_cmd, body_only, body_cmd. cbn [fst snd].
    destruct (cmd_params (rule_for h (o_rules o) [s] [])) as [[t qs]|]; reflexivity.
  Qed.

  Lemma expect_wrap s cmd :
    wrap_cmd h (o_rules o) s = Some cmd -> cmd_fits (expect h o [s] []) cmd = true.
  Proof.
    rewrite wrap_cmd_body. unfold body_only.
    destruct (body_cmd h wrappers (o_rules o) ([s], [])) as [[c w]|] eqn:E; [|discriminate].
    intro H. injection H as <-. apply (expect_body [s] [] c w); [reflexivity|exact E].
  Qed.

  (* all paths: unique chain, default apply logic *)
  Hypothesis Hsingle : single_wrapper h o = true.

  Lemma single_apply pc : In pc (o_paths0 o) -> wrapper_of h wrappers (o_rules o) pc = wrappers 0.
  Proof.
    intro Hin. unfold single_wrapper in Hsingle. rewrite forallb_forall in Hsingle.
    specialize (Hsingle pc Hin). apply andb_true_iff in Hsingle as [Ha Hd].
    apply Nat.eqb_eq in Ha. unfold wrapper_of, rule_for. rewrite (match_rule_spec h _ _ _ Hd).
    unfold sel_apply, sel in Ha. destruct (spec_rule h (o_rules o) (fst pc) (snd pc)) as [r|]; [rewrite Ha|]; reflexivity.
  Qed.

  Theorem model_stream_fits r w cmds :
    r_common r = Some w -> wrappers 0 = w ->
    r_cmds r = Some cmds ->
    deploy h wrappers (o_rules o) (o_paths0 o) = Some cmds ->
    run_stream cmd_fits h o true (map (fun pc => expect h o (fst pc) (snd pc)) (o_paths0 o)) r = true.
  Proof.
    intros Hc Hw Hr Hd. unfold run_stream. rewrite Hr, Hc.
    destruct (o_paths0 o) as [|pc0 l] eqn:Ep.
    - cbn in Hd. injection Hd as <-. reflexivity.
    - rewrite <- Ep in *. rewrite (deploy_single h wrappers (o_rules o) (o_paths0 o) w) in Hd;
        [|rewrite Ep; discriminate|intros pc Hin; rewrite (single_apply pc Hin); exact Hw].
      destruct (opt_all (map (body_only h wrappers (o_rules o)) (o_paths0 o))) as [m|] eqn:Em; [|discriminate].
      destruct (opt_all (map (wrap_cmd h (o_rules o)) (fst w))) as [b|] eqn:Eb; [|discriminate].
      destruct (opt_all (map (wrap_cmd h (o_rules o)) (snd w))) as [a|] eqn:Ea; [|discriminate].
      injection Hd as <-.
      assert (match map (fun pc => expect h o (fst pc) (snd pc)) (o_paths0 o) with
              | [] => []
              | _ :: _ => map (fun s => expect h o [s] []) (fst w) ++
                          map (fun pc => expect h o (fst pc) (snd pc)) (o_paths0 o) ++
                          map (fun s => expect h o [s] []) (snd w)
              end = map (fun s => expect h o [s] []) (fst w) ++
                    map (fun pc => expect h o (fst pc) (snd pc)) (o_paths0 o) ++
                    map (fun s => expect h o [s] []) (snd w)) as ->.
      { rewrite Ep. reflexivity. }
      apply all_fit_app; [|apply all_fit_app].
      + apply (all_fit_opt_all cmd_fits _ _ _ _ Eb). intros s c _ Hs. apply expect_wrap. exact Hs.
      + apply (all_fit_opt_all cmd_fits _ (fun pc => expect h o (fst pc) (snd pc)) _ _ Em).
        intros pc c Hin Hb. unfold body_only in Hb.
        destruct (body_cmd h wrappers (o_rules o) pc) as [[c' w']|] eqn:E; [|discriminate]. injection Hb as <-.
        unfold single_wrapper in Hsingle. rewrite forallb_forall in Hsingle.
        specialize (Hsingle pc Hin). apply andb_true_iff in Hsingle as [_ Hdet].
        destruct pc as [p c]. apply (expect_body p c c' w' Hdet E).
      + apply (all_fit_opt_all cmd_fits _ _ _ _ Ea). intros s c _ Hs. apply expect_wrap. exact Hs.
  Qed.
End ModelP.
