(* C13 — lemma library, part 2: apply_json_fragment on documents of one schema. *)
From Coq Require Import List String Ascii Bool Arith ZArith Lia.
From Annet Require Import Base.Str Model.Json Spec.P_C13.
Import ListNotations.
Open Scope string_scope.
Open Scope list_scope.

Local Opaque fnm dec.

(* ---------------------------------------------------------------- induction on documents *)
Section JInd.
  Variable P : json -> Prop.
  Hypothesis Hnull : P JNull.
  Hypothesis Hbool : forall b, P (JBool b).
  Hypothesis Hnum : forall z, P (JNum z).
  Hypothesis Hstr : forall s, P (JStr s).
  Hypothesis Harr : forall l, Forall P l -> P (JArr l).
  Hypothesis Hobj : forall kvs, Forall (fun kv => P (snd kv)) kvs -> P (JObj kvs).
  Fixpoint json_ind2 (d : json) : P d :=
    match d with
    | JNull => Hnull
    | JBool b => Hbool b
    | JNum z => Hnum z
    | JStr s => Hstr s
    | JArr l => Harr l ((fix go (l : list json) : Forall P l :=
                           match l with
                           | [] => Forall_nil _
                           | x :: t => Forall_cons x (json_ind2 x) (go t)
                           end) l)
    | JObj kvs => Hobj kvs ((fix go (kvs : list (string * json)) : Forall (fun kv => P (snd kv)) kvs :=
                               match kvs with
                               | [] => Forall_nil _
                               | kv :: t => Forall_cons kv (json_ind2 (snd kv)) (go t)
                               end) kvs)
    end.
End JInd.

(* ---------------------------------------------------------------- association lists *)

Lemma lookup_aset_same k v kvs : lookup k (aset k v kvs) = Some v.
Proof.
  induction kvs as [|[k' v'] t IH]; cbn.
  - rewrite String.eqb_refl. reflexivity.
  - destruct (String.eqb k k') eqn:E; cbn.
    + rewrite String.eqb_refl. reflexivity.
    + rewrite E. exact IH.
Qed.

Lemma lookup_aset_other k k' v kvs : k' <> k -> lookup k' (aset k v kvs) = lookup k' kvs.
Proof.
  intro Hne. induction kvs as [|[k0 v0] t IH]; cbn.
  - apply String.eqb_neq in Hne. rewrite Hne. reflexivity.
  - destruct (String.eqb k k0) eqn:E; cbn.
    + apply String.eqb_eq in E. subst k0. apply String.eqb_neq in Hne. rewrite Hne. reflexivity.
    + destruct (String.eqb k' k0); [reflexivity | exact IH].
Qed.

Lemma aset_id k v kvs : lookup k kvs = Some v -> aset k v kvs = kvs.
Proof.
  induction kvs as [|[k0 v0] t IH]; cbn; intro H.
  - discriminate.
  - destruct (String.eqb k k0) eqn:E.
    + apply String.eqb_eq in E. injection H as H. subst. reflexivity.
    + f_equal. apply IH. exact H.
Qed.

Lemma aset_aset k v w kvs : aset k v (aset k w kvs) = aset k v kvs.
Proof.
  induction kvs as [|[k0 v0] t IH]; cbn.
  - rewrite String.eqb_refl. reflexivity.
  - destruct (String.eqb k k0) eqn:E; cbn.
    + rewrite String.eqb_refl. reflexivity.
    + rewrite E. f_equal. exact IH.
Qed.

Lemma lookup_adel_same k kvs : lookup k (adel k kvs) = None.
Proof.
  unfold adel. induction kvs as [|[k0 v0] t IH]; cbn.
  - reflexivity.
  - destruct (String.eqb k k0) eqn:E; cbn.
    + exact IH.
    + rewrite E. exact IH.
Qed.

Lemma lookup_adel_other k k' kvs : k' <> k -> lookup k' (adel k kvs) = lookup k' kvs.
Proof.
  intro Hne. unfold adel. induction kvs as [|[k0 v0] t IH]; cbn.
  - reflexivity.
  - destruct (String.eqb k k0) eqn:E; cbn.
    + apply String.eqb_eq in E. subst k0. apply String.eqb_neq in Hne. rewrite Hne. exact IH.
    + destruct (String.eqb k' k0); [reflexivity | exact IH].
Qed.

Lemma lookup_In k v kvs : lookup k kvs = Some v -> In (k, v) kvs.
Proof.
  induction kvs as [|[k0 v0] t IH]; cbn; intro H.
  - discriminate.
  - destruct (String.eqb k k0) eqn:E.
    + apply String.eqb_eq in E. injection H as H. subst. left. reflexivity.
    + right. apply IH. exact H.
Qed.

Lemma In_aset k v kvs kv : In kv (aset k v kvs) -> kv = (k, v) \/ In kv kvs.
Proof.
  induction kvs as [|[k0 v0] t IH]; cbn; intro H.
  - destruct H as [H|[]]. left. symmetry. exact H.
  - destruct (String.eqb k k0) eqn:E; cbn in H.
    + destruct H as [H|H]; [left; symmetry; exact H | right; right; exact H].
    + destruct H as [H|H]; [right; left; exact H |].
      destruct (IH H) as [H1|H1]; [left; exact H1 | right; right; exact H1].
Qed.

Lemma In_adel k kvs kv : In kv (adel k kvs) -> In kv kvs.
Proof. unfold adel. intro H. apply filter_In in H. tauto. Qed.

Lemma forallb_aset (g : string * json -> bool) k v kvs :
  forallb g kvs = true -> g (k, v) = true -> forallb g (aset k v kvs) = true.
Proof.
  intros H Hg. apply forallb_forall. intros kv Hin. apply In_aset in Hin. destruct Hin as [->|Hin].
  - exact Hg.
  - rewrite forallb_forall in H. apply H. exact Hin.
Qed.

Lemma forallb_adel (g : string * json -> bool) k kvs :
  forallb g kvs = true -> forallb g (adel k kvs) = true.
Proof.
  intro H. apply forallb_forall. intros kv Hin. apply In_adel in Hin.
  rewrite forallb_forall in H. apply H. exact Hin.
Qed.

(* ---------------------------------------------------------------- put / del on objects *)

Definition sub_or_empty (k : string) (kvs : list (string * json)) : json :=
  match lookup k kvs with Some c => c | None => JObj [] end.

(* set the member at p to v, creating empty objects for missing members on the way *)
Fixpoint put (p : path) (v d : json) : json :=
  match p with
  | [] => v
  | k :: r =>
    match d with
    | JObj kvs => JObj (aset k (put r v (sub_or_empty k kvs)) kvs)
    | _ => d
    end
  end.

(* the members on the way to p that exist are objects *)
Fixpoint okpath (p : path) (d : json) : bool :=
  match p with
  | [] => true
  | k :: r =>
    match d with
    | JObj kvs => match lookup k kvs with Some c => okpath r c | None => true end
    | _ => false
    end
  end.

(* p exists in d and is reached through objects only *)
Fixpoint opath (p : path) (d : json) : bool :=
  match p with
  | [] => true
  | k :: r =>
    match d with
    | JObj kvs => match lookup k kvs with Some c => opath r c | None => false end
    | _ => false
    end
  end.

Fixpoint del (p : path) (d : json) : json :=
  match p with
  | [] => d
  | k :: r =>
    match d with
    | JObj kvs =>
      match r with
      | [] => JObj (adel k kvs)
      | _ => match lookup k kvs with Some c => JObj (aset k (del r c) kvs) | None => d end
      end
    | _ => d
    end
  end.

Lemma okpath_empty r : okpath r (JObj []) = true.
Proof. destruct r; reflexivity. Qed.

Lemma opath_okpath p : forall d, opath p d = true -> okpath p d = true.
Proof.
  induction p as [|k r IH]; intros d H; cbn in *; [reflexivity|].
  destruct d; try discriminate. destruct (lookup k kvs); [apply IH; exact H | discriminate].
Qed.

Lemma set_ensure_put p : forall v d,
  p <> [] -> okpath p d = true -> set_ptr p v (ensure p d) = Some (put p v d).
Proof.
  induction p as [|k r IH]; intros v d Hne Hok; [contradiction|].
  destruct r as [|k2 r2].
  - cbn in *. destruct d; try discriminate. reflexivity.
  - destruct d; try discriminate.
    cbn [okpath] in Hok.
    change (ensure (k :: k2 :: r2) (JObj kvs)) with
      (JObj (aset k (ensure (k2 :: r2) (match lookup k kvs with None | Some JNull => JObj [] | Some c => c end)) kvs)).
    change (set_ptr (k :: k2 :: r2) v ?x) with (upd_child k (set_ptr (k2 :: r2) v) x).
    cbn [upd_child]. rewrite lookup_aset_same. cbn [bind].
    assert (Hsub : (match lookup k kvs with None | Some JNull => JObj [] | Some c => c end) = sub_or_empty k kvs
                   /\ okpath (k2 :: r2) (sub_or_empty k kvs) = true).
    { unfold sub_or_empty. destruct (lookup k kvs) as [c|].
      - destruct c; try (cbn in Hok; discriminate). split; [reflexivity | exact Hok].
      - split; reflexivity. }
    destruct Hsub as [E Hok2]. rewrite E.
    rewrite IH; [| discriminate | exact Hok2]. cbn [bind].
    rewrite aset_aset. reflexivity.
Qed.

Lemma del_ptr_del p : forall d, opath p d = true -> del_ptr p d = Some (del p d).
Proof.
  induction p as [|k r IH]; intros d H; [reflexivity|].
  destruct r as [|k2 r2].
  - cbn in *. destruct d; try discriminate. reflexivity.
  - destruct d; try discriminate. cbn [opath] in H.
    change (del_ptr (k :: k2 :: r2) ?x) with (upd_child k (del_ptr (k2 :: r2)) x).
    cbn [upd_child del]. destruct (lookup k kvs) as [c|]; [|discriminate]. cbn [bind].
    rewrite IH; [reflexivity | exact H].
Qed.

Lemma get_ptr_get p : forall d, opath p d = true -> get_ptr p d = get p d.
Proof.
  induction p as [|k r IH]; intros d H; [reflexivity|].
  cbn in *. destruct d; try discriminate. unfold walk. cbn.
  destruct (lookup k kvs) as [c|]; [|discriminate]. cbn. apply IH. exact H.
Qed.

Lemma opath_get p : forall d, opath p d = true -> exists v, get p d = Some v.
Proof.
  induction p as [|k r IH]; intros d H; cbn in *.
  - eexists; reflexivity.
  - destruct d; try discriminate. cbn in *. destruct (lookup k kvs) as [c|]; [|discriminate]. cbn. apply IH. exact H.
Qed.

Lemma get_app p : forall s d, get (p ++ s) d = match get p d with Some c => get s c | None => None end.
Proof.
  induction p as [|k r IH]; intros s d; cbn; [reflexivity|].
  destruct (lookup k (children d)) as [c|]; cbn; [apply IH | reflexivity].
Qed.

(* ---------------------------------------------------------------- relations between paths *)

Fixpoint diverge (p q : path) : bool :=
  match p, q with
  | k1 :: p', k2 :: q' => if String.eqb k1 k2 then diverge p' q' else true
  | _, _ => false
  end.

Lemma trichotomy p : forall q,
  diverge p q = true \/ (exists s, q = p ++ s) \/ (exists s, p = q ++ s /\ s <> []).
Proof.
  induction p as [|k1 p IH]; intros q.
  - right. left. exists q. reflexivity.
  - destruct q as [|k2 q].
    + right. right. exists (k1 :: p). split; [reflexivity | discriminate].
    + cbn. destruct (String.eqb k1 k2) eqn:E.
      * apply String.eqb_eq in E. subst k2. destruct (IH q) as [H|[[s H]|[s [H Hs]]]].
        -- left. exact H.
        -- right. left. exists s. cbn. f_equal. exact H.
        -- right. right. exists s. split; [cbn; f_equal; exact H | exact Hs].
      * left. reflexivity.
Qed.

Lemma same_len_diverge p q : List.length p = List.length q -> p <> q -> diverge p q = true.
Proof.
  intros Hl Hne. destruct (trichotomy p q) as [H|[[s H]|[s [H Hs]]]]; [exact H | |].
  - subst q. rewrite app_length in Hl. destruct s; [rewrite app_nil_r in Hne; contradiction | cbn in Hl; lia].
  - subst p. rewrite app_length in Hl. destruct s; [contradiction | cbn in Hl; lia].
Qed.

Lemma diverge_sym p : forall q, diverge p q = diverge q p.
Proof.
  induction p as [|k1 p IH]; intros [|k2 q]; cbn; try reflexivity.
  rewrite (String.eqb_sym k2 k1). destruct (String.eqb k1 k2); [apply IH | reflexivity].
Qed.

Lemma get_nonempty_empty q : q <> [] -> get q (JObj []) = None.
Proof. destruct q; [contradiction | reflexivity]. Qed.

Lemma diverge_nonempty p q : diverge p q = true -> q <> [].
Proof. destruct p, q; cbn; intros H; try discriminate. Qed.

(* ---------------------------------------------------------------- get after put / del *)

Lemma get_put_diverge p : forall q v d, diverge p q = true -> get q (put p v d) = get q d.
Proof.
  induction p as [|k1 p IH]; intros q v d H; [discriminate|].
  destruct q as [|k2 q]; [discriminate|]. cbn in H.
  destruct d; try reflexivity. cbn [put get children].
  destruct (String.eqb k1 k2) eqn:E.
  - apply String.eqb_eq in E. subst k2. rewrite lookup_aset_same. cbn [bind].
    rewrite IH by exact H. unfold sub_or_empty. destruct (lookup k1 kvs); cbn; [reflexivity|].
    apply get_nonempty_empty. eapply diverge_nonempty. exact H.
  - apply String.eqb_neq in E. rewrite lookup_aset_other by (intro; subst; contradiction). reflexivity.
Qed.

Lemma okpath_sub k r kvs : okpath (k :: r) (JObj kvs) = true -> okpath r (sub_or_empty k kvs) = true.
Proof.
  cbn. unfold sub_or_empty. destruct (lookup k kvs); intro H; [exact H | apply okpath_empty].
Qed.

Lemma get_put_below p : forall s v d, okpath p d = true -> get (p ++ s) (put p v d) = get s v.
Proof.
  induction p as [|k p IH]; intros s v d H; [reflexivity|].
  destruct d; try (cbn in H; discriminate).
  cbn [put app get children]. rewrite lookup_aset_same. cbn [bind].
  apply IH. apply okpath_sub. exact H.
Qed.

Lemma get_put_same p v d : okpath p d = true -> get p (put p v d) = Some v.
Proof. intro H. rewrite <- (app_nil_r p) at 1. rewrite get_put_below by exact H. reflexivity. Qed.

Lemma put_id p : forall v d, get p d = Some v -> put p v d = d.
Proof.
  induction p as [|k p IH]; intros v d H; cbn in *.
  - injection H as H. symmetry. exact H.
  - destruct d; try reflexivity. cbn in H. unfold sub_or_empty.
    destruct (lookup k kvs) as [c|] eqn:E; cbn in H; [|discriminate].
    rewrite (IH v c H). rewrite aset_id by exact E. reflexivity.
Qed.

(* a proper prefix of p is an object (or absent) before and an object after *)
Lemma leaf_above_put q : forall s v d, s <> [] -> okpath (q ++ s) d = true ->
  leafval (get q (put (q ++ s) v d)) = None /\ leafval (get q d) = None.
Proof.
  induction q as [|k q IH]; intros s v d Hs H.
  - cbn [app] in *. destruct s as [|k s]; [contradiction|].
    destruct d; try (cbn in H; discriminate). split; reflexivity.
  - cbn [app] in *. destruct d; try (cbn in H; discriminate).
    cbn [put get children]. rewrite lookup_aset_same. cbn [bind].
    destruct (IH s v (sub_or_empty k kvs) Hs (okpath_sub _ _ _ H)) as [H1 H2]. split; [exact H1|].
    unfold sub_or_empty in H2. destruct (lookup k kvs); cbn; [exact H2 | reflexivity].
Qed.

Lemma get_del_diverge p : forall q d, diverge p q = true -> get q (del p d) = get q d.
Proof.
  induction p as [|k1 p IH]; intros q d H; [discriminate|].
  destruct q as [|k2 q]; [discriminate|]. cbn in H.
  destruct d; try reflexivity. cbn [del].
  destruct p as [|k3 p3].
  - destruct (String.eqb k1 k2) eqn:E; [destruct q; discriminate|].
    apply String.eqb_neq in E. cbn [get children]. rewrite lookup_adel_other by (intro; subst; contradiction). reflexivity.
  - destruct (lookup k1 kvs) as [c|] eqn:El; [|reflexivity].
    cbn [get children]. destruct (String.eqb k1 k2) eqn:E.
    + apply String.eqb_eq in E. subst k2. rewrite lookup_aset_same, El. cbn [bind]. apply IH. exact H.
    + apply String.eqb_neq in E. rewrite lookup_aset_other by (intro; subst; contradiction). reflexivity.
Qed.

Lemma get_del_below p : forall s d, p <> [] -> opath p d = true -> get (p ++ s) (del p d) = None.
Proof.
  induction p as [|k p IH]; intros s d Hne H; [contradiction|].
  destruct d; try (cbn in H; discriminate). cbn [opath] in H.
  destruct (lookup k kvs) as [c|] eqn:El; [|discriminate].
  destruct p as [|k3 p3].
  - cbn. rewrite lookup_adel_same. reflexivity.
  - cbn [del]. rewrite El. cbn [app get children]. rewrite lookup_aset_same. cbn [bind].
    apply (IH s c); [discriminate | exact H].
Qed.

Lemma leaf_above_del q : forall s d, s <> [] -> opath (q ++ s) d = true ->
  leafval (get q (del (q ++ s) d)) = None /\ leafval (get q d) = None.
Proof.
  induction q as [|k q IH]; intros s d Hs H.
  - cbn [app] in *. destruct s as [|k s]; [contradiction|].
    destruct d; try (cbn in H; discriminate). cbn [del get].
    destruct s; [split; reflexivity|]. destruct (lookup k kvs); split; reflexivity.
  - cbn [app] in *. destruct d; try (cbn in H; discriminate). cbn [opath] in H.
    destruct (lookup k kvs) as [c|] eqn:El; [|discriminate].
    assert (Hq : q ++ s <> []) by (destruct q; [exact Hs | discriminate]).
    cbn [del]. destruct (q ++ s) as [|k3 r3] eqn:Eqs; [contradiction|]. rewrite El.
    cbn [get children]. rewrite lookup_aset_same, El. cbn [bind]. rewrite <- Eqs in *.
    apply IH; assumption.
Qed.

(* ---------------------------------------------------------------- dict invariant *)

Lemma uniq_cons k v t :
  uniq (JObj ((k, v) :: t)) = negb (existsb (String.eqb k) (map fst t)) && uniq v && uniq (JObj t).
Proof. reflexivity. Qed.

Lemma uniq_arr_cons x t : uniq (JArr (x :: t)) = uniq x && uniq (JArr t).
Proof. reflexivity. Qed.

Lemma key_in k (v : json) t : In (k, v) t -> existsb (String.eqb k) (map fst t) = true.
Proof.
  intro H. apply existsb_exists. exists k. split; [|apply String.eqb_refl].
  change k with (fst (k, v)). apply in_map. exact H.
Qed.

Lemma uniq_obj_lookup kvs : uniq (JObj kvs) = true -> forall k v, In (k, v) kvs -> lookup k kvs = Some v.
Proof.
  induction kvs as [|[k0 v0] t IH]; intros Hu k v Hin; [destruct Hin|].
  rewrite uniq_cons in Hu. apply andb_true_iff in Hu as [Hu Ht]. apply andb_true_iff in Hu as [Hk Hv].
  cbn. destruct Hin as [E|Hin].
  - injection E as E1 E2. subst. rewrite String.eqb_refl. reflexivity.
  - destruct (String.eqb k k0) eqn:E.
    + apply String.eqb_eq in E. subst k0. rewrite (key_in _ _ _ Hin) in Hk. discriminate.
    + apply IH; assumption.
Qed.

Lemma uniq_obj_In kvs : uniq (JObj kvs) = true -> forall k v, In (k, v) kvs -> uniq v = true.
Proof.
  induction kvs as [|[k0 v0] t IH]; intros Hu k v Hin; [destruct Hin|].
  rewrite uniq_cons in Hu. apply andb_true_iff in Hu as [Hu Ht]. apply andb_true_iff in Hu as [Hk Hv].
  destruct Hin as [E|Hin].
  - injection E as E1 E2. subst. exact Hv.
  - eapply IH; eassumption.
Qed.

Lemma keys_aset_other k0 k v t :
  k0 <> k -> existsb (String.eqb k0) (map fst (aset k v t)) = existsb (String.eqb k0) (map fst t).
Proof.
  intro Hne. induction t as [|[k1 v1] t IH]; cbn.
  - apply String.eqb_neq in Hne. rewrite Hne. reflexivity.
  - destruct (String.eqb k k1) eqn:E; cbn.
    + apply String.eqb_eq in E. subst k1. reflexivity.
    + rewrite IH. reflexivity.
Qed.

Lemma uniq_aset k v kvs : uniq (JObj kvs) = true -> uniq v = true -> uniq (JObj (aset k v kvs)) = true.
Proof.
  intros Hu Hv. induction kvs as [|[k0 v0] t IH]; cbn [aset].
  - rewrite uniq_cons. cbn. rewrite Hv. reflexivity.
  - rewrite uniq_cons in Hu. apply andb_true_iff in Hu as [Hu Ht]. apply andb_true_iff in Hu as [Hk Hv0].
    destruct (String.eqb k k0) eqn:E.
    + apply String.eqb_eq in E. subst k0. rewrite uniq_cons, Hk, Hv, Ht. reflexivity.
    + rewrite uniq_cons. apply String.eqb_neq in E.
      rewrite keys_aset_other by (intro; subst; contradiction). rewrite Hk, Hv0, (IH Ht). reflexivity.
Qed.

Lemma keys_adel k0 k t :
  existsb (String.eqb k0) (map fst t) = false -> existsb (String.eqb k0) (map fst (adel k t)) = false.
Proof.
  unfold adel. induction t as [|[k1 v1] t IH]; cbn; intro H; [reflexivity|].
  apply orb_false_iff in H as [H1 H2]. destruct (String.eqb k k1); cbn.
  - apply IH. exact H2.
  - rewrite H1. apply IH. exact H2.
Qed.

Lemma uniq_adel k kvs : uniq (JObj kvs) = true -> uniq (JObj (adel k kvs)) = true.
Proof.
  induction kvs as [|[k0 v0] t IH]; intro Hu; [reflexivity|].
  rewrite uniq_cons in Hu. apply andb_true_iff in Hu as [Hu Ht]. apply andb_true_iff in Hu as [Hk Hv0].
  unfold adel. cbn [filter fst]. destruct (String.eqb k k0); cbn [negb].
  - apply IH. exact Ht.
  - change (filter _ t) with (adel k t). rewrite uniq_cons.
    apply negb_true_iff in Hk. rewrite (keys_adel _ _ _ Hk), Hv0. cbn. apply IH. exact Ht.
Qed.

Lemma uniq_sub k kvs : uniq (JObj kvs) = true -> uniq (sub_or_empty k kvs) = true.
Proof.
  intro Hu. unfold sub_or_empty. destruct (lookup k kvs) eqn:E; [|reflexivity].
  eapply uniq_obj_In; [exact Hu | apply lookup_In; exact E].
Qed.

Lemma uniq_put p : forall v d, uniq d = true -> uniq v = true -> uniq (put p v d) = true.
Proof.
  induction p as [|k p IH]; intros v d Hd Hv; cbn; [exact Hv|].
  destruct d; try exact Hd. apply uniq_aset; [exact Hd|]. apply IH; [apply uniq_sub; exact Hd | exact Hv].
Qed.

Lemma uniq_del p : forall d, uniq d = true -> uniq (del p d) = true.
Proof.
  induction p as [|k p IH]; intros d Hd; cbn; [exact Hd|].
  destruct d; try exact Hd. destruct p as [|k2 p2].
  - apply uniq_adel. exact Hd.
  - destruct (lookup k kvs) eqn:E; [|exact Hd].
    apply uniq_aset; [exact Hd|]. apply IH. eapply uniq_obj_In; [exact Hd | apply lookup_In; exact E].
Qed.

Lemma uniq_opath_get p : forall d v, uniq d = true -> opath p d = true -> get p d = Some v -> uniq v = true.
Proof.
  induction p as [|k p IH]; intros d v Hd Ho Hg; cbn in *.
  - injection Hg as Hg. subst. exact Hd.
  - destruct d; try discriminate. cbn in *. destruct (lookup k kvs) eqn:E; [|discriminate]. cbn in Hg.
    eapply IH; [| exact Ho | exact Hg]. eapply uniq_obj_In; [exact Hd | apply lookup_In; exact E].
Qed.

(* ---------------------------------------------------------------- one schema *)

Lemma ss_cons k v t y :
  same_schema (JObj ((k, v) :: t)) (JObj y) =
  match lookup k y with Some w => same_schema v w | None => true end && same_schema (JObj t) (JObj y).
Proof. reflexivity. Qed.

Lemma ss_obj_iff x y :
  same_schema (JObj x) (JObj y) = true <->
  (forall k v w, In (k, v) x -> lookup k y = Some w -> same_schema v w = true).
Proof.
  induction x as [|[k0 v0] t IH].
  - split; [intros _ k v w [] | reflexivity].
  - rewrite ss_cons, andb_true_iff, IH. split.
    + intros [H1 H2] k v w [E|Hin] Hl.
      * injection E as E1 E2. subst. rewrite Hl in H1. exact H1.
      * eapply H2; eassumption.
    + intro H. split.
      * destruct (lookup k0 y) eqn:E; [|reflexivity]. eapply H; [left; reflexivity | exact E].
      * intros k v w Hin Hl. eapply H; [right; exact Hin | exact Hl].
Qed.

Lemma ss_left_obj d y : same_schema d (JObj y) = true -> exists x, d = JObj x.
Proof. destruct d; cbn; intro H; try discriminate. eexists; reflexivity. Qed.

Lemma ss_refl : forall a, uniq a = true -> same_schema a a = true.
Proof.
  apply (json_ind2 (fun a => uniq a = true -> same_schema a a = true)); try reflexivity.
  intros kvs IH Hu. apply ss_obj_iff. intros k v w Hin Hl.
  rewrite (uniq_obj_lookup _ Hu _ _ Hin) in Hl. injection Hl as Hl. subst w.
  rewrite Forall_forall in IH. apply (IH (k, v) Hin). eapply uniq_obj_In; eassumption.
Qed.

Lemma ss_empty_obj y : same_schema (JObj []) (JObj y) = true.
Proof. reflexivity. Qed.

Lemma opath_nonempty_obj k r d : opath (k :: r) d = true -> exists kvs, d = JObj kvs.
Proof. destruct d; cbn; intro H; try discriminate. eexists; reflexivity. Qed.

Lemma ss_put p : forall v d f,
  uniq f = true -> same_schema d f = true -> opath p f = true -> get p f = Some v ->
  same_schema (put p v d) f = true.
Proof.
  induction p as [|k r IH]; intros v d f Hu Hs Ho Hg.
  - cbn in *. injection Hg as Hg. subst v. apply ss_refl. exact Hu.
  - destruct (opath_nonempty_obj _ _ _ Ho) as [fk ->].
    destruct (ss_left_obj _ _ Hs) as [kvs ->].
    cbn in Ho, Hg. destruct (lookup k fk) as [fc|] eqn:Ef; [|discriminate]. cbn in Hg.
    cbn [put]. apply ss_obj_iff. intros k' v' w Hin Hl.
    apply In_aset in Hin. destruct Hin as [E|Hin].
    + injection E as E1 E2. subst k' v'. rewrite Ef in Hl. injection Hl as Hl. subst w.
      assert (Hufc : uniq fc = true) by (eapply uniq_obj_In; [exact Hu | apply lookup_In; exact Ef]).
      destruct r as [|k2 r2].
      * cbn in *. injection Hg as Hg. subst v. apply ss_refl. exact Hufc.
      * apply IH; try assumption.
        unfold sub_or_empty. destruct (lookup k kvs) as [c|] eqn:Ec.
        -- rewrite ss_obj_iff in Hs. eapply Hs; [apply lookup_In; exact Ec | exact Ef].
        -- destruct (opath_nonempty_obj _ _ _ Ho) as [y ->]. reflexivity.
    + rewrite ss_obj_iff in Hs. eapply Hs; eassumption.
Qed.

Lemma ss_del p : forall d f, same_schema d f = true -> same_schema (del p d) f = true.
Proof.
  induction p as [|k r IH]; intros d f Hs; cbn; [exact Hs|].
  destruct d; try exact Hs.
  destruct f; try (cbn in Hs; discriminate).
  destruct r as [|k2 r2].
  - apply ss_obj_iff. intros k' v' w Hin Hl. apply In_adel in Hin.
    rewrite ss_obj_iff in Hs. eapply Hs; eassumption.
  - destruct (lookup k kvs) as [c|] eqn:Ec; [|exact Hs].
    apply ss_obj_iff. intros k' v' w Hin Hl. apply In_aset in Hin. destruct Hin as [E|Hin].
    + injection E as E1 E2. subst k' v'. apply IH.
      rewrite ss_obj_iff in Hs. eapply Hs; [apply lookup_In; exact Ec | exact Hl].
    + rewrite ss_obj_iff in Hs. eapply Hs; eassumption.
Qed.

(* one schema: a path reached through objects in f meets only objects (or nothing) in d *)
Lemma ss_okpath p : forall d f, same_schema d f = true -> opath p f = true -> p <> [] -> okpath p d = true.
Proof.
  induction p as [|k r IH]; intros d f Hs Ho Hne; [contradiction|].
  destruct (opath_nonempty_obj _ _ _ Ho) as [fk ->].
  destruct (ss_left_obj _ _ Hs) as [kvs ->].
  cbn in Ho |- *. destruct (lookup k fk) as [fc|] eqn:Ef; [|discriminate].
  destruct (lookup k kvs) as [c|] eqn:Ec; [|reflexivity].
  destruct r as [|k2 r2]; [reflexivity|].
  apply (IH c fc); [| exact Ho | discriminate].
  rewrite ss_obj_iff in Hs. eapply Hs; [apply lookup_In; exact Ec | exact Ef].
Qed.

(* ---------------------------------------------------------------- objects-only patterns *)

Lemma oo_empty pat : objects_only pat (JObj []) = true.
Proof. destruct pat; reflexivity. Qed.

Lemma oo_child part rest kvs k c :
  objects_only (part :: rest) (JObj kvs) = true -> In (k, c) kvs -> fnm k part = true ->
  objects_only rest c = true.
Proof.
  cbn. intros H Hin Hm. rewrite forallb_forall in H. specialize (H _ Hin). cbn in H. rewrite Hm in H. exact H.
Qed.

Lemma oo_put p : forall pat v d f,
  objects_only pat d = true -> objects_only pat f = true -> opath p f = true -> get p f = Some v ->
  objects_only pat (put p v d) = true.
Proof.
  induction p as [|k r IH]; intros pat v d f Hd Hf Ho Hg.
  - cbn in *. injection Hg as Hg. subst v. exact Hf.
  - destruct (opath_nonempty_obj _ _ _ Ho) as [fk ->].
    destruct d; try exact Hd. cbn [put].
    destruct pat as [|part rest]; [reflexivity|].
    cbn in Ho, Hg. destruct (lookup k fk) as [fc|] eqn:Ef; [|discriminate]. cbn in Hg.
    cbn [objects_only]. apply forallb_aset; [exact Hd|]. cbn [fst snd].
    destruct (fnm k part) eqn:Hm; [|reflexivity].
    apply (IH rest v _ fc); try assumption.
    + unfold sub_or_empty. destruct (lookup k kvs) as [c|] eqn:Ec; [|apply oo_empty].
      eapply oo_child; [exact Hd | apply lookup_In; exact Ec | exact Hm].
    + eapply oo_child; [exact Hf | apply lookup_In; exact Ef | exact Hm].
Qed.

Lemma oo_del p : forall pat d, objects_only pat d = true -> objects_only pat (del p d) = true.
Proof.
  induction p as [|k r IH]; intros pat d Hd; cbn; [exact Hd|].
  destruct d; try exact Hd. destruct pat as [|part rest]; [destruct r; [reflexivity | destruct (lookup k kvs); reflexivity]|].
  destruct r as [|k2 r2].
  - cbn [objects_only]. apply forallb_adel. exact Hd.
  - destruct (lookup k kvs) as [c|] eqn:Ec; [|exact Hd].
    cbn [objects_only]. apply forallb_aset; [exact Hd|]. cbn [fst snd].
    destruct (fnm k part) eqn:Hm; [|reflexivity].
    apply IH. eapply oo_child; [exact Hd | apply lookup_In; exact Ec | exact Hm].
Qed.

Lemma pmatch_length pat : forall p, pmatch pat p = true -> List.length p = List.length pat.
Proof.
  induction pat as [|part rest IH]; intros [|k p] H; cbn in *; try discriminate; [reflexivity|].
  apply andb_true_iff in H as [_ H]. f_equal. apply IH. exact H.
Qed.

(* a selected path that exists is reached through objects *)
Lemma oo_opath pat : forall p d v,
  objects_only pat d = true -> pmatch pat p = true -> get p d = Some v -> opath p d = true.
Proof.
  induction pat as [|part rest IH]; intros p d v Ho Hm Hg.
  - destruct p; [reflexivity | discriminate].
  - destruct p as [|k p]; [discriminate|]. cbn in Hm. apply andb_true_iff in Hm as [Hk Hm].
    destruct d; cbn in Hg; try discriminate.
    cbn in Hg. cbn [opath]. destruct (lookup k kvs) as [c|] eqn:Ec; [|discriminate]. cbn in Hg.
    eapply IH; [| exact Hm | exact Hg]. eapply oo_child; [exact Ho | apply lookup_In; exact Ec | exact Hk].
Qed.

(* ---------------------------------------------------------------- _resolve_json_pointers *)

Lemma sel_spec pat : forall d p,
  uniq d = true -> objects_only pat d = true ->
  (In p (resolve_parts false pat d) <-> pmatch pat p = true /\ opath p d = true).
Proof.
  induction pat as [|part rest IH]; intros d p Hu Ho.
  - cbn. split.
    + intros [<-|[]]. split; reflexivity.
    + intros [H _]. destruct p; [left; reflexivity | discriminate].
  - cbn [resolve_parts]. rewrite in_flat_map. split.
    + intros [[k c] [Hin Hp]]. cbn [fst snd] in Hp.
      destruct (fnm k part) eqn:Hm; [|destruct Hp].
      apply in_map_iff in Hp as [p' [<- Hp']].
      destruct d; cbn in Hin; try contradiction; [cbn in Ho; discriminate|].
      assert (Huc : uniq c = true) by (eapply uniq_obj_In; eassumption).
      assert (Hoc : objects_only rest c = true) by (eapply oo_child; eassumption).
      apply (IH c p' Huc Hoc) in Hp' as [H1 H2]. split.
      * cbn. rewrite Hm, H1. reflexivity.
      * cbn. rewrite (uniq_obj_lookup _ Hu _ _ Hin). exact H2.
    + intros [Hm Hop]. destruct p as [|k p']; [discriminate|].
      cbn in Hm. apply andb_true_iff in Hm as [Hk Hm].
      destruct d; cbn in Hop; try discriminate.
      destruct (lookup k kvs) as [c|] eqn:Ec; [|discriminate].
      exists (k, c). split; [cbn; apply lookup_In; exact Ec|]. cbn [fst snd]. rewrite Hk.
      apply in_map. apply IH.
      * eapply uniq_obj_In; [exact Hu | apply lookup_In; exact Ec].
      * eapply oo_child; [exact Ho | apply lookup_In; exact Ec | exact Hk].
      * split; assumption.
Qed.

Lemma NoDup_app_disj {A} (l1 l2 : list A) :
  NoDup l1 -> NoDup l2 -> (forall x, In x l1 -> ~ In x l2) -> NoDup (l1 ++ l2).
Proof.
  induction l1 as [|a l1 IH]; intros H1 H2 Hd; cbn; [exact H2|].
  inversion H1 as [|? ? Ha H1']; subst. constructor.
  - intro Hin. apply in_app_or in Hin as [Hin|Hin]; [contradiction | apply (Hd a); [left; reflexivity | exact Hin]].
  - apply IH; [exact H1' | exact H2 | intros x Hx; apply Hd; right; exact Hx].
Qed.

Lemma NoDup_map_cons (k : string) (l : list path) : NoDup l -> NoDup (map (cons k) l).
Proof.
  induction l as [|x l IH]; intro H; cbn; [constructor|].
  inversion H as [|? ? Hx H']; subst. constructor; [|apply IH; exact H'].
  intro Hin. apply in_map_iff in Hin as [y [E Hy]]. injection E as E. subst y. contradiction.
Qed.

Lemma resolve_NoDup pat : forall d,
  uniq d = true -> objects_only pat d = true -> NoDup (resolve_parts false pat d).
Proof.
  induction pat as [|part rest IH]; intros d Hu Ho.
  - cbn. constructor; [intros [] | constructor].
  - cbn [resolve_parts]. destruct d; cbn [children_py children]; try constructor.
    + cbn in Ho. discriminate.
    + induction kvs as [|[k c] t IHt]; cbn [flat_map]; [constructor|].
      rewrite uniq_cons in Hu. apply andb_true_iff in Hu as [Hu Ht]. apply andb_true_iff in Hu as [Hk Hc].
      assert (Hot : objects_only (part :: rest) (JObj t) = true).
      { cbn in Ho |- *. apply andb_true_iff in Ho as [_ Ho]. exact Ho. }
      apply NoDup_app_disj.
      * cbn [fst snd]. destruct (fnm k part) eqn:Hm; [|constructor].
        apply NoDup_map_cons. apply IH; [exact Hc|].
        eapply oo_child; [exact Ho | left; reflexivity | exact Hm].
      * apply IHt; assumption.
      * intros x Hx Hx2. cbn [fst snd] in Hx. destruct (fnm k part); [|destruct Hx].
        apply in_map_iff in Hx as [p' [<- _]].
        apply in_flat_map in Hx2 as [[k2 c2] [Hin2 Hp2]]. cbn [fst snd] in Hp2.
        destruct (fnm k2 part); [|destruct Hp2].
        apply in_map_iff in Hp2 as [p2 [E _]]. injection E as E _. subst k2.
        rewrite (key_in _ _ _ Hin2) in Hk. discriminate.
Qed.

(* ---------------------------------------------------------------- the repaired tree, parsed patterns *)

Definition step_p (f : json) (cfg : option json) (pat : pattern) : option json :=
  cfg0 <- cfg ;
  cfg1 <- fold_left (set_from f) (resolve_parts false pat f) (Some cfg0) ;
  fold_left del_at
    (filter (fun p => negb (mem_path p (resolve_parts false pat f))) (resolve_parts false pat cfg0))
    (Some cfg1).

Lemma mapM_fixed l : mapM (mk_pointer V_fixed) l = Some l.
Proof. induction l as [|x l IH]; cbn; [reflexivity|]. rewrite IH. reflexivity. Qed.

Lemma frag_step_fixed f cfg s pat :
  parse_pointer s = Some pat -> frag_step V_fixed f cfg s = step_p f cfg pat.
Proof.
  intro H. unfold frag_step, step_p, resolve. destruct cfg as [cfg0|]; [|reflexivity]. cbn [bind].
  rewrite H. cbn [bind v_strseq V_fixed]. rewrite !mapM_fixed. reflexivity.
Qed.

Lemma apply_fragment_fixed f : forall acl pats old,
  parse_acl acl = Some pats ->
  fold_left (frag_step V_fixed f) acl old = fold_left (step_p f) pats old.
Proof.
  unfold parse_acl. induction acl as [|s acl IH]; intros pats old H; cbn in H.
  - injection H as H. subst. reflexivity.
  - destruct (parse_pointer s) as [pat|] eqn:E; [|discriminate]. cbn in H.
    destruct (mapM parse_pointer acl) as [pats'|] eqn:E2; [|discriminate]. cbn in H.
    injection H as H. subst pats. cbn [fold_left]. rewrite (frag_step_fixed _ _ _ _ E). apply IH. reflexivity.
Qed.

Lemma mem_path_In p l : mem_path p l = true <-> In p l.
Proof.
  unfold mem_path, path_eqb. rewrite existsb_exists. split.
  - intros [x [Hin E]]. apply list_str_eqb_eq in E. subst. exact Hin.
  - intro H. exists p. split; [exact H | apply list_str_eqb_eq; reflexivity].
Qed.

Lemma pmatch_pinside_app pat : forall p s, pmatch pat p = true -> pinside pat (p ++ s) = true.
Proof.
  induction pat as [|part rest IH]; intros [|k p] s H; cbn in *; try discriminate; [reflexivity|].
  apply andb_true_iff in H as [H1 H2]. rewrite H1. apply IH. exact H2.
Qed.

Lemma forallb_filter_nil {A} (g : A -> bool) (l : list A) :
  filter g l = [] <-> forallb (fun x => negb (g x)) l = true.
Proof.
  induction l as [|x l IH]; cbn; [tauto|].
  destruct (g x); cbn; [split; intro H; discriminate | exact IH].
Qed.

Section Frag.
  Variable f : json.
  Variable pats : list pattern.
  Hypothesis Huf : uniq f = true.
  Hypothesis Hof : forall pat, In pat pats -> objects_only pat f = true.

  Definition Inv (cfg : json) : Prop :=
    uniq cfg = true /\ same_schema cfg f = true /\ (forall pat, In pat pats -> objects_only pat cfg = true).

  Definition Agree (cfg : json) (p : path) : Prop := get p cfg = get p f.
  Definition Pres (cfg cfg' : json) : Prop := forall p0, Agree cfg p0 -> Agree cfg' p0.
  Definition Out (cfg cfg' : json) : Prop :=
    forall q, inside pats q = false -> leafval (get q cfg') = leafval (get q cfg).
  Definition Far (p : path) (cfg cfg' : json) : Prop :=
    forall q, diverge p q = true -> get q cfg' = get q cfg.

  Lemma inside_of pat p s : In pat pats -> pmatch pat p = true -> inside pats (p ++ s) = true.
  Proof.
    intros Hin Hm. unfold inside. apply existsb_exists. exists pat. split; [exact Hin|].
    apply pmatch_pinside_app. exact Hm.
  Qed.

  Lemma put_op cfg pat p v :
    Inv cfg -> In pat pats -> pmatch pat p = true -> opath p f = true -> get p f = Some v -> p <> [] ->
    set_from f (Some cfg) p = Some (put p v cfg) /\ Inv (put p v cfg) /\ Pres cfg (put p v cfg) /\
    Agree (put p v cfg) p /\ Out cfg (put p v cfg) /\ Far p cfg (put p v cfg).
  Proof.
    intros [Hu [Hs Ho]] Hin Hm Hop Hg Hne.
    assert (Hok : okpath p cfg = true) by (eapply ss_okpath; eassumption).
    split; [|split; [|split; [|split; [|split]]]].
    - unfold set_from. cbn [bind]. rewrite get_ptr_get by exact Hop. rewrite Hg. cbn [bind].
      apply set_ensure_put; assumption.
    - split; [|split].
      + apply uniq_put; [exact Hu|]. exact (uniq_opath_get p f v Huf Hop Hg).
      + apply ss_put; assumption.
      + intros pat' Hin'. eapply oo_put; [apply Ho; exact Hin' | apply Hof; exact Hin' | exact Hop | exact Hg].
    - intros p0 Ha. unfold Agree in *.
      destruct (trichotomy p p0) as [Hd|[[s E]|[s [E Hs']]]].
      + rewrite get_put_diverge by exact Hd. exact Ha.
      + subst p0. rewrite get_put_below by exact Hok. rewrite get_app, Hg. reflexivity.
      + subst p. rewrite get_app in Hg. destruct (get p0 f) as [c|] eqn:Ec; [|discriminate].
        rewrite put_id; [exact Ha|]. rewrite get_app, Ha. exact Hg.
    - unfold Agree. rewrite get_put_same by exact Hok. symmetry. exact Hg.
    - intros q Hq. destruct (trichotomy p q) as [Hd|[[s E]|[s [E Hs']]]].
      + rewrite get_put_diverge by exact Hd. reflexivity.
      + subst q. rewrite (inside_of pat p s Hin Hm) in Hq. discriminate.
      + subst p. destruct (leaf_above_put q s v cfg Hs' Hok) as [H1 H2]. rewrite H1, H2. reflexivity.
    - intros q Hd. apply get_put_diverge. exact Hd.
  Qed.

  Lemma del_op cfg pat p :
    Inv cfg -> In pat pats -> pmatch pat p = true -> opath p cfg = true -> get p f = None -> p <> [] ->
    del_at (Some cfg) p = Some (del p cfg) /\ Inv (del p cfg) /\ Pres cfg (del p cfg) /\
    Agree (del p cfg) p /\ Out cfg (del p cfg) /\ Far p cfg (del p cfg).
  Proof.
    intros [Hu [Hs Ho]] Hin Hm Hop Hg Hne.
    split; [|split; [|split; [|split; [|split]]]].
    - unfold del_at. cbn [bind]. apply del_ptr_del. exact Hop.
    - split; [|split].
      + apply uniq_del. exact Hu.
      + apply ss_del. exact Hs.
      + intros pat' Hin'. apply oo_del. apply Ho. exact Hin'.
    - intros p0 Ha. unfold Agree in *.
      destruct (trichotomy p p0) as [Hd|[[s E]|[s [E Hs']]]].
      + rewrite get_del_diverge by exact Hd. exact Ha.
      + subst p0. rewrite get_del_below by assumption. rewrite get_app, Hg. reflexivity.
      + subst p. exfalso. destruct (opath_get _ _ Hop) as [x Hx].
        rewrite get_app in Hx, Hg. rewrite Ha in Hx. destruct (get p0 f); [|discriminate].
        rewrite Hx in Hg. discriminate.
    - unfold Agree. rewrite <- (app_nil_r p) at 1. rewrite get_del_below by assumption. symmetry. exact Hg.
    - intros q Hq. destruct (trichotomy p q) as [Hd|[[s E]|[s [E Hs']]]].
      + rewrite get_del_diverge by exact Hd. reflexivity.
      + subst q. rewrite (inside_of pat p s Hin Hm) in Hq. discriminate.
      + subst p. destruct (leaf_above_del q s cfg Hs' Hop) as [H1 H2]. rewrite H1, H2. reflexivity.
    - intros q Hd. apply get_del_diverge. exact Hd.
  Qed.

  Lemma Out_trans a b c : Out a b -> Out b c -> Out a c.
  Proof. intros H1 H2 q Hq. rewrite (H2 q Hq). apply H1. exact Hq. Qed.

  Lemma set_fold pat (Hin : In pat pats) (Hpat : pat <> []) : forall l cfg,
    Inv cfg -> (forall p, In p l -> pmatch pat p = true /\ opath p f = true) ->
    exists cfg1, fold_left (set_from f) l (Some cfg) = Some cfg1 /\ Inv cfg1 /\ Pres cfg cfg1 /\
                 (forall p, In p l -> Agree cfg1 p) /\ Out cfg cfg1 /\
                 (forall q, (forall p, In p l -> diverge p q = true) -> get q cfg1 = get q cfg).
  Proof.
    induction l as [|p l IH]; intros cfg HI Hl.
    - exists cfg. cbn. repeat split; try exact (proj1 HI); try apply HI; try (intros ? H; exact H).
      all: try (intros p []); try (intros q _; reflexivity).
    - destruct (Hl p (or_introl eq_refl)) as [Hm Hop].
      destruct (opath_get _ _ Hop) as [v Hg].
      assert (Hne : p <> []).
      { intro E. subst p. apply pmatch_length in Hm. destruct pat; [contradiction | discriminate]. }
      destruct (put_op cfg pat p v HI Hin Hm Hop Hg Hne) as [E [HI' [HP [HA [HO HF]]]]].
      destruct (IH (put p v cfg) HI' (fun p' H' => Hl p' (or_intror H'))) as [cfg1 [E1 [HI1 [HP1 [HA1 [HO1 HF1]]]]]].
      exists cfg1. cbn [fold_left]. rewrite E. split; [exact E1|]. split; [exact HI1|].
      split; [intros p0 H0; apply HP1; apply HP; exact H0|].
      split; [|split].
      + intros p' [<-|Hp']; [apply HP1; exact HA | apply HA1; exact Hp'].
      + eapply Out_trans; eassumption.
      + intros q Hq. rewrite HF1 by (intros p' Hp'; apply Hq; right; exact Hp').
        apply HF. apply Hq. left. reflexivity.
  Qed.

  Lemma del_fold pat (Hin : In pat pats) (Hpat : pat <> []) : forall l cfg,
    Inv cfg -> NoDup l ->
    (forall p, In p l -> pmatch pat p = true /\ opath p cfg = true /\ get p f = None) ->
    exists cfg2, fold_left del_at l (Some cfg) = Some cfg2 /\ Inv cfg2 /\ Pres cfg cfg2 /\
                 (forall p, In p l -> Agree cfg2 p) /\ Out cfg cfg2.
  Proof.
    induction l as [|p l IH]; intros cfg HI Hnd Hl.
    - exists cfg. cbn. repeat split; try exact (proj1 HI); try apply HI; try (intros ? H; exact H).
      all: try (intros p []); try (intros q _; reflexivity).
    - destruct (Hl p (or_introl eq_refl)) as [Hm [Hop Hg]].
      assert (Hne : p <> []).
      { intro E. subst p. apply pmatch_length in Hm. destruct pat; [contradiction | discriminate]. }
      destruct (del_op cfg pat p HI Hin Hm Hop Hg Hne) as [E [HI' [HP [HA [HO HF]]]]].
      inversion Hnd as [|? ? Hnotin Hnd']; subst.
      assert (Hl' : forall p', In p' l -> pmatch pat p' = true /\ opath p' (del p cfg) = true /\ get p' f = None).
      { intros p' Hp'. destruct (Hl p' (or_intror Hp')) as [Hm' [Hop' Hg']]. split; [exact Hm'|]. split; [|exact Hg'].
        destruct (opath_get _ _ Hop') as [x Hx].
        apply (oo_opath pat p' (del p cfg) x); [apply HI'; exact Hin | exact Hm' |].
        rewrite HF; [exact Hx|]. apply same_len_diverge.
        - rewrite (pmatch_length _ _ Hm), (pmatch_length _ _ Hm'). reflexivity.
        - intro E'. subst p'. contradiction. }
      destruct (IH (del p cfg) HI' Hnd' Hl') as [cfg2 [E2 [HI2 [HP2 [HA2 HO2]]]]].
      exists cfg2. cbn [fold_left]. rewrite E. split; [exact E2|]. split; [exact HI2|].
      split; [intros p0 H0; apply HP2; apply HP; exact H0|]. split.
      + intros p' [<-|Hp']; [apply HP2; exact HA | apply HA2; exact Hp'].
      + eapply Out_trans; eassumption.
  Qed.

  Lemma step_ok cfg pat :
    Inv cfg -> In pat pats -> pat <> [] ->
    exists cfg', step_p f (Some cfg) pat = Some cfg' /\ Inv cfg' /\ Pres cfg cfg' /\
                 (forall p, pmatch pat p = true -> Agree cfg' p) /\ Out cfg cfg'.
  Proof.
    intros HI Hin Hpat. unfold step_p. cbn [bind].
    set (newp := resolve_parts false pat f). set (oldp := resolve_parts false pat cfg).
    assert (Hnew : forall p, In p newp <-> pmatch pat p = true /\ opath p f = true)
      by (intro p; apply sel_spec; [exact Huf | apply Hof; exact Hin]).
    assert (Hold : forall p, In p oldp <-> pmatch pat p = true /\ opath p cfg = true)
      by (intro p; apply sel_spec; [apply HI | apply HI; exact Hin]).
    destruct (set_fold pat Hin Hpat newp cfg HI (fun p H => proj1 (Hnew p) H))
      as [cfg1 [E1 [HI1 [HP1 [HA1 [HO1 HF1]]]]]].
    rewrite E1. cbn [bind].
    set (todel := filter (fun p => negb (mem_path p newp)) oldp).
    assert (Htd : forall p, In p todel -> pmatch pat p = true /\ opath p cfg1 = true /\ get p f = None).
    { intros p Hp. apply filter_In in Hp as [Hp Hnm]. apply Hold in Hp as [Hm Hop].
      apply negb_true_iff in Hnm.
      assert (Hnin : ~ In p newp) by (intro H; apply mem_path_In in H; rewrite H in Hnm; discriminate).
      split; [exact Hm|]. split.
      - destruct (opath_get _ _ Hop) as [x Hx].
        apply (oo_opath pat p cfg1 x); [apply HI1; exact Hin | exact Hm |].
        rewrite HF1; [exact Hx|]. intros p' Hp'. apply same_len_diverge.
        + apply Hnew in Hp' as [Hm' _]. rewrite (pmatch_length _ _ Hm), (pmatch_length _ _ Hm'). reflexivity.
        + intro E. subst p'. contradiction.
      - destruct (get p f) as [x|] eqn:Ex; [|reflexivity]. exfalso. apply Hnin. apply Hnew. split; [exact Hm|].
        eapply oo_opath; [apply Hof; exact Hin | exact Hm | exact Ex]. }
    assert (Hnd : NoDup todel).
    { apply NoDup_filter. apply resolve_NoDup; [apply HI | apply HI; exact Hin]. }
    destruct (del_fold pat Hin Hpat todel cfg1 HI1 Hnd Htd) as [cfg2 [E2 [HI2 [HP2 [HA2 HO2]]]]].
    exists cfg2. split; [exact E2|]. split; [exact HI2|].
    split; [intros p0 H0; apply HP2; apply HP1; exact H0|]. split; [|eapply Out_trans; eassumption].
    intros p Hm. destruct (get p f) as [v|] eqn:Ev.
    - apply HP2. apply HA1. apply Hnew. split; [exact Hm|].
      eapply oo_opath; [apply Hof; exact Hin | exact Hm | exact Ev].
    - destruct (get p cfg) as [x|] eqn:Ex.
      + apply HA2. apply filter_In. split.
        * apply Hold. split; [exact Hm|]. eapply oo_opath; [apply HI; exact Hin | exact Hm | exact Ex].
        * apply negb_true_iff. destruct (mem_path p newp) eqn:Em; [|reflexivity].
          apply mem_path_In in Em. apply Hnew in Em as [_ Hop]. destruct (opath_get _ _ Hop) as [y Hy].
          rewrite Hy in Ev. discriminate.
      + apply HP2. apply HP1. unfold Agree. rewrite Ex, Ev. reflexivity.
  Qed.

  Lemma fold_ok : forall l cfg,
    Inv cfg -> (forall pat, In pat l -> In pat pats /\ pat <> []) ->
    exists r, fold_left (step_p f) l (Some cfg) = Some r /\ Inv r /\ Pres cfg r /\
              (forall pat p, In pat l -> pmatch pat p = true -> Agree r p) /\ Out cfg r.
  Proof.
    induction l as [|pat l IH]; intros cfg HI Hl.
    - exists cfg. cbn. split; [reflexivity|]. split; [exact HI|]. split; [intros ? H; exact H|].
      split; [intros ? ? []|]. intros q _. reflexivity.
    - destruct (Hl pat (or_introl eq_refl)) as [Hin Hne].
      destruct (step_ok cfg pat HI Hin Hne) as [cfg' [E [HI' [HP [HA HO]]]]].
      destruct (IH cfg' HI' (fun pat' H' => Hl pat' (or_intror H'))) as [r [Er [HIr [HPr [HAr HOr]]]]].
      exists r. cbn [fold_left]. rewrite E. split; [exact Er|]. split; [exact HIr|].
      split; [intros p0 H0; apply HPr; apply HP; exact H0|]. split; [|eapply Out_trans; eassumption].
      intros pat' p [<-|Hin'] Hm; [apply HPr; apply HA; exact Hm | eapply HAr; eassumption].
  Qed.

  (* merging again changes nothing *)
  Lemma set_fold_id r : same_schema r f = true -> forall l,
    (forall p, In p l -> opath p f = true /\ Agree r p /\ p <> []) ->
    fold_left (set_from f) l (Some r) = Some r.
  Proof.
    intros Hs. induction l as [|p l IH]; intro Hl; [reflexivity|].
    destruct (Hl p (or_introl eq_refl)) as [Hop [Ha Hne]].
    cbn [fold_left]. unfold set_from at 2. cbn [bind]. rewrite get_ptr_get by exact Hop.
    destruct (opath_get _ _ Hop) as [v Hg]. rewrite Hg. cbn [bind].
    unfold Agree in Ha. rewrite Hg in Ha.
    assert (Hok : okpath p r = true) by (eapply ss_okpath; eassumption).
    rewrite set_ensure_put by assumption. rewrite (put_id _ _ _ Ha). apply IH.
    intros p' Hp'. apply Hl. right. exact Hp'.
  Qed.

  Lemma step_id r pat :
    Inv r -> In pat pats -> pat <> [] -> (forall p, pmatch pat p = true -> Agree r p) ->
    step_p f (Some r) pat = Some r.
  Proof.
    intros HI Hin Hpat HA. unfold step_p. cbn [bind].
    assert (Hnew : forall p, In p (resolve_parts false pat f) <-> pmatch pat p = true /\ opath p f = true)
      by (intro p; apply sel_spec; [exact Huf | apply Hof; exact Hin]).
    assert (Hold : forall p, In p (resolve_parts false pat r) <-> pmatch pat p = true /\ opath p r = true)
      by (intro p; apply sel_spec; [apply HI | apply HI; exact Hin]).
    rewrite set_fold_id.
    - cbn [bind].
      assert (E : filter (fun p => negb (mem_path p (resolve_parts false pat f))) (resolve_parts false pat r) = []).
      { apply (proj2 (forallb_filter_nil _ _)). apply forallb_forall. intros p Hp. cbn beta. rewrite negb_involutive.
        apply mem_path_In. apply Hold in Hp as [Hm Hop]. apply Hnew. split; [exact Hm|].
        destruct (opath_get _ _ Hop) as [x Hx]. rewrite (HA p Hm) in Hx.
        eapply oo_opath; [apply Hof; exact Hin | exact Hm | exact Hx]. }
      rewrite E. reflexivity.
    - apply HI.
    - intros p Hp. apply Hnew in Hp as [Hm Hop]. split; [exact Hop|]. split; [apply HA; exact Hm|].
      intro E. subst p. apply pmatch_length in Hm. destruct pat; [contradiction | discriminate].
  Qed.

  Lemma fold_id r : forall l,
    Inv r -> (forall pat, In pat l -> In pat pats /\ pat <> [] /\ (forall p, pmatch pat p = true -> Agree r p)) ->
    fold_left (step_p f) l (Some r) = Some r.
  Proof.
    induction l as [|pat l IH]; intros HI Hl; [reflexivity|].
    destruct (Hl pat (or_introl eq_refl)) as [Hin [Hne HA]].
    cbn [fold_left]. rewrite step_id by assumption. apply IH; [exact HI|].
    intros pat' H'. apply Hl. right. exact H'.
  Qed.
End Frag.

(* ---------------------------------------------------------------- main statements *)

Lemma wf_C13_parts acl old f :
  wf_C13 acl old f = true ->
  uniq old = true /\ uniq f = true /\ same_schema old f = true /\
  (forall pat, In pat acl -> objects_only pat old = true /\ objects_only pat f = true /\ pat <> []).
Proof.
  unfold wf_C13, wf_frag. intro H.
  apply andb_true_iff in H as [H H4]. apply andb_true_iff in H as [H H3].
  apply andb_true_iff in H as [H1 H2]. apply andb_true_iff in H3 as [H3 H5].
  repeat split; try assumption.
  - rewrite forallb_forall in H5. apply H5 in H. apply andb_true_iff in H. tauto.
  - rewrite forallb_forall in H5. apply H5 in H. apply andb_true_iff in H. tauto.
  - rewrite forallb_forall in H4. apply H4 in H. intro E. subst pat. discriminate.
Qed.

Theorem fragment_main acl pats old f :
  parse_acl acl = Some pats -> wf_C13 pats old f = true ->
  exists r,
    apply_fragment V_fixed old f acl = Some r /\
    (forall p, restrict pats r p = restrict pats f p) /\
    (forall p, outside pats r p = outside pats old p) /\
    apply_fragment V_fixed r f acl = Some r /\ uniq r = true.
Proof.
  intros Hp Hwf. apply wf_C13_parts in Hwf as [Huo [Huf [Hss Hpat]]].
  assert (Hof : forall pat, In pat pats -> objects_only pat f = true) by (intros pat H; apply Hpat; exact H).
  assert (HI : Inv f pats old).
  { split; [exact Huo|]. split; [exact Hss|]. intros pat H. apply Hpat. exact H. }
  destruct (fold_ok f pats Huf Hof pats old HI) as [r [E [HIr [_ [HA HO]]]]].
  { intros pat H. split; [exact H | apply Hpat; exact H]. }
  exists r. unfold apply_fragment. rewrite !(apply_fragment_fixed f acl pats _ Hp).
  split; [exact E|]. split; [|split].
  - intro p. unfold restrict, selected. destruct (existsb (fun pat => pmatch pat p) pats) eqn:Es; [|reflexivity].
    apply existsb_exists in Es as [pat [Hin Hm]]. exact (HA pat p Hin Hm).
  - intro p. unfold outside. destruct (inside pats p) eqn:Ei; [reflexivity|]. apply HO. exact Ei.
  - split; [|apply HIr]. apply (fold_id f pats Huf Hof r pats HIr).
    intros pat H. split; [exact H|]. split; [apply Hpat; exact H|]. intros p Hm. exact (HA pat p H Hm).
Qed.

(* ---------------------------------------------------------------- jeq, subdoc, apply_acl_filters *)

Fixpoint jeq_list (x y : list json) : bool :=
  match x, y with
  | [], [] => true
  | a :: x', b :: y' => jeq a b && jeq_list x' y'
  | _, _ => false
  end.

Fixpoint jeq_members (x y : list (string * json)) : bool :=
  match x with
  | [] => true
  | (k, v) :: x' => match lookup k y with Some w => jeq v w | None => false end && jeq_members x' y
  end.

Lemma jeq_arr x : forall y, jeq (JArr x) (JArr y) = jeq_list x y.
Proof.
  induction x as [|a x IH]; intros [|b y]; try reflexivity.
Qed.

Lemma jeq_obj x y : jeq (JObj x) (JObj y) = Nat.eqb (List.length x) (List.length y) && jeq_members x y.
Proof.
  cbn [jeq]. f_equal. induction x as [|[k v] t IH]; [reflexivity|].
  cbn [jeq_members]. rewrite <- IH. reflexivity.
Qed.

Lemma jeq_members_intro x y :
  (forall k v, In (k, v) x -> lookup k y = Some v /\ jeq v v = true) -> jeq_members x y = true.
Proof.
  induction x as [|[k v] t IH]; intro H; [reflexivity|]. cbn.
  destruct (H k v (or_introl eq_refl)) as [E1 E2]. rewrite E1, E2. cbn. apply IH.
  intros k' v' Hin. apply H. right. exact Hin.
Qed.

Lemma jeq_members_elim x y :
  jeq_members x y = true -> forall k v, In (k, v) x -> exists w, lookup k y = Some w /\ jeq v w = true.
Proof.
  induction x as [|[k0 v0] t IH]; intros H k v Hin; [destruct Hin|]. cbn in H.
  apply andb_true_iff in H as [H1 H2]. destruct Hin as [E|Hin].
  - injection E as E1 E2. subst. destruct (lookup k y) as [w|]; [|discriminate]. exists w. split; [reflexivity | exact H1].
  - eapply IH; eassumption.
Qed.

Lemma uniq_arr_In l : uniq (JArr l) = true -> forall c, In c l -> uniq c = true.
Proof.
  induction l as [|x t IH]; intros Hu c Hin; [destruct Hin|].
  rewrite uniq_arr_cons in Hu. apply andb_true_iff in Hu as [H1 H2].
  destruct Hin as [<-|Hin]; [exact H1 | apply IH; assumption].
Qed.

Lemma jeq_refl : forall a, uniq a = true -> jeq a a = true.
Proof.
  apply (json_ind2 (fun a => uniq a = true -> jeq a a = true)).
  - reflexivity.
  - intros b _. cbn. apply Bool.eqb_reflx.
  - intros z _. cbn. apply Z.eqb_refl.
  - intros s _. cbn. apply String.eqb_refl.
  - intros l IH Hu. rewrite jeq_arr. induction l as [|x t IHt]; [reflexivity|].
    inversion IH as [|? ? Hx Ht]; subst. rewrite uniq_arr_cons in Hu. apply andb_true_iff in Hu as [H1 H2].
    cbn. rewrite (Hx H1). cbn. apply IHt; assumption.
  - intros kvs IH Hu. rewrite jeq_obj, Nat.eqb_refl. cbn. apply jeq_members_intro.
    intros k v Hin. split; [apply uniq_obj_lookup; assumption|].
    rewrite Forall_forall in IH. apply (IH (k, v) Hin). eapply uniq_obj_In; eassumption.
Qed.

Lemma indexed_In k c l : forall i, lookup k (indexed i l) = Some c -> In c l.
Proof.
  induction l as [|x t IH]; intros i H; cbn [indexed lookup] in H; [discriminate|].
  destruct (String.eqb k (dec i)); [injection H as H; left; exact H | right; eapply IH; exact H].
Qed.

Lemma uniq_child k d c : uniq d = true -> lookup k (children d) = Some c -> uniq c = true.
Proof.
  intros Hu H. destruct d; cbn in H; try discriminate.
  - eapply uniq_arr_In; [exact Hu | eapply indexed_In; exact H].
  - eapply uniq_obj_In; [exact Hu | apply lookup_In; exact H].
Qed.

Lemma uniq_get p : forall d v, uniq d = true -> get p d = Some v -> uniq v = true.
Proof.
  induction p as [|k p IH]; intros d v Hu H; cbn in H.
  - injection H as H. subst. exact Hu.
  - destruct (lookup k (children d)) as [c|] eqn:E; [|discriminate]. cbn in H.
    eapply IH; [eapply uniq_child; eassumption | exact H].
Qed.

Fixpoint sub_members (kvs : list (string * json)) (d : json) : bool :=
  match kvs with
  | [] => true
  | (k, v) :: t => match lookup k (children d) with Some c => subdoc v c | None => false end && sub_members t d
  end.

Lemma subdoc_obj kvs d : subdoc (JObj kvs) d = jeq (JObj kvs) d || sub_members kvs d.
Proof.
  cbn [subdoc]. f_equal. induction kvs as [|[k v] t IH]; [reflexivity|].
  cbn [sub_members]. rewrite <- IH. reflexivity.
Qed.

Lemma jeq_subdoc a b : jeq a b = true -> subdoc a b = true.
Proof. intro H. destruct a; cbn [subdoc]; rewrite H; reflexivity. Qed.

Lemma subdoc_refl d : uniq d = true -> subdoc d d = true.
Proof. intro H. apply jeq_subdoc. apply jeq_refl. exact H. Qed.

Lemma sub_members_iff kvs d :
  sub_members kvs d = true <->
  (forall k v, In (k, v) kvs -> exists c, lookup k (children d) = Some c /\ subdoc v c = true).
Proof.
  induction kvs as [|[k0 v0] t IH]; cbn [sub_members].
  - split; [intros _ k v [] | reflexivity].
  - rewrite andb_true_iff, IH. split.
    + intros [H1 H2] k v [E|Hin].
      * injection E as E1 E2. subst. destruct (lookup k (children d)) as [c|]; [|discriminate].
        exists c. split; [reflexivity | exact H1].
      * apply H2. exact Hin.
    + intro H. split.
      * destruct (H k0 v0 (or_introl eq_refl)) as [c [E1 E2]]. rewrite E1. exact E2.
      * intros k v Hin. apply H. right. exact Hin.
Qed.

Lemma subdoc_members kvs d :
  subdoc (JObj kvs) d = true ->
  forall k v, In (k, v) kvs -> exists c, lookup k (children d) = Some c /\ subdoc v c = true.
Proof.
  rewrite subdoc_obj. intro H. apply orb_true_iff in H as [H|H].
  - destruct d; try (cbn in H; discriminate). rewrite jeq_obj in H. apply andb_true_iff in H as [_ H].
    intros k v Hin. destruct (jeq_members_elim _ _ H k v Hin) as [w [E1 E2]].
    exists w. split; [exact E1 | apply jeq_subdoc; exact E2].
  - apply sub_members_iff. exact H.
Qed.

Lemma subdoc_intro kvs d :
  (forall k v, In (k, v) kvs -> exists c, lookup k (children d) = Some c /\ subdoc v c = true) ->
  subdoc (JObj kvs) d = true.
Proof. intro H. rewrite subdoc_obj. apply orb_true_iff. right. apply sub_members_iff. exact H. Qed.

Lemma subdoc_aset k c' kvs d c :
  subdoc (JObj kvs) d = true -> lookup k (children d) = Some c -> subdoc c' c = true ->
  subdoc (JObj (aset k c' kvs)) d = true.
Proof.
  intros Hs Hl Hc. apply subdoc_intro. intros k' v' Hin. apply In_aset in Hin. destruct Hin as [E|Hin].
  - injection E as E1 E2. subst. exists c. split; assumption.
  - eapply subdoc_members; eassumption.
Qed.

Lemma mk_add p : forall part res d r1 res',
  uniq d = true -> get p d = Some part -> subdoc res d = true ->
  mkpath p res = Some r1 -> add_at p part r1 = Some res' -> subdoc res' d = true.
Proof.
  induction p as [|k r IH]; intros part res d r1 res' Hu Hg Hs Hm Ha.
  - cbn in *. injection Hg as Hg. injection Hm as Hm. subst.
    destruct r1; try discriminate. injection Ha as Ha. subst. apply subdoc_refl. exact Hu.
  - cbn [mkpath] in Hm. destruct res; try discriminate.
    cbn [get] in Hg. destruct (lookup k (children d)) as [c|] eqn:Ec; [|discriminate]. cbn [bind] in Hg.
    set (sub := match lookup k kvs with Some c0 => c0 | None => JObj [] end) in Hm.
    destruct (mkpath r sub) as [s'|] eqn:Es; [|discriminate]. cbn [bind] in Hm. injection Hm as Hm. subst r1.
    assert (Hsub : subdoc sub c = true).
    { unfold sub. destruct (lookup k kvs) as [c0|] eqn:E0; [|rewrite subdoc_obj; apply orb_true_r].
      destruct (subdoc_members _ _ Hs k c0 (lookup_In _ _ _ E0)) as [c2 [E2 H2]].
      rewrite Ec in E2. injection E2 as E2. subst c2. exact H2. }
    assert (Huc : uniq c = true) by (eapply uniq_child; eassumption).
    destruct r as [|k2 r2].
    + cbn in Hg. injection Hg as Hg. subst part. cbn in Es. injection Es as Es. subst s'.
      cbn in Ha. injection Ha as Ha. subst res'. rewrite aset_aset.
      eapply subdoc_aset; [exact Hs | exact Ec | apply subdoc_refl; exact Huc].
    + change (add_at (k :: k2 :: r2) part ?x) with (upd_child k (add_at (k2 :: r2) part) x) in Ha.
      cbn [upd_child] in Ha. rewrite lookup_aset_same in Ha. cbn [bind] in Ha.
      destruct (add_at (k2 :: r2) part s') as [c'|] eqn:Ea; [|discriminate]. cbn [bind] in Ha.
      injection Ha as Ha. subst res'. rewrite aset_aset.
      eapply subdoc_aset; [exact Hs | exact Ec |].
      eapply (IH part sub c s' c'); eassumption.
Qed.

Lemma fold_none {A B} (g : option A -> B -> option A) (Hg : forall b, g None b = None) :
  forall l, fold_left g l None = None.
Proof. induction l as [|b l IH]; cbn; [reflexivity | rewrite Hg; exact IH]. Qed.

Lemma ptr_fold d (Hu : uniq d = true) : forall ps res r,
  (forall p, In p ps -> opath p d = true) -> subdoc res d = true ->
  fold_left (filter_ptr d) ps (Some res) = Some r -> subdoc r d = true.
Proof.
  induction ps as [|p ps IH]; intros res r Hps Hs H; cbn in H.
  - injection H as H. subst. exact Hs.
  - assert (Hop : opath p d = true) by (apply Hps; left; reflexivity).
    rewrite get_ptr_get in H by exact Hop. destruct (opath_get _ _ Hop) as [part Hg]. rewrite Hg in H. cbn [bind] in H.
    destruct (mkpath p res) as [r1|] eqn:Em; cbn [bind] in H.
    + destruct (add_at p part r1) as [res'|] eqn:Ea.
      * eapply (IH res' r); [intros p' Hp'; apply Hps; right; exact Hp' | | exact H].
        eapply mk_add; eassumption.
      * rewrite fold_none in H by reflexivity. discriminate.
    + rewrite fold_none in H by reflexivity. discriminate.
Qed.

Theorem filter_subdoc d : forall F r,
  wf_filter d F = true -> apply_acl_filters V_fixed d F = Some r -> subdoc r d = true.
Proof.
  unfold wf_filter, apply_acl_filters. intros F r Hwf. apply andb_true_iff in Hwf as [Hu HF].
  assert (Hgen : forall F res, forallb (fun s => let t := strip s in
                    is_empty t || match parse_pointer t with Some pat => objects_only pat d | None => true end) F = true ->
                 subdoc res d = true -> fold_left (filter_step V_fixed d) F (Some res) = Some r -> subdoc r d = true).
  { clear F HF. induction F as [|s F IH]; intros res HF Hs H; cbn [fold_left] in H.
    - injection H as H. subst. exact Hs.
    - cbn [forallb] in HF. apply andb_true_iff in HF as [H1 HF]. cbn zeta in H1.
      unfold filter_step at 2 in H. destruct (is_empty (strip s)) eqn:Ee.
      + eapply IH; eassumption.
      + cbn [orb bind] in H, H1. unfold resolve in H.
        destruct (parse_pointer (strip s)) as [pat|] eqn:Ep; cbn [bind] in H.
        * cbn [v_strseq V_fixed] in H. rewrite mapM_fixed in H. cbn [bind] in H.
          destruct (fold_left (filter_ptr d) (resolve_parts false pat d) (Some res)) as [res'|] eqn:Ef.
          -- eapply (IH res'); [exact HF | | exact H].
             eapply ptr_fold; [exact Hu | | exact Hs | exact Ef].
             intros p Hp. apply (sel_spec pat d p Hu H1) in Hp. apply Hp.
          -- rewrite fold_none in H; [discriminate|]. intro b. unfold filter_step. destruct (is_empty (strip b)); reflexivity.
        * rewrite fold_none in H; [discriminate|]. intro b. unfold filter_step. destruct (is_empty (strip b)); reflexivity. }
  intro H. eapply Hgen; [exact HF | | exact H]. rewrite subdoc_obj. apply orb_true_r.
Qed.

(* ---------------------------------------------------------------- the boolean predicate on the model's output *)

Definition frag_outcome (V : variant) (x : frag_in) : frag_out :=
  let '(old, f, acl) := x in
  let r := apply_fragment V old f acl in
  (r, match r with Some r' => apply_fragment V r' f acl | None => None end).

Lemma ojeq_refl_get p d : uniq d = true -> ojeq (get p d) (get p d) = true.
Proof.
  intro Hu. destruct (get p d) as [v|] eqn:E; [|reflexivity]. cbn. apply jeq_refl. eapply uniq_get; eassumption.
Qed.

Lemma ojeq_refl_leaf p d : uniq d = true -> ojeq (leafval (get p d)) (leafval (get p d)) = true.
Proof.
  intro Hu. destruct (get p d) as [v|] eqn:E; [|reflexivity]. cbn.
  destruct (is_container v); [reflexivity|]. cbn. apply jeq_refl. eapply uniq_get; eassumption.
Qed.

Theorem fragment_holds acl pats old f :
  parse_acl acl = Some pats -> wf_C13 pats old f = true ->
  P_C13_frag (old, f, acl) (frag_outcome V_fixed (old, f, acl)) = true.
Proof.
  intros Hp Hwf. destruct (fragment_main acl pats old f Hp Hwf) as [r [E [Hin [Hout [Hid Hur]]]]].
  destruct (wf_C13_parts _ _ _ Hwf) as [Huo [Huf _]].
  unfold frag_outcome. rewrite E, Hid. unfold P_C13_frag, P_noerr, P_inside, P_outside, P_idem.
  cbn [fst snd]. rewrite Hp. rewrite !andb_true_iff. repeat split.
  - apply orb_true_r.
  - apply orb_true_iff. right. unfold inside_ok. apply forallb_forall. intros p _. rewrite Hin.
    unfold restrict. destruct (selected pats p); [apply ojeq_refl_get; exact Huf | reflexivity].
  - apply orb_true_iff. right. unfold outside_ok. apply forallb_forall. intros p _. rewrite Hout.
    unfold outside. destruct (inside pats p); [reflexivity | apply ojeq_refl_leaf; exact Huo].
  - apply orb_true_iff. right. apply jeq_refl. exact Hur.
Qed.
