(* Proofs for the ACL clauses of C10, for every row matcher (the four parameters of Model/Acl.v's
   Section AclMatch): fatal mode raises iff a yielded path is refused, naming it; exclusive mode
   raises iff a line is deletable by two generators; otherwise the result is the subtree of passed
   paths. *)
From Coq Require Import List String Ascii Bool Arith Lia.
From Annet Require Import Base.Str Base.Tree Model.Pattern Model.Acl Model.Offside Model.GenProg Model.GenAcl.
From Annet Require Import Spec.P_C10 Proofs.GenProgProofs.
Import ListNotations.
Open Scope string_scope.
Open Scope list_scope.
Arguments Nat.ltb : simpl never.

(* ---------- paths of a tree: closed under prefixes, members ---------- *)

Lemma paths_closed : forall f pre, closed_from pre (paths pre f).
Proof.
  apply (forest_ind2 (fun t => forall pre, closed_from pre (paths pre (kids t)))
                     (fun f => forall pre, closed_from pre (paths pre f))).
  - intros k IH. exact IH.
  - intros pre. apply closed_nil.
  - intros r t k IHt IHk pre. rewrite paths_cons.
    change ((pre ++ [r]) :: paths (pre ++ [r]) (kids t) ++ paths pre k)
      with ((map (fun x => pre ++ [x]) [r] ++ paths (pre ++ [r]) (kids t)) ++ paths pre k).
    apply closed_app; [|apply IHk]. apply closed_block; [apply IHt|discriminate].
Qed.

Lemma paths_nonempty f q : In q (paths [] f) -> q <> [].
Proof.
  intros H. destruct (paths_closed f [] q H) as (s & Hs & E & _). cbn in E. congruence.
Qed.

Lemma in_paths_mem f q : wf f -> (In q (paths [] f) <-> q <> [] /\ mem_path q f = true).
Proof.
  intros W. split.
  - intros H. pose proof (paths_nonempty f q H) as N. split; [exact N|].
    rewrite mem_path_paths by assumption. apply existsb_exists. exists q. split; [exact H|apply prefixb_refl].
  - intros [N M]. rewrite mem_path_paths in M by assumption. apply existsb_exists in M as (p0 & Hin & Hp).
    destruct (prefixb_app _ _ Hp) as (s2 & E).
    destruct (paths_closed f [] p0 Hin) as (s & _ & E2 & C). cbn [app] in E2.
    apply (C q s2); [congruence|exact N].
Qed.

(* the paths of a program's tree are its yielded paths *)
Theorem paths_tree_of p q : In q (paths [] (tree_of p)) <-> In q (prog_paths p).
Proof.
  rewrite in_paths_mem by apply tree_of_wf. split.
  - intros [N M]. apply tree_of_paths; assumption.
  - intros H. assert (N : q <> []).
    { destruct (prog_paths_closed p q H) as (s & Hs & E & _). cbn in E. congruence. }
    split; [exact N|]. apply tree_of_paths; assumption.
Qed.

Lemma paths_cons0 row c l :
  paths [] ((row, c) :: l) = [row] :: map (cons row) (paths [] (kids c)) ++ paths [] l.
Proof. rewrite paths_cons. cbn [app]. rewrite paths_cons_prefix. reflexivity. Qed.

Section AclGeneric.
  Variable rmatch : string -> string -> option (list string).
  Variable rsrc : string -> string.
  Variable rrev : string -> string.
  Variable norm : string -> string.

  Let mrow := match_row_to_acl rmatch rsrc rrev norm.
  Let aacl := apply_acl rmatch rsrc rrev norm.
  Let status := path_status rmatch rsrc rrev norm.
  Let conflict := conflict_at rmatch rsrc rrev norm.

  (* ---------- unfolding ---------- *)

  Lemma app_nil rs fatal excl path : aacl rs fatal excl path [] = inl [].
  Proof. reflexivity. Qed.

  Lemma app_cons rs fatal excl path row c l :
    aacl rs fatal excl path ((row, c) :: l) =
    match mrow row rs excl with
    | MErr g => inr (ENotExclusive (path ++ [row]) g)
    | MNone => if fatal then inr (EUncovered (path ++ [row])) else aacl rs fatal excl path l
    | MSome m crs =>
      if drops m then aacl rs fatal excl path l
      else match aacl crs fatal excl (path ++ [row]) (kids c) with
           | inr e => inr e
           | inl c' => match aacl rs fatal excl path l with
                       | inr e => inr e
                       | inl r => inl ((row, T c') :: r)
                       end
           end
    end.
  Proof. destruct c as [k]. reflexivity. Qed.

  Lemma mrow_lenient_no_err row rs g : mrow row rs false <> MErr g.
  Proof.
    unfold mrow, match_row_to_acl. destruct (find_acl_matches _ _ _ _ row rs); [discriminate|].
    cbn. discriminate.
  Qed.

  (* the exclusive check only adds the error *)
  Lemma mrow_excl row rs : (exists g, mrow row rs true = MErr g) \/ mrow row rs true = mrow row rs false.
  Proof.
    unfold mrow, match_row_to_acl. destruct (find_acl_matches _ _ _ _ row rs) as [|f ms]; [right; reflexivity|].
    destruct (Nat.ltb 1 (List.length (excl_names (f :: ms)))); [left; eexists; reflexivity|right; reflexivity].
  Qed.

  Lemma status_cons rs row q :
    status rs (row :: q) =
    match mrow row rs false with
    | MSome m crs => if drops m then Dropped else status crs q
    | _ => Refused
    end.
  Proof. reflexivity. Qed.

  Lemma in_paths_cons row c l q :
    In q (paths [] ((row, c) :: l)) <->
    q = [row] \/ (exists q', q = row :: q' /\ In q' (paths [] (kids c))) \/ In q (paths [] l).
  Proof.
    rewrite paths_cons0. cbn [In]. rewrite in_app_iff, in_map_iff.
    split.
    - intros [E|[(q' & E & H)|H]]; [left; auto|right; left; eauto|right; right; exact H].
    - intros [E|[(q' & E & H)|H]]; [left; auto|right; left; eauto|right; right; exact H].
  Qed.

  (* ---------- fatal mode (the generator's own ACL) ---------- *)

  (* the first refused path in document order *)
  Definition first_refused (rs : aset) (f : forest) (q : list string) : Prop :=
    exists l1 l2, paths [] f = l1 ++ q :: l2 /\ status rs q = Refused /\
                  Forall (fun x => status rs x <> Refused) l1.

  Lemma first_refused_in rs f q : first_refused rs f q -> In q (paths [] f) /\ status rs q = Refused.
  Proof. intros (l1 & l2 & E & S & _). split; [rewrite E; apply in_app_iff; right; now left|exact S]. Qed.

  Lemma forall_status_map rs row m crs (l : list (list string)) (P : pstat -> Prop) :
    mrow row rs false = MSome m crs -> drops m = false ->
    Forall (fun x => P (status crs x)) l -> Forall (fun x => P (status rs x)) (map (cons row) l).
  Proof.
    intros E D F. induction F as [|x l Hx _ IH]; cbn [map]; constructor; [|exact IH].
    rewrite status_cons, E, D. exact Hx.
  Qed.

  Lemma forall_status_const rs row (l : list (list string)) (P : pstat -> Prop) s :
    (forall q, status rs (row :: q) = s) -> P s -> Forall (fun x => P (status rs x)) (map (cons row) l).
  Proof.
    intros E Hs. induction l as [|x l IH]; cbn [map]; constructor; [rewrite E; exact Hs|exact IH].
  Qed.

  (* what apply_acl(fatal_acl=True) does, for every tree: it raises iff some path is refused, and
     then names the first refused path; otherwise it returns exactly the passed paths *)
  Theorem fatal_char : forall f rs path,
    match aacl rs true false path f with
    | inr e => exists q, e = EUncovered (path ++ q) /\ first_refused rs f q
    | inl g => Forall (fun x => status rs x <> Refused) (paths [] f) /\
               aacl rs false false path f = inl g
    end.
  Proof.
    apply (forest_ind2
      (fun t => forall rs path,
         match aacl rs true false path (kids t) with
         | inr e => exists q, e = EUncovered (path ++ q) /\ first_refused rs (kids t) q
         | inl g => Forall (fun x => status rs x <> Refused) (paths [] (kids t)) /\
                    aacl rs false false path (kids t) = inl g
         end)
      (fun f => forall rs path,
         match aacl rs true false path f with
         | inr e => exists q, e = EUncovered (path ++ q) /\ first_refused rs f q
         | inl g => Forall (fun x => status rs x <> Refused) (paths [] f) /\
                    aacl rs false false path f = inl g
         end)).
    - intros k IH. exact IH.
    - intros rs path. rewrite app_nil. split; [constructor|reflexivity].
    - intros row c l IHc IHl rs path. rewrite !app_cons.
      unfold first_refused. rewrite (paths_cons0 row c l).
      destruct (mrow row rs false) as [|g|m crs] eqn:E.
      + (* no rule matches: refused *)
        exists [row]. split; [reflexivity|]. exists [], (map (cons row) (paths [] (kids c)) ++ paths [] l).
        split; [reflexivity|]. split; [|constructor]. rewrite status_cons, E. reflexivity.
      + exfalso. exact (mrow_lenient_no_err _ _ _ E).
      + destruct (drops m) eqn:D.
        * (* matched, discarded with everything below it *)
          specialize (IHl rs path). destruct (aacl rs true false path l) as [g|e].
          -- destruct IHl as [F EL]. split; [|exact EL].
             constructor; [rewrite status_cons, E, D; discriminate|]. apply Forall_app. split; [|exact F].
             apply (forall_status_const rs row _ (fun s => s <> Refused) Dropped); [|discriminate].
             intros q. rewrite status_cons, E, D. reflexivity.
          -- destruct IHl as (q & Ee & l1 & l2 & EP & S & F). exists q. split; [exact Ee|].
             exists ([row] :: map (cons row) (paths [] (kids c)) ++ l1), l2.
             split; [rewrite EP; cbn [app]; rewrite <- app_assoc; reflexivity|]. split; [exact S|].
             constructor; [rewrite status_cons, E, D; discriminate|]. apply Forall_app. split; [|exact F].
             apply (forall_status_const rs row _ (fun s => s <> Refused) Dropped); [|discriminate].
             intros q'. rewrite status_cons, E, D. reflexivity.
        * specialize (IHc crs (path ++ [row])).
          destruct (aacl crs true false (path ++ [row]) (kids c)) as [c'|e].
          -- destruct IHc as [Fc Ec]. rewrite Ec.
             specialize (IHl rs path). destruct (aacl rs true false path l) as [g|e].
             ++ destruct IHl as [F EL]. rewrite EL. split; [|reflexivity].
                constructor; [rewrite status_cons, E, D; cbn; discriminate|]. apply Forall_app. split; [|exact F].
                apply (forall_status_map rs row m crs _ (fun s => s <> Refused) E D). exact Fc.
             ++ destruct IHl as (q & Ee & l1 & l2 & EP & S & F). exists q. split; [exact Ee|].
                exists ([row] :: map (cons row) (paths [] (kids c)) ++ l1), l2.
                split; [rewrite EP; cbn [app]; rewrite <- app_assoc; reflexivity|]. split; [exact S|].
                constructor; [rewrite status_cons, E, D; cbn; discriminate|]. apply Forall_app. split; [|exact F].
                apply (forall_status_map rs row m crs _ (fun s => s <> Refused) E D). exact Fc.
          -- destruct IHc as (q & Ee & l1 & l2 & EP & S & F). exists (row :: q).
             split; [rewrite Ee, <- app_assoc; reflexivity|].
             exists ([row] :: map (cons row) l1), (map (cons row) l2 ++ paths [] l).
             split; [rewrite EP, map_app; cbn [map app]; rewrite <- app_assoc; reflexivity|].
             split; [rewrite status_cons, E, D; exact S|].
             constructor; [rewrite status_cons, E, D; cbn; discriminate|].
             apply (forall_status_map rs row m crs _ (fun s => s <> Refused) E D). exact F.
  Qed.

  (* lenient, non-exclusive mode never raises and keeps exactly the passed paths *)
  Theorem lenient_char : forall f rs path,
    exists g, aacl rs false false path f = inl g /\
              forall q, In q (paths [] g) <-> In q (paths [] f) /\ status rs q = Passed.
  Proof.
    apply (forest_ind2
      (fun t => forall rs path, exists g, aacl rs false false path (kids t) = inl g /\
                 forall q, In q (paths [] g) <-> In q (paths [] (kids t)) /\ status rs q = Passed)
      (fun f => forall rs path, exists g, aacl rs false false path f = inl g /\
                 forall q, In q (paths [] g) <-> In q (paths [] f) /\ status rs q = Passed)).
    - intros k IH. exact IH.
    - intros rs path. exists []. split; [reflexivity|]. intros q. cbn. tauto.
    - intros row c l IHc IHl rs path. rewrite app_cons.
      destruct (IHl rs path) as (gl & El & Hl).
      assert (Skip : forall s, s <> Passed -> (forall q', status rs (row :: q') = s) ->
                exists g, aacl rs false false path l = inl g /\
                  forall q, In q (paths [] g) <-> In q (paths [] ((row, c) :: l)) /\ status rs q = Passed).
      { intros s Hs Es. exists gl. split; [exact El|]. intros q. rewrite Hl, in_paths_cons. split.
        - intros [H S]. split; [right; right; exact H|exact S].
        - intros [[->|[(q' & -> & _)|H]] S]; [rewrite Es in S; congruence|rewrite Es in S; congruence|auto]. }
      destruct (mrow row rs false) as [|g|m crs] eqn:E.
      + apply (Skip Refused); [discriminate|]. intros q'. rewrite status_cons, E. reflexivity.
      + exfalso. exact (mrow_lenient_no_err _ _ _ E).
      + destruct (drops m) eqn:D.
        * apply (Skip Dropped); [discriminate|]. intros q'. rewrite status_cons, E, D. reflexivity.
        * destruct (IHc crs (path ++ [row])) as (gc & Ec & Hc). rewrite Ec, El.
          exists ((row, T gc) :: gl). split; [reflexivity|]. intros q. rewrite !in_paths_cons. cbn [kids].
          split.
          -- intros [->|[(q' & -> & H)|H]].
             ++ split; [left; reflexivity|]. rewrite status_cons, E, D. reflexivity.
             ++ apply Hc in H as [H S]. split; [right; left; eauto|]. rewrite status_cons, E, D. exact S.
             ++ apply Hl in H as [H S]. split; [right; right; exact H|exact S].
          -- intros [[->|[(q' & -> & H)|H]] S].
             ++ left. reflexivity.
             ++ right. left. exists q'. split; [reflexivity|]. apply Hc. split; [exact H|].
                rewrite status_cons, E, D in S. exact S.
             ++ right. right. apply Hl. auto.
  Qed.

  (* when every path is passed nothing is lost *)
  Theorem lenient_all_passed : forall f rs path,
    Forall (fun x => status rs x = Passed) (paths [] f) -> aacl rs false false path f = inl f.
  Proof.
    apply (forest_ind2
      (fun t => forall rs path, Forall (fun x => status rs x = Passed) (paths [] (kids t)) ->
                 aacl rs false false path (kids t) = inl (kids t))
      (fun f => forall rs path, Forall (fun x => status rs x = Passed) (paths [] f) ->
                 aacl rs false false path f = inl f)).
    - intros k IH. exact IH.
    - reflexivity.
    - intros row c l IHc IHl rs path F. rewrite paths_cons0 in F. inversion F as [|? ? S F']; subst. apply Forall_app in F' as [Fc Fl].
      rewrite app_cons. rewrite status_cons in S.
      destruct (mrow row rs false) as [|g|m crs] eqn:E; try discriminate.
      destruct (drops m) eqn:D; [discriminate|].
      rewrite (IHc crs (path ++ [row])), (IHl rs path Fl); [destruct c; reflexivity|].
      apply Forall_forall. intros q Hq. rewrite Forall_forall in Fc.
      specialize (Fc (row :: q) (in_map (cons row) _ _ Hq)). rewrite status_cons, E, D in Fc. exact Fc.
  Qed.

  (* ---------- exclusive mode (the merged, generator-tagged ACL) ---------- *)

  Lemma conflict_single rs row : conflict rs [row] = match mrow row rs true with MErr g => Some g | _ => None end.
  Proof. reflexivity. Qed.

  Lemma conflict_cons rs row a q :
    conflict rs (row :: a :: q) =
    match mrow row rs false with
    | MSome m crs => if drops m then None else conflict crs (a :: q)
    | _ => None
    end.
  Proof. reflexivity. Qed.

  Lemma forall_conflict_map rs row m crs (l : list (list string)) :
    mrow row rs false = MSome m crs -> drops m = false ->
    (forall q, In q l -> q <> []) ->
    Forall (fun x => conflict crs x = None) l -> Forall (fun x => conflict rs x = None) (map (cons row) l).
  Proof.
    intros E D N F. induction F as [|x l Hx _ IH]; cbn [map]; constructor.
    - destruct x as [|a x]; [exfalso; apply (N []); [now left|reflexivity]|].
      rewrite conflict_cons, E, D. exact Hx.
    - apply IH. intros q Hq. apply N. now right.
  Qed.

  Lemma forall_conflict_skip rs row (l : list (list string)) :
    (forall m crs, mrow row rs false = MSome m crs -> drops m = true) ->
    (forall q, In q l -> q <> []) ->
    Forall (fun x => conflict rs x = None) (map (cons row) l).
  Proof.
    intros H N. induction l as [|x l IH]; cbn [map]; constructor.
    - destruct x as [|a x]; [exfalso; apply (N []); [now left|reflexivity]|].
      rewrite conflict_cons. destruct (mrow row rs false) as [|g|m crs] eqn:E; try reflexivity.
      rewrite (H m crs eq_refl). reflexivity.
    - apply IH. intros q Hq. apply N. now right.
  Qed.

  (* apply_acl(exclusive=True) raises iff some line is deletable by two generators (conflict_at),
     naming such a line and those generators; otherwise it is the lenient filter *)
  Theorem exclusive_char : forall f rs path,
    match aacl rs false true path f with
    | inr e => exists q g, e = ENotExclusive (path ++ q) g /\ In q (paths [] f) /\ conflict rs q = Some g
    | inl r => Forall (fun x => conflict rs x = None) (paths [] f) /\ aacl rs false false path f = inl r
    end.
  Proof.
    apply (forest_ind2
      (fun t => forall rs path,
         match aacl rs false true path (kids t) with
         | inr e => exists q g, e = ENotExclusive (path ++ q) g /\ In q (paths [] (kids t)) /\ conflict rs q = Some g
         | inl r => Forall (fun x => conflict rs x = None) (paths [] (kids t)) /\
                    aacl rs false false path (kids t) = inl r
         end)
      (fun f => forall rs path,
         match aacl rs false true path f with
         | inr e => exists q g, e = ENotExclusive (path ++ q) g /\ In q (paths [] f) /\ conflict rs q = Some g
         | inl r => Forall (fun x => conflict rs x = None) (paths [] f) /\ aacl rs false false path f = inl r
         end)).
    - intros k IH. exact IH.
    - intros rs path. rewrite app_nil. split; [constructor|reflexivity].
    - intros row c l IHc IHl rs path. rewrite !app_cons.
      assert (NE : forall q, In q (paths [] (kids c)) -> q <> []) by (intros q; apply paths_nonempty).
      destruct (mrow_excl row rs) as [(g & Eg)|Eq].
      + (* two generators may delete this very line *)
        rewrite Eg. exists [row], g. split; [reflexivity|]. split; [apply in_paths_cons; left; reflexivity|].
        rewrite conflict_single, Eg. reflexivity.
      + rewrite Eq. rewrite (paths_cons0 row c l).
        assert (C1 : conflict rs [row] = None).
        { rewrite conflict_single, Eq. destruct (mrow row rs false) as [|g|m crs] eqn:E; try reflexivity.
          exfalso. exact (mrow_lenient_no_err _ _ _ E). }
        destruct (mrow row rs false) as [|g|m crs] eqn:E.
        * specialize (IHl rs path). destruct (aacl rs false true path l) as [r|e].
          -- destruct IHl as [F EL]. split; [|exact EL]. constructor; [exact C1|]. apply Forall_app. split; [|exact F].
             apply forall_conflict_skip; [|exact NE]. intros m crs Em. rewrite E in Em. discriminate.
          -- destruct IHl as (q & g & Ee & Hin & Cq). exists q, g. split; [exact Ee|]. split; [|exact Cq].
             right. apply in_app_iff. right. exact Hin.
        * exfalso. exact (mrow_lenient_no_err _ _ _ E).
        * destruct (drops m) eqn:D.
          -- specialize (IHl rs path). destruct (aacl rs false true path l) as [r|e].
             ++ destruct IHl as [F EL]. split; [|exact EL]. constructor; [exact C1|]. apply Forall_app. split; [|exact F].
                apply forall_conflict_skip; [|exact NE]. intros m' crs' Em. rewrite E in Em. injection Em as <- _. exact D.
             ++ destruct IHl as (q & g & Ee & Hin & Cq). exists q, g. split; [exact Ee|]. split; [|exact Cq].
                right. apply in_app_iff. right. exact Hin.
          -- specialize (IHc crs (path ++ [row])).
             destruct (aacl crs false true (path ++ [row]) (kids c)) as [c'|e].
             ++ destruct IHc as [Fc Ec]. rewrite Ec.
                specialize (IHl rs path). destruct (aacl rs false true path l) as [r|e].
                ** destruct IHl as [F EL]. rewrite EL. split; [|reflexivity].
                   constructor; [exact C1|]. apply Forall_app. split; [|exact F].
                   apply (forall_conflict_map rs row m crs _ E D NE Fc).
                ** destruct IHl as (q & g & Ee & Hin & Cq). exists q, g. split; [exact Ee|]. split; [|exact Cq].
                   right. apply in_app_iff. right. exact Hin.
             ++ destruct IHc as (q & g & Ee & Hin & Cq). exists (row :: q), g.
                split; [rewrite Ee, <- app_assoc; reflexivity|].
                split; [right; apply in_app_iff; left; apply in_map; exact Hin|].
                destruct q as [|a q]; [exfalso; exact (NE [] Hin eq_refl)|].
                rewrite conflict_cons, E, D. exact Cq.
  Qed.
End AclGeneric.

(* ---------- who may delete a line: the generators named by AclNotExclusiveError ---------- *)

Lemma NoDup_app_single {A} (l : list A) x : NoDup l -> ~ In x l -> NoDup (l ++ [x]).
Proof.
  induction 1 as [|y l Hy N IH]; intros Hx; cbn.
  - constructor; [intros []|constructor].
  - constructor.
    + rewrite in_app_iff. intros [H|[H|[]]]; [exact (Hy H)|]. subst. apply Hx. now left.
    + apply IH. intro H. apply Hx. now right.
Qed.

  Lemma excl_step_false acc m b n :
    In (n, false) (excl_step acc (m, b)) <-> In (n, false) acc \/ (n = m /\ b = false).
  Proof.
    unfold excl_step. cbn [fst snd].
    destruct (existsb (fun p : string * bool => String.eqb (fst p) m) acc) eqn:Ex.
    - rewrite in_map_iff. split.
      + intros ([k v] & E & Hin). cbn [fst snd] in E. destruct (String.eqb_spec k m) as [->|N].
        * injection E as <- Ev. apply andb_false_iff in Ev as [-> | ->]; [left; exact Hin|right; auto].
        * injection E as <- <-. left. exact Hin.
      + intros [Hin|[-> ->]].
        * exists (n, false). split; [|exact Hin]. cbn [fst snd]. destruct (String.eqb n m); reflexivity.
        * apply existsb_exists in Ex as ([k v] & Hin & E). cbn [fst] in E. apply String.eqb_eq in E. subst k.
          exists (m, v). split; [|exact Hin]. cbn [fst snd]. rewrite String.eqb_refl, andb_false_r. reflexivity.
    - rewrite in_app_iff. cbn [In]. split.
      + intros [H|[E|[]]]; [left; exact H|]. injection E as <- <-. right. auto.
      + intros [H|[-> ->]]; [left; exact H|right; left; reflexivity].
  Qed.

  Lemma excl_step_keys acc m b :
    map fst (excl_step acc (m, b)) = if existsb (fun p : string * bool => String.eqb (fst p) m) acc
                                     then map fst acc else map fst acc ++ [m].
  Proof.
    unfold excl_step. cbn [fst snd]. destruct (existsb _ acc).
    - rewrite map_map. apply map_ext. intros [k v]. cbn [fst snd]. destruct (String.eqb k m); reflexivity.
    - rewrite map_app. reflexivity.
  Qed.

  Lemma excl_step_nodup acc x : NoDup (map fst acc) -> NoDup (map fst (excl_step acc x)).
  Proof.
    destruct x as [m b]. intros N. rewrite excl_step_keys.
    destruct (existsb (fun p : string * bool => String.eqb (fst p) m) acc) eqn:Ex; [exact N|].
    apply NoDup_app_single; [exact N|].
    intros Hin. apply in_map_iff in Hin as ([k v] & E & Hin). cbn in E. subst k.
    assert (existsb (fun p : string * bool => String.eqb (fst p) m) acc = true).
    { apply existsb_exists. exists (m, v). split; [exact Hin|apply String.eqb_refl]. }
    congruence.
  Qed.

  Lemma fold_excl L : forall acc, NoDup (map fst acc) ->
    NoDup (map fst (fold_left excl_step L acc)) /\
    forall n, In (n, false) (fold_left excl_step L acc) <-> In (n, false) acc \/ In (n, false) L.
  Proof.
    induction L as [|[m b] L IH]; intros acc N.
    - split; [exact N|]. intros n. cbn. tauto.
    - cbn [fold_left]. destruct (IH _ (excl_step_nodup acc (m, b) N)) as [N' H]. split; [exact N'|].
      intros n. rewrite H, excl_step_false. cbn [In]. split.
      + intros [[A|[-> ->]]|B]; auto.
      + intros [A|[E|B]]; auto. injection E as <- <-. left. right. auto.
  Qed.

  (* generator names paired with their cant_delete flags over all rules matching the row *)
  Definition name_flags (ms : list (amatch)) : list (string * bool) :=
    flat_map (fun m => combine (ar_gens (am_rule m)) (ar_cd (am_rule m))) ms.

  (* excl_names = the generators having a matching rule whose cant_delete flag for them is off *)
  Theorem excl_names_spec ms n : In n (excl_names ms) <-> In (n, false) (name_flags ms).
  Proof.
    unfold excl_names. fold (name_flags ms).
    destruct (fold_excl (name_flags ms) [] (NoDup_nil _)) as [_ H].
    rewrite in_map_iff. split.
    - intros ([k v] & E & Hin). cbn in E. subst k. apply filter_In in Hin as [Hin Hv]. cbn in Hv.
      apply negb_true_iff in Hv. subst v. apply H in Hin as [[]|Hin]. exact Hin.
    - intros Hin. exists (n, false). split; [reflexivity|]. apply filter_In. split; [|reflexivity].
      apply H. right. exact Hin.
  Qed.

  Lemma NoDup_map_filter {A B} (f : A -> B) (p : A -> bool) l : NoDup (map f l) -> NoDup (map f (filter p l)).
  Proof.
    induction l as [|x l IH]; intros N; [constructor|]. cbn [map] in N. inversion N as [|? ? Hx N']; subst.
    cbn [filter]. destruct (p x); [|apply IH; exact N']. cbn [map]. constructor; [|apply IH; exact N'].
    intros Hin. apply Hx. apply in_map_iff in Hin as (y & E & Hy). apply filter_In in Hy as [Hy _].
    apply in_map_iff. exists y. auto.
  Qed.

  Theorem excl_names_nodup ms : NoDup (excl_names ms).
  Proof.
    unfold excl_names. apply NoDup_map_filter.
    apply (fold_excl (name_flags ms) [] (NoDup_nil _)).
  Qed.

Section ExclNames.
  Variable rmatch : string -> string -> option (list string).
  Variable rsrc : string -> string.
  Variable rrev : string -> string.
  Variable norm : string -> string.

  (* match_row_to_acl(exclusive=True) raises exactly when at least two different generators may
     delete the row, and names them *)
  Theorem mrow_err_iff row rs g :
    match_row_to_acl rmatch rsrc rrev norm row rs true = MErr g <->
    g = excl_names (find_acl_matches rmatch rsrc rrev norm row rs) /\ 2 <= List.length g.
  Proof.
    unfold match_row_to_acl. destruct (find_acl_matches rmatch rsrc rrev norm row rs) as [|f ms] eqn:E.
    - split; [discriminate|]. intros [-> H]. cbn in H. lia.
    - destruct (Nat.ltb 1 (List.length (excl_names (f :: ms)))) eqn:L.
      + apply Nat.ltb_lt in L. split.
        * intros H. injection H as <-. split; [reflexivity|lia].
        * intros [-> _]. reflexivity.
      + apply Nat.ltb_ge in L. split; [discriminate|]. intros [-> H]. lia.
  Qed.
End ExclNames.

(* ---------- the generator runner and _old_new_per_device ---------- *)

Section Runner.
  Variable rmatch : string -> string -> option (list string).
  Variable rsrc : string -> string.
  Variable rrev : string -> string.
  Variable norm : string -> string.

  Let A : aset -> bool -> bool -> forest -> forest + aerr :=
    fun rs fatal excl f => apply_acl rmatch rsrc rrev norm rs fatal excl [] f.
  Let status := path_status rmatch rsrc rrev norm.
  Let conflict := conflict_at rmatch rsrc rrev norm.

  Lemma run_gen_wf g rs :
    wf_prog (g_prog g) = true -> compile_acl (g_acl g) = Some rs ->
    run_gen_with A g = acl_step A rs (tree_of (g_prog g)).
  Proof. intros W C. unfold run_gen_with. rewrite (emit_parse _ W), C. reflexivity. Qed.

  Lemma in_tree_paths p (P : list string -> Prop) :
    (exists q, In q (paths [] (tree_of p)) /\ P q) <-> (exists q, In q (prog_paths p) /\ P q).
  Proof. split; intros (q & H & HP); exists q; (split; [apply paths_tree_of; exact H|exact HP]). Qed.

  (* GeneratorError from the ACL step iff some yielded path is refused by the generator's own ACL *)
  Theorem error_iff g rs :
    wf_prog (g_prog g) = true -> compile_acl (g_acl g) = Some rs ->
    ((exists msg, run_gen_with A g = GAcl msg) <->
     (exists q, In q (prog_paths (g_prog g)) /\ status rs q = Refused)).
  Proof.
    intros W C. rewrite (run_gen_wf g rs W C). rewrite <- in_tree_paths. unfold acl_step, A.
    pose proof (fatal_char rmatch rsrc rrev norm (tree_of (g_prog g)) rs []) as F.
    destruct (apply_acl rmatch rsrc rrev norm rs true false [] (tree_of (g_prog g))) as [f'|e].
    - destruct F as [F _]. split; [intros (msg & E); discriminate|].
      intros (q & Hin & S). rewrite Forall_forall in F. exfalso. exact (F q Hin S).
    - destruct F as (q & -> & FR). apply first_refused_in in FR as [Hin S]. split; [|intros _; eexists; reflexivity].
      intros _. exists q. auto.
  Qed.

  (* ... and the error names a refused yielded path: the first one in document order *)
  Theorem error_names g rs msg :
    wf_prog (g_prog g) = true -> compile_acl (g_acl g) = Some rs ->
    run_gen_with A g = GAcl msg ->
    exists q, msg = acl_err_text q /\ In q (prog_paths (g_prog g)) /\ status rs q = Refused /\
              first_refused rmatch rsrc rrev norm rs (tree_of (g_prog g)) q.
  Proof.
    intros W C. rewrite (run_gen_wf g rs W C). unfold acl_step, A.
    pose proof (fatal_char rmatch rsrc rrev norm (tree_of (g_prog g)) rs []) as F.
    destruct (apply_acl rmatch rsrc rrev norm rs true false [] (tree_of (g_prog g))) as [f'|e]; [discriminate|].
    destruct F as (q & -> & FR). intros E. injection E as <-. exists q. cbn [app].
    destruct (first_refused_in _ _ _ _ _ _ _ FR) as [Hin S].
    split; [reflexivity|]. split; [apply paths_tree_of; exact Hin|]. split; [exact S|exact FR].
  Qed.

  (* no error: the result holds exactly the yielded paths the ACL passes *)
  Theorem result_paths g rs f :
    wf_prog (g_prog g) = true -> compile_acl (g_acl g) = Some rs ->
    run_gen_with A g = GOk f ->
    forall q, In q (paths [] f) <-> In q (prog_paths (g_prog g)) /\ status rs q = Passed.
  Proof.
    intros W C. rewrite (run_gen_wf g rs W C). unfold acl_step, A.
    pose proof (fatal_char rmatch rsrc rrev norm (tree_of (g_prog g)) rs []) as F.
    destruct (apply_acl rmatch rsrc rrev norm rs true false [] (tree_of (g_prog g))) as [f'|e].
    - destruct F as [_ EL]. intros E. injection E as <-.
      destruct (lenient_char rmatch rsrc rrev norm (tree_of (g_prog g)) rs []) as (g0 & E0 & H0).
      rewrite EL in E0. injection E0 as <-. intros q. rewrite H0, paths_tree_of. reflexivity.
    - destruct F as (q & -> & _). discriminate.
  Qed.

  (* every yielded path passed: the result is the program's tree *)
  Theorem all_passed_ok g rs :
    wf_prog (g_prog g) = true -> compile_acl (g_acl g) = Some rs ->
    (forall q, In q (prog_paths (g_prog g)) -> status rs q = Passed) ->
    run_gen_with A g = GOk (tree_of (g_prog g)).
  Proof.
    intros W C H. rewrite (run_gen_wf g rs W C). unfold acl_step, A.
    assert (FP : Forall (fun x => status rs x = Passed) (paths [] (tree_of (g_prog g)))).
    { apply Forall_forall. intros q Hq. apply H. apply paths_tree_of. exact Hq. }
    pose proof (fatal_char rmatch rsrc rrev norm (tree_of (g_prog g)) rs []) as F.
    destruct (apply_acl rmatch rsrc rrev norm rs true false [] (tree_of (g_prog g))) as [f'|e].
    - destruct F as [_ EL]. rewrite (lenient_all_passed _ _ _ _ _ _ _ FP) in EL. injection EL as <-. reflexivity.
    - destruct F as (q & _ & FR). apply first_refused_in in FR as [Hin S]. rewrite Forall_forall in FP.
      pose proof (FP q Hin) as S2. unfold status in S2. congruence.
  Qed.

  (* ---- exclusivity ---- *)

  Theorem exclusive_iff rs u :
    ((exists msg g, exclusive_step A rs u = OExclusive msg g) <->
     (exists q g, In q (paths [] u) /\ conflict rs q = Some g)).
  Proof.
    unfold exclusive_step, A.
    pose proof (exclusive_char rmatch rsrc rrev norm u rs []) as X.
    destruct (apply_acl rmatch rsrc rrev norm rs false true [] u) as [r|e].
    - destruct X as [F _]. split; [intros (m & g & E); discriminate|].
      intros (q & g & Hin & Cq). rewrite Forall_forall in F. pose proof (F q Hin) as C2. unfold conflict in Cq. congruence.
    - destruct X as (q & g & -> & Hin & Cq). split; [intros _; eauto|]. intros _. eexists. eexists. reflexivity.
  Qed.

  Theorem exclusive_names rs u msg g :
    exclusive_step A rs u = OExclusive msg g ->
    exists q, msg = excl_err_text q /\ In q (paths [] u) /\ conflict rs q = Some g.
  Proof.
    unfold exclusive_step, A.
    pose proof (exclusive_char rmatch rsrc rrev norm u rs []) as X.
    destruct (apply_acl rmatch rsrc rrev norm rs false true [] u) as [r|e]; [discriminate|].
    destruct X as (q & g' & -> & Hin & Cq). intros E. injection E as <- <-. exists q. auto.
  Qed.

  (* no conflict: OldNewResult.new holds exactly the paths of the union the merged ACL passes;
     it is the union itself when the merged ACL passes them all *)
  Theorem no_conflict_paths rs u :
    (forall q, In q (paths [] u) -> conflict rs q = None) ->
    exists r, exclusive_step A rs u = OOk r /\
              forall q, In q (paths [] r) <-> In q (paths [] u) /\ status rs q = Passed.
  Proof.
    intros NC. unfold exclusive_step, A.
    pose proof (exclusive_char rmatch rsrc rrev norm u rs []) as X.
    destruct (apply_acl rmatch rsrc rrev norm rs false true [] u) as [r|e].
    - destruct X as [_ EL]. exists r. split; [reflexivity|].
      destruct (lenient_char rmatch rsrc rrev norm u rs []) as (g0 & E0 & H0).
      rewrite EL in E0. injection E0 as <-. exact H0.
    - destruct X as (q & g & _ & Hin & Cq). pose proof (NC q Hin) as C2. unfold conflict in C2. congruence.
  Qed.

  Theorem no_conflict_union rs u :
    (forall q, In q (paths [] u) -> conflict rs q = None) ->
    (forall q, In q (paths [] u) -> status rs q = Passed) ->
    exclusive_step A rs u = OOk u.
  Proof.
    intros NC AP. unfold exclusive_step, A.
    pose proof (exclusive_char rmatch rsrc rrev norm u rs []) as X.
    destruct (apply_acl rmatch rsrc rrev norm rs false true [] u) as [r|e].
    - destruct X as [_ EL]. rewrite lenient_all_passed in EL; [injection EL as <-; reflexivity|].
      apply Forall_forall. exact AP.
    - destruct X as (q & g & _ & Hin & Cq). pose proof (NC q Hin) as C2. unfold conflict in C2. congruence.
  Qed.

  (* _old_new_per_device: the first generator error escapes, else the exclusive step on the union *)
  Theorem old_new_unfold gs :
    old_new_with A gs =
    match run_all_with A gs with
    | inl e => OGenErr e
    | inr fs => match compile_acl (combined_acl gs) with
                | None => OAclCompile
                | Some rs => exclusive_step A rs (union_all fs)
                end
    end.
  Proof. reflexivity. Qed.

  Theorem run_all_ok gs fs :
    run_all_with A gs = inr fs <-> map (run_gen_with A) gs = map GOk fs.
  Proof.
    revert fs. induction gs as [|g gs IH]; intros fs; cbn [run_all_with map].
    - split; [intros E; injection E as <-; reflexivity|]. destruct fs; [reflexivity|discriminate].
    - destruct (run_gen_with A g) as [f| | | | |] eqn:E; try (split; [discriminate|destruct fs; discriminate]).
      destruct (run_all_with A gs) as [e|fs'] eqn:R.
      + split; [discriminate|]. destruct fs as [|f0 fs]; [discriminate|]. cbn [map]. intros H.
        injection H as _ H. apply IH in H. discriminate.
      + split.
        * intros H. injection H as <-. cbn [map]. f_equal. apply IH. reflexivity.
        * destruct fs as [|f0 fs]; [discriminate|]. cbn [map]. intros H. injection H as <- H.
          apply IH in H. injection H as <-. reflexivity.
  Qed.
End Runner.

(* ---------- the property predicates on the model's own outputs ---------- *)

Lemma names_eqb_refl g : names_eqb g g = true.
Proof.
  unfold names_eqb. assert (H : forallb (fun x => existsb (String.eqb x) g) g = true).
  { apply forallb_forall. intros x Hx. apply existsb_exists. exists x. split; [exact Hx|apply String.eqb_refl]. }
  rewrite H. reflexivity.
Qed.

Lemma gres_eqb_refl r : gres_eqb r r = true.
Proof.
  destruct r; cbn; try reflexivity.
  - apply forest_eqb_refl.
  - rewrite Nat.eqb_refl, String.eqb_refl. reflexivity.
  - apply String.eqb_refl.
Qed.

Lemma ores_eqb_refl r : ores_eqb r r = true.
Proof.
  destruct r; cbn; try reflexivity.
  - apply forest_eqb_refl.
  - apply gres_eqb_refl.
  - rewrite String.eqb_refl, names_eqb_refl. reflexivity.
Qed.

Lemma pstat_eqb_eq a b : pstat_eqb a b = true <-> a = b.
Proof. destruct a, b; cbn; split; intros H; try reflexivity; discriminate. Qed.

(* confinement holds for the model whenever no yielded path runs into the discard rule
   (reverse form of a rule whose cant_delete flags are all set) *)
Theorem confined_partial v g rs :
  wf_prog (g_prog g) = true -> compile_acl (g_acl g) = Some rs ->
  (forall q, In q (prog_paths (g_prog g)) -> p_path_status v rs q <> Dropped) ->
  P_C10_confined v g (run_gen v g) = true.
Proof.
  intros W C ND. unfold P_C10_confined. rewrite W, C.
  set (ps := paths [] (tree_of (g_prog g))).
  destruct (filter (fun q => negb (pstat_eqb (p_path_status v rs q) Passed)) ps) as [|b bad] eqn:EB.
  - assert (AP : forall q, In q (prog_paths (g_prog g)) -> p_path_status v rs q = Passed).
    { intros q Hq. apply paths_tree_of in Hq. fold ps in Hq.
      destruct (pstat_eqb (p_path_status v rs q) Passed) eqn:E; [apply pstat_eqb_eq; exact E|].
      assert (Hin : In q (filter (fun q => negb (pstat_eqb (p_path_status v rs q) Passed)) ps)).
      { apply filter_In. split; [exact Hq|rewrite E; reflexivity]. }
      rewrite EB in Hin. destruct Hin. }
    unfold run_gen, p_apply_acl.
    rewrite (all_passed_ok acl_pm acl_psrc (acl_prev v) (acl_norm v) g rs W C AP). apply gres_eqb_refl.
  - assert (Hb : In b ps /\ p_path_status v rs b <> Passed).
    { assert (Hin : In b (filter (fun q => negb (pstat_eqb (p_path_status v rs q) Passed)) ps))
        by (rewrite EB; now left).
      apply filter_In in Hin as [Hin Hs]. split; [exact Hin|]. intros E. rewrite E in Hs. discriminate. }
    destruct Hb as [Hbin Hbs]. subst ps.
    assert (Hr : p_path_status v rs b = Refused).
    { specialize (ND b (proj1 (paths_tree_of _ _) Hbin)). destruct (p_path_status v rs b); congruence. }
    destruct (proj2 (error_iff acl_pm acl_psrc (acl_prev v) (acl_norm v) g rs W C)) as (msg & Em).
    { exists b. split; [apply paths_tree_of; exact Hbin|exact Hr]. }
    destruct (error_names acl_pm acl_psrc (acl_prev v) (acl_norm v) g rs msg W C Em) as (q & -> & Hq & Sq & _).
    unfold run_gen, p_apply_acl. rewrite Em. rewrite <- EB.
    apply existsb_exists. exists q. split; [|apply gres_eqb_refl].
    apply filter_In. split; [apply paths_tree_of; exact Hq|].
    unfold p_path_status. rewrite Sq. reflexivity.
Qed.

(* the exclusivity/union clause holds for the model whenever the merged ACL passes every line of the union *)
Theorem exclusive_partial v gs fs rs :
  Forall wf fs -> compile_acl (combined_acl gs) = Some rs ->
  (forall q, In q (paths [] (union_all fs)) -> p_path_status v rs q = Passed) ->
  P_C10_exclusive v gs fs (exclusive_step (p_apply_acl v) rs (union_all fs)) = true.
Proof.
  intros F C AP. unfold P_C10_exclusive. rewrite C. rewrite <- (union_all_ref fs F).
  set (u := union_all fs) in *.
  set (confl := flat_map (fun q => match p_conflict_at v rs q with Some g => [(q, g)] | None => [] end) (paths [] u)).
  assert (Hc : forall q g, In (q, g) confl <-> In q (paths [] u) /\ p_conflict_at v rs q = Some g).
  { intros q g. unfold confl. rewrite in_flat_map. split.
    - intros (x & Hx & Hin). destruct (p_conflict_at v rs x) as [g'|] eqn:E; [|destruct Hin].
      destruct Hin as [Eq|[]]. injection Eq as <- <-. auto.
    - intros [Hin E]. exists q. split; [exact Hin|]. rewrite E. now left. }
  destruct confl as [|c0 confl'] eqn:EC.
  - unfold p_apply_acl.
    rewrite (no_conflict_union acl_pm acl_psrc (acl_prev v) (acl_norm v) rs u); [apply ores_eqb_refl| |exact AP].
    intros q Hq. destruct (conflict_at acl_pm acl_psrc (acl_prev v) (acl_norm v) rs q) as [g|] eqn:E; [|reflexivity].
    exfalso. apply (proj2 (Hc q g)). split; [exact Hq|exact E].
  - destruct c0 as [q0 g0]. destruct (proj1 (Hc q0 g0) (or_introl eq_refl)) as [Hin0 E0].
    destruct (proj2 (exclusive_iff acl_pm acl_psrc (acl_prev v) (acl_norm v) rs u)) as (msg & g & Eo).
    { exists q0, g0. auto. }
    destruct (exclusive_names acl_pm acl_psrc (acl_prev v) (acl_norm v) rs u msg g Eo) as (q & -> & Hq & Cq).
    unfold p_apply_acl. rewrite Eo. apply existsb_exists. exists (q, g). split; [|apply ores_eqb_refl].
    apply Hc. auto.
Qed.
