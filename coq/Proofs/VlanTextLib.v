(* C11 text level, part 1: strings.  Decimal numbers, words / join_with " ", split_char / join_with
   ",", strip and the comma normalisation of cisco _parse_vlancfg on printed text. *)
From Coq Require Import List String Ascii Bool Arith NArith Lia.
From Coq Require Import DecimalString DecimalN.
From Annet Require Import Base.Str Model.Vlan.
Import ListNotations.
Open Scope string_scope.
Open Scope list_scope.

Arguments Ascii.eqb : simpl never.
Arguments String.eqb : simpl never.
Arguments is_ws : simpl never.
Arguments is_digit : simpl never.

(* ------------------------------------------------------------------------------------ *)
(* append *)

Lemma sapp_assoc (a b c : string) : ((a ++ b) ++ c = a ++ (b ++ c))%string.
Proof. induction a; cbn; [reflexivity | f_equal; assumption]. Qed.

Lemma sapp_nil_r (a : string) : (a ++ "" = a)%string.
Proof. induction a; cbn; [reflexivity | f_equal; assumption]. Qed.

Lemma sapp_inj_l (a b c : string) : (a ++ b = a ++ c)%string -> b = c.
Proof. induction a; cbn; intro H; [exact H | injection H as H; auto]. Qed.

(* every character of the string satisfies p *)
Fixpoint allc (p : ascii -> bool) (s : string) : bool :=
  match s with EmptyString => true | String c r => p c && allc p r end.

Lemma allc_app p a b : allc p (a ++ b)%string = allc p a && allc p b.
Proof. induction a; cbn; [reflexivity | rewrite IHa; apply andb_assoc]. Qed.

Lemma allc_impl (p q : ascii -> bool) s :
  (forall c, p c = true -> q c = true) -> allc p s = true -> allc q s = true.
Proof.
  intro H. induction s as [|c s IH]; cbn; [reflexivity|]. intro E.
  apply andb_true_iff in E as [E1 E2]. rewrite (H c E1), (IH E2). reflexivity.
Qed.

Definition not_ws (c : ascii) : bool := negb (is_ws c).
Definition not_comma (c : ascii) : bool := negb (Ascii.eqb c comma).
Definition not_dash (c : ascii) : bool := negb (Ascii.eqb c dash).
Definition no_ws (s : string) : bool := allc not_ws s.

(* ------------------------------------------------------------------------------------ *)
(* digits *)

Lemma all_digits_allc s : all_digits s = allc is_digit s.
Proof. induction s; cbn; [reflexivity | now rewrite IHs]. Qed.

Lemma digit_facts c : is_digit c = true ->
  is_ws c = false /\ Ascii.eqb c comma = false /\ Ascii.eqb c dash = false /\
  (Ascii.eqb c "0" || Ascii.eqb c "1" || Ascii.eqb c "2" || Ascii.eqb c "3" || Ascii.eqb c "4" ||
   Ascii.eqb c "5" || Ascii.eqb c "6" || Ascii.eqb c "7" || Ascii.eqb c "8" || Ascii.eqb c "9")%char = true.
Proof.
  destruct c as [[] [] [] [] [] [] [] []]; vm_compute; intro H; try discriminate H; repeat split.
Qed.

Lemma digit_not_ws c : is_digit c = true -> not_ws c = true.
Proof. intro H. unfold not_ws. now rewrite (proj1 (digit_facts c H)). Qed.
Lemma digit_not_comma c : is_digit c = true -> not_comma c = true.
Proof. intro H. unfold not_comma. destruct (digit_facts c H) as (_ & E & _). now rewrite E. Qed.
Lemma digit_not_dash c : is_digit c = true -> not_dash c = true.
Proof. intro H. unfold not_dash. destruct (digit_facts c H) as (_ & _ & E & _). now rewrite E. Qed.

Lemma string_of_uint_digits d : allc is_digit (NilEmpty.string_of_uint d) = true.
Proof. induction d; cbn; try reflexivity; exact IHd. Qed.

Lemma N_of_str_of_N n : N_of_str (str_of_N n) = n.
Proof.
  unfold N_of_str, str_of_N. rewrite NilEmpty.usu. apply DecimalN.Unsigned.of_to.
Qed.

Lemma str_of_N_inj a b : str_of_N a = str_of_N b -> a = b.
Proof. intro H. rewrite <- (N_of_str_of_N a), <- (N_of_str_of_N b). now rewrite H. Qed.

Lemma str_of_N_digits n : allc is_digit (str_of_N n) = true.
Proof. apply string_of_uint_digits. Qed.

Lemma str_of_N_nonempty n : is_empty (str_of_N n) = false.
Proof.
  destruct (str_of_N n) eqn:E; [|reflexivity]. exfalso.
  assert (H : N_of_str (str_of_N n) = N_of_str (str_of_N 0)).
  { rewrite E. vm_compute. reflexivity. }
  rewrite !N_of_str_of_N in H. subst n. vm_compute in E. discriminate E.
Qed.

Lemma isdigit_str_of_N n : isdigit (str_of_N n) = true.
Proof.
  unfold isdigit. rewrite str_of_N_nonempty, all_digits_allc, str_of_N_digits. reflexivity.
Qed.

Lemma str_of_N_no_ws n : no_ws (str_of_N n) = true.
Proof. apply (allc_impl is_digit). exact digit_not_ws. apply str_of_N_digits. Qed.

(* the first character of a number is a digit *)
Lemma str_of_N_head n : exists c r, str_of_N n = String c r /\ is_digit c = true.
Proof.
  pose proof (str_of_N_nonempty n) as Hne. pose proof (str_of_N_digits n) as Hd.
  destruct (str_of_N n) as [|c r]; [discriminate Hne|]. exists c, r. split; [reflexivity|].
  cbn in Hd. now apply andb_true_iff in Hd as [Hd _].
Qed.

Lemma digit_head_neq c r (w : string) :
  is_digit c = true ->
  match w with String d _ => is_digit d = false | EmptyString => True end ->
  String.eqb (String c r) w = false.
Proof.
  intros Hc Hw. apply String.eqb_neq. intro E. subst w. rewrite Hc in Hw. discriminate Hw.
Qed.

Lemma str_of_N_neq n (w : string) :
  match w with String d _ => is_digit d = false | EmptyString => True end ->
  String.eqb (str_of_N n) w = false.
Proof.
  intro Hw. destruct (str_of_N_head n) as (c & r & E & Hc). rewrite E. now apply digit_head_neq.
Qed.

Lemma str_of_N_not_to n : String.eqb (str_of_N n) "to" = false.
Proof. apply str_of_N_neq. reflexivity. Qed.

(* ------------------------------------------------------------------------------------ *)
(* words *)

Lemma words_aux_word w : forall cur rest, no_ws w = true ->
  words_aux (w ++ rest) cur = words_aux rest (cur ++ w).
Proof.
  induction w as [|c w IH]; intros cur rest H.
  - cbn. rewrite sapp_nil_r. reflexivity.
  - cbn in H. apply andb_true_iff in H as [Hc H]. unfold not_ws in Hc. apply negb_true_iff in Hc.
    change ((String c w ++ rest)%string) with (String c (w ++ rest)). cbn [words_aux]. rewrite Hc.
    rewrite IH by exact H. rewrite sapp_assoc. reflexivity.
Qed.

Lemma words_word w : no_ws w = true -> is_empty w = false -> words w = [w].
Proof.
  intros H Hne. unfold words. rewrite <- (sapp_nil_r w) at 1. rewrite words_aux_word by exact H.
  cbn. rewrite Hne. reflexivity.
Qed.

Lemma words_aux_app_sp a : forall b cur,
  words_aux (a ++ String " " b) cur = (words_aux a cur ++ words b)%list.
Proof.
  induction a as [|c a IH]; intros b cur.
  - cbn [append words_aux]. change (is_ws " ") with true. cbn iota.
    destruct (is_empty cur); reflexivity.
  - change ((String c a ++ String " " b)%string) with (String c (a ++ String " " b)).
    cbn [words_aux]. destruct (is_ws c).
    + destruct (is_empty cur); rewrite IH; reflexivity.
    + apply IH.
Qed.

Lemma words_app_sp a b : words (a ++ " " ++ b) = (words a ++ words b)%list.
Proof. unfold words. apply words_aux_app_sp. Qed.

Lemma words_empty : words "" = [].
Proof. reflexivity. Qed.

Lemma words_join l : words (join_with " " l) = List.concat (map words l).
Proof.
  induction l as [|x l IH]; [reflexivity|].
  destruct l as [|y l].
  - cbn [join_with map List.concat]. now rewrite app_nil_r.
  - change (join_with " " (x :: y :: l)) with (x ++ " " ++ join_with " " (y :: l))%string.
    rewrite words_app_sp, IH. reflexivity.
Qed.

(* a list of clean words is read back as itself *)
Definition clean_word (w : string) : bool := no_ws w && negb (is_empty w).

Lemma words_join_clean l : forallb clean_word l = true -> words (join_with " " l) = l.
Proof.
  intro H. rewrite words_join. induction l as [|x l IH]; [reflexivity|].
  cbn in H. apply andb_true_iff in H as [Hx H]. unfold clean_word in Hx.
  apply andb_true_iff in Hx as [H1 H2]. apply negb_true_iff in H2.
  cbn [map List.concat]. rewrite (words_word x H1 H2), (IH H). reflexivity.
Qed.

(* words never contain whitespace and are never empty *)
Lemma words_aux_clean s : forall cur, no_ws cur = true ->
  forallb clean_word (words_aux s cur) = true.
Proof.
  induction s as [|c s IH]; intros cur Hc; cbn [words_aux].
  - destruct (is_empty cur) eqn:E; [reflexivity|]. cbn. unfold clean_word. now rewrite Hc, E.
  - destruct (is_ws c) eqn:Ec.
    + destruct (is_empty cur) eqn:E; [now apply IH|]. cbn [forallb]. unfold clean_word at 1.
      rewrite Hc, E. cbn. now apply IH.
    + apply IH. unfold no_ws. rewrite allc_app. fold (no_ws cur). rewrite Hc. cbn.
      unfold not_ws. now rewrite Ec.
Qed.

Lemma words_clean s : forallb clean_word (words s) = true.
Proof. apply words_aux_clean. reflexivity. Qed.

Lemma words_idem s : words (join_with " " (words s)) = words s.
Proof. apply words_join_clean, words_clean. Qed.

(* ------------------------------------------------------------------------------------ *)
(* split_char *)

Definition no_char (c : ascii) (s : string) : bool := allc (fun a => negb (Ascii.eqb a c)) s.

Lemma split_char_nonempty c s : split_char c s <> [].
Proof.
  induction s as [|a s IH]; cbn; [discriminate|].
  destruct (Ascii.eqb a c); [discriminate|]. destruct (split_char c s); [contradiction|discriminate].
Qed.

Lemma split_char_none c s : no_char c s = true -> split_char c s = [s].
Proof.
  induction s as [|a s IH]; cbn; [reflexivity|]. intro H. apply andb_true_iff in H as [Ha H].
  apply negb_true_iff in Ha. rewrite Ha, (IH H). reflexivity.
Qed.

Lemma split_char_app c a b : no_char c a = true ->
  split_char c (a ++ String c b) = a :: split_char c b.
Proof.
  induction a as [|x a IH]; cbn.
  - intros _. now rewrite Ascii.eqb_refl.
  - intro H. apply andb_true_iff in H as [Hx H]. apply negb_true_iff in Hx.
    rewrite Hx, (IH H). reflexivity.
Qed.

Lemma split_join_comma l : l <> [] -> forallb (no_char comma) l = true ->
  split_char comma (join_with "," l) = l.
Proof.
  induction l as [|x l IH]; [contradiction|]. intros _ H. cbn in H.
  apply andb_true_iff in H as [Hx H]. destruct l as [|y l].
  - cbn [join_with]. now apply split_char_none.
  - change (join_with "," (x :: y :: l)) with (x ++ String comma (join_with "," (y :: l)))%string.
    rewrite split_char_app by exact Hx. f_equal. apply IH; [discriminate|exact H].
Qed.

(* ------------------------------------------------------------------------------------ *)
(* strip *)

Lemma rstrip_no_ws s : no_ws s = true -> rstrip s = s.
Proof.
  induction s as [|c s IH]; cbn; [reflexivity|]. intro H. apply andb_true_iff in H as [Hc H].
  unfold not_ws in Hc. apply negb_true_iff in Hc. rewrite (IH H).
  destruct s; [now rewrite Hc | reflexivity].
Qed.

Lemma lstrip_no_ws s : no_ws s = true -> lstrip s = s.
Proof.
  destruct s as [|c s]; cbn; [reflexivity|]. intro H. apply andb_true_iff in H as [Hc _].
  unfold not_ws in Hc. apply negb_true_iff in Hc. now rewrite Hc.
Qed.

Lemma strip_no_ws s : no_ws s = true -> strip s = s.
Proof. intro H. unfold strip. rewrite (lstrip_no_ws s H). now apply rstrip_no_ws. Qed.

(* ------------------------------------------------------------------------------------ *)
(* re.sub(r",\s+", ",", row) on printed text *)

Lemma comma_ws_go_no_ws s : forall b, no_ws s = true -> comma_ws_go b s = s.
Proof.
  induction s as [|c s IH]; intros b H; cbn; [reflexivity|].
  cbn in H. apply andb_true_iff in H as [Hc H]. unfold not_ws in Hc. apply negb_true_iff in Hc.
  rewrite Hc, andb_false_r. now rewrite IH.
Qed.

Lemma comma_ws_go_app a : forall b, no_char comma a = true ->
  comma_ws_go false (a ++ b) = (a ++ comma_ws_go false b)%string.
Proof.
  induction a as [|c a IH]; intros b H; [reflexivity|].
  cbn in H. apply andb_true_iff in H as [Hc H]. apply negb_true_iff in Hc.
  change ((String c a ++ b)%string) with (String c (a ++ b)). cbn [comma_ws_go andb].
  rewrite Hc, (IH b H). reflexivity.
Qed.

Lemma comma_ws_app a b : no_char comma a = true -> no_ws b = true -> comma_ws (a ++ b) = (a ++ b)%string.
Proof.
  intros Ha Hb. unfold comma_ws. rewrite comma_ws_go_app by exact Ha.
  now rewrite comma_ws_go_no_ws.
Qed.

(* ------------------------------------------------------------------------------------ *)
(* lists *)

Lemma takewhile_app {A} (f : A -> bool) (a b : list A) :
  forallb f a = true -> match b with [] => True | x :: _ => f x = false end ->
  takewhile f (a ++ b) = a /\ dropwhile f (a ++ b) = b.
Proof.
  intros Ha Hb. induction a as [|x a IH]; cbn.
  - destruct b as [|y b]; [now split|]. cbn. now rewrite Hb.
  - cbn in Ha. apply andb_true_iff in Ha as [Hx Ha]. rewrite Hx. destruct (IH Ha) as [E1 E2].
    now rewrite E1, E2.
Qed.

Lemma strip_prefix_app p x : strip_prefix p (p ++ x) = Some x.
Proof. induction p as [|a p IH]; cbn; [reflexivity|]. now rewrite String.eqb_refl. Qed.

Lemma strip_prefix_some p : forall ws x, strip_prefix p ws = Some x -> ws = (p ++ x)%list.
Proof.
  induction p as [|a p IH]; intros ws x H; cbn in H.
  - now injection H as ->.
  - destruct ws as [|b ws]; [discriminate|]. destruct (String.eqb a b) eqn:E; [|discriminate].
    apply String.eqb_eq in E. subst b. cbn. f_equal. now apply IH.
Qed.

Lemma list_str_eqb_refl l : list_str_eqb l l = true.
Proof. now apply list_str_eqb_eq. Qed.

Lemma list_str_eqb_neq a b : a <> b -> list_str_eqb a b = false.
Proof.
  intro H. destruct (list_str_eqb a b) eqn:E; [|reflexivity]. apply list_str_eqb_eq in E. contradiction.
Qed.

Lemma mem_str_In x l : mem_str x l = true <-> In x l.
Proof.
  unfold mem_str. rewrite existsb_exists. split.
  - intros (y & Hy & E). apply String.eqb_eq in E. now subst.
  - intro H. exists x. split; [exact H|apply String.eqb_refl].
Qed.
