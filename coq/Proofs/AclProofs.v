(* C06: apply_acl computes the declarative references of Spec/P_C06.v — for every rule set,
   every tree (any depth) and every row matcher. *)
From Coq Require Import List String Ascii Bool Arith Lia.
From Annet Require Import Base.Str Base.Tree Model.Pattern Model.Order Model.Acl Spec.P_C06.
Import ListNotations.
Open Scope string_scope.
Open Scope list_scope.
Arguments Nat.ltb : simpl never.
Arguments Nat.leb : simpl never.

(* ---------- trees: prune, sub ---------- *)

Lemma prune_cons cov r c l :
  prune cov ((r, c) :: l) =
  if cov [r] then (r, T (prune (fun p => cov (r :: p)) (kids c))) :: prune cov l else prune cov l.
Proof. unfold prune. destruct c as [k]. reflexivity. Qed.

Lemma prune_nil cov : prune cov [] = [].
Proof. reflexivity. Qed.

Lemma prune_ext : forall f cov1 cov2, (forall p, cov1 p = cov2 p) -> prune cov1 f = prune cov2 f.
Proof.
  apply (forest_ind2
           (fun t => forall cov1 cov2, (forall p, cov1 p = cov2 p) -> prune cov1 (kids t) = prune cov2 (kids t))
           (fun f => forall cov1 cov2, (forall p, cov1 p = cov2 p) -> prune cov1 f = prune cov2 f)).
  - intros k IH. exact IH.
  - reflexivity.
  - intros r t k IHt IHk cov1 cov2 H. rewrite !prune_cons. rewrite (H [r]).
    destruct (cov2 [r]).
    + f_equal.
      * f_equal. f_equal. apply IHt. intros p. apply H.
      * apply IHk. exact H.
    + apply IHk. exact H.
Qed.

Lemma prune_false : forall f cov, (forall p, cov p = false) -> prune cov f = [].
Proof.
  induction f as [|[r c] l IH]; intros cov H; [reflexivity|].
  rewrite prune_cons, H. apply IH. exact H.
Qed.

Lemma sub_refl_nil b : sub [] b.
Proof. constructor. Qed.

Lemma prune_sub : forall f cov, sub (prune cov f) f.
Proof.
  apply (forest_ind2 (fun t => forall cov, sub (prune cov (kids t)) (kids t))
                     (fun f => forall cov, sub (prune cov f) f)).
  - intros k IH. exact IH.
  - intros cov. constructor.
  - intros r t k IHt IHk cov. rewrite prune_cons. destruct (cov [r]).
    + apply sub_keep; [cbn [kids]; apply IHt | apply IHk].
    + apply sub_skip. apply IHk.
Qed.

Lemma prune_idem : forall f cov, prune cov (prune cov f) = prune cov f.
Proof.
  apply (forest_ind2 (fun t => forall cov, prune cov (prune cov (kids t)) = prune cov (kids t))
                     (fun f => forall cov, prune cov (prune cov f) = prune cov f)).
  - intros k IH. exact IH.
  - reflexivity.
  - intros r t k IHt IHk cov. rewrite prune_cons. destruct (cov [r]) eqn:E.
    + rewrite prune_cons, E. cbn [kids]. rewrite IHt, IHk. reflexivity.
    + apply IHk.
Qed.

(* the boolean sub-tree test is sound *)
Lemma subb_cons_cons r ca a r' cb b :
  subb ((r, ca) :: a) ((r', cb) :: b) =
  if String.eqb r r'
  then (if subb (kids ca) (kids cb) then (if subb a b then true else subb ((r, ca) :: a) b)
        else subb ((r, ca) :: a) b)
  else subb ((r, ca) :: a) b.
Proof. unfold subb. destruct ca as [ka], cb as [kb]. reflexivity. Qed.

Lemma subb_nil_l b : subb [] b = true.
Proof. destruct b as [|[r c] b]; reflexivity. Qed.

Lemma subb_nil_r r ca a : subb ((r, ca) :: a) [] = false.
Proof. reflexivity. Qed.

Lemma subb_sound : forall b a, subb a b = true -> sub a b.
Proof.
  apply (forest_ind2 (fun t => forall a, subb a (kids t) = true -> sub a (kids t))
                     (fun b => forall a, subb a b = true -> sub a b)).
  - intros k IH. exact IH.
  - intros [|[r ca] a] H; [constructor | discriminate].
  - intros r' cb b IHc IHb [|[r ca] a] H; [constructor|].
    rewrite subb_cons_cons in H.
    destruct (String.eqb_spec r r') as [->|Hne].
    + destruct (subb (kids ca) (kids cb)) eqn:E1.
      * destruct (subb a b) eqn:E2.
        -- apply sub_keep; [apply IHc; exact E1 | apply IHb; exact E2].
        -- apply sub_skip. apply IHb. exact H.
      * apply sub_skip. apply IHb. exact H.
    + apply sub_skip. apply IHb. exact H.
Qed.

Lemma subb_skip : forall b a r c, subb a b = true -> subb a ((r, c) :: b) = true.
Proof.
  intros b [|[r0 ca] a] r c H; [reflexivity|].
  rewrite subb_cons_cons. rewrite H.
  destruct (String.eqb r0 r); [|reflexivity].
  destruct (subb (kids ca) (kids c)); [|reflexivity].
  destruct (subb a b); reflexivity.
Qed.

Lemma subb_prune : forall f cov, subb (prune cov f) f = true.
Proof.
  apply (forest_ind2 (fun t => forall cov, subb (prune cov (kids t)) (kids t) = true)
                     (fun f => forall cov, subb (prune cov f) f = true)).
  - intros k IH. exact IH.
  - reflexivity.
  - intros r t k IHt IHk cov. rewrite prune_cons. destruct (cov [r]).
    + rewrite subb_cons_cons, String.eqb_refl. cbn [kids]. rewrite IHt, IHk. reflexivity.
    + apply subb_skip. apply IHk.
Qed.

(* ---------- paths ---------- *)

Lemma paths_nonempty : forall f pre, Forall (fun q => q <> []) (paths pre f).
Proof.
  apply (forest_ind2 (fun t => forall pre, Forall (fun q => q <> []) (paths pre (kids t)))
                     (fun f => forall pre, Forall (fun q => q <> []) (paths pre f))).
  - intros k IH. exact IH.
  - intros pre. constructor.
  - intros r t k IHt IHk pre. rewrite paths_cons. constructor.
    + destruct pre; discriminate.
    + apply Forall_app. split; [apply IHt | apply IHk].
Qed.

Lemma find_map_app {A B} (f : A -> option B) l1 l2 :
  find_map f (l1 ++ l2) = match find_map f l1 with Some y => Some y | None => find_map f l2 end.
Proof.
  induction l1 as [|x l1 IH]; [reflexivity|]. cbn. destruct (f x); [reflexivity | exact IH].
Qed.

Lemma find_map_none {A B} (f : A -> option B) l : (forall x, In x l -> f x = None) -> find_map f l = None.
Proof.
  induction l as [|x l IH]; intros H; [reflexivity|]. cbn.
  rewrite (H x (or_introl eq_refl)). apply IH. intros y Hy. apply H. now right.
Qed.

Lemma find_map_map_ne {B} (f g : list string -> option B) (h : B -> B) r qs :
  Forall (fun q => q <> []) qs ->
  (forall q, q <> [] -> f (r :: q) = option_map h (g q)) ->
  find_map f (map (cons r) qs) = option_map h (find_map g qs).
Proof.
  intros Hne H. induction Hne as [|q qs Hq _ IH]; [reflexivity|].
  cbn. rewrite (H q Hq). destruct (g q); [reflexivity | exact IH].
Qed.

Lemma split_last_cons r q : q <> [] ->
  split_last (r :: q) = match split_last q with Some (par, l) => Some (r :: par, l) | None => None end.
Proof.
  intros Hq. cbn. destruct q as [|x q]; [congruence|].
  cbn. destruct (split_last q) as [[par l]|]; reflexivity.
Qed.

(* ---------- apply_acl ---------- *)

Definition prepend (pre : list string) (e : aerr) : aerr :=
  match e with
  | EUncovered p => EUncovered (pre ++ p)
  | ENotExclusive p g => ENotExclusive (pre ++ p) g
  end.

Lemma prepend_nil e : prepend [] e = e.
Proof. destruct e; reflexivity. Qed.

Lemma prepend_app a b e : prepend a (prepend b e) = prepend (a ++ b) e.
Proof. destruct e; cbn; rewrite app_assoc; reflexivity. Qed.

Section Proofs.
  Variable rmatch : string -> string -> option (list string).
  Variable rsrc : string -> string.
  Variable rrev : string -> string.
  Variable norm : string -> string.

  Notation mrow := (match_row_to_acl rmatch rsrc rrev norm).
  Notation covers := (acl_covers_path rmatch rsrc rrev norm).
  Notation rules_at := (acl_rules_at rmatch rsrc rrev norm).
  Notation apply := (apply_acl rmatch rsrc rrev norm).
  Notation reff := (ref_filter rmatch rsrc rrev norm).
  Notation event := (event_at rmatch rsrc rrev norm).
  Notation refrun := (ref_run rmatch rsrc rrev norm).

  Lemma apply_nil rs fatal excl path : apply rs fatal excl path [] = inl [].
  Proof. reflexivity. Qed.

  Lemma apply_cons rs fatal excl path row c l :
    apply rs fatal excl path ((row, c) :: l) =
    match mrow row rs excl with
    | MErr g => inr (ENotExclusive (path ++ [row]) g)
    | MNone => if fatal then inr (EUncovered (path ++ [row])) else apply rs fatal excl path l
    | MSome m crs =>
      if drops m then apply rs fatal excl path l
      else match apply crs fatal excl (path ++ [row]) (kids c) with
           | inr e => inr e
           | inl c' => match apply rs fatal excl path l with
                       | inr e => inr e
                       | inl r => inl ((row, T c') :: r)
                       end
           end
    end.
  Proof. unfold apply_acl. destruct c as [k]. reflexivity. Qed.

  (* how the exclusive check relates to plain matching *)
  Lemma mrow_cases row rs excl :
    (mrow row rs excl = MNone /\ mrow row rs false = MNone) \/
    (exists m crs, mrow row rs excl = MSome m crs /\ mrow row rs false = MSome m crs) \/
    (exists g m crs, excl = true /\ mrow row rs excl = MErr g /\ mrow row rs false = MSome m crs).
  Proof.
    unfold match_row_to_acl.
    destruct (find_acl_matches rmatch rsrc rrev norm row rs) as [|f ms]; [left; auto|].
    right.
    assert (H0 : Nat.ltb 1 (List.length (@nil string)) = false) by reflexivity.
    destruct excl.
    - rewrite H0. destruct (Nat.ltb 1 (List.length (excl_names (f :: ms)))).
      + right. eauto 8.
      + left. eauto.
    - rewrite H0. left. eauto.
  Qed.

  Lemma mrow_false_noerr row rs g : mrow row rs false <> MErr g.
  Proof.
    unfold match_row_to_acl.
    destruct (find_acl_matches rmatch rsrc rrev norm row rs) as [|f ms]; [discriminate|].
    assert (H0 : Nat.ltb 1 (List.length (@nil string)) = false) by reflexivity.
    rewrite H0. discriminate.
  Qed.

  Lemma covers_cons rs r p :
    covers rs (r :: p) =
    match mrow r rs false with
    | MSome m crs => negb (drops m) && covers crs p
    | _ => false
    end.
  Proof. reflexivity. Qed.

  Lemma rules_at_cons rs r p :
    rules_at rs (r :: p) =
    match mrow r rs false with
    | MSome m crs => if drops m then None else rules_at crs p
    | _ => None
    end.
  Proof. reflexivity. Qed.

  Lemma event_single rs fatal excl r :
    event rs fatal excl [r] =
    match mrow r rs excl with
    | MErr g => Some (ENotExclusive [r] g)
    | MNone => if fatal then Some (EUncovered [r]) else None
    | MSome _ _ => None
    end.
  Proof. reflexivity. Qed.

  Lemma event_cons rs fatal excl r q : q <> [] ->
    event rs fatal excl (r :: q) =
    match mrow r rs false with
    | MSome m crs => if drops m then None else option_map (prepend [r]) (event crs fatal excl q)
    | _ => None
    end.
  Proof.
    intros Hq. unfold event_at at 1. rewrite split_last_cons by exact Hq.
    unfold event_at. destruct (split_last q) as [[par l]|].
    - rewrite rules_at_cons. destruct (mrow r rs false) as [| |m crs]; try reflexivity.
      destruct (drops m); [reflexivity|].
      destruct (rules_at crs par) as [crs'|]; [|reflexivity].
      destruct (mrow l crs' excl); try reflexivity.
      destruct fatal; reflexivity.
    - destruct (mrow r rs false) as [| |m crs]; try reflexivity. destruct (drops m); reflexivity.
  Qed.

  (* Main lemma: the recursive filter is the first-event reference, from any path prefix *)
  Lemma apply_is_ref fatal excl : forall f rs pre,
    apply rs fatal excl pre f =
    match find_map (event rs fatal excl) (paths [] f) with
    | Some e => inr (prepend pre e)
    | None => inl (reff rs f)
    end.
  Proof.
    apply (forest_ind2
      (fun t => forall rs pre,
         apply rs fatal excl pre (kids t) =
         match find_map (event rs fatal excl) (paths [] (kids t)) with
         | Some e => inr (prepend pre e)
         | None => inl (reff rs (kids t))
         end)
      (fun f => forall rs pre,
         apply rs fatal excl pre f =
         match find_map (event rs fatal excl) (paths [] f) with
         | Some e => inr (prepend pre e)
         | None => inl (reff rs f)
         end)).
    - intros k IH. exact IH.
    - intros rs pre. reflexivity.
    - intros r t k IHt IHk rs pre.
      rewrite apply_cons. rewrite paths_cons. cbn [app].
      rewrite paths_cons_prefix.
      cbn [find_map]. rewrite find_map_app.
      rewrite (find_map_map_ne (event rs fatal excl)
                 (fun q => match mrow r rs false with
                           | MSome m crs => if drops m then None else event crs fatal excl q
                           | _ => None
                           end) (prepend [r]) r (paths [] (kids t)) (paths_nonempty _ _)).
      2:{ intros q Hq. rewrite event_cons by exact Hq.
          destruct (mrow r rs false) as [| |m crs]; try reflexivity. destruct (drops m); reflexivity. }
      rewrite event_single.
      unfold ref_filter. rewrite prune_cons. rewrite covers_cons.
      destruct (mrow_cases r rs excl) as [[E1 E2]|[(m & crs & E1 & E2)|(g & m & crs & Hx & E1 & E2)]];
        rewrite E1; try rewrite E2.
      + (* no match *)
        destruct fatal; [reflexivity|].
        rewrite (find_map_none (fun _ => None)) by reflexivity. cbn [option_map].
        apply IHk.
      + destruct (drops m) eqn:Ed; cbn [negb andb].
        * rewrite (find_map_none (fun _ => None)) by reflexivity. cbn [option_map]. apply IHk.
        * rewrite IHt. cbn [andb].
          destruct (find_map (event crs fatal excl) (paths [] (kids t))) as [e|]; cbn [option_map].
          -- rewrite prepend_app. reflexivity.
          -- rewrite IHk.
             destruct (find_map (event rs fatal excl) (paths [] k)) as [e|]; [reflexivity|].
             unfold ref_filter. change (covers crs []) with true. cbv iota.
             f_equal. f_equal. f_equal. f_equal.
             apply prune_ext. intros p. rewrite covers_cons, E2, Ed. reflexivity.
      + reflexivity.
  Qed.

  (* ---------- the theorems in the form the property states them ---------- *)

  Theorem apply_is_ref_run rs fatal excl f : apply rs fatal excl [] f = refrun rs fatal excl f.
  Proof.
    rewrite apply_is_ref. unfold ref_run.
    destruct (find_map (event rs fatal excl) (paths [] f)); [rewrite prepend_nil|]; reflexivity.
  Qed.

  Lemma event_lenient rs p : event rs false false p = None.
  Proof.
    unfold event_at. destruct (split_last p) as [[par l]|]; [|reflexivity].
    destruct (rules_at rs par) as [crs|]; [|reflexivity].
    destruct (mrow l crs false) eqn:E; try reflexivity.
    exfalso. exact (mrow_false_noerr _ _ _ E).
  Qed.

  (* lenient mode never raises and returns exactly the covered lines, whatever the prefix *)
  Theorem apply_lenient_exact rs pre f : apply rs false false pre f = inl (reff rs f).
  Proof.
    rewrite apply_is_ref. rewrite find_map_none; [reflexivity|].
    intros p _. apply event_lenient.
  Qed.

  (* in every mode: if a tree is returned it is the reference tree *)
  Theorem apply_ok_exact rs fatal excl pre f g : apply rs fatal excl pre f = inl g -> g = reff rs f.
  Proof.
    rewrite apply_is_ref. destruct (find_map (event rs fatal excl) (paths [] f)); [discriminate|].
    intros H. injection H as H. symmetry. exact H.
  Qed.

  Theorem apply_subtree rs fatal excl pre f g : apply rs fatal excl pre f = inl g -> sub g f.
  Proof. intros H. rewrite (apply_ok_exact _ _ _ _ _ _ H). apply prune_sub. Qed.

  Theorem apply_subb rs fatal excl pre f g : apply rs fatal excl pre f = inl g -> subb g f = true.
  Proof. intros H. rewrite (apply_ok_exact _ _ _ _ _ _ H). apply subb_prune. Qed.

  Theorem apply_idempotent rs fatal excl pre pre' f g :
    apply rs fatal excl pre f = inl g -> apply rs false false pre' g = inl g.
  Proof.
    intros H. rewrite (apply_ok_exact _ _ _ _ _ _ H). rewrite apply_lenient_exact.
    unfold ref_filter. rewrite prune_idem. reflexivity.
  Qed.

  (* strict mode *)
  Lemma find_map_some {A B} (f : A -> option B) l y :
    find_map f l = Some y ->
    exists l1 x l2, l = l1 ++ x :: l2 /\ f x = Some y /\ forall z, In z l1 -> f z = None.
  Proof.
    induction l as [|x l IH]; [discriminate|]. cbn. destruct (f x) as [y'|] eqn:E.
    - intros H. injection H as ->. exists [], x, l. repeat split; [exact E | intros z []].
    - intros H. destruct (IH H) as (l1 & x' & l2 & -> & Hx & Hn).
      exists (x :: l1), x', l2. repeat split; [exact Hx|].
      intros z [<-|Hz]; [exact E | apply Hn; exact Hz].
  Qed.

  Lemma find_map_none_inv {A B} (f : A -> option B) l :
    find_map f l = None -> forall x, In x l -> f x = None.
  Proof.
    induction l as [|x l IH]; [intros _ z []|]. cbn. destruct (f x) eqn:E; [discriminate|].
    intros H z [<-|Hz]; [exact E | apply IH; assumption].
  Qed.

  Lemma event_fatal_names rs p e : event rs true false p = Some e -> e = EUncovered p.
  Proof.
    unfold event_at. destruct (split_last p) as [[par l]|]; [|discriminate].
    destruct (rules_at rs par) as [crs|]; [|discriminate].
    destruct (mrow l crs false) eqn:E; try discriminate.
    - intros H. injection H as <-. reflexivity.
    - exfalso. exact (mrow_false_noerr _ _ _ E).
  Qed.

  Lemma uncovered_event rs p : uncovered_at rmatch rsrc rrev norm rs p = true <-> event rs true false p = Some (EUncovered p).
  Proof.
    unfold uncovered_at. split.
    - destruct (event rs true false p) eqn:E; [|discriminate]. intros _.
      rewrite (event_fatal_names _ _ _ E). reflexivity.
    - intros ->. reflexivity.
  Qed.

  (* strict mode raises iff some row at a covered parent is uncovered ... *)
  Theorem fatal_iff rs f :
    (exists e, apply rs true false [] f = inr e) <->
    (exists p, In p (paths [] f) /\ uncovered_at rmatch rsrc rrev norm rs p = true).
  Proof.
    rewrite apply_is_ref_run. unfold ref_run. split.
    - intros [e H]. destruct (find_map (event rs true false) (paths [] f)) as [e'|] eqn:E; [|discriminate].
      destruct (find_map_some _ _ _ E) as (l1 & p & l2 & Hl & Hp & _).
      exists p. split.
      + rewrite Hl. apply in_or_app. right. now left.
      + unfold uncovered_at. rewrite Hp. reflexivity.
    - intros (p & Hin & Hu).
      destruct (find_map (event rs true false) (paths [] f)) as [e'|] eqn:E; [eauto|].
      exfalso. pose proof (find_map_none_inv _ _ E p Hin) as Hn.
      unfold uncovered_at in Hu. rewrite Hn in Hu. discriminate.
  Qed.

  (* ... and the error names the first such row in document order, with its path *)
  Theorem fatal_names_first rs f e :
    apply rs true false [] f = inr e ->
    exists l1 p l2, paths [] f = l1 ++ p :: l2 /\ e = EUncovered p /\
                    uncovered_at rmatch rsrc rrev norm rs p = true /\
                    forall q, In q l1 -> uncovered_at rmatch rsrc rrev norm rs q = false.
  Proof.
    rewrite apply_is_ref_run. unfold ref_run.
    destruct (find_map (event rs true false) (paths [] f)) as [e'|] eqn:E; [|discriminate].
    intros H. injection H as <-.
    destruct (find_map_some _ _ _ E) as (l1 & p & l2 & Hl & Hp & Hn).
    exists l1, p, l2. split; [exact Hl|]. split; [exact (event_fatal_names _ _ _ Hp)|]. split.
    - unfold uncovered_at. rewrite Hp. reflexivity.
    - intros q Hq. unfold uncovered_at. rewrite (Hn q Hq). reflexivity.
  Qed.

  (* ... and without such a row strict mode returns what lenient mode returns *)
  Theorem fatal_clean rs f :
    (forall p, In p (paths [] f) -> uncovered_at rmatch rsrc rrev norm rs p = false) ->
    apply rs true false [] f = inl (reff rs f).
  Proof.
    intros H. rewrite apply_is_ref_run. unfold ref_run. rewrite find_map_none; [reflexivity|].
    intros p Hp. specialize (H p Hp). unfold uncovered_at in H.
    destruct (event rs true false p); [discriminate | reflexivity].
  Qed.
End Proofs.

(* ---------- the predicate of Spec/P_C06.v on the model's own outputs ---------- *)

Lemma list_str_eqb_refl l : list_str_eqb l l = true.
Proof. apply list_str_eqb_eq. reflexivity. Qed.

Lemma names_eqb_refl l : names_eqb l l = true.
Proof.
  unfold names_eqb.
  assert (H : forallb (fun x => existsb (String.eqb x) l) l = true).
  { apply forallb_forall. intros x Hx. apply existsb_exists. exists x. split; [exact Hx | apply String.eqb_refl]. }
  rewrite H. reflexivity.
Qed.

Lemma outcome_eqb_refl o : outcome_eqb o o = true.
Proof.
  destruct o; cbn.
  - apply forest_eqb_refl.
  - apply list_str_eqb_refl.
  - rewrite list_str_eqb_refl, names_eqb_refl. reflexivity.
  - reflexivity.
Qed.

Lemma run_acl_is_ref v a fatal excl t : run_acl v a fatal excl t = ref_outcome v a fatal excl t.
Proof.
  unfold run_acl, ref_outcome, p_apply_acl, p_ref_run. destruct (compile_acl a) as [rs|]; [|reflexivity].
  rewrite apply_is_ref_run. destruct (ref_run _ _ _ _ rs fatal excl t) as [f|[p|p g]]; reflexivity.
Qed.

Lemma run_acl_tree v a fatal excl t f :
  run_acl v a fatal excl t = OTree f ->
  exists rs, compile_acl a = Some rs /\ f = p_ref_filter v rs t.
Proof.
  unfold run_acl, p_apply_acl. destruct (compile_acl a) as [rs|]; [|discriminate].
  destruct (apply_acl _ _ _ _ rs fatal excl [] t) as [g|[p|p g]] eqn:E; try discriminate.
  intros H. injection H as <-. exists rs. split; [reflexivity|].
  exact (apply_ok_exact _ _ _ _ _ _ _ _ _ _ E).
Qed.

Theorem model_case_holds v a b t excl : P_C06_core (model_case v a b t excl) = true.
Proof.
  unfold P_C06_core, model_case, holds_subtree, holds_exact, holds_fatal, holds_idem, holds_filter_config.
  cbn [cc_vendor cc_a cc_b cc_tree cc_excl cc_plain cc_fatal cc_twice cc_ob cc_oab cc_fcfg].
  rewrite <- !run_acl_is_ref. rewrite !outcome_eqb_refl. rewrite !andb_true_r.
  apply andb_true_iff. split; [apply andb_true_iff; split|].
  - destruct (run_acl v a false excl t) as [f| | |] eqn:E; try reflexivity.
    destruct (run_acl_tree _ _ _ _ _ _ E) as (rs & _ & ->). apply subb_prune.
  - destruct (run_acl v a true excl t) as [f| | |] eqn:E; try reflexivity.
    destruct (run_acl_tree _ _ _ _ _ _ E) as (rs & _ & ->). apply subb_prune.
  - destruct (run_acl v a false excl t) as [f| | |] eqn:E; try reflexivity.
    destruct (run_acl_tree _ _ _ _ _ _ E) as (rs & Hc & ->).
    unfold run_acl. rewrite Hc. unfold p_apply_acl. rewrite apply_lenient_exact.
    unfold p_ref_filter, ref_filter. rewrite prune_idem. apply forest_eqb_refl.
Qed.
