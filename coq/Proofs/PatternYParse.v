(* C07, second extension of the rule language (Model/PatternY.v): parser after printer.
   parse_ypat (print_ypat p) = Some p holds exactly for the well-formed patterns in the
   parser's normal form (yparse_canon): the parser reads a row of PatternX as PatternX does
   (so `a ~` is [a; ~] of PatternX, never YPat [a] ETilde) and reads a last word that has the
   shape of a special last word as that special word (so a last regex word `a\$` is taken for
   `w$` with w = `a\`, which is no literal: the row is rejected). *)
From Coq Require Import List String Ascii Bool Arith NArith Lia.
From Annet Require Import Base.Str Model.Pattern Model.PatternX Model.PatternY.
From Annet Require Import Spec.P_C07 Spec.P_C07X Spec.P_C07Y.
From Annet Require Import Proofs.RegexProofs Proofs.PatternProofs Proofs.PatternXProofs
     Proofs.PatternYProofs Proofs.PatternYReverse.
Import ListNotations.
Open Scope string_scope.
Open Scope list_scope.

Arguments Ascii.eqb : simpl never.
Arguments String.eqb : simpl never.
Arguments is_graph : simpl never.
Arguments py_ws : simpl never.
Arguments lit_char : simpl never.
Arguments is_ws : simpl never.

(* ------------------------------------------------------------------------------ *)
(* the parser's normal form                                                        *)

Definition is_none {A} (o : option A) : bool := match o with None => true | Some _ => false end.

Definition yparse_canon (p : ypat) : bool :=
  match yproj p with
  | Some _ => true
  | None =>
    is_none (parse_xpat (print_ypat p))          (* the text is not a row of PatternX *)
    && match y_end p, rev (y_toks p) with        (* no special last word: the last word does *)
       | EPlain, t :: _ => is_none (parse_yend (print_ytok t))   (* not look like one *)
       | _, _ => true
       end
  end.

(* a syntactic sufficient condition: some glued placeholder, and (when there is no special
   last word) a last word that is a literal, `*` or a glued placeholder *)
Definition is_glue (t : ytok) : bool := match t with YGlue _ _ => true | _ => false end.
Definition ylast_simple (t : ytok) : bool :=
  match t with YGlue _ _ | YX (XLit _) | YX XStar => true | _ => false end.
Definition yparse_simple (p : ypat) : bool :=
  existsb is_glue (y_toks p)
  && match y_end p, rev (y_toks p) with
     | EPlain, t :: _ => ylast_simple t
     | _, _ => true
     end.

(* ------------------------------------------------------------------------------ *)
(* words of the printed text                                                       *)

Lemma ypat_words_wp p : map l_of (ypat_words p) = map wp (ywords (y_toks p) (y_end p)).
Proof.
  unfold ypat_words, ywords. rewrite !map_app, !map_map. f_equal. destruct (y_end p); reflexivity.
Qed.

Lemma ypat_word_ok p w : forallb wf_ytok (y_toks p) = true -> wf_yend (y_end p) = true ->
  In w (ypat_words p) -> word_ok w = true.
Proof.
  intros Hts He Hin. destruct (ywords_wf _ _ Hts He) as [Hw _].
  apply (in_map l_of) in Hin. rewrite ypat_words_wp in Hin.
  apply in_map_iff in Hin as (yw & E & Hin). eapply forallb_forall in Hw; [|exact Hin].
  apply wp_graph in Hw as [H1 H2]. rewrite E in *. unfold word_ok. rewrite H1, andb_true_r.
  apply negb_true_iff. apply is_empty_l_of. exact H2.
Qed.

Lemma ywords_nonempty_words p : ywords (y_toks p) (y_end p) <> [] -> ypat_words p <> [].
Proof.
  intros H E. apply H. apply (f_equal (map l_of)) in E. rewrite ypat_words_wp in E.
  destruct (ywords (y_toks p) (y_end p)); [reflexivity | discriminate].
Qed.

Lemma wf_row_yprint p : wf_ynew p = true ->
  words (print_ypat p) = ypat_words p /\ wf_row (print_ypat p) = true.
Proof.
  intro Hwf. apply wf_ynew_parts in Hwf as (Hts & He & Hne).
  assert (W : words (print_ypat p) = ypat_words p).
  { unfold print_ypat. apply words_join. intros w Hin.
    pose proof (ypat_word_ok p w Hts He Hin) as Hw.
    unfold word_ok in Hw. apply andb_true_iff in Hw as [H1 H2]. split.
    - apply graph_no_ws. exact H2.
    - apply negb_true_iff. exact H1. }
  split; [exact W|]. unfold wf_row. rewrite W.
  destruct (ypat_words p) as [|x l] eqn:E; [exfalso; eapply ywords_nonempty_words; eauto|].
  rewrite <- E. fold (print_ypat p). rewrite String.eqb_refl, andb_true_r.
  apply forallb_forall. intros w Hin. eapply ypat_word_ok; eauto.
Qed.

(* ------------------------------------------------------------------------------ *)
(* string helpers                                                                  *)

Lemma lprefix_cons a b p s : lprefix (a :: p) (b :: s) = Ascii.eqb a b && lprefix p s.
Proof. reflexivity. Qed.

Lemma strip_suffix_app x suf : strip_suffix suf (x ++ suf) = Some x.
Proof.
  unfold strip_suffix. rewrite rev_app_distr, lprefix_app, app_length.
  replace (List.length x + List.length suf - List.length suf) with (List.length x + 0) by lia.
  rewrite firstn_app_2. cbn. rewrite app_nil_r. reflexivity.
Qed.

(* the last characters differ *)
Lemma strip_suffix_last1 j d i c : Ascii.eqb d c = false -> strip_suffix (j ++ [d]) (i ++ [c]) = None.
Proof.
  intro H. unfold strip_suffix. rewrite !rev_app_distr. cbn [rev app]. rewrite lprefix_cons, H. reflexivity.
Qed.

(* the last but one characters differ *)
Lemma strip_suffix_last2 j d1 d0 i c1 c0 : Ascii.eqb d1 c1 = false ->
  strip_suffix (j ++ [d1; d0]) (i ++ [c1; c0]) = None.
Proof.
  intro H. unfold strip_suffix. rewrite !rev_app_distr. cbn [rev app].
  rewrite !lprefix_cons, H, andb_false_r. reflexivity.
Qed.

Lemma eqb_tilde_false s : l_of s <> ["~"%char] -> String.eqb s "~" = false.
Proof. intro H. apply String.eqb_neq. intro E. subst s. apply H. reflexivity. Qed.

Lemma unsnoc_w_snoc l x : unsnoc_w (l ++ [x]) = Some (l, x).
Proof.
  induction l as [|a l IH]; [reflexivity|]. cbn [app unsnoc_w]. rewrite IH.
  destruct (l ++ [x]) eqn:E; [destruct l; discriminate | reflexivity].
Qed.

Lemma parse_star_body_nostar a r suf : Ascii.eqb a "*" = false -> parse_star_body (a :: r) suf = None.
Proof. intro H. unfold parse_star_body. destruct r; [reflexivity|]. rewrite H. reflexivity. Qed.

Lemma parse_star_body_star body suf :
  parse_star_body ("*"%char :: "/"%char :: body) suf =
  match strip_suffix (l_of suf) body with Some src => parse_sre_l src | None => None end.
Proof. reflexivity. Qed.

Lemma sre_ok_b_parse a : sre_ok_b a = true -> parse_sre_l (print_sre_l a) = Some a.
Proof.
  unfold sre_ok_b. intro H. apply andb_true_iff in H as [_ H].
  destruct (parse_sre_l (print_sre_l a)) as [r'|]; [|discriminate].
  apply sre_eqb_eq in H. subst. reflexivity.
Qed.

(* ------------------------------------------------------------------------------ *)
(* a word that starts with `*` is no regex                                         *)

Lemma p_atom_star n x : p_atom n ("*"%char :: x) = None.
Proof. destruct n; reflexivity. Qed.

Lemma p_post_star n x : p_post n ("*"%char :: x) = None.
Proof. destruct n; [reflexivity|]. cbn [p_post]. rewrite p_atom_star. reflexivity. Qed.

Lemma p_seq_star n x : p_seq n ("*"%char :: x) = None.
Proof.
  destruct n; [reflexivity|]. cbn [p_seq].
  change (Ascii.eqb "*" ")" || Ascii.eqb "*" "|") with false. cbn iota.
  rewrite p_post_star. reflexivity.
Qed.

Lemma p_alt_star n x : p_alt n ("*"%char :: x) = None.
Proof. destruct n; [reflexivity|]. cbn [p_alt]. rewrite p_seq_star. reflexivity. Qed.

Lemma parse_sre_star x : parse_sre_l ("*"%char :: x) = None.
Proof. unfold parse_sre_l. rewrite p_alt_star. reflexivity. Qed.

(* ------------------------------------------------------------------------------ *)
(* tokens                                                                          *)

Lemma split_last_noslash S : forallb noslash_c S = true -> split_last "/" S = None.
Proof.
  induction S as [|c S IH]; intro H; [reflexivity|].
  cbn [forallb] in H. apply andb_true_iff in H as [Hc H]. cbn [split_last]. rewrite IH by exact H.
  unfold noslash_c in Hc. apply negb_true_iff in Hc. rewrite Hc. reflexivity.
Qed.

Lemma split_last_app X S : forallb noslash_c S = true ->
  split_last "/" (X ++ "/"%char :: S) = Some (X, S).
Proof.
  intro H. induction X as [|c X IH].
  - cbn [app split_last]. rewrite split_last_noslash by exact H. rewrite Ascii.eqb_refl. reflexivity.
  - cbn [app split_last]. rewrite IH. reflexivity.
Qed.

Lemma parse_xtok_glue r suf : wf_ytok (YGlue r suf) = true ->
  parse_xtok (print_ytok (YGlue r suf)) = None.
Proof.
  intro H. apply wf_ytok_glue in H as (_ & H2 & H3).
  pose proof (wp_glue r suf) as L. unfold wp in L.
  pose proof (plain_chars _ H2) as Hc. apply plain_word_graph in H2 as [_ Hne].
  destruct (exists_last Hne) as (i & c & E).
  assert (Hz : Ascii.eqb c "/" = false).
  { apply no_slash_forall in H3. rewrite E in H3. apply forallb_last in H3.
    unfold noslash_c in H3. apply negb_true_iff in H3. exact H3. }
  assert (P : parse_tok (print_ytok (YGlue r suf)) = None).
  { unfold parse_tok.
    replace (String.eqb (print_ytok (YGlue r suf)) "*") with false
      by (symmetry; apply String.eqb_neq; intro N; rewrite N in L; discriminate).
    replace (String.eqb (print_ytok (YGlue r suf)) "~") with false
      by (symmetry; apply String.eqb_neq; intro N; rewrite N in L; discriminate).
    rewrite L. change (Ascii.eqb "*" "*" && Ascii.eqb "/" "/") with true. cbn iota.
    rewrite E.
    replace (print_sre_l r ++ "/"%char :: i ++ [c]) with ((print_sre_l r ++ "/"%char :: i) ++ [c])
      by (rewrite <- app_assoc; reflexivity).
    rewrite unsnoc_snoc, Hz. reflexivity. }
  unfold parse_xtok. rewrite P, L. change (Ascii.eqb "*" "~" && Ascii.eqb "/" "/") with false.
  cbn iota. rewrite parse_sre_star. reflexivity.
Qed.

Lemma parse_ytok_print t : wf_ytok t = true -> parse_ytok (print_ytok t) = Some t.
Proof.
  intro H. destruct t as [t|r suf].
  - apply wf_ytok_x in H as (H & _). unfold parse_ytok. cbn [print_ytok].
    rewrite parse_xtok_print by exact H. reflexivity.
  - unfold parse_ytok. rewrite parse_xtok_glue by exact H.
    pose proof (wp_glue r suf) as L. unfold wp in L. rewrite L.
    change (Ascii.eqb "*" "*" && Ascii.eqb "/" "/") with true. cbn iota.
    apply wf_ytok_glue in H as (H1 & _ & H3). apply no_slash_forall in H3.
    rewrite split_last_app by exact H3. rewrite sre_ok_parse by exact H1. rewrite s_of_l_of. reflexivity.
Qed.

Lemma parse_ytoks_print ts : forallb wf_ytok ts = true -> parse_ytoks (map print_ytok ts) = Some ts.
Proof.
  induction ts as [|t ts IH]; intro H; [reflexivity|].
  cbn [forallb] in H. apply andb_true_iff in H as [Ht H].
  cbn [map parse_ytoks]. rewrite parse_ytok_print, IH by assumption. reflexivity.
Qed.

(* ------------------------------------------------------------------------------ *)
(* the special last words                                                          *)

Definition end_word (e : yend) : string := match print_yend e with [s] => s | _ => "" end.

Lemma end_word_wp e : l_of (end_word e) = wp (WE e).
Proof. destruct e; reflexivity. Qed.

Lemma lit_first w : plain_word w = true ->
  exists c r, l_of w = c :: r /\ Ascii.eqb c "*" = false.
Proof.
  intro H. apply plain_word_first in H as (c & r & E & Hc). exists c, r. split; [exact E|].
  apply lit_char_facts in Hc as (_ & Hc & _). unfold neqc in Hc. apply negb_true_iff. exact Hc.
Qed.

Lemma parse_yend_print e : wf_yend e = true -> is_eplain e = false ->
  parse_yend (end_word e) = Some e.
Proof.
  intros W N. unfold parse_yend. pose proof (end_word_wp e) as L.
  destruct e as [| |w|w|a plus|w|r]; try discriminate.
  - reflexivity.
  - (* w... *)
    rewrite wp_dots in L. rewrite L.
    rewrite eqb_tilde_false.
    + rewrite strip_suffix_app, s_of_l_of. reflexivity.
    + rewrite L. intro E. change (l_of "...") with (["."; "."]%char ++ ["."%char]) in E.
      rewrite app_assoc in E. change ["~"%char] with ([] ++ ["~"%char]) in E.
      apply app_inj_tail in E as [_ E]. discriminate.
  - (* w~ *)
    cbn [wf_yend] in W. rewrite wp_littilde in L. rewrite L.
    destruct (lit_first _ W) as (c & r & Ec & Hc).
    rewrite eqb_tilde_false by (rewrite L, Ec; destruct r; discriminate).
    change (l_of "...") with (["."; "."]%char ++ ["."%char]).
    rewrite strip_suffix_last1 by reflexivity.
    rewrite Ec. cbn [app]. rewrite !parse_star_body_nostar by exact Hc.
    rewrite app_comm_cons, <- Ec. change (l_of "~") with ["~"%char].
    rewrite strip_suffix_app, s_of_l_of. reflexivity.
  - (* */a.*/ and */a.+/ *)
    apply wf_rest in W. rewrite wp_rest in L. rewrite L.
    rewrite eqb_tilde_false by (rewrite L; discriminate).
    change (l_of "...") with (["."; "."]%char ++ ["."%char]). rewrite !app_comm_cons.
    rewrite strip_suffix_last1 by reflexivity. cbn [app].
    rewrite !parse_star_body_star.
    destruct plus.
    + change (l_of ".*/") with (["."%char] ++ ["*"; "/"]%char).
      replace ((print_sre_l a ++ ["."; "+"]%char) ++ ["/"%char])
        with ((print_sre_l a ++ ["."%char]) ++ ["+"; "/"]%char)
        by (rewrite <- !app_assoc; reflexivity).
      rewrite strip_suffix_last2 by reflexivity.
      replace ((print_sre_l a ++ ["."%char]) ++ ["+"; "/"]%char) with (print_sre_l a ++ l_of ".+/")
        by (rewrite <- !app_assoc; reflexivity).
      rewrite strip_suffix_app, sre_ok_b_parse by exact W. reflexivity.
    + replace ((print_sre_l a ++ ["."; "*"]%char) ++ ["/"%char]) with (print_sre_l a ++ l_of ".*/")
        by (rewrite <- !app_assoc; reflexivity).
      rewrite strip_suffix_app, sre_ok_b_parse by exact W. reflexivity.
  - (* w$ *)
    cbn [wf_yend] in W. rewrite wp_endlit in L. rewrite L.
    destruct (lit_first _ W) as (c & r & Ec & Hc).
    rewrite eqb_tilde_false by (rewrite L, Ec; destruct r; discriminate).
    change (l_of "...") with (["."; "."]%char ++ ["."%char]).
    rewrite strip_suffix_last1 by reflexivity.
    rewrite Ec. cbn [app]. rewrite !parse_star_body_nostar by exact Hc.
    rewrite app_comm_cons, <- Ec. change (l_of "~") with ([] ++ ["~"%char]).
    rewrite strip_suffix_last1 by reflexivity.
    change (l_of "$") with ["$"%char].
    rewrite strip_suffix_app, s_of_l_of. reflexivity.
  - (* */r$/ *)
    apply wf_endre in W. rewrite wp_endre in L. rewrite L.
    rewrite eqb_tilde_false by (rewrite L; discriminate).
    change (l_of "...") with (["."; "."]%char ++ ["."%char]). rewrite !app_comm_cons.
    rewrite strip_suffix_last1 by reflexivity. cbn [app].
    rewrite !parse_star_body_star.
    replace ((print_sre_l r ++ ["$"%char]) ++ ["/"%char]) with (print_sre_l r ++ ["$"; "/"]%char)
      by (rewrite <- !app_assoc; reflexivity).
    change (l_of ".*/") with (["."%char] ++ ["*"; "/"]%char).
    rewrite strip_suffix_last2 by reflexivity.
    change (l_of ".+/") with (["."%char] ++ ["+"; "/"]%char).
    rewrite strip_suffix_last2 by reflexivity.
    change (l_of "$/") with ["$"; "/"]%char.
    rewrite strip_suffix_app, sre_ok_parse by exact W. reflexivity.
Qed.

(* ------------------------------------------------------------------------------ *)
(* the new forms                                                                   *)

Lemma parse_ynew_print ts e :
  forallb wf_ytok ts = true -> wf_yend e = true -> ywords ts e <> [] ->
  match e, rev ts with
  | EPlain, t :: _ => parse_yend (print_ytok t) = None
  | _, _ => True
  end ->
  parse_ynew (ypat_words (YPat ts e)) = Some (YPat ts e).
Proof.
  intros Hts He Hne G. unfold parse_ynew, ypat_words. cbn [y_toks y_end].
  destruct (is_eplain e) eqn:N.
  - destruct e; try discriminate. cbn [print_yend]. rewrite app_nil_r.
    destruct ts as [|t0 ts0] using rev_ind; [exfalso; apply Hne; reflexivity|]. clear IHts0.
    rewrite rev_app_distr in G. cbn [rev app] in G.
    rewrite map_app. cbn [map]. rewrite unsnoc_w_snoc, G.
    change [print_ytok t0] with (map print_ytok [t0]).
    rewrite <- map_app, parse_ytoks_print by exact Hts. reflexivity.
  - assert (E : print_yend e = [end_word e]) by (destruct e; try discriminate; reflexivity).
    rewrite E, unsnoc_w_snoc, parse_yend_print by assumption.
    rewrite parse_ytoks_print by exact Hts. reflexivity.
Qed.

Theorem parse_ypat_print p :
  wf_ypat p = true -> yparse_canon p = true -> parse_ypat (print_ypat p) = Some p.
Proof.
  unfold wf_ypat, yparse_canon. destruct (yproj p) as [xp|] eqn:Pj; intros Hwf G.
  - apply yproj_some in Pj. subst p. unfold parse_ypat.
    rewrite print_ypat_embed, parse_xpat_print by exact Hwf. reflexivity.
  - apply andb_true_iff in G as [G1 G2].
    unfold parse_ypat. destruct (parse_xpat (print_ypat p)); [discriminate|].
    destruct (wf_row_yprint p Hwf) as [W R]. rewrite R, W.
    pose proof (wf_ynew_parts _ Hwf) as (Hts & He & Hne).
    destruct p as [ts e]. cbn [y_toks y_end] in *.
    rewrite parse_ynew_print; try assumption.
    + rewrite Pj, Hwf, String.eqb_refl. reflexivity.
    + destruct e; try exact I. destruct (rev ts) as [|t rt]; [exact I|].
      destruct (parse_yend (print_ytok t)); [discriminate | reflexivity].
Qed.

(* ------------------------------------------------------------------------------ *)
(* the normal form is necessary                                                    *)

Lemma parse_yend_not_plain w : parse_yend w <> Some EPlain.
Proof.
  unfold parse_yend. destruct (String.eqb w "~"); [discriminate|].
  destruct (strip_suffix _ _); [discriminate|].
  destruct (parse_star_body _ _); [discriminate|].
  destruct (parse_star_body _ _); [discriminate|].
  destruct (parse_star_body _ _); [discriminate|].
  destruct (strip_suffix _ _); [discriminate|].
  destruct (strip_suffix _ _); discriminate.
Qed.

Theorem parse_ypat_print_canon p :
  wf_ypat p = true -> parse_ypat (print_ypat p) = Some p -> yparse_canon p = true.
Proof.
  unfold wf_ypat, yparse_canon. destruct (yproj p) as [xp|] eqn:Pj; intros Hwf H; [reflexivity|].
  unfold parse_ypat in H. destruct (parse_xpat (print_ypat p)) as [xq|].
  - injection H as <-. rewrite yproj_embed in Pj. discriminate.
  - cbn [is_none andb]. destruct (wf_row_yprint p Hwf) as [W R]. rewrite R, W in H.
    destruct (parse_ynew (ypat_words p)) as [q|] eqn:Eq; [|discriminate].
    destruct (_ && _ && _); [|discriminate]. injection H as ->.
    destruct p as [ts e]. cbn [y_toks y_end] in *. destruct e; try reflexivity.
    destruct ts as [|t0 ts0] using rev_ind; [reflexivity|]. clear IHts0.
    rewrite rev_app_distr. cbn [rev app].
    unfold parse_ynew, ypat_words in Eq. cbn [y_toks y_end print_yend] in Eq.
    rewrite app_nil_r, map_app in Eq. cbn [map] in Eq. rewrite unsnoc_w_snoc in Eq.
    destruct (parse_yend (print_ytok t0)) as [e'|] eqn:Ee; [|reflexivity].
    exfalso. destruct (parse_ytoks (map print_ytok ts0)) as [ts'|]; [|discriminate].
    cbn [option_map] in Eq. injection Eq as _ E2. subst e'. eapply parse_yend_not_plain; eauto.
Qed.

Theorem parse_ypat_print_iff p :
  wf_ypat p = true -> (parse_ypat (print_ypat p) = Some p <-> yparse_canon p = true).
Proof. intro H. split; [apply parse_ypat_print_canon | apply parse_ypat_print]; exact H. Qed.

(* ------------------------------------------------------------------------------ *)
(* the syntactic condition implies the normal form                                 *)

Lemma parse_xtoks_glue ts e : forallb wf_ytok ts = true -> existsb is_glue ts = true ->
  parse_xtoks (ypat_words (YPat ts e)) = None.
Proof.
  unfold ypat_words. cbn [y_toks y_end]. induction ts as [|t ts IH]; intros Hwf Hg; [discriminate|].
  cbn [forallb] in Hwf. apply andb_true_iff in Hwf as [Ht Hwf].
  cbn [map app parse_xtoks]. destruct t as [t|r suf].
  - cbn [existsb is_glue orb] in Hg. rewrite IH by assumption.
    destruct (parse_xtok (print_ytok (YX t))); reflexivity.
  - rewrite parse_xtok_glue by exact Ht. reflexivity.
Qed.

Lemma parse_star_body_last w suf j i c : l_of suf = j ++ ["/"%char] -> w = i ++ [c] ->
  Ascii.eqb "/" c = false -> parse_star_body w suf = None.
Proof.
  intros Es Ew Hc. unfold parse_star_body. destruct w as [|a [|b body]]; try reflexivity.
  destruct (Ascii.eqb a "*" && Ascii.eqb b "/"); [|reflexivity].
  rewrite Es. destruct i as [|x [|y i]].
  - discriminate.
  - cbn in Ew. injection Ew as _ _ E. subst body. unfold strip_suffix. rewrite rev_app_distr. reflexivity.
  - cbn in Ew. injection Ew as _ _ E. subst body. rewrite strip_suffix_last1 by exact Hc. reflexivity.
Qed.

Lemma parse_yend_lastchar w i c :
  l_of w = i ++ [c] ->
  Ascii.eqb "." c = false -> Ascii.eqb "/" c = false -> Ascii.eqb "~" c = false -> Ascii.eqb "$" c = false ->
  parse_yend w = None.
Proof.
  intros E H1 H2 H3 H4. unfold parse_yend.
  rewrite eqb_tilde_false.
  - rewrite E. change (l_of "...") with (["."; "."]%char ++ ["."%char]).
    rewrite strip_suffix_last1 by exact H1.
    rewrite (parse_star_body_last _ ".*/" ["."; "*"]%char i c), (parse_star_body_last _ ".+/" ["."; "+"]%char i c),
      (parse_star_body_last _ "$/" ["$"%char] i c) by (try reflexivity; exact H2).
    change (l_of "~") with ([] ++ ["~"%char]). rewrite strip_suffix_last1 by exact H3.
    change (l_of "$") with ([] ++ ["$"%char]). rewrite strip_suffix_last1 by exact H4. reflexivity.
  - rewrite E. intro N. change ["~"%char] with ([] ++ ["~"%char]) in N.
    apply app_inj_tail in N as [-> ->]. rewrite Ascii.eqb_refl in H3. discriminate.
Qed.

Lemma lit_char_last c : lit_char c = true ->
  Ascii.eqb "." c = false /\ Ascii.eqb "~" c = false /\ Ascii.eqb "$" c = false.
Proof. destruct c as [[] [] [] [] [] [] [] []]; vm_compute; try discriminate; auto. Qed.

Lemma parse_yend_simple t : wf_ytok t = true -> ylast_simple t = true ->
  parse_yend (print_ytok t) = None.
Proof.
  intros Hwf Hs. destruct t as [[w| |r| |r|r]|r suf]; try discriminate.
  - apply wf_ytok_x in Hwf as (Hwf & _). cbn [wf_xtok print_ytok print_xtok] in *.
    pose proof (plain_chars _ Hwf) as Hc. destruct (lit_first _ Hwf) as (c0 & r0 & E0 & Hs0).
    destruct (plain_word_graph _ Hwf) as [_ Hne]. destruct (exists_last Hne) as (i & c & E).
    rewrite E in Hc. apply forallb_last in Hc. apply lit_char_last in Hc as (H1 & H3 & H4).
    unfold parse_yend. rewrite eqb_tilde_false.
    + rewrite E. change (l_of "...") with (["."; "."]%char ++ ["."%char]).
      rewrite strip_suffix_last1 by exact H1. rewrite <- E, E0.
      rewrite !parse_star_body_nostar by exact Hs0. rewrite <- E0, E.
      change (l_of "~") with ([] ++ ["~"%char]). rewrite strip_suffix_last1 by exact H3.
      change (l_of "$") with ([] ++ ["$"%char]). rewrite strip_suffix_last1 by exact H4. reflexivity.
    + rewrite E. intro N. change ["~"%char] with ([] ++ ["~"%char]) in N.
      apply app_inj_tail in N as [_ ->]. discriminate.
  - reflexivity.
  - pose proof (wp_glue r suf) as L. unfold wp in L.
    apply wf_ytok_glue in Hwf as (_ & H2 & H3).
    pose proof (plain_chars _ H2) as Hc. destruct (plain_word_graph _ H2) as [_ Hne].
    destruct (exists_last Hne) as (i & c & E).
    apply no_slash_forall in H3. rewrite E in Hc, H3. apply forallb_last in Hc, H3.
    apply lit_char_last in Hc as (H1 & H3' & H4).
    assert (Hsl : Ascii.eqb "/" c = false).
    { unfold noslash_c in H3. apply negb_true_iff in H3. destruct (Ascii.eqb "/" c) eqn:Q; [|reflexivity].
      apply Ascii.eqb_eq in Q. subst c. discriminate. }
    eapply (parse_yend_lastchar _ ("*"%char :: "/"%char :: print_sre_l r ++ "/"%char :: i) c); try assumption.
    rewrite L, E. cbn [app]. rewrite <- app_assoc. reflexivity.
Qed.

Theorem yparse_simple_canon p :
  wf_ypat p = true -> yparse_simple p = true -> yparse_canon p = true.
Proof.
  unfold wf_ypat, yparse_canon, yparse_simple. destruct (yproj p) as [xp|] eqn:Pj; intros Hwf G; [reflexivity|].
  apply andb_true_iff in G as [G1 G2].
  pose proof (wf_ynew_parts _ Hwf) as (Hts & He & Hne).
  destruct (wf_row_yprint p Hwf) as [W R].
  apply andb_true_iff. split.
  - unfold parse_xpat. rewrite R, W. destruct p as [ts e]. cbn [y_toks y_end] in *.
    rewrite parse_xtoks_glue by assumption. reflexivity.
  - destruct (y_end p); try reflexivity. destruct (rev (y_toks p)) as [|t rt] eqn:Er; [reflexivity|].
    rewrite parse_yend_simple; [reflexivity | | exact G2].
    eapply forallb_forall in Hts; [exact Hts|]. apply in_rev. rewrite Er. left. reflexivity.
Qed.

Theorem parse_ypat_print_simple p :
  wf_ypat p = true -> yparse_simple p = true -> parse_ypat (print_ypat p) = Some p.
Proof. intros H G. apply parse_ypat_print; [exact H | apply yparse_simple_canon; assumption]. Qed.

(* ------------------------------------------------------------------------------ *)
(* the unguarded statement fails                                                   *)

Theorem parse_ypat_print_refuted :
  exists p, wf_ypat p = true /\ parse_ypat (print_ypat p) <> Some p.
Proof. exists (YPat [YX (XLit "a")] ETilde). split; [reflexivity|]. vm_compute. discriminate. Qed.

(* second kind of witness: the printed text is rejected *)
Theorem parse_ypat_print_refuted_none :
  exists p, wf_ypat p = true /\ parse_ypat (print_ypat p) = None.
Proof.
  exists (YPat [YGlue (SChr "a") "x"; YX (XLitRe (SCat (SChr "a") (SEsc "$")))] EPlain).
  split; vm_compute; reflexivity.
Qed.
