(* C17 proof library, part 2: the clauses of the property, proved of the declarative
   completion [complete] for every matcher, every rule tree and config trees of any depth. *)
From Coq Require Import List String Ascii Bool Arith Lia.
From Annet Require Import Base.Str Base.Tree Model.Implicit Spec.P_C17 Proofs.ImplicitLib.
Import ListNotations.
Open Scope string_scope.
Open Scope list_scope.

(* ---------- order-preserving subtree ---------- *)
Fixpoint sub_f (la lb : forest) {struct la} : bool :=
  match la with
  | [] => true
  | (k, va) :: la' =>
    (fix find (lb : forest) : bool :=
       match lb with
       | [] => false
       | (k', vb) :: lb' => if String.eqb k k' then subtree_t va vb && sub_f la' lb' else find lb'
       end) lb
  end.

Lemma subtree_t_eq ka b : subtree_t (T ka) b = sub_f ka (kids b).
Proof.
  cbn [subtree_t]. generalize (kids b). induction ka as [|[k va] ka IH]; intros lb; [reflexivity|].
  cbn [sub_f]. induction lb as [|[k' vb] lb IHb]; [reflexivity|].
  destruct (String.eqb k k'); [rewrite IH; reflexivity | exact IHb].
Qed.

Lemma sub_f_cons_same k va vb la lb :
  sub_f ((k, va) :: la) ((k, vb) :: lb) = subtree_t va vb && sub_f la lb.
Proof. cbn [sub_f]. rewrite String.eqb_refl. reflexivity. Qed.

Lemma sub_f_nil lb : sub_f [] lb = true.
Proof. reflexivity. Qed.

(* aligned lists: same keys in the same order, children embedded; anything may follow *)
Lemma sub_f_map (g : string * tree -> string * tree) tail : forall l,
  (forall kv, In kv l -> fst (g kv) = fst kv /\ subtree_t (snd kv) (snd (g kv)) = true) ->
  sub_f l (map g l ++ tail) = true.
Proof.
  induction l as [|[k v] l IH]; intros H; [reflexivity|].
  cbn [map app]. destruct (H (k, v) (or_introl eq_refl)) as [H1 H2]. cbn [fst snd] in H1, H2.
  destruct (g (k, v)) as [k' v'] eqn:Eg. cbn [fst snd] in H1, H2. subst k'.
  rewrite sub_f_cons_same, H2. cbn [andb]. apply IH. intros kv Hkv. apply H. now right.
Qed.

Lemma subtree_refl : forall a, subtree_t a a = true.
Proof.
  apply (tree_ind2 (fun a => subtree_t a a = true)
                   (fun f => forall kv, In kv f -> subtree_t (snd kv) (snd kv) = true)).
  - intros ks IH. rewrite subtree_t_eq. cbn [kids].
    rewrite <- (app_nil_r ks) at 2. rewrite <- (map_id ks) at 2.
    apply sub_f_map. intros kv Hkv. split; [reflexivity | apply IH; exact Hkv].
  - intros kv [].
  - intros r t k IHt IHk kv [E|Hin]; [subst kv; exact IHt | apply IHk; exact Hin].
Qed.

Section Clauses.
  Variable rm : string -> string -> bool.

  (* ---- clause 1: explicit rows kept, in order, at every depth ---- *)
  Lemma kept_t : forall c rs, subtree_t c (complete_t rm rs c) = true.
  Proof.
    apply (tree_ind2 (fun c => forall rs, subtree_t c (complete_t rm rs c) = true)
                     (fun f => forall kv, In kv f -> forall rs, subtree_t (snd kv) (complete_t rm rs (snd kv)) = true)).
    - intros ks IH rs. rewrite complete_t_eq, subtree_t_eq. cbn [kids].
      apply sub_f_map. intros kv Hkv. cbn [fst snd]. split; [reflexivity|].
      destruct (last_match rm rs (fst kv)); [apply IH; exact Hkv | apply subtree_refl].
    - intros kv [].
    - intros r t k IHt IHk kv [E|Hin]; [subst kv; exact IHt | apply IHk; exact Hin].
  Qed.

  Theorem explicit_kept rs t : subtree t (complete rm rs t) = true.
  Proof.
    unfold subtree. replace (T (complete rm rs t)) with (complete_t rm rs (T t)).
    - apply kept_t.
    - rewrite complete_t_kids. reflexivity.
  Qed.

  (* ---- membership in the completed level ---- *)
  Lemma keys_complete rs t : keys (complete rm rs t) = keys t ++ keys (defaults rm rs t).
  Proof.
    rewrite complete_eq. unfold keys. rewrite map_app, map_map. cbn [fst]. reflexivity.
  Qed.

  Lemma keys_defaults rs t k :
    In k (keys (defaults rm rs t)) <-> exists r, In r rs /\ wants_default rm t r = true /\ i_row r = k.
  Proof.
    unfold defaults, keys. rewrite map_map. cbn [fst]. rewrite in_map_iff. split.
    - intros (r & E & Hr). apply filter_In in Hr as [H1 H2]. exists r. auto.
    - intros (r & H1 & H2 & E). exists r. split; [exact E|]. apply filter_In. auto.
  Qed.

  Lemma wants_default_iff t r :
    wants_default rm t r = true <-> i_ign r = false /\ has_match rm (i_row r) t = false /\ ~ In (i_row r) (keys t).
  Proof.
    unfold wants_default. rewrite !andb_true_iff, !negb_true_iff, has_key_false. tauto.
  Qed.

  (* for a non-`!` rule: the default row is in the completed level iff the level has no row
     matching the rule's pattern, or has the default row itself *)
  Theorem default_iff_level rs t r : In r rs -> i_ign r = false ->
    (In (i_row r) (keys (complete rm rs t)) <->
     has_match rm (i_row r) t = false \/ In (i_row r) (keys t)).
  Proof.
    intros Hr Hi. rewrite keys_complete, in_app_iff, keys_defaults. split.
    - intros [H|(r' & H1 & H2 & E)]; [now right|].
      apply wants_default_iff in H2 as (_ & H2 & _). rewrite E in H2. now left.
    - intros [H|H]; [|now left].
      destruct (in_dec string_dec (i_row r) (keys t)) as [Hin|Hin]; [now left|].
      right. exists r. split; [exact Hr|]. split; [|reflexivity]. apply wants_default_iff. auto.
  Qed.

  (* a row that is added (not an explicit row) is exactly a wanted default, childless *)
  Theorem added_iff_level rs t k c :
    In (k, c) (complete rm rs t) -> ~ In k (keys t) ->
    c = T [] /\ exists r, In r rs /\ i_row r = k /\ i_ign r = false /\ has_match rm k t = false.
  Proof.
    rewrite complete_eq, in_app_iff. intros [H|H] Hn.
    - exfalso. apply Hn. apply in_map_iff in H as (kv & E & Hkv). injection E as E1 E2. subst k.
      apply in_map. exact Hkv.
    - unfold defaults in H. apply in_map_iff in H as (r & E & Hr). injection E as E1 E2. subst k c.
      apply filter_In in Hr as [H1 H2]. apply wants_default_iff in H2 as (H2 & H3 & _).
      split; [reflexivity|]. exists r. auto.
  Qed.
End Clauses.

(* ---------- paths ---------- *)
Lemma lookup_map_keyed (h : string * tree -> tree) x : forall t,
  lookup x (map (fun kv : string * tree => (fst kv, h kv)) t) =
  match lookup x t with Some c => Some (h (x, c)) | None => None end.
Proof.
  induction t as [|[k c] t IH]; [reflexivity|]. cbn [map lookup fst].
  destruct (String.eqb_spec k x) as [E|E]; [subst; reflexivity | exact IH].
Qed.

Lemma has_match_keys rm pat f : has_match rm pat f = existsb (rm pat) (keys f).
Proof. unfold has_match, keys. cbv zeta. induction f as [|kv f IH]; [reflexivity|]. cbn. rewrite IH. reflexivity. Qed.

Lemma has_match_app rm pat f g : has_match rm pat (f ++ g) = has_match rm pat f || has_match rm pat g.
Proof. rewrite !has_match_keys. unfold keys. rewrite map_app, existsb_app. reflexivity. Qed.

Section Paths.
  Variable rm : string -> string -> bool.

  Definition gcomp (rs : list irule) (kv : string * tree) : tree :=
    match last_match rm rs (fst kv) with
    | Some r => T (complete rm (i_kids r) (kids (snd kv)))
    | None => snd kv
    end.

  Lemma complete_eq' rs ks :
    complete rm rs ks = map (fun kv : string * tree => (fst kv, gcomp rs kv)) ks ++ defaults rm rs ks.
  Proof. apply complete_eq. Qed.

  Lemma lookup_complete_explicit rs t x c : lookup x t = Some c ->
    lookup x (complete rm rs t) = Some (gcomp rs (x, c)).
  Proof.
    intros H. rewrite complete_eq', lookup_app, lookup_map_keyed, H. reflexivity.
  Qed.

  (* the completion commutes with descending along explicit rows *)
  Theorem complete_at : forall p rs t rs' t',
    rules_at rm rs p = Some rs' -> sub_at p t = Some t' ->
    sub_at p (complete rm rs t) = Some (complete rm rs' t').
  Proof.
    induction p as [|x p IH]; intros rs t rs' t' Hr Ht; cbn [rules_at sub_at] in *.
    - injection Hr as E1. injection Ht as E2. subst. reflexivity.
    - destruct (last_match rm rs x) as [r|] eqn:El; [|discriminate].
      destruct (lookup x t) as [c|] eqn:Ec; [|discriminate].
      rewrite (lookup_complete_explicit rs t x c Ec). unfold gcomp. cbn [fst snd]. rewrite El. cbn [kids].
      apply IH; assumption.
  Qed.

  (* clause 3 at any depth: at every parent reached through explicit rows and their rules *)
  Theorem default_iff_at p rs t rs' t' r :
    rules_at rm rs p = Some rs' -> sub_at p t = Some t' -> In r rs' -> i_ign r = false ->
    exists m', sub_at p (complete rm rs t) = Some m' /\
               (In (i_row r) (keys m') <-> has_match rm (i_row r) t' = false \/ In (i_row r) (keys t')).
  Proof.
    intros Hr Ht Hin Hi. exists (complete rm rs' t'). split.
    - apply complete_at; assumption.
    - apply default_iff_level; assumption.
  Qed.

  (* ---- well-formedness is preserved ---- *)
  Lemma okf_app f g : okf f -> okf g -> (forall k, In k (keys f) -> ~ In k (keys g)) -> okf (f ++ g).
  Proof.
    induction 1 as [|r c f Hr Hn Hc _ Hf IH]; intros Hg Hd; [exact Hg|]. cbn [app]. constructor.
    - exact Hr.
    - unfold keys. rewrite map_app, in_app_iff. intros [H|H]; [exact (Hn H)|].
      apply (Hd r); [now left | exact H].
    - exact Hc.
    - apply IH; [exact Hg|]. intros k Hk. apply Hd. now right.
  Qed.

  Lemma okf_defaults rs t : wfr rs -> okf (defaults rm rs t).
  Proof.
    unfold defaults. induction 1 as [|r rs Hr Hn Hk _ Hw IH]; cbn; [constructor|].
    destruct (wants_default rm t r); cbn; [|exact IH].
    constructor; [exact Hr| |constructor|exact IH].
    unfold keys. rewrite map_map. cbn [fst]. intro Hin. apply Hn.
    apply in_map_iff in Hin as (r' & E & Hr'). apply filter_In in Hr' as [Hr' _].
    apply in_map_iff. exists r'. auto.
  Qed.

  Lemma complete_okf_t : forall c rs, okf (kids c) -> wfr rs -> okf (complete rm rs (kids c)).
  Proof.
    apply (tree_ind2 (fun c => forall rs, okf (kids c) -> wfr rs -> okf (complete rm rs (kids c)))
                     (fun f => forall kv, In kv f -> forall rs, okf (kids (snd kv)) -> wfr rs ->
                                                            okf (complete rm rs (kids (snd kv))))).
    - intros ks IH rs Hok Hw. cbn [kids] in *. rewrite complete_eq'. apply okf_app.
      + induction Hok as [|r c f Hr Hn Hc _ Hf IHf]; cbn [map]; [constructor|].
        constructor.
        * exact Hr.
        * unfold keys. rewrite map_map. cbn [fst]. exact Hn.
        * unfold gcomp. cbn [fst snd]. destruct (last_match rm rs r) as [r0|] eqn:El; [|exact Hc].
          cbn [kids]. apply (IH (r, c)); [now left | exact Hc|].
          apply last_match_In in El as [E1 _]. apply (wfr_In rs Hw r0 E1).
        * apply IHf. intros kv Hkv. apply IH. now right.
      + apply okf_defaults. exact Hw.
      + intros k Hk Hd. unfold keys in Hk. rewrite map_map in Hk. cbn [fst] in Hk.
        apply keys_defaults in Hd as (r & _ & Hd & E). apply wants_default_iff in Hd as (_ & _ & Hd).
        subst k. exact (Hd Hk).
    - intros kv [].
    - intros r t k IHt IHk kv [E|Hin]; [subst kv; exact IHt | apply IHk; exact Hin].
  Qed.

  Theorem complete_okf rs t : okf t -> wfr rs -> okf (complete rm rs t).
  Proof. apply (complete_okf_t (T t)). Qed.
End Paths.

(* ---------- clause 2: completing twice ---------- *)
Section Idem.
  Variable rm : string -> string -> bool.

  Lemma idem_guard_In rs r : idem_guard rm rs = true -> In r rs ->
    (i_ign r = true \/
     match last_match rm rs (i_row r) with Some b => defaults rm (i_kids b) [] = [] | None => True end)
    /\ idem_guard rm (i_kids r) = true.
  Proof.
    unfold idem_guard at 1. rewrite forallb_forall. intros H Hin. specialize (H r Hin).
    destruct r as [row ign ks]. cbn [idem_guard_r] in H. apply andb_true_iff in H as [H1 H2].
    cbn [i_ign i_row i_kids]. split; [|exact H2].
    apply orb_true_iff in H1 as [H1|H1]; [now left | right].
    destruct (last_match rm rs row) as [b|]; [|exact I].
    destruct (defaults rm (i_kids b) []); [reflexivity | discriminate].
  Qed.

  Lemma complete_nil rs : complete rm rs [] = defaults rm rs [].
  Proof. rewrite complete_eq. reflexivity. Qed.

  Lemma complete_idem_t : forall c rs, idem_guard rm rs = true ->
    complete rm rs (complete rm rs (kids c)) = complete rm rs (kids c).
  Proof.
    apply (tree_ind2
             (fun c => forall rs, idem_guard rm rs = true ->
                                  complete rm rs (complete rm rs (kids c)) = complete rm rs (kids c))
             (fun f => forall kv, In kv f -> forall rs, idem_guard rm rs = true ->
                                  complete rm rs (complete rm rs (kids (snd kv))) = complete rm rs (kids (snd kv)))).
    - intros ks IH rs Hg. cbn [kids].
      set (g := fun kv : string * tree => (fst kv, gcomp rm rs kv)).
      assert (Em : complete rm rs ks = map g ks ++ defaults rm rs ks) by apply complete_eq'.
      rewrite Em. rewrite (complete_eq' rm rs (map g ks ++ defaults rm rs ks)). fold g.
      rewrite map_app.
      (* (a) explicit rows: same rule, children completed twice *)
      assert (Ha : map g (map g ks) = map g ks).
      { rewrite map_map. apply map_ext_in. intros kv Hkv. unfold g, gcomp. cbn [fst snd]. f_equal.
        destruct (last_match rm rs (fst kv)) as [r|] eqn:El; [|reflexivity].
        cbn [kids]. f_equal. apply (IH kv Hkv).
        apply last_match_In in El as [Hr _]. apply (idem_guard_In rs r Hg Hr). }
      (* (b) default rows read as configuration rows: their rule adds nothing below them *)
      assert (Hb : map g (defaults rm rs ks) = defaults rm rs ks).
      { unfold defaults. rewrite map_map. apply map_ext_in. intros r Hr.
        apply filter_In in Hr as [Hr Hw]. unfold g, gcomp. cbn [fst snd kids]. f_equal.
        destruct (idem_guard_In rs r Hg Hr) as [[Hi|Hi] _].
        - apply wants_default_iff in Hw as (Hw & _). congruence.
        - destruct (last_match rm rs (i_row r)) as [b|]; [|reflexivity].
          rewrite complete_nil, Hi. reflexivity. }
      (* (c) nothing is wanted any more *)
      assert (Hc : defaults rm rs (map g ks ++ defaults rm rs ks) = []).
      { unfold defaults at 1. replace (filter _ rs) with (@nil irule); [reflexivity|]. symmetry.
        assert (Hall : forall l, (forall r, In r l -> In r rs) ->
                       filter (wants_default rm (map g ks ++ defaults rm rs ks)) l = []).
        { induction l as [|r l IHl]; intros Hsub; [reflexivity|]. cbn [filter].
          replace (wants_default rm (map g ks ++ defaults rm rs ks) r) with false.
          - apply IHl. intros r' Hr'. apply Hsub. now right.
          - symmetry. unfold wants_default.
            destruct (i_ign r) eqn:Hi; [reflexivity|]. cbn [negb andb].
            rewrite has_match_app.
            assert (Hmk : has_match rm (i_row r) (map g ks) = has_match rm (i_row r) ks).
            { rewrite !has_match_keys. unfold keys, g. rewrite map_map. reflexivity. }
            rewrite Hmk. destruct (has_match rm (i_row r) ks) eqn:Hm; [reflexivity|]. cbn [orb].
            destruct (has_match rm (i_row r) (defaults rm rs ks)); [reflexivity|]. cbn [negb andb].
            apply negb_false_iff. apply has_key_In. unfold keys. rewrite map_app, in_app_iff.
            destruct (in_dec string_dec (i_row r) (keys ks)) as [Hk|Hk].
            + left. unfold g. rewrite map_map. exact Hk.
            + right. apply keys_defaults. exists r. split; [apply Hsub; now left|]. split; [|reflexivity].
              apply wants_default_iff. auto. }
        apply Hall. auto. }
      rewrite Ha, Hb, Hc, app_nil_r. reflexivity.
    - intros kv [].
    - intros r t k IHt IHk kv [E|Hin]; [subst kv; exact IHt | apply IHk; exact Hin].
  Qed.

  Theorem complete_idem rs t : idem_guard rm rs = true ->
    complete rm rs (complete rm rs t) = complete rm rs t.
  Proof. apply (complete_idem_t (T t)). Qed.
End Idem.

(* ---------- clause 3 as the boolean predicate evaluated on implementation outputs ---------- *)
Section IffBool.
  Variable rm : string -> string -> bool.

  Lemma iff_t_eq rs kt m :
    iff_t rm rs (T kt) m =
    level_iff rm rs kt (kids m) && only_defaults rs kt (kids m) &&
    forallb (fun kv : string * tree =>
               match lookup (fst kv) (kids m) with
               | None => false
               | Some cm => match last_match rm rs (fst kv) with
                            | Some r => iff_t rm (i_kids r) (snd kv) cm
                            | None => tree_eqb (snd kv) cm
                            end
               end) kt.
  Proof.
    cbn [iff_t]. f_equal.
    induction kt as [|[k c] kt IH]; [reflexivity|]. cbn [forallb fst snd]. rewrite <- IH. reflexivity.
  Qed.

  Lemma level_iff_complete rs t : level_iff rm rs t (complete rm rs t) = true.
  Proof.
    unfold level_iff. apply forallb_forall. intros r Hr.
    destruct (i_ign r) eqn:Hi; [reflexivity|]. cbn [orb]. apply eqb_true_iff.
    pose proof (default_iff_level rm rs t r Hr Hi) as H.
    destruct (has_key (i_row r) (complete rm rs t)) eqn:E1.
    - apply has_key_In in E1. apply H in E1. symmetry. destruct E1 as [E1|E1].
      + rewrite E1. reflexivity.
      + apply has_key_In in E1. rewrite E1. apply orb_true_r.
    - apply has_key_false in E1. symmetry. apply orb_false_iff. split.
      + apply negb_false_iff. destruct (has_match rm (i_row r) t) eqn:E2; [reflexivity|].
        exfalso. apply E1. apply H. now left.
      + apply has_key_false. intro Hk. apply E1. apply H. now right.
  Qed.

  Lemma only_defaults_complete rs t : only_defaults rs t (complete rm rs t) = true.
  Proof.
    unfold only_defaults. apply forallb_forall. intros [k c] Hin. cbn [fst snd].
    destruct (has_key k t) eqn:E; [reflexivity|]. cbn [orb]. apply has_key_false in E.
    destruct (added_iff_level rm rs t k c Hin E) as (Ec & r & Hr & Er & Hi & _). subst c.
    rewrite andb_true_r. apply existsb_exists. exists r. split; [exact Hr|].
    rewrite Hi, Er, String.eqb_refl. reflexivity.
  Qed.

  Lemma iff_complete_t : forall c rs, wf (kids c) -> iff_t rm rs c (complete_t rm rs c) = true.
  Proof.
    apply (tree_ind2
             (fun c => forall rs, wf (kids c) -> iff_t rm rs c (complete_t rm rs c) = true)
             (fun f => forall kv, In kv f -> forall rs, wf (kids (snd kv)) ->
                                  iff_t rm rs (snd kv) (complete_t rm rs (snd kv)) = true)).
    - intros ks IH rs Hwf. cbn [kids] in Hwf. rewrite complete_t_kids, iff_t_eq. cbn [kids].
      rewrite level_iff_complete, only_defaults_complete. cbn [andb].
      apply forallb_forall. intros [k c] Hin. cbn [fst snd].
      assert (Hl : lookup k ks = Some c).
      { apply lookup_In; [|exact Hin]. clear -Hwf. induction Hwf; cbn; constructor; assumption. }
      rewrite (lookup_complete_explicit rm rs ks k c Hl). unfold gcomp. cbn [fst snd].
      assert (Hwc : wf (kids c)).
      { clear -Hwf Hin. induction Hwf as [|r0 c0 f Hn Hc _ Hf IHf]; [destruct Hin|].
        destruct Hin as [E|Hin]; [injection E as E1 E2; subst; exact Hc | apply IHf; exact Hin]. }
      destruct (last_match rm rs k) as [r|].
      + rewrite <- complete_t_kids. apply (IH (k, c) Hin). exact Hwc.
      + apply tree_eqb_eq. reflexivity.
    - intros kv [].
    - intros r t k IHt IHk kv [E|Hin]; [subst kv; exact IHt | apply IHk; exact Hin].
  Qed.

  Theorem iff_complete rs t : wf t -> default_iff rm rs t (complete rm rs t) = true.
  Proof.
    intros Hwf. unfold default_iff. replace (T (complete rm rs t)) with (complete_t rm rs (T t)).
    - apply iff_complete_t. exact Hwf.
    - rewrite complete_t_kids. reflexivity.
  Qed.
End IffBool.
