(* The indentation-stack parser of tabparser.py computes the declarative offside
   reference of Spec/P_C05.v — for every list of lines, any depth, any widths. *)
From Coq Require Import List String Ascii Bool Arith Lia.
From Annet Require Import Base.Str Base.Tree Model.Offside Spec.P_C05.
Import ListNotations.
Open Scope list_scope.
Arguments Nat.ltb : simpl never.
Arguments Nat.leb : simpl never.
Arguments Nat.sub : simpl never.

(* ---------- generic list facts ---------- *)

Fixpoint dropwhile {A} (f : A -> bool) (l : list A) : list A :=
  match l with
  | [] => []
  | x :: r => if f x then dropwhile f r else l
  end.

Lemma find_dropwhile {A} (P Q : A -> bool) (l : list A) :
  (forall x, Q x = true -> P x = false) -> find P (dropwhile Q l) = find P l.
Proof.
  intros H. induction l as [|x r IH]; cbn; [reflexivity|].
  destruct (Q x) eqn:E.
  - rewrite (H x E). exact IH.
  - reflexivity.
Qed.

Lemma stacked_firstn stack depth row :
  stacked stack depth row = firstn depth stack ++ [row].
Proof.
  unfold stacked.
  destruct (Nat.ltb_spec (List.length stack) (S depth)) as [H|H].
  - rewrite firstn_all2 by lia. reflexivity.
  - destruct (Nat.eqb_spec (S depth) (List.length stack)) as [E|E].
    + rewrite removelast_firstn_len. rewrite <- E. reflexivity.
    + replace (S depth - 1) with depth by lia. reflexivity.
Qed.

Lemma find_none_intro {A} (f : A -> bool) l : (forall x, In x l -> f x = false) -> find f l = None.
Proof.
  induction l as [|x r IH]; intros H; cbn; [reflexivity|].
  rewrite (H x (or_introl eq_refl)). apply IH. intros y Hy. apply H. now right.
Qed.

(* ---------- the chain of open blocks inside a history ---------- *)

Definition ge_head (l : nat) (e : nat * list string) : bool := Nat.leb l (fst e).

Fixpoint chain (h : hist) : hist :=
  match h with
  | [] => []
  | e :: r => e :: dropwhile (ge_head (fst e)) (chain r)
  end.

Lemma find_chain b : forall h,
  find (fun e : nat * list string => Nat.ltb (fst e) b) h =
  find (fun e : nat * list string => Nat.ltb (fst e) b) (chain h).
Proof.
  induction h as [|e r IH]; cbn [chain find]; [reflexivity|].
  destruct (Nat.ltb_spec (fst e) b) as [H|H]; [reflexivity|].
  rewrite find_dropwhile; [exact IH|].
  intros x Hx. unfold ge_head in Hx. apply Nat.leb_le in Hx.
  apply Nat.ltb_ge. lia.
Qed.

(* increments between consecutive open columns *)
Fixpoint indents_of (ls : list nat) : list nat :=
  match ls with
  | l :: ((l' :: _) as r) => (l - l') :: indents_of r
  | _ => []
  end.

Definition curr_of (g : nat) (ls : list nat) : nat :=
  match ls with l :: _ => l - g | [] => 0 end.

(* well-formed chain: columns strictly decrease down to g, each path extends the next *)
Inductive wfc (g : nat) : hist -> Prop :=
| wfc_base r : wfc g [(g, [r])]
| wfc_push l r l' p' c : wfc g ((l', p') :: c) -> l' < l -> wfc g ((l, p' ++ [r]) :: (l', p') :: c).

Lemma wfc_ge g c : wfc g c -> Forall (fun e => g <= fst e) c.
Proof.
  induction 1 as [r|l r l' p' c H IH Hl].
  - constructor; [cbn; lia|constructor].
  - constructor; [|exact IH]. inversion IH; subst. cbn in *. lia.
Qed.

Lemma wfc_len g c : wfc g c -> forall l p r, c = (l, p) :: r -> List.length p = S (List.length r).
Proof.
  induction 1 as [r0|l0 r0 l' p' c H IH Hl]; intros l p r E; injection E as E1 E2 E3; subst l p r.
  - reflexivity.
  - rewrite app_length. cbn. rewrite (IH _ _ _ eq_refl). lia.
Qed.

Lemma wfc_sorted g c : wfc g c -> forall l p r, c = (l, p) :: r -> Forall (fun e => fst e < l) r.
Proof.
  induction 1 as [r0|l0 r0 l' p' c H IH Hl]; intros l p r E; injection E as E1 E2 E3; subst l p r.
  - constructor.
  - constructor; [exact Hl|].
    specialize (IH _ _ _ eq_refl). eapply Forall_impl; [|exact IH]. cbn. intros a Ha. lia.
Qed.

(* every suffix's head path is a prefix of the innermost path *)
Lemma wfc_prefix g c : wfc g c -> forall l p r, c = (l, p) :: r ->
  forall c1 l2 p2 r2, c = c1 ++ (l2, p2) :: r2 -> p2 = firstn (S (List.length r2)) p.
Proof.
  induction 1 as [r0|l0 r0 l' p' c H IH Hl]; intros l p r E c1 l2 p2 r2 E2; injection E as Ea Eb Ec; subst l p r.
  - destruct c1 as [|x c1].
    + injection E2 as E2a E2b E2c; subst l2 p2 r2. reflexivity.
    + destruct c1; discriminate.
  - destruct c1 as [|x c1].
    + injection E2 as E2a E2b E2c; subst l2 p2 r2. cbn [List.length].
      pose proof (wfc_len _ _ H _ _ _ eq_refl) as L.
      rewrite firstn_all2; [reflexivity|]. rewrite app_length. cbn. lia.
    + cbn in E2. injection E2 as _ E2.
      specialize (IH _ _ _ eq_refl c1 l2 p2 r2 E2).
      rewrite IH at 1.
      pose proof (wfc_len _ _ H _ _ _ eq_refl) as L.
      assert (S (List.length r2) <= List.length p').
      { rewrite L. apply (f_equal (@List.length _)) in E2. rewrite app_length in E2. cbn in E2. lia. }
      rewrite firstn_app. replace (S (List.length r2) - List.length p') with 0 by lia.
      cbn [firstn]. rewrite app_nil_r. reflexivity.
Qed.

Lemma dropwhile_suffix {A} (f : A -> bool) l : exists l1, l = l1 ++ dropwhile f l /\ Forall (fun x => f x = true) l1.
Proof.
  induction l as [|x r (l1 & E & F)]; cbn.
  - exists []. split; [reflexivity|constructor].
  - destruct (f x) eqn:Fx.
    + exists (x :: l1). split; [cbn; f_equal; exact E|constructor; assumption].
    + exists []. split; [reflexivity|constructor].
Qed.

(* pop_loop on the increments = dropping the open columns right of lvl *)
Lemma pop_loop_chain g lvl : forall c, wfc g c -> g <= lvl ->
  pop_loop (indents_of (map fst c)) (curr_of g (map fst c)) (lvl - g) =
  (indents_of (map fst (dropwhile (fun e => Nat.ltb lvl (fst e)) c)),
   curr_of g (map fst (dropwhile (fun e => Nat.ltb lvl (fst e)) c))).
Proof.
  induction 1 as [r0|l0 r0 l' p' c H IH Hl]; intros Hg.
  - cbn. destruct (Nat.ltb_spec lvl g); [lia|]. reflexivity.
  - cbn [map fst indents_of curr_of pop_loop dropwhile].
    pose proof (wfc_ge _ _ H) as G. inversion G as [|? ? G1 _]; subst. cbn in G1.
    destruct (Nat.ltb_spec (lvl - g) (l0 - g)) as [A|A];
      destruct (Nat.ltb_spec lvl l0) as [B|B]; try lia.
    + replace (l0 - g - (l0 - l')) with (l' - g) by lia.
      specialize (IH Hg). cbn [map fst curr_of] in IH. exact IH.
    + reflexivity.
Qed.

Lemma indents_of_length ls : List.length (indents_of ls) = pred (List.length ls).
Proof.
  induction ls as [|l [|l' r] IH]; cbn in *; try reflexivity. rewrite IH. reflexivity.
Qed.

(* ---------- the invariant ---------- *)

Definition Inv (s : pstate) (h : hist) (acc : forest) : Prop :=
  ps_tree s = acc /\
  match chain h with
  | [] => ps_g s = None /\ ps_indents s = [] /\ ps_curr s = 0
  | (l, p) :: r =>
    exists g, ps_g s = Some g /\ wfc g (chain h) /\
              ps_indents s = indents_of (map fst (chain h)) /\
              ps_curr s = l - g /\ ps_stack s = p /\
              Forall (fun e => g <= fst e) h
  end.

Lemma chain_nil h : chain h = [] -> h = [].
Proof. destruct h; [reflexivity|discriminate]. Qed.

(* shape of the chain after dropping the columns >= lvl: what the new line hangs under *)
Lemma ref_path_chain g c lvl row l p r :
  wfc g c -> c = (l, p) :: r ->
  match find (fun e : nat * list string => Nat.ltb (fst e) lvl) c with
  | Some (_, pp) => pp ++ [row]
  | None => [row]
  end = firstn (List.length (dropwhile (ge_head lvl) c)) p ++ [row].
Proof.
  intros W E.
  destruct (dropwhile_suffix (ge_head lvl) c) as (c1 & E1 & F1).
  assert (Hf : find (fun e : nat * list string => Nat.ltb (fst e) lvl) c =
               find (fun e : nat * list string => Nat.ltb (fst e) lvl) (dropwhile (ge_head lvl) c)).
  { symmetry. apply find_dropwhile. intros x Hx. unfold ge_head in Hx.
    apply Nat.leb_le in Hx. apply Nat.ltb_ge. exact Hx. }
  rewrite Hf.
  destruct (dropwhile (ge_head lvl) c) as [|[l2 p2] r2] eqn:D.
  - reflexivity.
  - assert (Hd : ge_head lvl (l2, p2) = false).
    { clear -D. induction c as [|x c IH]; cbn in D; [discriminate|].
      destruct (ge_head lvl x) eqn:X; [auto|]. injection D as -> _. exact X. }
    unfold ge_head in Hd. cbn [fst] in Hd. apply Nat.leb_gt in Hd.
    cbn [find fst]. destruct (Nat.ltb_spec l2 lvl); [|lia].
    rewrite (wfc_prefix _ _ W _ _ _ E c1 l2 p2 r2 E1). reflexivity.
Qed.

Lemma dropwhile_false_head {A} (f : A -> bool) l x r : dropwhile f l = x :: r -> f x = false.
Proof.
  induction l as [|y l IH]; cbn; [discriminate|].
  destruct (f y) eqn:Y; [exact IH|]. intros E. injection E as -> _. exact Y.
Qed.

Lemma wfc_all_ge_eq g c lvl : wfc g c -> g <= lvl ->
  Forall (fun x => ge_head lvl x = true) c -> lvl = g.
Proof.
  induction 1 as [r0|l0 r0 l' p' c H IH Hl]; intros Hg F.
  - inversion F as [|? ? Hx _]; subst. unfold ge_head in Hx. cbn in Hx. apply Nat.leb_le in Hx. lia.
  - inversion F as [|? ? _ F2]; subst. apply IH; assumption.
Qed.

(* pushing a new line on a well-formed chain keeps it well formed *)
Lemma wfc_new g c lvl row l p r :
  wfc g c -> c = (l, p) :: r -> g <= lvl ->
  wfc g ((lvl, firstn (List.length (dropwhile (ge_head lvl) c)) p ++ [row]) :: dropwhile (ge_head lvl) c).
Proof.
  intros W E Hg.
  destruct (dropwhile_suffix (ge_head lvl) c) as (c1 & E1 & F1).
  destruct (dropwhile (ge_head lvl) c) as [|[l2 p2] r2] eqn:D.
  - (* everything was at or right of lvl: lvl = g *)
    cbn. assert (lvl = g).
    { rewrite app_nil_r in E1. subst c1. eapply wfc_all_ge_eq; eauto. }
    subst. constructor.
  - pose proof (dropwhile_false_head _ _ _ _ D) as Hd. unfold ge_head in Hd. cbn in Hd.
    apply Nat.leb_gt in Hd.
    cbn [List.length]. rewrite <- (wfc_prefix _ _ W _ _ _ E c1 l2 p2 r2 E1).
    constructor; [|exact Hd].
    (* a suffix of a well-formed chain is well formed *)
    clear -W E1. revert c W E1. induction c1 as [|x c1 IH]; intros c W E1.
    + cbn in E1. subst. exact W.
    + destruct W as [r0|l0 r0 l' p' c' W' Hl].
      * destruct c1; discriminate.
      * cbn in E1. injection E1 as _ E1. eapply IH; eauto.
Qed.

Lemma indents_of_cons_irrel l p p' (c : hist) :
  indents_of (map fst ((l, p) :: c)) = indents_of (map fst ((l, p') :: c)).
Proof. reflexivity. Qed.

(* relation between the two dropwhiles when the column lvl itself is open *)
Lemma dropwhile_lt_ge g c lvl : wfc g c ->
  forall l2 p2 r2, dropwhile (fun e => Nat.ltb lvl (fst e)) c = (l2, p2) :: r2 ->
  l2 = lvl -> dropwhile (ge_head lvl) c = r2.
Proof.
  induction 1 as [r0|l0 r0 l' p' c H IH Hl]; intros l2 p2 r2 D E.
  - cbn in D. destruct (Nat.ltb_spec lvl g); [discriminate|]. injection D as <- <- <-. subst.
    cbn. unfold ge_head. cbn. rewrite Nat.leb_refl. reflexivity.
  - cbn [dropwhile fst] in D. destruct (Nat.ltb_spec lvl l0) as [A|A].
    + cbn [dropwhile]. unfold ge_head at 1. cbn [fst].
      destruct (Nat.leb_spec lvl l0); [|lia]. eapply IH; eauto.
    + injection D as <- <- <-. subst l0.
      cbn [dropwhile]. unfold ge_head at 1. cbn [fst]. rewrite Nat.leb_refl.
      cbn [dropwhile]. unfold ge_head. cbn [fst]. destruct (Nat.leb_spec lvl l'); [lia|reflexivity].
Qed.

Lemma dropwhile_lt_nonempty g c lvl : wfc g c -> g <= lvl ->
  exists l2 p2 r2, dropwhile (fun e => Nat.ltb lvl (fst e)) c = (l2, p2) :: r2 /\ l2 <= lvl.
Proof.
  induction 1 as [r0|l0 r0 l' p' c H IH Hl]; intros Hg.
  - cbn. destruct (Nat.ltb_spec lvl g); [lia|]. eauto.
  - cbn [dropwhile fst]. destruct (Nat.ltb_spec lvl l0) as [A|A]; [auto|eauto].
Qed.

Lemma find_le_chain g c lvl : wfc g c ->
  find (fun e : nat * list string => Nat.leb (fst e) lvl) c =
  match dropwhile (fun e => Nat.ltb lvl (fst e)) c with [] => None | x :: _ => Some x end.
Proof.
  induction 1 as [r0|l0 r0 l' p' c H IH Hl].
  - cbn. destruct (Nat.leb_spec g lvl); destruct (Nat.ltb_spec lvl g); try lia; reflexivity.
  - cbn [find dropwhile fst].
    destruct (Nat.leb_spec l0 lvl); destruct (Nat.ltb_spec lvl l0); try lia; [reflexivity|exact IH].
Qed.

Lemma find_le_as_lt lvl (h : hist) :
  find (fun e : nat * list string => Nat.leb (fst e) lvl) h =
  find (fun e : nat * list string => Nat.ltb (fst e) (S lvl)) h.
Proof. reflexivity. Qed.

(* ---------- one content line ---------- *)

Lemma content_step_ref s h acc lvl row :
  Inv s h acc ->
  match content_step s lvl row with
  | None => ref_consistent h lvl = false
  | Some s' => ref_consistent h lvl = true /\
               Inv s' ((lvl, ref_path h lvl row) :: h) (ins (ref_path h lvl row) acc)
  end.
Proof.
  intros [Ht Hc]. destruct (chain h) as [|[l p] r] eqn:C.
  - (* first line of a section *)
    apply chain_nil in C. subst h. destruct Hc as (Hg & Hi & Hcur).
    unfold content_step. rewrite Hg, Hcur, Hi. rewrite Nat.ltb_irrefl. rewrite Nat.sub_diag.
    change (Nat.ltb 0 0) with false. cbn iota. cbn [List.length]. rewrite stacked_firstn. cbn [firstn app].
    split; [reflexivity|]. unfold ref_path. cbn [find]. split; [cbn; rewrite Ht; reflexivity|].
    cbn [chain dropwhile fst]. exists lvl. cbn [ps_g ps_indents ps_curr ps_stack map fst indents_of].
    repeat split; try reflexivity; try lia.
    + constructor.
    + constructor; [cbn; lia|constructor].
  - destruct Hc as (g & Hg & W & Hi & Hcur & Hst & Hall). rewrite <- C in W, Hi.
    assert (Hh : exists p0 h0, h = (l, p0) :: h0 /\ p0 = p).
    { destruct h as [|[l0 p0] h0]; [discriminate|]. cbn in C. injection C as -> -> _. eauto. }
    destruct Hh as (p0 & h0 & Eh & ->).
    pose proof (wfc_ge _ _ W) as G. rewrite C in G. inversion G as [|? ? Gl _]; subst x l0. cbn in Gl.
    unfold content_step. rewrite Hg.
    destruct (Nat.ltb_spec lvl g) as [Hlt|Hge].
    { (* left of the section's first line *)
      unfold ref_consistent. rewrite Eh. rewrite <- Eh.
      destruct (Nat.ltb_spec l lvl); [lia|]. cbn [orb].
      replace (find _ h) with (@None (nat * list string)); [reflexivity|].
      symmetry. apply find_none_intro. intros x Hx.
      rewrite Forall_forall in Hall. specialize (Hall x Hx). apply Nat.leb_gt. lia. }
    rewrite Hcur.
    assert (Rp : ref_path h lvl row = firstn (List.length (dropwhile (ge_head lvl) (chain h))) p ++ [row]).
    { unfold ref_path. rewrite find_chain. rewrite C. apply (ref_path_chain g _ lvl row l p r); [rewrite <- C; exact W|reflexivity]. }
    assert (Wn : wfc g ((lvl, ref_path h lvl row) :: dropwhile (ge_head lvl) (chain h))).
    { rewrite Rp. rewrite C. apply (wfc_new g _ lvl row l p r); [rewrite <- C; exact W|reflexivity|exact Hge]. }
    assert (Hall' : Forall (fun e : nat * list string => g <= fst e) ((lvl, ref_path h lvl row) :: h)).
    { constructor; [cbn; lia|exact Hall]. }
    destruct (Nat.ltb_spec (l - g) (lvl - g)) as [Hchild|Hnc].
    + (* deeper than the previous line *)
      assert (Hll : l < lvl) by lia.
      cbn [List.length]. rewrite Hi, indents_of_length, map_length, C. cbn [List.length pred].
      assert (Dn : dropwhile (ge_head lvl) (chain h) = chain h).
      { rewrite C. cbn. unfold ge_head. cbn. destruct (Nat.leb_spec lvl l); [lia|reflexivity]. }
      split.
      { unfold ref_consistent. rewrite Eh. destruct (Nat.ltb_spec l lvl); [reflexivity|lia]. }
      split; [cbn [ps_tree]; rewrite Ht, Rp, Dn, C, stacked_firstn, Hst; reflexivity|].
      cbn [chain fst]. change (dropwhile (ge_head lvl) (chain h)) with (dropwhile (ge_head lvl) (chain h)).
      rewrite Dn in *. rewrite C in *.
      exists g. cbn [ps_g ps_indents ps_curr ps_stack].
      repeat split; try assumption; try reflexivity.
      * cbn [map fst indents_of]. f_equal. lia.
      * rewrite stacked_firstn, Hst. rewrite Rp. reflexivity.
    + destruct (dropwhile_lt_nonempty g (chain h) lvl W Hge) as (l2 & p2 & r2 & D2 & Hl2).
      assert (Pop : (if Nat.ltb (lvl - g) (l - g)
                     then let '(ind, curr) := pop_loop (ps_indents s) (l - g) (lvl - g) in (ind, curr, Nat.eqb curr (lvl - g))
                     else (ps_indents s, l - g, true)) =
                    (indents_of (map fst ((l2, p2) :: r2)), l2 - g, Nat.eqb l2 lvl)).
      { destruct (Nat.ltb_spec (lvl - g) (l - g)) as [Hd|Hs].
        - rewrite Hi. pose proof (pop_loop_chain g lvl _ W Hge) as PL.
          rewrite C in PL at 2. cbn [map fst curr_of] in PL. rewrite PL, D2. cbn [map fst curr_of].
          f_equal. pose proof (wfc_ge _ _ W) as G2.
          destruct (Nat.eqb_spec (l2 - g) (lvl - g)); destruct (Nat.eqb_spec l2 lvl); try reflexivity; try lia.
          exfalso. destruct (dropwhile_suffix (fun e => Nat.ltb lvl (fst e)) (chain h)) as (c1 & E1 & _).
          rewrite D2 in E1. rewrite E1 in G2. apply Forall_app in G2 as [_ G2]. inversion G2; subst. cbn in *. lia.
        - assert (l = lvl) by lia. subst lvl.
          rewrite C in D2. cbn in D2. rewrite Nat.ltb_irrefl in D2. injection D2 as <- <- <-.
          rewrite Hi, C. rewrite Nat.eqb_refl. reflexivity. }
      rewrite Pop. clear Pop.
      assert (Cons : ref_consistent h lvl = Nat.eqb l2 lvl).
      { unfold ref_consistent. rewrite Eh. rewrite <- Eh.
        destruct (Nat.ltb_spec l lvl); [lia|]. cbn [orb].
        rewrite find_le_as_lt, find_chain. change (find (fun e : nat * list string => Nat.ltb (fst e) (S lvl)) (chain h))
          with (find (fun e : nat * list string => Nat.leb (fst e) lvl) (chain h)).
        rewrite (find_le_chain g _ lvl W), D2. reflexivity. }
      destruct (Nat.eqb_spec l2 lvl) as [E2|E2]; [|exact Cons].
      split; [exact Cons|].
      pose proof (dropwhile_lt_ge g _ lvl W _ _ _ D2 E2) as Dge.
      rewrite indents_of_length, map_length. cbn [List.length pred].
      split; [cbn [ps_tree]; rewrite Ht, Rp, Dge, stacked_firstn, Hst; reflexivity|].
      cbn [chain fst]. rewrite Dge in *.
      exists g. cbn [ps_g ps_indents ps_curr ps_stack].
      repeat split; try assumption; try reflexivity.
      * subst l2. reflexivity.
      * subst l2. reflexivity.
      * rewrite stacked_firstn, Hst, Rp. reflexivity.
Qed.

Lemma Inv_reset s h acc : Inv s h acc -> Inv (reset_state s) [] acc.
Proof. intros [Ht _]. split; [exact Ht|]. cbn. auto. Qed.

Theorem parse_items_ref : forall its n s h acc,
  Inv s h acc -> parse_items its n s = ref_items its n h acc.
Proof.
  induction its as [|it its IH]; intros n s h acc I.
  - cbn. destruct I as [-> _]. reflexivity.
  - destruct it as [lvl row| |]; cbn [parse_items ref_items].
    + pose proof (content_step_ref s h acc lvl row I) as S.
      destruct (content_step s lvl row) as [s'|].
      * destruct S as [-> I']. apply IH. exact I'.
      * rewrite S. reflexivity.
    + apply IH. eapply Inv_reset. exact I.
    + apply IH. exact I.
Qed.

Lemma Inv_init : Inv ps_init [] [].
Proof. split; [reflexivity|]. cbn. auto. Qed.

Theorem parse_text_is_offside comments text :
  parse_text comments text = ref_parse comments text.
Proof. unfold parse_text, parse_lines, ref_parse. apply parse_items_ref. exact Inv_init. Qed.

(* ---------- corollaries on the reference ---------- *)

Definition no_lineno (r : result) : result :=
  match r with Ok f => Ok f | Err _ row => Err 0 row end.

Definition not_skip (i : item) : bool := match i with Skip => false | _ => true end.

(* blank and comment lines are irrelevant (they only shift the reported line number) *)
Lemma ref_items_skip_irrelevant : forall its n m h acc,
  no_lineno (ref_items its n h acc) = no_lineno (ref_items (filter not_skip its) m h acc).
Proof.
  induction its as [|it its IH]; intros n m h acc; [reflexivity|].
  destruct it as [lvl row| |]; cbn [filter not_skip ref_items].
  - destruct (ref_consistent h lvl); [apply IH|reflexivity].
  - apply IH.
  - apply IH.
Qed.

Lemma ins_idem : forall p f, ins p (ins p f) = ins p f.
Proof.
  induction p as [|k p IH]; intros f; [reflexivity|].
  induction f as [|[k' v] f IHf]; cbn.
  - rewrite String.eqb_refl. cbn. rewrite IH. reflexivity.
  - destruct (String.eqb k k') eqn:E; cbn; rewrite E.
    + cbn. rewrite IH. reflexivity.
    + f_equal. exact IHf.
Qed.

(* a repeated identical line at the same place merges: the tree is unchanged *)
Lemma ref_items_dup_merge its n h acc lvl row :
  ref_consistent h lvl = true ->
  exists h', ref_items (Content lvl row :: Content lvl row :: its) n h acc =
             ref_items its (S (S n)) h' (ins (ref_path h lvl row) acc).
Proof.
  intros Hc. cbn [ref_items]. rewrite Hc.
  set (p := ref_path h lvl row).
  assert (Hc2 : ref_consistent ((lvl, p) :: h) lvl = true).
  { unfold ref_consistent. cbn [find fst]. rewrite Nat.leb_refl, Nat.eqb_refl. apply orb_true_r. }
  rewrite Hc2.
  assert (Hp : ref_path ((lvl, p) :: h) lvl row = p).
  { unfold ref_path. cbn [find fst]. rewrite Nat.ltb_irrefl. reflexivity. }
  rewrite Hp, ins_idem. eexists. reflexivity.
Qed.
